import GqlgenVerif.Model.Rewrite
import GqlgenVerif.Model.RewriteSpec
import GqlgenVerif.Model.PruneWalk
/-!
# C19 - identifiers of the user's code that shadow a package the resolver template reserves

`resolver.gotpl` reserves `context fmt io strconv time sync errors bytes gqlparser ast graphql introspection` in
every resolver file and leaves it to `imports.Prune` to delete what the file does not use. The user's bodies are
copied verbatim, so a file may well contain `time.Zone` where `time` is the parameter gqlgen itself derived from
the schema argument `time: Slot!`, or `errors := collect(); … errors.Text`. If such a base counted as a use of the
package, the speculative import would survive and the file would stop compiling ("imported and not used") after a
change that only added a field.

All statements are over the REGENERATED facts of `internal/imports/prune.go` (`Gen/PruneFacts.lean`: the parser
flags of `Prune`, the `xident.Obj != nil` guard of `getUnusedImports`, the exemptions of the report) and quantify
over every list of selector bases / imports. They stop closing when `parser.SkipObjectResolution` is added to the
flags, when the guard goes, or when the report changes.
-/
namespace GqlgenVerif.Props.C19Prune
open GqlgenVerif.Rewrite GqlgenVerif.PruneWalk GqlgenVerif.Gen.PruneFacts

/-- the parse whose result `getUnusedImports` walks fills `Ident.Obj` -/
theorem prune_parse_resolves_objects : resolvesObjects = true := by decide

/-- the walk marks a selector base used iff no declaration of the file binds it -/
theorem counts_as_use_iff_unresolved (b : SelBase) : countsAsUse b = !b.resolved := by
  have hg : skipResolvedBase = true := by decide
  unfold countsAsUse countsAsUseWith
  simp only [prune_parse_resolves_objects, hg, Bool.true_and]

/-- **Impl = Spec for the set of used names**: what `getUnusedImports` collects is exactly what Go's scoping
allows to be a package reference - for every file. -/
theorem used_names_are_package_refs (sels : List SelBase) : usedNames sels = pkgRefs sels := by
  have h : countsAsUseWith resolvesObjects skipResolvedBase = fun b => !b.resolved :=
    funext counts_as_use_iff_unresolved
  unfold usedNames usedNamesWith pkgRefs
  rw [h]

/-- a name that only ever occurs as a parameter / local / … is not a use, however often it is selected from -/
theorem shadowed_base_is_no_use (sels : List SelBase) (n : String)
    (h : ∀ b ∈ sels, b.name = n → b.resolved = true) : n ∉ usedNames sels := by
  rw [used_names_are_package_refs]
  unfold pkgRefs
  intro hn
  obtain ⟨b, hb, hbn⟩ := List.mem_map.mp hn
  have hb' := List.mem_filter.mp hb
  have := h b hb'.1 hbn
  simp [this] at hb'

example : "time" ∉ usedNames [⟨"time", true⟩, ⟨"fmt", false⟩, ⟨"time", true⟩] :=
  shadowed_base_is_no_use _ _ (by decide)

/-- … while one genuine package reference anywhere in the file is enough (another method of the same file calls
`time.Now()`) -/
theorem package_ref_is_a_use (sels : List SelBase) (b : SelBase) (hb : b ∈ sels) (hr : b.resolved = false) :
    b.name ∈ usedNames sels := by
  rw [used_names_are_package_refs]
  unfold pkgRefs
  exact List.mem_map.mpr ⟨b, List.mem_filter.mpr ⟨hb, by simp [hr]⟩, rfl⟩

example : "time" ∈ usedNames [⟨"time", true⟩, ⟨"time", false⟩] := package_ref_is_a_use _ ⟨"time", false⟩ (by decide) rfl

/-- the report of unused imports, as regenerated, is `prune` of the rewrite model (on which `imports_kept_partial`
of Props/C19 rests): only `_`, `.` and used names are exempt -/
theorem prune_is_the_regenerated_report (used : List String) (l : List Import) :
    l.filter (fun i => keepName used (printedLocal i)) = prune used l := by
  unfold prune
  apply List.filter_congr
  intro i _
  show keepNameWith neverUnused dropsUsed used (printedLocal i) = _
  have hn : neverUnused = ["_", "."] := by decide
  have hd : dropsUsed = true := by decide
  rw [hn, hd]
  unfold keepNameWith
  simp only [List.contains_cons, List.contains_nil, Bool.or_false, Bool.true_and, Bool.or_assoc]

/-- **No unusable import survives**, for every set of reserved / user imports and every file: whatever `Prune`
leaves is `_`, `.` or visible under a name that some selector of the file can really refer to. In particular a
speculative template import (`time`, `errors`, …) whose name occurs only as a shadowing parameter or local is
deleted. -/
theorem no_unusable_import_survives (sels : List SelBase) (l : List Import) (i : Import)
    (hi : i ∈ prune (usedNames sels) l) :
    printedLocal i = "_" ∨ printedLocal i = "." ∨ printedLocal i ∈ pkgRefs sels := by
  unfold prune at hi
  have h := (List.mem_filter.mp hi).2
  rw [used_names_are_package_refs] at h
  simp only [Bool.or_eq_true, beq_iff_eq, List.contains_eq_mem, decide_eq_true_eq] at h
  rcases h with (h | h) | h
  · exact Or.inl h
  · exact Or.inr (Or.inl h)
  · exact Or.inr (Or.inr h)

theorem shadowed_template_import_is_pruned (user : List Import) (sels : List SelBase) (n : String)
    (hn : n ≠ "_" ∧ n ≠ ".") (h : ∀ b ∈ sels, b.name = n → b.resolved = true) :
    ∀ i ∈ prune (usedNames sels) (reserve user), printedLocal i ≠ n := by
  intro i hi heq
  have hno := shadowed_base_is_no_use sels n h
  rw [used_names_are_package_refs] at hno
  rcases no_unusable_import_survives sels _ i hi with h1 | h1 | h1
  · exact hn.1 (heq ▸ h1)
  · exact hn.2 (heq ▸ h1)
  · exact hno (heq ▸ h1)

/-- non-vacuity: the parameter `time model.Slot` read as `time.Zone`, the local `errors` read as `errors.Text`, a
body that panics with `fmt.Errorf`: of the twelve template imports only `fmt` is left -/
example : (prune (usedNames [⟨"time", true⟩, ⟨"errors", true⟩, ⟨"fmt", false⟩]) (reserve [])).map (·.path) = ["fmt"] := by
  decide

/-- and a genuine use keeps its import -/
theorem package_ref_keeps_import (sels : List SelBase) (l : List Import) (i : Import) (hi : i ∈ l)
    (b : SelBase) (hb : b ∈ sels) (hr : b.resolved = false) (hn : printedLocal i = b.name) :
    i ∈ prune (usedNames sels) l := by
  unfold prune
  refine List.mem_filter.mpr ⟨hi, ?_⟩
  have := package_ref_is_a_use sels b hb hr
  simp [hn, this]

/-- **Impl ⊨ Spec** (`Spec.unusedBy`, the "imported and not used" clause): among the imports `Prune` leaves, each
under the name it is visible as in the written file, none is unusable - for every file and import list. -/
theorem spec_no_unused_import_on_model (sels : List SelBase) (l : List Import) :
    Spec.unusedBy printedLocal (prune (usedNames sels) l) sels = [] := by
  unfold Spec.unusedBy
  apply List.filter_eq_nil_iff.mpr
  intro i hi
  rcases no_unusable_import_survives sels l i hi with h | h | h <;> simp [h]

/-- what the seeded change does, on a witness: parsed with `SkipObjectResolution` the guard never fires, the
parameter `time` counts as a use, the speculative import stays - and the file does not compile -/
theorem skip_object_resolution_keeps_shadowed_import_witness :
    let sels : List SelBase := [⟨"time", true⟩, ⟨"fmt", false⟩]
    let used := usedNamesWith (resolvesWith ["ParseComments", "AllErrors", "SkipObjectResolution"]) true sels
    (prune used (reserve [])).map (·.path) = ["fmt", "time"] ∧
    (Spec.unusedIn (prune used (reserve [])) sels).map (·.path) = ["time"] := by
  decide

/-- the same without the guard -/
theorem without_guard_keeps_shadowed_import_witness :
    let sels : List SelBase := [⟨"errors", true⟩, ⟨"fmt", false⟩]
    (prune (usedNamesWith true false sels) (reserve [])).map (·.path) = ["fmt", "errors"] := by
  decide

end GqlgenVerif.Props.C19Prune
