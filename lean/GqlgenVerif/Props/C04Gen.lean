import GqlgenVerif.Gen.GoBoundaries
import GqlgenVerif.Gen.ServeRecover
import GqlgenVerif.Model.Serve
/-!
# C04 (panic containment facts of the generated code)

`Gen/GoBoundaries.lean` is re-extracted on every run from a server **generated at check time** from
/repo's current templates (probe schema, base configuration). These theorems are what entitles the
execution model to have no "crash" outcome: every goroutine the generated package starts, and every
closure it hands to `FieldSet.Dispatch`, either begins with `defer func(){ recover() … }()`, or only
delegates to one that does, or calls nothing but gqlgen's runtime; and every field function `_T_f`
(inside which all user code — resolver, schema directives, field interceptors, argument unmarshalers —
is called) installs a recover. Removing any recover from a template makes one of these `decide`s fail.
-/
namespace GqlgenVerif.C04Gen
open GqlgenVerif.Gen.GoBoundaries

theorem all_go_statements_protected :
    goStmts.all (fun x => x.2 == "recover-first" || x.2 == "runtime-only") = true := by decide

theorem all_concurrent_closures_delegate :
    concurrentClosures.all (fun x => x.2 == "delegates-to-innerFunc" || x.2 == "delegates-to-rrm") = true := by
  decide

theorem all_innerFuncs_recover : innerFuncs.all (fun x => x.2 == "recover-first") = true := by decide

theorem all_field_functions_recover : fieldFuncs.all (fun x => x.2 == "recover") = true := by decide

/-- non-vacuity: the probe's generated code has goroutines, concurrent closures and field functions -/
theorem facts_nonempty :
    goStmts.length > 5 ∧ concurrentClosures.length > 5 ∧ innerFuncs.length > 5 ∧ fieldFuncs.length > 20 := by
  decide

/-! ### a panic raised while serializing a value (it escapes every generated recover) -/
open GqlgenVerif.Serve GqlgenVerif.Gen.ServeRecover in
/-- today's `ServeHTTP`, as extracted -/
def genServe : Serve.Cfg := ⟨serveFirst, servePresents, serveStatus, serveWritesBody⟩

/-- **A panic raised while serializing a value fails only that response with a well-formed error body**:
    over today's `ServeHTTP`, for every panic value and every recover hook, the client gets status 422 with
    a GraphQL error body carrying what the hook returned, and the hook ran exactly once. -/
theorem serialization_panic_contained (present : String → String) (v : String) :
    Serve.serveOne genServe present (.panic v) =
      (.errorBody "StatusUnprocessableEntity" (present v), { recovers := 1 }) := by
  simp [Serve.serveOne, genServe, Gen.ServeRecover.serveFirst, Gen.ServeRecover.servePresents,
    Gen.ServeRecover.serveStatus, Gen.ServeRecover.serveWritesBody]

/-- **… and only that response**: in any sequence of requests served by the process, each answer is the
    answer to that request alone (a panicking request changes nothing for its neighbours), and no request is
    left without an answer. -/
theorem only_that_response_fails (present : String → String) (before after : List Serve.Ran) (r : Serve.Ran) :
    (Serve.serveAll genServe present (before ++ r :: after))[before.length]? =
      some (Serve.serveOne genServe present r) ∧
    ∀ x ∈ Serve.serveAll genServe present (before ++ r :: after), x.1 ≠ .connectionAborted := by
  constructor
  · induction before with
    | nil => simp [Serve.serveAll]
    | cons b bs ih => simpa [Serve.serveAll] using ih
  · intro x hx
    have : ∀ l : List Serve.Ran, ∀ x ∈ Serve.serveAll genServe present l, x.1 ≠ .connectionAborted := by
      intro l
      induction l with
      | nil => intro x hx; simp [Serve.serveAll] at hx
      | cons a as ih =>
        intro x hx
        simp only [Serve.serveAll, List.mem_cons] at hx
        rcases hx with rfl | hx
        · cases a <;> simp [Serve.serveOne, genServe, Gen.ServeRecover.serveFirst, Gen.ServeRecover.servePresents,
            Gen.ServeRecover.serveStatus, Gen.ServeRecover.serveWritesBody]
        · exact ih x hx
    exact this _ x hx

/-- the statement rests on the recover: without it as the first statement the same request gets no response -/
theorem serve_without_recover_witness :
    (Serve.serveOne { genServe with first := "other" } id (.panic "boom")).1 = .connectionAborted := by decide

/-- every goroutine transport/websocket.go starts either runs no user code or installs its recover first
    (the subscription goroutine: a panic while serializing an event ends that operation with an error frame) -/
theorem websocket_goroutines_protected :
    Gen.ServeRecover.wsGoStmts.all (fun x => x.2 == "recover-first" || x.2 == "no-user-code") = true ∧
    Gen.ServeRecover.wsGoStmts.any (fun x => x.2 == "recover-first") = true := by decide

end GqlgenVerif.C04Gen
