import GqlgenVerif.Gen.GoBoundaries
/-!
# C04 (panic containment facts of the generated code)

`Gen/GoBoundaries.lean` is re-extracted on every run from a server **generated at check time** from
/repo's current templates (probe schema, base configuration). These theorems are what entitles the
execution model to have no "crash" outcome: every goroutine the generated package starts, and every
closure it hands to `FieldSet.Dispatch`, either begins with `defer func(){ recover() … }()`, or only
delegates to one that does, or calls nothing but gqlgen's runtime; and every field function `_T_f`
(inside which all user code — resolver, schema directives, field interceptors, argument unmarshalers —
is called) installs a recover. Removing any recover from a template makes one of these `decide`s fail.
-/
namespace GqlgenVerif.C04Gen
open GqlgenVerif.Gen.GoBoundaries

theorem all_go_statements_protected :
    goStmts.all (fun x => x.2 == "recover-first" || x.2 == "runtime-only") = true := by decide

theorem all_concurrent_closures_delegate :
    concurrentClosures.all (fun x => x.2 == "delegates-to-innerFunc" || x.2 == "delegates-to-rrm") = true := by
  decide

theorem all_innerFuncs_recover : innerFuncs.all (fun x => x.2 == "recover-first") = true := by decide

theorem all_field_functions_recover : fieldFuncs.all (fun x => x.2 == "recover") = true := by decide

/-- non-vacuity: the probe's generated code has goroutines, concurrent closures and field functions -/
theorem facts_nonempty :
    goStmts.length > 5 ∧ concurrentClosures.length > 5 ∧ innerFuncs.length > 5 ∧ fieldFuncs.length > 20 := by
  decide

end GqlgenVerif.C04Gen
