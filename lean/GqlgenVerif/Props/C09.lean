import GqlgenVerif.Lemmas.Http
/-!
# C09 — HTTP: GET never mutates; status and content type follow the request outcome

All theorems quantify over every transport list (any order, duplicates, any `ResponseHeaders`) and every
request of `Model/Http.lean`: any method / content type / Accept list (unbounded), any document outcome
with an unbounded list of operations of any kinds and names, any `operationName`, any decode or gate
failure. The tables (`statusFor`, `statusForGraphQLResponse`, `codeType`, the cases of
`determineResponseContentType`, the GET guard) are the ones REGENERATED from `/repo` in
`Gen/HttpStatus.lean`, so an edit of those tables is an edit of these theorems' subject.

`s1 … s7` (Model/Http.lean, namespace `Spec`) are the sentences of the property written directly; the
theorems say `serve` - the model of the code as it is, tied to the code by the correspondence run -
satisfies each of them for all inputs. `violations_nil_iff` ties the executable checker the driver applies
to the implementation's own output to the same seven sentences.
-/
namespace GqlgenVerif.Props.C09
open GqlgenVerif.Http GqlgenVerif.Http.Spec GqlgenVerif.Gen.HttpStatus

/-! ## regenerated tables -/

/-- the GET guard (regenerated from GET.Do) refuses exactly the non-query kinds -/
theorem getRefuses_iff (k : AstOp) : getRefuses k = true ↔ k ≠ .astQuery := by
  cases k <;> decide

/-- … and refuses with a non-2xx status -/
theorem getRefused_not_2xx : is2xx getRefusedStatus = false := by decide

/-- parse and validation failures are protocol errors: 422 for application/json, 400 for
    application/graphql-response+json (regenerated statusFor / statusForGraphQLResponse / codeType) -/
theorem statusFor_protocol :
    statusFor (getErrorKind [some ParseFailed]) = 422 ∧ statusFor (getErrorKind [some ValidationFailed]) = 422 ∧
    statusForGraphQLResponse (getErrorKind [some ParseFailed]) = 400 ∧
    statusForGraphQLResponse (getErrorKind [some ValidationFailed]) = 400 := by decide

/-- whatever else stops a request before execution (no code, unmapped code) is answered 200 -/
theorem statusFor_user (c : Option String) (h1 : c ≠ some ParseFailed) (h2 : c ≠ some ValidationFailed) :
    statusFor (getErrorKind [c]) = 200 ∧ statusForGraphQLResponse (getErrorKind [c]) = 200 := by
  cases c with
  | none => decide
  | some s =>
    have a1 : ¬ ("GRAPHQL_PARSE_FAILED" = s) := fun h => h1 (by simp [← h, ParseFailed])
    have a2 : ¬ ("GRAPHQL_VALIDATION_FAILED" = s) := fun h => h2 (by simp [← h, ValidationFailed])
    simp [getErrorKind, lookupKind, codeType, List.find?, a1, a2, defaultKind, statusFor, statusForGraphQLResponse]

example : (some "PERSISTED_QUERY_NOT_FOUND") ≠ some ParseFailed ∧
    (some "PERSISTED_QUERY_NOT_FOUND") ≠ some ValidationFailed := by decide

theorem gateStatus_parse (ct : String) : gateStatus ct [some ParseFailed] = clientError ct := by
  have h := statusFor_protocol
  unfold gateStatus clientError
  simp only [acceptApplicationGraphqlResponseJson, gqlresp]
  by_cases hc : ct = "application/graphql-response+json" <;> simp [hc, h.1, h.2.2.1]

theorem gateStatus_validation (ct : String) : gateStatus ct [some ValidationFailed] = clientError ct := by
  have h := statusFor_protocol
  unfold gateStatus clientError
  simp only [acceptApplicationGraphqlResponseJson, gqlresp]
  by_cases hc : ct = "application/graphql-response+json" <;> simp [hc, h.2.1, h.2.2.2]

/-- the accept loop of determineResponseContentType is "the first part that names or covers a GraphQL
    response media type decides" -/
theorem acceptLoop_eq (parts : List (Option String)) :
    acceptLoop parts = (parts.findSome? wants).getD gqlresp := by
  induction parts with
  | nil => rfl
  | cons p rest ih =>
    cases p with
    | none => simpa [acceptLoop, wants, List.findSome?_cons] using ih
    | some mt =>
      by_cases h1 : mt = "application/json"
      · subst h1; rfl
      by_cases h2 : mt = "application/graphql-response+json"
      · subst h2; rfl
      by_cases h3 : mt = "*/*"
      · subst h3; rfl
      by_cases h4 : mt = "application/*"
      · subst h4; rfl
      have hw : wants (some mt) = none := by
        unfold wants; split <;> simp_all
      have hc : caseFor mt ctCases = none := by
        simp [caseFor, ctCases, h1, h2, h3, h4]
      simp [acceptLoop, hc, hw, ih]

/-- `determineResponseContentType` as it is in the source today is the negotiation of the property -/
theorem determineCT_eq_negotiate (e : Option String) (a : Option (List (Option String))) :
    determineCT e a = negotiate e a := by
  cases e with
  | some v => simp [determineCT, negotiate, ctExplicitWins]
  | none =>
    cases a with
    | none => rfl
    | some parts => simp [determineCT, negotiate, ctExplicitWins, acceptLoop_eq]

example : negotiate none (some [some "text/html", none, some "application/json", some "*/*"]) = json := by decide
example : negotiate none (some [some "text/html"]) = gqlresp := by decide
example : negotiate (some "text/x-custom") (some [some "application/json"]) = "text/x-custom" := by decide

/-! ## the seven sentences of the property -/

/-- Over GET only queries execute; a request naming a mutation or subscription (by operationName, or as
    the document's only operation) runs nothing and is answered with errors. -/
theorem get_executes_only_queries (srv : List Transport) (r : Req) : s1 srv r (serve srv r) := by
  intro hm
  have key : ∀ op, (serve srv r).executed = some op → op.kind = .astQuery ∧ Names (docOps r.doc) r.opName op := by
    intro op h
    generalize hs : serve srv r = o at h
    have sv := served srv r; rw [hs] at sv
    cases sv with
    | ran t op' b hg ho hd hgate hguard hb =>
      simp only [Option.some.injEq] at h; subst h
      have hsup := (supports_of_getTransport hg).2
      have hk : t.kind = .get := by
        cases hkk : t.kind <;> simp [supports, hkk, hm] at hsup <;> first | rfl | exact absurd hkk ho
      obtain ⟨_, l, hl, hf, _⟩ := gate_ok hgate
      refine ⟨?_, by simpa [docOps, hl] using forName_names hf⟩
      have := hguard hk
      cases hq : op'.kind <;> first | rfl | (rw [hq] at this; exact absurd this (by decide))
    | _ => simp at h
  refine ⟨fun op h => (key op h).1, ?_⟩
  intro hu op _ hn hq
  have hnone : (serve srv r).executed = none := by
    cases he : (serve srv r).executed with
    | none => rfl
    | some op' =>
      obtain ⟨hq', hn'⟩ := key op' he
      exact absurd (names_unique hu hn hn' ▸ hq') hq
  refine ⟨hnone, ?_⟩
  generalize hs : serve srv r = o at hnone
  have sv := served srv r; rw [hs] at sv
  cases sv <;> simp at hnone ⊢

example : (serve [⟨.get, ⟨none, false⟩⟩] {
        method := .get
        upgrade := false
        rct := .invalid
        accept := none
        dec := none
        paramErr := none
        doc := .ops [⟨.astQuery, "a"⟩, ⟨.astMutation, "b"⟩]
        opName := "b"
        varsOk := true
        execErr := false }) = { status := 406, ctype := some "application/json", body := .errors, executed := none } := by
  decide

/-- GET refuses the named non-query operation with the guard's status (406), runs nothing. -/
theorem get_refuses_non_query (srv : List Transport) (r : Req) (t : Transport) (op : Op)
    (ht : getTransport srv r = some t) (hk : t.kind = .get) (hd : r.dec.bind (decodeStatus .get) = none)
    (hg : gate r = .ok op) (hq : op.kind ≠ .astQuery) :
    (serve srv r).status = 406 ∧ (serve srv r).executed = none ∧ (serve srv r).body = .errors := by
  have hr : getRefuses op.kind = true := (getRefuses_iff _).2 hq
  simp [serve, ht, hk, doDocument, hd, hg, hr, getRefusedStatus]

/-- What executes is the operation the request names. -/
theorem executes_named_operation (srv : List Transport) (r : Req) : s2 srv r (serve srv r) := by
  intro op h
  generalize hs : serve srv r = o at h
  have sv := served srv r; rw [hs] at sv
  cases sv with
  | ran t op' b hg ho hd hgate hguard hb =>
    simp only [Option.some.injEq] at h; subst h
    obtain ⟨_, l, hl, hf, _⟩ := gate_ok hgate
    simpa [docOps, hl] using forName_names hf
  | _ => simp at h

/-- … and it is the only operation the request names, when operation names are unique. -/
theorem executes_the_named_operation (srv : List Transport) (r : Req) (op op' : Op)
    (hu : ((docOps r.doc).map (·.name)).Nodup) (h : (serve srv r).executed = some op)
    (hn : Names (docOps r.doc) r.opName op') : op' = op :=
  names_unique hu hn (executes_named_operation srv r op h)

example : (serve [⟨.post, ⟨none, false⟩⟩] {
        method := .post
        upgrade := false
        rct := .json
        accept := none
        dec := none
        paramErr := none
        doc := .ops [⟨.astQuery, "a"⟩, ⟨.astMutation, "b"⟩, ⟨.astQuery, "c"⟩]
        opName := "b"
        varsOk := true
        execErr := false }).executed = some ⟨.astMutation, "b"⟩ := by decide

/-- No resolver has run for any request answered with a non-2xx status. -/
theorem non2xx_ran_nothing (srv : List Transport) (r : Req) : s3 srv r (serve srv r) := by
  intro h
  generalize hs : serve srv r = o at h
  have sv := served srv r; rw [hs] at sv
  cases sv <;> first | rfl | (simp [is2xx] at h)

/-- A request whose execution started is always answered 200. -/
theorem started_is_200 (srv : List Transport) (r : Req) : s4 srv r (serve srv r) := by
  intro h
  generalize hs : serve srv r = o at h
  have sv := served srv r; rw [hs] at sv
  cases sv <;> first | rfl | (simp at h)

/-- A document that fails parsing or validation is answered with the client-error status defined for the
    negotiated media type (400 for application/graphql-response+json, 422 otherwise) and nothing runs. -/
theorem parse_validation_status (srv : List Transport) (r : Req) : s5 srv r (serve srv r) := by
  intro hreach hfail
  unfold reachesGate at hreach
  cases hg : getTransport srv r with
  | none => simp [hg] at hreach
  | some t =>
    simp only [hg, Bool.and_eq_true, Option.isNone_iff_eq_none, ne_eq, decide_eq_true_eq] at hreach
    obtain ⟨⟨ho, hd⟩, hp⟩ := hreach
    have hcfg : configured srv r = t.hdrs.ct := by simp [configured, hg]
    rcases gate_of_docFails hp hfail with hgate | hgate
    · simp [serve, hg, ho, doDocument, hd, hgate, hcfg, gateStatus_parse, determineCT_eq_negotiate]
    · simp [serve, hg, ho, doDocument, hd, hgate, hcfg, gateStatus_validation, determineCT_eq_negotiate]

example : reachesGate [⟨.graphql, ⟨none, false⟩⟩] {
        method := .post
        upgrade := false
        rct := .graphql
        accept := some [some "application/graphql-response+json"]
        dec := none
        paramErr := none
        doc := .parseErr
        opName := ""
        varsOk := true
        execErr := false } = true ∧
    (serve [⟨.graphql, ⟨none, false⟩⟩] {
        method := .post
        upgrade := false
        rct := .graphql
        accept := some [some "application/graphql-response+json"]
        dec := none
        paramErr := none
        doc := .parseErr
        opName := ""
        varsOk := true
        execErr := false }).status = 400 := by decide

/-- Every response with a body carries exactly the Content-Type negotiated from Accept and the configured
    headers of the transport that took the request (none configured when no transport did). -/
theorem content_type_negotiated (srv : List Transport) (r : Req) : s6 srv r (serve srv r) := by
  intro h
  generalize hs : serve srv r = o at h
  have sv := served srv r; rw [hs] at sv
  cases sv with
  | noTransport hg => simp [configured, hg, determineCT_eq_negotiate]
  | options t st hg ho hst => simp at h
  | decodeFail t st hg => simp [configured, hg, determineCT_eq_negotiate]
  | gateErr t codes hg => simp [configured, hg, determineCT_eq_negotiate]
  | refused t op hg => simp [configured, hg, determineCT_eq_negotiate]
  | ran t op b hg => simp [configured, hg, determineCT_eq_negotiate]

/-- Every response body is a JSON GraphQL response (errors or data); only the Options transport answers
    without a body. -/
theorem body_is_graphql_json (srv : List Transport) (r : Req) : s7 srv r (serve srv r) := by
  unfold s7
  generalize hs : serve srv r = o
  have sv := served srv r; rw [hs] at sv
  cases sv with
  | options t st hg ho hst => exact ⟨by simp, fun _ => ⟨t, hg, ho⟩⟩
  | ran t op b hg ho hd hgate hguard hb => rcases hb with rfl | rfl <;> simp
  | _ => simp

/-! ## transport selection -/

/-- `getTransport` is the first transport whose `Supports` is true. -/
theorem first_supporting_transport_wins (t : Transport) (rest : List Transport) (r : Req)
    (h : supports t.kind r = true) : getTransport (t :: rest) r = some t := by
  simp [getTransport, List.find?, h]

/-- The `Supports` predicates are mutually exclusive, so with one transport per kind the transport that
    takes a request does not depend on the order of registration. -/
theorem getTransport_iff_mem (srv : List Transport) (r : Req) (t : Transport)
    (hu : (srv.map (·.kind)).Nodup) :
    getTransport srv r = some t ↔ t ∈ srv ∧ supports t.kind r = true := by
  constructor
  · exact supports_of_getTransport
  · intro ⟨hm, hs⟩
    cases hg : getTransport srv r with
    | none =>
      have := List.find?_eq_none.mp hg t hm
      simp [hs] at this
    | some t' =>
      obtain ⟨hm', hs'⟩ := supports_of_getTransport hg
      have hk : t'.kind = t.kind := supports_exclusive hs' hs
      clear hg
      induction srv with
      | nil => cases hm
      | cons x xs ih =>
        simp only [List.map_cons, List.nodup_cons, List.mem_map, not_exists, not_and] at hu
        rcases List.mem_cons.mp hm with rfl | hm1
        · rcases List.mem_cons.mp hm' with rfl | hm2
          · rfl
          · exact absurd hk (hu.1 t' hm2)
        · rcases List.mem_cons.mp hm' with rfl | hm2
          · exact absurd hk.symm (hu.1 t hm1)
          · exact ih hu.2 hm1 hm2

theorem order_irrelevant (srv1 srv2 : List Transport) (r : Req)
    (h1 : (srv1.map (·.kind)).Nodup) (h2 : (srv2.map (·.kind)).Nodup) (hmem : ∀ t, t ∈ srv1 ↔ t ∈ srv2) :
    serve srv1 r = serve srv2 r := by
  have : getTransport srv1 r = getTransport srv2 r := by
    cases hg : getTransport srv1 r with
    | some t =>
      have := (getTransport_iff_mem srv1 r t h1).1 hg
      exact ((getTransport_iff_mem srv2 r t h2).2 ⟨(hmem t).1 this.1, this.2⟩).symm
    | none =>
      cases hg2 : getTransport srv2 r with
      | none => rfl
      | some t =>
        have := (getTransport_iff_mem srv2 r t h2).1 hg2
        have := (getTransport_iff_mem srv1 r t h1).2 ⟨(hmem t).2 this.1, this.2⟩
        rw [hg] at this; cases this
  simp [serve, this]

example : ([⟨.post, ⟨none, false⟩⟩, ⟨.get, ⟨some "a/b", true⟩⟩] : List Transport).map (·.kind) |>.Nodup := by decide

/-! ## the checker the driver applies to the implementation's own output is the same seven sentences -/

theorem c1_iff (srv : List Transport) (r : Req) (o : Resp) : c1 srv r o = true ↔ s1 srv r o := by
  unfold c1 s1
  by_cases hm : r.method = .get
  · by_cases hu : ((docOps r.doc).map (·.name)).Nodup
    · cases he : o.executed with
      | none =>
        simp [hm, hu]
        constructor
        · intro h op hmem hn hq
          rcases h op hmem with (h | h) | h
          · exact absurd hn h
          · exact absurd h hq
          · exact h
        · intro h op hmem
          by_cases hn : Names (docOps r.doc) r.opName op
          · by_cases hq : op.kind = .astQuery
            · exact Or.inl (Or.inr hq)
            · exact Or.inr (h op hmem hn hq)
          · exact Or.inl (Or.inl hn)
      | some e =>
        simp [hm, hu]
        intro _
        constructor
        · intro h op hmem hn
          rcases h op hmem with h | h
          · exact absurd hn h
          · exact h
        · intro h op hmem
          by_cases hn : Names (docOps r.doc) r.opName op
          · exact Or.inr (h op hmem hn)
          · exact Or.inl hn
    · cases he : o.executed with
      | none => simp [hm, hu]
      | some e => simp [hm, hu]
  · simp [hm]

theorem c2_iff (srv : List Transport) (r : Req) (o : Resp) : c2 srv r o = true ↔ s2 srv r o := by
  unfold c2 s2
  cases o.executed with
  | none => simp
  | some e => simp

theorem c3_iff (srv : List Transport) (r : Req) (o : Resp) : c3 srv r o = true ↔ s3 srv r o := by
  unfold c3 s3
  cases is2xx o.status <;> simp

theorem c4_iff (srv : List Transport) (r : Req) (o : Resp) : c4 srv r o = true ↔ s4 srv r o := by
  unfold c4 s4
  cases o.executed <;> simp

theorem c5_iff (srv : List Transport) (r : Req) (o : Resp) : c5 srv r o = true ↔ s5 srv r o := by
  unfold c5 s5
  cases reachesGate srv r <;> cases docFails r <;> simp

theorem c6_iff (srv : List Transport) (r : Req) (o : Resp) : c6 srv r o = true ↔ s6 srv r o := by
  unfold c6 s6
  by_cases h : o.body = .empty <;> simp [h]

theorem c7_iff (srv : List Transport) (r : Req) (o : Resp) : c7 srv r o = true ↔ s7 srv r o := by
  unfold c7 s7
  cases getTransport srv r with
  | none => by_cases h : o.body = .empty <;> simp [h]
  | some t => by_cases h : o.body = .empty <;> simp [h]

/-- the driver's `chk` reports nothing exactly when the observed response satisfies all seven sentences -/
theorem violations_nil_iff (srv : List Transport) (r : Req) (o : Resp) :
    violations srv r o = [] ↔
      s1 srv r o ∧ s2 srv r o ∧ s3 srv r o ∧ s4 srv r o ∧ s5 srv r o ∧ s6 srv r o ∧ s7 srv r o := by
  rw [← c1_iff, ← c2_iff, ← c3_iff, ← c4_iff, ← c5_iff, ← c6_iff, ← c7_iff]
  unfold violations
  cases c1 srv r o <;> cases c2 srv r o <;> cases c3 srv r o <;> cases c4 srv r o <;> cases c5 srv r o <;>
    cases c6 srv r o <;> cases c7 srv r o <;> simp

/-- the model of the code as it is violates no sentence of the property, for any server and request -/
theorem serve_no_violations (srv : List Transport) (r : Req) : violations srv r (serve srv r) = [] :=
  (violations_nil_iff srv r _).2 ⟨get_executes_only_queries srv r, executes_named_operation srv r,
    non2xx_ran_nothing srv r, started_is_200 srv r, parse_validation_status srv r, content_type_negotiated srv r,
    body_is_graphql_json srv r⟩

/-- the checker does fire: a mutation executed over GET is reported -/
example : violations [⟨.get, ⟨none, false⟩⟩] {
        method := .get
        upgrade := false
        rct := .invalid
        accept := none
        dec := none
        paramErr := none
        doc := .ops [⟨.astMutation, ""⟩]
        opName := ""
        varsOk := true
        execErr := false }
      { status := 200, ctype := some "application/json", body := .data, executed := some ⟨.astMutation, ""⟩ }
    = ["get_executes_only_queries"] := by decide

end GqlgenVerif.Props.C09
