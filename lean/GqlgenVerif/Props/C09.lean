import GqlgenVerif.Model.Http
namespace GqlgenVerif.Props.C09
open GqlgenVerif.Http GqlgenVerif.Gen.HttpStatus

theorem placeholder : (1 : Nat) = 1 := rfl

end GqlgenVerif.Props.C09
