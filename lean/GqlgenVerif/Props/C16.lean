import GqlgenVerif.Lemmas.Introspect
import GqlgenVerif.Lemmas.IntroGate
/-!
# C16 — introspection mirrors the schema exactly, and reveals nothing when disabled

Part 1 (`Model/Introspect.lean`): for **every** schema gqlparser can hand over (any number of types,
fields, arguments, nesting of list / non-null wrappers, any texts) the answer `graphql/introspection`
gives to the standard introspection query determines the schema: `rebuild (introspect s) = normalise s`,
where `normalise` only sorts the (unordered) type and directive maps by name, spells out the declared
default reason of a field's bare `@deprecated`, and drops what is derivable (an object's entry as its own
possible type, the `__schema` / `__type` meta fields gqlparser's loader puts on the query root).
`Schema.wf` is what gqlparser's loader + validator guarantee (every named type resolves; object fields have
no default, input fields no arguments; enum values only on enums, …); the driver evaluates it on every
schema of the correspondence run.

The three places where the code before the `fix:` commits 6641cc1 / c720217 / 91f18bb did not satisfy the
statement are kept as `Old.*` with proved witnesses.

Part 2 (`Model/IntroGate.lean` over the C01 execution model): with `DisableIntrospection` set, every
collected root field named `__schema` / `__type` / `_service` — under whatever response key, collected
through whatever fragments / inline fragments / `@skip` / `@include` — is `null` (or nulls the whole
`data` when its type is non-null) with the gate's error at its path, and the response does not depend on
anything below those positions.
-/
namespace GqlgenVerif.Introspect.C16
open GqlgenVerif GqlgenVerif.Introspect

/-! ## Part 1: the mirror -/

/-- **Round trip.** The answer to the standard introspection query determines the schema. -/
theorem rebuild_introspect (s : Introspect.Schema) (h : s.wf = true) :
    rebuild (introspect s) = normalise s := by
  simp only [Schema.wf, Bool.and_eq_true] at h
  obtain ⟨ht, hd⟩ := h
  have h1 : ((sortOn TypeDef.name s.types).map (introType s)).map rebuildType =
      (sortOn TypeDef.name s.types).map normType :=
    map_map_eq fun d hd' =>
      rebuildType_introType s d (List.all_eq_true.mp ht d ((mem_sortOn _ _ _).mp hd'))
  have h2 : ((sortOn DirDef.name s.directives).map (introDirective s)).map rebuildDirective =
      sortOn DirDef.name s.directives :=
    map_map_id fun d hd' =>
      rebuildDirective_introDirective s d (List.all_eq_true.mp hd d ((mem_sortOn _ _ _).mp hd'))
  cases s
  simp_all [rebuild, introspect, normalise]

/-- a schema already in normal form is rebuilt literally -/
theorem rebuild_introspect_exact (s : Introspect.Schema) (h : s.wf = true) (hn : normalise s = s) :
    rebuild (introspect s) = s := by
  rw [rebuild_introspect s h, hn]

/-- two schemas with the same introspection answer are the same schema -/
theorem introspect_injective (s₁ s₂ : Introspect.Schema) (h₁ : s₁.wf = true) (h₂ : s₂.wf = true)
    (h : introspect s₁ = introspect s₂) : normalise s₁ = normalise s₂ := by
  rw [← rebuild_introspect s₁ h₁, ← rebuild_introspect s₂ h₂, h]

/-- **Each element's own deprecation**: the `isDeprecated` flags reported for a field's arguments are
    the arguments' own, whatever the field's is (and the field's is its own) -/
theorem own_deprecation (s : Introspect.Schema) (f : FieldDef) :
    (introField s f).isDeprecated = f.dep.isSome ∧
    (introField s f).args.map (·.isDeprecated) = f.args.map (·.dep.isSome) ∧
    (introField s f).args.map (·.deprecationReason) = f.args.map (fun a => valueReason a.dep) := by
  simp [introField, introArg, List.map_map, Function.comp_def]

/-- an interface's `interfaces` are the interfaces it implements -/
theorem interface_interfaces (s : Introspect.Schema) (d : TypeDef) (hk : d.kind = .interface)
    (h : d.interfaces.all (fun i => (s.lookup i).isSome) = true) :
    (introInterfaces s d).map refName = d.interfaces := by
  rw [introInterfaces_roundtrip s d h]; simp [hk, isFieldsKind]

/-- `fields(includeDeprecated: false)` / `enumValues(includeDeprecated: false)` are exactly the elements
    reported as not deprecated -/
theorem current_views (s : Introspect.Schema) (d : TypeDef) :
    introFields s false d = (introFields s true d).filter (fun f => !f.isDeprecated) ∧
    introEnumValues false d = (introEnumValues true d).filter (fun v => !v.isDeprecated) := by
  constructor
  · unfold introFields
    split
    · simp
    · simp only [Bool.false_or, Bool.true_or, Bool.and_true, List.filter_map, List.filter_filter]
      congr 1
      apply List.filter_congr
      intro f _
      cases h : f.dep <;> simp [introField, h, Bool.and_comm]
  · unfold introEnumValues
    split
    · simp
    · simp only [Bool.false_or, Bool.true_or, List.filter_map, List.filter_filter]
      congr 1
      apply List.filter_congr
      intro v _
      cases h : v.dep <;> simp [introEnumValue, h]

/-- `__schema.types` lists every definition exactly once, ordered by name -/
theorem types_sorted_perm (s : Introspect.Schema) :
    ((introspect s).types.map (·.name)).Perm (s.types.map fun d => some d.name) ∧
    (sortOn TypeDef.name s.types).Pairwise (fun a b => a.name ≤ b.name) := by
  constructor
  · simp only [introspect, List.map_map]
    exact (sortOn_perm TypeDef.name s.types).map _
  · exact sortOn_sorted TypeDef.name s.types

/-- `__type(name:)` answers what the entry of `__schema.types` answers -/
theorem type_by_name (s : Introspect.Schema) (d : TypeDef) (h : s.lookup d.name = some d) :
    introTypeByName s d.name = some (introType s d) ∧ introType s d ∈ (introspect s).types := by
  constructor
  · simp [introTypeByName, h]
  · simp only [introspect, List.mem_map]
    refine ⟨d, (mem_sortOn _ _ _).mpr ?_, rfl⟩
    unfold Schema.lookup at h
    exact List.mem_of_find?_eq_some h

/-! ### non-vacuity: a well-formed schema with every element kind -/

def probe : Introspect.Schema :=
  { description := "probe", query := some "Query",
    types := [
      { name := "Query", kind := .object,
        fields := [{ name := "f", type := .list (.named "Node" true) false, dep := some none,
                     args := [{ name := "a", type := .named "In" false, default := some "{x:1}", dep := some (some "gone") }] },
                   { name := "__schema", type := .named "Int" true }] ,
        possible := [("Query", .object)] },
      { name := "Node", kind := .interface, fields := [{ name := "id", type := .named "Int" true }],
        possible := [("Res", .interface), ("Img", .object)] },
      { name := "Res", kind := .interface, interfaces := ["Node"],
        fields := [{ name := "id", type := .named "Int" true }], possible := [("Img", .object)] },
      { name := "Img", kind := .object, interfaces := ["Res", "Node"],
        fields := [{ name := "id", type := .named "Int" true }], possible := [("Img", .object)] },
      { name := "In", kind := .inputObject, oneOf := true,
        fields := [{ name := "x", type := .named "Int" false, default := some "1", dep := some none }] },
      { name := "E", kind := .enum, enumValues := [{ name := "A" }, { name := "B", dep := some (some "b") }] },
      { name := "U", kind := .union, possible := [("Img", .object)] },
      { name := "Int", kind := .scalar, specifiedBy := some "https://example.org/int" } ],
    directives := [{ name := "d", locations := ["FIELD", "OBJECT"], repeatable := true,
                     args := [{ name := "old", type := .named "Int" false, dep := some none }] }] }

example : probe.wf = true := by decide
example : rebuild (introspect probe) = normalise probe := rebuild_introspect probe (by decide)
/-- the normal form is not the identity on the probe: order, default reason, derivable parts -/
example : normalise probe ≠ probe := by decide
example : ((introspect probe).types.map (·.name)) =
    [some "E", some "Img", some "In", some "Int", some "Node", some "Query", some "Res", some "U"] := by decide

/-! ### the code before the `fix:` commits: witnesses -/

/-- F16a (fixed by 6641cc1): an argument's own `@deprecated` was ignored and the enclosing field's used —
    a deprecated argument of a current field was reported as current … -/
theorem arg_deprecation_old_witness :
    let f : FieldDef := { name := "f", type := .named "Int" false,
                          args := [{ name := "a", type := .named "Int" false, dep := some (some "arg gone") }] }
    let s : Introspect.Schema := { types := [{ name := "Int", kind := .scalar }] }
    rebuildField (Old.introField s f) ≠ normField f ∧ rebuildField (introField s f) = normField f := by
  decide

/-- … and a current argument of a deprecated field as deprecated, with the field's reason -/
theorem arg_deprecation_old_witness_field :
    let f : FieldDef := { name := "f", type := .named "Int" false, dep := some (some "field gone"),
                          args := [{ name := "a", type := .named "Int" false }] }
    let s : Introspect.Schema := { types := [{ name := "Int", kind := .scalar }] }
    (Old.introField s f).args.map (·.deprecationReason) = [some "field gone"] ∧
    (introField s f).args.map (·.deprecationReason) = [none] := by
  decide

/-- F16b (fixed by c720217): `interfaces` of an interface that implements another was `[]` -/
theorem interface_interfaces_old_witness :
    let d : TypeDef := { name := "Res", kind := .interface, interfaces := ["Node"] }
    let s : Introspect.Schema := { types := [{ name := "Node", kind := .interface }, d] }
    Old.introInterfaces s d = [] ∧ (introInterfaces s d).map refName = ["Node"] := by
  decide

/-- F16c (fixed by 91f18bb): `@deprecated` on an argument of a directive definition was never reported -/
theorem directive_arg_old_witness :
    let a : ArgDef := { name := "old", type := .named "Int" false, dep := some (some "gone") }
    let s : Introspect.Schema := { types := [{ name := "Int", kind := .scalar }] }
    rebuildArg (Old.introDirArg s a) ≠ a ∧ rebuildArg (introArg s a) = a := by
  decide

end GqlgenVerif.Introspect.C16

/-! ## Part 2: disabled introspection reveals nothing -/
namespace GqlgenVerif.IntroGate.C16
open GqlgenVerif GqlgenVerif.IntroGate

/-- **Disabled ⇒ null with an error.** For every list of collected root fields with distinct response
keys (i.e. for every document, however `__schema` / `__type` / `_service` are aliased or reached through
fragments, inline fragments, `@skip` / `@include` and variables — field collection is the C01 model), every
underlying oracle (whatever the resolvers and the introspection methods would return) and every gated
field among them: the gate's error is reported at the field's response path; in `data` the field is
`null`, or `data` itself is `null`; and it *is* `data: null` when the field's type is non-null
(`_service: _Service!`). -/
theorem disabled_reveals_nothing (o : Oracle) (rootTy : String) (fields : List (FInfo × Shape))
    (hwf : fieldsWF fields) (hnd : gatedNoDirs fields = true)
    (fi : FInfo) (sh : Shape) (hmem : (fi, sh) ∈ fields) (hg : isGated fi.name = true) :
    (⟨[.key fi.alias], gateMsg fi.name⟩ : Err) ∈ (Impl.execRoot (gateOracle fields o) rootTy fields).2.errs ∧
    ((Impl.execRoot (gateOracle fields o) rootTy fields).1 = .null ∨
      ∃ fs, (Impl.execRoot (gateOracle fields o) rootTy fields).1 = .obj fs ∧ (fi.alias, Out.null) ∈ fs ∧
        fs.map (·.1) = fields.map (·.1.alias)) ∧
    (sh.nn = true → (Impl.execRoot (gateOracle fields o) rootTy fields).1 = .null) := by
  have hkeys := C01key o rootTy fields
  rw [exec_eq_spec _ _ _ hwf]
  have hB := spec_fields_gated (gateOracle fields o) rootTy [] fields
    (fun f hf hgf => ⟨(gatedNoDirs_mem hnd hf hgf).1, (gatedNoDirs_mem hnd hf hgf).2, by
      simpa using gateOracle_res_gated fields hwf o f.1 f.2 hf hgf⟩) fi sh hmem hg
  obtain ⟨b1, b2, b3⟩ := hB
  simp only [List.nil_append] at b1
  refine ⟨by simpa [Spec.execRoot] using b1, ?_, ?_⟩
  · cases hs : (Spec.completeFields (gateOracle fields o) rootTy fields []).1 with
    | none => left; simp [Spec.execRoot, hs]
    | some os =>
      right
      have hobj : (Spec.execRoot (gateOracle fields o) rootTy fields).1 = .obj os := by
        simp [Spec.execRoot, hs]
      refine ⟨os, hobj, b2 os hs, ?_⟩
      rw [exec_eq_spec _ _ _ hwf] at hkeys
      exact hkeys os hobj
  · intro hnn
    simp [Spec.execRoot, b3 hnn]
where
  /-- response keys of a non-null root object are the collected keys, in order -/
  C01key (o : Oracle) (rootTy : String) (fields : List (FInfo × Shape)) :
      ∀ fs, (Impl.execRoot (gateOracle fields o) rootTy fields).1 = .obj fs →
        fs.map (·.1) = fields.map (·.1.alias) := by
    intro fs h
    by_cases hpos : (Impl.completeFields (gateOracle fields o) rootTy fields [] {}).2.1 > 0
    · simp [Impl.execRoot, hpos] at h
    · simp only [Impl.execRoot, hpos, if_false, Out.obj.injEq] at h
      subst h
      exact keyOrder (gateOracle fields o) rootTy fields [] {}
  keyOrder (o : Oracle) (ty : String) : ∀ (fields : List (FInfo × Shape)) (p : Path) (st : St),
      (Impl.completeFields o ty fields p st).1.map (·.1) = fields.map (·.1.alias)
    | [], _, _ => by simp [Impl.completeFields]
    | (fi, sh) :: rest, p, st => by
      simp only [Impl.completeFields, List.map_cons]
      rw [keyOrder o ty rest]

/-- **Nothing else is revealed.** With the gate closed the whole response (data, errors, invocations) is
the same for any two oracles that agree outside the subtrees of the gated root fields: what the
introspection methods and everything below `__schema` / `__type` / `_service` would have answered cannot
influence a single byte of it. -/
theorem disabled_independent_of_introspection_data (o₁ o₂ : Oracle) (rootTy : String)
    (fields : List (FInfo × Shape)) (hwf : fieldsWF fields) (hnd : gatedNoDirs fields = true)
    (h : ∀ q, (∀ f ∈ fields, isGated f.1.name = true → ¬ [Seg.key f.1.alias] <+: q) →
      o₁.res q = o₂.res q ∧ (∀ n, o₁.dir q n = o₂.dir q n) ∧
        ∀ n, o₁.plain q.dropLast n = o₂.plain q.dropLast n) :
    Impl.execRoot (gateOracle fields o₁) rootTy fields = Impl.execRoot (gateOracle fields o₂) rootTy fields := by
  rw [exec_eq_spec _ _ _ hwf, exec_eq_spec _ _ _ hwf]
  unfold Spec.execRoot
  rw [spec_fields_noninterference fields hwf hnd o₁ o₂ h rootTy fields (fun _ hf => hf)]

/-- the document-level reading: whatever field collection makes of the operation's selection set on the
    schema with gqlgen's injected roots, the statement holds for the plan it produces -/
theorem disabled_reveals_nothing_doc (s : GqlgenVerif.Schema) (d : Doc) (vars : Vars) (root : TypeDef)
    (fuel : Nat) (fields : List (FInfo × Shape))
    (_hplan : planFields (injectRoots s) (implCollector (injectRoots s) d.frags vars) fuel root d.sels = some fields)
    (hwf : fieldsWfb fields = true) (hnd : gatedNoDirs fields = true) (o : Oracle)
    (fi : FInfo) (sh : Shape) (hmem : (fi, sh) ∈ fields) (hg : isGated fi.name = true) :
    (⟨[.key fi.alias], gateMsg fi.name⟩ : Err) ∈ (Impl.execRoot (gateOracle fields o) root.name fields).2.errs ∧
    ((Impl.execRoot (gateOracle fields o) root.name fields).1 = .null ∨
      ∃ fs, (Impl.execRoot (gateOracle fields o) root.name fields).1 = .obj fs ∧ (fi.alias, Out.null) ∈ fs) := by
  have h := disabled_reveals_nothing o root.name fields (wfbSound fields hwf) hnd fi sh hmem hg
  refine ⟨h.1, ?_⟩
  rcases h.2.1 with h1 | ⟨fs, h1, h2, _⟩
  · exact Or.inl h1
  · exact Or.inr ⟨fs, h1, h2⟩
where
  wfbSound : ∀ fields : List (FInfo × Shape), fieldsWfb fields = true → fieldsWF fields
    | [], _ => by simp [fieldsWF]
    | (fi, sh) :: rest, h => by
      simp only [fieldsWfb, Bool.and_eq_true, List.all_eq_true, bne_iff_ne, ne_eq] at h
      simp only [fieldsWF]
      exact ⟨fun g hg => h.1.1 g hg, shapeSound sh h.1.2, wfbSound rest h.2⟩
  shapeSound : ∀ sh : Shape, sh.wfb = true → sh.WF
    | .leaf _, _ => by simp [Shape.WF]
    | .obj _ _ cases, h => by
      simp only [Shape.wfb] at h
      simp only [Shape.WF]
      exact casesSound cases h
    | .list _ ec e, h => by
      simp only [Shape.wfb, Bool.and_eq_true, Bool.or_eq_true] at h
      simp only [Shape.WF]
      refine ⟨shapeSound e h.1, ?_⟩
      intro hec
      subst hec
      cases e with
      | leaf b => exact ⟨b, rfl⟩
      | obj _ _ _ => simp at h
      | list _ _ _ => simp at h
  casesSound : ∀ cases : List (String × List (FInfo × Shape)), casesWfb cases = true → casesWF cases
    | [], _ => by simp [casesWF]
    | (c, fs) :: rest, h => by
      simp only [casesWfb, Bool.and_eq_true] at h
      simp only [casesWF]
      exact ⟨wfbSound fs h.1, casesSound rest h.2⟩

/-! ### non-vacuity -/

/-- `{ a: __schema { … }  i  s: _service { sdl } }` collected: two gated fields (one non-null) and an
    ordinary one -/
def plan : List (FInfo × Shape) :=
  [({ alias := "a", name := "__schema" }, Shape.obj false false [("__Schema", [])]),
   ({ alias := "i", name := "i" }, Shape.leaf false)]

def planFed : List (FInfo × Shape) := plan ++ [({ alias := "s", name := "_service" }, Shape.obj true false [("_Service", [])])]

/-- an oracle under which, with introspection enabled, everything answers -/
def open_ : Oracle := ⟨fun p => if p = [.key "i"] then .val (.leaf "7") else .val (.obj "__Schema"), fun _ _ => .pass,
  fun _ _ => .missing⟩

example : fieldsWF plan ∧ gatedNoDirs plan = true := by
  simp [plan, fieldsWF, Shape.WF, casesWF, gatedNoDirs, isGated, gatedNames]

/-- enabled: the gated position answers (the gate is what makes the difference) -/
example : (Impl.execRoot open_ "Query" plan).1 = .obj [("a", .obj []), ("i", .leaf "7")] := by
  simp [Impl.execRoot, Impl.completeFields, Impl.completeField, Impl.runDirs, Impl.completeValue,
    Impl.completeCases, plan, open_, Shape.isIface, V.isNull, Shape.nn, Out.isNull, St.invoked, St.resolved, Oracle.outcome]

/-- disabled: null with the error, the ordinary field untouched -/
example : (Impl.execRoot (gateOracle plan open_) "Query" plan).1 = .obj [("a", .null), ("i", .leaf "7")] ∧
    (Impl.execRoot (gateOracle plan open_) "Query" plan).2.errs = [⟨[.key "a"], "introspection disabled"⟩] := by
  simp [Impl.execRoot, Impl.completeFields, Impl.completeField, Impl.runDirs, Impl.completeValue,
    gateOracle, gatedAt, isGated, gatedNames, gateMsg, plan, open_, Shape.isIface, V.isNull, Shape.nn,
    Out.isNull, St.invoked, St.resolved, St.addErr, Oracle.outcome]

/-- disabled, federation: the non-null `_service` nulls the whole data -/
example : (Impl.execRoot (gateOracle planFed open_) "Query" planFed).1 = .null := by
  have hwf : fieldsWF planFed := by simp [planFed, plan, fieldsWF, Shape.WF, casesWF]
  have hnd : gatedNoDirs planFed = true := by simp [planFed, plan, gatedNoDirs, isGated, gatedNames]
  exact (disabled_reveals_nothing open_ "Query" planFed hwf hnd { alias := "s", name := "_service" }
    (Shape.obj true false [("_Service", [])]) (by simp [planFed]) (by decide)).2.2 rfl

end GqlgenVerif.IntroGate.C16
