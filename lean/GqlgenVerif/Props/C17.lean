import GqlgenVerif.Model.Naming
import GqlgenVerif.Lemmas.Naming
import GqlgenVerif.Lemmas.Emitted
import GqlgenVerif.Lemmas.TypeRef
import GqlgenVerif.Model.Flavour
/-!
# C17 — generated identifiers are valid and collision-free (the provable half of C17)

PARTIAL by design: "generation succeeds and the generated packages type-check for all schemas × configurations"
is not a theorem (Go's type checker and text/template are outside the model); `checks/c17.py` samples it with a
generate-and-build sweep. What is proved here, for ALL names / call sequences, about the naming functions of
`codegen/templates/templates.go` as modelled in `Model/Naming.lean` (tables regenerated from the source into
`Gen/Keywords.lean`, so an edit of `keywords` / `CommonInitialisms` re-checks these proofs against the new tables):
-/
namespace GqlgenVerif.Props.C17
open GqlgenVerif GqlgenVerif.Naming

/-! ## ToGoPrivate never returns a Go keyword -/

/-- the regenerated `keywords` table contains every keyword of the Go specification -/
theorem keywords_table_complete : ∀ k ∈ goKeywords, kws.contains k = true := by decide

/-- a sanitised keyword is not itself a keyword -/
theorem suffixed_not_keyword : ∀ k ∈ kws, goKeywords.contains (k ++ suffix) = false := by decide

theorem sanitize_not_keyword (n : Name) : goKeywords.contains (sanitize n) = false := by
  unfold sanitize
  split
  · rename_i h
    exact suffixed_not_keyword n (by simpa using h)
  · rename_i h
    cases hc : goKeywords.contains n with
    | false => rfl
    | true =>
      exact absurd (keywords_table_complete n (by simpa using hc)) h

/-- **toGoPrivate_not_keyword**: for every string whatsoever, `ToGoPrivate` does not return a Go keyword. -/
theorem toGoPrivate_not_keyword (name : Name) : goKeywords.contains (toGoPrivate name) = false := by
  unfold toGoPrivate
  split
  · decide
  · exact sanitize_not_keyword _

/-- non-vacuity: the keyword `range` is renamed, an ordinary name is not -/
example : toGoPrivate (str "range") = str "rangeArg" ∧ toGoPrivate (str "user_id") = str "userID" := by decide

/-! ## ToGo on names that start (after underscores) with a digit — the statement at full strength is false -/

/- Full-strength statement (FALSE on the unchanged tree):
     ∀ name, GraphQL name → validIdent (toGo name)
   `_1` is a GraphQL name; `ToGo("_1") = "1"`, which is not an identifier (known finding F17a). -/
theorem leading_underscore_digit_witness :
    toGo (str "_1") = str "1" ∧ validIdent (toGo (str "_1")) = false ∧
    toGoPrivate (str "_1") = str "1" ∧ validIdent (toGo (str "__")) = false := by decide

/-! ## …and holds on every name whose first non-underscore character is a letter -/

/-- **toGo_valid_ident** (partial: hypothesis `StartsWithLetter`, which is exactly what excludes the witness above).
For every name made of identifier characters (every GraphQL name is) whose first character after leading
delimiters is a letter, `ToGo` returns a valid, exported Go identifier — hence never a keyword or a predeclared
identifier, which are all lower case. What is missing for full strength: names `_+[0-9]…` (F17a). -/
theorem toGo_valid_ident_partial (name : Name) (hchars : ∀ c ∈ name, isIdentChar c = true)
    (hstart : StartsWithLetter name) : validIdent (toGo name) = true ∧ exported (toGo name) = true := by
  obtain ⟨u, r, hx, hl, hu⟩ := walk_first false name hstart
  have hall := flatMap_xform_chars false (walk name) (walk_chars name hchars)
  unfold toGo
  rw [startsWithLetter_ne_underscore name hstart]
  simp only [Bool.false_eq_true, if_false]
  rw [hx] at hall ⊢
  refine ⟨?_, by simpa [exported] using hu rfl⟩
  simp only [validIdent, Bool.and_eq_true, Bool.or_eq_true, List.all_eq_true]
  exact ⟨Or.inl hl, fun x hxr => hall x (List.mem_cons_of_mem _ hxr)⟩

/-- an exported identifier is not a Go keyword -/
theorem exported_not_keyword (n : Name) (h : exported n = true) : goKeywords.contains n = false := by
  cases hc : goKeywords.contains n with
  | false => rfl
  | true =>
    have hall : ∀ k ∈ goKeywords, exported k = false := by decide
    rw [hall n (by simpa using hc)] at h
    cases h

/-- `ToGoPrivate` under the same hypothesis: a valid identifier (and, by `toGoPrivate_not_keyword`, not a keyword) -/
theorem toGoPrivate_valid_ident_partial (name : Name) (hchars : ∀ c ∈ name, isIdentChar c = true)
    (hstart : StartsWithLetter name) : validIdent (toGoPrivate name) = true := by
  obtain ⟨u, r, hx, hl, _⟩ := walk_first true name hstart
  have hall := flatMap_xform_chars true (walk name) (walk_chars name hchars)
  unfold toGoPrivate
  rw [startsWithLetter_ne_underscore name hstart]
  simp only [Bool.false_eq_true, if_false]
  rw [hx] at hall ⊢
  unfold sanitize
  split
  · simp only [List.cons_append, validIdent, Bool.and_eq_true, Bool.or_eq_true, List.all_eq_true]
    refine ⟨Or.inl hl, fun x hxr => ?_⟩
    rw [List.mem_append] at hxr
    rcases hxr with hxr | hxr
    · exact hall x (List.mem_cons_of_mem _ hxr)
    · exact suffix_chars x hxr
  · simp only [validIdent, Bool.and_eq_true, Bool.or_eq_true, List.all_eq_true]
    exact ⟨Or.inl hl, fun x hxr => hall x (List.mem_cons_of_mem _ hxr)⟩

/-- non-vacuity: the hypotheses hold for ordinary, keyword, initialism and underscore names -/
example : StartsWithLetter (str "_user_id") ∧ StartsWithLetter (str "type") ∧ StartsWithLetter (str "HTTPServer") :=
  ⟨⟨117, str "ser_id", by decide, by decide⟩, ⟨116, str "ype", by decide, by decide⟩, ⟨72, str "TTPServer", by decide, by decide⟩⟩
example : toGo (str "_user_id") = str "UserID" ∧ toGo (str "type") = str "Type" ∧ toGoPrivate (str "HTTPServer") = str "httpServer" := by decide

/-! ## the ToGoModelName registry hands out each name once -/

/-- **modelName_injective_on_registry**: after ANY sequence of `ToGoModelName` / `ToGoPrivateModelName` calls from
the empty registry, two keys that are both registered under the same Go name are the same key — i.e. distinct
(type | enum-value) keys never share a generated identifier. -/
theorem modelName_injective_on_registry (primary : Name → Name) (calls : List (List Name)) (k1 k2 n : Name)
    (h1 : (runCalls primary [] calls).2.lookup k1 = some n)
    (h2 : (runCalls primary [] calls).2.lookup k2 = some n) : k1 = k2 :=
  regInj_lookup_inj _ (runCalls_inj primary [] calls ⟨by simp, by simp⟩) k1 k2 n h1 h2

/-- the same from any injective registry (the registry is process-global: calls of an earlier generation stay) -/
theorem modelName_injective_from (primary : Name → Name) (r : Reg) (hr : RegInj r) (calls : List (List Name))
    (k1 k2 n : Name) (h1 : (runCalls primary r calls).2.lookup k1 = some n)
    (h2 : (runCalls primary r calls).2.lookup k2 = some n) : k1 = k2 :=
  regInj_lookup_inj _ (runCalls_inj primary r calls hr) k1 k2 n h1 h2

/-- non-vacuity (docs/content/reference/name-collision.md, Example C and the enum example): colliding inputs get
distinct names -/
example : (runCalls toGo [] [[str "MyEnum", str "value"], [str "MyEnum", str "Value"], [str "foo"], [str "Foo"], [str "FOO"]]).1
    = [some (str "MyEnumValue"), some (str "MyEnumValue0"), some (str "Foo"), some (str "Foo0"), some (str "Foo1")] := by decide

/-! ## identifiers declared by the generated model file and resolver interfaces are duplicate free -/

/-- **emitted_nodup_per_scope** (stated hypotheses = what GraphQL guarantees + what gqlgen does not claim to handle):
for EVERY schema `ts`
* `PkgHyp`: declaration keys pairwise distinct (unique type names, unique values per enum), every key got a name
  (the fresh-name search of `goModelName` did not run out of the model's fuel), and no declared name equals
  `All` + an enum's name (`All<Enum>` is written by the template without going through the registry);
* the fields of each type normalise (`ToGo`) to pairwise distinct names (gqlgen does not handle `foo_bar` next to
  `fooBar` in one type);
then the package scope of the model file — type names, enum constants for values that normalise equally
(`value`, `Value`, `VALUE`), `All…` variables — declares no identifier twice, and no struct of the model file
declares a field twice; in particular two different types never end up as the same struct. -/
theorem emitted_nodup_per_scope (ts : List TypeDecl) (H : PkgHyp ts)
    (hfields : ∀ t ∈ ts, (t.fields.map (fun f => toGo f.name)).Nodup) :
    (inScope Scope.pkg (emitted ts)).Nodup ∧ ∀ g, (inScope (Scope.struct g) (emitted ts)).Nodup :=
  ⟨pkg_scope_nodup ts H, struct_scope_nodup ts H hfields⟩

/-- resolver interface of one object type: its method names are the `ToGo` images of the field names, so they are
pairwise distinct exactly when those are (scope key = the GraphQL type name: no registry involved) -/
theorem resolver_methods_nodup (t : TypeDecl) (h : (t.fields.map (fun f => toGo f.name)).Nodup) :
    (inScope (Scope.resolver t.name) (resolverBlock t)).Nodup := by
  rw [resolver_block_methods]; exact h

/-- parameters of one resolver method: the `ToGoPrivate` images of the argument names -/
theorem resolver_args_nodup (t : TypeDecl) (f : FieldDecl) (hf : f ∈ t.fields) (hn : t.fields.Nodup)
    (hinj : ∀ a ∈ t.fields, ∀ b ∈ t.fields, toGo a.name = toGo b.name → a = b)
    (hargs : (f.args.map toGoPrivate).Nodup) :
    (inScope (Scope.args t.name (toGo f.name)) (resolverBlock t)).Nodup := by
  rw [resolver_block_args t f hf hinj hn]; exact hargs

/-- non-vacuity of the hypotheses' shape: a concrete schema with colliding type names and enum values, on which the
registry does the renaming -/
example : (runCalls toGo [] (modelCalls [] [{ kind := .model, name := str "foo_bar" }, { kind := .model, name := str "FooBar" }]
      [{ kind := .enum, name := str "E", values := [str "value", str "Value", str "VALUE"] }])).1.eraseDups
    = [some (str "FooBar"), some (str "FooBar0"), some (str "E"), some (str "EValue"), some (str "EValue0"), some (str "EVALUE")] := by
  decide


/-! ## The is-list decision: a named GraphQL type is never (un)marshalled element-wise, whatever its Go type

`Model/TypeRef.lean` mirrors `CopyModifiersFromAst`, `(*TypeReference).IsSlice/IsPtrToSlice/IsPtrToPtr/IsPtrToIntf/
Elem`, `codegen.processType` and the (un)marshal functions of `type.gotpl` for leaf types; `IsSlice`'s return
expression, `Elem`'s branch order and `processType`'s recursion condition are REGENERATED from binder.go / type.go
into `Gen/TypeRefRules.lean` (go/extract/typerefrules.go). The bound Go type (`target`) is universally quantified:
unnamed slices (`[]byte`), named slices, maps, pointers, structs, arrays, basic types. -/
section TypeRefs
open GqlgenVerif.TypeRef GqlgenVerif.Gen.TypeRefRules

/-- the regenerated `IsSlice` rule needs BOTH a GraphQL list (`ref.GQL.Elem != nil`) and a Go slice, and holds then -/
theorem isSliceRule_needs_gql_list : ∀ b, isSliceRule false b = false := by decide
theorem isSliceRule_needs_go_slice : ∀ b, isSliceRule b false = false := by decide
theorem isSliceRule_list_of_slice : isSliceRule true true = true := by decide

/-- the shapes of `Elem()` and of `processType`'s recursion condition the model was written against -/
theorem typeref_rules_expected :
    elemBranches = ["pointer", "IsSlice"] ∧
    processTypeRecursesOn = ["IsSlice", "IsPtrToSlice", "IsPtrToPtr", "IsPtrToIntf"] := by decide

/-- **named_never_slice**: a reference to a NAMED GraphQL type is never a slice reference - for EVERY Go type,
in particular for a scalar bound to `[]byte`. -/
theorem named_never_slice (tag : String) (nn : Bool) (go : GoT) : isSlice (.named tag nn) go = false :=
  TypeRef.named_never_slice tag nn go

/-- **processType_never_nil_gql**: for EVERY Go type and GraphQL type, `codegen.processType` never reaches the
reference with a nil `GQL` that `Elem()` builds when `IsSlice` holds without `GQL.Elem` (generator panic). -/
theorem processType_never_nil_gql (go : GoT) (g : GType) : (processType go g).2 = false :=
  TypeRef.processType_never_nil_gql go g

/-- **named_is_one_leaf**: a named type is one leaf written by its bound marshaller called on the WHOLE input
(e.g. the list literal `["a","b"]`), for every Go type that is nilable when the GraphQL type is nullable (what
`CopyModifiersFromAst` guarantees, see `echo_eq_spec`). -/
theorem named_is_one_leaf (go : GoT) (tag : String) (nn : Bool) (v : Val)
    (hnil : nn = false → go.isNilable = true ∧ go.isPtrToPtr = false)
    (hfit : fits (.named tag nn) v = true) :
    echo go (.named tag nn) v = spec (.named tag nn) v :=
  TypeRef.named_is_one_leaf go tag nn v hnil hfit

/-- **echo_eq_spec** (argument / input-field position): for every GraphQL type, every bound Go type and every input
without a null at a non-null position, generated unmarshal + marshal = Spec: element-wise exactly at the GraphQL
list levels, one call of the bound function per named leaf. (`target` not `**T`: then a null input reaches the
bound function instead of becoming nil - outside what gqlgen documents.) -/
theorem echo_eq_spec (om : Bool) (g : GType) (target : GoT) (v : Val)
    (hpp : target.isPtrToPtr = false) (hfit : fits g v = true) :
    echo (copyModifiers om g target) g v = spec g v :=
  TypeRef.echo_eq_spec om g target v hpp hfit

/-- **output_eq_spec** (output position): a resolver result with the list structure of the GraphQL type is
marshalled to the Spec, for every bound Go type. -/
theorem output_eq_spec (om : Bool) (g : GType) (target : GoT) (v : Val) (hfit : fits g v = true) :
    marshal (copyModifiers om g target) g (goValOf g v) = spec g v :=
  TypeRef.output_eq_spec om g target v hfit

/-- non-vacuity, on the shape the seeded change C17-change2 needs: `scalar Bytes` bound to a function pair over
`[]byte`, given the LIST literal `["a","b"]`, is one leaf; under `[Bytes!]` the same literal is two leaves -/
example : copyModifiers false (.named "Bytes" false) (.slice .basic) = .slice .basic ∧
    (GoT.slice .basic).isPtrToPtr = false ∧
    fits (.named "Bytes" false) (.list [.atom "a", .atom "b"]) = true := by decide
example : echo (.slice .basic) (.named "Bytes" false) (.list [.atom "a", .atom "b"]) = .leaf "Bytes" "[a,b]" := by
  rw [TypeRef.named_is_one_leaf _ _ _ _ (by decide) (by decide)]; simp [spec, canon, canonList]
example : spec (.list (.named "Bytes" true) false) (.list [.atom "a", .atom "b"])
    = .arr [.leaf "Bytes" "a", .leaf "Bytes" "b"] := by simp [spec, canon]
example : (processType (copyModifiers false (.list (.named "Bytes" true) false) (.slice .basic))
    (.list (.named "Bytes" true) false)).1.length = 2 := by decide
end TypeRefs

/-! ## The two template flavours (function syntax / method syntax) agree

Added after the miss `seeded/C17-change4`: the function-syntax arm of the `IsRoot` branch of `codegen/field.gotpl`
became a copy of the method-syntax arm (`ec.marshalX(ctx, field.Selections, res)`), so with
`use_function_syntax_for_execution_context: true` the executor calls a method that is not declared.
`Gen/FuncSyntaxArms.lean` holds BOTH arms of every `if $useFunctionSyntaxForExecutionContext` of `codegen/*.gotpl`
(regenerated from the templates on every run); the theorems are stated over that table, so they stop closing when
an arm is edited out of step with its twin. -/
section Flavours
open GqlgenVerif.Flavour GqlgenVerif.Gen.FuncSyntaxArms

set_option maxRecDepth 100000

/-- the extractor's reading of every method arm (declaration / call / reference sites + text) is faithful: it
flattens back to exactly the tokens of the arm -/
theorem method_arms_parsed_faithfully :
    ∀ p ∈ pairs, methTokens p.2.2.2.1 = p.2.2.2.2.1 := by decide

/-- **function_arm_is_translation_of_method_arm**: at every flavour switch of the templates the function-syntax arm is
the method-syntax arm with each receiver removed and `ec` (`&ec` where `ec` is a value) passed / declared second -
declaration sites, call sites and references alike. -/
theorem function_arm_is_translation_of_method_arm :
    ∀ p ∈ pairs, toFn p.2.2.1 p.2.2.2.1 = p.2.2.2.2.2 := by decide

/-- Spec level, on the raw tokens only (independent of the segment parse): no function-syntax arm goes through the
receiver (`ec.` …) or declares a method, … -/
theorem function_arms_never_use_the_receiver :
    ∀ p ∈ pairs, usesReceiver p.2.2.2.2.2 = false ∧ declaresMethod p.2.2.2.2.2 = false := by decide

/-- … and no method-syntax arm passes or takes `ec` as an explicit parameter. -/
theorem method_arms_never_pass_ec :
    ∀ p ∈ pairs, passesEc p.2.2.2.2.1 = false := by decide

/-- every flavour switch guards at least one declaration / call / reference of a generated helper (there is no
switch whose arms could be swapped or merged unnoticed), and the table is not empty -/
theorem every_switch_has_a_site : pairs ≠ [] ∧ ∀ p ∈ pairs, p.2.2.2.1.any isSite = true := by decide

/-- for ALL segment lists: the translation is compositional (one site at a time), so agreement of a whole arm is
agreement site by site -/
theorem toFn_append (vs : Bool) (a b : List Seg) : toFn vs (a ++ b) = toFn vs a ++ toFn vs b := by
  simp [toFn, List.flatMap_append]

/-- for ALL names and arguments: a call site translates to a call WITHOUT the receiver whose second argument is
the execution context, and a declaration site to a declaration whose second parameter is `ec *executionContext` -/
theorem toFn_call (vs : Bool) (n a0 : List Nat) :
    toFn vs [(2, n, a0)] = n ++ [tLParen] ++ a0 ++ [tComma] ++ ecArg vs := by
  simp [toFn, segFn]

theorem toFn_decl (vs : Bool) (n p0 : List Nat) :
    toFn vs [(1, n, p0)] = [tFunc] ++ n ++ [tLParen] ++ p0 ++ [tComma, tEc, tStar, tExecCtx] := by
  simp [toFn, segFn]

/-- the witness shape of C17-change4 is rejected by the Spec: `return ec . F ( ctx , sel , res )` in a function arm
uses the receiver, its translation `return F ( ctx , ec , sel , res )` does not -/
example : usesReceiver [100, tEc, tDot, 101, tLParen, 102, tComma, 103, tRParen] = true ∧
    usesReceiver (toFn false [(0, [100], []), (2, [101], [102]), (0, [tComma], []), (0, [103], []), (0, [tRParen], [])]) = false := by
  decide

end Flavours

end GqlgenVerif.Props.C17
