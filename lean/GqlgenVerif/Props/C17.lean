import GqlgenVerif.Model.Naming
import GqlgenVerif.Lemmas.Naming
/-!
# C17 — generated identifiers are valid and collision-free (the provable half of C17)

PARTIAL by design: "generation succeeds and the generated packages type-check for all schemas × configurations"
is not a theorem (Go's type checker and text/template are outside the model); `checks/c17.py` samples it with a
generate-and-build sweep. What is proved here, for ALL names / call sequences, about the naming functions of
`codegen/templates/templates.go` as modelled in `Model/Naming.lean` (tables regenerated from the source into
`Gen/Keywords.lean`, so an edit of `keywords` / `CommonInitialisms` re-checks these proofs against the new tables):
-/
namespace GqlgenVerif.Props.C17
open GqlgenVerif GqlgenVerif.Naming

/-! ## ToGoPrivate never returns a Go keyword -/

/-- the regenerated `keywords` table contains every keyword of the Go specification -/
theorem keywords_table_complete : ∀ k ∈ goKeywords, kws.contains k = true := by decide

/-- a sanitised keyword is not itself a keyword -/
theorem suffixed_not_keyword : ∀ k ∈ kws, goKeywords.contains (k ++ suffix) = false := by decide

theorem sanitize_not_keyword (n : Name) : goKeywords.contains (sanitize n) = false := by
  unfold sanitize
  split
  · rename_i h
    exact suffixed_not_keyword n (by simpa using h)
  · rename_i h
    cases hc : goKeywords.contains n with
    | false => rfl
    | true =>
      exact absurd (keywords_table_complete n (by simpa using hc)) h

/-- **toGoPrivate_not_keyword**: for every string whatsoever, `ToGoPrivate` does not return a Go keyword. -/
theorem toGoPrivate_not_keyword (name : Name) : goKeywords.contains (toGoPrivate name) = false := by
  unfold toGoPrivate
  split
  · decide
  · exact sanitize_not_keyword _

/-- non-vacuity: the keyword `range` is renamed, an ordinary name is not -/
example : toGoPrivate (str "range") = str "rangeArg" ∧ toGoPrivate (str "user_id") = str "userID" := by decide

/-! ## ToGo on names that start (after underscores) with a digit — the statement at full strength is false -/

/- Full-strength statement (FALSE on the unchanged tree):
     ∀ name, GraphQL name → validIdent (toGo name)
   `_1` is a GraphQL name; `ToGo("_1") = "1"`, which is not an identifier (known finding F17a). -/
theorem leading_underscore_digit_witness :
    toGo (str "_1") = str "1" ∧ validIdent (toGo (str "_1")) = false ∧
    toGoPrivate (str "_1") = str "1" ∧ validIdent (toGo (str "__")) = false := by decide

/-! ## the ToGoModelName registry hands out each name once -/

/-- **modelName_injective_on_registry**: after ANY sequence of `ToGoModelName` / `ToGoPrivateModelName` calls from
the empty registry, two keys that are both registered under the same Go name are the same key — i.e. distinct
(type | enum-value) keys never share a generated identifier. -/
theorem modelName_injective_on_registry (primary : Name → Name) (calls : List (List Name)) (k1 k2 n : Name)
    (h1 : (runCalls primary [] calls).2.lookup k1 = some n)
    (h2 : (runCalls primary [] calls).2.lookup k2 = some n) : k1 = k2 :=
  regInj_lookup_inj _ (runCalls_inj primary [] calls ⟨by simp, by simp⟩) k1 k2 n h1 h2

/-- the same from any injective registry (the registry is process-global: calls of an earlier generation stay) -/
theorem modelName_injective_from (primary : Name → Name) (r : Reg) (hr : RegInj r) (calls : List (List Name))
    (k1 k2 n : Name) (h1 : (runCalls primary r calls).2.lookup k1 = some n)
    (h2 : (runCalls primary r calls).2.lookup k2 = some n) : k1 = k2 :=
  regInj_lookup_inj _ (runCalls_inj primary r calls hr) k1 k2 n h1 h2

/-- non-vacuity (docs/content/reference/name-collision.md, Example C and the enum example): colliding inputs get
distinct names -/
example : (runCalls toGo [] [[str "MyEnum", str "value"], [str "MyEnum", str "Value"], [str "foo"], [str "Foo"], [str "FOO"]]).1
    = [some (str "MyEnumValue"), some (str "MyEnumValue0"), some (str "Foo"), some (str "Foo0"), some (str "Foo1")] := by decide

end GqlgenVerif.Props.C17
