import GqlgenVerif.Model.Rewrite
import GqlgenVerif.Model.RewriteSpec
/-! # C19 — regeneration never loses user-written resolver code (theorems; work in progress) -/
namespace GqlgenVerif.Props.C19
open GqlgenVerif.Rewrite GqlgenVerif.Gen.RewriteOffsets

/-- `GetMethodBody` returns exactly the text between the braces (offsets regenerated from the source). -/
theorem getMethodBody_inner (d : Decl) : getMethodBody d = d.inner := by
  simp [getMethodBody, Decl.body, bodyStartOff, bodyEndOff]

end GqlgenVerif.Props.C19
