import GqlgenVerif.Lemmas.Rewrite
/-!
# C19 — regeneration never loses user-written resolver code

All theorems are about `Model/Rewrite.lean` (`regenerate`, `step`, `iterate`) and quantify over **every**
package (any files, any declarations with any source text), every schema and every history of
regenerations, in both layouts. The facts taken from the source on every run
(`Gen/RewriteOffsets.lean`: the slice offsets of `GetMethodBody`, the skip conditions / separator / trim of
`RemainingSource`, the shape of the template's WARNING block, the alias rule of `Import.String`, and WHICH
name helper resolver.go applies to a type name to look a previous method / struct / accessor up versus which one
resolver.gotpl applies to write them, per layout) enter the
proofs by unfolding, so an edit of those lines changes the statement being proved.

Go's parser / printer / type checker are not modelled: declarations come with the source text go/parser
delimits; "compiles" is proved only structurally (`add_only_keeps_everything`).

Partial statements and why:
* `imports_kept_partial` — the full statement (every user import survives under its own name) is false for
  imports that clash with the template's own imports: `import_alias_on_template_path_witness`,
  `import_name_clash_witness` (known findings F19b, F19c). `import_alias_suffix_witness` shows what the
  `fix:` d8050c4 repaired.
* `doc_kept` is stated on `Doc.Text()`; a leading backslash is stripped: `doc_backslash_witness` (F19e).
  Directive lines are dropped inside go/ast's `Text()` itself, outside the model (F19d, replayed by the harness).
* `copied_is_regenerated` says what is marked copied; for the accessor and the struct type only the
  template text is written, user changes to them are lost: `boilerplate_overwritten_witness` (F19f).
* `accessor_lookup_is_emitted_accessor_partial`: the accessor `func (r *Resolver) X()` is looked up under
  `cases.Title(o.Name)` and written as `ucFirst o.Name`; these differ for a type name with a leading underscore
  (`accessor_title_witness`): the old accessor is then not marked copied and lands in the WARNING block while
  the template writes a fresh one — boilerplate, nothing of the user's is lost (`nothing_lost` covers it).
* `valid_go_output` is full strength since `fix:` 960850a; `valid_go_output_block_partial` +
  `block_comment_witness` are the statement and the counterexample for the template as it was.
-/
namespace GqlgenVerif.Props.C19
open GqlgenVerif.Rewrite GqlgenVerif.Gen.RewriteOffsets

-- ------------------------------------------------------------------ demo data for the non-vacuity examples

def dImport : Decl :=
  { isFunc := false, tok := "IMPORT", recv := "", name := "", doc := [], specDoc := [], namedV := "", namedE := "",
    hdr := "import (\n\t\"context\"\n\tstr \"strings\"\n)".toList, inner := [], hasBody := false }
def dTodos : Decl :=
  { isFunc := true, tok := "", recv := "queryResolver", name := "Todos", doc := "Todos lists.\n".toList,
    specDoc := "Todos lists.".toList, namedV := "res", namedE := "err",
    hdr := "func (r *queryResolver) Todos(ctx context.Context) (res []*Todo, err error) ".toList,
    inner := "\n\tpanic(str.ToUpper(\"x {\"))\n".toList, hasBody := true, canon := "panic(str.ToUpper(\"x {\"))".toList }
def dHelper : Decl :=
  { isFunc := true, tok := "", recv := "", name := "helper", doc := [], specDoc := [], namedV := "", namedE := "",
    hdr := "func helper() int ".toList, inner := " return 1 ".toList, hasBody := true }
def f0 : File :=
  { name := "a.resolvers.go", imports := [⟨"", "context", "context"⟩, ⟨"str", "strings", "strings"⟩],
    decls := [dImport, dTodos, dHelper] }
def p0 : Pkg := [f0]
def sch0 : Schema := [{ name := "Query", file := "a.resolvers.go", fields := [⟨"Todos", "todos", "a.resolvers.go", true⟩] }]
def oQuery : Obj := { name := "Query", file := "a.resolvers.go", fields := [⟨"Todos", "todos", "a.resolvers.go", true⟩] }
def fTodos : Field := ⟨"Todos", "todos", "a.resolvers.go", true⟩
def cfgF : Cfg := { layout := .follow }
def cfgS : Cfg := { layout := .single }
def keptTodos : Kept := ⟨"panic(str.ToUpper(\"x {\"))".toList, "res", "err", "Todos lists.".toList⟩

-- ------------------------------------------------------------------ 0. the names looked up are the names written

/-- a type whose name the "make it private" helpers treat differently: `LcFirst` gives `uRLInfo`, `ToGoPrivate` `urlInfo` -/
def oURL : Obj := { name := "URLInfo", file := "a.resolvers.go", fields := [⟨"Hits", "hits", "a.resolvers.go", true⟩] }
def fHits : Field := ⟨"Hits", "hits", "a.resolvers.go", true⟩
def cfgURL : Cfg :=
  { layout := .follow
    names := fun s => if s == "URLInfo" then ⟨"urlInfo", "URLInfo", "URLInfo"⟩ else ⟨lcFirst s, ucFirst s, ucFirst s⟩ }
def dHits : Decl :=
  { isFunc := true, tok := "", recv := "uRLInfoResolver", name := "Hits", doc := [], specDoc := [], namedV := "n", namedE := "err",
    hdr := "func (r *uRLInfoResolver) Hits(ctx context.Context, obj *URLInfo) (n int, err error) ".toList,
    inner := "\n\tn = len(obj.URL)\n\treturn\n".toList, hasBody := true, canon := "n = len(obj.URL)\n\treturn".toList }
def pURL : Pkg := [{ name := "a.resolvers.go", imports := [⟨"", "context", "context"⟩], decls := [dHits] }]

/-- **lookup_name_is_emitted_name.** In both layouts, for every GraphQL type name and whatever `ToGo`,
`ToGoPrivate` and `cases.Title` return for it (`cfg.names` is any function): the receiver type under which
resolver.go searches for a field's previous method (`GetMethodComment`, `GetMethodBody`, `GetPrevDecl`) is the
receiver type resolver.gotpl writes the method with. Proved over the regenerated facts `lookupRecvSingle`,
`lookupRecvFollow`, `emitRecv`: it closes only while the same helper is applied on both sides, and
`body_verbatim`, `named_results_and_doc_kept`, `body_doc_results_kept_forever`, `idempotent_methods`,
`spec_methods_hold_on_model` all rest on it. -/
theorem lookup_name_is_emitted_name (cfg : Cfg) (o : Obj) : lookupName cfg o = structName cfg o := lookupName_eq cfg o

/-- … so the search finds exactly the method a previous run wrote (its receiver is `structName`). -/
theorem lookup_finds_emitted_method (cfg : Cfg) (p : Pkg) (o : Obj) (f : Field) :
    mkMethod cfg p o f = mkMethodAt cfg p o f (structName cfg o) := by
  unfold mkMethod; rw [lookupName_eq]

/-- What is at stake: were the method of `URLInfo.hits` searched under `ToGoPrivate(o.Name)+"Resolver"`
(`urlInfoResolver`) while the template writes `uRLInfoResolver`, the user's body would be replaced by the
panic stub and their method would not be marked copied; searched under the emitted name it is kept. -/
theorem lookup_under_other_name_loses_body_witness :
    mangle cfgURL .toGoPrivate "URLInfo" ++ "Resolver" ≠ structName cfgURL oURL ∧
    (mkMethodAt cfgURL pURL oURL fHits (mangle cfgURL .toGoPrivate "URLInfo" ++ "Resolver")).impl = defaultImpl fHits ∧
    (mkMethodAt cfgURL pURL oURL fHits (mangle cfgURL .toGoPrivate "URLInfo" ++ "Resolver")).namedV = "" ∧
    (mkMethod cfgURL pURL oURL fHits).impl = trim dHits.inner ∧ (mkMethod cfgURL pURL oURL fHits).namedV = "n" := by decide

/-- **marked_struct_is_emitted_struct.** The struct type `MarkStructCopied` is called with is the struct type
the template writes, and the template's three spellings of it (method receiver, struct type, accessor result)
agree — for every type name, both layouts. -/
theorem marked_struct_is_emitted_struct (cfg : Cfg) (o : Obj) :
    markName cfg o = structTypeName cfg o.name ∧ structName cfg o = structTypeName cfg o.name ∧
    accessorRetName cfg o.name = structTypeName cfg o.name := ⟨markName_eq cfg o, rfl, rfl⟩

/-- **accessor_lookup_is_emitted_accessor_partial.** The accessor marked copied (`cases.Title(o.Name)`) is the
accessor the template writes (`ucFirst o.Name`) whenever `cases.Title` only upper-cases the first character of
the type name. Full statement (no hypothesis) is false: `accessor_title_witness`. -/
theorem accessor_lookup_is_emitted_accessor_partial (cfg : Cfg) (o : Obj) (h : (cfg.names o.name).title = ucFirst o.name) :
    accessorLookup cfg o = accessorName cfg o.name := by
  unfold accessorLookup accessorName byLayout; cases cfg.layout <;> exact h

example : (cfgURL.names oURL.name).title = ucFirst oURL.name := by decide

/-- `cases.Title("_meta") = "_Meta"`, the template writes `_meta`: the accessor of such a type is never marked copied. -/
theorem accessor_title_witness :
    let cfg : Cfg := { layout := .follow, names := fun _ => ⟨"meta", "Meta", "_Meta"⟩ }
    accessorLookup cfg { name := "_meta", file := "a.resolvers.go", fields := [] } = "_Meta" ∧ accessorName cfg "_meta" = "_meta" := by decide

-- ------------------------------------------------------------------ 1. bodies

/-- `GetMethodBody` returns exactly the text between the braces (offsets regenerated from the source). -/
theorem getMethodBody_is_inner (d : Decl) : getMethodBody d = d.inner := getMethodBody_inner d

/-- **body_verbatim.** If the field still exists (`f` is a resolver field of an object of the new schema) and the
package declares its method — on the receiver type the template writes, `structName`, for any type name — with a
non-empty body (`d` is the first such declaration), the regenerated file the
layout assigns to the field contains the method with exactly the old body up to `strings.TrimSpace`; read
back from the written file, the body trims to the same text. -/
theorem body_verbatim (cfg : Cfg) (p : Pkg) (sch : Schema) (o : Obj) (f : Field) (k : Key) (d : Decl)
    (ho : o ∈ sch) (hf : f ∈ o.resolverFields)
    (hm : firstMatch p (structName cfg o) f.goName = some (k, d)) (hne : trim d.inner ≠ []) :
    ∃ nf ∈ regenerate cfg p sch, nf.name = targetFile cfg f.file ∧
      ∃ m ∈ nf.methods, m.recv = structName cfg o ∧ m.name = f.goName ∧ m.impl = trim d.inner ∧
        trim (getMethodBody m.toDecl) = trim d.inner := by
  obtain ⟨nf, hnf, hname, hmem⟩ := method_in_output cfg p sch o f ho hf
  obtain ⟨h1, h2, h3, _⟩ := mkMethod_of_match cfg p o f k d hm hne
  refine ⟨nf, hnf, hname, _, hmem, h1, h2, h3, ?_⟩
  rw [getMethodBody_inner]
  show trim ('\n' :: '\t' :: ((mkMethod cfg p o f).impl ++ ['\n'])) = trim d.inner
  rw [h3]
  have := trim_pad ['\n', '\t'] (trim d.inner) ['\n'] (by simp [isSpace_nl, isSpace_tab]) (by simp [isSpace_nl])
    (noLead_trim _) (noTrail_trim _)
  simpa using this

example : oQuery ∈ sch0 ∧ fTodos ∈ oQuery.resolverFields ∧
    firstMatch p0 (structName cfgF oQuery) fTodos.goName = some ((0, 1), dTodos) ∧ trim dTodos.inner ≠ [] := by decide

/-- **named_results_and_doc_kept.** Same situation: the regenerated method has the old named results, and the
old doc comment (`Doc.Text()` without leading backslashes, trimmed) when there was one. -/
theorem named_results_and_doc_kept (cfg : Cfg) (p : Pkg) (sch : Schema) (o : Obj) (f : Field) (k : Key) (d : Decl)
    (ho : o ∈ sch) (hf : f ∈ o.resolverFields)
    (hm : firstMatch p (structName cfg o) f.goName = some (k, d)) (hne : trim d.inner ≠ []) :
    ∃ nf ∈ regenerate cfg p sch, ∃ m ∈ nf.methods, m.recv = structName cfg o ∧ m.name = f.goName ∧
      m.namedV = d.namedV ∧ m.namedE = d.namedE ∧
      (trim (trimBackslashes d.doc) ≠ [] → m.doc = trim (trimBackslashes d.doc)) := by
  obtain ⟨nf, hnf, _, hmem⟩ := method_in_output cfg p sch o f ho hf
  obtain ⟨h1, h2, _, h4, h5, h6⟩ := mkMethod_of_match cfg p o f k d hm hne
  exact ⟨nf, hnf, _, hmem, h1, h2, h4, h5, h6⟩

example : trim (trimBackslashes dTodos.doc) ≠ [] := by decide
example : oURL ∈ [oURL] ∧ fHits ∈ oURL.resolverFields ∧
    firstMatch pURL (structName cfgURL oURL) fHits.goName = some ((0, 0), dHits) ∧ trim dHits.inner ≠ [] := by decide

/-- **doc_kept.** … and when the doc text does not start with a backslash, that is the doc text itself. -/
theorem doc_kept (cfg : Cfg) (p : Pkg) (sch : Schema) (o : Obj) (f : Field) (k : Key) (d : Decl)
    (ho : o ∈ sch) (hf : f ∈ o.resolverFields)
    (hm : firstMatch p (structName cfg o) f.goName = some (k, d)) (hne : trim d.inner ≠ [])
    (hdoc : trim d.doc ≠ []) (hbs : d.doc.head? ≠ some '\\') :
    ∃ nf ∈ regenerate cfg p sch, ∃ m ∈ nf.methods, m.recv = structName cfg o ∧ m.name = f.goName ∧ m.doc = trim d.doc := by
  obtain ⟨nf, hnf, m, hm', h1, h2, _, _, h5⟩ := named_results_and_doc_kept cfg p sch o f k d ho hf hm hne
  rw [trimBackslashes_of_head hbs] at h5
  exact ⟨nf, hnf, m, hm', h1, h2, h5 hdoc⟩

example : trim dTodos.doc ≠ [] ∧ dTodos.doc.head? ≠ some '\\' := by decide

/-- F19e: a doc comment that starts with a backslash is not kept verbatim. -/
theorem doc_backslash_witness :
    let d := { dTodos with doc := "\\brief Todos lists.\n".toList }
    (mkMethod cfgF [{ f0 with decls := [dImport, d, dHelper] }] oQuery fTodos).doc = "brief Todos lists.".toList := by decide

/-- **kept forever.** However often regeneration is repeated, over whatever schemas — as long as each of them
still has the field — every declaration of the method in the package keeps carrying the same trimmed body,
named results and doc text, and the method stays declared. (`Agree` speaks about *all* declarations of
`s.m`, so no uniqueness assumption is needed; for a package that compiles there is exactly one.) -/
theorem body_doc_results_kept_forever (cfg : Cfg) (s m : String) (kp : Kept)
    (hs : s ≠ cfg.rtype) (hne : kp.body ≠ []) (hdne : kp.doc ≠ []) (hbs : kp.doc.head? ≠ some '\\')
    (schs : List Schema) (p : Pkg) (hag : Agree p s m kp) (hpr : Present p s m)
    (hreq : ∀ sch ∈ schs, Requested cfg sch s m) :
    Agree (iterate cfg p schs) s m kp ∧ Present (iterate cfg p schs) s m :=
  agree_iterate cfg s m kp hs hne hdne hbs schs p hag hpr hreq

example : "queryResolver" ≠ cfgF.rtype ∧ keptTodos.body ≠ [] ∧ keptTodos.doc ≠ [] ∧ keptTodos.doc.head? ≠ some '\\' := by decide
example : Agree p0 "queryResolver" "Todos" keptTodos := by
  intro kd hkd hm
  have : kd ∈ [((0, 0), dImport), ((0, 1), dTodos), ((0, 2), dHelper)] := hkd
  simp only [List.mem_cons, List.not_mem_nil, or_false] at this
  rcases this with rfl | rfl | rfl
  · simp [isMethod, dImport] at hm
  · decide
  · simp [isMethod, dHelper] at hm
example : Present p0 "queryResolver" "Todos" := ⟨((0, 1), dTodos), by decide, by decide⟩
example : Requested cfgF sch0 "queryResolver" "Todos" := ⟨oQuery, by decide, fTodos, by decide, by decide, by decide⟩

/-- One run also leaves the invariant intact when the field is *not* requested any more (the method then
only survives as leftover text); this is the single-step form. -/
theorem kept_one_step (cfg : Cfg) (p : Pkg) (sch : Schema) (s m : String) (kp : Kept)
    (hs : s ≠ cfg.rtype) (hne : kp.body ≠ []) (hdne : kp.doc ≠ []) (hbs : kp.doc.head? ≠ some '\\')
    (hag : Agree p s m kp) (hpr : Present p s m) :
    Agree (step cfg p sch) s m kp ∧ (Requested cfg sch s m → Present (step cfg p sch) s m) :=
  agree_step cfg p sch s m kp hs hne hdne hbs hag hpr

/-- **idempotent_methods.** Regenerating twice writes exactly the methods regenerating once writes: same
receiver, name, doc comment, named results and body — for a method with or without a previous
implementation, in both layouts. Hypotheses: all declarations of the method in the package read alike
(`hagree`; trivially so when there is one, as in any package that compiles), the schema does not map two
differently named fields to this same Go method (`huniq`), the Go field name is an identifier (`hgo`), and
the doc comment does not (still) start with a backslash (`hbs`, F19e).
(`idempotent_when_nothing_left` of the design: the method half is this theorem — it needs no "nothing left"
premise; that the *leftover* of the second run is empty is sampled by the correspondence run, where the
model predicts the leftover text of every repeated regeneration exactly.) -/
theorem idempotent_methods (cfg : Cfg) (p : Pkg) (sch : Schema) (o : Obj) (f : Field)
    (ho : o ∈ sch) (hf : f ∈ o.resolverFields) (hs : structName cfg o ≠ cfg.rtype)
    (hagree : ∀ kd ∈ allDecls p, ∀ kd' ∈ allDecls p, isMethod (structName cfg o) f.goName kd.2 = true →
      isMethod (structName cfg o) f.goName kd'.2 = true → content kd.2 = content kd'.2)
    (huniq : ∀ o' ∈ sch, ∀ f' ∈ o'.resolverFields, structName cfg o' = structName cfg o → f'.goName = f.goName → f'.name = f.name)
    (hgo : StartsWithLetter f.goName) (hbs : (mkMethod cfg p o f).doc.head? ≠ some '\\') :
    SameOut (mkMethod cfg (step cfg p sch) o f) (mkMethod cfg p o f) :=
  idempotent_methods_lemma cfg p sch o f ho hf hs hagree huniq hgo hbs

example : structName cfgF oQuery ≠ cfgF.rtype ∧ StartsWithLetter fTodos.goName ∧
    (mkMethod cfgF p0 oQuery fTodos).doc.head? ≠ some '\\' ∧
    (∀ o' ∈ sch0, ∀ f' ∈ o'.resolverFields, structName cfgF o' = structName cfgF oQuery → f'.goName = fTodos.goName → f'.name = fTodos.name) :=
  ⟨by decide, ⟨'T', "odos".toList, by decide, by decide, by decide⟩, by decide, by decide⟩
example : ∀ kd ∈ allDecls p0, ∀ kd' ∈ allDecls p0, isMethod (structName cfgF oQuery) fTodos.goName kd.2 = true →
    isMethod (structName cfgF oQuery) fTodos.goName kd'.2 = true → content kd.2 = content kd'.2 := by
  intro kd hkd kd' hkd' hm hm'
  have e : allDecls p0 = [((0, 0), dImport), ((0, 1), dTodos), ((0, 2), dHelper)] := by decide
  rw [e] at hkd hkd'
  simp only [List.mem_cons, List.not_mem_nil, or_false] at hkd hkd'
  have h1 : isMethod (structName cfgF oQuery) fTodos.goName dImport = false := by decide
  have h2 : isMethod (structName cfgF oQuery) fTodos.goName dHelper = false := by decide
  rcases hkd with rfl | rfl | rfl <;> rcases hkd' with rfl | rfl | rfl <;> simp_all

/-- **Impl ⊨ Spec (methods).** The executable Spec the check evaluates on the implementation's output
(`Spec.methodViolations`: body, named results, doc of every resolver method whose field still exists) finds
nothing on the model's own output, for every package and schema whose requested methods sit in gofmt-ed
files (`Formatted`) and have doc comments that `Doc.Text()` reads faithfully (`DocPlain`). -/
theorem spec_methods_hold_on_model (cfg : Cfg) (p : Pkg) (sch : Schema)
    (hdoc : ∀ r ∈ resolverReqs cfg sch, ∀ k d, firstMatch p r.recv r.name = some (k, d) → DocPlain d ∧ Formatted d) :
    Spec.methodViolations cfg p sch (step cfg p sch) = [] := spec_methods_hold cfg p sch hdoc

example : ∀ r ∈ resolverReqs cfgF sch0, ∀ k d, firstMatch p0 r.recv r.name = some (k, d) → DocPlain d ∧ Formatted d := by
  intro r hr k d h
  have : r = ⟨"queryResolver", "Todos"⟩ := by
    have : r ∈ [(⟨"queryResolver", "Todos"⟩ : Req)] := hr
    simpa using this
  subst this
  have : firstMatch p0 "queryResolver" "Todos" = some ((0, 1), dTodos) := by decide
  rw [this] at h
  obtain ⟨_, rfl⟩ := Prod.mk.inj (Option.some.inj h)
  exact ⟨(by decide : dTodos.specDoc = trim (trimBackslashes dTodos.doc)), (by decide : dTodos.canon = trim dTodos.inner)⟩

-- ------------------------------------------------------------------ 2. nothing is lost

/-- **nothing_lost.** Every non-import declaration `d` (with its source text starting and ending in a
non-space character, as go/parser delimits it) of a file that is rendered again is either marked copied or
its full source text is inside the leftover text written to the WARNING block of that same file. -/
theorem nothing_lost (cfg : Cfg) (p : Pkg) (sch : Schema) (nf : NewFile) (fi : Nat) (f : File) (j : Nat) (d : Decl)
    (hnf : nf ∈ regenerate cfg p sch) (hfile : findFile p nf.name = some (fi, f)) (hd : f.decls[j]? = some d)
    (hni : d.isImport = false) (hne : d.src ≠ []) (h1 : NoLeadSpace d.src) (h2 : NoTrailSpace d.src) :
    (fi, j) ∈ copied cfg p sch ∨ hasInfix d.src nf.remaining = true := by
  by_cases hc : (fi, j) ∈ copied cfg p sch
  · exact Or.inl hc
  · right
    unfold regenerate at hnf
    obtain ⟨name, _, rfl⟩ := List.mem_map.mp hnf
    exact leftover_contains _ p name fi f j d hfile hd hni hne h1 h2 hc

example : findFile p0 "a.resolvers.go" = some (0, f0) ∧ f0.decls[2]? = some dHelper ∧ dHelper.isImport = false ∧
    dHelper.src ≠ [] ∧ (0, 2) ∉ copied cfgF p0 sch0 := by decide
example : NoLeadSpace dHelper.src ∧ NoTrailSpace dHelper.src := by
  constructor
  · intro c r h
    have : dHelper.src = 'f' :: "unc helper() int { return 1 }".toList := by decide
    rw [this] at h; injection h with h _; subst h; decide
  · intro c r h
    have : dHelper.src = "func helper() int { return 1 ".toList ++ ['}'] := by decide
    rw [this] at h
    have := List.append_inj' h rfl
    simp at this; rw [← this.2]; decide

/-- **copied_is_regenerated.** What is marked copied is exactly: the first declaration of a method
resolvergen asked for (a resolver method — re-emitted with its body by `body_verbatim` — or an object
accessor `func (r *Resolver) Query()`), or a `type xResolver struct` declaration of an object with resolvers. -/
theorem copied_is_regenerated (cfg : Cfg) (p : Pkg) (sch : Schema) (k : Key) (h : k ∈ copied cfg p sch) :
    (∃ r ∈ reqs cfg sch, ∃ d, firstMatch p r.recv r.name = some (k, d)) ∨
    (∃ n ∈ structNames cfg sch, ∃ d, (k, d) ∈ allDecls p ∧ isStructDecl n d = true) :=
  copied_cases cfg p sch k h

example : (0, 1) ∈ copied cfgF p0 sch0 := by decide

/-- F19f: a user-modified struct type is marked copied, only the template text is written: the user's
declaration is neither in the leftover text nor anywhere in the regenerated package. -/
theorem boilerplate_overwritten_witness :
    let d : Decl := { isFunc := false, tok := "TYPE", recv := "", name := "queryResolver", doc := [], specDoc := [],
                      namedV := "", namedE := "", hdr := "type queryResolver struct {\n\t*Resolver\n\tcache int\n}".toList,
                      inner := [], hasBody := false }
    let p : Pkg := [{ f0 with decls := [dImport, dTodos, d] }]
    (0, 2) ∈ copied cfgF p sch0 ∧
    (∀ nf ∈ regenerate cfgF p sch0, hasInfix d.src nf.remaining = false) ∧
    (∀ kd ∈ allDecls (step cfgF p sch0), kd.2.src ≠ d.src) := by decide

/-- Files that are not rendered in this run stay exactly as they are. -/
theorem other_files_untouched (cfg : Cfg) (p : Pkg) (sch : Schema) (g : File) (hg : g ∈ p)
    (hn : g.name ∉ outNames cfg p sch) : g ∈ step cfg p sch := by
  apply apply_preserve hg
  intro y hy e
  apply hn
  unfold regenerate at hy
  obtain ⟨name, hname, rfl⟩ := List.mem_map.mp hy
  have : (mkFile cfg p sch name).name = name := rfl
  rw [← e, this]; exact hname

example : (⟨"resolver.go", [], []⟩ : File) ∈ p0 ++ [⟨"resolver.go", [], []⟩] ∧
    "resolver.go" ∉ outNames cfgF (p0 ++ [⟨"resolver.go", [], []⟩]) sch0 := by decide

/-- The leftover text is written out in full: inside the block comment, … -/
theorem leftover_written_block (rem : Text) (h : rem ≠ []) : hasInfix rem (trailer .blockAlways rem) = true := by
  rw [hasInfix_iff]
  have : (rem == []) = false := by simpa using h
  simp only [trailer, this, Bool.false_eq_true, if_false]
  exact ⟨warningHeader ++ "/*\n\t".toList, "\n\t*/\n".toList, by simp⟩

/-- … or, as `// ` lines, recoverable verbatim by removing that prefix from every line. -/
theorem leftover_written_lines (rem : Text) : unprefixLines "// ".toList (prefixLines "// ".toList rem) = rem :=
  unprefix_prefixLines _ _

/-- what the template writes now is one of those two -/
theorem leftover_written (rem : Text) (h : rem ≠ []) :
    trailer trailerMode rem = warningHeader ++ "/*\n\t".toList ++ rem ++ "\n\t*/\n".toList ∨
    trailer trailerMode rem = warningHeader ++ prefixLines "// ".toList rem ++ ['\n'] := by
  have : (rem == []) = false := by simpa using h
  simp only [trailer, trailerMode, this, Bool.false_eq_true, if_false]
  split
  · exact Or.inr rfl
  · exact Or.inl rfl

-- ------------------------------------------------------------------ 3. the regenerated file is valid Go (its tail)

/-- **valid_go_output** (full strength). Whatever the leftover code is, the text the template writes after the
last declaration is lexically valid Go: white space and complete comments only. -/
theorem valid_go_output (rem : Text) : validTail (trailer trailerMode rem) = true := by
  by_cases h : rem = []
  · subst h; decide
  · have h' : (rem == []) = false := by simpa using h
    simp only [trailer, trailerMode, h', Bool.false_eq_true, if_false]
    by_cases hb : hasInfix blockEnd rem = true
    · rw [if_pos hb]; exact valid_trailer_line rem
    · rw [if_neg hb]; exact valid_trailer_block rem (by simpa using hb)

/-- The template as it was before `fix:` 960850a (`/* … */` always) is valid only under
`NoBlockCommentEnd remaining`: -/
theorem valid_go_output_block_partial (rem : Text) (h : hasInfix blockEnd rem = false) :
    validTail (trailer .blockAlways rem) = true := by
  by_cases h0 : rem = []
  · subst h0; decide
  · have h' : (rem == []) = false := by simpa using h0
    simp only [trailer, h', Bool.false_eq_true, if_false]
    exact valid_trailer_block rem h

example : hasInfix blockEnd dHelper.src = false := by decide

set_option maxRecDepth 100000 in
/-- … and false without it (F19, fixed): a helper with a block comment, or a glob string. -/
theorem block_comment_witness :
    validTail (trailer .blockAlways "func h() int {\n\t/* c */\n\treturn 1\n}".toList) = false ∧
    validTail (trailer .blockAlways "func g() ([]string, error) { return filepath.Glob(\"static/*/index.html\") }".toList) = false := by
  decide

-- ------------------------------------------------------------------ 4. imports

/-- **imports_kept_partial.** A user import that is one of the template's own imports under the same name,
or that clashes neither with a template import nor with another user import, is in the reserved list, and
the import line written for it binds the same name; it survives pruning whenever the regenerated file's
code mentions that name (or it is a `_` / `.` import).
Full statement (no `hfree` hypothesis) is false: see the two witnesses below. -/
theorem imports_kept_partial (user : List Import) (hnp : (user.map (·.path)).Nodup) (hnn : (user.map userLocal).Nodup)
    (i : Import) (hi : i ∈ user) (hpkg : i.pkg ≠ "")
    (hfree : isAmbient i = true ∨ ((∀ a ∈ ambient, a.path ≠ i.path) ∧ (∀ a ∈ ambient, a.alias ≠ userLocal i)))
    (used : List String) (hu : used.contains (userLocal i) = true ∨ userLocal i = "_" ∨ userLocal i = ".") :
    ∃ j ∈ prune used (reserve user), j.path = i.path ∧ printedLocal j = userLocal i := by
  have keep : ∀ j, printedLocal j = userLocal i → j ∈ reserve user → j ∈ prune used (reserve user) := by
    intro j hj hmem
    unfold prune
    rw [List.mem_filter]
    refine ⟨hmem, ?_⟩
    simp only [hj]
    rcases hu with hu | hu | hu
    · have : userLocal i ∈ used := by simpa using hu
      simp [this]
    · simp [hu]
    · simp [hu]
  rcases hfree with hamb | ⟨hfp, hfn⟩
  · unfold isAmbient at hamb
    rw [List.any_eq_true] at hamb
    obtain ⟨a, ha, hpa⟩ := hamb
    simp only [Bool.and_eq_true, beq_iff_eq] at hpa
    have hl : printedLocal a = userLocal i := by rw [printedLocal_ambient a ha]; exact hpa.2
    exact ⟨a, keep a hl (ambient_subset_reserve user a ha), hpa.1, hl⟩
  · exact ⟨reservedOf i, keep _ (printedLocal_reservedOf i hpkg) (reserve_keeps user hnp hnn i hi hfp hfn), rfl,
      printedLocal_reservedOf i hpkg⟩

example : (f0.imports.map (·.path)).Nodup ∧ (f0.imports.map userLocal).Nodup ∧
    (⟨"str", "strings", "strings"⟩ : Import) ∈ f0.imports ∧ isAmbient ⟨"", "context", "context"⟩ = true ∧
    ((∀ a ∈ ambient, a.path ≠ "strings") ∧ (∀ a ∈ ambient, a.alias ≠ userLocal ⟨"str", "strings", "strings"⟩)) := by decide

/-- F19b: `f "fmt"` — the template has reserved the path `fmt` under the name `fmt`; no import binding `f` is written. -/
theorem import_alias_on_template_path_witness :
    ∀ j ∈ reserve [⟨"f", "fmt", "fmt"⟩], ¬ (j.path = "fmt" ∧ printedLocal j = "f") := by decide

/-- F19c: `"github.com/pkg/errors"` — the name `errors` is taken by the template's import of the standard
library package; the user's path is not imported at all. -/
theorem import_name_clash_witness :
    ∀ j ∈ reserve [⟨"", "github.com/pkg/errors", "errors"⟩], j.path ≠ "github.com/pkg/errors" := by decide

/-- What `fix:` d8050c4 repaired: with the old rule of `Import.String` (alias omitted whenever the path ends
with it) `lib "example.com/mylib"` was written as `"example.com/mylib"`, which binds `mylib`, not `lib`;
with the rule in the source now it binds `lib`. -/
theorem import_alias_suffix_witness :
    omitAliasWith .suffixOnly ⟨"lib", "example.com/mylib", "mylib"⟩ = true ∧
    printedLocal (reservedOf ⟨"lib", "example.com/mylib", "mylib"⟩) = "lib" := by decide

-- round 6: the collision check of `Reserve` and the bytes `getSource` slices (over `Gen/ReserveFacts`)

/-- **reserve_collision_is_on_the_alias.** Whatever the package behind the path is called: an import whose path and
whose NAME IN THE FILE (`userLocal`: the explicit alias, else the package name) are free when its turn comes is
reserved. Stated over the regenerated `collisionKey`: with `findByAlias(name)` instead of `findByAlias(alias)` in
`(*Imports).Reserve` (seeded change C19-11) `Lemmas.reserve1_adds`, this theorem and `imports_kept_partial` stop closing. -/
theorem reserve_collision_is_on_the_alias (acc : List Import) (i : Import)
    (hp : ∀ j ∈ acc, j.path ≠ i.path) (ha : ∀ j ∈ acc, j.alias ≠ userLocal i) :
    reservedOf i ∈ reserve1 acc i := reserve1_adds acc i hp ha

/-- **aliased_import_kept_whatever_its_package_name.** A user import with an explicit alias that no template import and
no other user import is called by (and whose path is not imported otherwise) is written under that alias and survives
pruning when the code mentions the alias - with NO hypothesis on the package's real name, which may well be `ast`,
`errors`, `context`, ... or the name of another user import: that is what the alias is for. -/
theorem aliased_import_kept_whatever_its_package_name (user : List Import)
    (hnp : (user.map (·.path)).Nodup) (hnn : (user.map userLocal).Nodup)
    (i : Import) (hi : i ∈ user) (hal : i.alias ≠ "") (hpkg : i.pkg ≠ "")
    (hfp : ∀ a ∈ ambient, a.path ≠ i.path) (hfn : ∀ a ∈ ambient, a.alias ≠ i.alias)
    (used : List String) (hu : used.contains i.alias = true ∨ i.alias = "_" ∨ i.alias = ".") :
    ∃ j ∈ prune used (reserve user), j.path = i.path ∧ printedLocal j = i.alias := by
  have hl : userLocal i = i.alias := by simp [userLocal, hal]
  have h := imports_kept_partial user hnp hnn i hi hpkg (Or.inr ⟨hfp, by rw [hl]; exact hfn⟩) used (by rw [hl]; exact hu)
  rw [hl] at h
  exact h

/-- the hypotheses are satisfiable with a package name the template has taken (`goast "go/ast"`, `pkgerrors
"github.com/pkg/errors"`) and with one another user import has (`"crypto/rand"`, `mrand "math/rand"`) -/
example :
    let user : List Import := [⟨"", "crypto/rand", "rand"⟩, ⟨"goast", "go/ast", "ast"⟩, ⟨"pkgerrors", "github.com/pkg/errors", "errors"⟩,
      ⟨"mrand", "math/rand", "rand"⟩]
    (user.map (·.path)).Nodup ∧ (user.map userLocal).Nodup ∧
    (∀ i ∈ user, (∀ a ∈ ambient, a.path ≠ i.path) ∧ (∀ a ∈ ambient, a.alias ≠ userLocal i)) ∧
    (reserve user).map (·.path) = ambient.map (·.path) ++ user.map (·.path) := by decide

/-- What the lookup under the package NAME does (the variant `collisionKey := .name`): `goast "go/ast"` is dropped
because the template's gqlparser import is called `ast`, `mrand "math/rand"` because `"crypto/rand"` came first - the
copied bodies then refer to undefined identifiers; un-aliased imports behave as before. -/
theorem collision_on_package_name_drops_aliased_import_witness :
    reserve1With .name ["_", "."] ambient ⟨"goast", "go/ast", "ast"⟩ = ambient ∧
    (([⟨"", "crypto/rand", "rand"⟩, ⟨"mrand", "math/rand", "rand"⟩] : List Import).foldl (reserve1With .name ["_", "."]) ambient).all
      (fun j => j.path != "math/rand") = true ∧
    (([⟨"", "crypto/rand", "rand"⟩, ⟨"mrand", "math/rand", "rand"⟩] : List Import).foldl (reserve1With .alias ["_", "."]) ambient).any
      (fun j => j.path == "math/rand" && j.alias == "mrand") = true := by decide

/-- What `fix:` 0731d3e repaired (F19h): `_ "embed"` + `_ "image/png"` — with the OLD shape of `Reserve` (collision test
unconditional, `collisionExempt = []`) imports that bind no name were reserved as if they all claimed the alias `_`, and
the second one was dropped (likewise two dot imports); with the test guarded by `alias != "_" && alias != "."` both are
reserved, next to a dot import and a second dot import. -/
theorem second_blank_import_dropped_witness :
    (∀ j ∈ ([⟨"_", "embed", "embed"⟩, ⟨"_", "image/png", "png"⟩] : List Import).foldl (reserve1With .alias []) ambient,
      j.path ≠ "image/png") ∧
    (∀ j ∈ ([⟨".", "math", "math"⟩, ⟨".", "strings", "strings"⟩] : List Import).foldl (reserve1With .alias []) ambient,
      j.path ≠ "strings") ∧
    (([⟨"_", "embed", "embed"⟩, ⟨".", "math", "math"⟩, ⟨"_", "image/png", "png"⟩, ⟨".", "strings", "strings"⟩] : List Import).foldl
      (reserve1With .alias ["_", "."]) ambient).map (·.path) =
      ambient.map (·.path) ++ ["embed", "math", "image/png", "strings"] := by decide

/-- **blank_and_dot_imports_kept.** With the facts in the source today (`collisionExempt`, regenerated): every blank
(`_ "p"`) and every dot (`. "p"`) import of the user's file whose path is not imported a second time (by the template or
by the file: F19b / F19i are about that) is written again under `_` / `.` and survives pruning - however many other blank
/ dot imports the file has, whatever names are taken, whatever the code mentions. No hypothesis on the other imports'
aliases. With the unconditional collision test (`collisionExempt = []`, the source before 0731d3e) `hex` does not close. -/
theorem blank_and_dot_imports_kept (user : List Import) (hnp : (user.map (·.path)).Nodup)
    (i : Import) (hi : i ∈ user) (hb : i.alias = "_" ∨ i.alias = ".") (hpkg : i.pkg ≠ "")
    (hfp : ∀ a ∈ ambient, a.path ≠ i.path) (used : List String) :
    ∃ j ∈ prune used (reserve user), j.path = i.path ∧ printedLocal j = i.alias := by
  have hl : userLocal i = i.alias := by rcases hb with h | h <;> simp [userLocal, h]
  have hex : GqlgenVerif.Gen.ReserveFacts.collisionExempt.contains (userLocal i) = true := by
    rw [hl]; rcases hb with h | h <;> rw [h] <;> decide
  have hmem := reserve_keeps_exempt user hnp i hi hfp hex
  have hpl := printedLocal_reservedOf i hpkg
  rw [hl] at hpl
  refine ⟨reservedOf i, ?_, rfl, hpl⟩
  unfold prune
  rw [List.mem_filter]
  refine ⟨hmem, ?_⟩
  simp only [hpl]
  rcases hb with h | h <;> simp [h]

/-- every blank / dot import of a file with several of them is kept (the directed cases `import-two-blank`,
`import-blank-of-reserved-name`): the hypotheses of `blank_and_dot_imports_kept` hold for each -/
example :
    let user : List Import := [⟨"_", "embed", "embed"⟩, ⟨"_", "image/png", "png"⟩, ⟨".", "math", "math"⟩,
      ⟨"_", "github.com/pkg/errors", "errors"⟩, ⟨".", "strings", "strings"⟩]
    (user.map (·.path)).Nodup ∧ (∀ i ∈ user, (i.alias = "_" ∨ i.alias = ".") ∧ i.pkg ≠ "" ∧ ∀ a ∈ ambient, a.path ≠ i.path) ∧
    (prune [] (reserve user)).map (fun j => (printedLocal j, j.path)) = user.map (fun i => (i.alias, i.path)) := by decide

/-- F19i: `"os"` + `xos "os"` (valid Go, both names used) — the path is already reserved, no import binding `xos` is written. -/
theorem same_path_twice_witness :
    ∀ j ∈ reserve [⟨"", "os", "os"⟩, ⟨"xos", "os", "os"⟩], ¬ (j.path = "os" ∧ printedLocal j = "xos") := by decide

/-- **getSource_slices_the_parsed_bytes.** The offsets `getSource` is called with are byte offsets go/parser computed on
the bytes of the file; the text it slices is those very bytes (over the regenerated `cacheForm` of `getFile`). With a
cache that is a rewritten copy of the file (CRLF normalised, seeded change C19-12) this does not close. -/
theorem getSource_slices_the_parsed_bytes (bytes : Text) (s e : Nat) :
    getSourceOf bytes s e = (bytes.drop s).take (e - s) := rfl

/-- What a CRLF-normalised cache does to a file with one CRLF before the body `{x}` (offsets 4..5 = `x`): the slice is
`}` - every body shifted by the number of lines before it. A file without CR is unaffected (second and third conjunct). -/
theorem crlf_normalised_cache_shifts_slices_witness :
    getSourceWith .crlfToLf ['a', '\r', '\n', '{', 'x', '}'] 4 5 = ['}'] ∧
    getSourceWith .raw ['a', '\r', '\n', '{', 'x', '}'] 4 5 = ['x'] ∧
    getSourceWith .crlfToLf ['a', '\n', '{', 'x', '}'] 3 4 = getSourceWith .raw ['a', '\n', '{', 'x', '}'] 3 4 := by decide

/-- a file without carriage returns is cached unchanged under either form - why no LF fixture can tell the two apart -/
theorem normCRLF_without_cr : ∀ (bytes : Text), '\r' ∉ bytes → normCRLF bytes = bytes
  | [], _ => rfl
  | [_], _ => rfl
  | c :: d :: t, h => by
    have hc : c ≠ '\r' := fun e => h (by simp [e])
    have ht : '\r' ∉ d :: t := fun m => h (List.mem_cons_of_mem _ m)
    simp [normCRLF, hc, normCRLF_without_cr (d :: t) ht]

-- ------------------------------------------------------------------ 5. an add-only change keeps everything

/-- **add_only_keeps_everything** (the structural part of "a package that compiled before compiles after").
If every non-import declaration of a rendered file is marked copied — the file held only resolver methods
whose fields are all still in the schema, plus the generated accessors and struct types — nothing is left
over: no WARNING block is written at all. Together with `body_verbatim`, `named_results_and_doc_kept` and
`imports_kept_partial` every method, result name and import of the old file is in the new one; the new
methods are the only additions. (That the result type-checks is sampled through api.Generate's validation.) -/
theorem add_only_keeps_everything (cfg : Cfg) (p : Pkg) (sch : Schema) (nf : NewFile) (hnf : nf ∈ regenerate cfg p sch)
    (h : ∀ fi f, findFile p nf.name = some (fi, f) → ∀ j d, f.decls[j]? = some d →
      d.isImport = true ∨ (fi, j) ∈ copied cfg p sch) :
    nf.remaining = [] ∧ trailer trailerMode nf.remaining = [] := by
  unfold regenerate at hnf
  obtain ⟨name, _, rfl⟩ := List.mem_map.mp hnf
  have : (mkFile cfg p sch name).remaining = [] := nothing_left_of_all_copied _ p name h
  rw [this]
  exact ⟨rfl, rfl⟩

example : ∀ fi f, findFile [{ f0 with decls := [dImport, dTodos] }] "a.resolvers.go" = some (fi, f) →
    ∀ j d, f.decls[j]? = some d → d.isImport = true ∨ (fi, j) ∈ copied cfgF [{ f0 with decls := [dImport, dTodos] }] sch0 := by
  intro fi f hf j d hd
  have : findFile [{ f0 with decls := [dImport, dTodos] }] "a.resolvers.go" = some (0, { f0 with decls := [dImport, dTodos] }) := by decide
  rw [this] at hf
  obtain ⟨rfl, rfl⟩ := Prod.mk.inj (Option.some.inj hf)
  match j, hd with
  | 0, hd => left; simp at hd; subst hd; decide
  | 1, hd => right; decide
  | n + 2, hd => simp at hd

end GqlgenVerif.Props.C19
