import GqlgenVerif.Gen.FedFacts
/-!
# C20 — facts of the federation code generated on this run, which the model `Model/Entities.lean` assumes

`Gen/FedFacts.lean` is re-extracted (go/ast, `go/extract/fedfacts.go`) on every run from the `federation.go`
that `/repo`'s current templates generate for the probe schema. The theorems below are the places where the
hand-written model follows the text of the generated code; a template edit that changes one of them changes
the regenerated definitions and the proof no longer closes.
-/
namespace GqlgenVerif.C20Gen
open GqlgenVerif.Gen.FedFacts

/-- the result list is only ever written at the index carried by the representation (`EntityWithIndex.index`):
`list[rep.index]` on the per-entity goroutines, `list[reps[i].index]` in the batch zip - never at a
group-local position (`Task.effect` writes at the carried index). -/
theorem list_written_only_at_carried_index :
    listWrites ≠ [] ∧ ∀ w ∈ listWrites,
      (w.1 = "resolveEntityGroup" ∧ w.2 = "rep.index") ∨ (w.1 = "resolveManyEntities" ∧ w.2 = "reps[i].index") := by
  decide

/-- `resolveEntity` and `resolveManyEntities` recover their own panics (they run on spawned goroutines) -/
theorem goroutine_entry_points_recover :
    recoverFirst = [("resolveEntity", true), ("resolveManyEntities", true)] := by decide

/-- the only `go` statements: one per group in `__resolve_entities`, one per entity in `resolveEntityGroup`;
their closures call nothing but the recovering functions, `ec.Error` and `WaitGroup.Done` - user code never
runs on a goroutine outside a function that recovers. -/
theorem spawned_closures_call_only_recovering_functions :
    goStmts.map (·.1) = ["__resolve_entities", "resolveEntityGroup"] ∧
    ∀ g ∈ goStmts, ∀ c ∈ g.2,
      c ∈ ["ec.resolveEntityGroup", "ec.resolveEntity", "ec.Error", "g.Done", "e.Done"] := by decide

/-- every spawned goroutine is waited for: `Add(len(groups))`, `Add(len(reps))` -/
theorem every_task_is_awaited :
    wgAdds = [("__resolve_entities", "len(repsMap)"), ("resolveEntityGroup", "len(reps)")] := by decide

/-- a spawned goroutine signals its WaitGroup only after it has recorded its outcome (`list[rep.index] = entity` /
`ec.Error`): `Done()` is the closure's last statement (no `return` before it) or deferred - so `Wait()` returning
happens-after every write and every error, and the response is built from the finished list (the model's `runE`
folds ALL effects before the list is read). -/
theorem outcome_recorded_before_done :
    doneLast = [("__resolve_entities", true), ("resolveEntityGroup", true)] := by decide

/-- single mode chooses the resolver from the representation being resolved (`selectResolver e rep`) -/
theorem single_resolver_chosen_from_own_representation :
    singleSelectArg ≠ [] ∧ ∀ x ∈ singleSelectArg, x.2 = "rep" := by decide

/-- batch mode chooses the resolver from the FIRST representation of the group (`resolveMany`: `rep0`) - the
modelled behaviour behind known finding F20a; if the template starts choosing per representation this
fails and the model has to follow. -/
theorem batch_resolver_chosen_from_first_representation :
    multiSelectArg ≠ [] ∧ ∀ x ∈ multiSelectArg, x.2 = "reps[0].entity" := by decide

/-- every batch resolver call is followed by the length check of the repair `cf85b0d` -/
theorem every_batch_call_is_length_checked : 0 < multiCalls ∧ lengthChecks = multiCalls := by decide

end GqlgenVerif.C20Gen
