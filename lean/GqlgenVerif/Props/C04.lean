import GqlgenVerif.Lemmas.ExecLocal
/-!
# C04 — user-code failures are contained: null plus error at the field, never a crash

Over the execution model (`Model/Exec.lean`, `Model/ExecSpec.lean`): user code is an oracle keyed by
response path; a *fault* replaces what the resolver (or a schema directive) at one path does by an
error or a panic. Quantification: every shape (schema x document x variables), every oracle (every
combination of other faults), every fault path, every fault kind.

The model has no "crash" outcome for a panic raised inside a field function because `_T_f` installs
`defer recover` before calling any user code; that the generated code really has a recover at every
goroutine boundary is tied by the regenerated facts of `Gen/GoBoundaries.lean` (`Props/C04Gen.lean`).
"The process keeps serving" is observed on the implementation (the runner survives and answers the next
case), not proved.
-/
namespace GqlgenVerif.C04
open GqlgenVerif Spec

/-- **Fault locality (resolver).** Changing what the resolver at path `f` does — to an error, a panic,
anything — does not change the completion of any position `q` that `f` does not lie under: every
position outside the failing subtree keeps its value, its errors and its invocations. -/
theorem single_fault_local (o : Oracle) (f : Path) (x : ROut) (fi : FInfo) (sh : Shape) (q : Path)
    (h : ¬ q <+: f) :
    Spec.completeField (o.withRes f x) fi sh q = Spec.completeField o fi sh q :=
  field_local _ _ fi sh q (agree_withRes o f q x h)

/-- **Fault locality (schema directive).** -/
theorem single_directive_fault_local (o : Oracle) (f : Path) (d : String) (x : DOut) (fi : FInfo)
    (sh : Shape) (q : Path) (h : ¬ q <+: f) :
    Spec.completeField (o.withDir f d x) fi sh q = Spec.completeField o fi sh q :=
  field_local _ _ fi sh q (agree_withDir o f q d x h)

/-- The same for the generated code's mechanism, from any error-list state that has nothing under `q`:
sibling subtrees are untouched by a fault elsewhere, including their `HasFieldError` lookups. -/
theorem single_fault_local_impl (o : Oracle) (f : Path) (x : ROut) (fi : FInfo) (sh : Shape) (q : Path)
    (st : St) (h : ¬ q <+: f) (hwf : sh.WF) (hc : Clean st q) :
    Impl.completeField (o.withRes f x) fi sh q st = Impl.completeField o fi sh q st := by
  have a := field_rel (o.withRes f x) fi sh q st hwf hc
  have b := field_rel o fi sh q st hwf hc
  have e := single_fault_local o f x fi sh q h
  apply Prod.ext
  · rw [a.out_eq, b.out_eq, e]
  · rw [a.st_eq, b.st_eq, e]

/-- **A failing resolver completes to null with exactly one error at its own path** (no schema
directive in front of it), and is propagated (`none`) exactly when the position is non-null. -/
theorem error_completes_to_null (o : Oracle) (fi : FInfo) (sh : Shape) (p : Path) (m : String)
    (hd : fi.dirs = []) (hp : fi.plain = false) (h : o.res p = .err m) :
    Spec.completeField o fi sh p =
      (Spec.failed sh.nn, eff [⟨p, m⟩] [(pathStr p, "resolver")]) := by
  simp only [Spec.completeField, hd, List.reverse_nil, Impl.runDirs, Oracle.outcome, hp, h, St.empty_append,
    Bool.false_eq_true, ↓reduceIte]

/-- **A panicking resolver** behaves like a failing one and the recover hook runs exactly once. -/
theorem panic_completes_to_null_recover_once (o : Oracle) (fi : FInfo) (sh : Shape) (p : Path)
    (m : String) (hd : fi.dirs = []) (hp : fi.plain = false) (h : o.res p = .panic m) :
    Spec.completeField o fi sh p =
      (Spec.failed sh.nn, eff [⟨p, "recovered: " ++ m⟩] [(pathStr p, "resolver")] 1) := by
  simp only [Spec.completeField, hd, List.reverse_nil, Impl.runDirs, Oracle.outcome, hp, h, St.empty_append,
    Bool.false_eq_true, ↓reduceIte]

/-- **A failing or panicking schema directive** (outermost of the field's chain): the resolver is not
invoked, the position is null with one error at its path. -/
theorem directive_error_blocks_resolver (o : Oracle) (fi : FInfo) (sh : Shape) (p : Path) (d m : String)
    (hd : fi.dirs = [d]) (h : o.dir p d = .err m) :
    Spec.completeField o fi sh p =
      (Spec.failed sh.nn, eff [⟨p, m⟩] [(pathStr p, "directive:" ++ d)]) := by
  simp only [Spec.completeField, hd, List.reverse_cons, List.reverse_nil, List.nil_append, Impl.runDirs, h]
  first
    | rfl
    | (congr 1; apply St.ext' <;> simp [St.invoked])

/-- every recover is accompanied by an error: the recover count never exceeds the error count -/
theorem recovers_le_errors_field (o : Oracle) (fi : FInfo) (sh : Shape) (p : Path)
    (hd : fi.dirs = []) (hp : fi.plain = false) (m : String) (h : o.res p = .panic m) :
    (Spec.completeField o fi sh p).2.recovers ≤ (Spec.completeField o fi sh p).2.errs.length := by
  rw [panic_completes_to_null_recover_once o fi sh p m hd hp h]; simp

/-! ### field interceptors (`AroundFields`): the outermost wrapper `~around` (`Model/Exec.lean: fieldsAround`) -/

/-- the field as it runs under an installed interceptor -/
def underInterceptor (fi : FInfo) : FInfo := { fi with dirs := fi.dirs ++ ["~around"] }

/-- **A failing field interceptor**: whatever schema directives the field has and whatever its resolver would do,
nothing inside the interceptor runs (no directive, no resolver), the position is null (or propagates when
non-null) with one error at its path. -/
theorem interceptor_error_blocks_everything (o : Oracle) (fi : FInfo) (sh : Shape) (p : Path) (m : String)
    (h : o.dir p "~around" = .err m) :
    Spec.completeField o (underInterceptor fi) sh p =
      (Spec.failed sh.nn, eff [⟨p, m⟩] [(pathStr p, "directive:~around")]) := by
  simp only [Spec.completeField, underInterceptor, List.reverse_append, List.reverse_cons, List.reverse_nil,
    List.nil_append, List.cons_append, Impl.runDirs, h]
  first
    | rfl
    | (congr 1; apply St.ext' <;> simp [St.invoked])

/-- **A panicking field interceptor**: the same, and the recover hook runs exactly once. -/
theorem interceptor_panic_recover_once (o : Oracle) (fi : FInfo) (sh : Shape) (p : Path) (m : String)
    (h : o.dir p "~around" = .panic m) :
    Spec.completeField o (underInterceptor fi) sh p =
      (Spec.failed sh.nn, eff [⟨p, "recovered: " ++ m⟩] [(pathStr p, "directive:~around")] 1) := by
  simp only [Spec.completeField, underInterceptor, List.reverse_append, List.reverse_cons, List.reverse_nil,
    List.nil_append, List.cons_append, Impl.runDirs, h]
  first
    | rfl
    | (congr 1; apply St.ext' <;> simp [St.invoked, St.append, eff])

/-- **Fault locality for interceptors**: what the interceptor does at `f` cannot change the completion of any
position `q` that `f` does not lie under - whatever else the operation does. -/
theorem interceptor_fault_local (o : Oracle) (f : Path) (x : DOut) (fi : FInfo) (sh : Shape) (q : Path)
    (h : ¬ q <+: f) :
    Spec.completeField (o.withDir f "~around" x) (underInterceptor fi) sh.around q =
      Spec.completeField o (underInterceptor fi) sh.around q :=
  single_directive_fault_local o f "~around" x (underInterceptor fi) sh.around q h

/-- `fieldsAround` puts exactly this wrapper on every field but `__typename` -/
example : fieldsAround [({ alias := "a", name := "a", dirs := ["d"] }, Shape.leaf true),
      ({ alias := "t", name := "__typename" }, Shape.leaf true)] =
    [(underInterceptor { alias := "a", name := "a", dirs := ["d"] }, Shape.leaf true),
      ({ alias := "t", name := "__typename" }, Shape.leaf true)] := by
  simp [fieldsAround, underInterceptor, Shape.around]

/-! ### executable directives on the field selection (`{ f @x }`, `_fieldMiddleware`): they wrap the field's own chain
(schema directives, resolver), the interceptor wraps them (`Model/Exec.lean: planFields`, `fieldsAround`) -/

/-- the field as selected with the executable directive `x` (outside its schema directives) -/
def withFieldDirective (fi : FInfo) (x : String) : FInfo := { fi with dirs := fi.dirs ++ [x] }

/-- **A failing executable directive on a field selection**: whatever schema directives the field definition has
and whatever its resolver would do, none of them runs; the position is null (or propagates when non-null) with
exactly one error at its path. -/
theorem field_directive_error_blocks_the_field (o : Oracle) (fi : FInfo) (sh : Shape) (p : Path) (x m : String)
    (h : o.dir p x = .err m) :
    Spec.completeField o (withFieldDirective fi x) sh p =
      (Spec.failed sh.nn, eff [⟨p, m⟩] [(pathStr p, "directive:" ++ x)]) := by
  simp only [Spec.completeField, withFieldDirective, List.reverse_append, List.reverse_cons, List.reverse_nil,
    List.nil_append, List.cons_append, Impl.runDirs, h]
  first
    | rfl
    | (congr 1; apply St.ext' <;> simp [St.invoked])

/-- **A panicking one**: the same, and the recover hook runs exactly once. -/
theorem field_directive_panic_recover_once (o : Oracle) (fi : FInfo) (sh : Shape) (p : Path) (x m : String)
    (h : o.dir p x = .panic m) :
    Spec.completeField o (withFieldDirective fi x) sh p =
      (Spec.failed sh.nn, eff [⟨p, "recovered: " ++ m⟩] [(pathStr p, "directive:" ++ x)] 1) := by
  simp only [Spec.completeField, withFieldDirective, List.reverse_append, List.reverse_cons, List.reverse_nil,
    List.nil_append, List.cons_append, Impl.runDirs, h]
  first
    | rfl
    | (congr 1; apply St.ext' <;> simp [St.invoked, St.append, eff])

/-- **Under an installed interceptor that lets the field through**, a failing executable directive still blocks
everything inside it: the interceptor is invoked, then the directive, and nothing else. -/
theorem field_directive_error_under_interceptor (o : Oracle) (fi : FInfo) (sh : Shape) (p : Path) (x m : String)
    (ha : o.dir p "~around" = .pass) (h : o.dir p x = .err m) :
    Spec.completeField o (underInterceptor (withFieldDirective fi x)) sh p =
      (Spec.failed sh.nn, eff [⟨p, m⟩] [(pathStr p, "directive:~around"), (pathStr p, "directive:" ++ x)]) := by
  simp only [Spec.completeField, underInterceptor, withFieldDirective, List.reverse_append, List.reverse_cons,
    List.reverse_nil, List.nil_append, List.cons_append, Impl.runDirs, ha, h]
  first
    | rfl
    | (congr 1; apply St.ext' <;> simp [St.invoked, St.append, eff])

/-- **Fault locality**: what an executable directive does at `f` cannot change the completion of any position that
`f` does not lie under. -/
theorem field_directive_fault_local (o : Oracle) (f : Path) (x : String) (r : DOut) (fi : FInfo) (sh : Shape)
    (q : Path) (h : ¬ q <+: f) :
    Spec.completeField (o.withDir f x r) (withFieldDirective fi x) sh q =
      Spec.completeField o (withFieldDirective fi x) sh q :=
  single_directive_fault_local o f x r (withFieldDirective fi x) sh q h

/-! non-vacuity -/
example : ¬ ([Seg.key "a"] <+: [Seg.key "b", Seg.key "x"]) := by decide
example : (({ res := fun _ => .val .null, dir := fun _ _ => .pass } : Oracle).withRes [.key "b"] (.panic "boom")).res [.key "b"]
    = .panic "boom" := by simp [Oracle.withRes]

end GqlgenVerif.C04
