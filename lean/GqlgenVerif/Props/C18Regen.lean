import GqlgenVerif.Model.Order
import GqlgenVerif.Model.Imports
import GqlgenVerif.Model.CyclePass
import GqlgenVerif.Gen.ResolverImports
import GqlgenVerif.Props.C18
/-!
# C18 — order-sensitive passes run on sorted input; re-generation pins the import aliases

Two places where the generator's output is a function of an ORDER, and why that order is fixed:

* `findAndHandleCyclicalRelationships` (modelgen, `struct_fields_always_pointers: false`) depends on the order of
  `b.Models` (`cyclePass_order_sensitive_witness`); `MutateConfig` sorts `b.Models` by name first, so the pointer
  decisions do not depend on the iteration order of `cfg.Schema.Types` (`modelPointers_perm_invariant`). That the
  sort really precedes the pass in the source is part of the regenerated inventory (`all_sites_invariant`: a
  collected slice that is used before its sort call is order-sensitive; reviewed sites are pinned by the hash of
  the loop AND of the source up to the sort calls).
* import aliases are allocated first-come-first-served. On re-generation `(*File).Imports` re-reserves the imports
  of the previous output; `regen_lookups_fixed_point` proves, over the REGENERATED `Gen.ResolverImports.reserveAlias`,
  that every `Lookup` of the second rendering then returns the alias it returned in the first — whatever the order
  of the imports in the file. Dropping the alias breaks it (`reserve_without_alias_witness`).
-/
namespace GqlgenVerif.Props.C18Regen
open GqlgenVerif GqlgenVerif.Order List

/-! ## the cycle pass -/
section cycle
open GqlgenVerif.CyclePass

/-- **modelPointers_perm_invariant**: which fields of the generated structs become pointers does not depend on the
order in which the map `cfg.Schema.Types` delivered the types (type names are distinct). -/
theorem modelPointers_perm_invariant (ms ms' : List CModel) (hp : ms ~ ms')
    (hinj : ∀ a ∈ ms, ∀ b ∈ ms, a.name = b.name → a = b) : modelPointers ms = modelPointers ms' := by
  unfold modelPointers
  rw [GqlgenVerif.Props.C18.sort_perm_invariant (·.name) ms ms' hp hinj]

def wOrder : CModel := ⟨[79], [⟨[98], [65], true⟩, ⟨[115], [65], true⟩]⟩   -- Order { billing: Address!  shipping: Address! }
def wAddress : CModel := ⟨[65], [⟨[111], [79], true⟩]⟩                      -- Address { order: Order! }

/-- non-vacuity of the hypotheses: two delivery orders of a two-type schema -/
example : modelPointers [wOrder, wAddress] = modelPointers [wAddress, wOrder] :=
  modelPointers_perm_invariant _ _ (Perm.swap _ _ _) (by decide)

/-- **cyclePass_order_sensitive_witness**: the pass itself is NOT order independent — on the double-edge cycle
`Order {billing: Address! shipping: Address!}`, `Address {order: Order!}` the field `Order.shipping` stays a value
when Order is visited first and becomes a pointer when Address is visited first. So the sort has to come first. -/
theorem cyclePass_order_sensitive_witness :
    [wOrder, wAddress] ~ [wAddress, wOrder] ∧
    valOf (cyclePass [wOrder, wAddress]) [79] [115] = some true ∧
    valOf (cyclePass [wAddress, wOrder]) [79] [115] = some false := by
  refine ⟨Perm.swap _ _ _, ?_, ?_⟩ <;> decide

end cycle

/-! ## import aliases on re-generation -/
section imports
open GqlgenVerif.Imports

theorem firstFree_mono (used used' : String → Bool) (n : String) (h : ∀ x, used x = true → used' x = true) :
    ∀ (fuel i : Nat), used' (firstFree used n fuel i) = false → firstFree used' n fuel i = firstFree used n fuel i := by
  intro fuel
  induction fuel with
  | zero => intro i _; rfl
  | succ k ih =>
    intro i hfree
    unfold firstFree at hfree ⊢
    by_cases hu : used (cand n i) = true
    · rw [if_pos hu] at hfree ⊢
      rw [if_pos (h _ hu)]
      exact ih (i + 1) hfree
    · rw [if_neg hu] at hfree ⊢
      rw [hfree]
      simp

theorem findByPath_some {t : Table} {p : String} {e : Imp} (h : findByPath t p = some e) : e ∈ t ∧ e.path = p := by
  unfold findByPath at h
  refine ⟨List.mem_of_find?_eq_some h, ?_⟩
  have := List.find?_some h
  simpa using this

theorem findByPath_none {t : Table} {p : String} (h : findByPath t p = none) : ∀ e ∈ t, e.path ≠ p := by
  unfold findByPath at h
  intro e he
  have := List.find?_eq_none.mp h e he
  simpa using this

theorem lookup_mono (nameOf : String → String) (own : String) (t : Table) (p : String) :
    ∀ e ∈ t, e ∈ (lookup nameOf own t p).1 := by
  intro e he
  unfold Imports.lookup
  split
  · exact he
  · split
    · exact he
    · exact List.mem_append_left _ he

theorem lookups_mono (nameOf : String → String) (own : String) :
    ∀ (P : List String) (t : Table), ∀ e ∈ t, e ∈ (lookups nameOf own t P).1 := by
  intro P
  induction P with
  | nil => intro t e he; exact he
  | cons p ps ih =>
    intro t e he
    unfold lookups
    exact ih _ e (lookup_mono nameOf own t p e he)

theorem lookup_own (nameOf : String → String) (own : String) (t : Table) (p : String) (h : (p == own) = true) :
    Imports.lookup nameOf own t p = (t, "") := by
  unfold Imports.lookup; rw [if_pos h]

theorem lookup_found (nameOf : String → String) (own : String) (t : Table) (p : String) (e : Imp)
    (h : ¬ (p == own) = true) (hf : findByPath t p = some e) : Imports.lookup nameOf own t p = (t, e.alias) := by
  unfold Imports.lookup; rw [if_neg h, hf]

theorem lookup_new (nameOf : String → String) (own : String) (t : Table) (p : String)
    (h : ¬ (p == own) = true) (hf : findByPath t p = none) :
    Imports.lookup nameOf own t p =
      (t ++ [⟨p, firstFree (aliasUsed t) (nameOf p) 1000 0⟩], firstFree (aliasUsed t) (nameOf p) 1000 0) := by
  unfold Imports.lookup; rw [if_neg h, hf]

/-- one step: two tables `s ⊆ t ⊆ S` (`S` with pairwise distinct paths and aliases, containing the first
rendering's table after the step) answer a lookup alike and stay in that relation -/
theorem lookup_agree (nameOf : String → String) (own : String) (S s t : Table) (p : String)
    (hst : ∀ e ∈ s, e ∈ t) (hts : ∀ e ∈ t, e ∈ S) (hs1 : ∀ e ∈ (Imports.lookup nameOf own s p).1, e ∈ S)
    (hpath : ∀ a ∈ S, ∀ b ∈ S, a.path = b.path → a = b) (halias : ∀ a ∈ S, ∀ b ∈ S, a.alias = b.alias → a = b) :
    (Imports.lookup nameOf own t p).2 = (Imports.lookup nameOf own s p).2 ∧
    (∀ e ∈ (Imports.lookup nameOf own s p).1, e ∈ (Imports.lookup nameOf own t p).1) ∧
    (∀ e ∈ (Imports.lookup nameOf own t p).1, e ∈ S) := by
  by_cases hown : (p == own) = true
  · rw [lookup_own nameOf own s p hown, lookup_own nameOf own t p hown]
    exact ⟨rfl, hst, hts⟩
  · cases hfs : findByPath s p with
    | some e =>
      obtain ⟨hes, hep⟩ := findByPath_some hfs
      have het : e ∈ t := hst e hes
      cases hft : findByPath t p with
      | none => exact absurd hep (findByPath_none hft e het)
      | some e' =>
        obtain ⟨he't, he'p⟩ := findByPath_some hft
        have hee : e' = e := hpath e' (hts e' he't) e (hts e het) (he'p.trans hep.symm)
        rw [lookup_found nameOf own s p e hown hfs, lookup_found nameOf own t p e' hown hft, hee]
        exact ⟨rfl, hst, hts⟩
    | none =>
      rw [lookup_new nameOf own s p hown hfs] at hs1 ⊢
      have hnew : (⟨p, firstFree (aliasUsed s) (nameOf p) 1000 0⟩ : Imp) ∈ S :=
        hs1 _ (List.mem_append_right _ (List.mem_singleton.mpr rfl))
      cases hft : findByPath t p with
      | some e' =>
        obtain ⟨he't, he'p⟩ := findByPath_some hft
        have hee : e' = ⟨p, firstFree (aliasUsed s) (nameOf p) 1000 0⟩ := hpath e' (hts e' he't) _ hnew he'p
        rw [lookup_found nameOf own t p e' hown hft]
        refine ⟨by rw [hee], ?_, hts⟩
        intro e he
        rcases List.mem_append.mp he with h | h
        · exact hst e h
        · rw [List.mem_singleton.mp h, ← hee]; exact he't
      | none =>
        have hfree : aliasUsed t (firstFree (aliasUsed s) (nameOf p) 1000 0) = false := by
          cases hu : aliasUsed t (firstFree (aliasUsed s) (nameOf p) 1000 0) with
          | false => rfl
          | true =>
            exfalso
            have hu' : List.any t (fun e => e.alias == firstFree (aliasUsed s) (nameOf p) 1000 0) = true := hu
            obtain ⟨e'', he''t, he''a⟩ := List.any_eq_true.mp hu'
            have ha : e''.alias = firstFree (aliasUsed s) (nameOf p) 1000 0 := by simpa using he''a
            have : e'' = ⟨p, firstFree (aliasUsed s) (nameOf p) 1000 0⟩ := halias e'' (hts e'' he''t) _ hnew ha
            exact findByPath_none hft e'' he''t (by rw [this])
        have hmono : ∀ x, aliasUsed s x = true → aliasUsed t x = true := by
          intro x hx
          have hx' : List.any s (fun e => e.alias == x) = true := hx
          obtain ⟨e, hes, hea⟩ := List.any_eq_true.mp hx'
          exact (List.any_eq_true.mpr ⟨e, hst e hes, hea⟩ : List.any t (fun e => e.alias == x) = true)
        have heq := firstFree_mono (aliasUsed s) (aliasUsed t) (nameOf p) hmono 1000 0 hfree
        rw [lookup_new nameOf own t p hown hft, heq]
        refine ⟨rfl, ?_, ?_⟩
        · intro e he
          rcases List.mem_append.mp he with h | h
          · exact List.mem_append_left _ (hst e h)
          · exact List.mem_append_right _ h
        · intro e he
          rcases List.mem_append.mp he with h | h
          · exact hts e h
          · rw [List.mem_singleton.mp h]; exact hnew

/-- two renderings that start from tables `s ⊆ t`, where `t` holds nothing the first rendering does not end up
with, make the same alias decisions -/
theorem lookups_agree (nameOf : String → String) (own : String) :
    ∀ (P : List String) (s t : Table),
      (∀ e ∈ s, e ∈ t) → (∀ e ∈ t, e ∈ (lookups nameOf own s P).1) →
      (∀ a ∈ (lookups nameOf own s P).1, ∀ b ∈ (lookups nameOf own s P).1, a.path = b.path → a = b) →
      (∀ a ∈ (lookups nameOf own s P).1, ∀ b ∈ (lookups nameOf own s P).1, a.alias = b.alias → a = b) →
      (lookups nameOf own t P).2 = (lookups nameOf own s P).2 := by
  intro P
  induction P with
  | nil => intro s t _ _ _ _; rfl
  | cons p ps ih =>
    intro s t hst hts hpath halias
    have hS : (lookups nameOf own s (p :: ps)).1 = (lookups nameOf own (Imports.lookup nameOf own s p).1 ps).1 := rfl
    rw [hS] at hts hpath halias
    obtain ⟨k1, k2, k3⟩ := lookup_agree nameOf own _ s t p hst hts (lookups_mono nameOf own ps _) hpath halias
    show (Imports.lookup nameOf own t p).2 :: (lookups nameOf own (Imports.lookup nameOf own t p).1 ps).2
       = (Imports.lookup nameOf own s p).2 :: (lookups nameOf own (Imports.lookup nameOf own s p).1 ps).2
    rw [k1, ih (Imports.lookup nameOf own s p).1 (Imports.lookup nameOf own t p).1 k2 k3 hpath halias]

/-- what `(*File).Imports` makes `Reserve` use for an import of the previous output is the alias it had there
(over the REGENERATED `reserveAlias`) -/
theorem reserveAlias_effective (nameOf : String → String) (e : Imp) (hne : e.alias ≠ "") :
    (Gen.ResolverImports.reserveAlias (printedAlias nameOf e)).getD (nameOf e.path) = e.alias := by
  unfold Gen.ResolverImports.reserveAlias printedAlias
  by_cases h : (e.path.endsWith e.alias && e.alias == nameOf e.path) = true
  · rw [if_pos h]
    simp only [Bool.and_eq_true, beq_iff_eq] at h
    simp [h.2.symm]
  · rw [if_neg h]
    simp [hne]

theorem reserve_mono (nameOf : String → String) (own : String) (t : Table) (p : String) (a : Option String) :
    ∀ e ∈ t, e ∈ reserve nameOf own t p a := by
  intro e he
  unfold reserve
  split
  · exact he
  · split
    · exact he
    · split
      · exact he
      · exact List.mem_append_left _ he

theorem reReserve_bounds (nameOf : String → String) (own : String) (S : Table)
    (hne : ∀ a ∈ S, a.alias ≠ "") :
    ∀ (file : List Imp) (t : Table), (∀ e ∈ file, e ∈ S) → (∀ e ∈ t, e ∈ S) →
      (∀ e ∈ t, e ∈ reReserve nameOf own Gen.ResolverImports.reserveAlias t file) ∧
      (∀ e ∈ reReserve nameOf own Gen.ResolverImports.reserveAlias t file, e ∈ S) := by
  intro file
  induction file with
  | nil => intro t _ ht; exact ⟨fun e he => he, ht⟩
  | cons f fs ih =>
    intro t hfile ht
    unfold reReserve
    simp only [List.foldl_cons]
    have hfS : f ∈ S := hfile f (List.mem_cons_self ..)
    have hstep : ∀ e ∈ reserve nameOf own t f.path (Gen.ResolverImports.reserveAlias (printedAlias nameOf f)), e ∈ S := by
      intro e he
      unfold reserve at he
      rw [reserveAlias_effective nameOf f (hne f hfS)] at he
      split at he
      · exact ht e he
      · split at he
        · exact ht e he
        · split at he
          · exact ht e he
          · rcases List.mem_append.mp he with h | h
            · exact ht e h
            · rw [List.mem_singleton.mp h]; exact hfS
    have := ih (reserve nameOf own t f.path (Gen.ResolverImports.reserveAlias (printedAlias nameOf f)))
      (fun e he => hfile e (List.mem_cons_of_mem _ he)) hstep
    exact ⟨fun e he => this.1 e (reserve_mono nameOf own t f.path _ e he), this.2⟩

/-- **regen_lookups_fixed_point** (idempotence of import aliases): let the first rendering start from the ambient
table `t0` and make the lookups `P`, ending with the table `S`. If the existing file's imports `file` all come from
`S` (any subset, any order — gofmt sorts them by path, `imports.Prune` drops unused ones), then rendering again
after `(*File).Imports` re-reserved them returns, for every lookup, the alias of the first rendering.
Hypotheses on `S`: import paths and aliases are pairwise distinct and no alias is empty (true of every table the Go
code builds without panicking: `Lookup` picks an unused alias, `Reserve` refuses a used one). -/
theorem regen_lookups_fixed_point (nameOf : String → String) (own : String) (t0 : Table) (P : List String) (file : List Imp)
    (hfile : ∀ e ∈ file, e ∈ (lookups nameOf own t0 P).1)
    (hpath : ∀ a ∈ (lookups nameOf own t0 P).1, ∀ b ∈ (lookups nameOf own t0 P).1, a.path = b.path → a = b)
    (halias : ∀ a ∈ (lookups nameOf own t0 P).1, ∀ b ∈ (lookups nameOf own t0 P).1, a.alias = b.alias → a = b)
    (hne : ∀ a ∈ (lookups nameOf own t0 P).1, a.alias ≠ "") :
    (lookups nameOf own (reReserve nameOf own Gen.ResolverImports.reserveAlias t0 file) P).2 = (lookups nameOf own t0 P).2 := by
  have hb := reReserve_bounds nameOf own (lookups nameOf own t0 P).1 hne file t0 hfile (lookups_mono nameOf own P t0)
  exact lookups_agree nameOf own P t0 _ hb.1 hb.2 hpath halias

/-! ### the seeded shape: two packages called `model`, the first one used sorts later by import path -/

def wName (p : String) : String := if p == "zed/model" || p == "alpha/model" then "model" else p
/-- the import block of the first run's resolver file as gofmt leaves it (sorted by path) -/
def wFile : List Imp := [⟨"alpha/model", "model1"⟩, ⟨"zed/model", "model"⟩]

example : (lookups wName "res" [] ["zed/model", "alpha/model"]) = (wFile.reverse, ["model", "model1"]) := by decide

/-- non-vacuity: the hypotheses of `regen_lookups_fixed_point` hold on that shape, and its conclusion is that the
second rendering hands out `model`, `model1` again -/
example : (lookups wName "res" (reReserve wName "res" Gen.ResolverImports.reserveAlias [] wFile) ["zed/model", "alpha/model"]).2
    = ["model", "model1"] :=
  regen_lookups_fixed_point wName "res" [] ["zed/model", "alpha/model"] wFile (by decide) (by decide) (by decide) (by decide)

/-- **reserve_without_alias_witness**: the alias argument is necessary — re-reserving the previous output's imports
by path only (`Reserve(imp.ImportPath)` for every import) swaps `model` and `model1` on the first re-generation. -/
theorem reserve_without_alias_witness :
    (lookups wName "res" [] ["zed/model", "alpha/model"]).2 = ["model", "model1"] ∧
    (lookups wName "res" (reReserve wName "res" (fun _ => none) [] wFile) ["zed/model", "alpha/model"]).2 = ["model1", "model"] := by
  constructor <;> decide

end imports

end GqlgenVerif.Props.C18Regen
