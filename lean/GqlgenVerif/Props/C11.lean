import GqlgenVerif.Model.Ws
import GqlgenVerif.Model.WsSpec
/-!
# C11 — websocket sessions follow the subscription protocol (property theorems)
-/
namespace GqlgenVerif.Props.C11
open GqlgenVerif GqlgenVerif.Ws GqlgenVerif.Gen.WsTables

/-- `writes_serialised`, source half (regenerated from websocket.go on every run): every call that
writes to the socket lies between `c.mu.Lock()` and `c.mu.Unlock()`, except the one in `Do`, which
runs before the connection object (and any second goroutine) exists. -/
theorem writes_serialised_sites :
    ∀ site ∈ writeSites, site.1 ≠ "Do" → site.2.2 = true := by decide

example : ∃ site ∈ writeSites, site.1 ≠ "Do" := by decide

end GqlgenVerif.Props.C11
