import GqlgenVerif.Lemmas.Ws
import GqlgenVerif.Model.WsCtx
/-!
# C11 — websocket sessions follow the subscription protocol (property theorems)

All theorems quantify over every configuration `cfg` (both subprotocols, any ticker set, stubborn or
cooperative resolvers, with or without close reason / init timeout) and every `Reachable cfg s`: every
client message sequence (valid, malformed, any length), every resolver behaviour (emit / end /
AddSubscriptionError / panic, any number of operations), server-side cancellation, timeouts, and
every interleaving of the reader, the operation goroutines, the tickers and `closeOnCancel`.

The message-type tables and the socket-write sites are regenerated from `/repo` on every run
(`Gen/WsTables.lean`); the model (`Model/Ws.lean`) decodes and encodes through them, so the theorems
are re-proved against what `toMessage` / `fromMessage` say now.

Partial: liveness ("all connection goroutines end") is not a safety property of the model and is only
observed on the implementation; what is proved is `quiescent_…`: *when* every thread has finished, the
close callback ran exactly once, nothing is registered and every operation context is cancelled.
-/
namespace GqlgenVerif.Props.C11
open GqlgenVerif GqlgenVerif.Ws GqlgenVerif.Gen.WsTables GqlgenVerif.Sched

/-! ## no operation before the accepted handshake -/

/-- Every event of an operation (its acceptance, the start of its goroutine, every data / error /
complete frame) is preceded in the history by the InitFunc's acceptance *and* by the
`connection_ack` frame. -/
theorem no_exec_before_init_ack (cfg : Cfg) (s : State) (h : Reachable cfg s) :
    Precedes Ev.isInitAccepted Ev.isOperation s.trace ∧ Precedes Ev.isAck Ev.isOperation s.trace :=
  ⟨(allInv_reachable h).hist.init_first, (allInv_reachable h).hist.ack_first⟩

/-- state form: operations exist only on an initialised connection -/
theorem no_operation_uninitialised (cfg : Cfg) (s : State) (h : Reachable cfg s)
    (hi : s.initialised = false) : s.ops = [] ∧ s.active = [] :=
  ⟨((allInv_reachable h).basic.uninit hi).2.2.1, ((allInv_reachable h).basic.uninit hi).2.2.2.1⟩

/-! ## per operation id: `(accept data* (error | complete | error complete))*` -/

/-- The history, projected to any id, is accepted by the protocol monitor: after the server accepted a
start for the id come results, then `error`, `complete` or `error complete`; nothing else until the
next accepted start.  (`bad` is absorbing, so this holds for every prefix of the history.) -/
theorem frames_follow_protocol (cfg : Cfg) (s : State) (h : Reachable cfg s) (id : String) :
    phase id s.trace ≠ .bad :=
  (allInv_reachable h).phases.ok id

/-- … and whenever no operation is open under the id (nothing registered, the reader not in the middle
of answering a start for it) on an open socket, the last stream under that id has been terminated. -/
theorem released_id_was_terminated (cfg : Cfg) (s : State) (h : Reachable cfg s) (id : String)
    (hopen : s.closed = false) (hreg : isActive s id = false) (hfocus : focusOn s.todo id = none) :
    phase id s.trace = .idle ∨ phase id s.trace = .errd := by
  have := (allInv_reachable h).phases.sim hopen id
  unfold Expected at this; rw [hfocus, hreg] at this; simpa using this

/-- a registered id has an open stream -/
theorem registered_id_is_live (cfg : Cfg) (s : State) (h : Reachable cfg s) (id : String)
    (hopen : s.closed = false) (hreg : isActive s id = true) : phase id s.trace = .live := by
  have ai := allInv_reachable h
  have := ai.phases.sim hopen id
  unfold Expected at this; rw [focusOn_none_of_active ai.registry hreg, hreg] at this; simpa using this

/-- after a `complete` frame for an id there is no further frame for that id (no result, no error, no
second complete) unless the server accepted a new start for the id in between -/
theorem nothing_after_complete (cfg : Cfg) (s : State) (h : Reachable cfg s) (id : String)
    (a b c : List Ev) (w info : String) (e : Ev)
    (htr : s.trace = a ++ .frame .complete w id info :: b ++ e :: c) (he : e.isFrameFor id) :
    ∃ x, x ∈ b ∧ x = .accept id :=
  monitor_after_complete (by rw [← htr]; exact frames_follow_protocol cfg s h id) he

/-- at most one completion per accepted start -/
theorem at_most_one_complete (cfg : Cfg) (s : State) (h : Reachable cfg s) (id : String)
    (a b c : List Ev) (w info w' info' : String)
    (htr : s.trace = a ++ .frame .complete w id info :: b ++ .frame .complete w' id info' :: c) :
    ∃ x, x ∈ b ∧ x = .accept id :=
  nothing_after_complete cfg s h id a b c w info _ htr (by simp [Ev.isFrameFor])

/-- no result after an error -/
theorem no_next_after_error (cfg : Cfg) (s : State) (h : Reachable cfg s) (id : String)
    (a b c : List Ev) (w info w' info' : String)
    (htr : s.trace = a ++ .frame .error w id info :: b ++ .frame .data w' id info' :: c) :
    ∃ x, x ∈ b ∧ x = .accept id :=
  monitor_after_error (by rw [← htr]; exact frames_follow_protocol cfg s h id)

/-- two running operations never share an id (the mechanism behind the per-id theorems) -/
theorem live_operations_have_distinct_ids (cfg : Cfg) (s : State) (h : Reachable cfg s)
    (o o' : Op) (ho : o ∈ s.ops) (ho' : o' ∈ s.ops) (hd : o.done = false) (hd' : o'.done = false)
    (hid : o.id = o'.id) : o = o' := by
  have r := (allInv_reachable h).registry
  have h1 := r.live_active o ho hd
  have h2 := r.live_active o' ho' hd'
  have := r.active_fun _ h1 _ h2 hid
  simp at this
  exact r.inst_inj o ho o' ho' this.2

/-- a start for an id that is still registered is refused: nothing is accepted or executed, the
connection is closed with 4409 -/
theorem duplicate_start_is_refused (cfg : Cfg) (s : State) (w id : String) (pl : Payload) (tag : Nat)
    (hw : w ∈ cfg.proto.all) (hs : cfg.proto.toMessage w = some .start)
    (hdup : isActive s id = true) :
    (runHandle cfg (.msg w id pl tag) s).todo = [.send .connectionError, .close 4409, .finish] ∧
    (runHandle cfg (.msg w id pl tag) s).trace = s.trace := by
  simp [runHandle, hw, hs, hdup]

/-! ## stop and close cancel -/

/-- Executing the reader's `stop id` section cancels the context of the running operation with that id. -/
theorem stop_cancels_operation (cfg : Cfg) (s s' : State) (h : Reachable cfg s) (id : String)
    (rest : List Sec) (ht : s.todo = .stop id :: rest) (hf : fire cfg .sec s = some s')
    (o : Op) (ho : o ∈ s.ops) (hid : o.id = id) (hd : o.done = false) :
    ∃ o', o' ∈ s'.ops ∧ o'.inst = o.inst ∧ o'.cancelled = true := by
  have r := (allInv_reachable h).registry
  have hmem := r.live_active o ho hd
  simp only [fire, ht] at hf
  cases hf
  simp only [runSec]
  have hfind : ∃ e, s.active.find? (fun e => e.1 == id) = some e := by
    cases hfe : s.active.find? (fun e => e.1 == id) with
    | some e => exact ⟨e, rfl⟩
    | none =>
      have := List.find?_eq_none.1 hfe (o.id, o.inst) hmem
      simp [hid] at this
  obtain ⟨e, hfe⟩ := hfind
  have he_mem := List.mem_of_find?_eq_some hfe
  have he_key : e.1 = id := by simpa using List.find?_some hfe
  have : e = (o.id, o.inst) := r.active_fun e he_mem _ hmem (by rw [he_key, hid])
  subst this
  rw [show s.active.find? (fun e => e.1 == id) = some (o.id, o.inst) from hfe]
  refine ⟨{ o with cancelled := true }, ?_, rfl, rfl⟩
  simp only [List.mem_map]
  exact ⟨o, ho, by simp⟩

/-- the client's stop / complete message is turned into exactly that section -/
theorem stop_message_schedules_stop (cfg : Cfg) (s : State) (w id : String) (pl : Payload) (tag : Nat)
    (hw : w ∈ cfg.proto.all) (hs : cfg.proto.toMessage w = some .stop) :
    (runHandle cfg (.msg w id pl tag) s).todo = [.stop id] := by
  simp [runHandle, hw, hs]

/-- Once the connection is closed - by terminate, by a protocol error, by the duplicate-id refusal, by
`closeOnCancel` after the reader ended (client gone, undecodable frame, read deadline) or after the
server cancelled the context, by the init timeout - every operation that is still running has a
cancelled context; this includes operations started from messages that were already queued. -/
theorem close_cancels_all_active (cfg : Cfg) (s : State) (h : Reachable cfg s) (hc : s.closed = true)
    (o : Op) (ho : o ∈ s.ops) (hd : o.done = false) : o.ctxDone s = true := by
  rcases (allInv_reachable h).cancel hc o ho hd with h1 | h1 <;> simp [Op.ctxDone, h1]

/-- the closing step itself calls the cancel function of every running operation -/
theorem close_step_cancels_registered (cfg : Cfg) (s : State) (h : Reachable cfg s) (code : Nat)
    (hopen : s.closed = false) (o : Op) (ho : o ∈ (doClose code s).ops) (hd : o.done = false) :
    o.cancelled = true := by
  have r := (allInv_reachable h).registry
  rw [doClose_eq] at ho; simp only [hopen] at ho
  simp only [Bool.false_eq_true, if_false, cancelActive] at ho
  obtain ⟨p, hp, rfl⟩ := List.mem_map.1 ho
  have hpd : p.done = false := by split at hd <;> simpa using hd
  have hpa := r.live_active p hp hpd
  have : (s.active.any fun e => e.2 == p.inst) = true := List.any_eq_true.2 ⟨(p.id, p.inst), hpa, by simp⟩
  rw [if_pos this]

/-! ## the close callback -/

/-- CloseFunc runs at most once, exactly when the connection has been closed, and the history agrees -/
theorem close_callback_once (cfg : Cfg) (s : State) (h : Reachable cfg s) :
    s.closeCount ≤ 1 ∧ (s.closed = true ↔ s.closeCount = 1) ∧
    (s.trace.filter Ev.isCloseFunc).length = s.closeCount := by
  have ai := allInv_reachable h
  have hc := ai.basic.count
  refine ⟨?_, ?_, ai.hist.cf⟩
  · rw [hc]; split <;> simp
  · rw [hc]; cases s.closed <;> simp

/-- when every thread of the connection has finished, CloseFunc has run exactly once, no id is
registered any more and every operation's context is cancelled -/
theorem quiescent_closed_once_and_clean (cfg : Cfg) (s : State) (h : Reachable cfg s) (hq : Quiescent s) :
    s.closeCount = 1 ∧ s.active = [] ∧ ∀ o ∈ s.ops, o.ctxDone s = true := by
  have ai := allInv_reachable h
  obtain ⟨hr, ht, hw, hops⟩ := hq
  have hclosed : s.closed = true := by
    cases hi : s.initialised
    · exact ai.basic.done_uninit_closed hr hi
    · exact ai.basic.wdone (hw hi)
  refine ⟨by rw [ai.basic.count, hclosed]; rfl, ?_, ?_⟩
  · cases hact : s.active with
    | nil => rfl
    | cons e rest =>
      obtain ⟨o, ho, hd, _⟩ := ai.registry.active_live e (by simp [hact])
      rw [hops o ho] at hd; cases hd
  · intro o ho
    -- a finished operation: its deferred function called cancel()
    simp [Op.ctxDone, ai.doneInv o ho (hops o ho)]

/-! ## frames are never written concurrently -/

/-- source half (regenerated from websocket.go on every run): every call that writes to the socket
lies between `c.mu.Lock()` and `c.mu.Unlock()`, except the one in `Do`, which runs before the
connection object (and any second goroutine) exists.  Model half: every step of `Ws.fire` is one such
critical section, so the history is a sequence of whole frames by construction. -/
theorem writes_serialised_sites :
    ∀ site ∈ writeSites, site.1 ≠ "Do" → site.2.2 = true := by decide

example : ∃ site ∈ writeSites, site.1 ≠ "Do" := by decide

/-! ## the regenerated tables -/

/-- results, errors and completions are real frames under both subprotocols (never noOp, never a
`fromMessage` error) and carry three different wire types, so the per-id stream is observable -/
theorem operation_frames_distinguishable (p : Proto) :
    ∃ wd we wc, p.fromMessage .data = some (some wd) ∧ p.fromMessage .error = some (some we) ∧
      p.fromMessage .complete = some (some wc) ∧ wd ≠ we ∧ wd ≠ wc ∧ we ≠ wc := by
  cases p
  · exact ⟨"data", "error", "complete", by decide⟩
  · exact ⟨"next", "error", "complete", by decide⟩

/-- the handshake answer is a real frame under both subprotocols -/
theorem ack_is_written (p : Proto) : ∃ w, p.fromMessage .connectionAck = some (some w) := ack_is_frame p

/-- every wire type `toMessage` accepts is one `UnmarshalText` lets through (no dead arm), and every
wire type `fromMessage` produces is in the subprotocol's list as well -/
theorem toMessage_within_all (p : Proto) (w : String) (h : p.toMessage w ≠ none) : w ∈ p.all := by
  cases p <;> simp only [Proto.toMessage, gqlwsToMessage, twsToMessage, Proto.all, gqlwsAll, twsAll] at h ⊢ <;>
    (repeat' split at h) <;> simp_all

theorem fromMessage_within_all (p : Proto) (t : MT) (w : String) (h : p.fromMessage t = some (some w)) :
    w ∈ p.all := by
  cases p <;> cases t <;>
    simp_all [Proto.fromMessage, gqlwsFromMessage, twsFromMessage, Proto.all, gqlwsAll, twsAll] <;>
    (subst h; decide)

/-- the vocabulary by which a client starts and stops operations and opens the connection -/
theorem start_stop_init_wire (p : Proto) (w : String) :
    (p.toMessage w = some .start → (p = .gqlws ∧ w = "start") ∨ (p = .tws ∧ w = "subscribe")) ∧
    (p.toMessage w = some .stop → (p = .gqlws ∧ w = "stop") ∨ (p = .tws ∧ w = "complete")) ∧
    (p.toMessage w = some .init → w = "connection_init") := by
  cases p <;> simp only [Proto.toMessage, gqlwsToMessage, twsToMessage] <;> refine ⟨?_, ?_, ?_⟩ <;>
    intro h <;> (repeat' split at h) <;> simp_all

theorem subprotocol_names : gqlwsSubprotocol = "graphql-ws" ∧ twsSubprotocol = "graphql-transport-ws" := by
  decide

/-- the close codes of the model are the ones `websocket.go` passes to `c.close` in the same functions -/
theorem close_codes_tie :
    (∀ c ∈ closeSites, c.2 = 1000 ∨ c.2 = 1002 ∨ c.2 = 4409) ∧
    ("init", 1002) ∈ closeSites ∧ ("init", 1000) ∈ closeSites ∧ ("run", 1000) ∈ closeSites ∧
    ("run", 1002) ∈ closeSites ∧ ("run", 4409) ∈ closeSites ∧ ("closeOnCancel", 1000) ∈ closeSites := by
  decide

/-- source facts behind two atomicity assumptions of the model (regenerated from websocket.go):
`c.active` is only changed inside `c.mu`; the operation goroutine writes its terminating frames and
deletes its id in *one* critical section (`Ws.opFinish` is one step); the `start` arm of `run` tests
`c.active[m.id]` under the lock, refuses a duplicate by closing with 4409 *and returning*, and only
then calls `subscribe` (`Ws.runHandle`, `start` case). -/
theorem registry_sections_tie :
    activeSections = [("subscribe", ["c.active[id]="]), ("subscribe", ["c.me.Send", "delete(c.active)"])] ∧
    startArm = ["lookup c.active[m.id] locked=true", "if duplicate: close 4409 return=true", "subscribe"] := by
  decide

/-- `Ws.doClose` is one step: `close()` tests `c.closed`, writes the close frame, calls every registered
cancel function and sets `c.closed` inside a single critical section (regenerated from websocket.go) -/
theorem close_section_tie :
    closeSections = [["if c.closed", "c.conn.WriteMessage", "range c.active call value", "c.closed=true"]] := by
  decide

/-! ## the context an operation runs under (regenerated from `subscribe`, `Gen/WsCtx.lean`)

The model abstracts the context of an operation to `Op.cancelled`, set by `stop` (`stop_cancels_operation`), by
`close` (`close_cancels_all_active`) and by the operation's epilogue through the function stored in
`c.active[id]`.  The source fact behind it: for **every** valuation of the `if` conditions of `subscribe` -
in particular with and without a `connection_init` payload (`c.initPayload != nil`) - once the operation
goroutine is started, exactly one cancel function has been registered, and every context handed to
`c.exec.DispatchOperation` and to the response handler descends from the context that function cancels (and
from the connection context `c.ctx` the InitFunc returned); the deferred epilogue calls it too. -/
theorem operation_context_under_registered_cancel :
    ∀ on ∈ WsCtx.valuations Gen.WsCtx.subscribeCtx,
      WsCtx.wellCancelled (WsCtx.run on Gen.WsCtx.subscribeCtx) = true := by
  decide

/-- the statement speaks about started operations: some valuation reaches the goroutine, registers a cancel
function and records the executor's and the response handler's contexts -/
theorem operation_context_nonvacuous :
    ∃ on ∈ WsCtx.valuations Gen.WsCtx.subscribeCtx,
      (WsCtx.run on Gen.WsCtx.subscribeCtx).spawned = true ∧
      (WsCtx.run on Gen.WsCtx.subscribeCtx).registered.length = 1 ∧
      (WsCtx.run on Gen.WsCtx.subscribeCtx).opCtx.length ≥ 2 := by
  decide

/-- the init payload is a dimension of the valuations whenever `subscribe` branches on it: a guarded context
derivation contributes its condition (so `operation_context_under_registered_cancel` covers both polarities) -/
theorem guarded_derivations_are_valuated :
    ∀ e ∈ Gen.WsCtx.subscribeCtx, ∀ c ∈ WsCtx.guardOf e, WsCtx.isMarker c.1 = false →
      (∃ on ∈ WsCtx.valuations Gen.WsCtx.subscribeCtx, on.contains c.1 = true) ∧
      (∃ on ∈ WsCtx.valuations Gen.WsCtx.subscribeCtx, on.contains c.1 = false) := by
  decide

/-- the criterion discriminates: deriving the init-payload context from the context *before*
`context.WithCancel` (a sibling of the cancellable one) is rejected exactly when a payload is present -/
example :
    let evs : List Gen.WsCtx.Ev := [
      .derive "ctx" "graphql.StartOperationTrace" "c.ctx" none [] false,
      .derive "opCtx" "graphql.WithOperationContext" "ctx" none [] false,
      .derive "ctx" "context.WithCancel" "opCtx" (some "cancel") [] false,
      .derive "ctx" "withInitPayload" "opCtx" none [("c.initPayload != nil", true)] false,
      .register "msg.id" "cancel" [] false,
      .spawn,
      .callCancel "cancel" [("deferred", true)] true,
      .derive "ctx" "c.exec.DispatchOperation" "ctx" none [] true,
      .use "responses" "ctx" [("loop", true)] true]
    WsCtx.wellCancelled (WsCtx.run [] evs) = true ∧
    WsCtx.wellCancelled (WsCtx.run ["c.initPayload != nil"] evs) = false := by
  decide

/-- … and so are: no registration, a registration of the wrong cancel function, an operation context that is
not under the connection context -/
example :
    WsCtx.wellCancelled (WsCtx.run [] [
      .derive "ctx" "context.WithCancel" "c.ctx" (some "cancel") [] false, .spawn,
      .callCancel "cancel" [("deferred", true)] true,
      .derive "ctx" "c.exec.DispatchOperation" "ctx" none [] true, .use "responses" "ctx" [] true]) = false ∧
    WsCtx.wellCancelled (WsCtx.run [] [
      .derive "a" "context.WithCancel" "c.ctx" (some "cancelA") [] false,
      .derive "ctx" "context.WithCancel" "c.ctx" (some "cancel") [] false,
      .register "msg.id" "cancelA" [] false, .spawn,
      .callCancel "cancelA" [("deferred", true)] true,
      .derive "ctx" "c.exec.DispatchOperation" "ctx" none [] true, .use "responses" "ctx" [] true]) = false := by
  decide

/-! ## non-vacuity: concrete reachable histories on which the theorems above speak -/

def cfgT (stubborn : Bool) : Cfg :=
  { proto := .tws, ticks := [.pong], stubborn := stubborn, closeReason := false, initTimeout := false }
def cfgG : Cfg :=
  { proto := .gqlws, ticks := [.keepAlive], stubborn := false, closeReason := true, initTimeout := true }

/-- init; subscribe 1; a result; the resolver ends; subscribe 1 again; a result; the client completes it -/
def demo : List Action :=
  [.clientSend (.msg "connection_init" "" .none 0), .recv,
   .clientSend (.msg "subscribe" "1" .sub 0), .recv, .sec,
   .deliver 0 .emit, .opStep 0, .deliver 0 (.finish .normal), .opStep 0,
   .clientSend (.msg "subscribe" "1" .sub 1), .recv, .sec,
   .deliver 1 .emit, .opStep 1,
   .clientSend (.msg "complete" "1" .none 0), .recv, .sec, .opCancel 1]

def demoState : State := (run (cfgT false) demo State.initial).getD State.initial

theorem demo_reachable : Reachable (cfgT false) demoState :=
  reachable_run (reachable_initial _) (show run (cfgT false) demo State.initial = some demoState by decide)

example : demoState.trace =
    [.initAccepted, .frame .connectionAck "connection_ack" "" "-",
     .accept "1", .exec 0, .frame .data "next" "1" "0.0", .frame .complete "complete" "1" "-",
     .accept "1", .exec 1, .frame .data "next" "1" "1.0", .frame .complete "complete" "1" "-"] := by decide

/-- `at_most_one_complete` applied to that history finds the second accepted start between the two completions -/
example : ∃ x, x ∈ [Ev.accept "1", .exec 1, .frame .data "next" "1" "1.0"] ∧ x = .accept "1" :=
  at_most_one_complete (cfgT false) demoState demo_reachable "1"
    [.initAccepted, .frame .connectionAck "connection_ack" "" "-", .accept "1", .exec 0, .frame .data "next" "1" "0.0"]
    [.accept "1", .exec 1, .frame .data "next" "1" "1.0"] [] "complete" "-" "complete" "-" (by decide)

example : phase "1" demoState.trace = .idle ∧ isActive demoState "1" = false ∧ demoState.closed = false := by decide

/-- an error frame followed, after a new start, by results (hypotheses of `no_next_after_error`) -/
def demoErr : List Action :=
  [.clientSend (.msg "connection_init" "" .none 0), .recv,
   .clientSend (.msg "start" "7" .sub 0), .recv, .sec,
   .deliver 0 .adderr, .opStep 0, .deliver 0 (.finish .panic), .opStep 0,
   .clientSend (.msg "start" "7" .badq 0), .recv, .sec, .sec,
   .clientSend (.msg "start" "7" .sub 1), .recv, .sec, .deliver 1 .emit, .opStep 1, .tick .keepAlive]

def demoErrState : State := (run cfgG demoErr State.initial).getD State.initial

theorem demoErr_reachable : Reachable cfgG demoErrState :=
  reachable_run (reachable_initial _) (show run cfgG demoErr State.initial = some demoErrState by decide)

example : demoErrState.trace =
    [.initAccepted, .frame .connectionAck "connection_ack" "" "-", .frame .keepAlive "ka" "" "-",
     .accept "7", .exec 0, .frame .error "error" "7" "P0+E0", .frame .complete "complete" "7" "-",
     .accept "7", .frame .error "error" "7" "-", .frame .complete "complete" "7" "-",
     .accept "7", .exec 1, .frame .data "data" "7" "1.0", .frame .keepAlive "ka" "" "-"] := by decide

example : phase "7" demoErrState.trace = .live ∧ isActive demoErrState "7" = true := by decide

/-- a duplicate start, a stop and a terminate against stubborn resolvers: the running operations end
up with cancelled contexts although they never finish -/
def demoStubborn : List Action :=
  [.clientSend (.msg "connection_init" "" .obj 0), .recv,
   .clientSend (.msg "subscribe" "a" .sub 0), .recv, .sec,
   .clientSend (.msg "subscribe" "b" .sub 1), .recv, .sec,
   .clientSend (.msg "complete" "a" .none 0), .recv]

def stubbornBeforeStop : State := (run (cfgT true) demoStubborn State.initial).getD State.initial
def stubbornAfterStop : State := (fire (cfgT true) .sec stubbornBeforeStop).getD State.initial
def stubbornClosed : State :=
  (run (cfgT true) [.clientSend (.msg "subscribe" "b" .sub 2), .recv, .sec, .sec, .sec] stubbornAfterStop).getD State.initial

theorem stubborn_reachable : Reachable (cfgT true) stubbornBeforeStop :=
  reachable_run (reachable_initial _)
    (show run (cfgT true) demoStubborn State.initial = some stubbornBeforeStop by decide)

/-- hypotheses of `stop_cancels_operation` hold here, and its conclusion is what the model computes -/
example : stubbornBeforeStop.todo = [.stop "a"] ∧
    fire (cfgT true) .sec stubbornBeforeStop = some stubbornAfterStop ∧
    stubbornAfterStop.ops.map (fun o => (o.id, o.done, o.cancelled)) = [("a", false, true), ("b", false, false)] := by
  decide

/-- hypotheses of `duplicate_start_is_refused` and `close_cancels_all_active`: the second start for "b"
closes the connection with 4409, CloseFunc runs once, and the stubborn operation "b" is cancelled -/
example : isActive stubbornAfterStop "b" = true ∧ stubbornClosed.closed = true ∧ stubbornClosed.closeCount = 1 ∧
    stubbornClosed.ops.map (fun o => (o.id, o.done, o.cancelled)) = [("a", false, true), ("b", false, true)] ∧
    stubbornClosed.trace.filter Ev.isCloseFunc = [.closeFunc 4409] := by
  decide

/-- a session wound down completely is `Quiescent` (hypothesis of `quiescent_closed_once_and_clean`) -/
def demoQuiet : State :=
  (run (cfgT false) [.clientSend .eof, .recv, .sec, .watch] demoState).getD State.initial

example : Quiescent demoQuiet ∧ demoQuiet.closeCount = 1 := by
  refine ⟨⟨by decide, by decide, by decide, ?_⟩, by decide⟩
  decide

/-- the unreachable state that the theorems exclude is excluded for a reason: the monitor does reject
two completions for one accepted start -/
example : phase "1" [.accept "1", .frame .complete "complete" "1" "-", .frame .complete "complete" "1" "-"] = .bad := by
  decide

end GqlgenVerif.Props.C11
