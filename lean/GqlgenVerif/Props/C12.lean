import GqlgenVerif.Model.Stream
import GqlgenVerif.Model.StreamGen
import GqlgenVerif.Lemmas.Stream
import GqlgenVerif.Lemmas.StreamMp
import GqlgenVerif.Gen.StreamFmt
import GqlgenVerif.Model.StreamLoopGen
import GqlgenVerif.Lemmas.StreamLoop
import GqlgenVerif.Lemmas.StreamGuard
import GqlgenVerif.Gen.StreamGuard
/-!
# C12 — streamed HTTP responses (SSE, multipart/mixed) are well-framed under any timing
-/
namespace GqlgenVerif.Props.C12
open GqlgenVerif GqlgenVerif.Stream

/-! ## tie to the source: regenerated facts -/

/-- the byte strings sse.go writes now (regenerated from source) are the ones the framing proof is about -/
theorem gen_sse_fmt : genSse = canonSse := by decide

/-- the byte strings http_multipart_mixed.go writes now are the ones the framing proof is about -/
theorem gen_mp_fmt : genMp = canonMp := by decide

/-! ## SSE -/

/-- every chunk the machine writes is a whole block when the payloads are single lines -/
theorem sse_chunks_ok (ka : Bool) (ps : List Bytes) (sched : List Step) (h : ∀ p ∈ ps, OneLine p) :
    ∀ c ∈ sseChunks ka ps sched, c.OK := by
  rcases sse_run_shape sched (sseInit ka ps) rfl with ⟨mid, h1, h2, _⟩
  intro c hc
  simp only [sseChunks] at hc
  rw [h1] at hc
  cases c with
  | next p =>
    have hm : Stream.Chunk.next p ∈ mid := by
      simp [sseInit] at hc
      exact hc
    have : Stream.Chunk.next p ∈ mid.filter (· ≠ Stream.Chunk.ping) := by simp [hm]
    rw [h2] at this
    simp [sseInit] at this
    exact h p this
  | _ => trivial

/-- for all payload sequences, keep-alive settings and schedules (at critical-section granularity):
    the stream parses to exactly the items of the chunks written, nothing left over -/
theorem sse_stream_items (ka : Bool) (ps : List Bytes) (sched : List Step) (h : ∀ p ∈ ps, OneLine p) :
    parseSSE (sseStream genSse ka ps sched) = ((sseChunks ka ps sched).map Stream.Chunk.item, false) := by
  rw [gen_sse_fmt]
  exact parse_chunks _ (sse_chunks_ok ka ps sched h)

/-- **sse_parses** — for all payload sequences and all schedules the byte stream parses as
    `comment, [ping]*, next p₁, [ping]*, …, next pₙ, [ping]*, complete`: every payload exactly once, in
    order, as one `next` event whose data is the payload; pings only between whole events; `complete`
    exactly once and last; without keep-alive no pings at all. -/
theorem sse_parses (ka : Bool) (ps : List Bytes) (sched : List Step) (h : ∀ p ∈ ps, OneLine p) :
    ∃ mid, parseSSE (sseStream genSse ka ps sched) = (hdrItem :: (mid ++ [completeItem]), false) ∧
      mid.filter notPing = ps.map nextItem ∧
      (∀ i ∈ mid, i = pingItem ∨ ∃ p ∈ ps, i = nextItem p) ∧
      (ka = false → mid = ps.map nextItem) := by
  rcases sse_run_shape sched (sseInit ka ps) rfl with ⟨mid, h1, h2, h3⟩
  refine ⟨mid.map Stream.Chunk.item, ?_, ?_, ?_, ?_⟩
  · rw [sse_stream_items ka ps sched h]
    simp only [sseChunks, h1]
    simp [sseInit, Stream.Chunk.item]
  · rw [filter_item, h2]
    simp [sseInit, Stream.Chunk.item, Function.comp_def]
  · intro i hi
    rcases List.mem_map.1 hi with ⟨c, hc, rfl⟩
    by_cases hp : c = Stream.Chunk.ping
    · left; simp [hp, Stream.Chunk.item]
    · right
      have : c ∈ mid.filter (· ≠ Stream.Chunk.ping) := by simp [hc, hp]
      rw [h2] at this
      simp [sseInit] at this
      rcases this with ⟨p, hpp, rfl⟩
      exact ⟨p, hpp, rfl⟩
  · intro hk
    rw [h3 hk]
    simp [sseInit, Stream.Chunk.item, Function.comp_def]

/-- the same statement through the executable Spec the driver evaluates on the implementation's bytes -/
theorem sse_spec_holds (ka : Bool) (ps : List Bytes) (sched : List Step) (h : ∀ p ∈ ps, OneLine p) :
    sseSpec ps (parseSSE (sseStream genSse ka ps sched)) = true := by
  rcases sse_parses ka ps sched h with ⟨mid, h1, h2, _, _⟩
  have hl : (hdrItem :: (mid ++ [completeItem])).getLast? = some completeItem := by
    rw [← List.cons_append, List.getLast?_concat]
  have hf : (hdrItem :: (mid ++ [completeItem])).filter notPing = sseExpected ps := by
    simp [List.filter_cons, List.filter_append, h2, sseExpected, notPing, hdrItem, pingItem, completeItem, pingText]
  simp [sseSpec, h1, hl, hf]

/-- **client disconnect**: whatever prefix of the stream a client has read, its items are a prefix of
    the items of the whole stream (so: no junk, every payload at most once, in order) -/
theorem sse_prefix (ka : Bool) (ps : List Bytes) (sched : List Step) (pre suf : Bytes)
    (hs : pre ++ suf = sseStream genSse ka ps sched) :
    ∃ rest, (parseSSE (sseStream genSse ka ps sched)).1 = (parseSSE pre).1 ++ rest := by
  rw [← hs]
  exact parseSSE_prefix pre suf

/-- the same through the executable prefix Spec the driver evaluates on what a disconnecting client
    received: pings aside the items are a prefix of `comment, next p₁ … next pₙ, complete`, the
    comment (if anything) first, and `complete` - if present - last -/
theorem sse_prefix_spec (ka : Bool) (ps : List Bytes) (sched : List Step) (h : ∀ p ∈ ps, OneLine p)
    (pre suf : Bytes) (hs : pre ++ suf = sseStream genSse ka ps sched) :
    sseSpecPrefix ps (parseSSE pre) = true := by
  rcases sse_prefix ka ps sched pre suf hs with ⟨rest, hr⟩
  rcases sse_parses ka ps sched h with ⟨mid, h1, h2, h3, _⟩
  rw [h1] at hr
  simp only at hr
  have hfull : (hdrItem :: (mid ++ [completeItem])).filter notPing = sseExpected ps := by
    simp [List.filter_cons, List.filter_append, h2, sseExpected, notPing, hdrItem, pingItem, completeItem, pingText]
  have hcm : completeItem ∉ hdrItem :: mid := by
    intro hm
    simp only [List.mem_cons] at hm
    rcases hm with hm | hm
    · simp [completeItem, hdrItem] at hm
    · rcases h3 _ hm with e | ⟨p, _, e⟩
      · simp [completeItem, pingItem] at e
      · simp [completeItem, nextItem, completeName, nextName] at e
  have hpre : (parseSSE pre).1 <+: hdrItem :: (mid ++ [completeItem]) := ⟨rest, hr.symm⟩
  have p1 : ((parseSSE pre).1.filter notPing).isPrefixOf (sseExpected ps) = true := by
    rw [List.isPrefixOf_iff_prefix, ← hfull]
    exact hpre.filter _
  have p2 : ((parseSSE pre).1.head? == some hdrItem || (parseSSE pre).1.isEmpty) = true := by
    cases hp : (parseSSE pre).1 with
    | nil => simp
    | cons x xs =>
      rw [hp] at hr
      simp at hr
      simp [hr.1]
  have p3 : ((parseSSE pre).1.getLast? == some completeItem || !((parseSSE pre).1.contains completeItem)) = true := by
    by_cases hc : completeItem ∈ (parseSSE pre).1
    · have e : (hdrItem :: mid) ++ [completeItem] = (parseSSE pre).1 ++ rest := by simpa using hr
      rcases List.append_eq_append_iff.1 e with ⟨a', e1, e2⟩ | ⟨c', e1, e2⟩
      · -- (parseSSE pre).1 = (hdr :: mid) ++ a', [complete] = a' ++ rest
        cases a' with
        | nil => rw [e1] at hc; simp at hc; exact absurd (by simpa using hc) hcm
        | cons y ys =>
          simp at e2
          rcases e2 with ⟨rfl, hys, _⟩
          subst hys
          rw [e1]
          simp only [List.cons_append]
          have : (hdrItem :: (mid ++ [completeItem])).getLast? = some completeItem := by
            rw [← List.cons_append, List.getLast?_concat]
          simp [this]
      · -- hdr :: mid = (parseSSE pre).1 ++ c'
        exact absurd (by rw [e1]; simp [hc]) hcm
    · simp [hc]
  simp only [sseSpecPrefix, p1, p2, p3, Bool.and_self]

/-- why the statement is at critical-section granularity (and what the code did before the writes were
    put under `sseConnection.mu`): if a ping lands *inside* the Write of an event - the byte stream
    observed on the unrepaired tree, `event: n` `: ping\n\n` `ext\ndata: {}\n\n` - the stream does not parse:
    the parser reports junk and the property fails. Atomicity of a critical section is an assumption
    about sync.Mutex / net/http, not a theorem. -/
theorem sse_torn_write_witness :
    sseSpec [[0x7B, 0x7D]] (parseSSE (canonSse.header ++ [0x65, 0x76, 0x65, 0x6E, 0x74, 0x3A, 0x20, 0x6E] ++
      canonSse.ping ++ [0x65, 0x78, 0x74, 0x0A, 0x64, 0x61, 0x74, 0x61, 0x3A, 0x20, 0x7B, 0x7D, 0x0A, 0x0A] ++
      canonSse.complete)) = false := by
  decide

/-- the hypotheses are satisfiable, and the statement is not vacuous: a concrete run with pings -/
example : (∀ p ∈ [[0x7B, 0x7D], [0x7B, 0x22, 0x61, 0x22, 0x3A, 0x31, 0x7D]], OneLine p) := by
  intro p hp; simp at hp; rcases hp with rfl | rfl <;> simp [OneLine, LF, CR]

example : parseSSE (sseStream canonSse true [[0x7B, 0x7D], [0x5B, 0x5D]] [.tick, .main, .tick, .tick, .main, .tick]) =
    ([hdrItem, pingItem, nextItem [0x7B, 0x7D], pingItem, pingItem, nextItem [0x5B, 0x5D], pingItem, completeItem], false) := by
  decide

/-! ## multipart/mixed -/

/-- for every hasNext-shaped payload sequence and every schedule of `Add`s and flush ticks, the
    flushes form a chain (first carries the initial payload, every later one a non-empty batch, all
    but the last say hasNext) that delivers exactly the payloads, in order -/
theorem multipart_groups (ps : List Resp) (sched : List Step) (hs : HasNextShape ps) :
    Chain true (mpGroups ps sched) ∧ (mpGroups ps sched).flatMap Group.payloads = ps := by
  have hne : ps ≠ [] := by rcases hs with ⟨i, l, rfl, _, _⟩; simp
  have hw : WF (mpInit ps) := ⟨fun _ => by simp [mpInit], fun h => by simp [mpInit] at h⟩
  have hr : Rem (mpInit ps) = ps := by simp [Rem, mpInit, pend]
  rcases mp_run_shape sched (mpInit ps) rfl hw (by rw [hr]; exact Or.inr hs) with ⟨gs, h1, h2, h3, _⟩
  have e : mpGroups ps sched = gs := by simpa [mpGroups, mpInit] using h1
  rw [e]
  exact ⟨by simpa [mpInit] using h3 (by rw [hr]; exact hne), by rw [h2, hr]⟩

/-- **multipart_parses** — for all payloads with the hasNext shape true…true,false, every boundary
    and every placement of flush ticks: the body parses (strict RFC 2046 reading: no preamble, no
    epilogue) as parts `initial :: batches`, where the batches are non-empty, concatenate to the
    incremental payloads in order (each exactly once), every part is labelled
    `Content-Type: application/json`, each wrapper says `hasNext` exactly when another part follows,
    and the closing delimiter appears exactly once, last. -/
theorem multipart_parses (B : Bytes) (ps : List Resp) (sched : List Step) (hB : CR ∉ B)
    (hs : HasNextShape ps) (hb : ∀ r ∈ ps, BodyOK r.body) :
    ∃ p0 batches, ps = p0 :: batches.flatten ∧ (∀ b ∈ batches, b ≠ []) ∧
      parseMP B (mpStream genMp B ps sched) = (mpExpected genMp p0 batches, false) := by
  rcases multipart_groups ps sched hs with ⟨hc, hp⟩
  have hbo : ∀ g ∈ mpGroups ps sched, g.BodiesOK := by
    intro g hg
    have hsub : ∀ r ∈ g.payloads, r ∈ ps := by
      intro r hr
      rw [← hp]
      exact List.mem_flatMap.2 ⟨g, hg, hr⟩
    exact ⟨fun r hi => hb r (hsub r (by simp [Group.payloads, hi])),
      fun r hr => hb r (hsub r (by simp [Group.payloads, hr]))⟩
  rcases chain_true_items _ hc with ⟨p0, batches, h1, h2, h3⟩
  refine ⟨p0, batches, by rw [← hp, h1], h2, ?_⟩
  rw [gen_mp_fmt]
  simp only [mpStream]
  rw [parse_groups B _ hB hc hbo, h3]

/-- the same statement through the executable Spec the driver evaluates on the implementation's bytes -/
theorem multipart_spec_holds (B : Bytes) (ps : List Resp) (sched : List Step) (hB : CR ∉ B)
    (hs : HasNextShape ps) (hb : ∀ r ∈ ps, BodyOK r.body) :
    mpSpec genMp ps (parseMP B (mpStream genMp B ps sched)) = true := by
  rcases multipart_parses B ps sched hB hs hb with ⟨p0, batches, h1, h2, h3⟩
  have hc : ∀ bs, (incParts genMp bs).count MItem.close = 0 := by
    intro bs
    induction bs with
    | nil => simp [incParts]
    | cons b bs ih => simp [incParts, partItem, ih]
  have hl : (mpExpected genMp p0 batches).getLast? = some MItem.close := by
    simp only [mpExpected]
    rw [← List.cons_append, List.getLast?_concat]
  have hn : (mpExpected genMp p0 batches).count MItem.close = 1 := by
    simp [mpExpected, partItem, List.count_append, hc]
  rw [h3, h1]
  simp only [mpSpec, hl, hn]
  simp [mpExpected, partItem, mpSpecParts_batches genMp batches h2]

/-- **client disconnect**: whatever byte prefix of the body a client has read, its complete parts are
    a prefix of the parts of the whole body (so: no junk, whole parts only, each payload at most once,
    in order; the closing delimiter only after everything) -/
theorem multipart_prefix (B : Bytes) (ps : List Resp) (sched : List Step) (pre suf : Bytes)
    (hs : pre ++ suf = mpStream genMp B ps sched) :
    ∃ rest, (parseMP B (mpStream genMp B ps sched)).1 = (parseMP B pre).1 ++ rest := by
  rw [← hs]
  exact parseMP_prefix B pre suf

/-- closing delimiter exactly once, and last -/
theorem multipart_close_once_last (f : MpFmt) (p0 : Resp) (batches : List (List Resp)) :
    (mpExpected f p0 batches).count MItem.close = 1 ∧ (mpExpected f p0 batches).getLast? = some MItem.close := by
  have hc : ∀ bs, (incParts f bs).count MItem.close = 0 := by
    intro bs
    induction bs with
    | nil => simp [incParts]
    | cons b bs ih => simp [incParts, partItem, ih]
  refine ⟨by simp [mpExpected, partItem, List.count_append, hc], ?_⟩
  simp only [mpExpected]
  rw [← List.cons_append, List.getLast?_concat]

/-- every part holds valid JSON (grammar of `Model/JsonFrame.lean`) when the payloads do -/
theorem multipart_parts_json (p0 : Resp) (batches : List (List Resp)) (hne : ∀ b ∈ batches, b ≠ [])
    (hv : ∀ r ∈ p0 :: batches.flatten, ∃ v, Parses r.body v) :
    ∀ hs body, MItem.part hs body ∈ mpExpected canonMp p0 batches → ∃ v, Parses body v := by
  have hinc : ∀ (bs : List (List Resp)), (∀ b ∈ bs, b ≠ []) → (∀ r ∈ bs.flatten, ∃ v, Parses r.body v) →
      ∀ hs body, MItem.part hs body ∈ incParts canonMp bs → ∃ v, Parses body v := by
    intro bs
    induction bs with
    | nil => intro _ _ hs body h; simp [incParts] at h
    | cons b bs ih =>
      intro h1 h2 hs body h
      simp only [incParts, List.mem_cons] at h
      rcases h with h | h
      · simp [partItem] at h
        rw [h.2]
        exact incJson_valid b _ (h1 b (by simp)) (fun r hr => h2 r (by simp [hr]))
      · exact ih (fun x hx => h1 x (by simp [hx])) (fun r hr => h2 r (by simp at hr ⊢; exact Or.inr hr)) hs body h
  intro hs body h
  simp only [mpExpected, List.mem_cons, List.mem_append] at h
  rcases h with h | h | h
  · simp [partItem] at h
    rw [h.2]; exact hv p0 (by simp)
  · exact hinc batches hne (fun r hr => hv r (by simp at hr ⊢; exact Or.inr hr)) hs body h
  · simp at h

/-- without the hasNext shape the statement fails on the code as it is: two payloads that both say
    "nothing follows" (what a subscription over multipart/mixed produces), flushed separately, give
    two closing delimiters - the hypothesis `HasNextShape` of `multipart_parses` is needed -/
theorem multipart_noshape_witness :
    mpSpec canonMp [⟨[0x7B, 0x7D], false⟩, ⟨[0x7B, 0x7D], false⟩]
      (parseMP [0x2D] (mpStream canonMp [0x2D] [⟨[0x7B, 0x7D], false⟩, ⟨[0x7B, 0x7D], false⟩] [.main, .tick])) = false := by
  decide

/-- hypotheses satisfiable / statement not vacuous: a concrete shaped run with two ticks -/
example : HasNextShape [⟨[0x7B, 0x7D], true⟩, ⟨[0x7B, 0x7D], true⟩, ⟨[0x7B, 0x7D], false⟩] :=
  ⟨[⟨[0x7B, 0x7D], true⟩, ⟨[0x7B, 0x7D], true⟩], ⟨[0x7B, 0x7D], false⟩, rfl, by simp, rfl⟩

example : BodyOK [0x7B, 0x7D] := by simp [BodyOK, LF, CR]

example : mpSpec canonMp [⟨[0x7B, 0x7D], true⟩, ⟨[0x7B, 0x7D], true⟩, ⟨[0x7B, 0x7D], false⟩]
    (parseMP [0x2D] (mpStream canonMp [0x2D] [⟨[0x7B, 0x7D], true⟩, ⟨[0x7B, 0x7D], true⟩, ⟨[0x7B, 0x7D], false⟩]
      [.main, .tick, .main, .main, .tick])) = true := by
  decide

/-! ## which responses reach the writers: the response loops and `nextResponse` (regenerated) -/

section Loop
open GqlgenVerif.StreamLoop

/-- what surrounds the loops: `initialResponse := true`, `defer a.Done(w)` before a loop that is the
    last statement of `MultipartMixed.Do`; the `complete` event is written right after the statement
    holding the loop of `SSE.Do` -/
theorem loop_surroundings : Gen.StreamLoop.mpFirstInit = true ∧ Gen.StreamLoop.mpDoneDeferred = true ∧
    Gen.StreamLoop.sseCompleteLast = true := by decide

/-- `MultipartMixed.Do`'s loop as it is in the source now, from any state: every good response and
    then the error response of a panic is handed to the aggregator, in order, exactly once; the loop
    ends by `break` (it neither hands over nil nor asks the handler again) -/
theorem mp_loop_gen {α : Type} (good : List α) (fin : Option α) (first : Bool) (out : List (α × Bool)) :
    (runLoop Gen.StreamLoop.nextFacts Gen.StreamLoop.mpLoop good fin ⟨first, out⟩).1.out
        = out ++ markFirst first (wanted good fin) ∧
    (runLoop Gen.StreamLoop.nextFacts Gen.StreamLoop.mpLoop good fin ⟨first, out⟩).2 = .done := by
  induction good generalizing first out with
  | nil =>
    cases fin <;>
      simp [runLoop, pullFin, runBody, Cond.eval, Gen.StreamLoop.nextFacts, Gen.StreamLoop.mpLoop, wanted, markFirst]
  | cons p ps ih =>
    have h := ih false (out ++ [(p, first)])
    simp [runLoop, runBody, Cond.eval, Gen.StreamLoop.nextFacts, Gen.StreamLoop.mpLoop] at h ⊢
    simp [h, wanted, markFirst_cons, markFirst_false]

/-- **mp_loop_delivers** — for every operation (any number of good responses, then nil or a panic while
    a response is being built): the loop of `MultipartMixed.Do` hands exactly `good ++ [error response]`
    to `a.Add`, the first - and only the first - flagged as the initial response, and stops -/
theorem mp_loop_delivers {α : Type} (good : List α) (fin : Option α) :
    (runLoop Gen.StreamLoop.nextFacts Gen.StreamLoop.mpLoop good fin ⟨Gen.StreamLoop.mpFirstInit, []⟩).1.out
        = markFirst true (wanted good fin) ∧
    (runLoop Gen.StreamLoop.nextFacts Gen.StreamLoop.mpLoop good fin ⟨Gen.StreamLoop.mpFirstInit, []⟩).2 = .done := by
  have h := mp_loop_gen good fin Gen.StreamLoop.mpFirstInit []
  rw [loop_surroundings.1] at h ⊢
  simpa using h

theorem sse_loop_gen {α : Type} (good : List α) (fin : Option α) (first : Bool) (out : List (α × Bool)) :
    ((runLoop Gen.StreamLoop.nextFacts Gen.StreamLoop.sseLoop good fin ⟨first, out⟩).1.out).map Prod.fst
        = out.map Prod.fst ++ wanted good fin ∧
    (runLoop Gen.StreamLoop.nextFacts Gen.StreamLoop.sseLoop good fin ⟨first, out⟩).2 = .done := by
  induction good generalizing first out with
  | nil =>
    cases fin <;>
      simp [runLoop, pullFin, runBody, Cond.eval, Gen.StreamLoop.nextFacts, Gen.StreamLoop.sseLoop, wanted]
  | cons p ps ih =>
    have h := ih first (out ++ [(p, first)])
    simp [runLoop, runBody, Cond.eval, Gen.StreamLoop.nextFacts, Gen.StreamLoop.sseLoop] at h ⊢
    simp [h, wanted]

/-- **sse_loop_delivers** — the same for the loop of `SSE.Do` -/
theorem sse_loop_delivers (good : List Bytes) (fin : Option Bytes) :
    genSseDelivered good fin = wanted good fin ∧
    (runLoop Gen.StreamLoop.nextFacts Gen.StreamLoop.sseLoop good fin ⟨true, []⟩).2 = .done := by
  have h := sse_loop_gen good fin true []
  exact ⟨by simpa [genSseDelivered, delivered] using h.1, h.2⟩

theorem mp_delivered (good : List Resp) (fin : Option Resp) : genMpDelivered good fin = wanted good fin := by
  simp [genMpDelivered, delivered, (mp_loop_delivers good fin).1, markFirst_fst]

/-- **sse_op_parses** — for every operation (good responses, then nil or a panic), keep-alive setting
    and schedule: the SSE stream delivers every good response and then the error response of the panic,
    each exactly once, in order, as one `next` event, then `complete` -/
theorem sse_op_parses (ka : Bool) (good : List Bytes) (fin : Option Bytes) (sched : List Step)
    (h : ∀ p ∈ wanted good fin, OneLine p) :
    sseSpec (wanted good fin) (parseSSE (sseOpStream genSse ka good fin sched)) = true := by
  rw [sseOpStream, (sse_loop_delivers good fin).1]
  exact sse_spec_holds ka _ sched h

/-- **multipart_op_parses** — for every operation whose responses (incl. the error response of a panic)
    have the hasNext shape, every boundary and schedule: the executable Spec holds on the stream -/
theorem multipart_op_parses (B : Bytes) (good : List Resp) (fin : Option Resp) (sched : List Step) (hB : CR ∉ B)
    (hs : HasNextShape (wanted good fin)) (hb : ∀ r ∈ wanted good fin, BodyOK r.body) :
    mpSpec genMp (wanted good fin) (parseMP B (mpOpStream genMp B good fin sched)) = true := by
  rw [mpOpStream, mp_delivered]
  exact multipart_spec_holds B _ sched hB hs hb

/-- **multipart_panic_parses** — a panic while the initial or any later payload is being built, after
    any number of payloads that said `hasNext:true`: the error response (no hasNext) is delivered as the
    last payload and the closing delimiter appears exactly once, last - for every schedule of flush ticks -/
theorem multipart_panic_parses (B : Bytes) (good : List Resp) (e : Resp) (sched : List Step) (hB : CR ∉ B)
    (hg : ∀ r ∈ good, r.hasNext = true) (he : e.hasNext = false)
    (hb : ∀ r ∈ good ++ [e], BodyOK r.body) :
    mpSpec genMp (good ++ [e]) (parseMP B (mpOpStream genMp B good (some e) sched)) = true :=
  multipart_op_parses B good (some e) sched hB ⟨good, e, rfl, hg, he⟩ hb

/-- why the order `Add`, then `if panicked { break }` matters: with the two breaks merged into one
    before the `Add` (`if response == nil || panicked { break }`) the error response of a panic is
    dropped, and a stream whose payloads so far all said hasNext:true ends without its closing delimiter -/
theorem merged_break_witness :
    delivered canonNext [.brk (.or .respNil .panicked), .deliver, .clearInitial] true
      [(⟨[0x7B, 0x7D], true⟩ : Resp)] (some ⟨[0x7B, 0x7D], false⟩) = [⟨[0x7B, 0x7D], true⟩] ∧
    mpSpec canonMp [⟨[0x7B, 0x7D], true⟩, ⟨[0x7B, 0x7D], false⟩]
      (parseMP [0x2D] (mpStream canonMp [0x2D]
        (delivered canonNext [.brk (.or .respNil .panicked), .deliver, .clearInitial] true
          [(⟨[0x7B, 0x7D], true⟩ : Resp)] (some ⟨[0x7B, 0x7D], false⟩)) [])) = false := by
  decide

/-- not vacuous: a panic after two payloads, flush ticks in between -/
example : mpSpec canonMp [⟨[0x7B, 0x7D], true⟩, ⟨[0x7B, 0x7D], true⟩, ⟨[0x7B, 0x7D], false⟩]
    (parseMP [0x2D] (mpStream canonMp [0x2D]
      (delivered canonNext canonMpLoop true [(⟨[0x7B, 0x7D], true⟩ : Resp), ⟨[0x7B, 0x7D], true⟩] (some ⟨[0x7B, 0x7D], false⟩))
      [.main, .tick, .main, .tick])) = true := by
  decide

example : delivered canonNext canonSseLoop true [[0x7B, 0x7D]] (some [0x5B, 0x5D]) = [[0x7B, 0x7D], [0x5B, 0x5D]] := by
  decide

end Loop

/-! ## who ends the exchange: the request context ends on the SERVER side, the client keeps reading

`go/extract/streamguard.go` regenerates the statements of `sseConnection.write` / `close` / `keepAlive`,
the func literal of `Do`'s last `c.write`, the early return of the aggregator's `flush`, the arms of its
ticker goroutine and `Done` (`Gen/StreamGuard.lean`). The statement of C12 quantifies over the payloads an
operation PRODUCES: a deadline middleware or a shutdown that ends the request context does not excuse the
transport from delivering what the operation still produces, nor from ending the stream (`complete` /
closing delimiter) - the client is connected and reading. -/
section Guard
open GqlgenVerif.StreamGuard GqlgenVerif.StreamLoop

/-- `sseConnection.write` refuses to write iff the connection is `closed` - whatever the state of the
    request context (regenerated statement list) -/
theorem sse_write_gen : ∀ closed ctxDone : Bool, reaches closed ctxDone Gen.StreamGuard.sseWrite = !closed := by
  intro c d; cases c <;> cases d <;> decide

/-- its shape: lock, deferred unlock, one guard, the write, the flush -/
theorem sse_write_shape : ∃ g, Gen.StreamGuard.sseWrite = [.lock, .deferUnlock, .retIf g, .run, .flush] := ⟨_, rfl⟩

/-- `close` sets `closed` and flushes under the lock; the keep-alive goroutine stops on `ctx.Done()` and
    otherwise only pings through `write`; the last `c.write` of `Do` writes `complete` and sets `closed`
    in the same critical section; `defer c.close()` -/
theorem sse_goroutines_gen :
    Gen.StreamGuard.sseClose = canonClose ∧ Gen.StreamGuard.sseKeepAlive = canonKeepAlive ∧
    Gen.StreamGuard.sseComplete = canonComplete ∧ Gen.StreamGuard.sseCloseDeferred = true := by decide

/-- the early return of `multipartResponseAggregator.flush` is taken iff nothing is held -/
theorem mp_flush_guard_gen : ∀ initNil noDeferred : Bool,
    Gen.StreamGuard.mpFlushGuard.eval initNil noDeferred = (initNil && noDeferred) := by
  intro a b; cases a <;> cases b <;> decide

/-- ... which is the early return of the model's `Agg.flush` -/
theorem mp_flush_guard_model (a : Agg) :
    Gen.StreamGuard.mpFlushGuard.eval a.initial.isNone a.defers.isEmpty = true → a.flush = a := by
  intro h
  rw [mp_flush_guard_gen] at h
  simp [Agg.flush, h]

/-- the aggregator's goroutine returns on `done` and otherwise only flushes; `Done` = signal, then the
    final flush; no context anywhere in `Add` / `flush` / `Done` / the goroutine: the end of the request
    context cannot change what the aggregator writes (the multipart theorems need no cancellation step) -/
theorem mp_goroutines_gen :
    Gen.StreamGuard.mpTicker = canonTicker ∧ Gen.StreamGuard.mpDone = canonDone ∧
    Gen.StreamGuard.mpAggUsesCtx = false := by decide

/-- the chunks written under a schedule WITH cancellations of the request context are those of the same
    schedule without them -/
theorem sse_cancel_chunks (ka : Bool) (ps : List Bytes) (sched : List CStep) :
    sseCancelChunks Gen.StreamGuard.sseWrite ka ps sched = sseChunks ka ps (erase sched) :=
  cancel_chunks _ sse_write_gen ka ps sched

/-- the machine the driver runs on every observed schedule (chunks kept newest first, so that a ping storm
    of tens of thousands of steps stays linear) writes exactly the chunks of the model -/
theorem sse_driver_runs_model (ka : Bool) (ps : List Bytes) (sched : List CStep) :
    sseCancelChunksR Gen.StreamGuard.sseWrite ka ps sched = sseCancelChunks Gen.StreamGuard.sseWrite ka ps sched :=
  cancel_chunks_rev _ ka ps sched

/-- **sse_cancel_parses** — for every operation, every keep-alive setting and every interleaving of the
    response loop, keep-alive ticks and CANCELLATIONS OF THE REQUEST CONTEXT (before, between, after the
    payloads): every response of the operation is delivered once, in order, and the stream ends with one
    `complete` -/
theorem sse_cancel_parses (ka : Bool) (good : List Bytes) (fin : Option Bytes) (sched : List CStep)
    (h : ∀ p ∈ wanted good fin, OneLine p) :
    sseSpec (wanted good fin)
      (parseSSE (sseCancelStream genSse Gen.StreamGuard.sseWrite ka (genSseDelivered good fin) sched)) = true := by
  have := sse_op_parses ka good fin (erase sched) h
  rw [sseOpStream, sseStream] at this
  rw [sseCancelStream, sse_cancel_chunks]
  exact this

/-- why the guard must not look at the request context: with `if c.closed || c.ctx.Err() != nil { return }`
    a cancellation after the first of two payloads loses the second payload and `complete` -/
theorem ctx_guard_witness :
    sseSpec [[0x7B, 0x7D], [0x5B, 0x5D]]
      (parseSSE (sseCancelStream canonSse [.lock, .deferUnlock, .retIf (.or .closed .ctxDone), .run, .flush] true
        [[0x7B, 0x7D], [0x5B, 0x5D]] [.main, .cancel])) = false := by
  decide

/-- not vacuous: a cancellation between two payloads, pings around it -/
example : sseSpec [[0x7B, 0x7D], [0x5B, 0x5D]]
    (parseSSE (sseCancelStream canonSse canonWrite true [[0x7B, 0x7D], [0x5B, 0x5D]] [.tick, .main, .cancel, .tick])) = true := by
  decide

end Guard

/-! ## writes are serialised (syntactic lock discipline, read off the source on every run) -/

/-- every call in sse.go that writes to or flushes the response is made under `sseConnection.mu`,
    or before `go c.keepAlive(w)`, or inside `writeJsonWithSSE` (whose call sites are in the list) -/
theorem sse_writes_serialised : ∀ s ∈ Gen.StreamFmt.sseSites, s.2 = 1 ∨ s.2 = 2 ∨ s.2 = 3 := by decide

/-- every call in http_multipart_mixed.go that writes to or flushes the response is made under
    `multipartResponseAggregator.mu`, or before the aggregator (and its ticker goroutine) exists, or
    in a helper called from such a place, or is the deferred `flusher.Flush()` that runs after
    `a.Done(w)`; and the ticker goroutine touches the response only through `a.flush` -/
theorem mp_writes_serialised :
    (∀ s ∈ Gen.StreamFmt.mpSites, s.2 = 1 ∨ s.2 = 2 ∨ s.2 = 3 ∨ s.2 = 4) ∧ Gen.StreamFmt.mpTickerOnlyFlushes = true := by
  decide

end GqlgenVerif.Props.C12
