import GqlgenVerif.Model.Stream
import GqlgenVerif.Model.StreamGen
import GqlgenVerif.Lemmas.Stream
/-!
# C12 — streamed HTTP responses (SSE, multipart/mixed) are well-framed under any timing
-/
namespace GqlgenVerif.Props.C12
open GqlgenVerif GqlgenVerif.Stream

/-! ## tie to the source: regenerated facts -/

/-- the byte strings sse.go writes now (regenerated from source) are the ones the framing proof is about -/
theorem gen_sse_fmt : genSse = canonSse := by decide

/-- the byte strings http_multipart_mixed.go writes now are the ones the framing proof is about -/
theorem gen_mp_fmt : genMp = canonMp := by decide

/-! ## SSE -/

theorem item_notPing (c : Stream.Chunk) : notPing c.item = decide (c ≠ Stream.Chunk.ping) := by
  cases c <;> simp [notPing, Stream.Chunk.item, pingItem, hdrItem, nextItem, completeItem, pingText]

theorem filter_item (cs : List Stream.Chunk) :
    (cs.map Stream.Chunk.item).filter notPing = (cs.filter (· ≠ Stream.Chunk.ping)).map Stream.Chunk.item := by
  simp [List.filter_map, Function.comp_def, item_notPing]

/-- every chunk the machine writes is a whole block when the payloads are single lines -/
theorem sse_chunks_ok (ka : Bool) (ps : List Bytes) (sched : List Step) (h : ∀ p ∈ ps, OneLine p) :
    ∀ c ∈ sseChunks ka ps sched, c.OK := by
  rcases sse_run_shape sched (sseInit ka ps) rfl with ⟨mid, h1, h2, _⟩
  intro c hc
  simp only [sseChunks] at hc
  rw [h1] at hc
  cases c with
  | next p =>
    have hm : Stream.Chunk.next p ∈ mid := by
      simp [sseInit] at hc
      exact hc
    have : Stream.Chunk.next p ∈ mid.filter (· ≠ Stream.Chunk.ping) := by simp [hm]
    rw [h2] at this
    simp [sseInit] at this
    exact h p this
  | _ => trivial

/-- for all payload sequences, keep-alive settings and schedules (at critical-section granularity):
    the stream parses to exactly the items of the chunks written, nothing left over -/
theorem sse_stream_items (ka : Bool) (ps : List Bytes) (sched : List Step) (h : ∀ p ∈ ps, OneLine p) :
    parseSSE (sseStream genSse ka ps sched) = ((sseChunks ka ps sched).map Stream.Chunk.item, false) := by
  rw [gen_sse_fmt]
  exact parse_chunks _ (sse_chunks_ok ka ps sched h)

/-- **sse_parses** — for all payload sequences and all schedules the byte stream parses as
    `comment, [ping]*, next p₁, [ping]*, …, next pₙ, [ping]*, complete`: every payload exactly once, in
    order, as one `next` event whose data is the payload; pings only between whole events; `complete`
    exactly once and last; without keep-alive no pings at all. -/
theorem sse_parses (ka : Bool) (ps : List Bytes) (sched : List Step) (h : ∀ p ∈ ps, OneLine p) :
    ∃ mid, parseSSE (sseStream genSse ka ps sched) = (hdrItem :: (mid ++ [completeItem]), false) ∧
      mid.filter notPing = ps.map nextItem ∧
      (∀ i ∈ mid, i = pingItem ∨ ∃ p ∈ ps, i = nextItem p) ∧
      (ka = false → mid = ps.map nextItem) := by
  rcases sse_run_shape sched (sseInit ka ps) rfl with ⟨mid, h1, h2, h3⟩
  refine ⟨mid.map Stream.Chunk.item, ?_, ?_, ?_, ?_⟩
  · rw [sse_stream_items ka ps sched h]
    simp only [sseChunks, h1]
    simp [sseInit, Stream.Chunk.item]
  · rw [filter_item, h2]
    simp [sseInit, Stream.Chunk.item, Function.comp_def]
  · intro i hi
    rcases List.mem_map.1 hi with ⟨c, hc, rfl⟩
    by_cases hp : c = Stream.Chunk.ping
    · left; simp [hp, Stream.Chunk.item]
    · right
      have : c ∈ mid.filter (· ≠ Stream.Chunk.ping) := by simp [hc, hp]
      rw [h2] at this
      simp [sseInit] at this
      rcases this with ⟨p, hpp, rfl⟩
      exact ⟨p, hpp, rfl⟩
  · intro hk
    rw [h3 hk]
    simp [sseInit, Stream.Chunk.item, Function.comp_def]

/-- the same statement through the executable Spec the driver evaluates on the implementation's bytes -/
theorem sse_spec_holds (ka : Bool) (ps : List Bytes) (sched : List Step) (h : ∀ p ∈ ps, OneLine p) :
    sseSpec ps (parseSSE (sseStream genSse ka ps sched)) = true := by
  rcases sse_parses ka ps sched h with ⟨mid, h1, h2, _, _⟩
  have hl : (hdrItem :: (mid ++ [completeItem])).getLast? = some completeItem := by
    rw [← List.cons_append, List.getLast?_concat]
  have hf : (hdrItem :: (mid ++ [completeItem])).filter notPing = sseExpected ps := by
    simp [List.filter_cons, List.filter_append, h2, sseExpected, notPing, hdrItem, pingItem, completeItem, pingText]
  simp [sseSpec, h1, hl, hf]

/-- **client disconnect**: whatever prefix of the stream a client has read, its items are a prefix of
    the items of the whole stream (so: no junk, every payload at most once, in order) -/
theorem sse_prefix (ka : Bool) (ps : List Bytes) (sched : List Step) (pre suf : Bytes)
    (hs : pre ++ suf = sseStream genSse ka ps sched) :
    ∃ rest, (parseSSE (sseStream genSse ka ps sched)).1 = (parseSSE pre).1 ++ rest := by
  rw [← hs]
  exact parseSSE_prefix pre suf

/-- the hypotheses are satisfiable, and the statement is not vacuous: a concrete run with pings -/
example : (∀ p ∈ [[0x7B, 0x7D], [0x7B, 0x22, 0x61, 0x22, 0x3A, 0x31, 0x7D]], OneLine p) := by
  intro p hp; simp at hp; rcases hp with rfl | rfl <;> simp [OneLine, LF, CR]

example : parseSSE (sseStream canonSse true [[0x7B, 0x7D], [0x5B, 0x5D]] [.tick, .main, .tick, .tick, .main, .tick]) =
    ([hdrItem, pingItem, nextItem [0x7B, 0x7D], pingItem, pingItem, nextItem [0x5B, 0x5D], pingItem, completeItem], false) := by
  decide

end GqlgenVerif.Props.C12
