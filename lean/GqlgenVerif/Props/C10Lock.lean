import GqlgenVerif.Lemmas.WsWriteLock
import GqlgenVerif.Gen.WsWriteLock
/-!
# C10 — a server-initiated close never meets a subscription's frame inside gorilla's writer

A malformed or unexpected frame (1002), a second subscribe under an active id (4409), `connection_terminate`, a
cancelled connection context, a missed pong: in every one of them the SERVER closes the connection, possibly
while several operations are in the middle of writing frames. gorilla/websocket panics when two goroutines are
inside a write at once ("concurrent write to websocket connection") - in an operation goroutine that is the
user's recover hook running although no user code panicked, or the death of the process; in the read loop it is
`Server.ServeHTTP`'s recover and a connection that is never closed.

`W` is regenerated from websocket.go on every run (go/extract/wswritelock.go): every frame write of a
`wsConnection` and whether `c.mu` is held around it. The theorems quantify over **all** numbers of goroutines,
**all** sequences of writes each of them performs and **all** interleavings.
-/
namespace GqlgenVerif.C10Lock
open GqlgenVerif GqlgenVerif.WsWriteLock

/-- the write sites of websocket.go as they are today -/
abbrev W : List WriteSite := Gen.WsWriteLock.writes

/-- a goroutine's program: the sites (indices into `ws`) it writes through, in order -/
def flagsOf (ws : List WriteSite) (prog : List Nat) : List Bool :=
  prog.filterMap fun k => ws[k]?.map (·.locked)

theorem flagsOf_all (ws : List WriteSite) (h : ws.all (·.locked) = true) (prog : List Nat) :
    (flagsOf ws prog).all id = true := by
  rw [List.all_eq_true]
  intro b hb
  simp only [flagsOf, List.mem_filterMap] at hb
  obtain ⟨k, _, hk⟩ := hb
  cases hw : ws[k]? with
  | none => simp [hw] at hk
  | some w =>
    simp only [hw, Option.map_some, Option.some.injEq] at hk
    have := (List.all_eq_true.mp h) w (List.mem_of_getElem? hw)
    simp_all

/-- `close_never_meets_a_frame_write`: whatever the goroutines of a connection are (read loop closing the
connection for any reason, any number of operations sending data / error / complete frames, tickers), whatever
each of them writes and however they interleave - never two of them are inside a write. -/
theorem close_never_meets_a_frame_write (progs : List (List Nat)) (sched : List Nat) :
    ¬ concurrentWrite (exec (start (progs.map (flagsOf W))) sched) := by
  have hW : W.all (·.locked) = true := by decide
  apply inv_exclusive
  apply exec_inv
  apply inv_start
  intro p hp
  simp only [List.mem_map] at hp
  obtain ⟨q, _, rfl⟩ := hp
  exact flagsOf_all W hW q

/-- two goroutines writing through an unlocked site -/
theorem race_two_unlocked : concurrentWrite (exec (start [[false], [false]]) [0, 1]) :=
  ⟨0, 1, ⟨.writing false, [false]⟩, ⟨.writing false, [false]⟩, by decide, by decide, by decide, by decide, by decide⟩

/-- `exclusive_iff_all_locked`: for ANY set of write sites, the writes are exclusive for all goroutines, programs
and interleavings **iff** every site holds `c.mu` (each one is necessary). -/
theorem exclusive_iff_all_locked (ws : List WriteSite) :
    (∀ (progs : List (List Nat)) (sched : List Nat), ¬ concurrentWrite (exec (start (progs.map (flagsOf ws))) sched))
      ↔ ws.all (·.locked) = true := by
  constructor
  · intro h
    rw [List.all_eq_true]
    intro w hw
    cases hl : w.locked with
    | true => rfl
    | false =>
      exfalso
      obtain ⟨k, hk⟩ := List.getElem?_of_mem hw
      have hf : flagsOf ws [k] = [false] := by simp [flagsOf, hk, hl]
      have := h [[k], [k]] [0, 1]
      simp only [List.map_cons, List.map_nil, hf] at this
      exact this race_two_unlocked
  · intro hall progs sched
    apply inv_exclusive
    apply exec_inv
    apply inv_start
    intro p hp
    simp only [List.mem_map] at hp
    obtain ⟨q, _, rfl⟩ := hp
    exact flagsOf_all ws hall q

/-- the seeded shape - the close frame written after `c.mu.Unlock()`: the read loop closes (one unlocked write)
while ONE operation sends a frame (locked): operation takes the lock and enters the write, the close enters too. -/
theorem close_after_unlock_witness :
    concurrentWrite (exec (start [[false], [true]]) [1, 1, 0]) :=
  ⟨0, 1, ⟨.writing false, [false]⟩, ⟨.writing true, [true]⟩, by decide, by decide, by decide, by decide, by decide⟩

-- non-vacuity: the regenerated list is not empty, and programs over it do write
example : W ≠ [] := by decide
example : flagsOf W [0, 0] ≠ [] := by decide

end GqlgenVerif.C10Lock
