import GqlgenVerif.Model.SyncProg
import GqlgenVerif.Gen.SyncFacts
/-!
# C05 - hand-written locks and abandoned senders

"Once every resolver has returned, the response function returns; after the request nothing started on its behalf
is alive" also rests on two pieces of hand-written synchronisation outside the generated executor:

* mutexes that are unlocked by hand on every exit (`TreeBuilder.addProtobufError` of the federated tracing
  extension runs inside the response function for every error of the response; `wsConnection.close`, `run`, ...):
  an exit that keeps the mutex blocks the next caller for ever - `calls_of_a_balanced_function_never_block`,
  and the shape of the defect `dropped_unlock_blocks_next_call_witness`;
* goroutines that report over a channel to a receiver that may have walked away (the reader started by
  `wsConnection.nextMessageWithTimeout` when `InitTimeout` is set): they end iff their sends fit the buffer -
  `abandoned_sender_finishes_iff`, `unbuffered_abandoned_sender_witness`.

The programs are REGENERATED from /repo on every run (`Gen/SyncFacts.lean`); the two `decide`d theorems at the end
stop closing when an unlock is dropped on some path or a capacity no longer covers the sends.
-/
namespace GqlgenVerif.C05Sync
open GqlgenVerif.SyncProg

/-! ## loops: zero-or-one round with an invariant counter covers every number of rounds -/

theorem exec_loop_sound (σ : Sem) (b : List Stmt) (h : Nat)
    (hok : ∀ o ∈ execS σ (.loop b) h, o ≠ .stuck) :
    ∀ n, ∀ o ∈ iter σ b n h, o ∈ execS σ (.loop b) h := by
  intro n
  induction n with
  | zero =>
    intro o ho
    simp [iter] at ho
    subst ho
    simp [execS]
  | succ n ih =>
    intro o ho
    simp only [iter, List.mem_flatMap] at ho
    obtain ⟨o1, ho1, ho⟩ := ho
    have hmem : loopOut h o1 ∈ execS σ (.loop b) h := by
      simp only [execS, List.mem_cons, List.mem_map]
      exact Or.inr ⟨o1, ho1, rfl⟩
    have hns := hok _ hmem
    cases o1 with
    | fall h' =>
      simp only [loopOut] at hns hmem
      by_cases e : h' = h
      · subst e; exact ih o ho
      · simp [e] at hns
    | cont h' =>
      simp only [loopOut] at hns hmem
      by_cases e : h' = h
      · subst e; exact ih o ho
      · simp [e] at hns
    | brk h' =>
      simp at ho; subst ho
      simpa [loopOut] using hmem
    | ret h' =>
      simp at ho; subst ho
      simpa [loopOut] using hmem
    | stuck => simp [loopOut] at hns

example : ∀ o ∈ execS mutexSem (.loop [.alt [.ret] [.prim .lock, .prim .unlock]]) 0, o ≠ .stuck := by decide

/-! ## mutexes -/

/-- a balanced function can be called any number of times in a row on the same mutex: no call blocks in `Lock`,
    and the mutex is free after the last one -/
theorem calls_of_a_balanced_function_never_block (p : List Stmt) (hb : balanced p = true) :
    ∀ n, ∀ o ∈ calls p n 0, o = .ret 0 := by
  intro n
  induction n with
  | zero => intro o ho; simpa [calls] using ho
  | succ n ih =>
    intro o ho
    simp only [calls, List.mem_flatMap] at ho
    obtain ⟨o1, ho1, ho⟩ := ho
    have hc : o1.clean = true := by
      have := List.all_eq_true.mp hb o1 ho1
      exact this
    cases o1 with
    | fall h' =>
      cases h' with
      | zero => exact ih o ho
      | succ k => simp [Out.clean] at hc
    | ret h' =>
      cases h' with
      | zero => exact ih o ho
      | succ k => simp [Out.clean] at hc
    | brk _ => simp [Out.clean] at hc
    | cont _ => simp [Out.clean] at hc
    | stuck => simp [Out.clean] at hc

example : balanced addErrorFixed = true := by decide

/-- one error without a trace node followed by any other error: the second call never gets the mutex -/
theorem dropped_unlock_blocks_next_call_witness :
    balanced addErrorDropped = false ∧ Out.stuck ∈ calls addErrorDropped 2 0 := by decide

/-! ## abandoned senders -/

theorem exec_sends (cap k h : Nat) (hh : h ≤ cap) :
    execL (chanSem cap) (sends k) h = if h + k ≤ cap then [.fall (h + k)] else [.stuck] := by
  induction k generalizing h with
  | zero => simp [sends, execL, hh]
  | succ k ih =>
    simp only [sends, List.replicate_succ, execL, execS, chanSem]
    by_cases hlt : h < cap
    · have ih' := ih (h + 1) (by omega)
      simp only [sends] at ih'
      simp only [hlt, ite_true, List.flatMap_cons, List.flatMap_nil, List.append_nil, andThen]
      rw [ih']
      have e1 : h + 1 + k = h + (k + 1) := by omega
      rw [e1]
    · have hgt : ¬ h + (k + 1) ≤ cap := by omega
      simp [hlt, hgt, andThen]

/-- a goroutine that makes `k` sends to a receiver that has gone away ends iff the channel was made with room
    for all of them -/
theorem abandoned_sender_finishes_iff (cap k : Nat) : neverBlocks cap (sends k) = true ↔ k ≤ cap := by
  unfold neverBlocks
  rw [exec_sends cap k 0 (Nat.zero_le _)]
  by_cases hk : k ≤ cap
  · simp [hk, Out.notStuck]
  · simp [hk, Out.notStuck]

/-- the reader of `nextMessageWithTimeout`: one send on either channel; with unbuffered channels it is stuck -/
theorem unbuffered_abandoned_sender_witness :
    neverBlocks 0 [.alt [.prim .send] []] = false ∧ neverBlocks 1 [.alt [.prim .send] []] = true := by decide

/-! ## the regenerated programs -/
open GqlgenVerif.Gen.SyncFacts

/-- every function of gqlgen's runtime that unlocks a mutex by hand leaves it free on every path -/
theorem every_hand_locked_mutex_is_released_on_every_exit :
    lockProgs.all (fun r => balanced r.2.2) = true := by decide

/-- every goroutine that reports over a channel outside a select fits the channel's buffer: it ends although the
    receiver may have taken another arm -/
theorem no_bare_send_can_strand_its_goroutine :
    chanProgs.all (fun r => neverBlocks r.2.2.1 r.2.2.2) = true := by decide

/-- the facts are about the code the property is about (not vacuous) -/
theorem sync_facts_cover_tracer_and_websocket :
    lockProgs.any (fun r => r.1 == "graphql/handler/apollofederatedtracingv1/tree_builder.go:addProtobufError") = true ∧
    lockProgs.any (fun r => r.1 == "graphql/handler/transport/websocket.go:close") = true ∧
    chanProgs.any (fun r => r.1 == "graphql/handler/transport/websocket.go:nextMessageWithTimeout$lit1" && r.2.1 == "errs") = true ∧
    chanProgs.any (fun r => r.1 == "graphql/handler/transport/websocket.go:nextMessageWithTimeout$lit1" && r.2.1 == "messages") = true := by
  decide

end GqlgenVerif.C05Sync
