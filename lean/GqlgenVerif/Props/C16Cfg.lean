import GqlgenVerif.Props.C16
import GqlgenVerif.Model.IntroGateCfg
import GqlgenVerif.Gen.ExtOrder
/-!
# C16, part 3 — the configuration around the gate

`Props/C16.lean` part 2 says what a request observes when `DisableIntrospection` is set. Whether it is set is
decided per request by the handler extensions the server registered (`Model/IntroGateCfg.lean`). Stated here,
for **all** lists of extensions (any number of parameter mutators, context mutators and operation middleware,
`extension.Introspection{}` at any position, any per-request conditions) and all requests:

* `effective_eq_spec` — the code, read through the facts REGENERATED from `graphql/executor/extensions.go`,
  `executor.go` and `graphql/handler/extension/introspection.go` on every run (`Gen/ExtOrder.lean`), decides
  the flag exactly as the contract does: start disabled; parameter mutators, then context mutators, then
  operation middleware, each kind in registration order. The theorem stops closing when a loop of
  `processExtensions` / `CreateOperationContext` changes direction, a slot moves to the other loop, the initial
  literal changes, or `extension.Introspection` assigns something else.
* `configured_disabled_reveals_nothing` — a request the contract disables introspection for observes what
  part 2 states, on the code as configured.
-/
namespace GqlgenVerif.IntroGate.Cfg.C16
open GqlgenVerif GqlgenVerif.IntroGate GqlgenVerif.IntroGate.Cfg

theorem visit_forward {α : Type} (xs : List α) : Impl.visit .forward xs = xs := rfl

/-- appending every visited element to an empty slice yields the visiting order -/
theorem collect_eq_visit {α : Type} (d : Dir) (xs : List α) : Impl.collect d xs = Impl.visit d xs := by
  unfold Impl.collect
  have h : ∀ (ys acc : List α), ys.foldl (fun acc x => acc ++ [x]) acc = acc ++ ys := by
    intro ys
    induction ys with
    | nil => simp
    | cons y ys ih => intro acc; simp [ih]
  simpa using h (Impl.visit d xs) []

/-- wrapping from the last registered to the first makes the first registered the outermost: the middleware
    run in registration order -/
theorem wrapAll_backward (op : String) (xs : List (Cond × Act)) :
    Impl.wrapAll op .backward xs = Spec.around op xs := by
  unfold Impl.wrapAll Impl.visit
  rw [List.foldl_reverse]
  induction xs with
  | nil => rfl
  | cons x xs ih => simp only [List.foldr_cons, ih]; rfl

/-- whatever `extension.Introspection` assigns before, its last assignment decides -/
theorem intro_fold (l : List Bool) (h : l.getLast? = some false) (st : St) :
    l.foldl (fun s b => { s with disable := b }) st = { st with disable := false } := by
  induction l generalizing st with
  | nil => simp at h
  | cons b bs ih =>
    cases bs with
    | nil => simp at h; subst h; rfl
    | cons c cs =>
      rw [List.foldl_cons]
      exact (ih (by simpa [List.getLast?_cons_cons] using h) _).trans rfl

theorem cStep_ok (l : List Bool) (h : l.getLast? = some false) (op : String) :
    cStep l op = cStep [false] op := by
  funext st hk
  cases hk with
  | introspection => simp only [cStep]; rw [intro_fold l h]; rfl
  | user c a => rfl

/-- **Facts that keep the contract.** Under `Facts.ok` the code decides the flag as the contract says. -/
theorem effective_of_ok (f : Facts) (h : f.ok = true) (exts : List Ext) (req : Req) :
    Impl.effective f exts req = Spec.effective exts req := by
  simp only [Facts.ok, Bool.and_eq_true, beq_iff_eq] at h
  obtain ⟨⟨⟨⟨⟨hp, hc⟩, ha⟩, hi⟩, hl⟩, hx⟩ := h
  unfold Impl.effective Spec.effective
  rw [hl, hi, ha]
  simp only [Impl.create, beq_self_eq_true, if_true, hp, hc, Option.map_some, collect_eq_visit, visit_forward,
    cStep_ok f.introspectionExt hx]
  have hne : ("operationContextMutators" == "operationParameterMutators") = false := by decide
  simp only [hne, Bool.false_eq_true, if_false]
  cases runM (pStep req.op) (exts.filterMap (·.param)) ⟨req.role, true⟩ with
  | error m => rfl
  | ok st =>
    simp only
    cases runM (cStep [false] req.op) (exts.filterMap (·.ctx)) st with
    | error m => rfl
    | ok st' => simp only [wrapAll_backward]

/-- the facts regenerated from /repo's current sources keep the contract -/
theorem gen_facts_ok : Gen.ExtOrder.facts.ok = true := by decide

/-- **The effective `DisableIntrospection` of every request is the result of running the parameter mutators,
    the context mutators and the operation middleware in registration order** — for the code as it is now. -/
theorem effective_eq_spec (exts : List Ext) (req : Req) :
    Impl.effective Gen.ExtOrder.facts exts req = Spec.effective exts req :=
  effective_of_ok _ gen_facts_ok exts req

/-- a request the contract disables introspection for: the operation is executed, and every gated root field is
    null with the gate's error (part 2), on the code as configured -/
theorem configured_disabled_reveals_nothing (exts : List Ext) (req : Req)
    (hdis : Spec.effective exts req = .run true)
    (o : Oracle) (rootTy : String) (fields : List (FInfo × Shape))
    (hwf : fieldsWF fields) (hnd : gatedNoDirs fields = true)
    (fi : FInfo) (sh : Shape) (hmem : (fi, sh) ∈ fields) (hg : isGated fi.name = true) :
    ∃ r, respond (Impl.effective Gen.ExtOrder.facts exts req) o rootTy fields = some r ∧
      (⟨[.key fi.alias], gateMsg fi.name⟩ : Err) ∈ r.2.errs ∧
      (r.1 = .null ∨ ∃ fs, r.1 = .obj fs ∧ (fi.alias, Out.null) ∈ fs) ∧
      (sh.nn = true → r.1 = .null) := by
  rw [effective_eq_spec, hdis]
  refine ⟨_, rfl, ?_⟩
  have h := GqlgenVerif.IntroGate.C16.disabled_reveals_nothing o rootTy fields hwf hnd fi sh hmem hg
  refine ⟨h.1, ?_, h.2.2⟩
  rcases h.2.1 with h1 | ⟨fs, h1, h2, _⟩
  · exact Or.inl h1
  · exact Or.inr ⟨fs, h1, h2⟩

/-- with introspection disabled for a request, no introspection data can influence its response, on the code
    as configured -/
theorem configured_disabled_independent (exts : List Ext) (req : Req)
    (hdis : Spec.effective exts req = .run true)
    (o₁ o₂ : Oracle) (rootTy : String) (fields : List (FInfo × Shape))
    (hwf : fieldsWF fields) (hnd : gatedNoDirs fields = true)
    (h : ∀ q, (∀ f ∈ fields, isGated f.1.name = true → ¬ [Seg.key f.1.alias] <+: q) →
      o₁.res q = o₂.res q ∧ (∀ n, o₁.dir q n = o₂.dir q n) ∧
        ∀ n, o₁.plain q.dropLast n = o₂.plain q.dropLast n) :
    respond (Impl.effective Gen.ExtOrder.facts exts req) o₁ rootTy fields =
      respond (Impl.effective Gen.ExtOrder.facts exts req) o₂ rootTy fields := by
  rw [effective_eq_spec, hdis]
  simp only [respond]
  rw [GqlgenVerif.IntroGate.C16.disabled_independent_of_introspection_data o₁ o₂ rootTy fields hwf hnd h]

/-! ### the contract on the configurations the statement is about -/

def introspectionExt : Ext := { ctx := some .introspection }
/-- `MutateOperationContext: if role != "admin" { opCtx.DisableIntrospection = true }` -/
def adminOnly : Ext := { ctx := some (.user (.roleIsNot "admin") (.set true)) }
/-- `AroundOperations(func(ctx, next) { if role != "admin" { opCtx.DisableIntrospection = true }; return next(ctx) })` -/
def adminOnlyAround : Ext := { around := some (.roleIsNot "admin", .set true) }
def asAnon : Ext := { param := some (.always, .setRole "anon") }

/-- no extension: disabled -/
example (req : Req) : Spec.effective [] req = .run true := rfl
/-- `extension.Introspection{}` alone: enabled for everyone -/
example (req : Req) : Spec.effective [introspectionExt] req = .run false := rfl

/-- `Use(extension.Introspection{}); Use(adminOnly)`: disabled for everyone but admins … -/
theorem admin_gate_after (req : Req) :
    Spec.effective [introspectionExt, adminOnly] req = .run (req.role != "admin") := by
  simp only [Spec.effective, introspectionExt, adminOnly, List.filterMap, runM, cStep, List.foldl, actStep,
    Cond.holds, Spec.around]
  rcases Bool.eq_false_or_eq_true (req.role != "admin") with h | h <;> simp [h]

/-- … and registered the other way round the gate is void: **registration order is observable** -/
theorem admin_gate_before (req : Req) : Spec.effective [adminOnly, introspectionExt] req = .run false := by
  simp only [Spec.effective, introspectionExt, adminOnly, List.filterMap, runM, cStep, List.foldl, actStep,
    Cond.holds, Spec.around]
  rcases Bool.eq_false_or_eq_true (req.role != "admin") with h | h <;> simp [h]

/-- operation middleware runs after every mutator, wherever it was registered -/
theorem around_gate_any_position (req : Req) :
    Spec.effective [adminOnlyAround, introspectionExt] req = .run (req.role != "admin") ∧
    Spec.effective [introspectionExt, adminOnlyAround] req = .run (req.role != "admin") := by
  constructor <;>
  · simp only [Spec.effective, introspectionExt, adminOnlyAround, List.filterMap, runM, cStep, List.foldl,
      Spec.around, mwOf, actStep, Cond.holds]
    rcases Bool.eq_false_or_eq_true (req.role != "admin") with h | h <;> simp [h]

/-- a parameter mutator that rewrites the role decides what the later context mutator sees -/
example : Spec.effective [introspectionExt, adminOnly, asAnon] ⟨"admin", ""⟩ = .run true := by decide

/-- **Witness for the reversed mutator order** (a `processExtensions` that collects the mutators in its backward
    loop): the code read through such facts serves introspection to a request the contract disables it for. -/
def factsMutatorsBackward : Facts :=
  { slots :=
      [⟨"OperationInterceptor", "operationMiddleware", .wrap, .backward⟩,
       ⟨"OperationParameterMutator", "operationParameterMutators", .append, .backward⟩,
       ⟨"OperationContextMutator", "operationContextMutators", .append, .backward⟩],
    initialDisable := true,
    createLoops := [("operationParameterMutators", .forward), ("operationContextMutators", .forward)],
    introspectionExt := [false] }

theorem reversed_mutators_witness :
    Impl.effective factsMutatorsBackward [introspectionExt, adminOnly] ⟨"anon", ""⟩ = .run false ∧
    Spec.effective [introspectionExt, adminOnly] ⟨"anon", ""⟩ = .run true := by decide

end GqlgenVerif.IntroGate.Cfg.C16
