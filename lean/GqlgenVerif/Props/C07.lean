import GqlgenVerif.Lemmas.ServerState
import GqlgenVerif.Model.ServerStateCfg
import GqlgenVerif.Gen.PoolReset
import GqlgenVerif.Lemmas.RespHeaders
import GqlgenVerif.Gen.RespHeaders
/-!
# C07 — a response depends only on its own request, not on earlier or concurrent ones

Property theorems only (helper lemmas: `Lemmas/ServerState.lean`; model: `Model/ServerState.lean`).

* Part A is stated over `Gen/PoolReset.lean`, which is regenerated from `graphql/handler.go` and
  `graphql/handler/transport/http_post.go` on every run: deleting a reset line, resetting to a non-zero
  value, or adding a field to `RawParams` breaks one of these `decide` proofs.
* Part B quantifies over **all** event lists (`Ev.get / run / put / gc` of any number of requests in any
  interleaving), **all** `sync.Pool` choices (which pooled struct `Get` returns, whether `Put` keeps it, what
  GC forgets), **all** lawful cache behaviours (any `Get` may miss), all requests, and all interpretations
  `Env` of SHA-256 / gqlparser / mapstructure. Nothing is bounded.
* Part C covers the other thing an HTTP transport keeps between requests: its configured `ResponseHeaders` map.
  `mergeHeaders` is translated from `graphql/handler/transport/headers.go` into `Gen/RespHeaders.lean` on every
  run; writing into a map that was passed in (e.g. the configured one) breaks `merge_headers_pure`.
* `spec cfg env look r` is what a freshly constructed server answers to `r` alone; `look` is the single thing
  the property allows a server to remember: the text registered for a persisted-query hash.
-/
namespace GqlgenVerif.C07
open GqlgenVerif GqlgenVerif.SS GqlgenVerif.Gen

/-! ## A. The recycling code as it is in the source today -/

/-- **every field of `graphql.RawParams` is cleared, with the zero value of its type, before the struct goes
back to the pool** (the last assignment to the field in the deferred function of `POST.Do`). -/
theorem reset_covers_all_fields :
    ∀ f ∈ PoolReset.fields, isReset PoolReset.resets f.1 f.2.1 = true := by decide

/-- in particular every field that JSON decoding (a `json:"…"` key) or the transport itself can set -/
theorem settable_fields_are_reset :
    ∀ f ∈ PoolReset.fields, (f.2.2 ≠ "-" ∨ f.1 ∈ PoolReset.transportSets) →
      isReset PoolReset.resets f.1 f.2.1 = true := by decide

/-- the model's `Params` has exactly the fields `RawParams` has today, with the same kinds … -/
theorem rawparams_fields_are_the_models :
    PoolReset.fields.map (fun f => (f.1, f.2.1)) = stdFields := by decide

/-- … and `decodeMember` routes exactly the JSON keys of the struct tags -/
theorem json_keys_are_the_models :
    PoolReset.fields.map (fun f => (f.1, fieldOfKey f.2.2)) =
      [("Query", some .query), ("OperationName", some .opName), ("Variables", some .vars),
       ("Extensions", some .exts), ("Headers", some .hdrs), ("ReadTime", none)] := by decide

/-- one `Get`, one `Put`, in `POST.Do` only; the reset is installed by the statement right after `Get`, `Put` is its
last statement, and the variable is never re-bound by an assignment -/
theorem pool_discipline :
    PoolReset.poolGets = 1 ∧ PoolReset.poolPuts = 1 ∧ PoolReset.poolGetFiles = ["http_post.go"] ∧
    PoolReset.deferRightAfterGet = true ∧ PoolReset.putIsLast = true ∧ PoolReset.varReassigned = false := by decide

/-- the decode calls are ones whose behaviour on `null` the model knows -/
theorem decode_calls_known :
    (nullModeOf PoolReset.decodeFunc PoolReset.decodeTarget).isSome = true ∧
    (nullModeOf PoolReset.formDecodeFunc PoolReset.formDecodeTarget).isSome = true := by decide

/-- hence the deferred reset of today's source maps **every** struct to the zero struct -/
theorem reset_is_zero (p : Params) : resetBy genCfg.resets p = Params.zero :=
  resetBy_zero _ (by
    intro f hf
    have h := rawparams_fields_are_the_models
    have : f ∈ PoolReset.fields.map (fun f => (f.1, f.2.1)) := by rw [h]; exact hf
    obtain ⟨g, hg, rfl⟩ := List.mem_map.mp this
    exact reset_covers_all_fields g hg) p

/-- non-vacuity: a fully populated struct is really changed by the reset -/
example : resetBy genCfg.resets ⟨"q", "o", some [("a", "1")], some [], some [("H", "[]")], true⟩ = Params.zero := by decide

/-! ## B. All histories, all interleavings, all pool and cache behaviours -/

section
variable {D E : Type} (env : Env D E)

/-- **pool_inv**: in every reachable state every pooled struct is zero, and so is the struct of every request that
has called `Get` but not yet decoded its body. -/
theorem pool_inv (evs : List Ev) :
    (∀ p ∈ (runAll genCfg env State.fresh evs).1.pool, p = Params.zero) ∧
    (∀ h ∈ (runAll genCfg env State.fresh evs).1.held, h.ran = false → h.p = some Params.zero) :=
  let i := runAll_inv genCfg env reset_is_zero evs State.fresh (inv_fresh env)
  ⟨i.pool, i.held⟩

/-- **the caches stay lawful**: a cached document is what parsing its key gives; a persisted query is stored
under its own hash and is never the empty text (the APQ registration the property permits, made explicit). -/
theorem caches_inv (evs : List Ev) :
    (∀ k d, (k, d) ∈ (runAll genCfg env State.fresh evs).1.caches.qc → env.parse k = .ok d) ∧
    (∀ h q, (h, q) ∈ (runAll genCfg env State.fresh evs).1.caches.apq → env.sha q = h ∧ q ≠ "") :=
  let i := runAll_inv genCfg env reset_is_zero evs State.fresh (inv_fresh env)
  ⟨i.qc, i.apq⟩

/-- **response_history_independent (one step)**: after ANY events, whatever a request is answered is the answer
of a fresh server to that request alone; history enters only through `look`, the result of the one APQ cache
lookup. -/
theorem response_history_independent_step (evs : List Ev) (id : Nat) (r : Req) (apqHit qcHit : Bool)
    (x : Nat × Outcome D E)
    (hx : (apply genCfg env (runAll genCfg env State.fresh evs).1 (.run id r apqHit qcHit)).2 = some x) :
    x = (id, spec genCfg env (cacheGet (runAll genCfg env State.fresh evs).1.caches.apq apqHit) r) :=
  apply_run_spec genCfg env _ (runAll_inv genCfg env reset_is_zero evs State.fresh (inv_fresh env)) id r apqHit qcHit x hx

/-- **response_history_independent**: every answer produced anywhere in ANY interleaving of ANY requests is the
fresh-server answer to the request of the `run` event that produced it. -/
theorem response_history_independent (evs : List Ev) (x : Nat × Outcome D E)
    (hx : x ∈ (runAll genCfg env State.fresh evs).2) :
    ∃ pre id r a q post, evs = pre ++ Ev.run id r a q :: post ∧
      x = (id, spec genCfg env (cacheGet (runAll genCfg env State.fresh pre).1.caches.apq a) r) :=
  runAll_outputs genCfg env reset_is_zero evs State.fresh (inv_fresh env) x hx

/-- **sequential form**: after any history of requests served one after the other (any pool / cache choices per
request), the next request gets exactly one answer: the fresh server's. -/
theorem response_history_independent_seq (hist : List (Req × Choice)) (r : Req) (ch : Choice) :
    (runAll genCfg env (serveSeq genCfg env State.fresh 0 hist).1 (eventsOf hist.length r ch)).2 =
      [(hist.length, spec genCfg env (cacheGet (serveSeq genCfg env State.fresh 0 hist).1.caches.apq ch.apqHit) r)] :=
  let i := serveSeq_inv genCfg env reset_is_zero hist State.fresh 0 (inv_fresh env) rfl
  (serveOne_spec genCfg env _ i.1 i.2 hist.length r ch).1

/-- **a cached document gives the same result as an uncached one**, and the pool's choice is irrelevant: the
answer does not depend on `qcHit`, `pool`, `drop`. -/
theorem cached_doc_same_as_uncached (hist : List (Req × Choice)) (r : Req) (ch ch' : Choice)
    (h : ch.apqHit = ch'.apqHit) :
    (runAll genCfg env (serveSeq genCfg env State.fresh 0 hist).1 (eventsOf hist.length r ch)).2 =
    (runAll genCfg env (serveSeq genCfg env State.fresh 0 hist).1 (eventsOf hist.length r ch')).2 := by
  rw [response_history_independent_seq, response_history_independent_seq, h]

/-- what reaches the executor for a request (Spec side) -/
def reach (cfg : Cfg) : Req → Built
  | .post hdrs body =>
    match decodeBody cfg.nullMode { Params.zero with hdrs := some hdrs, readTime := true } body with
    | .err _ => .fail (.post, "decode")
    | .nil => .nilp .post
    | .ok p => .params .post p
  | r => paramsOf cfg r

def ofBuilt (look : String → Option String) : Built → Outcome D E
  | .none => .noTransport
  | .fail (t, c) => .transportError t c
  | .nilp t => .nilParams t
  | .params t p => spec.specExec env look t p

/-- the Spec is: build the params from the request alone, then run the executor on them -/
theorem spec_eq_reach (cfg : Cfg) (look : String → Option String) (r : Req) :
    spec cfg env look r = ofBuilt env look (reach cfg r) := by
  cases r with
  | post hdrs body =>
    simp only [spec, reach]
    cases decodeBody cfg.nullMode { Params.zero with hdrs := some hdrs, readTime := true } body <;> rfl
  | unsupported => rfl
  | get h b qq o v ee =>
    simp only [spec, reach]
    cases paramsOf cfg (.get h b qq o v ee) <;> rfl
  | form h f =>
    simp only [spec, reach]
    cases paramsOf cfg (.form h f) <;> rfl
  | graphql h qq =>
    simp only [spec, reach]
    cases paramsOf cfg (.graphql h qq) <;> rfl

/-- **the only memory is the APQ registration**: a request whose executor-side params carry a query text (the
client sent the text, or the transport has no persisted queries) is answered as by a server that remembers
nothing at all. -/
theorem no_memory_without_hash_only_lookup (cfg : Cfg) (r : Req)
    (hq : ∀ t p, reach cfg r = .params t p → p.query ≠ "") (look : String → Option String) :
    spec cfg env look r = spec cfg env (fun _ => none) r := by
  rw [spec_eq_reach, spec_eq_reach]
  cases hb : reach cfg r with
  | params t p =>
    have hp := hq t p hb
    simp only [ofBuilt]
    unfold spec.specExec apqCore
    simp [hp]
  | none => rfl
  | fail o => rfl
  | nilp t => rfl

/-- **query text, operation name, variables, extensions and headers of one request never leak into another**
(Spec level): when a request is executed, the params the executor works on are the ones built from this request
alone; the only field that may differ is the query text of a hash-only request, and then it is a registered text. -/
theorem no_field_leaks_spec (cfg : Cfg) (look : String → Option String) (r : Req) (t : Transport) (d : D) (p : Params)
    (h : spec cfg env look r = .executed t d p) :
    ∃ p0, reach cfg r = .params t p0 ∧
      p.opName = p0.opName ∧ p.vars = p0.vars ∧ p.exts = p0.exts ∧ p.hdrs = p0.hdrs ∧
      (p.query = p0.query ∨ (p0.query = "" ∧ ∃ hash, look hash = some p.query)) := by
  rw [spec_eq_reach] at h
  cases hb : reach cfg r with
  | none => rw [hb] at h; simp [ofBuilt] at h
  | fail o => rw [hb] at h; simp [ofBuilt] at h
  | nilp t' => rw [hb] at h; simp [ofBuilt] at h
  | params t' p0 =>
    rw [hb] at h
    simp only [ofBuilt, spec.specExec] at h
    cases hc : apqCore env look p0 with
    | error e => rw [hc] at h; simp at h
    | ok res =>
      obtain ⟨p', add⟩ := res
      rw [hc] at h
      simp only at h
      have own := apqCore_own env look p0 p' add hc
      cases hp : env.parse p'.query with
      | error e => rw [hp] at h; simp at h
      | ok d' =>
        rw [hp] at h
        simp only [Outcome.executed.injEq] at h
        obtain ⟨ht, _, hpp⟩ := h
        subst ht; subst hpp
        exact ⟨p0, rfl, own.1, own.2.1, own.2.2.1, own.2.2.2.1, own.2.2.2.2.2⟩

/-- … and therefore in every interleaving of every history. -/
theorem no_field_leaks (evs : List Ev) (id : Nat) (t : Transport) (d : D) (p : Params)
    (hx : (id, Outcome.executed t d p) ∈ (runAll genCfg env State.fresh evs).2) :
    ∃ pre r a q post p0, evs = pre ++ Ev.run id r a q :: post ∧ reach genCfg r = .params t p0 ∧
      p.opName = p0.opName ∧ p.vars = p0.vars ∧ p.exts = p0.exts ∧ p.hdrs = p0.hdrs ∧
      (p.query = p0.query ∨ (p0.query = "" ∧
        ∃ hash, cacheGet (runAll genCfg env State.fresh pre).1.caches.apq a hash = some p.query)) := by
  obtain ⟨pre, id', r, a, q, post, he, hxe⟩ := response_history_independent env evs _ hx
  simp only [Prod.mk.injEq] at hxe
  obtain ⟨hid, ho⟩ := hxe
  subst hid
  obtain ⟨p0, h1, h2⟩ := no_field_leaks_spec env genCfg _ r t d p ho.symm
  exact ⟨pre, r, a, q, post, p0, he, h1, h2⟩

end

/-! ## Non-vacuity and witnesses (concrete interpretation: `sha q = "#" ++ q`, `"bad"` does not parse) -/

def tenv : Env String String where
  sha q := "#" ++ q
  parse q := if q = "bad" then .error "syntax" else .ok q
  apqOf v := if v = "null" then .absent else .ok v

def H : KV := [("Content-Type", "[\"application/json\"]")]
def reuse : Choice := ⟨some 0, true, true, false⟩
/-- sets every decodable field, and registers the text under its hash -/
def rAll : Req := .post (("X-Echo", "[\"one\"]") :: H)
  (.object [("query", .str "query A B"), ("operationName", .str "A"), ("variables", .obj [("s", "1")]),
            ("extensions", .obj [("persistedQuery", "#query A B")])])
def rBare : Req := .post H (.object [("query", .str "query A B")])
def rHashOnly : Req := .post H (.object [("extensions", .obj [("persistedQuery", "#query A B")])])

/-- the hypotheses of the sequential theorem are met by a history that recycles the struct and hits the query cache:
the second request is executed with its own (empty) operation name and variables -/
example : (serveSeq genCfg tenv State.fresh 0 [(rAll, reuse), (rBare, reuse)]).2[1]? =
    some (1, .executed .post "query A B" ⟨"query A B", "", none, none, some H, true⟩) := by decide
example : (serveSeq genCfg tenv State.fresh 0 [(rAll, reuse)]).1.pool = [Params.zero] ∧
    (serveSeq genCfg tenv State.fresh 0 [(rAll, reuse)]).1.caches.qc = [("query A B", "query A B")] := by decide

/-- the permitted memory is real: after the registration a hash-only request is executed with the registered text,
a fresh server answers PersistedQueryNotFound -/
theorem apq_memory_witness :
    (serveSeq genCfg tenv State.fresh 0 [(rAll, reuse), (rHashOnly, reuse)]).2[1]? =
      some (1, .executed .post "query A B"
        ⟨"query A B", "", none, some [("persistedQuery", "#query A B")], some H, true⟩) ∧
    spec genCfg tenv (fun _ => none) rHashOnly =
      .apqError .post .notFound ⟨"", "", none, some [("persistedQuery", "#query A B")], some H, true⟩ := by decide

/-- `no_memory_without_hash_only_lookup` applies to `rBare` -/
example : ∀ t p, reach genCfg rBare = .params t p → p.query ≠ "" := by
  intro t p h
  have e : reach genCfg rBare = .params .post ⟨"query A B", "", none, none, some H, true⟩ := by decide
  rw [e] at h
  cases h
  decide

/-- the source with one reset line deleted -/
def without (f : String) : Cfg := { genCfg with resets := genCfg.resets.filter (·.1 != f) }

/-- **the theorems really rest on the reset list**: delete any one of the four client-settable reset lines and the
model exhibits a two-request history whose second answer differs from a fresh server's (this is also the
history the check replays against the implementation when `reset_covers_all_fields` fails). -/
theorem leak_without_reset_witness :
    (serveSeq (without "OperationName") tenv State.fresh 0 [(rAll, reuse), (rBare, reuse)]).2[1]? ≠
      some (1, spec (without "OperationName") tenv (fun _ => none) rBare) ∧
    (serveSeq (without "Variables") tenv State.fresh 0 [(rAll, reuse), (rBare, reuse)]).2[1]? ≠
      some (1, spec (without "Variables") tenv (fun _ => none) rBare) ∧
    (serveSeq (without "Extensions") tenv State.fresh 0 [(rAll, reuse), (rBare, reuse)]).2[1]? ≠
      some (1, spec (without "Extensions") tenv (fun _ => none) rBare) ∧
    (serveSeq (without "Query") tenv State.fresh 0 [(rAll, reuse), (.post H (.object []), reuse)]).2[1]? ≠
      some (1, spec (without "Query") tenv (fun _ => none) (.post H (.object []))) := by decide

/-- … while `Headers` and `ReadTime` are overwritten by the transport before use: without their reset the pooled
struct is no longer zero, but no answer changes (so that mutation is reported without a failing input) -/
theorem headers_reset_only_hygiene :
    (serveSeq (without "Headers") tenv State.fresh 0 [(rAll, reuse)]).1.pool ≠ [Params.zero] ∧
    (serveSeq (without "Headers") tenv State.fresh 0 [(rAll, reuse), (rBare, reuse)]).2[1]? =
      some (1, spec (without "Headers") tenv (fun _ => none) rBare) := by decide

/-! ## C. The transports' configuration: the long-lived `ResponseHeaders` maps

State = a heap of map objects (the maps the application configured its transports with; several transports may
share one object). A request names the map of the transport that serves it and carries an `Accept` header; `neg`
(`determineResponseContentType`: configured map as it is now × Accept → media type) is uninterpreted. -/

section
open RH

/-- **`mergeHeaders` as it is in the source today stores only into maps it made itself**, and every path returns -/
theorem merge_headers_pure : pureFrom RespHeaders.mergeProg [] = true := by decide

/-- it has two distinct map parameters (base, additional) -/
theorem merge_headers_params :
    RespHeaders.mergeParams.length = 2 ∧ RespHeaders.mergeParams.getD 0 "" ≠ RespHeaders.mergeParams.getD 1 "" := by
  decide

/-- **no statement of package transport stores into a map that can outlive the request** (a map parameter, a
map-typed field of a transport receiver such as `h.ResponseHeaders`, a package-level map, or an alias of one) -/
theorem no_store_into_configured_maps : RespHeaders.sharedMapWrites = [] := by decide

/-- the scan really covered the transports of this check -/
theorem transports_scanned :
    (∀ t ∈ ["GET", "POST", "UrlEncodedForm", "GRAPHQL", "MultipartForm"], t ∈ RespHeaders.transportTypes) ∧
    0 < RespHeaders.functionsScanned := by decide

/-- **serving a request never changes a configured map** (whatever the maps hold, whichever transport serves,
whatever `Accept` says, however `determineResponseContentType` negotiates), and the call does not panic -/
theorem configured_headers_never_change (neg : HMap → String → String) (h : Heap) (cfg : Ref) (accept : String) :
    (serve RespHeaders.mergeProg RespHeaders.mergeParams neg h cfg accept).2 = h ∧
    (serve RespHeaders.mergeProg RespHeaders.mergeParams neg h cfg accept).1.isSome = true :=
  serve_pure _ _ neg merge_headers_pure h cfg accept

/-- **response_headers_history_independent**: for ALL histories of requests over all transports of one server,
the negotiated media type and the header map of every response are those a freshly configured server gives for
that request alone. -/
theorem response_headers_history_independent (neg : HMap → String → String) (h : Heap) (reqs : List (Ref × String)) :
    serveAll RespHeaders.mergeProg RespHeaders.mergeParams neg h reqs =
      reqs.map (fun r => (serve RespHeaders.mergeProg RespHeaders.mergeParams neg h r.1 r.2).1) :=
  serveAll_pure _ _ neg merge_headers_pure h reqs

/-- a concrete `determineResponseContentType`: a configured Content-Type wins, otherwise the Accept text -/
def tneg (m : HMap) (accept : String) : String :=
  match m.find? (fun e => e.1 == "Content-Type") with
  | some e => e.2.headD ""
  | none => accept

/-- non-vacuity / sanity of the translation: with CORS headers configured (one shared map, address 0) two requests
with different `Accept` each get their own media type plus the configured header -/
example : serveAll RespHeaders.mergeProg RespHeaders.mergeParams tneg [[("Access-Control-Allow-Origin", ["*"])]]
      [(some 0, "gr+json"), (some 0, "json"), (none, "json")] =
    [some ("gr+json", [("Content-Type", ["gr+json"]), ("Access-Control-Allow-Origin", ["*"])]),
     some ("json", [("Content-Type", ["json"]), ("Access-Control-Allow-Origin", ["*"])]),
     some ("json", [("Content-Type", ["json"])])] := by decide

/-- a `mergeHeaders` that saves the allocation by filling the missing base entries into `additional` -/
def mergeIntoAdditional : List HStmt :=
  [.retIfEmpty "additionalHeaders" "baseHeaders", .alias "result" "additionalHeaders",
   .copy "baseHeaders" "result" true, .ret "result"]

/-- **the theorem really rests on `merge_headers_pure`**: with `mergeIntoAdditional` the analysis says "not pure",
and the model has a two-request history (first `Accept` negotiates one media type, the second another; CORS
headers configured) whose second answer is the FIRST request's media type - the configured map now holds it. -/
theorem merge_into_configured_map_leaks_witness :
    pureFrom mergeIntoAdditional [] = false ∧
    serveAll mergeIntoAdditional ["baseHeaders", "additionalHeaders"] tneg [[("Access-Control-Allow-Origin", ["*"])]]
        [(some 0, "gr+json"), (some 0, "json")] ≠
      [(some 0, "gr+json"), (some 0, "json")].map (fun r =>
        (serve mergeIntoAdditional ["baseHeaders", "additionalHeaders"] tneg [[("Access-Control-Allow-Origin", ["*"])]] r.1 r.2).1) ∧
    (serve mergeIntoAdditional ["baseHeaders", "additionalHeaders"] tneg [[("Access-Control-Allow-Origin", ["*"])]]
        (some 0) "gr+json").2 ≠ [[("Access-Control-Allow-Origin", ["*"])]] := by decide

end

end GqlgenVerif.C07
