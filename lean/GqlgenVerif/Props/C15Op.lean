import GqlgenVerif.Model.ApqOp
import GqlgenVerif.Props.C15
import GqlgenVerif.Gen.DocFlow
/-!
# C15 — a persisted-query request executes the operation a first-time server selects in the registered text

`Props/C15.lean` says which TEXT a request resolves to. With several operations in a text and an
`operationName` in the request, "executes exactly the text that was sent with the hash" also says which
operation runs: the one a server that has never seen any other request selects in that text - for every
history, every lawful persisted-query cache and every lawful parsed-document cache (`SetQueryCache`; eviction
allowed), whatever operations other clients selected before. The theorems hold because the executor only reads
the documents it caches; `gen_doc_flow_readonly` checks that on the source as regenerated on this run.
-/
namespace GqlgenVerif.Props.C15Op
open GqlgenVerif.Apq GqlgenVerif.ApqOp

variable {σ δ Text Hash Name Body : Type} [DecidableEq Hash] [DecidableEq Name]

/-! ## the parsed-document cache is transparent -/

omit [DecidableEq Hash] [DecidableEq Name] in
/-- `parseQuery` answers what parsing the text afresh answers, and keeps the cache faithful. -/
theorem parseQuery_faithful (parse : Text → Option (Doc Name Body)) (Q : CacheImpl δ (Doc Name Body) Text)
    (qview : δ → Text → Option (Doc Name Body)) (law : Lawful Q qview) (q : δ)
    (hf : Faithful parse qview q) (t : Text) :
    (parseQuery parse Q q t).1 = parse t ∧ Faithful parse qview (parseQuery parse Q q t).2 := by
  have hmono : Faithful parse qview (Q.get q t).2 := fun k d hk => hf k d (law.get_mono q t k d hk)
  unfold parseQuery
  cases hg : Q.get q t with
  | mk r q' =>
    have hq' : q' = (Q.get q t).2 := by rw [hg]
    cases r with
    | some d =>
      have hv := law.get_val q t d (by rw [hg])
      exact ⟨(hf t d hv).symm, hq' ▸ hmono⟩
    | none =>
      cases hp : parse t with
      | none => exact ⟨rfl, hq' ▸ hmono⟩
      | some d =>
        refine ⟨rfl, ?_⟩
        intro k d' hk
        rcases law.add_law q' t d k d' hk with ⟨rfl, rfl⟩ | ⟨_, hold⟩
        · exact hp
        · exact (hq' ▸ hmono) k d' hold

-- non-vacuity: the empty map cache is faithful, and stays so while it fills
example : Faithful (fun t : Nat => if t = 7 then some [(1, 10), (2, 20)] else none) mapView
    (mapEmpty : MapState (Doc Nat Nat) Nat) := by
  intro t d h; simp [mapView, mapEmpty] at h

/-- The executor behind the extension: Exec is invoked on the first-time selection in the text the extension
answered with (nothing for an error answer), and the document cache stays faithful. -/
theorem execOf_fresh (parse : Text → Option (Doc Name Body))
    (anon : Name) (Q : CacheImpl δ (Doc Name Body) Text) (qview : δ → Text → Option (Doc Name Body))
    (law : Lawful Q qview) (q : δ) (hf : Faithful parse qview q) (out : Outcome Text) (n : Name) :
    (execOf parse anon Q q out n).1 = expectedExec (selectOf parse anon) out n ∧
    Faithful parse qview (execOf parse anon Q q out n).2 := by
  cases out with
  | run qq =>
    cases qq with
    | none => exact ⟨rfl, hf⟩
    | some t =>
      have := parseQuery_faithful parse Q qview law q hf t
      simp only [execOf, expectedExec, selectOf]
      cases hp : parseQuery parse Q q t with
      | mk d q' =>
        rw [hp] at this
        cases d with
        | none =>
          have h1 : parse t = none := this.1.symm
          simp [h1, this.2]
        | some d =>
          have h1 : parse t = some d := this.1.symm
          simp [h1, this.2]
  | invalidExt => exact ⟨rfl, hf⟩
  | badVersion => exact ⟨rfl, hf⟩
  | notFound => exact ⟨rfl, hf⟩
  | mismatch => exact ⟨rfl, hf⟩

/-- One request. -/
theorem stepOp_exec (H : Text → Hash) (C : CacheImpl σ Text Hash) (parse : Text → Option (Doc Name Body))
    (anon : Name) (Q : CacheImpl δ (Doc Name Body) Text) (qview : δ → Text → Option (Doc Name Body))
    (law : Lawful Q qview) (s : σ) (q : δ) (hf : Faithful parse qview q) (r : OReq Text Hash Name) :
    (stepOp H C parse anon Q s q r).apq = step H C s r.req ∧
    (stepOp H C parse anon Q s q r).exec =
      expectedExec (selectOf parse anon) (step H C s r.req).out r.opName ∧
    Faithful parse qview (stepOp H C parse anon Q s q r).docs :=
  ⟨rfl, (execOf_fresh parse anon Q qview law q hf _ _).1, (execOf_fresh parse anon Q qview law q hf _ _).2⟩

/-- the extension's part of a history with operation names is the history of `Props/C15.lean` -/
theorem runAllOp_apq (H : Text → Hash) (C : CacheImpl σ Text Hash) (parse : Text → Option (Doc Name Body))
    (anon : Name) (Q : CacheImpl δ (Doc Name Body) Text) (qview : δ → Text → Option (Doc Name Body))
    (law : Lawful Q qview) (rs : List (OReq Text Hash Name)) :
    ∀ (s : σ) (q : δ), Faithful parse qview q →
      (runAllOp H C parse anon Q s q rs).map (·.apq) = (runAll H C s (rs.map (·.req))).2 := by
  induction rs with
  | nil => intro s q _; simp [runAllOp, runAll_nil]
  | cons r rs ih =>
    intro s q hf
    have h := stepOp_exec H C parse anon Q qview law s q hf r
    simp only [runAllOp, List.map_cons, runAll_cons]
    rw [ih _ _ h.2.2, h.1]

/-- **Every request of every history** executes the first-time selection in the text the extension answered
with: position by position, `exec = expectedExec (selectOf parse anon) out opName`. -/
theorem runAllOp_exec (H : Text → Hash) (C : CacheImpl σ Text Hash) (parse : Text → Option (Doc Name Body))
    (anon : Name) (Q : CacheImpl δ (Doc Name Body) Text) (qview : δ → Text → Option (Doc Name Body))
    (law : Lawful Q qview) (rs : List (OReq Text Hash Name)) :
    ∀ (s : σ) (q : δ), Faithful parse qview q → ∀ (i : Nat) (x : OStepRes σ δ Text Hash Name Body)
      (r : OReq Text Hash Name), (runAllOp H C parse anon Q s q rs)[i]? = some x → rs[i]? = some r →
      x.exec = expectedExec (selectOf parse anon) x.apq.out r.opName := by
  induction rs with
  | nil => intro s q _ i x r hx; simp [runAllOp] at hx
  | cons r0 rs ih =>
    intro s q hf i x r hx hr
    have h := stepOp_exec H C parse anon Q qview law s q hf r0
    cases i with
    | zero =>
      simp only [runAllOp, List.getElem?_cons_zero, Option.some.injEq] at hx hr
      subst hx; subst hr
      rw [h.2.1, h.1]
    | succ i =>
      simp only [runAllOp, List.getElem?_cons_succ] at hx hr
      exact ih _ _ h.2.2 i x r hx hr

/-- **What a request executes does not depend on the history.** Two requests anywhere in any two histories
(other clients having selected whatever operations before) that the extension answers alike and that carry
the same `operationName` execute the same thing. -/
theorem selection_independent_of_history (H : Text → Hash) (C : CacheImpl σ Text Hash)
    (parse : Text → Option (Doc Name Body)) (anon : Name) (Q : CacheImpl δ (Doc Name Body) Text)
    (qview : δ → Text → Option (Doc Name Body)) (law : Lawful Q qview)
    (s s' : σ) (q q' : δ) (hf : Faithful parse qview q) (hf' : Faithful parse qview q')
    (rs rs' : List (OReq Text Hash Name)) (i j : Nat) (x y : OStepRes σ δ Text Hash Name Body)
    (r r' : OReq Text Hash Name)
    (hx : (runAllOp H C parse anon Q s q rs)[i]? = some x) (hr : rs[i]? = some r)
    (hy : (runAllOp H C parse anon Q s' q' rs')[j]? = some y) (hr' : rs'[j]? = some r')
    (hout : x.apq.out = y.apq.out) (hn : r.opName = r'.opName) : x.exec = y.exec := by
  rw [runAllOp_exec H C parse anon Q qview law rs s q hf i x r hx hr,
      runAllOp_exec H C parse anon Q qview law rs' s' q' hf' j y r' hy hr', hout, hn]

/-- **Hash-only requests with an operation name.** In any history `pre ++ r :: post` where `r` carries only
the hash `h` and the operation name `n`: `r` is answered `PersistedQueryNotFound` and executes nothing, or it
resolves to a text `t` with `H t = h` that a request of `pre` sent together with `h`, and what runs is exactly
what a server that sees `t` for the first time runs for `n` (possibly nothing: `t` is rejected or has no such
operation) - whatever the requests of `pre` selected. -/
theorem hash_only_runs_registered_operation (H : Text → Hash) (C : CacheImpl σ Text Hash)
    (view : σ → Hash → Option Text) (lawC : Lawful C view) (s0 : σ) (hempty : ∀ k, view s0 k = none)
    (parse : Text → Option (Doc Name Body)) (anon : Name) (Q : CacheImpl δ (Doc Name Body) Text)
    (qview : δ → Text → Option (Doc Name Body)) (lawQ : Lawful Q qview) (q0 : δ)
    (hf : Faithful parse qview q0)
    (pre post : List (OReq Text Hash Name)) (h : Hash) (n : Name) :
    ∃ x, (runAllOp H C parse anon Q s0 q0 (pre ++ ⟨⟨none, .decoded 1 h⟩, n⟩ :: post))[pre.length]? = some x ∧
      ((x.apq.out = .notFound ∧ x.exec = none) ∨
       ∃ t, x.apq.out = .run (some t) ∧ H t = h ∧ (t, h) ∈ sentPairs (pre.map (·.req)) ∧
            x.exec = (selectOf parse anon t n).map (fun o => (t, o))) := by
  let rs := pre ++ (⟨⟨none, .decoded 1 h⟩, n⟩ : OReq Text Hash Name) :: post
  have hlen : (runAllOp H C parse anon Q s0 q0 rs).length = rs.length := by
    have := congrArg List.length (runAllOp_apq H C parse anon Q qview lawQ rs s0 q0 hf)
    have h2 : (runAll H C s0 (rs.map (·.req))).2.length = (outcomes H C s0 (rs.map (·.req))).length := by
      simp [outcomes]
    simp only [List.length_map] at this
    rw [this, h2, outcomes_length, List.length_map]
  have hi : pre.length < (runAllOp H C parse anon Q s0 q0 rs).length := by
    rw [hlen]; simp [rs]
  have hr : rs[pre.length]? = some ⟨⟨none, .decoded 1 h⟩, n⟩ := by
    simp [rs]
  refine ⟨(runAllOp H C parse anon Q s0 q0 rs)[pre.length], List.getElem?_eq_getElem hi, ?_⟩
  have hexec := runAllOp_exec H C parse anon Q qview lawQ rs s0 q0 hf pre.length _ _
    (List.getElem?_eq_getElem hi) hr
  -- the extension's answer at that position
  have hout : (outcomes H C s0 (rs.map (·.req)))[pre.length]? =
      some ((runAllOp H C parse anon Q s0 q0 rs)[pre.length]).apq.out := by
    have := runAllOp_apq H C parse anon Q qview lawQ rs s0 q0 hf
    simp only [outcomes, ← this, List.map_map, List.getElem?_map, List.getElem?_eq_getElem hi,
      Option.map_some, Function.comp]
  obtain ⟨o, ho, hcases⟩ := Props.C15.hash_only_executes_registered_or_not_found H C view lawC s0 hempty
    (fun _ => true) (pre.map (·.req)) (post.map (·.req)) h
  have hmap : rs.map (·.req) = pre.map (·.req) ++ ⟨none, .decoded 1 h⟩ :: post.map (·.req) := by
    simp [rs]
  rw [List.length_map] at ho
  rw [hmap, ho] at hout
  have ho' : ((runAllOp H C parse anon Q s0 q0 rs)[pre.length]).apq.out = o := (Option.some.inj hout).symm
  rcases hcases with ⟨hnf, _⟩ | ⟨t, ht, hH, hsent, _⟩
  · left
    refine ⟨by rw [ho', hnf], ?_⟩
    rw [hexec, ho', hnf]; rfl
  · right
    refine ⟨t, by rw [ho', ht], hH, hsent, ?_⟩
    rw [hexec, ho', ht]; rfl

-- non-vacuity: a text with operations 1 2 3; B (= 2) selected first, then A (= 1), hash only: A runs
example : (runAllOp (fun t : Nat => t % 10) mapCache
      (fun t : Nat => if t = 13 then some [(1, 100), (2, 200), (3, 300)] else none) 0 mapCache
      mapEmpty mapEmpty
      [⟨⟨some 13, .decoded 1 3⟩, 2⟩, ⟨⟨none, .decoded 1 3⟩, 1⟩, ⟨⟨none, .decoded 1 3⟩, 0⟩]).map (·.exec)
    = [some (13, (2, 200)), some (13, (1, 100)), none] := by decide

/-! ## the model passes the Spec the check evaluates on implementation traces -/

variable [DecidableEq Text]

omit [DecidableEq Name] in
/-- `Apq.specReq` only ever asks that NOTHING ELSE than the resolved text is executed: an observation that
executed nothing instead passes as well -/
theorem specReq_weaken (H : Text → Hash) (sent : List (Text × Hash)) (r : Req Text Hash) (out : Outcome Text)
    (e e' : Option Text) (ops : List (Op Text Hash)) (h : specReq H sent r ⟨out, e, ops⟩ = true)
    (he : e' = none ∨ e' = e) : specReq H sent r ⟨out, e', ops⟩ = true := by
  rcases he with rfl | rfl
  · obtain ⟨q, ext⟩ := r
    cases ext with
    | absent => simpa [specReq] using h
    | malformed => simpa [specReq] using h
    | decoded v hh =>
      by_cases hv : v = 1
      · subst hv
        cases q with
        | none =>
          cases out with
          | run qq => cases qq <;> simp_all [specReq]
          | _ => simp_all [specReq]
        | some t =>
          by_cases hm : H t = hh
          · simp only [specReq, hm] at h ⊢; simpa using h
          · simp_all [specReq]
      · simp_all [specReq]
  · exact h

omit [DecidableEq Name] in
theorem specTrace_weaken {X : Type} (H : Text → Hash) (f g : X → Obs Text Hash) (xs : List X)
    (hfg : ∀ x ∈ xs, (g x).out = (f x).out ∧ (g x).ops = (f x).ops ∧ ((g x).exec = none ∨ (g x).exec = (f x).exec)) :
    ∀ (sent : List (Text × Hash)) (rs : List (Req Text Hash)),
      specTrace H sent rs (xs.map f) = true → specTrace H sent rs (xs.map g) = true := by
  induction xs with
  | nil => intro sent rs h; simpa using h
  | cons x xs ih =>
    intro sent rs h
    cases rs with
    | nil => simp [specTrace] at h
    | cons r rs =>
      simp only [List.map_cons, specTrace, Bool.and_eq_true] at h ⊢
      have hx := hfg x (by simp)
      refine ⟨?_, ih (fun y hy => hfg y (by simp [hy])) _ _ h.2⟩
      have := specReq_weaken H sent r (f x).out (f x).exec (g x).exec (f x).ops h.1 hx.2.2
      rw [← hx.1, ← hx.2.1] at this
      exact this

variable [DecidableEq Body]

/-- The trace of the model (outcome, executed (text, operation), cache calls of every request; final contents)
passes `specOkOp` for every history, every lawful persisted-query cache and every lawful document cache. -/
theorem model_satisfies_spec_op (H : Text → Hash) (C : CacheImpl σ Text Hash)
    (view : σ → Hash → Option Text) (lawC : Lawful C view) (s0 : σ) (hempty : ∀ k, view s0 k = none)
    (parse : Text → Option (Doc Name Body)) (anon : Name) (Q : CacheImpl δ (Doc Name Body) Text)
    (qview : δ → Text → Option (Doc Name Body)) (lawQ : Lawful Q qview) (q0 : δ)
    (hf : Faithful parse qview q0)
    (rs : List (OReq Text Hash Name)) (contents : List (Hash × Text))
    (hc : ∀ p, p ∈ contents → view (finalState H C s0 (rs.map (·.req))) p.1 = some p.2) :
    specOkOp (selectOf parse anon) H rs
      ((runAllOp H C parse anon Q s0 q0 rs).map (fun x => ⟨x.apq.out, x.exec, x.apq.ops⟩)) contents = true := by
  -- every result executes nothing, or (a selection in) the text the extension answered with
  have hmem : ∀ (rs : List (OReq Text Hash Name)) (s : σ) (q : δ), Faithful parse qview q →
      ∀ x ∈ runAllOp H C parse anon Q s q rs,
        x.exec.map (·.1) = none ∨ x.exec.map (·.1) = executed (fun _ => true) x.apq.out := by
    intro rs
    induction rs with
    | nil => intro s q _ x hx; simp [runAllOp] at hx
    | cons r rs ih =>
      intro s q hq x hx
      have h := stepOp_exec H C parse anon Q qview lawQ s q hq r
      simp only [runAllOp, List.mem_cons] at hx
      rcases hx with rfl | hx
      · rw [h.2.1]
        have hap : (stepOp H C parse anon Q s q r).apq.out = (step H C s r.req).out := rfl
        rw [hap]
        generalize (step H C s r.req).out = o
        cases o with
        | run qq =>
          cases qq with
          | none => simp [expectedExec]
          | some t => cases hs : selectOf parse anon t r.opName <;> simp [expectedExec, executed, hs]
        | _ => simp [expectedExec]
      · exact ih _ _ h.2.2 x hx
  have hexe : ∀ (rs : List (OReq Text Hash Name)) (s : σ) (q : δ), Faithful parse qview q →
      execTrace (selectOf parse anon) rs
        ((runAllOp H C parse anon Q s q rs).map (fun x => ⟨x.apq.out, x.exec, x.apq.ops⟩)) = true := by
    intro rs
    induction rs with
    | nil => intro s q _; simp [runAllOp, execTrace]
    | cons r rs ih =>
      intro s q hq
      have h := stepOp_exec H C parse anon Q qview lawQ s q hq r
      simp only [runAllOp, List.map_cons, execTrace, Bool.and_eq_true]
      refine ⟨?_, ih _ _ h.2.2⟩
      simp only [execReq, Bool.or_eq_true, decide_eq_true_eq]
      right
      rw [h.2.1, h.1]
  simp only [specOkOp, Bool.and_eq_true]
  refine ⟨?_, hexe rs s0 q0 hf⟩
  have base := Props.C15.model_satisfies_spec H C view lawC s0 hempty (fun _ => true) (rs.map (·.req)) contents hc
  rw [← runAllOp_apq H C parse anon Q qview lawQ rs s0 q0 hf, List.map_map] at base
  simp only [specOk, Bool.and_eq_true] at base ⊢
  refine ⟨?_, base.2⟩
  have b1 : specTrace H [] (rs.map (·.req)) ((runAllOp H C parse anon Q s0 q0 rs).map
      (fun x => (⟨x.apq.out, executed (fun _ => true) x.apq.out, x.apq.ops⟩ : Obs Text Hash))) = true := by
    exact base.1
  have := specTrace_weaken H
    (fun x : OStepRes σ δ Text Hash Name Body => (⟨x.apq.out, executed (fun _ => true) x.apq.out, x.apq.ops⟩ : Obs Text Hash))
    (fun x => (⟨x.apq.out, x.exec, x.apq.ops⟩ : OObs Text Hash Name Body).base)
    (runAllOp H C parse anon Q s0 q0 rs) (fun x hx => ⟨rfl, rfl, hmem rs s0 q0 hf x hx⟩) _ _ b1
  rw [List.map_map]
  exact this

-- non-vacuity of the Spec: it rejects a trace in which a hash-only request for operation 1 of the registered
-- text executes nothing although a first-time server runs it, and accepts the one that runs it
example : specOkOp (selectOf (fun t : Nat => if t = 13 then some [(1, 100), (2, 200)] else none) 0)
    (fun t : Nat => t % 10) [⟨⟨some 13, .decoded 1 3⟩, 2⟩, ⟨⟨none, .decoded 1 3⟩, 1⟩]
    [⟨.run (some 13), some (13, (2, 200)), [.add 3 13]⟩, ⟨.run (some 13), none, [.get 3 (some 13)]⟩] [(3, 13)]
    = false := by decide
example : specOkOp (selectOf (fun t : Nat => if t = 13 then some [(1, 100), (2, 200)] else none) 0)
    (fun t : Nat => t % 10) [⟨⟨some 13, .decoded 1 3⟩, 2⟩, ⟨⟨none, .decoded 1 3⟩, 1⟩]
    [⟨.run (some 13), some (13, (2, 200)), [.add 3 13]⟩, ⟨.run (some 13), some (13, (1, 100)), [.get 3 (some 13)]⟩] [(3, 13)]
    = true := by decide

/-! ## why the executor must only READ cached documents -/

/-- A document cache that holds, for the text `[A B C]`, the list `[C B C]` (what filtering the operation list
of the cached document in place leaves behind after operation C was selected) is not faithful, and a hash-only
request for operation A of the registered text then executes nothing although a first-time server runs A. -/
theorem unfaithful_document_cache_witness :
    let parse : Nat → Option (Doc Nat Nat) := fun t => if t = 13 then some [(1, 100), (2, 200), (3, 300)] else none
    let q : MapState (Doc Nat Nat) Nat := fun t => if t = 13 then some [(3, 300), (2, 200), (3, 300)] else none
    ¬ Faithful parse mapView q ∧
    (runAllOp (fun t : Nat => t % 10) mapCache parse 0 mapCache mapEmpty q
        [⟨⟨some 13, .decoded 1 3⟩, 3⟩, ⟨⟨none, .decoded 1 3⟩, 1⟩]).map (·.exec) = [some (13, (3, 300)), none] ∧
    selectOf parse 0 13 1 = some (1, 100) := by
  refine ⟨?_, by decide, by decide⟩
  intro h
  have := h 13 [(3, 300), (2, 200), (3, 300)] (by simp [mapView])
  simp at this

/-! ## the regenerated flow of the parsed document through package executor -/

/-- On the source as regenerated on this run: every event in which package executor touches a parsed document
is read-only (`ApqOp.DocEv.readOnly`), the document is stored into the operation context once - straight from
`parseQuery` -, selected from once (`ForName`), and enters the cache once. -/
theorem gen_doc_flow_readonly : docFlowOk GqlgenVerif.Gen.DocFlow.events = true := by decide

end GqlgenVerif.Props.C15Op
