import GqlgenVerif.Model.ExecLayout
/-!
# C17 — both exec layouts declare the same executor, and ResolverRoot lists every resolver the executor calls
(dimension "input objects with field resolvers")

The top-level declarations of the generated executor exist twice: in the `single-file` blocks of
`codegen/generated!.gotpl` and in `codegen/root_.gotpl` (`follow-schema`). A feature added to one copy only - e.g. the
`.Inputs` loop of `type ResolverRoot interface`, needed as soon as an INPUT object has a field resolver
(`@goField(forceResolver: true)`) - leaves the other layout with an executor that does not compile
(`ec.resolvers.Filter undefined`). The theorems are stated over `Gen/ExecLayoutTwins.lean`, regenerated from the
templates on every run; they stop closing when the copies drift apart, when ResolverRoot stops ranging over a
collection whose template calls `ec.resolvers`, or when an interface is declared under another name than ResolverRoot
uses.
-/
namespace GqlgenVerif.Props.C17Root
open GqlgenVerif GqlgenVerif.ExecLayout GqlgenVerif.Gen

set_option maxRecDepth 100000

/-- **follow_root_is_single_file_twin**: `root_.gotpl` (after its import reservations) is, token for token, the two
`single-file` blocks of `generated!.gotpl` with the built-in directive block between them -/
theorem follow_root_is_single_file_twin :
    ExecLayoutTwins.followRoot = twin ExecLayoutTwins.singleFileBlocks ExecLayoutTwins.builtinDirectives ∧
    ExecLayoutTwins.singleFileBlocks.length = 2 := by decide

/-- `type ResolverRoot interface` ranges over the same collections, under the same guards, with the same entries in
both layouts -/
theorem resolver_root_same_in_both_layouts :
    entriesOf "follow-schema" = entriesOf "single-file" ∧ entriesOf "single-file" ≠ [] := by decide

/-- the templates that call through `ec.resolvers` are the per-field template of objects and the unmarshal template of
input objects -/
theorem resolver_callers_expected :
    ExecLayoutTwins.resolverCallers = [("field.gotpl", ".Objects"), ("input.gotpl", ".Inputs")] := by decide

/-- every collection whose template calls `ec.resolvers` is ranged over by ResolverRoot, guarded by "has a resolver
field", in each layout -/
theorem resolver_root_ranges_cover_callers :
    ∀ l ∈ layouts, ∀ c ∈ ExecLayoutTwins.resolverCallers,
      ∃ e ∈ entriesOf l, e.1 = c.2 ∧ e.2.1 = "$object.HasResolvers" := by decide

/-- **resolver_root_entries_name_declared_interfaces**: every ResolverRoot entry, in each layout, is the method of a
resolver interface that generated!.gotpl declares for the same collection under the same guard - with the SAME name
expression (`{{ucFirst $object.Name}}Resolver` on both sides) -/
theorem resolver_root_entries_name_declared_interfaces :
    ∀ l ∈ layouts, ∀ e ∈ entriesOf l,
      ∃ i ∈ ExecLayoutTwins.resolverInterfaces, i.1 = e.1 ∧ i.2.1 = e.2.1 ∧ methodEntry i.2.2 = e.2.2 ∧ e.2.2 ≠ [] := by
  decide

theorem mem_declared {l : String} {s : Sch} {n : String} :
    n ∈ declared l s ↔ ∃ e ∈ entriesOf l, ∃ t ∈ coll s e.1, guardHolds e.2.1 t = true ∧ t.name = n := by
  simp [declared, List.mem_flatMap, List.mem_map, List.mem_filter, and_assoc]

theorem mem_called {s : Sch} {n : String} :
    n ∈ called s ↔ ∃ c ∈ ExecLayoutTwins.resolverCallers, ∃ t ∈ coll s c.2, t.hasResolvers = true ∧ t.name = n := by
  simp [called, List.mem_flatMap, List.mem_map, List.mem_filter, and_assoc]

/-- **resolver_calls_declared**: for EVERY schema (any objects and input objects, with or without resolver fields) and
each exec layout, every method the generated code calls through `ec.resolvers` is declared by `ResolverRoot` -/
theorem resolver_calls_declared (l : String) (hl : l ∈ layouts) (s : Sch) :
    ∀ n ∈ called s, n ∈ declared l s := by
  intro n hn
  rw [mem_called] at hn
  obtain ⟨c, hc, t, ht, hr, hname⟩ := hn
  obtain ⟨e, he, h1, h2⟩ := resolver_root_ranges_cover_callers l hl c hc
  rw [mem_declared]
  exact ⟨e, he, t, by rw [h1]; exact ht, by simp [guardHolds, h2, hr], hname⟩

/-! ## non-vacuity -/

/-- an input object with a field resolver is called and declared under both layouts -/
example : called ⟨[⟨"Query", true⟩], [⟨"Filter", true⟩, ⟨"Plain", false⟩]⟩ = ["Query", "Filter"] ∧
    declared "follow-schema" ⟨[⟨"Query", true⟩], [⟨"Filter", true⟩, ⟨"Plain", false⟩]⟩ = ["Query", "Filter"] ∧
    declared "single-file" ⟨[⟨"Query", true⟩], [⟨"Filter", true⟩, ⟨"Plain", false⟩]⟩ = ["Query", "Filter"] := by decide

end GqlgenVerif.Props.C17Root
