/-
C17, dimension "the state of the project directory when generation starts" (added after the miss seeded/C17-change11).

C17 says generation succeeds for every valid schema and configuration - also when it is run AGAIN in a directory that
holds the output of an earlier generation (of the same schema, of an edited schema, of another configuration). The
order of `api.Generate`'s top-level statements is REGENERATED from api/generate.go on every run
(`Gen/GenerateSteps.lean`, go/extract/generatesteps.go, shared with C18); `Model/Regenerate.lean` (C18's tree model:
models file, autobind, modelgen, binder) is imported unchanged. C18 reads the model for idempotence; the theorems here
read it for SUCCESS and for WHAT is generated, for every directory state `t` and every project `p` - the schema of the
run is `p.types`, the stale models file `t.modelsFile` is arbitrary (it need not come from `p`).
-/
import GqlgenVerif.Model.Regenerate
import GqlgenVerif.Gen.GenerateSteps

namespace GqlgenVerif.Props.C17Regen
open GqlgenVerif.Regenerate GqlgenVerif.Gen.GenerateSteps

/-- position of the first occurrence of a step -/
def firstAt (s : Step) (l : List Step) : Nat := l.findIdx (· == s)

/-- **previous_output_removed_before_any_package_is_read** (decided on the regenerated list): both unlinks come before
the first step that reads Go packages (`cfg.Init()`: autobind, and `codegen.BuildData`: the binder), and modelgen
(`mutateConfig`) writes the new models file between the two readers. -/
theorem previous_output_removed_before_any_package_is_read :
    steps.contains .unlinkModel = true ∧ steps.contains .unlinkExec = true
    ∧ firstAt .unlinkModel steps < firstAt .init steps ∧ firstAt .unlinkExec steps < firstAt .init steps
    ∧ firstAt .init steps < firstAt .mutateConfig steps ∧ firstAt .mutateConfig steps < firstAt .buildData steps
    ∧ firstAt .buildData steps < firstAt .generateCode steps := by decide

/-- every statement of `api.Generate` is one the translation table knows (none is `.other`) -/
theorem generate_steps_recognised : steps.all (fun s => !s.isOther) = true := by decide

/-- the run does not look at the directory state: same tree, same verdict as in an empty directory -/
theorem run_ignores_directory_state (p : Project) (t : Tree) : run steps p t = run steps p clean := by
  simp [run, steps, start, step, clean, List.foldl]

/-- what modelgen has to emit: the schema types without a hand-written Go type -/
def toGenerate (p : Project) : List Name := p.types.filter (fun x => !p.hand.contains x)

theorem clean_run (p : Project) :
    run steps p clean = (⟨if (toGenerate p).isEmpty then none else some (toGenerate p), true⟩, true) := by
  have hf : (p.types.filter fun t => !(p.types.filter (p.hand.contains ·)).contains t) = toGenerate p := by
    unfold toGenerate
    apply List.filter_congr
    intro x hx
    simp [List.contains_iff_mem, List.mem_filter, hx]
  have hP : ∀ x, x ∈ p.types → x ∈ p.hand ∨ x ∈ toGenerate p := by
    intro x hx
    by_cases hh : x ∈ p.hand
    · exact Or.inl hh
    · refine Or.inr ?_
      simp [toGenerate, List.mem_filter, hx, hh]
  have hP0 : (toGenerate p).isEmpty = true → ∀ x, x ∈ p.types → x ∈ p.hand := by
    intro he x hx
    rcases hP x hx with h | h
    · exact h
    · rw [List.isEmpty_iff.mp he] at h
      cases h
  simp only [run, steps, start, step, clean, List.foldl, visible, Bool.true_and, if_true, Option.getD_none, List.append_nil]
  cases hab : p.autobind
  · simp only [Bool.false_eq_true, if_false, hf]
    by_cases he : (toGenerate p).isEmpty = true
    · simp [he]
      rw [if_pos (hP0 he)]
      simpa using hP0 he
    · simp [he]
      rw [if_pos hP]
      simpa using hP
  · simp only [if_true, hf]
    by_cases he : (toGenerate p).isEmpty = true
    · simp [he]
      rw [if_pos (hP0 he)]
      simpa using hP0 he
    · simp [he]
      rw [if_pos hP]
      simpa using hP

/-- **generation_succeeds_in_every_directory_state**: for every project (schema types, hand-written models, the model
package autobound or not) and EVERY directory state (no output / any stale models file / any stale executor), a run of
`api.Generate` in the regenerated statement order finds a Go type for every schema type. -/
theorem generation_succeeds_in_every_directory_state (p : Project) (t : Tree) : (run steps p t).2 = true := by
  rw [run_ignores_directory_state, clean_run]

/-- **generated_models_follow_the_schema_of_this_run**: the models file the run leaves declares exactly the schema types
of THIS run that have no hand-written Go type - whatever the stale models file declared (not frozen at an earlier
schema; a hand-written model is never generated again), and the executor is written. -/
theorem generated_models_follow_the_schema_of_this_run (p : Project) (t : Tree) :
    (run steps p t).1 = ⟨if (toGenerate p).isEmpty then none else some (toGenerate p), true⟩ := by
  rw [run_ignores_directory_state, clean_run]

/-- non-vacuity / the seeded shape: `gqlgen init` layout (model package autobound), the directory holds the models of
the schema BEFORE a type was added -/
example :
    run steps ⟨["Todo", "User", "RegenAdded"], [], true⟩ ⟨some ["Todo", "User"], true⟩
      = (⟨some ["Todo", "User", "RegenAdded"], true⟩, true) := by decide

/-- **stale_models_break_the_second_generation_witness**: with the unlinks below `cfg.Init()` (`unlinkAfterInit`) the
same second generation fails - autobind binds `Todo` and `User` to the stale file, the file is removed, modelgen emits
only `RegenAdded`, the binder cannot find `Todo` - while the first generation (empty directory) succeeds: the order
decided by `previous_output_removed_before_any_package_is_read` is necessary. -/
theorem stale_models_break_the_second_generation_witness :
    (run unlinkAfterInit ⟨["Todo", "User", "RegenAdded"], [], true⟩ clean).2 = true
    ∧ (run unlinkAfterInit ⟨["Todo", "User", "RegenAdded"], [], true⟩ ⟨some ["Todo", "User"], true⟩).2 = false
    ∧ (run unlinkAfterInit ⟨["Todo", "User"], [], false⟩ ⟨some ["Todo", "User"], true⟩).2 = true := by decide

end GqlgenVerif.Props.C17Regen
