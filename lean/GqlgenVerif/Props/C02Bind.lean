import GqlgenVerif.Model.CoerceBind
import GqlgenVerif.Lemmas.Coerce
/-! # C02 — a field bound to a method of a hand-written model receives its arguments BY NAME

Stated over `Gen/BindArgs.lean`, regenerated from codegen/args.go `bindArgs` and codegen/field.go `CallArgs` on every
run: when the source hands the arguments over differently (by position, under another key, matching names otherwise)
these theorems stop closing.

* `findArg_first_named`, `bound_count`, `bindArgs_by_name` — `bindArgs` = for each of the first n parameters, the first
  argument (schema order) whose name equals the parameter's under `strings.EqualFold`; n = all parameters, or the number
  of arguments for a variadic method with more parameters than arguments.
* `bindArgs_sound` — every bound argument is an argument of the field, named like its parameter; as many as parameters.
* `callKey_is_name`, `handOver_id` — the generated call reads `fc.Args` under the argument's own name: with distinct
  names the i-th parameter receives the i-th unmarshalled value.
* `method_receives_named_argument` — end to end on the model: the i-th parameter of the method receives exactly what
  `field_*_args` computes for the single argument the parameter is named after.
* `runOpB_resolvers`, `Spec.runOpB_resolvers` — fields bound to resolver methods: nothing changes (`runOp`).

Partial: `methodStep = Spec.methodStep Devs.all` (full statement: for every schema, configuration, operation and
method signature, the values received per parameter are the spec-coerced values of the equally named arguments and
an uncoercible argument that HAS a parameter is reported at its path) is not proved; it is evaluated on every generated
case (model-vs-spec). An argument the method has no parameter for is never unmarshalled by the generated code; the
specification coerces it (see notes/C02.md). -/
namespace GqlgenVerif.Coerce
open Gen.BindArgs

/-! ## lemmas -/

theorem mapO_get {α β : Type} {f : α → Option β} {xs : List α} {ys : List β} (h : mapO f xs = some ys) :
    ys.length = xs.length ∧ ∀ i (hx : i < xs.length) (hy : i < ys.length), f xs[i] = some ys[i] := by
  induction xs generalizing ys with
  | nil => simp [mapO] at h; subst h; simp
  | cons a r ih =>
    simp only [mapO] at h
    split at h
    · rename_i b bs hb hbs
      cases h
      obtain ⟨hl, hg⟩ := ih hbs
      refine ⟨by simp [hl], ?_⟩
      intro i hx hy
      cases i with
      | zero => simpa using hb
      | succ k => simpa using hg k (by simpa using hx) (by simpa using hy)
    · cases h

theorem mapO_of_forall {α β : Type} {f : α → Option β} {xs : List α} {ys : List β} (hl : ys.length = xs.length)
    (h : ∀ i (hx : i < xs.length) (hy : i < ys.length), f xs[i] = some ys[i]) : mapO f xs = some ys := by
  induction xs generalizing ys with
  | nil => cases ys with
    | nil => rfl
    | cons _ _ => simp at hl
  | cons a r ih =>
    cases ys with
    | nil => simp at hl
    | cons b bs =>
      have h0 := h 0 (by simp) (by simp)
      have hr : mapO f r = some bs := ih (by simpa using hl) (fun i hx hy => by
        have := h (i + 1) (by simpa using hx) (by simpa using hy)
        simpa only [List.getElem_cons_succ] using this)
      simp only [List.getElem_cons_zero] at h0
      simp [mapO, h0, hr]

theorem mapE_get {ε α β : Type} {f : α → Except ε β} {xs : List α} {ys : List β} (h : mapE f xs = .ok ys) :
    ys.length = xs.length ∧ ∀ i (hx : i < xs.length) (hy : i < ys.length), f xs[i] = .ok ys[i] := by
  induction xs generalizing ys with
  | nil => simp [mapE] at h; subst h; simp
  | cons a r ih =>
    simp only [mapE] at h
    split at h
    · cases h
    · rename_i b hb
      split at h
      · cases h
      · rename_i bs hbs
        cases h
        obtain ⟨hl, hg⟩ := ih hbs
        refine ⟨by simp [hl], ?_⟩
        intro i hx hy
        cases i with
        | zero => simpa using hb
        | succ k => simpa using hg k (by simpa using hx) (by simpa using hy)

/-! ## `bindArgs` binds by name -/

/-- the inner loop of `bindArgs` yields the FIRST argument whose name equals the parameter's (EqualFold) — the matched
    one, not the one at the parameter's position -/
theorem findArg_first_named {α : Type} (name : α → String) (all : List α) (j : Nat) (param : String) (l : List α) :
    findArg name equalFold all j param l = (l.find? fun a => equalFold (name a) param).map some := by
  induction l with
  | nil => rfl
  | cons a r ih =>
    simp only [findArg, List.find?]
    split <;> simp_all

theorem outer_by_name {α : Type} (name : α → String) (all : List α) (j : Nat) (ps : List String) :
    outer name equalFold all j ps = mapO (fun p => all.find? fun a => equalFold (name a) p) ps := by
  induction ps generalizing j with
  | nil => rfl
  | cons p r ih =>
    simp only [outer, mapO, findArg_first_named, ih]
    cases all.find? (fun a => equalFold (name a) p) <;> cases mapO (fun p => all.find? fun a => equalFold (name a) p) r <;> rfl

/-- how many parameters are bound: all of them; for a variadic method with more parameters than the field has
    arguments, as many as there are arguments -/
theorem bound_count {α : Type} (all : List α) (params : List String) (variadic : Bool) :
    Gen.BindArgs.bound all params variadic =
      if params.length > all.length ∧ variadic = true then all.length else params.length := by
  unfold Gen.BindArgs.bound
  by_cases h1 : params.length > all.length <;> cases variadic <;> simp [h1]

/-- `bindArgs` = for each bound parameter, the argument it is named after -/
theorem bindArgs_by_name (all : List ArgDef) (params : List String) (variadic : Bool) :
    bindArgs all params variadic = mapO (argNamed all) (params.take (Gen.BindArgs.bound all params variadic)) := by
  simp only [bindArgs, Gen.BindArgs.bindArgs, outer_by_name]
  rfl

theorem bindArgs_sound {all bound : List ArgDef} {params : List String} {variadic : Bool}
    (h : bindArgs all params variadic = some bound) :
    bound.length = min (Gen.BindArgs.bound all params variadic) params.length ∧
    ∀ i (hb : i < bound.length) (hp : i < params.length),
      argNamed all params[i] = some bound[i] ∧ bound[i] ∈ all ∧ equalFold bound[i].name params[i] = true := by
  rw [bindArgs_by_name] at h
  obtain ⟨hl, hg⟩ := mapO_get h
  refine ⟨by simpa using hl, ?_⟩
  intro i hb hp
  have hi : i < (params.take (Gen.BindArgs.bound all params variadic)).length := by rw [← hl]; exact hb
  have := hg i hi hb
  simp only [List.getElem_take] at this
  refine ⟨this, ?_, ?_⟩
  · exact List.mem_of_find?_eq_some this
  · have := List.find?_some this
    simpa using this

/-! ## the generated call reads `fc.Args` under the argument's name -/

theorem callKey_is_name (varName : ArgDef → String) (d : ArgDef) : callKey ArgDef.name varName d = d.name := rfl

theorem lookup_of_mem_nodup {m : List (String × GoV)} {k : String} {v : GoV} (hm : (k, v) ∈ m)
    (hn : (m.map (·.1)).Nodup) : lookup m k = some v := by
  induction m with
  | nil => cases hm
  | cons a r ih =>
    obtain ⟨a1, a2⟩ := a
    simp only [List.map_cons, List.nodup_cons] at hn
    simp only [lookup]
    rcases List.mem_cons.mp hm with h | h
    · cases h; simp
    · have hne : a1 ≠ k := by
        intro he; subst he
        exact hn.1 (List.mem_map.mpr ⟨(a1, v), h, rfl⟩)
      simp [hne, ih h hn.2]

/-- with pairwise distinct argument names the i-th parameter receives the i-th unmarshalled value -/
theorem handOver_id {bound : List ArgDef} {vals : List GoV} (hn : (bound.map (·.name)).Nodup)
    (hl : vals.length = bound.length) : handOver bound vals = some vals := by
  unfold handOver
  apply mapO_of_forall hl
  intro i hx hy
  simp only [callKey_is_name, mapGet]
  apply lookup_of_mem_nodup
  · rw [List.mem_reverse, argsMap]
    exact List.mem_map.mpr ⟨(bound[i], vals[i]), by
      rw [List.mem_iff_getElem]
      exact ⟨i, by simp only [List.length_zip]; omega, by simp⟩, rfl⟩
  · rw [List.map_reverse, List.Nodup, List.pairwise_reverse]
    have : (argsMap bound vals).map (·.1) = bound.map (·.name) := by
      unfold argsMap
      rw [List.map_map]
      have : ((fun x : String × GoV => x.1) ∘ fun dv : ArgDef × GoV => (dv.1.name, dv.2)) = (fun d : ArgDef => d.name) ∘ Prod.fst := rfl
      rw [this, ← List.map_map, List.map_fst_zip (by omega)]
    rw [this]
    exact List.Pairwise.imp (fun h => Ne.symm h) hn

/-! ## end to end on the model -/

/-- `field_*_args` treats every argument on its own: the i-th value is what it computes for the i-th argument alone -/
theorem fieldArgs_single {s : Schema} {c : Cfg} {vars : List (String × Raw)} {defs : List ArgDef}
    {given : List (String × Lit)} {fp : Path} {vals : List GoV} (h : fieldArgs s c vars defs given fp = .ok vals) :
    vals.length = defs.length ∧
    ∀ i (hd : i < defs.length) (hv : i < vals.length), fieldArgs s c vars [defs[i]] given fp = .ok [vals[i]] := by
  unfold fieldArgs at h
  split at h
  · cases h
  · rename_i raws hr
    obtain ⟨hl1, hg1⟩ := mapE_get hr
    obtain ⟨hl2, hg2⟩ := mapE_get h
    refine ⟨by omega, ?_⟩
    intro i hd hv
    have h1 := hg1 i hd (by omega)
    have h2 := hg2 i (by omega) hv
    unfold fieldArgs
    simp only [mapE, h1, h2]

/-- **The parameters of a bound method receive their arguments by name.** When the method is called, its i-th
    parameter holds exactly the value `field_*_args` computes for the one argument the parameter is named after
    (first match in schema order under `strings.EqualFold`) — whatever the order of the parameters. -/
theorem method_receives_named_argument {s : Schema} {c : Cfg} {vars : List (String × Raw)} {all bound : List ArgDef}
    {params : List String} {variadic : Bool} {given : List (String × Lit)} {fp : Path} {recv : List GoV}
    (hb : bindArgs all params variadic = some bound) (hn : (bound.map (·.name)).Nodup)
    (h : methodArgs s c vars all params variadic given fp = .ok recv) :
    recv.length = bound.length ∧
    ∀ i (hi : i < bound.length) (hp : i < params.length) (hr : i < recv.length),
      argNamed all params[i] = some bound[i] ∧ fieldArgs s c vars [bound[i]] given fp = .ok [recv[i]] := by
  unfold methodArgs at h
  simp only [hb] at h
  split at h
  · cases h
  · split at h
    · cases h
    · rename_i vals hv
      obtain ⟨hl, hs⟩ := fieldArgs_single hv
      rw [handOver_id hn hl] at h
      cases h
      refine ⟨hl, ?_⟩
      intro i hi hp hr
      exact ⟨((bindArgs_sound hb).2 i hi hp).1, hs i hi hr⟩

/-- an uncoercible argument that has a parameter: an error below `fieldPath ++ [argument]`, and the method is not called -/
theorem method_error_blocks_call {s : Schema} {c : Cfg} {vars : List (String × Raw)} {all : List ArgDef}
    {params : List String} {variadic : Bool} {given : List (String × Lit)} {fp p : Path} {cls : String}
    (h : methodArgs s c vars all params variadic given fp = .error (.err p cls)) :
    methodStep s c vars all params variadic given fp = .error p cls ∧
    ∀ args, methodStep s c vars all params variadic given fp ≠ .call args := by
  simp [methodStep, h]

/-! ## fields bound to resolver methods are untouched -/

theorem runOpB_resolvers (s : Schema) (c : Cfg) (vars : List VarDef) (input : List (String × Raw)) (fields : List FieldUse) :
    runOpB s c vars input (fields.map fun fu => { use := fu }) = runOp s c vars input fields := by
  simp [runOpB, runOp, stepB, List.map_map, Function.comp_def]
  rfl

theorem Spec.runOpB_resolvers (dv : Spec.Devs) (s : Schema) (c : Cfg) (vars : List VarDef) (input : List (String × Raw))
    (fields : List FieldUse) :
    Spec.runOpB dv s c vars input (fields.map fun fu => { use := fu }) = Spec.runOp dv s c vars input fields := by
  simp [Spec.runOpB, Spec.runOp, Spec.stepB, List.map_map, Function.comp_def]
  rfl

/-! ## non-vacuity: `span(from: Int!, to: Int!)` bound to `func (Meth) Span(to, from int)` -/

def exSpan : List ArgDef := [{ name := "from", ty := .named "Int" true, dflt := none, dir := false },
                             { name := "to", ty := .named "Int" true, dflt := none, dir := false }]
def exSchemaB : Schema := { types := [("Int", .scalar .int)] }

theorem equalFold_refl (a : String) : equalFold a a = true := by simp [equalFold]
theorem equalFold_of_length_ne {a b : String} (h : a.length ≠ b.length) : equalFold a b = false := by
  simp only [equalFold, decide_eq_false_iff_not]
  intro he
  have := congrArg String.length he
  simp [String.toLower] at this
  exact h this

theorem exSpan_bound : bindArgs exSpan ["to", "from"] false = some [exSpan[1], exSpan[0]] := by
  have h : equalFold "from" "to" = false := equalFold_of_length_ne (by decide)
  simp [bindArgs, Gen.BindArgs.bindArgs, Gen.BindArgs.bound, outer, findArg, exSpan, equalFold_refl, h]

example : ([exSpan[1], exSpan[0]].map (·.name)).Nodup := by decide
example : bindArgs exSpan ["to", "other"] false = none := by
  have h : equalFold "from" "to" = false := equalFold_of_length_ne (by decide)
  have h1 : equalFold "from" "other" = false := equalFold_of_length_ne (by decide)
  have h2 : equalFold "to" "other" = false := equalFold_of_length_ne (by decide)
  simp [bindArgs, Gen.BindArgs.bindArgs, Gen.BindArgs.bound, outer, findArg, exSpan, equalFold_refl, h, h1, h2]
/-- a variadic method with more parameters than the field has arguments: the first two are bound -/
example : bindArgs exSpan ["to", "from", "more"] true = some [exSpan[1], exSpan[0]] := by
  have h : equalFold "from" "to" = false := equalFold_of_length_ne (by decide)
  simp [bindArgs, Gen.BindArgs.bindArgs, Gen.BindArgs.bound, outer, findArg, exSpan, equalFold_refl, h]
/-- `{ span(from: 3, to: 10) }`: the method receives to = 10 in its first parameter, from = 3 in its second -/
example : (methodArgs exSchemaB {} [] exSpan ["to", "from"] false [("from", .int 3), ("to", .int 10)] ["f"]).map (·.map render)
    = .ok ["10", "3"] := by
  simp only [methodArgs, exSpan_bound]
  rfl

end GqlgenVerif.Coerce
