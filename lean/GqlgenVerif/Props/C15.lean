import GqlgenVerif.Lemmas.Apq
/-!
# C15 — the persisted-query cache binds a hash only to the text that hashes to it

All theorems are over **every** history (no length bound), **every** cache that is lawful in the sense of
`Apq.Lawful` (including caches that evict arbitrarily), and an **uninterpreted** hash function `H`.
`mapCache`, `noCache` and `lruCache` (any capacity) are proved lawful, so the theorems apply to the three
cache implementations of /repo. The unchanged tree satisfies the property: there is no `_partial`/`_witness`.
-/
namespace GqlgenVerif.Props.C15
open GqlgenVerif.Apq

variable {σ Text Hash : Type} [DecidableEq Hash]

/-! ## The cache instances are lawful -/

theorem map_lawful : Lawful (mapCache : CacheImpl (MapState Text Hash) Text Hash) mapView := by
  refine ⟨?_, ?_, ?_⟩
  · intro s k v h; exact h
  · intro s k k' v h; exact h
  · intro s k v k' v' h
    by_cases hk : k' = k
    · subst hk; simp [mapCache, mapView] at h; exact Or.inl ⟨rfl, h.symm⟩
    · simp [mapCache, mapView, hk] at h; exact Or.inr ⟨hk, h⟩

omit [DecidableEq Hash] in
theorem no_lawful : Lawful (noCache : CacheImpl Unit Text Hash) noView := by
  refine ⟨?_, ?_, ?_⟩
  · intro s k v h; simp [noCache] at h
  · intro s k k' v h; simp [noView] at h
  · intro s k v k' v' h; simp [noView] at h

/-- `lru.LRU` of any capacity (eviction included) is a lawful cache. -/
theorem lru_lawful : Lawful (lruCache : CacheImpl (Lru Text Hash) Text Hash) lruView := by
  refine ⟨?_, ?_, ?_⟩
  · intro s k v h
    simp only [lruCache, lruGet, lruView] at *
    cases hf : find k s.items with
    | none => simp [hf] at h
    | some w => simp [hf] at h; simp [h]
  · intro s k k' v h
    simp only [lruCache, lruGet, lruView] at *
    cases hf : find k s.items with
    | none => simpa [hf] using h
    | some w =>
      simp only [hf, find] at h
      by_cases hk : k = k'
      · subst hk; simp at h; simp [hf, h]
      · simp only [hk, if_false, find_remove] at h
        have : ¬ k' = k := fun e => hk e.symm
        simpa [this] using h
  · intro s k v k' v' h
    simp only [lruCache, lruAdd, lruView] at *
    by_cases hk : k' = k
    · left
      refine ⟨hk, ?_⟩
      subst hk
      cases hf : find k' s.items with
      | some w => simp [hf, find] at h; exact h.symm
      | none =>
        simp only [hf] at h
        split at h
        · have := find_dropOldest k' v' _ h
          simp [find] at this; exact this.symm
        · simp [find] at h; exact h.symm
    · right
      refine ⟨hk, ?_⟩
      have hk' : ¬ k = k' := fun e => hk e.symm
      cases hf : find k s.items with
      | some w => simpa [hf, find, hk', find_remove, hk] using h
      | none =>
        simp only [hf] at h
        split at h
        · have := find_dropOldest k' v' _ h
          simpa [find, hk'] using this
        · simpa [find, hk'] using h

/-- The recency list never grows beyond the capacity, and the capacity never changes. -/
theorem lru_bounded (c : Lru Text Hash) (k : Hash) (v : Text) (hb : c.items.length ≤ c.cap) :
    (lruAdd c k v).items.length ≤ (lruAdd c k v).cap ∧ (lruAdd c k v).cap = c.cap ∧
    (lruGet c k).2.items.length ≤ c.cap ∧ (lruGet c k).2.cap = c.cap := by
  refine ⟨?_, ?_, ?_, ?_⟩
  · simp only [lruAdd]
    cases hf : find k c.items with
    | some w =>
      have := length_remove_lt k w c.items hf
      simp; omega
    | none =>
      simp only
      split
      · simp [length_dropOldest]; omega
      · simp at *; omega
  · simp only [lruAdd]; cases hf : find k c.items <;> simp
  · simp only [lruGet]
    cases hf : find k c.items with
    | some w =>
      have := length_remove_lt k w c.items hf
      simp; omega
    | none => simpa using hb
  · simp only [lruGet]; cases hf : find k c.items <;> simp

example : (lruEmpty (Text := Nat) (Hash := Nat) 1).items.length ≤ (lruEmpty (Text := Nat) (Hash := Nat) 1).cap := by
  decide

/-! ## The invariant, for all histories -/

/-- **apq_inv.** After any history, starting from an empty cache, whatever a lookup can return for hash
`h` is a text `t` with `H t = h` that an earlier request of the history sent together with `h`. -/
theorem apq_inv (H : Text → Hash) (C : CacheImpl σ Text Hash) (view : σ → Hash → Option Text)
    (law : Lawful C view) (s0 : σ) (hempty : ∀ k, view s0 k = none)
    (rs : List (Req Text Hash)) (h : Hash) (t : Text)
    (hv : view (finalState H C s0 rs) h = some t) :
    H t = h ∧ (t, h) ∈ sentPairs rs := by
  have h0 : Inv H [] (view s0) := fun k t hk => by simp [hempty k] at hk
  have := runAll_inv H C law [] s0 rs h0 h t hv
  simpa using this

-- non-vacuity: a history over Text = Hash = Nat, H = (· % 10), after which the cache holds a binding
example : mapView (finalState (fun t : Nat => t % 10) mapCache mapEmpty
    [⟨some 13, .decoded 1 3⟩, ⟨some 24, .decoded 1 3⟩, ⟨none, .decoded 1 3⟩]) 3 = some 13 := by decide

/-- **Hash-only requests.** In any history `pre ++ r :: post` where `r` carries only the hash `h`
(version 1, empty query), the answer to `r` is `PersistedQueryNotFound`, or `r` runs a text `t` with
`H t = h` that a request of `pre` sent together with `h`; the executor is invoked on `t` or not at all. -/
theorem hash_only_executes_registered_or_not_found (H : Text → Hash) (C : CacheImpl σ Text Hash)
    (view : σ → Hash → Option Text) (law : Lawful C view) (s0 : σ) (hempty : ∀ k, view s0 k = none)
    (valid : Text → Bool) (pre post : List (Req Text Hash)) (h : Hash) :
    ∃ o, (outcomes H C s0 (pre ++ ⟨none, .decoded 1 h⟩ :: post))[pre.length]? = some o ∧
      ((o = .notFound ∧ executed valid o = none) ∨
       ∃ t, o = .run (some t) ∧ H t = h ∧ (t, h) ∈ sentPairs pre ∧
            (executed valid o = none ∨ executed valid o = some t)) := by
  refine ⟨(step H C (finalState H C s0 pre) ⟨none, .decoded 1 h⟩).out, ?_, ?_⟩
  · rw [outcomes_append, outcomes_cons]
    have := outcomes_length H C s0 pre
    rw [List.getElem?_append_right (by omega)]
    simp [this]
  · cases hg : (C.get (finalState H C s0 pre) h).1 with
    | none => left; rw [step_miss H C _ h hg]; exact ⟨rfl, rfl⟩
    | some t =>
      right
      rw [step_hit H C _ h t hg]
      have hv := law.get_val _ h t hg
      have := apq_inv H C view law s0 hempty pre h t hv
      refine ⟨t, rfl, this.1, this.2, ?_⟩
      simp only [executed]
      cases valid t <;> simp

-- non-vacuity: both branches occur (hit after registration; miss after eviction in an LRU of size 1)
example : outcomes (fun t : Nat => t % 10) lruCache (lruEmpty 1)
    [⟨some 13, .decoded 1 3⟩, ⟨none, .decoded 1 3⟩, ⟨some 14, .decoded 1 4⟩, ⟨none, .decoded 1 3⟩]
    = [.run (some 13), .run (some 13), .run (some 14), .notFound] := by decide

/-- **Mismatch.** A request whose text does not hash to the hash sent with it is rejected, makes no call
on the cache (so registers nothing — the state is literally unchanged) and executes nothing; for every
cache, lawful or not. -/
theorem mismatch_rejected_registers_nothing (H : Text → Hash) (C : CacheImpl σ Text Hash) (s : σ)
    (valid : Text → Bool) (t : Text) (h : Hash) (hne : H t ≠ h) :
    (step H C s ⟨some t, .decoded 1 h⟩).out = .mismatch ∧
    (step H C s ⟨some t, .decoded 1 h⟩).state = s ∧
    (step H C s ⟨some t, .decoded 1 h⟩).ops = [] ∧
    executed valid (step H C s ⟨some t, .decoded 1 h⟩).out = none := by
  rw [step_mismatch H C s h t hne]; exact ⟨rfl, rfl, rfl, rfl⟩

example : (fun t : Nat => t % 10) 14 ≠ 3 := by decide

/-- **No normalisation.** Whatever relation two texts stand in — `N` is ANY function on texts: whitespace
squeezing, trimming, re-printing, case folding — a text sent with the hash of its `N`-image is a mismatch like
any other unless the text itself hashes to that hash: rejected, no cache call, nothing executed, state unchanged.
(The tie sends layout siblings of one document with each other's hashes: corpus/C15/histories.txt.) -/
theorem normalised_sibling_hash_is_mismatch (H : Text → Hash) (N : Text → Text) (C : CacheImpl σ Text Hash) (s : σ)
    (valid : Text → Bool) (t : Text) (hne : H t ≠ H (N t)) :
    (step H C s ⟨some t, .decoded 1 (H (N t))⟩).out = .mismatch ∧
    (step H C s ⟨some t, .decoded 1 (H (N t))⟩).state = s ∧
    (step H C s ⟨some t, .decoded 1 (H (N t))⟩).ops = [] ∧
    executed valid (step H C s ⟨some t, .decoded 1 (H (N t))⟩).out = none :=
  mismatch_rejected_registers_nothing H C s valid t (H (N t)) hne

-- non-vacuity: a text and its image under N with different hashes
example : (fun t : Nat => t % 10) 14 ≠ (fun t : Nat => t % 10) ((fun t : Nat => t / 2) 14) := by decide

/-- The same inside a history: a mismatching request anywhere in a history is answered `mismatch` and
the rest of the history proceeds exactly as if it had not been sent. -/
theorem mismatch_in_history_is_noop (H : Text → Hash) (C : CacheImpl σ Text Hash) (s0 : σ)
    (pre post : List (Req Text Hash)) (t : Text) (h : Hash) (hne : H t ≠ h) :
    finalState H C s0 (pre ++ ⟨some t, .decoded 1 h⟩ :: post) = finalState H C s0 (pre ++ post) ∧
    outcomes H C s0 (pre ++ ⟨some t, .decoded 1 h⟩ :: post) =
      outcomes H C s0 pre ++ .mismatch :: outcomes H C (finalState H C s0 pre) post := by
  constructor
  · rw [finalState_append, finalState_append, finalState_cons, step_mismatch H C _ h t hne]
  · rw [outcomes_append, outcomes_cons, step_mismatch H C _ h t hne]

/-- Only a request that carries text `t` together with hash `H t` under version 1 calls `Cache.Add`, and
it adds exactly `(H t, t)`: every other request registers nothing. -/
theorem only_matching_request_registers (H : Text → Hash) (C : CacheImpl σ Text Hash) (s : σ)
    (r : Req Text Hash) (h : Hash) (t : Text) (hadd : Op.add h t ∈ (step H C s r).ops) :
    r = ⟨some t, .decoded 1 h⟩ ∧ H t = h ∧ (step H C s r).ops = [.add h t] := by
  obtain ⟨q, e⟩ := r
  cases e with
  | absent => simp [step_absent] at hadd
  | malformed => simp [step_malformed] at hadd
  | decoded v h' =>
    by_cases hv : v = 1
    · subst hv
      cases q with
      | none =>
        cases hg : (C.get s h').1 with
        | none => rw [step_miss H C s h' hg] at hadd; simp at hadd
        | some t0 => rw [step_hit H C s h' t0 hg] at hadd; simp at hadd
      | some t' =>
        by_cases hh : H t' = h'
        · rw [step_register H C s h' t' hh] at hadd ⊢
          simp at hadd
          obtain ⟨rfl, rfl⟩ := hadd
          exact ⟨rfl, hh, rfl⟩
        · rw [step_mismatch H C s h' t' hh] at hadd; simp at hadd
    · rw [step_badVersion H C s q v h' hv] at hadd; simp at hadd

example : Op.add 3 13 ∈ (step (fun t : Nat => t % 10) mapCache mapEmpty ⟨some 13, .decoded 1 3⟩).ops := by decide

/-- **No rebinding.** Fix a hash `h` and a text `t0`. Whatever requests anybody interleaves, in whatever
order, against whatever lawful cache: as long as nobody has sent a genuine collision (a text other than
`t0` that hashes to `h`, together with `h`), a hash-only request for `h` is answered `notFound` or
runs `t0` — never another text. No assumption is made on `H` itself. -/
theorem no_rebind (H : Text → Hash) (C : CacheImpl σ Text Hash)
    (view : σ → Hash → Option Text) (law : Lawful C view) (s0 : σ) (hempty : ∀ k, view s0 k = none)
    (pre post : List (Req Text Hash)) (h : Hash) (t0 : Text)
    (hcol : ∀ t, (t, h) ∈ sentPairs pre → H t = h → t = t0) :
    (outcomes H C s0 (pre ++ ⟨none, .decoded 1 h⟩ :: post))[pre.length]? = some .notFound ∨
    (outcomes H C s0 (pre ++ ⟨none, .decoded 1 h⟩ :: post))[pre.length]? = some (.run (some t0)) := by
  obtain ⟨o, ho, hcase⟩ := hash_only_executes_registered_or_not_found H C view law s0 hempty
    (fun _ => true) pre post h
  rcases hcase with ⟨rfl, _⟩ | ⟨t, rfl, ht, hs, _⟩
  · exact Or.inl ho
  · right; rw [ho, hcol t hs ht]

-- non-vacuity: an attacker sends text 24 (hash 4) with the victim's hash 3 before and after the victim
-- registers 13; the hypothesis holds (24 does not hash to 3) and the victim's hash resolves to 13
example : (∀ t, (t, 3) ∈ sentPairs [(⟨some 24, .decoded 1 3⟩ : Req Nat Nat), ⟨some 13, .decoded 1 3⟩,
      ⟨some 24, .decoded 1 3⟩] → (fun t : Nat => t % 10) t = 3 → t = 13) := by
  intro t ht; simp [sentPairs, sentOf] at ht; rcases ht with rfl | rfl | rfl <;> simp

example : outcomes (fun t : Nat => t % 10) mapCache mapEmpty
    [⟨some 24, .decoded 1 3⟩, ⟨some 13, .decoded 1 3⟩, ⟨some 24, .decoded 1 3⟩, ⟨none, .decoded 1 3⟩]
    = [.mismatch, .run (some 13), .mismatch, .run (some 13)] := by decide

/-- Two hash-only requests for the same hash anywhere in one history never run two different texts,
unless the history itself contains a collision of `H` sent with that hash. -/
theorem same_hash_same_text (H : Text → Hash) (C : CacheImpl σ Text Hash)
    (view : σ → Hash → Option Text) (law : Lawful C view) (s0 : σ) (hempty : ∀ k, view s0 k = none)
    (a b c : List (Req Text Hash)) (h : Hash) (t1 t2 : Text)
    (hinj : ∀ t t', (t, h) ∈ sentPairs (a ++ ⟨none, .decoded 1 h⟩ :: b) →
                    (t', h) ∈ sentPairs (a ++ ⟨none, .decoded 1 h⟩ :: b) → H t = H t' → t = t')
    (h1 : (outcomes H C s0 (a ++ ⟨none, .decoded 1 h⟩ :: (b ++ ⟨none, .decoded 1 h⟩ :: c)))[a.length]?
            = some (.run (some t1)))
    (h2 : (outcomes H C s0 ((a ++ ⟨none, .decoded 1 h⟩ :: b) ++ ⟨none, .decoded 1 h⟩ :: c))[(a ++ ⟨none, .decoded 1 h⟩ :: b).length]?
            = some (.run (some t2))) :
    t1 = t2 := by
  obtain ⟨o1, ho1, c1⟩ := hash_only_executes_registered_or_not_found H C view law s0 hempty
    (fun _ => true) a (b ++ ⟨none, .decoded 1 h⟩ :: c) h
  obtain ⟨o2, ho2, c2⟩ := hash_only_executes_registered_or_not_found H C view law s0 hempty
    (fun _ => true) (a ++ ⟨none, .decoded 1 h⟩ :: b) c h
  rw [h1] at ho1; rw [h2] at ho2
  simp at ho1 ho2
  subst ho1; subst ho2
  rcases c1 with ⟨hx, _⟩ | ⟨t, ht, hh, hs, _⟩
  · cases hx
  · rcases c2 with ⟨hx, _⟩ | ⟨t', ht', hh', hs', _⟩
    · cases hx
    · cases ht; cases ht'
      refine hinj _ _ ?_ hs' (hh.trans hh'.symm)
      rw [sentPairs_append]; exact List.mem_append_left _ hs

example : ∀ t t', (t, 3) ∈ sentPairs [(⟨some 13, .decoded 1 3⟩ : Req Nat Nat), ⟨none, .decoded 1 3⟩] →
    (t', 3) ∈ sentPairs [(⟨some 13, .decoded 1 3⟩ : Req Nat Nat), ⟨none, .decoded 1 3⟩] →
    (fun t : Nat => t % 10) t = (fun t : Nat => t % 10) t' → t = t' := by
  intro t t' h1 h2 _; simp [sentPairs, sentOf] at h1 h2; rw [h1, h2]

/-! ## The model satisfies the executable Spec used by the check on the implementation's traces -/

variable [DecidableEq Text]

/-- The trace the model produces (outcome, executed text, cache calls) for any history against any
lawful cache passes `specTrace`, and any list of bindings read off the final cache passes `specFinal`:
so `specOk`, the checker the run-time check applies to the *implementation's* observed trace, is
satisfied by the model for all inputs. -/
theorem model_satisfies_spec (H : Text → Hash) (C : CacheImpl σ Text Hash)
    (view : σ → Hash → Option Text) (law : Lawful C view) (s0 : σ) (hempty : ∀ k, view s0 k = none)
    (valid : Text → Bool) (rs : List (Req Text Hash)) (contents : List (Hash × Text))
    (hc : ∀ p, p ∈ contents → view (finalState H C s0 rs) p.1 = some p.2) :
    specOk H rs ((runAll H C s0 rs).2.map (fun x => ⟨x.out, executed valid x.out, x.ops⟩)) contents = true := by
  have key : ∀ (rs : List (Req Text Hash)) (sent : List (Text × Hash)) (s : σ), Inv H sent (view s) →
      specTrace H sent rs ((runAll H C s rs).2.map (fun x => ⟨x.out, executed valid x.out, x.ops⟩)) = true := by
    intro rs
    induction rs with
    | nil => intro sent s _; simp [runAll_nil, specTrace]
    | cons r rs ih =>
      intro sent s hi
      rw [runAll_cons]
      simp only [List.map_cons, specTrace, Bool.and_eq_true]
      refine ⟨?_, ih _ _ (step_inv H C law sent s r hi)⟩
      obtain ⟨q, e⟩ := r
      cases e with
      | absent => simp [step_absent, specReq, addsOf]
      | malformed => simp [step_malformed, specReq, addsOf]
      | decoded v h =>
        by_cases hv : v = 1
        · subst hv
          cases q with
          | none =>
            cases hg : (C.get s h).1 with
            | none => rw [step_miss H C s h hg]; simp [specReq, addsOf, executed]
            | some t =>
              rw [step_hit H C s h t hg]
              have := hi h t (law.get_val s h t hg)
              simp only [specReq, addsOf, executed]
              by_cases hvt : valid t = true <;> simp [hvt, this.1, this.2]
          | some t =>
            by_cases hh : H t = h
            · rw [step_register H C s h t hh]; simp [specReq, addsOf, hh]
            · rw [step_mismatch H C s h t hh]; simp [specReq, addsOf, hh, executed]
        · rw [step_badVersion H C s q v h hv]; simp [specReq, addsOf, hv]
  have h0 : Inv H [] (view s0) := fun k t hk => by simp [hempty k] at hk
  simp only [specOk, Bool.and_eq_true]
  refine ⟨key rs [] s0 h0, ?_⟩
  simp only [specFinal, List.all_eq_true]
  intro p hp
  have := apq_inv H C view law s0 hempty rs p.1 p.2 (hc p hp)
  simp [this.1, this.2]

-- non-vacuity, and the Spec is not trivially true: it rejects a trace in which a mismatching request
-- registered its text, and one in which a hash-only request ran a text never sent with that hash
example : specOk (fun t : Nat => t % 10) [⟨some 13, .decoded 1 3⟩, ⟨none, .decoded 1 3⟩]
    [⟨.run (some 13), some 13, [.add 3 13]⟩, ⟨.run (some 13), some 13, [.get 3 (some 13)]⟩] [(3, 13)] = true := by decide
example : specOk (fun t : Nat => t % 10) [⟨some 24, .decoded 1 3⟩]
    [⟨.run (some 24), some 24, [.add 3 24]⟩] [] = false := by decide
example : specOk (fun t : Nat => t % 10) [⟨some 13, .decoded 1 3⟩, ⟨none, .decoded 1 3⟩]
    [⟨.run (some 13), some 13, [.add 3 13]⟩, ⟨.run (some 23), some 23, [.get 3 (some 23)]⟩] [] = false := by decide

/-! ## A non-evicting cache keeps what was registered (MapCache) -/

omit [DecidableEq Text] in
/-- With `graphql.MapCache`, once `(t, H t)` has been registered, every later hash-only request for
`H t` runs a text hashing to `H t` (it is never answered `notFound`), whatever else is sent in between. -/
theorem map_registered_is_found (H : Text → Hash) (pre mid post : List (Req Text Hash)) (t : Text) :
    ∃ t', (outcomes H mapCache mapEmpty
        (pre ++ ⟨some t, .decoded 1 (H t)⟩ :: (mid ++ ⟨none, .decoded 1 (H t)⟩ :: post)))[pre.length + 1 + mid.length]?
      = some (.run (some t')) ∧ H t' = H t := by
  -- a Go map never loses a key
  have keep : ∀ (rs : List (Req Text Hash)) (s : MapState Text Hash) (k : Hash), s k ≠ none →
      (finalState H mapCache s rs) k ≠ none := by
    intro rs
    induction rs with
    | nil => intro s k h; simpa [finalState_nil] using h
    | cons r rs ih =>
      intro s k h
      rw [finalState_cons]
      apply ih
      obtain ⟨q, e⟩ := r
      cases e with
      | absent => simpa [step_absent] using h
      | malformed => simpa [step_malformed] using h
      | decoded v h' =>
        by_cases hv : v = 1
        · subst hv
          cases q with
          | none =>
            cases hg : ((mapCache : CacheImpl (MapState Text Hash) Text Hash).get s h').1 with
            | none => rw [step_miss H mapCache s h' hg]; simpa [mapCache] using h
            | some t0 => rw [step_hit H mapCache s h' t0 hg]; simpa [mapCache] using h
          | some t' =>
            by_cases hh : H t' = h'
            · rw [step_register H mapCache s h' t' hh]
              simp only [mapCache]
              by_cases hk : k = h' <;> simp [hk, h]
            · rw [step_mismatch H mapCache s h' t' hh]; exact h
        · rw [step_badVersion H mapCache s q v h' hv]; exact h
  let s1 := finalState H mapCache mapEmpty pre
  let s2 := (step H mapCache s1 ⟨some t, .decoded 1 (H t)⟩).state
  have hs2 : s2 (H t) ≠ none := by
    simp only [s2]
    rw [step_register H mapCache s1 (H t) t rfl]
    simp [mapCache]
  have hs3 := keep mid s2 (H t) hs2
  cases hg : (finalState H mapCache s2 mid) (H t) with
  | none => exact absurd hg hs3
  | some t' =>
    refine ⟨t', ?_, ?_⟩
    · rw [outcomes_append, outcomes_cons, List.getElem?_append_right (by simp [outcomes_length]; omega)]
      simp only [outcomes_length, Nat.add_assoc, Nat.add_sub_cancel_left]
      rw [Nat.add_comm 1, List.getElem?_cons_succ, outcomes_append,
        List.getElem?_append_right (by simp [outcomes_length])]
      simp only [outcomes_length, Nat.sub_self, outcomes_cons, List.getElem?_cons_zero]
      have : ((mapCache : CacheImpl (MapState Text Hash) Text Hash).get (finalState H mapCache s2 mid) (H t)).1 = some t' := hg
      rw [step_hit H mapCache _ (H t) t' this]
    · have hall := apq_inv H mapCache mapView map_lawful mapEmpty (fun _ => rfl)
        (pre ++ ⟨some t, .decoded 1 (H t)⟩ :: mid) (H t) t'
      have hfs : finalState H mapCache mapEmpty (pre ++ ⟨some t, .decoded 1 (H t)⟩ :: mid)
          = finalState H mapCache s2 mid := by
        rw [finalState_append, finalState_cons]
      rw [hfs] at hall
      exact (hall hg).1

end GqlgenVerif.Props.C15
