import GqlgenVerif.Lemmas.JsonString
import GqlgenVerif.Lemmas.GoInt
import GqlgenVerif.Gen.IntCasts
/-!
# C08 — everything gqlgen serialises is valid JSON that round-trips the value

Property theorems only (helper lemmas live in `Lemmas/`). Quantification is over **all** byte
strings and **all** integers; nothing here is bounded.

* strings (`String`, `ID`, object keys): `writeQuoted` = `graphql.writeQuotedString`
* integers (`Int`, `Int32`, `Int64`, `Uint*`, `IntID`, `UintID`): decimal text, and — regenerated from
  the source on every run (`Gen/IntCasts.lean`) — every numeric arm of every `Unmarshal*` function
* framing of objects and lists: see `Props/C08Frame.lean`
-/
namespace GqlgenVerif.C08
open GqlgenVerif GqlgenVerif.Go GqlgenVerif.Gen.IntCasts

/-- **String round trip, full strength.** For every byte string, a strict RFC 8259 decoder maps what
`writeQuotedString` wrote back to the original with each offending byte replaced by U+FFFD. -/
theorem quoted_decodes (s : Bytes) : decodeString (writeQuoted s) = some (sanitize s) := by
  simp [decodeString, writeQuoted, decode_quotedBody]

/-- The written bytes are valid UTF-8, whatever the input bytes were. -/
theorem quoted_valid_utf8 (s : Bytes) : validUtf8 (writeQuoted s) = true := by
  unfold writeQuoted
  rw [validUtf8_cons_ascii _ (by omega), validUtf8_quotedBody, validUtf8_cons_ascii _ (by omega)]
  exact validUtf8_none rfl

/-- For valid UTF-8 the decoded value *is* the original. -/
theorem quoted_roundtrip_valid (s : Bytes) (h : validUtf8 s = true) :
    decodeString (writeQuoted s) = some s := by
  rw [quoted_decodes, sanitize_valid s h]

/-- non-vacuity: a valid non-ASCII string needing escapes, and an invalid one -/
example : validUtf8 [0x61, 0x22, 0xC3, 0xA9, 0x0A] = true := by
  rw [validUtf8_cons_ascii _ (by omega), validUtf8_cons_ascii _ (by omega),
    validUtf8_multi (bs := [0xC3, 0xA9]) (r := [0x0A]) (by decide), validUtf8_cons_ascii _ (by omega)]
  exact validUtf8_none rfl
example : sanitize [0x61, 0xFF, 0x62] = [0x61, 0xEF, 0xBF, 0xBD, 0x62] := by
  rw [sanitize_some (c := .ascii 0x61) (r := [0xFF, 0x62]) (by decide),
    sanitize_some (c := .bad 0xFF) (r := [0x62]) (by decide),
    sanitize_some (c := .ascii 0x62) (r := []) (by decide), sanitize_none (by decide)]
  rfl

/-- **Integer text round trip**: the decimal text of any integer is a valid JSON integer token whose
value is the integer (covers `MarshalInt/Int32/Int64/Uint/Uint32/Uint64`). -/
theorem int_text_roundtrip (i : Int) : parseJsonInt (intDec i) = some i :=
  parseJsonInt_intDec i

/-- `MarshalIntID` / `MarshalUintID` quote the decimal text; the strict decoder gives the text back
unchanged, so the ID forms round-trip too. -/
theorem intid_roundtrip (i : Int) :
    (decodeString (writeQuoted (intDec i))).bind parseJsonInt = some i := by
  have hv : validUtf8 (intDec i) = true := by
    have h := quoted_valid_utf8 (intDec i)
    -- digits and '-' are ASCII: show validity directly
    have hall : ∀ n : Nat, validUtf8 (natDec n) = true := by
      intro n
      induction n using natDec.induct with
      | case1 n h => rw [natDec_lt h, validUtf8_cons_ascii _ (by omega)]; exact validUtf8_none rfl
      | case2 n h ih =>
        rw [natDec_ge h]
        have : ∀ (l : Bytes) (b : Nat), b < 0x80 → validUtf8 l = true → (∀ x ∈ l, x < 0x80) →
            validUtf8 (l ++ [b]) = true := by
          intro l
          induction l with
          | nil => intro b hb _ _; rw [List.nil_append, validUtf8_cons_ascii _ hb]; exact validUtf8_none rfl
          | cons x l ihl =>
            intro b hb hl hx
            rw [List.cons_append, validUtf8_cons_ascii _ (hx x (by simp))]
            rw [validUtf8_cons_ascii _ (hx x (by simp))] at hl
            exact ihl b hb hl (fun y hy => hx y (by simp [hy]))
        refine this _ _ (by omega) ih ?_
        intro x hx
        have := natDec_all_digits (n / 10)
        rw [List.all_eq_true] at this
        have := this x hx
        simp [isDigit] at this; omega
    unfold intDec; split
    · rw [validUtf8_cons_ascii _ (by omega)]; exact hall _
    · exact hall _
  rw [quoted_roundtrip_valid _ hv]
  exact parseJsonInt_intDec i

/-! ## No numeric input is silently changed (shared with C02)

`Exact f dom cod`: on every input of the arm's Go type, `f` either fails or returns a value that is
numerically the input and fits the result type. One theorem per arm of `Gen/IntCasts.lean`;
`arms_expected` makes a new or removed arm a failed obligation. -/
def Exact (f : Int → Except String Int) (dom cod : Int → Prop) : Prop :=
  ∀ v, dom v → ∀ r, f v = .ok r → r = v ∧ cod r

theorem arms_expected : arms =
    ["UnmarshalInt32_int", "UnmarshalInt32_int64", "UnmarshalInt64_int", "UnmarshalInt64_int64",
     "UnmarshalIntID_int", "UnmarshalIntID_int64", "UnmarshalInt_int", "UnmarshalInt_int64",
     "UnmarshalUint32_int", "UnmarshalUint32_int64", "UnmarshalUint64_int", "UnmarshalUint64_int64",
     "UnmarshalUintID_int", "UnmarshalUintID_int32", "UnmarshalUintID_int64", "UnmarshalUintID_uint32",
     "UnmarshalUintID_uint64", "UnmarshalUint_int", "UnmarshalUint_int64"] := by rfl

syntax "exact_arm" : tactic
macro_rules
  | `(tactic| exact_arm) => `(tactic|
      (intro v hv r h
       simp only [UnmarshalInt32_int, UnmarshalInt32_int64, UnmarshalInt64_int, UnmarshalInt64_int64,
         UnmarshalIntID_int, UnmarshalIntID_int64, UnmarshalInt_int, UnmarshalInt_int64,
         UnmarshalUint32_int, UnmarshalUint32_int64, UnmarshalUint64_int, UnmarshalUint64_int64,
         UnmarshalUintID_int, UnmarshalUintID_int32, UnmarshalUintID_int64, UnmarshalUintID_uint32,
         UnmarshalUintID_uint64, UnmarshalUint_int, UnmarshalUint_int64,
         safeCastInt32, safeCastUint32] at h
       repeat' split at h
       all_goals first
         | (cases h; done)
         | (injection h with h; subst h
            refine ⟨?_, ?_⟩ <;>
            (simp only [inInt64, inInt32, inUint64, inUint32, minInt64, maxInt64, minInt32, maxInt32,
              maxUint64, maxUint32, conv_int, conv_int64, conv_int32, conv_uint, conv_uint64,
              conv_uint32] at * <;> omega))))

theorem exact_UnmarshalInt_int : Exact UnmarshalInt_int inInt64 inInt64 := by exact_arm
theorem exact_UnmarshalInt_int64 : Exact UnmarshalInt_int64 inInt64 inInt64 := by exact_arm
theorem exact_UnmarshalInt64_int : Exact UnmarshalInt64_int inInt64 inInt64 := by exact_arm
theorem exact_UnmarshalInt64_int64 : Exact UnmarshalInt64_int64 inInt64 inInt64 := by exact_arm
theorem exact_UnmarshalInt32_int : Exact UnmarshalInt32_int inInt64 inInt32 := by exact_arm
theorem exact_UnmarshalInt32_int64 : Exact UnmarshalInt32_int64 inInt64 inInt32 := by exact_arm
theorem exact_UnmarshalUint_int : Exact UnmarshalUint_int inInt64 inUint64 := by exact_arm
theorem exact_UnmarshalUint_int64 : Exact UnmarshalUint_int64 inInt64 inUint64 := by exact_arm
theorem exact_UnmarshalUint64_int : Exact UnmarshalUint64_int inInt64 inUint64 := by exact_arm
theorem exact_UnmarshalUint64_int64 : Exact UnmarshalUint64_int64 inInt64 inUint64 := by exact_arm
theorem exact_UnmarshalUint32_int : Exact UnmarshalUint32_int inInt64 inUint32 := by exact_arm
theorem exact_UnmarshalUint32_int64 : Exact UnmarshalUint32_int64 inInt64 inUint32 := by exact_arm
theorem exact_UnmarshalIntID_int : Exact UnmarshalIntID_int inInt64 inInt64 := by exact_arm
theorem exact_UnmarshalIntID_int64 : Exact UnmarshalIntID_int64 inInt64 inInt64 := by exact_arm
theorem exact_UnmarshalUintID_int : Exact UnmarshalUintID_int inInt64 inUint64 := by exact_arm
theorem exact_UnmarshalUintID_int64 : Exact UnmarshalUintID_int64 inInt64 inUint64 := by exact_arm
theorem exact_UnmarshalUintID_int32 : Exact UnmarshalUintID_int32 inInt32 inUint64 := by exact_arm
theorem exact_UnmarshalUintID_uint32 : Exact UnmarshalUintID_uint32 inUint32 inUint64 := by exact_arm
theorem exact_UnmarshalUintID_uint64 : Exact UnmarshalUintID_uint64 inUint64 inUint64 := by exact_arm

/-- non-vacuity: the sign check is what makes the arm exact — `uint(-1)` is not -1 -/
example : conv_uint (-1) = 18446744073709551615 := by decide
example : UnmarshalUintID_int64 (-1) = .error "newUintSignError" := by rfl
example : UnmarshalUint32_int64 4294967296 = .error "newUint32OverflowError" := by rfl

end GqlgenVerif.C08
