import GqlgenVerif.Lemmas.ComplexityLabel
import GqlgenVerif.Gen.ComplexityLabels
import GqlgenVerif.Props.C14Gen
/-!
# C14 — both template flavours spell the `Complexity()` switch from the schema's own names

`complexity.Calculate` hands `ObjectDefinition.Name` and `Field.Name` to `executableSchema.Complexity` verbatim, and the
generated code compares `typeName + "." + field` with **string** labels. `codegen/generated!.gotpl` (single-file layout)
and `codegen/root_.gotpl` (follow-schema layout) each spell those labels, the `ComplexityRoot` struct and the selectors
`e.complexity.<S>.<E>`. `Gen.ComplexityLabels.single` / `.follow` are what the two templates say **now** (regenerated on
every run by `go/extract/complexitylabels.go`).

* `walker_hands_schema_names` — the other side of the lookup (`complexity/complexity.go`, regenerated too): the names of
  the validated AST reach `Complexity()` untouched.
* `single_faithful`, `follow_faithful` — each flavour is `Faithful`: the label is the lookup key of the schema's spelling
  (NOT of a Go-mangled spelling: a type `item` is looked up as `item.more`, while its entries live in
  `ComplexityRoot.Item`), the guards drop exactly the reserved names, nil check = call = the declared entry.
* for every `Faithful` flavour, every object list, every type / field name without a dot:
  `dispatchBy_eq_dispatch` (the string switch = the pair switch of `Model/ComplexitySwitch.lean`, entry addressed as
  `ComplexityRoot.<UcFirst type>.<GoFieldName>`), `flavour_custom_eq_binding` (`Complexity()` = the documented binding),
  `root_declares_called_entry`.
* `flavours_agree` — the two layouts dispatch alike.
* `mangled_label_witness` — why the spelling matters: a label spelled `ucFirst $object.Name` never matches a type whose
  name starts with a lower-case letter, so its fields silently cost the default.
-/
namespace GqlgenVerif.Props.C14Label
open GqlgenVerif GqlgenVerif.Complexity GqlgenVerif.FieldMap GqlgenVerif.Gen.UniqueFields
open GqlgenVerif.ComplexitySwitch GqlgenVerif.ComplexityLabel GqlgenVerif.Lemmas.ComplexityLabel
open GqlgenVerif.Gen.ComplexityLabels

/-! ## the regenerated spelling of both flavours -/

/-- `codegen/generated!.gotpl` -/
theorem single_faithful : Faithful single := by
  constructor <;> intros <;> simp [single, evalKey, evalParts, evalPath, KeyPart.eval, Part.eval, NameExpr.eval, Guard.eval, String.append_assoc]

/-- `codegen/root_.gotpl` -/
theorem follow_faithful : Faithful follow := by
  constructor <;> intros <;> simp [follow, evalKey, evalParts, evalPath, KeyPart.eval, Part.eval, NameExpr.eval, Guard.eval, String.append_assoc]

/-- `complexity/complexity.go` hands the schema's own `ObjectDefinition.Name` / `Field.Name` (for an interface: every
    implementor's `Name` and the same field name) to `ExecutableSchema.Complexity`, through no function of them -/
theorem walker_hands_schema_names : walker = WalkerLookup.verbatim := by decide

/-! ## the lookup key -/

/-- `typeName + "." + field` determines both names (GraphQL names contain no dot) -/
theorem key_injective (t t' f f' : String) (ht : NoDot t) (ht' : NoDot t') (h : t ++ "." ++ f = t' ++ "." ++ f') :
    t = t' ∧ f = f' := by
  have h' := congrArg String.toList h
  rw [key_toList, key_toList] at h'
  obtain ⟨h1, h2⟩ := split_dot _ _ _ _ ht ht' h'
  exact ⟨String.toList_inj.mp h1, String.toList_inj.mp h2⟩

example : NoDot "item" ∧ NoDot "user_account" := by constructor <;> (unfold NoDot; decide)

/-! ## the string switch of a faithful flavour is the switch of `Model/ComplexitySwitch.lean` -/

/-- a label of the generated code equals the tag exactly when type and field are the clause's own -/
theorem label_matches_iff (fl : Flavour) (hf : Faithful fl) (o : GObject) (ho : NoDot o.name) (g : String × List GField)
    (t f : String) (ht : NoDot t) :
    decide (evalKey fl.tag t f ∈ (sarmOf fl o g).labels) = decide ((t, f) ∈ (armOf o.name g).labels) := by
  rw [decide_eq_decide]
  simp only [sarmOf, armOf, List.mem_map, List.mem_filter, hf.fieldGuard, hf.label, hf.tag]
  constructor
  · rintro ⟨fd, hfd, heq⟩
    obtain ⟨h1, h2⟩ := key_injective _ _ _ _ ho ht heq
    exact ⟨fd, hfd, by rw [h1, h2]⟩
  · rintro ⟨fd, hfd, heq⟩
    simp only [Prod.mk.injEq] at heq
    exact ⟨fd, hfd, by rw [heq.1, heq.2]⟩

/-- the selector a clause calls is `ComplexityRoot.<UcFirst type>.<GoFieldName of the group>` -/
theorem sarm_callEntry (fl : Flavour) (hf : Faithful fl) (o : GObject) (g : String × List GField) :
    (sarmOf fl o g).callEntry = goEntry (armOf o.name g).entry := by
  simp only [sarmOf, armOf, goEntry, hf.call, bodyMember]
  cases g.2.getLast? <;> rfl

theorem sarm_nil_eq_call (fl : Flavour) (hf : Faithful fl) (o : GObject) (g : String × List GField) :
    (sarmOf fl o g).nilEntry = (sarmOf fl o g).callEntry := by
  simp only [sarmOf, hf.nilCheck]

theorem sarms_nil_eq_call (fl : Flavour) (hf : Faithful fl) (objs : List GObject) (a : SArm) (ha : a ∈ sarms fl objs) :
    a.nilEntry = a.callEntry := by
  unfold sarms at ha
  rw [List.mem_flatMap] at ha
  obtain ⟨o, _, hao⟩ := ha
  unfold sarmsOf at hao
  split at hao
  · rw [List.mem_map] at hao
    obtain ⟨g, _, rfl⟩ := hao
    exact sarm_nil_eq_call fl hf o g
  · cases hao

/-- per object -/
theorem dispatch_object (fl : Flavour) (hf : Faithful fl) (o : GObject) (ho : NoDot o.name) (t f : String) (ht : NoDot t) :
    ((sarmsOf fl o).find? fun a => decide (evalKey fl.tag t f ∈ a.labels)).map (·.callEntry)
      = ((armsOf o).find? fun a => decide ((t, f) ∈ a.labels)).map (fun a => goEntry a.entry) := by
  unfold sarmsOf armsOf
  rw [hf.objGuard]
  cases hr : o.reserved
  · simp only [Bool.not_false, ↓reduceIte, Bool.false_eq_true, List.find?_map, Option.map_map]
    have : (uniqueFields o.fields).find? ((fun a : SArm => decide (evalKey fl.tag t f ∈ a.labels)) ∘ sarmOf fl o)
        = (uniqueFields o.fields).find? ((fun a : Arm => decide ((t, f) ∈ a.labels)) ∘ armOf o.name) := by
      apply find_congr
      intro g _
      exact label_matches_iff fl hf o ho g t f ht
    rw [this]
    congr 1
    funext g
    exact sarm_callEntry fl hf o g
  · simp

/-- the generated string switch of a faithful flavour dispatches `typeName.field` to the Go selector of the entry the
    pair model of `Model/ComplexitySwitch.lean` dispatches it to -/
theorem dispatchBy_eq_dispatch (fl : Flavour) (hf : Faithful fl) (objs : List GObject) (hd : ∀ o ∈ objs, NoDot o.name)
    (t f : String) (ht : NoDot t) :
    dispatchBy fl objs t f = (dispatch objs t f).map goEntry := by
  unfold dispatchBy dispatchArm dispatch
  rw [Option.map_map]
  induction objs with
  | nil => rfl
  | cons o os ih =>
    have ho := hd o List.mem_cons_self
    have ih' := ih fun o' ho' => hd o' (List.mem_cons_of_mem _ ho')
    simp only [sarms, arms, List.flatMap_cons, List.find?_append, option_map_or] at ih' ⊢
    rw [dispatch_object fl hf o ho t f ht, ih']
    rfl

/-- both layouts dispatch alike -/
theorem flavours_agree (objs : List GObject) (hd : ∀ o ∈ objs, NoDot o.name) (t f : String) (ht : NoDot t) :
    dispatchBy single objs t f = dispatchBy follow objs t f := by
  rw [dispatchBy_eq_dispatch single single_faithful objs hd t f ht, dispatchBy_eq_dispatch follow follow_faithful objs hd t f ht]

/-- `executableSchema.Complexity` of a faithful flavour is the documented cost function: the schema field `t.f` costs what
    the function stored in `ComplexityRoot.<UcFirst t>.<Go field it is bound to>` says, and has no custom cost when that
    is nil or there is no such field -/
theorem flavour_custom_eq_binding (fl : Flavour) (hf : Faithful fl) (objs : List GObject) (hw : WellNamed objs)
    (hd : ∀ o ∈ objs, NoDot o.name) (root : GoRoot) (t f : String) (ht : NoDot t) (child : Int) (args : Args) :
    switchCustomBy fl objs root t f child args = ComplexitySwitch.Spec.boundCustom objs root.bySchemaName t f child args := by
  have hdis := dispatchBy_eq_dispatch fl hf objs hd t f ht
  rw [C14Gen.switch_eq_binding objs hw t f] at hdis
  unfold switchCustomBy ComplexitySwitch.Spec.boundCustom
  unfold dispatchBy at hdis
  cases ha : dispatchArm fl objs t f with
  | none =>
    rw [ha] at hdis
    cases he : ComplexitySwitch.Spec.entryOf objs t f with
    | none => rfl
    | some e => rw [he] at hdis; cases hdis
  | some a =>
    rw [ha] at hdis
    have hmem : a ∈ sarms fl objs := List.mem_of_find?_eq_some ha
    have hnil := sarms_nil_eq_call fl hf objs a hmem
    cases he : ComplexitySwitch.Spec.entryOf objs t f with
    | none => rw [he] at hdis; cases hdis
    | some e =>
      rw [he] at hdis
      simp only [Option.map_some, Option.some.injEq] at hdis
      simp only [hnil, hdis, goEntry, GoRoot.bySchemaName]
      cases root (ucFirst e.1) e.2 <;> rfl

/-- what the body of a clause addresses is declared by `ComplexityRoot` (the entry is declared from the FIRST member of
    the group, the body is spelled from the LAST: both carry the group's Go name) -/
theorem root_declares_called_entry (fl : Flavour) (hf : Faithful fl) (o : GObject) (hr : o.reserved = false)
    (g : String × List GField) (hg : g ∈ uniqueFields o.fields) (hres : ∀ fd ∈ g.2, fd.reserved = false) :
    ∃ s es, rootDecl fl o = some (s, es) ∧ (sarmOf fl o g).callEntry.1 = s ∧ (sarmOf fl o g).callEntry.2 ∈ es := by
  obtain ⟨hv, hne⟩ := C14Gen.uniqueFields_groups o.fields g.1 g.2 hg
  have hall : ∀ fd ∈ g.2, fd.goName = g.1 := by
    intro fd hfd
    rw [hv, List.mem_filter] at hfd
    simpa using hfd.2
  refine ⟨_, _, by simp only [rootDecl, hf.rootObjGuard, hr, Bool.not_false, ↓reduceIte]; rfl, ?_, ?_⟩
  · simp only [sarmOf, hf.call, hf.rootStruct]
  · simp only [sarmOf, hf.call, hf.rootFieldGuard, hf.rootEntry, List.mem_filterMap]
    refine ⟨g, hg, ?_⟩
    cases hh : g.2.head? with
    | none => exact absurd (List.head?_eq_none_iff.mp hh) hne
    | some hd0 =>
      have hm : hd0 ∈ g.2 := List.mem_of_head? hh
      have hl : (bodyMember g).goName = g.1 := by
        unfold bodyMember
        cases hl : g.2.getLast? with
        | none => rfl
        | some l => exact hall l (List.mem_of_getLast? hl)
      simp [hres hd0 hm, hall hd0 hm, hl]

example : ∃ g, g ∈ uniqueFields [⟨"total", "Total", false⟩, ⟨"sum", "Total", false⟩, ⟨"cheap", "Cheap", false⟩]
    ∧ ∀ fd ∈ g.2, fd.reserved = false :=
  ⟨("Total", [⟨"total", "Total", false⟩, ⟨"sum", "Total", false⟩]), by decide, by decide⟩

/-! ## why the spelling matters -/

/-- the label spelled from the Go-mangled type name (`"{{ucFirst $object.Name}}.{{$field.Name}}"`, which "matches" the
    selectors below it) is not faithful: `type item { more: [item] }` with a function in `ComplexityRoot.Item.More` is
    looked up as `item.more`, no clause matches, and the field costs the default although the documented binding gives it
    that function -/
theorem mangled_label_witness :
    let fl : Flavour := { follow with label := [.sub (.ucFirst .objName), .lit ".", .sub .fieldName] }
    let objs : List GObject := [⟨"item", false, [⟨"more", "More", false⟩], []⟩]
    dispatchBy fl objs "item" "more" = none
      ∧ ComplexitySwitch.Spec.entryOf objs "item" "more" = some ("item", "More") ∧ ¬ Faithful fl := by
  refine ⟨by decide, by decide, fun h => ?_⟩
  have := h.label "item" ⟨"more", "More", false⟩
  revert this
  decide

/-! ## the KIND of the object (query / mutation / subscription root, ordinary type) does not matter -/

/-- the pair switch of `Model/ComplexitySwitch.lean` never looks at `GObject.attrs` -/
theorem dispatch_ignores_attrs (k : GObject → List String) (objs : List GObject) (t f : String) :
    dispatch (objs.map fun o => { o with attrs := k o }) t f = dispatch objs t f := by
  unfold dispatch arms
  rw [List.flatMap_map]
  rfl

/-- a faithful flavour dispatches by NAME only: relabel the objects' kinds (`$object.Root`, `$object.Stream`) in any way -
    make every object the subscription root, or none - and `Complexity()` calls the same entry for every `typeName.field` -/
theorem object_kind_irrelevant (fl : Flavour) (hf : Faithful fl) (k : GObject → List String) (objs : List GObject)
    (hd : ∀ o ∈ objs, NoDot o.name) (t f : String) (ht : NoDot t) :
    dispatchBy fl (objs.map fun o => { o with attrs := k o }) t f = dispatchBy fl objs t f := by
  rw [dispatchBy_eq_dispatch fl hf objs hd t f ht, dispatchBy_eq_dispatch fl hf _ _ t f ht, dispatch_ignores_attrs]
  intro o ho
  rw [List.mem_map] at ho
  obtain ⟨o', ho', rfl⟩ := ho
  exact hd o' ho'

/-- every non-reserved field of every non-reserved object - in particular of EVERY root: Query, Mutation and the
    Subscription root (`"Stream" ∈ o.attrs`) - has a clause, and the clause calls `ComplexityRoot.<UcFirst type>.<Go field>` -/
theorem every_object_field_dispatched (fl : Flavour) (hf : Faithful fl) (objs : List GObject) (hw : WellNamed objs)
    (hd : ∀ o ∈ objs, NoDot o.name) (o : GObject) (ho : o ∈ objs) (hr : o.reserved = false)
    (fd : GField) (hfd : fd ∈ o.fields) (hfr : fd.reserved = false) :
    dispatchBy fl objs o.name fd.name = some (ucFirst o.name, fd.goName) := by
  rw [dispatchBy_eq_dispatch fl hf objs hd o.name fd.name (hd o ho), C14Gen.switch_eq_binding objs hw,
    C14Gen.entryOf_of_bound objs hw o.name fd.name (o.name, fd.goName) ⟨o, ho, rfl, hr, fd, hfd, rfl, hfr, rfl⟩]
  rfl

/-- ... and so costs what the function the user stored there says (nil: no custom cost), whatever root it is a field of -/
theorem every_object_field_costs_its_function (fl : Flavour) (hf : Faithful fl) (objs : List GObject) (hw : WellNamed objs)
    (hd : ∀ o ∈ objs, NoDot o.name) (root : GoRoot) (o : GObject) (ho : o ∈ objs) (hr : o.reserved = false)
    (fd : GField) (hfd : fd ∈ o.fields) (hfr : fd.reserved = false) (child : Int) (args : Args) :
    switchCustomBy fl objs root o.name fd.name child args = (root (ucFirst o.name) fd.goName).map fun fn => fn child args := by
  rw [flavour_custom_eq_binding fl hf objs hw hd root o.name fd.name (hd o ho)]
  unfold ComplexitySwitch.Spec.boundCustom
  rw [C14Gen.entryOf_of_bound objs hw o.name fd.name (o.name, fd.goName) ⟨o, ho, rfl, hr, fd, hfd, rfl, hfr, rfl⟩]
  simp only [GoRoot.bySchemaName]
  cases root (ucFirst o.name) fd.goName <;> rfl

/-- a server with the three roots -/
def rootsDemo : List GObject :=
  [⟨"Query", false, [⟨"history", "History", false⟩, ⟨"__schema", "introspectSchema", true⟩], ["Root"]⟩,
   ⟨"Mutation", false, [⟨"bump", "Bump", false⟩], ["Root"]⟩,
   ⟨"Subscription", false, [⟨"events", "Events", false⟩], ["Root", "Stream"]⟩,
   ⟨"Event", false, [⟨"id", "ID", false⟩], []⟩]

example : WellNamed rootsDemo ∧ (∀ o ∈ rootsDemo, NoDot o.name) := by
  refine ⟨⟨by decide, ?_⟩, ?_⟩ <;>
  · intro o ho
    simp only [rootsDemo, List.mem_cons, List.not_mem_nil, or_false] at ho
    rcases ho with rfl | rfl | rfl | rfl <;> (try unfold NoDot) <;> decide

example : dispatchBy single rootsDemo "Subscription" "events" = some ("Subscription", "Events")
    ∧ dispatchBy follow rootsDemo "Subscription" "events" = some ("Subscription", "Events")
    ∧ dispatchBy single rootsDemo "Mutation" "bump" = some ("Mutation", "Bump")
    ∧ dispatchBy follow rootsDemo "Query" "history" = some ("Query", "History") := by decide

/-- the switch guarded by `{{ if and (not $object.IsReserved) (not $object.Stream) }}` while `ComplexityRoot` keeps its
    guard: the struct still offers `ComplexityRoot.Subscription.Events`, the documented binding gives `Subscription.events`
    that function, `Complexity("Subscription", "events", …)` matches no clause (the field costs the default, so a
    subscription above the limit is let through), queries and mutations are untouched; such a flavour is not `Faithful` -/
theorem stream_guard_witness :
    let fl : Flavour := { single with objGuard := .and (.not .objReserved) (.not (.objAttr "Stream")) }
    dispatchBy fl rootsDemo "Subscription" "events" = none
      ∧ rootDecl fl ⟨"Subscription", false, [⟨"events", "Events", false⟩], ["Root", "Stream"]⟩ = some ("Subscription", ["Events"])
      ∧ ComplexitySwitch.Spec.entryOf rootsDemo "Subscription" "events" = some ("Subscription", "Events")
      ∧ dispatchBy fl rootsDemo "Query" "history" = some ("Query", "History")
      ∧ dispatchBy fl rootsDemo "Mutation" "bump" = some ("Mutation", "Bump")
      ∧ ¬ Faithful fl := by
  refine ⟨by decide, by decide, by decide, by decide, by decide, fun h => ?_⟩
  have := h.objGuard (fun _ => true) false false
  revert this
  decide

end GqlgenVerif.Props.C14Label
