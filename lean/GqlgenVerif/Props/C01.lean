import GqlgenVerif.Lemmas.Exec
import GqlgenVerif.Lemmas.Collect
/-!
# C01 — generated executors implement GraphQL execution semantics (data and errors)

Property theorems over the execution model (`Model/Collect.lean`, `Model/Exec.lean`,
`Model/ExecSpec.lean`), for **all** shapes (hence all schemas, documents and variable values), all
oracles (every assignment of value / nil / error / panic to resolvers and pass / error / block to
schema directives) and all paths — no bound on depth, width or list length.

`Impl` mirrors the generated code's mechanism (per-object `Invalids` counter, `== graphql.Null`
identity tests, `HasFieldError` path lookups over a threaded error list). `Spec` is GraphQL §6.4
written directly (Option propagation; one error per originating failure, by construction).

The hypothesis `fieldsWF` says: response keys are distinct inside every collected field list. That is
what field collection guarantees when it groups by response key; gqlgen groups by (name, alias,
*related* ObjectDefinition) instead, so two selections of the same key under unrelated interface type
conditions stay separate — known finding F01, exhibited by `collect_dup_witness` below. The driver
evaluates `fieldsWfb` on every generated case and compares the Impl plan with the Spec plan
(§6.3.2 grouping by response key), so any other way of breaking the hypothesis is reported.
-/
namespace GqlgenVerif.C01
open GqlgenVerif

/-- **Execution = Spec.** For every root field plan with distinct response keys at every level and every
oracle, the generated executor's mechanism yields exactly the Spec's data, exactly the Spec's error
list (one entry per originating failure, at the failing position's path), exactly the Spec's
user-code invocations and recover count. -/
theorem exec_eq_spec (o : Oracle) (rootTy : String) (fields : List (FInfo × Shape))
    (hwf : fieldsWF fields) :
    Impl.execRoot o rootTy fields = Spec.execRoot o rootTy fields := by
  have h := fields_rel o rootTy fields [] {} hwf (by intro f _ x hx; simp at hx)
  obtain ⟨h1, h2, h3, _⟩ := h
  unfold Impl.execRoot Spec.execRoot
  simp only [St.empty_append] at h1
  cases hs : (Spec.completeFields o rootTy fields []).1 with
  | none =>
    have : (Impl.completeFields o rootTy fields [] {}).2.1 > 0 := h2.mpr hs
    simp [this, h1, hs]
  | some os =>
    have h0 : ¬ (Impl.completeFields o rootTy fields [] {}).2.1 > 0 := fun h => by
      have := h2.mp h; rw [hs] at this; cases this
    simp [h0, h1, h3 os hs, hs]

/-- the same from any state that holds no error yet (what the operation's directives leave behind) -/
theorem execRoot_from (o : Oracle) (rootTy : String) (fields : List (FInfo × Shape)) (hwf : fieldsWF fields)
    (st : St) (hst : st.errs = []) :
    (if (Impl.completeFields o rootTy fields [] st).2.1 > 0 then Out.null
      else .obj (Impl.completeFields o rootTy fields [] st).1, (Impl.completeFields o rootTy fields [] st).2.2) =
    ((Spec.execRoot o rootTy fields).1, st.append (Spec.execRoot o rootTy fields).2) := by
  have h := fields_rel o rootTy fields [] st hwf (by intro f _ x hx; rw [hst] at hx; cases hx)
  obtain ⟨h1, h2, h3, _⟩ := h
  unfold Spec.execRoot
  cases hs : (Spec.completeFields o rootTy fields []).1 with
  | none =>
    have : (Impl.completeFields o rootTy fields [] st).2.1 > 0 := h2.mpr hs
    simp [this, h1, hs]
  | some os =>
    have h0 : ¬ (Impl.completeFields o rootTy fields [] st).2.1 > 0 := fun h => by
      have := h2.mp h; rw [hs] at this; cases this
    simp [h0, h1, h3 os hs, hs]

/-- **Operation-level directives** (`_queryMiddleware` / `_mutationMiddleware`): the generated mechanism under
any chain of operation directives is the Spec's - they decide first, at the empty path, and the root selection
set is executed (exactly as without them) only when every one of them passes. -/
theorem execOp_eq_spec (o : Oracle) (rootTy : String) (fields : List (FInfo × Shape)) (opDirs : List String)
    (hwf : fieldsWF fields) :
    Impl.execOp o rootTy fields opDirs = Spec.execOp o rootTy fields opDirs := by
  unfold Impl.execOp Spec.execOp
  have hne := runDirs_noErrs o [] opDirs.reverse
  cases hr : Impl.runDirs o [] opDirs.reverse {} with
  | mk c e =>
    rw [hr] at hne
    cases c with
    | reached => simpa using execRoot_from o rootTy fields hwf e hne
    | err m => simp [St.addErr_eq]
    | block => simp [St.addErr_eq]
    | panic m =>
      simp only []
      congr 1
      apply St.ext' <;> simp [St.addErr]
    | missing d => simp [St.unlogged_eq]

/-- without operation directives `execOp` is `execRoot` -/
theorem execOp_nil (o : Oracle) (rootTy : String) (fields : List (FInfo × Shape)) :
    Impl.execOp o rootTy fields [] = Impl.execRoot o rootTy fields := by
  simp [Impl.execOp, Impl.execRoot, Impl.runDirs]

/-- a failing operation directive: `data` is null, its error is the only one, and nothing of the operation runs -/
theorem operation_directive_error_blocks_the_operation (o : Oracle) (rootTy : String)
    (fields : List (FInfo × Shape)) (d m : String) (h : o.dir [] d = .err m) :
    Spec.execOp o rootTy fields [d] = (.null, Spec.eff [⟨[], m⟩] [(pathStr [], "directive:" ++ d)]) := by
  simp only [Spec.execOp, List.reverse_cons, List.reverse_nil, List.nil_append, Impl.runDirs, h]
  first
    | rfl
    | (congr 1; apply St.ext' <;> simp [St.invoked])

/-- the decidable well-formedness the driver evaluates implies the hypothesis of `exec_eq_spec` -/
theorem wfb_sound : ∀ fields : List (FInfo × Shape), fieldsWfb fields = true → fieldsWF fields := by
  intro fields
  exact (fieldsWfb_sound fields)
where
  fieldsWfb_sound : ∀ fields : List (FInfo × Shape), fieldsWfb fields = true → fieldsWF fields
    | [], _ => by simp [fieldsWF]
    | (fi, sh) :: rest, h => by
      simp only [fieldsWfb, Bool.and_eq_true, List.all_eq_true, bne_iff_ne, ne_eq] at h
      simp only [fieldsWF]
      exact ⟨fun g hg => h.1.1 g hg, shapeWfb_sound sh h.1.2, fieldsWfb_sound rest h.2⟩
  shapeWfb_sound : ∀ sh : Shape, sh.wfb = true → sh.WF
    | .leaf _, _ => by simp [Shape.WF]
    | .obj _ _ cases, h => by
      simp only [Shape.wfb] at h
      simp only [Shape.WF]
      exact casesWfb_sound cases h
    | .list _ ec e, h => by
      simp only [Shape.wfb, Bool.and_eq_true, Bool.or_eq_true] at h
      simp only [Shape.WF]
      refine ⟨shapeWfb_sound e h.1, ?_⟩
      intro hec
      subst hec
      cases e with
      | leaf b => exact ⟨b, rfl⟩
      | obj _ _ _ => simp at h
      | list _ _ _ => simp at h
  casesWfb_sound : ∀ cases : List (String × List (FInfo × Shape)), casesWfb cases = true → casesWF cases
    | [], _ => by simp [casesWF]
    | (c, fs) :: rest, h => by
      simp only [casesWfb, Bool.and_eq_true] at h
      simp only [casesWF]
      exact ⟨fieldsWfb_sound fs h.1, casesWfb_sound rest h.2⟩

/-- **Response-key order.** The keys of a completed object are the response keys of the collected
fields, in collection order, whatever the resolvers did. -/
theorem key_order (o : Oracle) (ty : String) (fields : List (FInfo × Shape)) (p : Path) (st : St) :
    (Impl.completeFields o ty fields p st).1.map (·.1) = fields.map (·.1.alias) := by
  induction fields generalizing st with
  | nil => simp [Impl.completeFields]
  | cons f rest ih =>
    obtain ⟨fi, sh⟩ := f
    simp only [Impl.completeFields, List.map_cons]
    rw [ih]

/-- **`__typename`** is the concrete object type and invokes no user code. -/
theorem typename_is_concrete_type (o : Oracle) (ty alias : String) (p : Path) (st : St) :
    Impl.completeFields o ty [({ alias := alias, name := "__typename" }, Shape.leaf true)] p st =
      ([(alias, Out.leaf (quoteTypename ty))], 0, st) := by
  simp [Impl.completeFields, Out.isNull, Shape.nn]

/-- **Errors carry the path of the failing position**: every error a field's execution adds lies at or
below that field's response path. -/
theorem error_path_under_field (o : Oracle) (fi : FInfo) (sh : Shape) (p : Path) (st : St)
    (hwf : sh.WF) (hc : Clean st p) :
    (Impl.completeField o fi sh p st).2.errs = st.errs ++ (Spec.completeField o fi sh p).2.errs ∧
    ∀ x ∈ (Spec.completeField o fi sh p).2.errs, p <+: x.path := by
  have h := field_rel o fi sh p st hwf hc
  exact ⟨by rw [h.st_eq]; rfl, h.under⟩

/-- **Null stops at the nearest nullable ancestor**: a nullable position never propagates — whatever
happens below it, its parent sees a value (possibly null), never a failure. -/
theorem null_stops_at_nullable (o : Oracle) (sh : Shape) (v : V) (p : Path) (h : sh.nn = false) :
    (Spec.completeValue o sh v p).1 ≠ none := by
  intro hn
  have := (value_rel o sh v p {} (by
    -- WF is not needed for this direction: use the Spec definition directly
    exact absurd hn (by
      cases sh with
      | leaf nn =>
        simp only [Shape.nn] at h; subst h
        cases v <;> simp [Spec.completeValue, Spec.nilAt, Spec.failed]
      | obj nn ifc cases =>
        simp only [Shape.nn] at h; subst h
        cases v with
        | obj ty =>
          simp only [Spec.completeValue]
          cases Spec.completeCases o ty cases p with
          | none => simp [Spec.failed]
          | some r =>
            obtain ⟨r1, r2⟩ := r
            cases r1 <;> simp [Spec.failed]
        | _ => simp [Spec.completeValue, Spec.nilAt, Spec.failed]
      | list nn ec e =>
        simp only [Shape.nn] at h; subst h
        cases v with
        | list vs =>
          simp only [Spec.completeValue]
          cases hce : Spec.completeElems o e ec vs p 0 with
          | mk r1 r2 => cases r1 <;> simp [Spec.failed]
        | _ => simp [Spec.completeValue, Spec.failed])) (by intro x hx; simp at hx)).none_nn hn
  rw [h] at this; cases this

/-! ## Stage A: field collection -/

/-- **Field collection = §6.3.2 `CollectFields`.** For every document, fragment table, variable values
and concrete type: if gqlgen's slot test (`name`, `alias`, related `ObjectDefinition`) agrees with "same
response key" on the field occurrences that apply to the type (`AgreeOn`: what validation's
FieldsInSetCanMerge gives for the name, and what fails for two *unrelated* type conditions — F01), then
gqlgen's nested, incrementally merged collection returns exactly the Spec's grouping by response key:
same keys, same order of first appearance, same field names and definitions, same merged sub-selection
lists, same visited set — through any nesting of inline fragments and fragment spreads, `@skip`/`@include`
with literals or variables, and repeated spreads. (Deferral labels are not compared here: C13.) -/
theorem collect_eq_spec (s : Schema) (frags : List Frag) (vars : Vars) (sat : List String)
    (fuel : Nat) (sels : List Sel) (occs : List Spec.Occ) (vis' : List String)
    (h : Spec.occurrences frags vars (appliesOf sat) fuel sels none [] = some (occs, vis'))
    (hag : AgreeOn s (keysOf (oview occs))) :
    ∃ cfs, Impl.collect false s frags vars sat fuel sels [] [] = some (cfs, vis') ∧
      cview cfs = cview (Spec.group occs []) := by
  obtain ⟨cfs, h1, h2⟩ := collect_view s frags vars sat fuel sels [] [] none occs vis' h
    (by simpa [cview, keysOf] using hag)
  exact ⟨cfs, h1, by rw [h2, cview_group]⟩

/-- what the collected list looks like: response keys are distinct (so the `fieldsWF` hypothesis of
`exec_eq_spec` is what Stage A delivers) -/
theorem collected_keys_distinct (s : Schema) (frags : List Frag) (vars : Vars) (sat : List String)
    (fuel : Nat) (sels : List Sel) (occs : List Spec.Occ) (vis' : List String)
    (h : Spec.occurrences frags vars (appliesOf sat) fuel sels none [] = some (occs, vis'))
    (hag : AgreeOn s (keysOf (oview occs))) :
    ∃ cfs, Impl.collect false s frags vars sat fuel sels [] [] = some (cfs, vis') ∧
      (cfs.map (·.alias)).Nodup := by
  obtain ⟨cfs, h1, h2⟩ := collect_view s frags vars sat fuel sels [] [] none occs vis' h
    (by simpa [cview, keysOf] using hag)
  refine ⟨cfs, h1, ?_⟩
  have hu := Assoc.uniq_addAll κa (oview occs) (cview []) (by simp [cview, Assoc.Uniq, Assoc.keys])
  rw [← h2] at hu
  simpa [Assoc.Uniq, Assoc.keys, cview, cviewCF, κa, List.map_map, Function.comp_def] using hu

/-- **A repeated collection pass is absorbed.** gqlgen's `collectFields` appends a child's selections to
the freshly created slot a second time, so one level down the same selections are collected twice. This
is why that is harmless for the response: collecting a selection list again, from any visited set that
includes what the first pass visited, enters no fragment body, leaves the visited set unchanged, and
yields only occurrences (response key, field, sub-selection) that the first pass already yielded, in
order — so it creates no new response key and only repeats sub-selections already present. (Lifting
this to "the plan is unchanged for every position of the repetition" is not proved; the driver compares
the plan of the code's algorithm with the Spec plan on every generated case.) -/
theorem second_collection_pass_is_absorbed (frags : List Frag) (vars : Vars) (applies : String → Bool)
    (fuel : Nat) (l : List Sel) (dfr : Option String) (vis : List String) (os : List Spec.Occ)
    (v' : List String) (h : Spec.occurrences frags vars applies fuel l dfr vis = some (os, v'))
    (vis₂ : List String) (dfr₂ : Option String) (hsub : ∀ x, x ∈ v' → x ∈ vis₂) :
    ∃ os₂, Spec.occurrences frags vars applies fuel l dfr₂ vis₂ = some (os₂, vis₂) ∧
      (oview os₂).Sublist (oview os) :=
  occ_second_pass frags vars applies fuel l dfr vis os v' h vis₂ dfr₂ hsub

/-! ## non-vacuity and the known finding -/

/-- **F01 (known finding), as a theorem about the code's algorithm.** `T implements A & B` with `A`, `B`
unrelated; `{ ... on A { x } ... on B { x } }` collected for `T`: gqlgen keeps two entries for the
response key `x` (the resolver runs twice, the object gets a duplicate key); the Spec has one. The
hypothesis `AgreeOn` of `collect_eq_spec` is exactly what fails. -/
theorem collect_dup_witness :
    let s : Schema := { query := "Query", types := [
      { name := "A", kind := .interface }, { name := "B", kind := .interface },
      { name := "T", kind := .object, interfaces := ["A", "B"], implementors := ["T", "A", "B"] }] }
    let sels : List Sel := [.inline "A" [] [.field "x" "x" "A" [] []], .inline "B" [] [.field "x" "x" "B" [] []]]
    (Impl.collect true s [] [] ["T", "A", "B"] 10 sels [] []).map (fun r => r.1.map (·.alias)) = some ["x", "x"] ∧
    (Spec.occurrences [] [] (appliesOf ["T", "A", "B"]) 10 sels none []).map
      (fun r => (Spec.group r.1 []).map (·.alias)) = some ["x"] := by
  decide

/-! ### executable directives on field selections: the collected field carries those of its FIRST occurrence
(`CollectedField.Field` is the first `*ast.Field`; the generated `_fieldMiddleware` reads `fc.Field.Directives`) -/

/-- merging a later occurrence into a collected field never changes the directives any collected field carries,
and a new field gets the directives of this (its first) occurrence -/
theorem field_step_keeps_first_directives (s : Schema) (acc : List CF) (alias name objDef : String) (ss : List Sel)
    (fd : List String) :
    (match findSlot s acc name alias objDef with
      | some i => acc.modify i fun f => { f with sels := f.sels ++ ss }
      | none => acc ++ [({ alias, name, objDef, sels := ss, fdirs := fd } : CF)]).map CF.fdirs =
    match findSlot s acc name alias objDef with
      | some _ => acc.map CF.fdirs
      | none => acc.map CF.fdirs ++ [fd] := by
  cases findSlot s acc name alias objDef with
  | none => simp
  | some i =>
    have h := map_modify_comm acc i (fun f => { f with sels := f.sels ++ ss }) CF.fdirs id (fun x => rfl)
    have hid : ∀ (l : List (List String)) (k : Nat), l.modify k id = l := by
      intro l
      induction l with
      | nil => intro k; simp
      | cons a t ih => intro k; cases k with
        | zero => simp
        | succ j => simp only [List.modify_succ_cons, ih]
    simp only [h, hid]

/-- `{ a @x  a @y }` is one field, run under `@x` only; `{ a  a @y }` is one field with no directive -/
example :
    let s : Schema := { query := "Q", types := [{ name := "Q", kind := .object, implementors := ["Q"] }] }
    (Impl.collect false s [] [] ["Q"] 10
        [.field "a" "a" "Q" [{ name := "x" }] [], .field "a" "a" "Q" [{ name := "y" }] []] [] []).map
      (fun r => r.1.map CF.fdirs) = some [["x"]] ∧
    (Impl.collect false s [] [] ["Q"] 10
        [.field "a" "a" "Q" [] [], .field "a" "a" "Q" [{ name := "y" }] []] [] []).map
      (fun r => r.1.map CF.fdirs) = some [[]] := by
  decide

/-- `@skip` / `@include` / `@defer` are not run as field middleware -/
example : userDirs [{ name := "skip" }, { name := "x" }, { name := "include" }, { name := "defer" }] = ["x"] := by
  decide


/-- a plan with distinct keys: `{ a: x  t { y } }` -/
example : fieldsWF [({ alias := "a", name := "x" }, Shape.leaf false),
    ({ alias := "t", name := "t" }, Shape.obj false false [("T", [({ alias := "y", name := "y" }, Shape.leaf true)])])] := by
  simp [fieldsWF, Shape.WF, casesWF]

/-- a failing nullable root leaf: one error at its path, the field is null, the root object survives -/
example :
    Spec.execRoot { res := fun _ => .err "boom", dir := fun _ _ => .pass } "Query"
      [({ alias := "y", name := "y" }, Shape.leaf false)] =
    (.obj [("y", .null)],
      { errs := [⟨[.key "y"], "boom"⟩], invs := [(pathStr [.key "y"], "resolver")] }) := by
  simp [Spec.execRoot, Spec.completeFields, Spec.completeField, Impl.runDirs, Spec.failed, Shape.nn,
    St.append, Spec.eff, Oracle.outcome]

/-- the same failure at a non-null root field nulls the whole data -/
example :
    (Spec.execRoot { res := fun _ => .err "boom", dir := fun _ _ => .pass } "Query"
      [({ alias := "y", name := "y" }, Shape.leaf true)]).1 = .null := by
  simp [Spec.execRoot, Spec.completeFields, Spec.completeField, Impl.runDirs, Spec.failed, Shape.nn, Oracle.outcome]

end GqlgenVerif.C01
