import GqlgenVerif.Model.Exec
/-!
# C01 — generated executors implement GraphQL execution semantics (data and errors)

Property theorems over the execution model (`Model/Collect.lean`, `Model/Exec.lean`), for **all**
shapes (hence all schemas and documents), all oracles (every assignment of value / nil / error /
panic to resolvers and pass / error / block to schema directives) and all paths.
-/
namespace GqlgenVerif.C01
open GqlgenVerif

/-- **Response-key order.** The keys of a completed object are the response keys of the collected
fields, in collection order, whatever the resolvers did. -/
theorem key_order (o : Oracle) (ty : String) (fields : List (FInfo × Shape)) (p : Path) (st : St) :
    (Impl.completeFields o ty fields p st).1.map (·.1) = fields.map (·.1.alias) := by
  induction fields generalizing st with
  | nil => simp [Impl.completeFields]
  | cons f rest ih =>
    obtain ⟨fi, sh⟩ := f
    simp only [Impl.completeFields, List.map_cons]
    rw [ih]

/-- **`__typename`** is the concrete object type and invokes no user code. -/
theorem typename_is_concrete_type (o : Oracle) (ty alias : String) (p : Path) (st : St) :
    Impl.completeFields o ty [({ alias := alias, name := "__typename" }, Shape.leaf true)] p st =
      ([(alias, Out.leaf (quoteTypename ty))], 0, st) := by
  simp [Impl.completeFields, Out.isNull, Shape.nn]

example : (Impl.completeFields ⟨fun _ => .missing, fun _ _ => .missing⟩ "T"
    [({ alias := "a", name := "__typename" }, Shape.leaf true)] [] {}).1 = [("a", Out.leaf "\"T\"")] := by
  simp [Impl.completeFields, quoteTypename]

end GqlgenVerif.C01
