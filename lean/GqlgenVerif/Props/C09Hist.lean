import GqlgenVerif.Props.C09
import GqlgenVerif.Model.HttpHist
/-!
# C09 over request HISTORIES: the answer to a request does not depend on earlier requests

`Model/HttpHist.lean` serves a sequence of requests against one server that keeps a query cache, an APQ
cache and POST's pool of `*RawParams` between requests. The statement of C09 - status, content type and what
executes are decided by THIS request - then needs: whatever was sent before, the i-th answer is the answer
`Model/Http.serve` gives to the request on its own (`run_eq_ref`), so the seven sentences of the property
hold of every answer of every history (`history_satisfies_spec`) and a repeated request is answered like the
first time (`repeated_request_same_answer`).

The only thing earlier requests may legitimately change is what the APQ extension has been told (a hash
registered by an earlier request is resolved later): `reqOf` takes exactly that store and nothing else.

Tied to the source by `Gen/HttpHistory.lean` (regenerated on every run): `parseQueryProg` is parseQuery's
statement order - with `queryCache.Add` in front of the validation-error return `parseQuery_memoises` does
not close - and `postResetFields` the fields POST.Do's deferred function clears before `pool.Put`.
-/
namespace GqlgenVerif.Props.C09Hist
open GqlgenVerif.Http GqlgenVerif.Http.Spec GqlgenVerif.HttpHist GqlgenVerif.Gen.HttpHistory
open GqlgenVerif.Gen.HttpStatus

/-- the query cache holds only texts that parse, have an operation and validate -/
def CacheValid (w : World) (c : List Nat) : Prop :=
  ∀ q ∈ c, ∃ l, w.parses q = some l ∧ l ≠ [] ∧ w.valid q = true

/-- invariant of the server state: only validated documents are cached, the pooled params are clean -/
def Inv (w : World) (s : St) : Prop := CacheValid w s.qcache ∧ s.poolOp = ""

/-! ## regenerated facts -/

/-- in parseQuery the cache is filled after every error return (parse, no operation, validation) and
    looked up first -/
theorem cache_add_after_error_returns :
    parseQueryProg.head? = some .getHit ∧
    (∀ s ∈ [PQStep.retParseErr, .retNoOp, .retInvalid],
      parseQueryProg.idxOf s < parseQueryProg.idxOf .add ∧ s ∈ parseQueryProg) := by decide

/-- every field of RawParams a JSON body can set is cleared before the struct goes back to the pool -/
theorem post_pool_reset_complete : postPooled = true → ∀ f ∈ rawParamsJsonFields, f ∈ postResetFields := by
  decide

/-! ## the parse/validate cache is a memoisation of a pure function of the query text -/

theorem trusted_eq_outcome {w : World} {q : Nat} {l : List Op} (hp : w.parses q = some l) (hl : l ≠ [])
    (hv : w.valid q = true) : trusted w q = outcome w q := by
  unfold trusted outcome
  cases l with
  | nil => exact absurd rfl hl
  | cons a l => simp [hp, hv]

/-- parseQuery against a cache of validated documents answers what parsing + validating the text answers,
    and leaves a cache of validated documents (this is where the order of `parseQueryProg` matters) -/
theorem parseQuery_memoises (w : World) (q : Nat) (c : List Nat) (hc : CacheValid w c) :
    (runPQ w q parseQueryProg c).1 = outcome w q ∧ CacheValid w (runPQ w q parseQueryProg c).2 := by
  simp only [parseQueryProg, runPQ]
  by_cases hm : c.contains q = true
  · obtain ⟨l, hp, hl, hv⟩ := hc q (by simpa using hm)
    simp only [hm, if_true]
    exact ⟨trusted_eq_outcome hp hl hv, hc⟩
  · simp only [hm]
    cases hp : w.parses q with
    | none => simp [outcome, hp, hc]
    | some l =>
      cases l with
      | nil => simp [outcome, hp, hc]
      | cons a l =>
        cases hv : w.valid q with
        | false => simp [outcome, hp, hv, hc]
        | true =>
          simp only [Option.isNone_some, Bool.false_eq_true, if_false, if_true]
          refine ⟨trusted_eq_outcome hp (by simp) hv, ?_⟩
          intro x hx
          rcases List.mem_cons.mp hx with rfl | hx
          · exact ⟨a :: l, hp, by simp, hv⟩
          · exact hc x hx

/-- evictions keep the invariant -/
theorem cacheValid_filter {w : World} {c : List Nat} (keep : Nat → Bool) (hc : CacheValid w c) :
    CacheValid w (c.filter keep) :=
  fun q hq => hc q (List.mem_filter.mp hq).1

/-! ## one step -/

theorem supports_reqOf (w : World) (apq : List Nat) (h : HReq) (k : TKind) :
    supports k (reqOf w apq h) = supports k h.r := by
  unfold reqOf
  split <;> cases k <;> rfl

theorem getTransport_reqOf (w : World) (apq : List Nat) (h : HReq) (srv : List Transport) :
    getTransport srv (reqOf w apq h) = getTransport srv h.r := by
  unfold getTransport
  congr 1
  funext t
  exact supports_reqOf w apq h t.kind

theorem dec_reqOf (w : World) (apq : List Nat) (h : HReq) : (reqOf w apq h).dec = h.r.dec := by
  unfold reqOf; split <;> rfl

/-- a request whose envelope does not decode is answered without looking at the document -/
theorem doDocument_dec {t : Transport} {r r' : Req} {st : Nat} (hd : r.dec.bind (decodeStatus t.kind) = some st)
    (hdec : r'.dec = r.dec) (hacc : r'.accept = r.accept) : doDocument t r' = doDocument t r := by
  unfold doDocument
  simp [hdec, hd, hacc]

theorem method_reqOf (w : World) (apq : List Nat) (h : HReq) : (reqOf w apq h).method = h.r.method := by
  unfold reqOf; split <;> rfl

theorem accept_reqOf (w : World) (apq : List Nat) (h : HReq) : (reqOf w apq h).accept = h.r.accept := by
  unfold reqOf; split <;> rfl

/-- with a clean state the server answers the request as `serve` answers it on its own -/
theorem step_resp (w : World) (srv : List Transport) (s : St) (e : Ev) (hinv : Inv w s) :
    (step w srv s e).1 = serve srv (reqOf w s.apq e.req) := by
  obtain ⟨hc, hpool⟩ := hinv
  unfold step
  simp only
  cases ht : getTransport srv e.req.r with
  | none =>
    simp only [serve, getTransport_reqOf, ht, accept_reqOf]
  | some t =>
    simp only
    by_cases hk : t.kind = .options
    · simp only [hk, if_true, serve, getTransport_reqOf, ht, doOptions, method_reqOf]
    · simp only [hk, if_false]
      cases hd : e.req.r.dec.bind (decodeStatus t.kind) with
      | some st =>
        simp only [serve, getTransport_reqOf, ht, hk, if_false]
        exact (doDocument_dec hd (dec_reqOf w s.apq e.req) (accept_reqOf w s.apq e.req)).symm
      | none =>
        simp only [serve, getTransport_reqOf, ht, hk, if_false, hpool]
        have hop : (e.req.opNameSent.getD (if (t.kind = .post && postPooled) = true then "" else "")) =
            e.req.opNameSent.getD "" := by split <;> rfl
        unfold reqOf
        cases ha : apqStep s.apq e.req.query e.req.apqHash with
        | mk res apq' =>
          cases res with
          | error code => simp only [hop]
          | ok q => simp only [hop, (parseQuery_memoises w q s.qcache hc).1]

/-- … and leaves a clean state -/
theorem step_inv (w : World) (srv : List Transport) (s : St) (e : Ev) (hinv : Inv w s) :
    Inv w (step w srv s e).2 := by
  obtain ⟨hc, hpool⟩ := hinv
  have hr : poolResetsOpName = true := by decide
  unfold step
  simp only
  cases ht : getTransport srv e.req.r with
  | none => exact ⟨hc, hpool⟩
  | some t =>
    simp only
    by_cases hk : t.kind = .options
    · simp only [hk, if_true]; exact ⟨hc, hpool⟩
    · simp only [hk, if_false, hr, if_true]
      cases hd : e.req.r.dec.bind (decodeStatus t.kind) with
      | some st => exact ⟨hc, by simp only; split <;> simp [hpool]⟩
      | none =>
        simp only
        cases ha : apqStep s.apq e.req.query e.req.apqHash with
        | mk res apq' =>
          cases res with
          | error code => exact ⟨hc, by simp only; split <;> simp [hpool]⟩
          | ok q =>
            exact ⟨cacheValid_filter _ (parseQuery_memoises w q s.qcache hc).2, by simp only; split <;> simp [hpool]⟩

/-- what the APQ extension knows after a request is a function of what it knew and the request -/
theorem step_apq (w : World) (srv : List Transport) (s : St) (e : Ev) :
    (step w srv s e).2.apq = apqAfter srv s.apq e.req := by
  cases ht : getTransport srv e.req.r with
  | none => simp [step, apqAfter, reachesMutators, ht]
  | some t =>
    by_cases hk : t.kind = .options
    · simp [step, apqAfter, reachesMutators, ht, hk]
    · cases hd : e.req.r.dec.bind (decodeStatus t.kind) with
      | some st => simp [step, apqAfter, reachesMutators, ht, hk, hd]
      | none =>
        cases ha : apqStep s.apq e.req.query e.req.apqHash with
        | mk res apq' => cases res <;> simp [step, apqAfter, reachesMutators, ht, hk, hd, ha]

/-! ## histories -/

/-- THE history theorem: from a clean state every request of every history is answered as `serve` answers
    that request alone (given what APQ has been told): query cache, evictions and the params pool are
    invisible -/
theorem run_eq_ref (w : World) (srv : List Transport) (es : List Ev) :
    ∀ s, Inv w s → run w srv s es = runRef w srv s.apq es := by
  induction es with
  | nil => intro s _; rfl
  | cons e es ih =>
    intro s hinv
    simp only [run, runRef]
    rw [step_resp w srv s e hinv, ih _ (step_inv w srv s e hinv), step_apq]

theorem init_inv (w : World) : Inv w St.init := ⟨fun _ h => by simp [St.init] at h, rfl⟩

/-- the cache only ever holds validated documents, whatever was sent -/
theorem cache_only_validated (w : World) (srv : List Transport) (es : List Ev) :
    ∀ s, Inv w s → Inv w (es.foldl (fun s e => (step w srv s e).2) s) := by
  induction es with
  | nil => intro s h; exact h
  | cons e es ih => intro s h; exact ih _ (step_inv w srv s e h)

theorem reqOf_no_apq (w : World) (a b : List Nat) (h : HReq) (hn : h.apqHash = none) :
    reqOf w a h = reqOf w b h := by
  unfold reqOf apqStep; simp [hn]

theorem run_append (w : World) (srv : List Transport) (pre post : List Ev) :
    ∀ s, run w srv s (pre ++ post) =
      run w srv s pre ++ run w srv (pre.foldl (fun s e => (step w srv s e).2) s) post := by
  induction pre with
  | nil => intro s; rfl
  | cons e es ih => intro s; simp [run, ih]

/-- status, content type, body kind and what executes do not depend on the history: a request without a
    persistedQuery extension is answered after ANY earlier requests exactly as a fresh server answers it -/
theorem answer_independent_of_history (w : World) (srv : List Transport) (pre : List Ev) (e : Ev)
    (hn : e.req.apqHash = none) :
    run w srv St.init (pre ++ [e]) = run w srv St.init pre ++ [serve srv (reqOf w [] e.req)] := by
  rw [run_append]
  congr 1
  have hinv := cache_only_validated w srv pre St.init (init_inv w)
  simp only [run]
  rw [step_resp _ _ _ _ hinv, reqOf_no_apq w _ [] e.req hn]

/-- a request sent again (k-th repetition, anything in between) is answered like the first time -/
theorem repeated_request_same_answer (w : World) (srv : List Transport) (a b : List Ev) (e e' : Ev)
    (hreq : e'.req = e.req) (hn : e.req.apqHash = none) :
    ∃ o, run w srv St.init (a ++ [e]) = run w srv St.init a ++ [o] ∧
         run w srv St.init (a ++ [e] ++ b ++ [e']) = run w srv St.init (a ++ [e] ++ b) ++ [o] := by
  refine ⟨serve srv (reqOf w [] e.req), answer_independent_of_history w srv a e hn, ?_⟩
  have := answer_independent_of_history w srv (a ++ [e] ++ b) e' (by rw [hreq]; exact hn)
  rw [hreq] at this
  exact this

/-- the seven sentences of C09 hold of every answer of every history -/
theorem history_satisfies_spec (w : World) (srv : List Transport) (es : List Ev) :
    ∀ a, ∀ o ∈ runRef w srv a es, ∃ r, violations srv r o = [] ∧ o = serve srv r := by
  induction es with
  | nil => intro a o ho; simp [runRef] at ho
  | cons e es ih =>
    intro a o ho
    simp only [runRef, List.mem_cons] at ho
    rcases ho with rfl | ho
    · exact ⟨_, GqlgenVerif.Props.C09.serve_no_violations srv _, rfl⟩
    · exact ih _ o ho

/-! ## non-vacuity: the order matters. With `queryCache.Add` in front of the validation-error return the
    second identical invalid request is executed. -/

def wBad : World := { parses := fun _ => some [{ kind := .astQuery, name := "" }], valid := fun _ => false }

example : (runPQ wBad 1 [.getHit, .parse, .retParseErr, .retNoOp, .add, .validate, .retInvalid, .retOk] []) =
    (.invalid, [1]) := by decide
example : (runPQ wBad 1 [.getHit, .parse, .retParseErr, .retNoOp, .add, .validate, .retInvalid, .retOk] [1]).1 =
    .ops [{ kind := .astQuery, name := "" }] := by decide
example : (runPQ wBad 1 parseQueryProg []) = (.invalid, []) := by decide
/-- the invariant is satisfiable by a non-empty cache -/
example : CacheValid { parses := fun _ => some [{ kind := .astQuery, name := "" }], valid := fun _ => true } [1, 2] :=
  fun _ _ => ⟨_, rfl, by simp, rfl⟩

end GqlgenVerif.Props.C09Hist
