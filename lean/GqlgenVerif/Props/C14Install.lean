import GqlgenVerif.Lemmas.ExtInstall
import GqlgenVerif.Gen.ExtInstall
/-!
# C14 — the gate runs whenever an installed extension carries it

`Props/C14.lean` proves that `ComplexityLimit.MutateOperationContext`, *once the executor calls it*, lets nothing over the
limit through. This file is about the step before: that the executor calls it, however the limit was installed. The limit
may be the stock `extension.FixedComplexityLimit`, or a user type that embeds / delegates to `*extension.ComplexityLimit`
and implements further hook interfaces (parameter mutator, operation / response / field interceptors), registered among
other extensions in any order.

`Gen.ExtInstall.program` is what `processExtensions`, `(*Executor).Use` and `CreateOperationContext` say **now**
(regenerated on every run by `go/extract/extinstall.go`).

* `program_independent` — over the regenerated definition: every slot of `extensions` is filled by exactly one statement,
  an independent `if p, ok := p.(graphql.<I>); ok { … }` (not a clause of a type switch, which runs for the FIRST matching
  interface only), in a loop whose direction makes registration order the call order. This stops closing when
  `processExtensions` is rewritten so that implementing one hook hides another.
* `slot_eq_spec` — for every independent program, every list of extension types and every hook: the slot holds exactly the
  extensions that implement the hook, in registration order.
* `use_accepts_every_hook`, `create_runs_both_loops` — over the regenerated definition.
* `ctx_mutator_registered` — an extension whose type implements `OperationContextMutator` is among the context mutators the
  executor calls, whatever else it implements.
* `serve_eq_spec` — the server built from the regenerated facts = the contract `Spec.serve`.
* `installed_limit_runs_nothing`, `within_limits_runs`, `not_rejected_for_complexity_within_limits` — the gate, for every
  configuration.
* `type_switch_witness` — why independence matters: with the two mutator assertions as clauses of one type switch, a limit
  of 50 carried by an extension that also implements `OperationParameterMutator` lets complexity 20100 run.
-/
namespace GqlgenVerif.Props.C14Install
open GqlgenVerif GqlgenVerif.Complexity GqlgenVerif.ExtInstall GqlgenVerif.Lemmas.ExtInstall
open GqlgenVerif.Gen.ExtInstall

/-- `processExtensions` as it is now: one independent, order-preserving statement per slot -/
theorem program_independent : program.Independent = true := by decide

/-- `(*Executor).Use` accepts an extension for every one of the six hook interfaces -/
theorem use_accepts_every_hook : ∀ h : Hook, h ∈ program.useAccepts := by
  intro h; cases h <;> decide

/-- `CreateOperationContext` runs the parameter mutators, then the context mutators -/
theorem create_runs_both_loops : program.createLoops = [.param, .ctx] := by decide

/-- For every independent program: a slot holds exactly the registered extensions whose type implements the slot's
    interface — whatever else the type implements — in registration order. -/
theorem slot_eq_spec (p : Program) (hp : p.Independent = true) (exts : List (List Hook)) (h : Hook) :
    p.slot exts h = Spec.slot exts h := by
  unfold Program.Independent at hp
  have hh := (List.all_eq_true.mp hp) h (Hook.mem_all h)
  simp only [Bool.or_eq_true, beq_iff_eq] at hh
  unfold Program.slot Spec.slot
  rcases hh with hh | hh
  · rw [loops_appendForward h _ p.loops hh]; simp [sel]
  · rw [loops_wrapBackward h _ p.loops hh]; simp [sel]

example : program.Independent = true := program_independent

/-- an extension whose type implements `OperationContextMutator` IS one of the context mutators of the executor, whatever
    other hook interfaces the type implements and wherever it was registered -/
theorem ctx_mutator_registered (exts : List Ext) (i : Nat) (e : Ext) (hi : exts[i]? = some e) (hc : Hook.ctx ∈ e.hooks) :
    i ∈ program.slot (exts.map (·.hooks)) .ctx := by
  rw [slot_eq_spec program program_independent]
  unfold Spec.slot
  simp only [List.mem_map, List.mem_filter, decide_eq_true_eq]
  refine ⟨(i, e.hooks), ⟨?_, hc⟩, rfl⟩
  have := mem_number 0 (exts.map (·.hooks)) i e.hooks (by simp [hi])
  simpa using this

example : ([⟨[.param, .ctx, .op], .pass, .limit 5⟩] : List Ext)[0]? = some ⟨[.param, .ctx, .op], .pass, .limit 5⟩ ∧
    Hook.ctx ∈ [Hook.param, .ctx, .op] := by decide

/-- the server as the regenerated facts describe it = the contract -/
theorem serve_eq_spec (p : Program) (hp : p.Independent = true) (hc : Hook.param ∈ p.createLoops ∧ Hook.ctx ∈ p.createLoops)
    (exts : List Ext) (req : Req) : serveCfg p exts req = Spec.serve exts req := by
  unfold serveCfg Spec.serve
  simp only [hc.1, hc.2, ↓reduceIte, slot_eq_spec p hp, pick_spec_slot]

theorem gen_serve_eq_spec (exts : List Ext) (req : Req) : serveCfg program exts req = Spec.serve exts req :=
  serve_eq_spec program program_independent (by rw [create_runs_both_loops]; simp) exts req

/-- **Over the limit ⇒ nothing runs, however the limit was installed.** If any registered extension whose type implements
    `OperationContextMutator` carries a limit below the complexity of the operation to be executed, `Exec` is never called
    and the operation is rejected — whatever other hooks that extension or the others implement, in any order. -/
theorem installed_limit_runs_nothing (exts : List Ext) (req : Req) (e : Ext) (l : Int) (he : e ∈ exts)
    (hc : Hook.ctx ∈ e.hooks) (hl : e.c = .limit l) (hover : Spec.effective exts req > l) :
    (serveCfg program exts req).execCalls = 0 ∧ (serveCfg program exts req).rejected ≠ none := by
  rw [gen_serve_eq_spec]
  unfold Spec.serve
  cases hp : runM (pStep req) (Spec.having .param (·.p) exts) ⟨req.cSent, none, []⟩ with
  | error x => simp [finish]
  | ok st =>
    simp only
    have hcur := runP_cur req _ _ _ hp
    obtain ⟨i, hi⟩ := mem_having .ctx (·.c) exts e he hc
    rw [hl] at hi
    have ho : st.cur > l := by rw [hcur]; unfold Spec.effective at hover; exact hover
    obtain ⟨x, hx⟩ := runC_over _ st i l hi ho
    rw [hx]
    simp [finish]

example : Spec.effective [⟨[.param, .ctx], .pass, .limit 50⟩] ⟨20100, 3⟩ > 50 := by decide

/-- **Within every installed limit ⇒ not rejected**: when no mutator refuses for its own reasons and every installed limit
    is at or above the complexity, `Exec` runs once. -/
theorem within_limits_runs (exts : List Ext) (req : Req)
    (hp : ∀ e ∈ exts, ∀ c, e.p ≠ .fail c)
    (hc : ∀ e ∈ exts, e.c = .pass ∨ ∃ l, e.c = .limit l ∧ Spec.effective exts req ≤ l) :
    (serveCfg program exts req).execCalls = 1 ∧ (serveCfg program exts req).rejected = none := by
  rw [gen_serve_eq_spec]
  unfold Spec.serve
  obtain ⟨st, hst⟩ := runP_ok req (Spec.having .param (·.p) exts) ⟨req.cSent, none, []⟩ (by
    intro x hx c
    obtain ⟨e, he, _, hxe⟩ := of_mem_having .param (·.p) exts x hx
    rw [hxe]; exact hp e he c)
  rw [hst]
  simp only
  have hcur := runP_cur req _ _ _ hst
  obtain ⟨st', hst'⟩ := runC_ok (Spec.having .ctx (·.c) exts) st (by
    intro x hx
    obtain ⟨e, he, _, hxe⟩ := of_mem_having .ctx (·.c) exts x hx
    rw [hxe, hcur]
    exact hc e he)
  rw [hst']
  simp [finish]

example : Spec.effective [⟨[.param, .ctx], .pass, .limit 50⟩] ⟨50, 3⟩ ≤ 50 := by decide

/-- an operation at or below every installed limit is never rejected *for complexity* (other mutators may still refuse it
    with their own codes) -/
theorem not_rejected_for_complexity_within_limits (exts : List Ext) (req : Req)
    (hu : ∀ e ∈ exts, e.p ≠ .fail "COMPLEXITY_LIMIT_EXCEEDED" ∧ e.c ≠ .fail "COMPLEXITY_LIMIT_EXCEEDED")
    (hc : ∀ e ∈ exts, ∀ l, e.c = .limit l → Spec.effective exts req ≤ l) :
    (serveCfg program exts req).rejected ≠ some "COMPLEXITY_LIMIT_EXCEEDED" := by
  rw [gen_serve_eq_spec]
  unfold Spec.serve
  cases hp : runM (pStep req) (Spec.having .param (·.p) exts) ⟨req.cSent, none, []⟩ with
  | error x =>
    obtain ⟨code, st'⟩ := x
    obtain ⟨i, hi⟩ := runP_error req _ _ code st' hp
    obtain ⟨e, he, _, hxe⟩ := of_mem_having .param (·.p) exts _ hi
    simp only [finish, ne_eq, Option.some.injEq]
    intro hcode
    subst hcode
    exact (hu e he).1 hxe.symm
  | ok st =>
    simp only
    have hcur := runP_cur req _ _ _ hp
    cases hr : runM cStep (Spec.having .ctx (·.c) exts) st with
    | ok st' => simp [finish]
    | error x =>
      obtain ⟨code, st'⟩ := x
      simp only [finish, ne_eq, Option.some.injEq]
      intro hcode
      subst hcode
      rcases runC_error _ st _ st' hr with ⟨i, hi⟩ | ⟨i, l, hi, ho, _⟩
      · obtain ⟨e, he, _, hxe⟩ := of_mem_having .ctx (·.c) exts _ hi
        exact (hu e he).2 hxe.symm
      · obtain ⟨e, he, _, hxe⟩ := of_mem_having .ctx (·.c) exts _ hi
        have := hc e he l hxe.symm
        unfold Spec.effective at this
        rw [hcur] at ho
        dsimp only at ho
        split at this <;> simp_all <;> omega

/-- `processExtensions` with the two mutator assertions as clauses of ONE type switch -/
def switchedProgram : Program :=
  { program with loops := [⟨.backward, [.ifAssert .op ⟨.op, .wrap⟩, .ifAssert .resp ⟨.resp, .wrap⟩,
                                       .ifAssert .rootField ⟨.rootField, .wrap⟩, .ifAssert .field ⟨.field, .wrap⟩]⟩,
                           ⟨.forward, [.typeSwitch [(.param, ⟨.param, .append⟩), (.ctx, ⟨.ctx, .append⟩)]]⟩] }

/-- with a type switch the limit of an extension that also implements `OperationParameterMutator` is never consulted:
    complexity 20100 under limit 50 runs; the stock extension alone is still honoured; the program is not independent -/
theorem type_switch_witness :
    serveCfg switchedProgram [⟨[.param, .ctx], .pass, .limit 50⟩] ⟨20100, 0⟩ = ⟨1, none, none, [(.param, 0)]⟩ ∧
    (serveCfg switchedProgram [⟨[.ctx], .pass, .limit 50⟩] ⟨20100, 0⟩).execCalls = 0 ∧
    Spec.serve [⟨[.param, .ctx], .pass, .limit 50⟩] ⟨20100, 0⟩ =
      ⟨0, some "COMPLEXITY_LIMIT_EXCEEDED", some (20100, 50), [(.param, 0), (.ctx, 0)]⟩ ∧
    switchedProgram.Independent = false := by decide

end GqlgenVerif.Props.C14Install
