import GqlgenVerif.Model.DirArgs
/-!
# C17 — every use of a schema directive: the locals the generated closure declares are exactly the locals the call names
(dimension "how directive arguments are given at each use")

`implDirectives` (directives.gotpl) declares `dirArg_<name>` per argument, `ResolveArgs` (directive.go) names the local
or `nil` in the call - two independent decisions that the Go compiler holds against each other (`undefined: dirArg_max`
/ `declared and not used`). The theorems are stated over `Gen/DirArgRule.lean`, regenerated from both sites and from
the code that builds the `FieldArgument` of a use; they stop closing when one site starts to look at something else
than the other (e.g. the definition's `DefaultValue` instead of the effective `Value` / `Default`).
-/
namespace GqlgenVerif.Props.C17DirArgs
open GqlgenVerif GqlgenVerif.DirArgs GqlgenVerif.Gen

/-- the shapes the model reads from the regenerated facts -/
theorem dirarg_rules_expected :
    DirArgRule.localPrefix = "dirArg_" ∧ DirArgRule.nilLiteral = "nil" ∧
    DirArgRule.useValueInit = "a.Default" ∧ DirArgRule.useValueWhenGiven = "argValues[a.Name]" ∧
    DirArgRule.defDefaultFrom = "arg.DefaultValue.Value(nil)" ∧
    DirArgRule.declChain.map (·.1) = ["Value", "Default"] := by decide

/-- both template flavours declare the same local from the same value, and the local carries ResolveArgs' prefix -/
theorem flavour_arms_agree :
    ∀ l ∈ DirArgRule.declChain, l.2.length = 2 ∧ ∀ a ∈ l.2, a = (DirArgRule.localPrefix, l.1) := by decide

/-- the model can read the regenerated facts for every definition x use -/
theorem useArg_defined : ∀ d u, (useArg d u).isSome = true := by
  intro d u; cases d <;> cases u <;> decide

/-- **passed_local_iff_declared**: for EVERY FieldArgument (whatever its Value, Default and DefaultValue), in both
flavours: the call names a local iff the closure declares one, under the same name -/
theorem passed_local_iff_declared : ∀ (a : Arg) (fl : Nat), fl < 2 → passed a = (declared fl a).map (·.1) := by
  intro ⟨v, df, b⟩ fl hfl
  have : fl = 0 ∨ fl = 1 := by omega
  rcases this with rfl | rfl <;> cases v <;> cases df <;> cases b <;> decide

/-- **directive_closure_matches_effective_value**: every default in the definition (none / `= null` / a value) x every
way to give the argument at a use (omitted / `null` / a value) x both flavours: a local is declared iff the effective
value is non-null, it is unmarshalled from the effective value, and the call passes that local, else `nil` -/
theorem directive_closure_matches_effective_value : ∀ d u fl, fl < 2 → closureOk fl d u = true := by
  intro d u fl hfl
  have : fl = 0 ∨ fl = 1 := by omega
  rcases this with rfl | rfl <;> cases d <;> cases u <;> decide

/-- an explicit `null` switches a default off: no local, `nil` is passed (the seeded shape `@limit(max: null)` with
`max: Int = 100`) -/
theorem null_over_default_passes_nil :
    (useArg .value .null).map passed = some none ∧ (useArg .value .null).map (declared 0) = some none ∧
    (useArg .null .omitted).map passed = some none ∧ (useArg .value .omitted).map passed = some (some "dirArg_") := by decide

/-- the defect shape IS expressible: a decision that looks at the definition's default instead of the effective default
names a local nobody declared -/
theorem definition_default_witness :
    let a : Arg := ⟨.nil, .nil, false⟩   -- `max: Int = 100` applied as `@limit(max: null)`
    (fun (valueNil _ defDefaultNil : Bool) => valueNil && defDefaultNil) (a.value == .nil) (a.default == .nil) a.defDefaultNil = false ∧
    declared 0 a = none := by decide

end GqlgenVerif.Props.C17DirArgs
