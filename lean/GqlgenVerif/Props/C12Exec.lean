import GqlgenVerif.Lemmas.StreamGuard
import GqlgenVerif.Gen.ExecBuf
/-!
# C12 — the payloads a transport HOLDS are the payloads the operation produced

The multipart theorems of `Props/C12.lean` are about payload VALUES. `multipartResponseAggregator` holds
`*graphql.Response` pointers between two flush ticks while `MultipartMixed.Do` already asks for the next
response; `Data` is `buf.Bytes()` of the buffer the GENERATED `executableSchema.Exec` marshalled into.
`Gen/ExecBuf.lean` is read off servers generated at check time from the current templates (both
flavours) by `go/extract/execbuf.go`.
-/
namespace GqlgenVerif.Props.C12Exec
open GqlgenVerif GqlgenVerif.Stream GqlgenVerif.StreamAlias

/-- with a buffer per response, whatever the interleaving of `Add`s and flush ticks: every flush reads,
    through the pointers it holds, exactly the bytes that were produced -/
theorem fresh_buffers_no_alias (ps : List Bytes) (sched : List Step) :
    ∀ g ∈ (aliasRun true ps sched).out, ∀ pr ∈ g, pr.1 = pr.2 :=
  (good_run ps _ _ (good_init ps)).out

/-- ... and every payload is read exactly once, in order -/
theorem fresh_buffers_deliver_all (ps : List Bytes) (sched : List Step) :
    (aliasRun true ps sched).out.flatten.map Prod.fst = ps := by
  have g := good_run ps (sched ++ List.replicate ps.length Step.main ++ [Step.tick]) _ (good_init ps)
  have hout : (aliasRun true ps sched).out.flatten.map Prod.fst = (aliasRun true ps sched).out.flatten.map Prod.snd := by
    apply List.map_congr_left
    intro pr hpr
    rcases List.mem_flatten.1 hpr with ⟨grp, hg, hp⟩
    exact g.out grp hg pr hp
  rw [hout]
  have hall := g.all
  -- after the final flush nothing is held, and the loop has run to its end
  have hheld : (aliasRun true ps sched).held = [] := by
    simp [aliasRun, List.foldl_append, ASt.step]
  have htodo : (aliasRun true ps sched).todo = [] := by
    have h1 := todo_after_mains true ps.length (sched.foldl (ASt.step true) (aInit ps))
    have h2 : (sched.foldl (ASt.step true) (aInit ps)).todo.length ≤ ps.length := todo_le_run true sched (aInit ps)
    have : (aliasRun true ps sched).todo.length = 0 := by
      simp only [aliasRun, List.foldl_append, List.foldl_cons, List.foldl_nil, ASt.step]
      rw [h1]
      omega
    exact List.length_eq_zero_iff.1 this
  have : (aliasRun true ps sched) = (sched ++ List.replicate ps.length Step.main ++ [Step.tick]).foldl (ASt.step true) (aInit ps) := rfl
  rw [← this, hheld, htodo] at hall
  simpa using hall

/-- why the buffer must not be shared: declared outside the response handler (`buf.Reset()` per call),
    two payloads added before a flush - the first one is read as the second one -/
theorem shared_buffer_witness :
    (aliasRun false [[0x61], [0x62]] [.main, .main]).out = [[([0x62], [0x61]), ([0x62], [0x62])]] := by
  decide

/-- EVERY arm of the generated `Exec` marshals each response into a buffer of its own and returns a
    response object of its own (regenerated from servers generated from the current templates): a transport
    may hold whatever it is handed while the next response is built - `MultipartMixed` does for every kind
    of operation. (The subscription arm shared one buffer until fix 642e357.) -/
theorem exec_arms_fresh : ∀ a ∈ Gen.ExecBuf.execArms, a.fresh = true ∧ a.freshResp = true := by
  decide

/-- not vacuous: every generated package has the arm that produces incremental payloads -/
theorem exec_has_incremental_arm : (Gen.ExecBuf.execArms.filter (·.setsHasNext)).length ≥ 1 ∧
    ∀ a ∈ Gen.ExecBuf.execArms, a.arm = "Query" → a.setsHasNext = true := by
  decide

/-- **held_payloads_stable** — for every arm of the generated `Exec`: whatever the operation produces and
    however `Add`s and flush ticks interleave, what the aggregator reads through the pointers it holds is what
    was produced, each payload once, in order -/
theorem held_payloads_stable : ∀ a ∈ Gen.ExecBuf.execArms,
    ∀ (ps : List Bytes) (sched : List Step),
      (aliasRun a.fresh ps sched).out.flatten.map Prod.fst = ps := by
  intro a ha ps sched
  rw [(exec_arms_fresh a ha).1]
  exact fresh_buffers_deliver_all ps sched

/-- the content Spec for streams outside the hasNext shape holds on the model's stream of two payloads
    without hasNext flushed separately, and fails when the first payload is replaced by the second -/
example : mpContentSpec canonMp [⟨[0x7B, 0x7D], false⟩, ⟨[0x7B, 0x31, 0x7D], false⟩]
    (mpStream canonMp [0x2D] [⟨[0x7B, 0x7D], false⟩, ⟨[0x7B, 0x31, 0x7D], false⟩] [.main, .tick]) = true := by decide
example : mpContentSpec canonMp [⟨[0x7B, 0x7D], false⟩, ⟨[0x7B, 0x31, 0x7D], false⟩]
    (mpStream canonMp [0x2D] [⟨[0x7B, 0x31, 0x7D], false⟩, ⟨[0x7B, 0x31, 0x7D], false⟩] [.main, .tick]) = false := by decide

end GqlgenVerif.Props.C12Exec
