import GqlgenVerif.Gen.BuildGuards
/-!
# C17 — exec layout follow-schema: no pass of `generatePerSchema` dereferences a missing build, whatever the schema
files contain (dimension "what a schema file of a multi-file project contains")

`codegen.generatePerSchema` creates the build of a schema file in the first pass that meets an element of that file.
Which pass that is depends on the file's contents (objects: first pass; only interfaces / unions: third; only enums /
scalars: fourth), so the create-if-missing arm of EVERY pass is live. The theorems are stated over
`Gen/BuildGuards.lean`, the statements of each pass's loop body in source order, regenerated from
`codegen/generate.go` on every run: they stop closing when a pass looks the build up before it makes sure that it
exists (`build := (*builds)[filename]; if build == nil { addBuild(…) }; build.X` - the local stays nil).
-/
namespace GqlgenVerif.Props.C17Files
open GqlgenVerif GqlgenVerif.Builds GqlgenVerif.Gen

/-- the passes the extractor found, and what each ranges over -/
theorem passes_expected :
    BuildGuards.passes.map (fun p => (p.1, p.2.1)) =
      [("addObjects", "Objects"), ("addInputs", "Inputs"), ("addInterfaces", "Interfaces"),
       ("addReferencedTypes", "ReferencedTypes")] := by decide

/-- **every_pass_reaches_a_build**: in each pass of the regenerated table, whether or not the element's file already
has a build, the loop body dereferences no nil build and the file has a build afterwards -/
theorem every_pass_reaches_a_build : ∀ p ∈ BuildGuards.passes, safe p.2.2 = true := by decide

/-- the defect shape the dimension was added for IS expressible: looking the build up before the guard leaves the
local nil for a file without a build -/
theorem lookup_before_guard_witness :
    iter [.load, .ifVarNil 1, .create, .useVar] false = none ∧
    iter [.load, .ifVarNil 1, .create, .useVar] true ≠ none ∧
    safe [.load, .ifVarNil 1, .create, .useVar] = false := by decide

/-- non-vacuity of `safe`: the guard-then-use shape of addObjects -/
example : safe [.ifMapNil 1, .create, .useMap, .useMap] = true := by decide

theorem iter_of_safe {steps : List Step} (h : safe steps = true) (p : Bool) :
    ∃ s, iter steps p = some s ∧ s.present = true := by
  unfold safe at h
  simp only [List.all_cons, List.all_nil, Bool.and_true, Bool.and_eq_true] at h
  cases p
  · cases hi : iter steps false with
    | none => simp [hi] at h
    | some s => exact ⟨s, rfl, by simpa [hi] using h.2⟩
  · cases hi : iter steps true with
    | none => simp [hi] at h
    | some s => exact ⟨s, rfl, by simpa [hi] using h.1⟩

/-- a safe pass over ANY list of elements, from ANY set of builds: no panic, and afterwards exactly the old builds and
the files of the elements have a build, none twice -/
theorem runPass_of_safe {steps : List Step} (h : safe steps = true) :
    ∀ (fs b : List String), b.Nodup →
      ∃ b', runPass steps fs b = some b' ∧ b'.Nodup ∧ ∀ f, f ∈ b' ↔ f ∈ b ∨ f ∈ fs := by
  intro fs
  induction fs with
  | nil => intro b hb; exact ⟨b, rfl, hb, by simp⟩
  | cons f fs ih =>
    intro b hb
    obtain ⟨s, hs, hp⟩ := iter_of_safe h (b.contains f)
    by_cases hc : f ∈ b
    · obtain ⟨b', hr, hn, hm⟩ := ih b hb
      refine ⟨b', ?_, hn, ?_⟩
      · rw [runPass, hs]
        simp [hc, hr]
      · intro g
        rw [hm g]
        constructor
        · rintro (h1 | h1)
          · exact Or.inl h1
          · exact Or.inr (List.mem_cons_of_mem _ h1)
        · rintro (h1 | h1)
          · exact Or.inl h1
          · rcases List.mem_cons.mp h1 with h2 | h2
            · exact Or.inl (h2 ▸ hc)
            · exact Or.inr h2
    · have hb' : (b ++ [f]).Nodup := by
        rw [List.nodup_append]
        refine ⟨hb, by simp, ?_⟩
        intro a ha c hcm
        have : c = f := by simpa using hcm
        intro hac
        exact hc (this ▸ hac ▸ ha)
      obtain ⟨b', hr, hn, hm⟩ := ih (b ++ [f]) hb'
      refine ⟨b', ?_, hn, ?_⟩
      · rw [runPass, hs]
        simp [hc, hp, hr]
      · intro g
        rw [hm g]
        simp [or_assoc]

/-- safe passes in sequence -/
theorem runAll_of_safe :
    ∀ (ps : List (List Step)), (∀ p ∈ ps, safe p = true) →
      ∀ (es : List (List String)) (b : List String), es.length = ps.length → b.Nodup →
        ∃ b', runAll ps es b = some b' ∧ b'.Nodup ∧ ∀ f, f ∈ b' ↔ f ∈ b ∨ f ∈ es.flatten := by
  intro ps
  induction ps with
  | nil =>
    intro _ es b hl hb
    have : es = [] := List.length_eq_zero_iff.mp (by simpa using hl)
    subst this
    exact ⟨b, rfl, hb, by simp⟩
  | cons p ps ih =>
    intro hs es b hl hb
    cases es with
    | nil => simp at hl
    | cons e es =>
      obtain ⟨b1, hr1, hn1, hm1⟩ := runPass_of_safe (hs p (List.mem_cons_self ..)) e b hb
      obtain ⟨b2, hr2, hn2, hm2⟩ := ih (fun q hq => hs q (List.mem_cons_of_mem _ hq)) es b1 (by simpa using hl) hn1
      refine ⟨b2, ?_, hn2, ?_⟩
      · simp [runAll, hr1, hr2]
      · intro f
        rw [hm2 f, hm1 f]
        simp only [List.flatten_cons, List.mem_append]
        constructor
        · rintro ((h1 | h1) | h1)
          · exact Or.inl h1
          · exact Or.inr (Or.inl h1)
          · exact Or.inr (Or.inr h1)
        · rintro (h1 | h1 | h1)
          · exact Or.inl (Or.inl h1)
          · exact Or.inl (Or.inr h1)
          · exact Or.inr h1

/-- **generatePerSchema_never_dereferences_a_missing_build**: for EVERY distribution of objects, inputs, interfaces /
unions and referenced types over schema files (per pass the files of its elements, any order, any repetitions) the
regenerated passes finish without a nil dereference, and a file gets a build - exactly one - iff it declares an
element of some pass (Spec `specFiles`) -/
theorem generatePerSchema_never_dereferences_a_missing_build (es : List (List String))
    (h : es.length = BuildGuards.passes.length) :
    ∃ out, runAll (BuildGuards.passes.map (·.2.2)) es [] = some out ∧ out.Nodup ∧
      ∀ f, f ∈ out ↔ f ∈ specFiles es := by
  have hs : ∀ p ∈ BuildGuards.passes.map (·.2.2), safe p = true := by
    intro p hp
    obtain ⟨q, hq, rfl⟩ := List.mem_map.mp hp
    exact every_pass_reaches_a_build q hq
  obtain ⟨out, hr, hn, hm⟩ := runAll_of_safe _ hs es [] (by simpa using h) List.nodup_nil
  refine ⟨out, hr, hn, fun f => ?_⟩
  rw [hm f]
  simp [specFiles, List.mem_eraseDups]

/-- non-vacuity: the seeded project (schema.graphqls with Query and two objects, abstract.graphqls with only an
interface and a union): both files get a build, the second one in the third pass -/
example : runAll (BuildGuards.passes.map (·.2.2))
    [["schema", "schema", "schema", "prelude"], [], ["abstract", "abstract"], ["schema", "abstract", "prelude"]] [] =
    some ["schema", "prelude", "abstract"] := by decide

end GqlgenVerif.Props.C17Files
