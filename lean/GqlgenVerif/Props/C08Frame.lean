import GqlgenVerif.Model.JsonFrame
import GqlgenVerif.Props.C08
/-!
# C08 (framing) — every composition of objects and lists is valid JSON denoting the value

For **every** tree of marshalers (any nesting depth, any keys including invalid UTF-8, any number
of entries), the bytes written by `FieldSet.MarshalGQL` / `Array.MarshalGQL` are in the JSON grammar
and denote the original tree with strings and keys sanitised.
-/
namespace GqlgenVerif.C08
open GqlgenVerif

mutual
theorem render_parses : ∀ v : JV, Parses (render v) (clean v)
  | .null => by simp only [render, clean]; exact Parses.null
  | .tru => by simp only [render, clean]; exact Parses.tru
  | .fls => by simp only [render, clean]; exact Parses.fls
  | .str s => by simp only [render, clean]; exact Parses.str (quoted_decodes s)
  | .int i => by simp only [render, clean]; exact Parses.int (int_text_roundtrip i)
  | .arr [] => by simp only [render, clean, renderElems, cleanList]; exact Parses.arrEmpty
  | .arr (x :: xs) => by
    simp only [render, clean]
    exact Parses.arr (by simpa [renderElems, cleanList] using elems_parse (x :: xs) x xs rfl)
  | .obj [] => by simp only [render, clean, renderMembers, cleanMembers]; exact Parses.objEmpty
  | .obj ((k, v) :: kvs) => by
    simp only [render, clean]
    exact Parses.obj (by simpa [renderMembers, cleanMembers] using members_parse ((k, v) :: kvs) k v kvs rfl)

theorem elems_parse : ∀ (l : List JV) (x : JV) (xs : List JV), l = x :: xs →
    ParsesElems (render x ++ renderElems xs false) (clean x :: cleanList xs)
  | [], _, _, h => by cases h
  | [x0], x, xs, h => by
    cases h
    simp only [renderElems, cleanList, List.append_nil]
    exact ParsesElems.one (render_parses x0)
  | x0 :: y :: ys, x, xs, h => by
    cases h
    simp only [renderElems, cleanList, Bool.false_eq_true, ↓reduceIte, List.append_assoc,
      List.cons_append, List.nil_append]
    exact ParsesElems.cons (render_parses x0) (elems_parse (y :: ys) y ys rfl)

theorem members_parse : ∀ (l : List (Bytes × JV)) (k : Bytes) (v : JV) (kvs : List (Bytes × JV)),
    l = (k, v) :: kvs →
    ParsesMembers (writeQuoted k ++ 0x3A :: (render v ++ renderMembers kvs false))
      ((sanitize k, clean v) :: cleanMembers kvs)
  | [], _, _, _, h => by cases h
  | [(k0, v0)], k, v, kvs, h => by
    cases h
    simp only [renderMembers, cleanMembers, List.append_nil]
    exact ParsesMembers.one (quoted_decodes k0) (render_parses v0)
  | (k0, v0) :: (k2, v2) :: rest, k, v, kvs, h => by
    cases h
    simp only [renderMembers, cleanMembers, Bool.false_eq_true, ↓reduceIte, List.append_assoc,
      List.cons_append, List.nil_append]
    exact ParsesMembers.cons (quoted_decodes k0) (render_parses v0)
      (members_parse ((k2, v2) :: rest) k2 v2 rest rfl)
end

/-- non-vacuity: a nested value with an invalid-UTF-8 key -/
example : Parses (render (.obj [([0xFF], .arr [.int (-1), .null])]))
    (.obj [([0xEF, 0xBF, 0xBD], .arr [.int (-1), .null])]) := by
  have h := render_parses (.obj [([0xFF], .arr [.int (-1), .null])])
  have hs : sanitize [0xFF] = [0xEF, 0xBF, 0xBD] := by
    rw [sanitize_some (c := .bad 0xFF) (r := []) (by decide), sanitize_none (by decide)]; rfl
  simpa [clean, cleanMembers, cleanList, hs] using h

end GqlgenVerif.C08
