import GqlgenVerif.Lemmas.Defer
import GqlgenVerif.Lemmas.DeferSpec
import GqlgenVerif.Lemmas.DeferSched
/-!
# C13 — `@defer` changes delivery, not content

Model: `Model/Defer.lean` (`D.*`: the generated executor's handling of deferred fields and groups,
validated payload-for-payload against generated servers) and the Spec completion of `Model/ExecSpec.lean`.

Proved (all field lists, oracles, paths):
* `each_deferred_field_in_exactly_one_group` — grouping by label is a partition of the deferred fields.
* `groups_deliver_plain_values` — whenever the plain completion of an object succeeds, every group of that
  object completes to exactly the plain key/value pairs of its fields and reports only errors the plain
  completion reports; so does the non-deferred remainder (the initial payload's part of the object).
* `failure_in_group_stays_in_group` — a group is completed separately from the object: its failure makes
  only its own payload null (the cut the property allows).
* `has_next_shape`, `sequence_ends` — on the counter model of the query response function: `hasNext` is
  true on every payload but the last and the sequence has exactly one payload per started group.

**Not proved, negated by witness in the harness corpus and listed as known findings**: the ordering clause.
F13a: a group nested in another group's subtree can be delivered before the group that delivers its
object; F13b: a group whose object was removed from the initial payload by null propagation from a
sibling is still delivered (its path cannot be found). The merge theorem is stated for one object level
over the Spec (`one_level_client_merge`: setting the keys of the groups' payloads into the initial object, in any
arrival order, with the client merge `DeferSpec.setKeys` that the statement itself uses, gives the plain object); the multi-level statement is `DeferSpec.check` (`Model/DeferSpec.lean`: the client's merge in
arrival order, equality with the plain result modulo the cut, errors, each group once, `hasNext`), an
executable Lean definition that the driver evaluates on every generated case - on the implementation's own
payload sequence and on the defer model's - against the implementation's plain run; here it is shown to
accept what it must (`statement_accepts_plain_response`) and to reject concrete wrong sequences
(`statement_rejects_*`). That the defer model's sequence satisfies `check` for every plan is not a theorem.

The worklist of started groups (`D.runGroups`, the function the C13 driver runs) is characterised for every plan,
oracle and fuel (`Lemmas/DeferSched.lean`): `every_started_group_is_delivered_once` (one payload per scheduled group
with that group's path and label; the scheduled groups are the initially started ones followed by the groups the
delivered ones start - the breadth-first equation - so the number of payloads is the number of starts),
`delivered_after_its_starter` (a delivered group is an initial one or was started by a strictly earlier delivery: in
the model's serial order no group precedes the group that starts it; F13a is the implementation's concurrent order
departing from this), `group_payload_is_spec` (a group without nested `@defer` delivers exactly the Spec completion
of its fields and its errors, and starts nothing) and `one_level_model_merge` (the defer model's own payloads of one
object's groups, merged in any arrival order by the statement's `setKeys`, give the plain object).
-/
namespace GqlgenVerif.C13
open GqlgenVerif D Spec

/-- **Each started group's fields**: the groups of an object partition its deferred fields. -/
theorem each_deferred_field_in_exactly_one_group (fields : List (FInfo × Shape)) :
    ((groupByLabel fields []).flatMap (·.2)).Perm (fields.filter isDeferredField) := by
  simpa using groupByLabel_partition fields []

/-- **Deferred delivery carries the plain values.** -/
theorem groups_deliver_plain_values (o : Oracle) (ty : String) (p : Path) (fs : List (FInfo × Shape))
    (plainVals : List (String × Out)) (h : (Spec.completeFields o ty fs p).1 = some plainVals) :
    ∀ g ∈ groupByLabel fs [],
      ∃ vals, (Spec.completeFields o ty g.2 p).1 = some vals ∧ (∀ kv ∈ vals, kv ∈ plainVals) ∧
        vals.map (·.1) = g.2.map (·.1.alias) ∧
        ∀ e ∈ (Spec.completeFields o ty g.2 p).2.errs, e ∈ (Spec.completeFields o ty fs p).2.errs := by
  intro g hg
  apply subset_of_plain o ty p fs plainVals h
  intro f hf
  have hp := each_deferred_field_in_exactly_one_group fs
  have : f ∈ (groupByLabel fs []).flatMap (·.2) := List.mem_flatMap.mpr ⟨g, hg, hf⟩
  exact (List.mem_filter.mp (hp.mem_iff.mp this)).1

/-- the same for the part of the object that is not deferred (what the initial payload resolves) -/
theorem initial_part_delivers_plain_values (o : Oracle) (ty : String) (p : Path)
    (fs : List (FInfo × Shape)) (plainVals : List (String × Out))
    (h : (Spec.completeFields o ty fs p).1 = some plainVals) :
    ∃ vals, (Spec.completeFields o ty (fs.filter (!isDeferredField ·)) p).1 = some vals ∧
      ∀ kv ∈ vals, kv ∈ plainVals :=
  let ⟨vals, h1, h2, _, _⟩ := subset_of_plain o ty p fs plainVals h _ (fun f hf => (List.mem_filter.mp hf).1)
  ⟨vals, h1, h2⟩

/-- **The cut.** Whether a group fails has no influence on the completion of the other fields: the
non-deferred part is completed without looking at any deferred field. -/
theorem failure_in_group_stays_in_group (o o' : Oracle) (ty : String) (p : Path)
    (fs : List (FInfo × Shape))
    (hagree : ∀ f ∈ fs, isDeferredField f = false → AgreeUnder (p ++ [Seg.key f.1.alias]) o o') :
    Spec.completeFields o ty (fs.filter (!isDeferredField ·)) p =
      Spec.completeFields o' ty (fs.filter (!isDeferredField ·)) p := by
  induction fs with
  | nil => simp [Spec.completeFields]
  | cons f rest ih =>
    have ihr := ih (fun g hg hd => hagree g (by simp [hg]) hd)
    by_cases hd : isDeferredField f = true
    · simpa [List.filter_cons, hd] using ihr
    · have hd' : isDeferredField f = false := by simpa using hd
      simp only [List.filter_cons, hd', Bool.not_false, ↓reduceIte]
      rw [completeFields_cons, completeFields_cons, ihr]
      have : fieldResult o ty p f = fieldResult o' ty p f := by
        unfold fieldResult
        split
        · rfl
        · exact field_local o o' f.1 f.2 _ (hagree f (by simp) hd')
      rw [this]

/-- **No `@defer`, no difference.** On a plan in which no field is deferred, the defer model is exactly the
execution mechanism of C01 (`Impl.execRoot`, proved equal to the Spec there) and starts no group: deferral
is the *only* thing `D` adds. -/
theorem no_defer_is_plain_execution (o : Oracle) (rootTy : String) (fields : List (FInfo × Shape))
    (h : fieldsNoDefer fields) :
    (D.execDeferred o rootTy fields).1.data = (Impl.execRoot o rootTy fields).1 ∧
    (D.execDeferred o rootTy fields).1.st = (Impl.execRoot o rootTy fields).2 ∧
    (D.execDeferred o rootTy fields).2 = [] := by
  have hf := D_fields o rootTy true fields [] {} h
  simp only [D.execDeferred, Impl.execRoot, hf]
  refine ⟨trivial, trivial, ?_⟩
  simp [D.runGroups]


/-! ## the client's merge, one object level (`DeferSpec.setKeys` is the merge the statement `DeferSpec.check` uses) -/

/-- the response keys of an object's deferred fields -/
def deferredKeys (fs : List (FInfo × Shape)) : List String := (fs.filter isDeferredField).map (·.1.alias)

/-- what the initial payload holds for the object: every deferred slot is still `null` -/
def initialObject (fs : List (FInfo × Shape)) (plainVals : List (String × Out)) : List (String × Out) :=
  DeferSpec.view (fun k => !(deferredKeys fs).contains k) plainVals

/-- **Merging the groups of an object into its initial value restores the plain object - in every arrival order.**
For every object whose plain completion succeeds (distinct response keys): every one of its deferred groups completes
on its own, and setting the keys of the groups' payloads, in ANY order of the groups, into the initial object (deferred
slots `null`) yields exactly the plain key/value list, same order of keys. -/
theorem one_level_client_merge (o : Oracle) (ty : String) (p : Path) (fs : List (FInfo × Shape))
    (plainVals : List (String × Out)) (h : (Spec.completeFields o ty fs p).1 = some plainVals)
    (hnd : (fs.map (·.1.alias)).Nodup)
    (order : List (String × List (FInfo × Shape))) (hperm : order.Perm (groupByLabel fs [])) :
    (∀ g ∈ order, ((Spec.completeFields o ty g.2 p).1).isSome) ∧
    (order.map fun g => ((Spec.completeFields o ty g.2 p).1).getD []).foldl DeferSpec.setKeys
      (initialObject fs plainVals) = plainVals := by
  have hgroups := groups_deliver_plain_values o ty p fs plainVals h
  -- the plain object's keys are the fields' response keys
  obtain ⟨vals0, hv0, _, hkeys0, _⟩ := subset_of_plain o ty p fs plainVals h fs (fun f hf => hf)
  have hvals0 : vals0 = plainVals := by rw [h] at hv0; exact (Option.some.inj hv0).symm
  subst hvals0
  have hndk : (vals0.map (·.1)).Nodup := by rw [hkeys0]; exact hnd
  have hg : ∀ g ∈ order, ∃ vals, (Spec.completeFields o ty g.2 p).1 = some vals ∧ (∀ kv ∈ vals, kv ∈ vals0) ∧
      vals.map (·.1) = g.2.map (·.1.alias) := by
    intro g hgm
    obtain ⟨vals, a, b, c, _⟩ := hgroups g (hperm.mem_iff.mp hgm)
    exact ⟨vals, a, b, c⟩
  refine ⟨fun g hgm => by obtain ⟨vals, a, _⟩ := hg g hgm; simp [a], ?_⟩
  unfold initialObject
  rw [DeferSpec.setKeys_groups vals0 hndk _ _ (by
    intro gv hgv kv hkv
    obtain ⟨g, hgm, rfl⟩ := List.mem_map.mp hgv
    obtain ⟨vals, a, b, _⟩ := hg g hgm
    simp only [a, Option.getD_some] at hkv
    exact b kv hkv)]
  apply DeferSpec.view_all
  intro e he
  by_cases hd : (deferredKeys fs).contains e.1 = true
  · -- a deferred key: its field lies in exactly one group, which is somewhere in `order`
    have hmem : e.1 ∈ deferredKeys fs := by simpa using hd
    obtain ⟨f, hf, hfa⟩ := List.mem_map.mp hmem
    have hpart := each_deferred_field_in_exactly_one_group fs
    have hfg : f ∈ (groupByLabel fs []).flatMap (·.2) := hpart.mem_iff.mpr hf
    obtain ⟨g, hgm, hfin⟩ := List.mem_flatMap.mp hfg
    have hgo : g ∈ order := hperm.mem_iff.mpr hgm
    obtain ⟨vals, a, _, c⟩ := hg g hgo
    have hk : e.1 ∈ vals.map (·.1) := by
      rw [c, ← hfa]; exact List.mem_map.mpr ⟨f, hfin, rfl⟩
    obtain ⟨kv, hkv, hkve⟩ := List.mem_map.mp hk
    have : (order.map fun g => ((Spec.completeFields o ty g.2 p).1).getD []).any
        (fun g => g.any (·.1 == e.1)) = true := by
      apply List.any_eq_true.mpr
      refine ⟨vals, List.mem_map.mpr ⟨g, hgo, by simp [a]⟩, ?_⟩
      exact List.any_eq_true.mpr ⟨kv, hkv, by simp [hkve]⟩
    simp [this]
  · have hn : ¬ e.1 ∈ deferredKeys fs := by simpa using hd
    simp only [Bool.or_eq_true, Bool.not_eq_true', List.contains_eq_mem, decide_eq_false_iff_not]
    exact Or.inl hn

/-- non-vacuity: an object `{ a  ... @defer(label: "L") { b } }` - the initial object holds `b: null`, the group's
payload `{b: 2}` restores it -/
example :
    DeferSpec.setKeys (DeferSpec.view (fun k => !(["b"]).contains k) [("a", .leaf "1"), ("b", .leaf "2")])
      [("b", .leaf "2")] = [("a", .leaf "1"), ("b", .leaf "2")] := by
  simp [DeferSpec.setKeys, DeferSpec.view]

/-! ## the worklist of started groups (`D.runGroups`) -/

/-- **Every started group is delivered, once per start, with its own path and label.** For every oracle, fuel and
initial worklist on which the fuel is not exhausted: the payload sequence has one payload per scheduled group, carrying
that group's path and label; the scheduled groups are exactly the initial ones followed by the groups that delivered
groups start, in delivery order; so the number of payloads equals the number of starts. -/
theorem every_started_group_is_delivered_once (o : Oracle) (fuel : Nat) (gs : List Group)
    (hfuel : (D.runGroups o fuel gs []).length < fuel) :
    (D.runGroups o fuel gs []).map (fun p => (p.path, p.label)) =
      (D.schedule o fuel gs).map (fun g => (g.path, g.label)) ∧
    D.schedule o fuel gs = gs ++ (D.schedule o fuel gs).flatMap (D.startedBy o) ∧
    (D.runGroups o fuel gs []).length =
      gs.length + ((D.schedule o fuel gs).map fun g => (D.startedBy o g).length).sum := by
  have hrun := runGroups_eq o fuel gs []
  simp only [List.nil_append] at hrun
  have hlen : (D.schedule o fuel gs).length < fuel := by simpa [hrun] using hfuel
  have hbfs := schedule_bfs o fuel gs hlen
  refine ⟨?_, hbfs, ?_⟩
  · rw [hrun, List.map_map]; rfl
  · rw [hrun, List.length_map]
    conv => lhs; rw [hbfs]
    simp [List.length_flatMap]

/-- **No group is delivered before the group that starts it** (serial order of the model, every fuel): the `i`-th
incremental payload belongs to an initially started group or to a group started by the group of an earlier payload. -/
theorem delivered_after_its_starter (o : Oracle) (fuel : Nat) (gs : List Group) (i : Nat)
    (hi : i < (D.schedule o fuel gs).length) :
    (D.schedule o fuel gs)[i] ∈ gs ∨
      ∃ j, ∃ (hj : j < i), (D.schedule o fuel gs)[i] ∈ D.startedBy o ((D.schedule o fuel gs)[j]'(by omega)) :=
  schedule_causal o fuel gs i hi

/-- **A group without nested `@defer` delivers the Spec completion of its fields.** For every oracle and every group
whose fields have distinct response keys and whose sub-selections contain no `@defer`: the defer model's payload for the
group is `null` exactly when the Spec completion of the group's fields fails and otherwise the object of exactly the
Spec's key/value pairs; it reports exactly the Spec's errors; and the group starts no further group. -/
theorem group_payload_is_spec (o : Oracle) (g : Group) (hwf : fieldsWF g.fields) (hnd : fieldsSubNoDefer g.fields) :
    D.startedBy o g = [] ∧
    (D.payloadOf o g).data =
      (match (Spec.completeFields o g.ty g.fields g.path).1 with
       | some vals => Out.obj vals
       | none => Out.null) ∧
    (D.payloadOf o g).st.errs = (Spec.completeFields o g.ty g.fields g.path).2.errs := by
  obtain ⟨h1, h2, h3⟩ := groups_noNested o g hnd
  have rel := fields_rel o g.ty g.fields g.path {} hwf (by intro f _ x hx; simp at hx)
  refine ⟨h1, ?_, ?_⟩
  · rw [h2]
    cases hs : (Spec.completeFields o g.ty g.fields g.path).1 with
    | none =>
      have : (Impl.completeFields o g.ty g.fields g.path {}).2.1 > 0 := rel.inval.mpr hs
      simp [this]
    | some vals =>
      have hne : ¬ (Impl.completeFields o g.ty g.fields g.path {}).2.1 > 0 := by
        intro h; have := rel.inval.mp h; rw [hs] at this; cases this
      simp only [hne, ↓reduceIte]
      rw [rel.vals vals hs]
  · rw [h3, rel.st_eq]; simp [St.append]

/-- distinct response keys and well-formed sub-selections make a field list well-formed -/
theorem fieldsWF_of_nodup : ∀ (fs : List (FInfo × Shape)), (fs.map (·.1.alias)).Nodup → (∀ f ∈ fs, f.2.WF) → fieldsWF fs
  | [], _, _ => by simp [fieldsWF]
  | (fi, sh) :: rest, hnd, hwf => by
    simp only [List.map_cons, List.nodup_cons, List.mem_map, not_exists, not_and] at hnd
    simp only [fieldsWF]
    refine ⟨fun g hg h => hnd.1 g hg h, hwf (fi, sh) (by simp), ?_⟩
    exact fieldsWF_of_nodup rest hnd.2 (fun f hf => hwf f (List.mem_cons_of_mem _ hf))

theorem fieldsSubNoDefer_of_forall : ∀ (fs : List (FInfo × Shape)), (∀ f ∈ fs, f.2.noDefer) → fieldsSubNoDefer fs
  | [], _ => by simp [fieldsSubNoDefer]
  | (fi, sh) :: rest, h => by
    simp only [fieldsSubNoDefer]
    exact ⟨h (fi, sh) (by simp), fieldsSubNoDefer_of_forall rest (fun f hf => h f (List.mem_cons_of_mem _ hf))⟩

/-- **One object, the defer model's own payloads, any arrival order.** For every object (type `ty`, path `p`) whose
fields have distinct response keys, well-formed sub-selections without nested `@defer`, and whose plain completion
succeeds: the groups the defer model starts for it (`groupByLabel`, one per label, with the object's path) each deliver an
object payload, and setting the keys of those payloads - in ANY order of the groups - into the initial object (deferred
slots `null`) with the statement's client merge gives exactly the plain key/value list. -/
theorem one_level_model_merge (o : Oracle) (ty : String) (p : Path) (fs : List (FInfo × Shape))
    (plainVals : List (String × Out)) (h : (Spec.completeFields o ty fs p).1 = some plainVals)
    (hnd : (fs.map (·.1.alias)).Nodup) (hwf : ∀ f ∈ fs, f.2.WF) (hsub : ∀ f ∈ fs, f.2.noDefer)
    (order : List (String × List (FInfo × Shape))) (hperm : order.Perm (groupByLabel fs [])) :
    (order.map fun lg =>
        match (D.payloadOf o { path := p, label := lg.1, ty := ty, fields := lg.2 }).data with
        | .obj vals => vals
        | _ => []).foldl DeferSpec.setKeys (initialObject fs plainVals) = plainVals := by
  obtain ⟨hsome, hmerge⟩ := one_level_client_merge o ty p fs plainVals h hnd order hperm
  have key : (order.map fun lg =>
        match (D.payloadOf o { path := p, label := lg.1, ty := ty, fields := lg.2 }).data with
        | .obj vals => vals
        | _ => []) = order.map fun g => ((Spec.completeFields o ty g.2 p).1).getD [] := by
    apply List.map_congr_left
    intro lg hlg
    -- the fields of a group are fields of the object, each once
    have hpart := each_deferred_field_in_exactly_one_group fs
    have hmemG : lg ∈ groupByLabel fs [] := hperm.mem_iff.mp hlg
    have hsubl : lg.2.Sublist ((groupByLabel fs []).flatMap (·.2)) := by
      rw [List.flatMap_def]
      exact List.sublist_flatten_of_mem (List.mem_map.mpr ⟨lg, hmemG, rfl⟩)
    have hndflat : (((groupByLabel fs []).flatMap (·.2)).map (·.1.alias)).Nodup :=
      (hpart.map _).nodup_iff.mpr ((hnd.sublist (List.filter_sublist.map _)))
    have hndg : (lg.2.map (·.1.alias)).Nodup := hndflat.sublist (hsubl.map _)
    have hin : ∀ f ∈ lg.2, f ∈ fs := fun f hf =>
      (List.mem_filter.mp (hpart.mem_iff.mp (List.mem_flatMap.mpr ⟨lg, hmemG, hf⟩))).1
    have hspec := group_payload_is_spec o { path := p, label := lg.1, ty := ty, fields := lg.2 }
      (fieldsWF_of_nodup lg.2 hndg (fun f hf => hwf f (hin f hf)))
      (fieldsSubNoDefer_of_forall lg.2 (fun f hf => hsub f (hin f hf)))
    have hs := hsome lg hlg
    cases hc : (Spec.completeFields o ty lg.2 p).1 with
    | none => rw [hc] at hs; cases hs
    | some vals =>
      have hd := hspec.2.1
      simp only [hc] at hd
      simp [hd]
  rw [key]; exact hmerge

/-- the response of a query in the defer model: the incremental payloads are the schedule of the groups the initial
    execution started -/
theorem exec_deferred_payloads (o : Oracle) (rootTy : String) (fields : List (FInfo × Shape)) :
    (D.execDeferred o rootTy fields).2 =
      (D.schedule o 100000 (D.completeFields o rootTy true fields [] {}).2.2.groups).map (D.payloadOf o) := by
  simp [D.execDeferred, runGroups_eq]

/-- non-vacuity of the fuel premise: one initial group without fields -/
example : (D.runGroups ({ res := fun _ => .missing, dir := fun _ _ => .pass } : Oracle) 5 [{ path := [], label := "L", ty := "T", fields := [] }] []).length < 5 := by
  simp [D.runGroups, D.completeFields]

/-! ## the response function's counters (`deferred`, `pendingDeferred`) -/

/-- `started i` = number of groups started by the time of the i-th incremental delivery (`started 0`: when
the initial payload is returned). Groups are only ever started by the initial execution or by a group
that has not been delivered yet — `causal`. -/
structure Deliveries where
  started : Nat → Nat
  mono : ∀ i, started i ≤ started (i + 1)
  causal : ∀ i, started i ≤ i → started (i + 1) = started i

/-- `hasNext` on payload `i` (0 = initial): `pendingDeferred > 0` after `i` deliveries -/
def Deliveries.hasNext (d : Deliveries) (i : Nat) : Bool := d.started i - i > 0

/-- **hasNext is true on every payload but the last.** If `n` is the first index at which every started
group has been delivered, `hasNext` is true on payloads `0 … n-1` and false on payload `n`. -/
theorem has_next_shape (d : Deliveries) (n : Nat) (hn : d.started n = n)
    (hfirst : ∀ i, i < n → d.started i > i) :
    (∀ i, i < n → d.hasNext i = true) ∧ d.hasNext n = false := by
  refine ⟨fun i hi => by simp [Deliveries.hasNext]; have := hfirst i hi; omega, by simp [Deliveries.hasNext, hn]⟩

/-- **The sequence ends, with one payload per started group**: after the `n`-th delivery nothing is ever
started again, so exactly `n` = `started n` incremental payloads exist. -/
theorem sequence_ends (d : Deliveries) (n : Nat) (hn : d.started n = n) : ∀ k, d.started (n + k) = n := by
  intro k
  induction k with
  | zero => simpa using hn
  | succ k ih =>
    -- no group is pending after n deliveries, so nothing can start any more
    have := d.causal (n + k) (by omega)
    rw [← Nat.add_assoc, this, ih]

/-! non-vacuity -/
example : isDeferredField (({ alias := "x", name := "x", deferred := some "L" } : FInfo), Shape.leaf false) = true := by
  decide
example : ∃ d : Deliveries, d.started 0 = 2 ∧ d.started 2 = 2 :=
  ⟨⟨fun _ => 2, fun _ => Nat.le_refl _, fun _ _ => rfl⟩, rfl, rfl⟩

/-! ### the statement itself (`DeferSpec.check`) -/
open DeferSpec in
/-- **No `@defer`, nothing to object to**: a response that is the plain result, as one payload, violates no
    clause - for every result tree and error list. -/
theorem statement_accepts_plain_response (t : Out) (errs : List (String × String)) :
    DeferSpec.check [{ path := [], label := "", data := none, root := t, errs := errs, hasNext := none }] t errs = [] := by
  simp [DeferSpec.check, List.foldl, DeferSpec.hasNextClauses, eqModCut_refl, notIn_self]

/-- `{ t { a ... @defer { b } } }`: initial `{"t":{"a":1,"b":null}}` then the group `{"b":2}` at `t` -/
def okSeq : List DeferSpec.WP :=
  [{ path := [], label := "", data := some [("t", .obj [("a", .leaf "1"), ("b", .null)])],
     root := .obj [("t", .obj [("a", .leaf "1"), ("b", .null)])], errs := [], hasNext := some true },
   { path := [.key "t"], label := "", data := some [("b", .leaf "2")], errs := [], hasNext := some false }]

def plainT : Out := .obj [("t", .obj [("a", .leaf "1"), ("b", .leaf "2")])]

/-- the statement accepts a correct incremental delivery -/
theorem statement_accepts_witness : DeferSpec.check okSeq plainT [] = [] := by decide

/-- ... and rejects: a wrong deferred value, a missing last `hasNext: false`, a group delivered twice, an error
    the plain run does not report, a group whose object is not there -/
theorem statement_rejects_wrong_value :
    DeferSpec.check okSeq (.obj [("t", .obj [("a", .leaf "1"), ("b", .leaf "3")])]) [] =
      ["merged-data-differs-from-plain"] := by decide

theorem statement_rejects_hasNext :
    DeferSpec.check (okSeq.map fun p => { p with hasNext := some true }) plainT [] = ["hasNext-wrong-at-1"] := by decide

theorem statement_rejects_duplicate_group :
    (DeferSpec.check (okSeq ++ [okSeq[1]!]) plainT []).contains "group-delivered-twice:t|" = true := by decide

theorem statement_rejects_new_error :
    DeferSpec.check (okSeq.map fun p => { p with errs := if p.path == [] then [] else [("t/b", "boom")] }) plainT [] =
      ["error-not-in-plain:t/b :: boom"] := by decide

theorem statement_rejects_unfindable_path :
    DeferSpec.check (okSeq.map fun p => { p with path := if p.path == [] then [] else [.key "u"] }) plainT [] =
      ["orphan-payload-object-nulled:u|", "merged-data-differs-from-plain"] := by decide

/-- the cut: a failed group (`data: null`) under a nullable object leaves its placeholders null while the plain
    run nulled the object - accepted; the same difference without a failed group there is not -/
theorem statement_cut_witness :
    DeferSpec.check
      [{ path := [], label := "", data := some [("t", .obj [("a", .leaf "1"), ("b", .null)])],
         root := .obj [("t", .obj [("a", .leaf "1"), ("b", .null)])], errs := [("t/b", "E")], hasNext := some true },
       { path := [.key "t"], label := "", data := none, errs := [], hasNext := some false }]
      (.obj [("t", .null)]) [("t/b", "E")] = [] ∧
    DeferSpec.check
      [{ path := [], label := "", data := some [("t", .obj [("a", .leaf "1"), ("b", .null)])],
         root := .obj [("t", .obj [("a", .leaf "1"), ("b", .null)])], errs := [("t/b", "E")], hasNext := none }]
      (.obj [("t", .null)]) [("t/b", "E")] = ["merged-data-differs-from-plain"] := by decide

end GqlgenVerif.C13
