import GqlgenVerif.Model.EntityTable
/-!
# C20 — which entity types are dispatched at all (over the guards regenerated from `plugin/federation/entity.go`)

"Element i of `_entities` is the entity resolved from representation i" presupposes that the type of representation i
has a `case` in the generated `resolveEntity` / `resolveManyEntities`. Whether it has is decided at generation time by
`buildEntity`: `allFieldsAreExternal(version)` → no resolvers. `Gen/FedResolvable.lean` is the statement-by-statement
translation of `isResolvable`, `isFieldImplicitlyExternal`, `allFieldsAreExternal` of THIS run's `entity.go`; the
theorems state what these guards have to compute, for all inputs. A change of a default, of a comparison, of the
statement order or of the short-circuit structure changes the regenerated terms, and the proofs stop closing.
-/
namespace GqlgenVerif.C20Res
set_option linter.unusedSimpArgs false
open GqlgenVerif.Gen.FedResolvable GqlgenVerif.Entities

/-- the Spec of `isResolvable`: an entity is non-resolvable only if its first `@key` says `resolvable: false` -/
def resolvableSpec (keyNil resNil : Bool) (raw : String) : Bool := keyNil || resNil || raw != "false"

/-- the Spec of "counts as external": `@external`, or (federation 2 only) a key field of a non-resolvable entity -/
def externalSpec (ver : Nat) (keyNil resNil : Bool) (raw : String) (f : Bool × Bool) : Bool :=
  f.2 || (ver == 2 && !resolvableSpec keyNil resNil raw && f.1)

/-- `isResolvable` computes the Spec and never dereferences nil -/
theorem isResolvable_spec (keyNil resNil : Bool) (raw : String) :
    isResolvable keyNil resNil raw = some (resolvableSpec keyNil resNil raw) := by
  cases keyNil <;> cases resNil <;> cases h : raw == "false" <;>
    simp [isResolvable, resolvableSpec, gite, gnot, gand, gor, bne, h]

/-- the federation default: a `@key` WITHOUT a `resolvable:` argument is resolvable -/
theorem resolvable_by_default (raw : String) : isResolvable false true raw = some true := by
  rw [isResolvable_spec]; rfl

/-- `resolvable: true` (anything but `false`) spelled out is resolvable; `resolvable: false` is not -/
theorem resolvable_iff_not_false (raw : String) :
    isResolvable false false raw = some (raw != "false") := by
  rw [isResolvable_spec]; simp [resolvableSpec]

/-- key fields are implicitly external exactly in federation 2 for a non-resolvable entity -/
theorem implicitlyExternal_spec (ver : Nat) (keyNil resNil : Bool) (raw : String) (isKey : Bool) :
    isFieldImplicitlyExternal ver keyNil resNil raw isKey =
      some (ver == 2 && !resolvableSpec keyNil resNil raw && isKey) := by
  unfold isFieldImplicitlyExternal
  rw [isResolvable_spec]
  cases hv : (ver == 2) <;> cases h : resolvableSpec keyNil resNil raw <;> cases isKey <;> simp [gite, gnot, gand, gor]

/-- `allFieldsAreExternal` = every field counts as external; never a nil dereference -/
theorem allFieldsAreExternal_spec (ver : Nat) (keyNil resNil : Bool) (raw : String) (fields : List (Bool × Bool)) :
    allFieldsAreExternal ver keyNil resNil raw fields =
      some (fields.all (externalSpec ver keyNil resNil raw)) := by
  unfold allFieldsAreExternal
  induction fields with
  | nil => simp [allFieldsAreExternalLoop]
  | cons f rest ih =>
    obtain ⟨k, x⟩ := f
    rw [allFieldsAreExternalLoop, implicitlyExternal_spec, ih]
    simp only [externalSpec, List.all_cons]
    cases x <;> cases h : (ver == 2 && !resolvableSpec keyNil resNil raw && k) <;> simp [gite, gnot, gand, gor]

/-- federation 1: `resolvable:` plays no role, only explicit `@external` counts -/
theorem v1_only_explicit_external (ver : Nat) (hv : ver ≠ 2) (keyNil resNil : Bool) (raw : String)
    (fields : List (Bool × Bool)) :
    allFieldsAreExternal ver keyNil resNil raw fields = some (fields.all (·.2)) := by
  rw [allFieldsAreExternal_spec]
  congr 1
  apply List.all_congr rfl
  intro f
  simp [externalSpec, hv]

/-- **a resolvable entity type with a field of its own gets its resolvers**, for every federation version and every
spelling (no `resolvable:` argument, or any value but `false`): one resolver per `@key`, in directive order - its
representations are dispatched, not answered `unknown type`. -/
theorem resolvable_entity_with_own_field_gets_resolvers (ver : Nat) (s : SchemaEntity)
    (hres : s.resNil = true ∨ s.raw ≠ "false") (hown : ∃ f ∈ s.fields, f.2 = false) :
    entityCfgOf ver s = some { name := s.name, multi := s.multi, resolvers := s.keys, requires := s.requires } := by
  unfold entityCfgOf
  rw [allFieldsAreExternal_spec]
  have hr : resolvableSpec false s.resNil s.raw = true := by
    rcases hres with h | h <;> simp [resolvableSpec, h]
  have : s.fields.all (externalSpec ver false s.resNil s.raw) = false := by
    obtain ⟨f, hf, hx⟩ := hown
    apply Bool.eq_false_iff.mpr
    intro hall
    have := List.all_eq_true.mp hall f hf
    simp [externalSpec, hr, hx] at this
  simp [this]

/-- the key-only entity of the default spelling (`type T @key(fields: "id") { id: ID! }`): every field is a key
field, none is `@external`, no `resolvable:` argument - it has its resolvers in federation 1 and 2 alike -/
theorem key_only_entity_gets_resolvers (ver : Nat) (s : SchemaEntity) (hne : s.fields ≠ [])
    (hdef : s.resNil = true) (hkey : ∀ f ∈ s.fields, f = (true, false)) :
    (entityCfgOf ver s).map (·.resolvers) = some s.keys := by
  rw [resolvable_entity_with_own_field_gets_resolvers ver s (Or.inl hdef)]
  · rfl
  · cases hf : s.fields with
    | nil => exact absurd hf hne
    | cons f rest => exact ⟨f, by simp, by rw [hkey f (by simp [hf])]⟩

/-- a type whose fields are all explicitly `@external` has no resolver (the "empty extend" of buildEntity's comment) -/
theorem all_external_entity_has_no_resolver (ver : Nat) (s : SchemaEntity) (hext : ∀ f ∈ s.fields, f.2 = true) :
    (entityCfgOf ver s).map (·.resolvers) = some [] := by
  unfold entityCfgOf
  rw [allFieldsAreExternal_spec]
  have : s.fields.all (externalSpec ver false s.resNil s.raw) = true := by
    apply List.all_eq_true.mpr
    intro f hf
    simp [externalSpec, hext f hf]
  simp [this]

/-- federation 2, `resolvable: false`, nothing but key fields and `@external` fields: no resolver -/
theorem non_resolvable_key_only_entity_has_no_resolver (s : SchemaEntity) (hoff : s.resNil = false ∧ s.raw = "false")
    (hkey : ∀ f ∈ s.fields, f.1 = true ∨ f.2 = true) :
    (entityCfgOf 2 s).map (·.resolvers) = some [] := by
  unfold entityCfgOf
  rw [allFieldsAreExternal_spec]
  have : s.fields.all (externalSpec 2 false s.resNil s.raw) = true := by
    apply List.all_eq_true.mpr
    intro f hf
    rcases hkey f hf with h | h <;> simp [externalSpec, resolvableSpec, hoff.1, hoff.2, h]
  simp [this]

/-- `buildEntity` skips `buildResolvers` under no other guard than "not an entity", "unused interface" and
`allFieldsAreExternal(version)`, and builds one resolver per `@key` otherwise (`entityCfgOf`) -/
theorem buildEntity_skips_resolvers_only_when_all_external :
    buildEntityEarlyReturns =
      [("!ok", "nil"),
       ("(schemaType.Kind == ast.Interface) && (len(schema.GetPossibleTypes(schemaType)) == 0)", "nil"),
       ("entity.allFieldsAreExternal(version)", "entity")] ∧
    buildEntityResolvers = "buildResolvers(schemaType, schema, keys, entity.Multi)" := by decide

/-! ## non-vacuity, and the link to the dispatch of `Model/Entities.lean` -/

/-- `type Solo @key(fields: "id") { id: ID! }` -/
def solo : SchemaEntity :=
  { name := "Solo", keys := [{ name := "findSoloByID", keys := [{ path := ["id"], ty := .id }] }], fields := [(true, false)] }

example : solo.fields ≠ [] ∧ solo.resNil = true ∧ ∀ f ∈ solo.fields, f = (true, false) := by decide
example : (∃ f ∈ solo.fields, f.2 = false) ∧ (solo.resNil = true ∨ solo.raw ≠ "false") := by decide
example : ∀ f ∈ ({ solo with fields := [(true, true), (false, true)] } : SchemaEntity).fields, f.2 = true := by decide
example : ∀ f ∈ ({ solo with resNil := false, raw := "false" } : SchemaEntity).fields, f.1 = true ∨ f.2 = true := by decide

def soloUser : User :=
  { single := fun n _ => .value n, multi := fun _ _ => .values [], populate := fun _ e _ => .ok e }

/-- with the table `buildEntity` computes, a representation of the key-only entity is resolved by its resolver in
both federation versions … -/
theorem key_only_representation_is_resolved (ver : Nat) :
    (entityCfgOf ver solo).map (fun e =>
        (resolveEntity { entities := [e] } soloUser "Solo" [("__typename", .str "Solo"), ("id", .str "u1")]).toOption.map (·.tag))
      = some (some "findSoloByID") := by
  rw [resolvable_entity_with_own_field_gets_resolvers ver solo (Or.inl rfl) ⟨(true, false), by decide, rfl⟩]
  decide

/-- … whereas the same type under `resolvable: false` (federation 2) is answered `unknown type` -/
theorem non_resolvable_representation_is_unknown_type :
    (entityCfgOf 2 { solo with resNil := false, raw := "false" }).map (fun e =>
        resolveEntity { entities := [e] } soloUser "Solo" [("__typename", .str "Solo"), ("id", .str "u1")] matches .error "unknown type: Solo")
      = some true := by
  decide

end GqlgenVerif.C20Res
