import GqlgenVerif.Props.C16
import GqlgenVerif.Model.IntroServed
import GqlgenVerif.Gen.IntroSrc
/-!
# C16, part 4 — introspection describes the schema the server SERVES

`Props/C16.lean` part 1 is about `introspection.WrapSchema(s)` for a given `s`. Which `s` the generated entry points
hand over is a configuration of the server: `generated.Config{Schema: …}` replaces the compiled-in schema for
validation, variable coercion and introspection (`Model/IntroServed.lean`). Stated here for **both** exec layouts,
over the facts REGENERATED from `codegen/generated!.gotpl` and `codegen/root_.gotpl` on every run
(`Gen/IntroSrc.lean`), for all compiled-in schemas and all overrides (subset, superset, unrelated, none):

* `served_mirror` — the tree `__schema` answers rebuilds to the executable schema (`Config.Schema` when given, the
  compiled-in one otherwise), not to the other one;
* `served_type_by_name` / `served_hides_unserved` — `__type(name:)` answers the served definition, and null for a
  name the served schema does not have (even when the compiled-in schema has it);
* `served_disabled` — with introspection disabled both answer the gate's error, whatever is served.

`gen_layouts_ok` is a `decide` on the regenerated facts: it stops closing when one of the two templates reads
`parsedSchema` (or the raw field) where `ec.Schema()` belongs, loses a guard, when `Schema()` prefers the compiled-in
schema, or `NewExecutableSchema` drops `schema: cfg.Schema`.
-/
namespace GqlgenVerif.Introspect.Served.C16
open GqlgenVerif GqlgenVerif.Introspect GqlgenVerif.Introspect.Served

theorem get_which (sv : Server) : sv.get (Spec.which sv.override.isSome) = some (Spec.served sv) := by
  cases h : sv.override <;> simp [Spec.which, Spec.served, Server.get, h]

theorem src_of_pick (l : Layout) (sv : Server) (s : Src)
    (h : Impl.pick l sv.override.isSome s = some (Spec.which sv.override.isSome)) :
    Impl.src l sv s = some (Spec.served sv) := by
  simp [Impl.src, h, get_which]

/-- what `Layout.ok` decides, spelled out -/
theorem ok_spelled (l : Layout) (h : l.ok = true) :
    l.schemaGuard = true ∧ l.typeGuard = true ∧ ∀ b : Bool,
      Impl.pick l b l.schemaSrc = some (Spec.which b) ∧ Impl.pick l b l.typeWrapSrc = some (Spec.which b) ∧
      Impl.pick l b l.typeLookupSrc = some (Spec.which b) := by
  simp only [Layout.ok, List.all_cons, List.all_nil, Bool.and_true, Bool.and_eq_true, beq_iff_eq] at h
  obtain ⟨⟨hg, ht⟩, ⟨⟨h1, h2⟩, h3⟩, ⟨h4, h5⟩, h6⟩ := h
  refine ⟨hg, ht, fun b => ?_⟩
  cases b
  · exact ⟨h4, h5, h6⟩
  · exact ⟨h1, h2, h3⟩

/-- a layout whose facts are `ok` answers exactly what the contract says, for every server and both gate states -/
theorem served_of_ok (l : Layout) (h : l.ok = true) (sv : Server) (disabled : Bool) :
    Impl.introspectSchema l sv disabled = Spec.introspectSchema sv disabled ∧
    ∀ n, Impl.introspectType l sv disabled n = Spec.introspectType sv disabled n := by
  obtain ⟨hg, ht, hp⟩ := ok_spelled l h
  obtain ⟨p1, p2, p3⟩ := hp sv.override.isSome
  have s1 := src_of_pick l sv _ p1
  have s2 := src_of_pick l sv _ p2
  have s3 := src_of_pick l sv _ p3
  cases disabled
  · refine ⟨?_, fun n => ?_⟩
    · simp [Impl.introspectSchema, Spec.introspectSchema, s1]
    · simp [Impl.introspectType, Spec.introspectType, s2, s3, introTypeByName]
  · refine ⟨?_, fun n => ?_⟩
    · simp [Impl.introspectSchema, Spec.introspectSchema, hg]
    · simp [Impl.introspectType, Spec.introspectType, ht]

/-- the regenerated facts: both layouts are there and both are `ok` -/
theorem gen_layouts_ok :
    Gen.IntroSrc.layouts.map (·.name) = ["single-file", "follow-schema"] ∧
    Gen.IntroSrc.layouts.all Layout.ok = true := by decide

theorem gen_layout_ok (l : Layout) (hl : l ∈ Gen.IntroSrc.layouts) : l.ok = true :=
  List.all_eq_true.mp gen_layouts_ok.2 l hl

/-- **mirror, on the code as generated**: in both layouts, for every compiled-in schema and every `Config.Schema`
    (or none), what `__schema` answers rebuilds to the executable schema -/
theorem served_mirror (l : Layout) (hl : l ∈ Gen.IntroSrc.layouts) (sv : Server)
    (hwf : (Spec.served sv).wf = true) :
    ∃ t, Impl.introspectSchema l sv false = .value t ∧ rebuild t = normalise (Spec.served sv) := by
  refine ⟨introspect (Spec.served sv), ?_, Introspect.C16.rebuild_introspect _ hwf⟩
  rw [(served_of_ok l (gen_layout_ok l hl) sv false).1]
  rfl

/-- `__type(name:)` answers the served definition, which is the entry of `__schema.types` -/
theorem served_type_by_name (l : Layout) (hl : l ∈ Gen.IntroSrc.layouts) (sv : Server) (d : TypeDef)
    (h : (Spec.served sv).lookup d.name = some d) :
    Impl.introspectType l sv false d.name = .value (some (introType (Spec.served sv) d)) ∧
    introType (Spec.served sv) d ∈ (introspect (Spec.served sv)).types := by
  have ht := Introspect.C16.type_by_name (Spec.served sv) d h
  refine ⟨?_, ht.2⟩
  rw [(served_of_ok l (gen_layout_ok l hl) sv false).2 d.name]
  simp [Spec.introspectType, ht.1]

/-- a name the served schema does not have is null, whatever the compiled-in schema has under that name -/
theorem served_hides_unserved (l : Layout) (hl : l ∈ Gen.IntroSrc.layouts) (sv : Server) (n : String)
    (h : (Spec.served sv).lookup n = none) :
    Impl.introspectType l sv false n = .value none := by
  rw [(served_of_ok l (gen_layout_ok l hl) sv false).2 n]
  simp [Spec.introspectType, introTypeByName, h]

/-- disabled: the gate's error from both entry points, whatever is served -/
theorem served_disabled (l : Layout) (hl : l ∈ Gen.IntroSrc.layouts) (sv : Server) (n : String) :
    Impl.introspectSchema l sv true = .gateError ∧ Impl.introspectType l sv true n = .gateError := by
  have h := served_of_ok l (gen_layout_ok l hl) sv true
  exact ⟨h.1.trans rfl, (h.2 n).trans rfl⟩

/-! ### non-vacuity and witnesses: a compiled-in schema, its public subset served at run time -/

def compiledIn : Introspect.Schema :=
  { description := "compiled-in", query := some "Query",
    types := [
      { name := "Query", kind := .object, possible := [("Query", .object)],
        fields := [{ name := "hello", type := .named "String" true },
                   { name := "secret", type := .named "Hidden" false, dep := some (some "internal") }] },
      { name := "Hidden", kind := .object, possible := [("Hidden", .object)],
        fields := [{ name := "x", type := .named "String" false }] },
      { name := "String", kind := .scalar } ] }

def publicSubset : Introspect.Schema :=
  { description := "public", query := some "Query",
    types := [
      { name := "Query", kind := .object, possible := [("Query", .object)],
        fields := [{ name := "hello", type := .named "String" true }] },
      { name := "String", kind := .scalar } ] }

def srv : Server := { compiled := compiledIn, override := some publicSubset }

example : (Spec.served srv).wf = true := by decide
example : (Spec.served { compiled := compiledIn }).wf = true := by decide
example : Spec.served srv = publicSubset ∧ Spec.served { compiled := compiledIn } = compiledIn := ⟨rfl, rfl⟩
example : (Spec.served srv).lookup "Hidden" = none := by decide

/-- the single-file layout as generated, except that `introspectSchema` reads the package variable -/
def staleSchemaSrc : Layout :=
  { name := "single-file", storesOverride := true, schemaMethod := [⟨true, .field⟩, ⟨false, .compiled⟩],
    schemaGuard := true, schemaSrc := .compiled, typeGuard := true, typeWrapSrc := .method, typeLookupSrc := .method }

/-- `WrapSchema(parsedSchema)`: `__schema` describes the compiled-in schema while the public subset is served —
    the rebuilt schema is not the executable one; without an override nothing shows -/
theorem stale_schema_witness :
    staleSchemaSrc.ok = false ∧
    Impl.introspectSchema staleSchemaSrc srv false = .value (introspect compiledIn) ∧
    rebuild (introspect compiledIn) ≠ normalise (Spec.served srv) ∧
    Impl.introspectSchema staleSchemaSrc { compiled := compiledIn } false =
      Spec.introspectSchema { compiled := compiledIn } false := by
  refine ⟨by decide, rfl, by decide, rfl⟩

/-- `WrapTypeFromDef(ec.Schema(), parsedSchema.Types[name])`: `__type` reveals a definition that is not served -/
def staleLookupSrc : Layout :=
  { staleSchemaSrc with schemaSrc := .method, typeLookupSrc := .compiled }

theorem stale_lookup_witness :
    staleLookupSrc.ok = false ∧
    (∃ t, Impl.introspectType staleLookupSrc srv false "Hidden" = .value (some t) ∧ t.name = some "Hidden") ∧
    Spec.introspectType srv false "Hidden" = .value none := by
  refine ⟨by decide, ⟨_, rfl, rfl⟩, ?_⟩
  simp only [Spec.introspectType, introTypeByName]
  have : (Spec.served srv).lookup "Hidden" = none := by decide
  simp [this]

/-- `NewExecutableSchema` without `schema: cfg.Schema`: the override is never served -/
theorem dropped_override_witness :
    ({ staleSchemaSrc with schemaSrc := .method, storesOverride := false } : Layout).ok = false := by decide

end GqlgenVerif.Introspect.Served.C16
