import GqlgenVerif.Lemmas.CollectAlias
import GqlgenVerif.Lemmas.WsLoop
import GqlgenVerif.Gen.CollectAlias
import GqlgenVerif.Gen.WsLoop
/-!
# C07, parts D and E — what requests in flight beside each other share

Property theorems only (models: `Model/CollectAlias.lean`, `Model/WsLoop.lean`; helper lemmas in `Lemmas/`).

* Part D: the cached `*ast.QueryDocument` is shared by every request with the same text. `collectFields` merges the
  selection sets of the occurrences of one response key; which occurrences, the request's own variables decide.
  `Gen/CollectAlias.lean` is regenerated from `graphql/executable_schema.go` on every run: initialising a
  CollectedField's `Selections` with a slice of the document, or storing anything but `append(own, …)` into it,
  breaks `field_arm_is_copying` / `no_literal_aliases_the_document` and with them the main theorem, which is stated
  over the regenerated arm. It quantifies over ALL heaps (any document, any spare capacities), all growth policies
  of `append`, any number of requests with any occurrence lists, and ALL interleavings.
* Part E: on a websocket connection the operations share the read loop. `Gen/WsLoop.lean` is regenerated from
  `graphql/handler/transport/websocket.go`: whether each iteration has its own message variable. The theorem is
  stated over the regenerated `cells` and quantifies over all sequences of client messages and frame emissions.
-/
namespace GqlgenVerif.C07
open GqlgenVerif GqlgenVerif.Gen

/-! ## D. collectFields never holds a slice of the shared document -/
section D
open GqlgenVerif.CollectAlias

/-- the `*ast.Field` arm of `collectFields` as it is in the source today: a new CollectedField starts with no
selections and EVERY occurrence's selection set (the first one too) is appended, unconditionally -/
theorem field_arm_is_copying : armSem CollectAlias.fieldArm = some ⟨.absent, true⟩ := by decide

/-- no `CollectedField{…}` literal of package graphql initialises `Selections` from anything -/
theorem no_literal_aliases_the_document : ∀ l ∈ CollectAlias.literals, l.2 = SelInit.absent := by decide

/-- every assignment to a `.Selections` in package graphql is `x.Selections = append(x.Selections, src...)` with
`src` a selection set of the document or of a CollectedField the recursive call built for this request -/
theorem every_selections_store_appends_to_its_own :
    ∀ s ∈ CollectAlias.stores, s.2.1 = SelRhs.appendSelf ∧ s.2.2 ≠ SelSrc.unknown := by decide

/-- `getOrCreateAndAppendField` hands out pointers into the caller's own `groupedFields` only -/
theorem get_or_create_returns_own : CollectAlias.getOrCreateReturnsOwn = true := by decide

/-- the world in which no request has collected anything yet -/
def startWorld (h0 : Heap) (todo : Nat → List Slice) : World := ⟨h0, fun i => { todo := todo i }⟩

/-- **Requests that share a cached document do not see each other.** For the arm as regenerated from the source:
whatever the document (`h0`: any arrays with any spare capacity), however `append` grows, for any number of
requests `i` merging any occurrences `todo i` of the response key, in ANY interleaving `sched`:
(1) no array of the document - spare capacity included - is ever written, and
(2) at every moment what request `i` holds plus what it still has to merge is exactly the selections of ITS
occurrences as the document has them - nothing another request included. -/
theorem collect_independent_of_concurrent_requests
    (sem : ArmSem) (hsem : armSem CollectAlias.fieldArm = some sem)
    (grow : Nat → Nat) (h0 : Heap) (hd : DocOwned h0)
    (todo : Nat → List Slice) (hdoc : ∀ i s, s ∈ todo i → docSlice h0 s) (sched : List Nat) :
    (∀ a, a < h0.length → (runW sem grow (startWorld h0 todo) sched).heap[a]? = h0[a]?) ∧
    (∀ i, readS (runW sem grow (startWorld h0 todo) sched).heap ((runW sem grow (startWorld h0 todo) sched).ts i).acc
            ++ want h0 ((runW sem grow (startWorld h0 todo) sched).ts i).todo = want h0 (todo i)) := by
  rw [field_arm_is_copying] at hsem
  cases hsem
  have h := runW_inv grow h0 hd (fun i => want h0 (todo i)) sched (startWorld h0 todo)
    ⟨⟨Nat.le_refl _, fun _ _ => rfl⟩, fun i => ⟨fun _ => rfl, (by intro s hs; cases hs), hdoc i, (by simp [startWorld, readS])⟩⟩
  exact ⟨h.heap.same, fun i => (h.thr i).got⟩

/-- … so a request that has merged all its occurrences resolves exactly its own selections, whatever ran beside it -/
theorem collected_selections_are_the_requests_own
    (sem : ArmSem) (hsem : armSem CollectAlias.fieldArm = some sem)
    (grow : Nat → Nat) (h0 : Heap) (hd : DocOwned h0)
    (todo : Nat → List Slice) (hdoc : ∀ i s, s ∈ todo i → docSlice h0 s) (sched : List Nat) (i : Nat)
    (hdone : ((runW sem grow (startWorld h0 todo) sched).ts i).todo = []) :
    readS (runW sem grow (startWorld h0 todo) sched).heap ((runW sem grow (startWorld h0 todo) sched).ts i).acc
      = want h0 (todo i) := by
  have h := (collect_independent_of_concurrent_requests sem hsem grow h0 hd todo hdoc sched).2 i
  rw [hdone] at h
  simpa [want] using h

/-- a document: the response key's first occurrence selects 3 fields (array of 4: one spare cell), a second
occurrence selects `7`, a third `8` -/
def wDoc : Heap := [⟨0, [1, 2, 3, 0]⟩, ⟨0, [7]⟩, ⟨0, [8]⟩]
/-- request 0 includes occurrences 1 and 2, request 1 includes occurrences 1 and 3 -/
def wTodo : Nat → List Slice
  | 0 => [⟨0, 3, 4⟩, ⟨1, 1, 1⟩]
  | 1 => [⟨0, 3, 4⟩, ⟨2, 1, 1⟩]
  | _ => []

/-- the hypotheses of the theorem are met by that document, and the run is not trivial: both requests end up with
four selections, each its own -/
example : DocOwned wDoc ∧ (∀ i s, s ∈ wTodo i → docSlice wDoc s) ∧
    readS (runW ⟨.absent, true⟩ (fun _ => 0) (startWorld wDoc wTodo) [0, 0, 1, 1, 0]).heap
      ((runW ⟨.absent, true⟩ (fun _ => 0) (startWorld wDoc wTodo) [0, 0, 1, 1, 0]).ts 0).acc = [1, 2, 3, 7] ∧
    readS (runW ⟨.absent, true⟩ (fun _ => 0) (startWorld wDoc wTodo) [0, 1, 0, 1]).heap
      ((runW ⟨.absent, true⟩ (fun _ => 0) (startWorld wDoc wTodo) [0, 1, 0, 1]).ts 1).acc = [1, 2, 3, 8] := by
  refine ⟨?_, ?_, by decide, by decide⟩
  · intro a x hx
    match a, hx with
    | 0, hx => cases hx; rfl
    | 1, hx => cases hx; rfl
    | 2, hx => cases hx; rfl
    | n + 3, hx => simp [wDoc] at hx
  · intro i s hs
    match i, hs with
    | 0, hs => simp [wTodo] at hs; rcases hs with rfl | rfl <;> simp [docSlice, wDoc]
    | 1, hs => simp [wTodo] at hs; rcases hs with rfl | rfl <;> simp [docSlice, wDoc]
    | n + 2, hs => simp [wTodo] at hs

/-- **the theorem really rests on the regenerated arm**: let the first occurrence's CollectedField start with the
document's own slice (`Selections: sel.SelectionSet`, later occurrences appended) and request 0, parked after
merging while request 1 merges, resolves request 1's selection `8` instead of its own `7` -/
theorem alias_first_occurrence_leaks_witness :
    readS (runW ⟨.aliasDocument, false⟩ (fun _ => 0) (startWorld wDoc wTodo) [0, 0, 1, 1]).heap
      ((runW ⟨.aliasDocument, false⟩ (fun _ => 0) (startWorld wDoc wTodo) [0, 0, 1, 1]).ts 0).acc = [1, 2, 3, 8] ∧
    want wDoc (wTodo 0) = [1, 2, 3, 7] := by decide

/-- … and even one request alone then writes into the cached document (its spare capacity): what the harness's
structural hash of cached documents, which covers spare capacity, reports for sequential histories -/
theorem alias_writes_the_document_witness :
    (runW ⟨.aliasDocument, false⟩ (fun _ => 0) (startWorld wDoc wTodo) [0, 0]).heap[0]? = some ⟨0, [1, 2, 3, 7]⟩ ∧
    wDoc[0]? = some ⟨0, [1, 2, 3, 0]⟩ := by decide

/-- a first selection set without spare capacity hides the aliasing (`append` reallocates): why only selection
sets of 3, 5-7, 9-15 … entries show it -/
theorem alias_without_spare_capacity_is_silent_witness :
    readS (runW ⟨.aliasDocument, false⟩ (fun _ => 0)
        (startWorld [⟨0, [1, 2]⟩, ⟨0, [7]⟩, ⟨0, [8]⟩] (fun i => match i with | 0 => [⟨0, 2, 2⟩, ⟨1, 1, 1⟩] | 1 => [⟨0, 2, 2⟩, ⟨2, 1, 1⟩] | _ => []))
        [0, 0, 1, 1]).heap
      ((runW ⟨.aliasDocument, false⟩ (fun _ => 0)
        (startWorld [⟨0, [1, 2]⟩, ⟨0, [7]⟩, ⟨0, [8]⟩] (fun i => match i with | 0 => [⟨0, 2, 2⟩, ⟨1, 1, 1⟩] | 1 => [⟨0, 2, 2⟩, ⟨2, 1, 1⟩] | _ => []))
        [0, 0, 1, 1]).ts 0).acc = [1, 2, 7] := by decide

end D

/-! ## E. The websocket read loop: every frame of an operation carries that operation's id -/
section E
open GqlgenVerif.WsLoop

/-- the message variable of the read loop is declared inside the loop body (`m, err := c.me.NextMessage()`): a
running operation's `msg` pointer refers to a variable no later message is read into -/
theorem read_loop_message_has_its_own_cell : WsLoop.cells = Cells.ownCell := by decide

/-- the lint behind it, package-wide: no variable that a loop of package transport re-assigns is kept by a goroutine
started from that loop -/
theorem no_loop_carried_variable_escapes : WsLoop.loopCarriedEscapes = [] := by decide

/-- the read loop does hand out the address of the message to a callee that keeps it in a goroutine: the two facts
above are what makes that sound (non-vacuity of the concern) -/
theorem message_address_is_retained : ("subscribe", true) ∈ WsLoop.msgAddrPassedTo := by decide

/-- **Every frame an operation sends carries the id of the message that started it** - whatever other messages
(other operations' subscribe / complete, ping, pong) arrive on the connection before the frame is sent, for ALL
sequences of arrivals and emissions. Stated over the regenerated `cells`. -/
theorem ws_frames_carry_own_id (evs : List Ev) (k : Nat) (i : Option String)
    (h : (k, i) ∈ (run WsLoop.cells {} evs).out) :
    ∃ m, (startMsgs evs)[k]? = some m ∧ i = some m.id := by
  rw [read_loop_message_has_its_own_cell] at h
  have := (inv_run evs {} [] inv_init).out k i h
  simpa using this

/-- … hence the label of an operation's frames does not depend on the rest of the connection's traffic: two
sessions in which operation `k` was started by the same message label its frames identically -/
theorem ws_frame_ids_independent_of_other_messages (evs evs' : List Ev) (k : Nat) (i i' : Option String)
    (h : (k, i) ∈ (run WsLoop.cells {} evs).out) (h' : (k, i') ∈ (run WsLoop.cells {} evs').out)
    (hsame : (startMsgs evs)[k]? = (startMsgs evs')[k]?) : i = i' := by
  obtain ⟨m, hm, rfl⟩ := ws_frames_carry_own_id evs k i h
  obtain ⟨m', hm', rfl⟩ := ws_frames_carry_own_id evs' k i' h'
  rw [hm, hm'] at hsame
  cases hsame; rfl

/-- the session of the non-vacuity example below: a subscription, a query beside it, a ping, frames of both -/
def wSession : List Ev :=
  [.recv ⟨"sub", true⟩, .recv ⟨"q", true⟩, .emit 1, .emit 1, .recv ⟨"", false⟩, .emit 0, .emit 0]

example : (run Cells.ownCell {} wSession).out =
    [(1, some "q"), (1, some "q"), (0, some "sub"), (0, some "sub")] := by decide

/-- **the theorem rests on the regenerated fact**: with ONE message variable for the whole loop the subscription's
frames are labelled with the id of whatever arrived last - "q" after the query, no id at all after the ping -/
theorem shared_message_variable_mislabels_witness :
    (run Cells.sharedCell {} [.recv ⟨"sub", true⟩, .recv ⟨"q", true⟩, .emit 0]).out = [(0, some "q")] ∧
    (run Cells.sharedCell {} wSession).out = [(1, some "q"), (1, some "q"), (0, some ""), (0, some "")] := by decide

end E
end GqlgenVerif.C07
