import GqlgenVerif.Lemmas.Entities
/-!
# C20 — federation `_entities` answers each representation at its own index

Over `Model/Entities.lean` (the generated `__resolve_entities`, `buildRepresentationGroups`,
`resolveEntityGroup`, `resolveEntity`, `resolveManyEntities`, `entityResolverNameFor<T>` of
`plugin/federation/federation.gotpl`). Everything is for **all** entity tables, **all** user code (total
functions of the arguments the generated code passes; errors and panics are outcomes), **all** representation
lists (any length, duplicates, interleaved types, unknown types, missing/null keys) and **all** completion
orders of the concurrently running tasks.

* `indices_partition`, `group_members_sound`, `group_members_complete`, `one_group_per_typename` — grouping
  keeps indices; the groups' indices are exactly the positions with a string `__typename`, each once.
* `writes_disjoint` — a task writes only cells it owns, and distinct tasks own disjoint cells; hence
  `result_schedule_independent` (every completion order: same list, same errors up to order) and
  `any_schedule_final` (the same over the interleaving semantics `Sched.Reachable`).
* `element_i_is_rep_i` — single mode and representations without `__typename`: element `i` is exactly what
  representation `i` resolves to by itself (`specElem`): its entity, or null; `element_error_reported` — and
  then its error is in the response.
* `fault_isolated` — single mode: element `i` is a function of representation `i` and of the user code's
  answer to that representation's own call; whatever happens to any other representation (other keys, other
  types, failures, panics, another schedule, a different list length) cannot change it.
  `fault_injection_isolated` — the special case "make one call fail".
* `requires_from_same_rep`, `requires_values_read_from_rep`, `explicit_populator_gets_same_rep` — the
  `@requires` values of element `i` are read from representation `i`, the one its key was read from.
* batch (multi) mode: `multi_positional` (what the positional zip guarantees unconditionally: the k-th
  returned entity goes to the k-th representation's index with the k-th representation's requires, the k-th
  input was read from the k-th representation), `multi_length_mismatch_is_error` (after the repair `cf85b0d`),
  `multi_element_i_is_rep_i_partial` (= Spec under the hypotheses that are needed: every member selects the
  resolver the first member selects, the user's batch is pointwise, the batch completes), and the witnesses for
  what the code as it is does without them: `multi_first_key_witness`, `multi_first_key_abort_witness` (F20a),
  `multi_batch_abort_witness` (F20c). `single_mode_impl_eq_spec`: whole response = Spec when no batch type occurs.

Granularity (stated plainly): tasks are atomic (see the model's header); "no data race" is not a theorem.
-/
namespace GqlgenVerif.C20
open GqlgenVerif GqlgenVerif.Entities

/-! ## grouping -/

/-- **The groups' indices are a partition of the valid positions**: together they are exactly the positions
whose representation has a string `__typename` (each exactly once, none invented). -/
theorem indices_partition (reps : List Rep) :
    (gidxs (groupsOf reps)).Perm (validFrom 0 reps) ∧ (gidxs (groupsOf reps)).Nodup ∧
    ∀ j, j ∈ gidxs (groupsOf reps) ↔ ∃ r, reps[j]? = some r ∧ (typenameOf r).isSome := by
  have hp := gidxs_groupsFrom 0 reps
  refine ⟨hp, hp.nodup_iff.mpr (validFrom_nodup 0 reps), ?_⟩
  intro j
  rw [groupsOf, hp.mem_iff]
  have := mem_validFrom [] reps j
  simpa using this

/-- every member `(j, r)` of the group of `t` is representation `j` of the request and has `__typename = t` -/
theorem group_members_sound (reps : List Rep) {t : String} {xs : List (Nat × Rep)}
    (h : (t, xs) ∈ groupsOf reps) : ∀ p ∈ xs, reps[p.1]? = some p.2 ∧ typenameOf p.2 = some t := by
  intro p hp
  have := groupsFrom_sound [] reps h p hp
  exact ⟨by simpa using this.1, this.2.1⟩

/-- every representation with a string `__typename` is in the group of that name, under its own index -/
theorem group_members_complete (reps : List Rep) (j : Nat) (r : Rep) (ty : String)
    (hr : reps[j]? = some r) (hty : typenameOf r = some ty) :
    ∃ xs, (ty, xs) ∈ groupsOf reps ∧ (j, r) ∈ xs :=
  groupsFrom_complete [] reps j r ty (by simp) (by simpa using hr) hty

theorem one_group_per_typename (reps : List Rep) : ((groupsOf reps).map (·.1)).Nodup :=
  groupsFrom_keys_nodup 0 reps

/-! ## disjoint writes, schedule independence -/

/-- **Writes are disjoint**: a task writes only cells it owns; distinct tasks own disjoint cells. -/
theorem writes_disjoint (cfg : Cfg) (u : User) (reps : List Rep) :
    (∀ t ∈ tasks cfg reps, ∀ w ∈ (t.effect cfg u).writes, w.1 ∈ t.idxs) ∧
    (tasks cfg reps).Pairwise (fun a b => ∀ i, i ∈ a.idxs → i ∉ b.idxs) :=
  ⟨fun t _ => effect_targets cfg u t, tasks_pairwise_disjoint cfg reps⟩

/-- **Every completion order gives the same response**: the same list, the same errors up to order. -/
theorem result_schedule_independent (cfg : Cfg) (u : User) (reps : List Rep) (order : List Task)
    (h : order.Perm (tasks cfg reps)) :
    (runOrder cfg u reps order).list = (entities cfg u reps).list ∧
    (runOrder cfg u reps order).errs.Perm (entities cfg u reps).errs := by
  have hp : ((tasks cfg reps).map (Task.effect cfg u)).Pairwise Eff.Disjoint := effects_pairwise_disjoint cfg u reps
  have hm := (h.map (Task.effect cfg u)).symm
  have := runE_perm hm hp (initSt reps)
  exact ⟨this.1.symm, this.2.symm⟩

/-- The same over the interleaving semantics: from the state where all tasks are pending, whichever pending
task completes next, when none is left the list is the sequential one and the errors a permutation. -/
theorem any_schedule_final (cfg : Cfg) (u : User) (reps : List Rep) (s : Sys)
    (hr : Sched.Reachable (Sys.init (effects cfg u reps) (initSt reps)) Sys.step s) (hend : s.pending = []) :
    s.st.list = (entities cfg u reps).list ∧ s.st.errs.Perm (entities cfg u reps).errs := by
  have inv : ∃ done, (done ++ s.pending).Perm (effects cfg u reps) ∧ s.st = runE done (initSt reps) := by
    refine Sched.Reachable.invariant
      (fun s => ∃ done, (done ++ s.pending).Perm (effects cfg u reps) ∧ s.st = runE done (initSt reps)) ?_ ?_ s hr
    · rintro s ⟨h1, h2⟩
      exact ⟨[], by simp [h1], by simp [h2, runE]⟩
    · rintro s s' ⟨done, hp, hs⟩ ⟨l1, e, l2, h1, h2, h3⟩
      refine ⟨done ++ [e], ?_, ?_⟩
      · rw [h2]
        rw [h1] at hp
        refine List.Perm.trans ?_ hp
        simp only [List.append_assoc, List.singleton_append]
        exact List.Perm.append_left _ List.perm_middle.symm
      · rw [h3, hs]; simp [runE]
  obtain ⟨done, hp, hs⟩ := inv
  rw [hend, List.append_nil] at hp
  have hpw : done.Pairwise Eff.Disjoint :=
    (hp.pairwise_iff (fun h => Eff.Disjoint.symm h)).mpr (effects_pairwise_disjoint cfg u reps)
  have := runE_perm hp hpw (initSt reps)
  rw [hs]
  exact this

/-! ## element i is representation i (single mode, and representations without `__typename`) -/

/-- representation `r` is not handled by a batch resolver -/
def SingleMode (cfg : Cfg) (r : Rep) : Prop := ∀ ty, typenameOf r = some ty → cfg.isMulti ty = false

theorem element_i_seq (cfg : Cfg) (u : User) (reps : List Rep) (i : Nat) (r : Rep)
    (hr : reps[i]? = some r) (hs : SingleMode cfg r) :
    (entities cfg u reps).list[i]? = some (specElem cfg u r).1 := by
  have hi := lt_of_get hr
  cases hty : typenameOf r with
  | none =>
    rw [cell_unowned, initSt_get reps i hi]
    · simp [specElem, hty]
    · intro t ht hti
      have : i ∈ validFrom 0 reps := (mem_tasks_idxs_iff cfg reps i).mp ⟨t, ht, hti⟩
      obtain ⟨_, r', h1, h2⟩ := (mem_validFrom [] reps i).mp this
      simp only [List.nil_append] at h1
      rw [hr] at h1
      cases h1
      simp [hty] at h2
  | some ty =>
    have hm := hs ty hty
    have ht := single_task_mem cfg reps i r ty hr hty hm
    rw [cell_of_owner cfg u reps _ ht i (by simp [Task.idxs])]
    simp only [specElem, hty, hm, Bool.false_eq_true, if_false, Task.effect]
    cases resolveEntity cfg u ty r with
    | ok e =>
      simp only [applyWrites, List.foldl_cons, List.foldl_nil]
      rw [List.getElem?_set_self (by simpa [initSt] using hi)]
    | error m => simpa [applyWrites] using initSt_get reps i hi

/-- **Element `i` is representation `i`**, for every completion order: the entity representation `i`
resolves to by itself, or null (`specElem`) -/
theorem element_i_is_rep_i (cfg : Cfg) (u : User) (reps : List Rep) (order : List Task)
    (ho : order.Perm (tasks cfg reps)) (i : Nat) (r : Rep) (hr : reps[i]? = some r) (hs : SingleMode cfg r) :
    (runOrder cfg u reps order).list[i]? = some (specElem cfg u r).1 := by
  rw [(result_schedule_independent cfg u reps order ho).1]
  exact element_i_seq cfg u reps i r hr hs

theorem preErrs_mem (reps : List Rep) (i : Nat) (r : Rep) (hr : reps[i]? = some r) (hty : typenameOf r = none) :
    errNoTypename ∈ preErrs reps := by
  induction reps generalizing i with
  | nil => simp at hr
  | cons r0 rest ih =>
    simp only [preErrs, List.mem_append]
    cases i with
    | zero =>
      simp only [List.getElem?_cons_zero, Option.some.injEq] at hr
      subst hr
      left; simp [hty]
    | succ j =>
      right
      exact ih j (by simpa using hr)

/-- … **or null with an error**: when representation `i` fails, its error is in the response -/
theorem element_error_reported (cfg : Cfg) (u : User) (reps : List Rep) (order : List Task)
    (ho : order.Perm (tasks cfg reps)) (i : Nat) (r : Rep) (hr : reps[i]? = some r) (hs : SingleMode cfg r) :
    ∀ m ∈ (specElem cfg u r).2, m ∈ (runOrder cfg u reps order).errs := by
  intro m hm
  rw [(result_schedule_independent cfg u reps order ho).2.mem_iff]
  simp only [entities, runOrder, runE_errs, List.mem_append]
  cases hty : typenameOf r with
  | none =>
    left
    simp only [specElem, hty, List.mem_singleton] at hm
    subst hm
    simpa [initSt] using preErrs_mem reps i r hr hty
  | some ty =>
    right
    have hmm := hs ty hty
    have ht := single_task_mem cfg reps i r ty hr hty hmm
    simp only [List.mem_flatMap, List.mem_map]
    refine ⟨_, ⟨_, ht, rfl⟩, ?_⟩
    simp only [specElem, hty, hmm, Bool.false_eq_true, if_false] at hm
    simp only [Task.effect]
    cases hres : resolveEntity cfg u ty r with
    | ok e => simp [hres] at hm
    | error m' => simpa [hres] using hm

/-- a failed single-mode representation leaves `null`; a successful one adds no error -/
theorem specElem_null_iff_error (cfg : Cfg) (u : User) (r : Rep) (hs : SingleMode cfg r) :
    ((specElem cfg u r).1 = none ↔ (specElem cfg u r).2 ≠ []) := by
  cases hty : typenameOf r with
  | none => simp [specElem, hty]
  | some ty =>
    simp only [specElem, hty, hs ty hty, Bool.false_eq_true, if_false]
    cases resolveEntity cfg u ty r <;> simp

/-! ## fault isolation (single mode) -/

/- Full strength would drop `SingleMode`; that is false in batch mode (`multi_batch_abort_witness`: a
   malformed `@requires` source of the middle member nulls the last member). -/

/-- **A failure or panic for one representation never changes another element.** Element `i` is determined
by representation `i` and the user code's behaviour on that representation alone: two runs that agree on
those - and differ arbitrarily in every other representation (other keys, types, failing or panicking
resolvers, list length) and in the schedule - have the same element `i`. -/
theorem fault_isolated (cfg : Cfg) (u u' : User) (reps reps' : List Rep) (order order' : List Task)
    (ho : order.Perm (tasks cfg reps)) (ho' : order'.Perm (tasks cfg reps'))
    (i : Nat) (r : Rep) (hr : reps[i]? = some r) (hr' : reps'[i]? = some r) (hs : SingleMode cfg r)
    (hsame : (specElem cfg u r).1 = (specElem cfg u' r).1) :
    (runOrder cfg u reps order).list[i]? = (runOrder cfg u' reps' order').list[i]? := by
  rw [element_i_is_rep_i cfg u reps order ho i r hr hs, element_i_is_rep_i cfg u' reps' order' ho' i r hr' hs, hsame]

/-- the user call `resolveEntity` makes for a representation, if it gets that far -/
def callOf (cfg : Cfg) (ty : String) (rep : Rep) : Option (String × List KV) :=
  match cfg.find ty with
  | none => none
  | some e =>
    if e.resolvers.isEmpty || e.multi then none else
    match selectResolver e rep with
    | .error _ => none
    | .ok r =>
      match keyArgs rep (fun _ _ m => m) r.keys 0 with
      | .error _ => none
      | .ok args => some (r.name, args)

theorem resolveEntity_congr (cfg : Cfg) (u u' : User) (ty : String) (rep : Rep)
    (hp : u.populate = u'.populate)
    (h : ∀ n a, callOf cfg ty rep = some (n, a) → u.single n a = u'.single n a) :
    resolveEntity cfg u ty rep = resolveEntity cfg u' ty rep := by
  unfold resolveEntity
  unfold callOf at h
  cases hf : cfg.find ty with
  | none => rfl
  | some e =>
    simp only [hf] at h ⊢
    split
    · rfl
    · rename_i hne
      simp only [hne, Bool.false_eq_true, if_false] at h
      cases hsel : selectResolver e rep with
      | error m => rfl
      | ok r =>
        simp only [hsel] at h ⊢
        cases hk : keyArgs rep (fun _ _ m => m) r.keys 0 with
        | error m => rfl
        | ok args =>
          simp only [hk] at h ⊢
          rw [← h r.name args rfl]
          simp only [finishSingle, hp]

/-- the user code `u` with the answer to one entity-resolver call replaced (e.g. by an error or a panic) -/
def withFault (u : User) (n : String) (a : List KV) (o : Outcome) : User :=
  { u with single := fun n' a' => if n' = n ∧ a' = a then o else u.single n' a' }

/-- **Injecting a fault into one call** changes no element whose representation does not make that call. -/
theorem fault_injection_isolated (cfg : Cfg) (u : User) (n : String) (a : List KV) (o : Outcome)
    (reps : List Rep) (order order' : List Task)
    (ho : order.Perm (tasks cfg reps)) (ho' : order'.Perm (tasks cfg reps))
    (i : Nat) (r : Rep) (hr : reps[i]? = some r) (hs : SingleMode cfg r)
    (hcall : ∀ ty, typenameOf r = some ty → callOf cfg ty r ≠ some (n, a)) :
    (runOrder cfg (withFault u n a o) reps order').list[i]? = (runOrder cfg u reps order).list[i]? := by
  apply fault_isolated cfg _ _ reps reps order' order ho' ho i r hr hr hs
  cases hty : typenameOf r with
  | none => simp [specElem, hty]
  | some ty =>
    simp only [specElem, hty, hs ty hty, Bool.false_eq_true, if_false]
    rw [resolveEntity_congr cfg (withFault u n a o) u ty r rfl]
    intro n' a' hc
    have hne : (n', a') ≠ (n, a) := fun heq => hcall ty hty (heq ▸ hc)
    simp only [withFault]
    split
    · rename_i h; exact absurd (by rw [h.1, h.2]) hne
    · rfl

/-! ## required fields come from the same representation as the key -/

/-- **The entity stored at `i` is the one resolved from representation `i`** - key and `@requires` handling
together (`resolveEntity` reads both from the one `rep` it is given). -/
theorem requires_from_same_rep (cfg : Cfg) (u : User) (reps : List Rep) (order : List Task)
    (ho : order.Perm (tasks cfg reps)) (i : Nat) (r : Rep) (ty : String) (e : Ent)
    (hr : reps[i]? = some r) (hty : typenameOf r = some ty) (hm : cfg.isMulti ty = false)
    (he : (runOrder cfg u reps order).list[i]? = some (some e)) :
    resolveEntity cfg u ty r = .ok e := by
  have hs : SingleMode cfg r := by
    intro ty' h; rw [hty] at h; cases h; exact hm
  rw [element_i_is_rep_i cfg u reps order ho i r hr hs] at he
  simp only [specElem, hty, hm, Bool.false_eq_true, if_false, Option.some.injEq] at he
  cases hres : resolveEntity cfg u ty r with
  | ok e' => simp [hres] at he; rw [he]
  | error m => simp [hres] at he

theorem assignRequires_read (rep : Rep) (isNil : Bool) (ks : List KeyField) (rs : List (List String × KV))
    (h : assignRequires rep isNil ks = .ok rs) :
    rs.map (·.1) = ks.map (·.path) ∧
    ∀ pv ∈ rs, ∃ k ∈ ks, k.path = pv.1 ∧ ∃ v, access rep k.path = .val v ∧ unmarshal k.ty v = .ok pv.2 := by
  induction ks generalizing rs with
  | nil => simp [assignRequires] at h; subst h; simp
  | cons k ks ih =>
    simp only [assignRequires] at h
    cases ha : access rep k.path with
    | assertPanic => simp [ha] at h
    | val v =>
      simp only [ha] at h
      split at h
      · simp at h
      · cases hu : unmarshal k.ty v with
        | error m => simp [hu] at h
        | ok a =>
          simp only [hu] at h
          cases hrest : assignRequires rep isNil ks with
          | error m => simp [hrest] at h
          | ok as =>
            simp only [hrest, Except.ok.injEq] at h
            subst h
            obtain ⟨ih1, ih2⟩ := ih as hrest
            refine ⟨by simp [ih1], ?_⟩
            intro pv hpv
            simp only [List.mem_cons] at hpv
            rcases hpv with hpv | hpv
            · subst hpv
              exact ⟨k, by simp, rfl, v, ha, hu⟩
            · obtain ⟨k', hk', h1, h2⟩ := ih2 pv hpv
              exact ⟨k', by simp [hk'], h1, h2⟩

/-- default mode: every `@requires` value of the stored entity was read from (and unmarshalled out of) the
representation the entity was resolved from, one per `@requires` leaf, in order -/
theorem requires_values_read_from_rep (cfg : Cfg) (u : User) (ty : String) (r : Rep) (e : Ent) (ec : EntityCfg)
    (hf : cfg.find ty = some ec) (hc : cfg.computedRequires = false) (hx : cfg.explicitRequires = false)
    (h : resolveEntity cfg u ty r = .ok e) :
    e.req.map (·.1) = ec.requires.map (·.path) ∧
    ∀ pv ∈ e.req, ∃ k ∈ ec.requires, k.path = pv.1 ∧ ∃ v, access r k.path = .val v ∧ unmarshal k.ty v = .ok pv.2 := by
  unfold resolveEntity at h
  simp only [hf] at h
  split at h
  · simp at h
  · cases hsel : selectResolver ec r with
    | error m => simp [hsel] at h
    | ok rc =>
      simp only [hsel] at h
      cases hk : keyArgs r (fun _ _ m => m) rc.keys 0 with
      | error m => simp [hk] at h
      | ok args =>
        simp only [hk] at h
        have fin : ∀ ent : Ent, finishSingle cfg u ec r ent = .ok e →
            e.req.map (·.1) = ec.requires.map (·.path) ∧
            ∀ pv ∈ e.req, ∃ k ∈ ec.requires, k.path = pv.1 ∧ ∃ v, access r k.path = .val v ∧ unmarshal k.ty v = .ok pv.2 := by
          intro ent hfin
          simp only [finishSingle, hc, hx, Bool.false_eq_true, if_false, Bool.false_and] at hfin
          cases hq : assignRequires r ent.isNil ec.requires with
          | error m => simp [hq] at hfin
          | ok rs =>
            simp only [hq, Except.ok.injEq] at hfin
            subst hfin
            exact assignRequires_read r ent.isNil ec.requires rs hq
        cases ho : u.single rc.name args with
        | err m => simp [ho] at h
        | panic m => simp [ho] at h
        | nil => simp only [ho] at h; exact fin _ h
        | value tag => simp only [ho] at h; exact fin _ h

/-- explicit_requires: the populator is handed the entity resolved from this representation's key together
with this same representation -/
theorem explicit_populator_gets_same_rep (cfg : Cfg) (u : User) (ty : String) (r : Rep) (e : Ent) (ec : EntityCfg)
    (hf : cfg.find ty = some ec) (hc : cfg.computedRequires = false) (hx : cfg.explicitRequires = true)
    (hreq : ec.requires ≠ []) (h : resolveEntity cfg u ty r = .ok e) :
    ∃ rc args ent, selectResolver ec r = .ok rc ∧ keyArgs r (fun _ _ m => m) rc.keys 0 = .ok args ∧
      (u.single rc.name args = .value ent.tag ∨ (u.single rc.name args = .nil ∧ ent.isNil = true)) ∧
      u.populate ec.name ent r = .ok e := by
  unfold resolveEntity at h
  simp only [hf] at h
  split at h
  · simp at h
  · cases hsel : selectResolver ec r with
    | error m => simp [hsel] at h
    | ok rc =>
      simp only [hsel] at h
      cases hk : keyArgs r (fun _ _ m => m) rc.keys 0 with
      | error m => simp [hk] at h
      | ok args =>
        simp only [hk] at h
        have hne : ec.requires.isEmpty = false := by
          cases hq : ec.requires with
          | nil => exact absurd hq hreq
          | cons _ _ => rfl
        have fin : ∀ ent : Ent, finishSingle cfg u ec r ent = .ok e → u.populate ec.name ent r = .ok e := by
          intro ent hfin
          simp only [finishSingle, hc, hx, hne, Bool.false_eq_true, if_false, Bool.not_false, Bool.and_self,
            if_true] at hfin
          cases hp : u.populate ec.name ent r with
          | ok e' => simp only [hp, Except.ok.injEq] at hfin; rw [hfin]
          | err m => simp [hp] at hfin
          | panic m => simp [hp] at hfin
        cases ho : u.single rc.name args with
        | err m => simp [ho] at h
        | panic m => simp [ho] at h
        | nil =>
          simp only [ho] at h
          exact ⟨rc, args, _, rfl, hk, Or.inr ⟨ho, rfl⟩, fin _ h⟩
        | value tag =>
          simp only [ho] at h
          exact ⟨rc, args, _, rfl, hk, Or.inl ho, fin _ h⟩

/-! ## batch (multi) mode -/

/-- the batch path ran to completion for the group `rs` of type `ty`: resolver `r` chosen from the FIRST
member, inputs `argss`, the user's slice `es` -/
structure BatchRun (cfg : Cfg) (u : User) (ty : String) (rs : List (Nat × Rep))
    (e : EntityCfg) (r : ResolverCfg) (argss : List (List KV)) (es : List (Option String)) : Prop where
  find : cfg.find ty = some e
  first : ∃ p rest, rs = p :: rest ∧ selectResolver e p.2 = .ok r
  typed : typedReps r rs = .ok argss
  user : u.multi r.name argss = .values es
  len : es.length = rs.length
  zip : (zipWrite e es rs).2 = none
  writes : (resolveMany cfg u ty rs).1 = (zipWrite e es rs).1

/-- a batch call that reported no error went through every stage -/
theorem resolveMany_completed (cfg : Cfg) (u : User) (ty : String) (rs : List (Nat × Rep))
    (h : (resolveMany cfg u ty rs).2 = none) : ∃ e r argss es, BatchRun cfg u ty rs e r argss es := by
  unfold resolveMany at h
  split at h
  · simp at h
  · simp [msgIndex] at h
  · rename_i e i0 rep0 rest hf
    cases hsel : selectResolver e rep0 with
    | error m => simp [hsel] at h
    | ok r =>
      simp only [hsel] at h
      cases ht : typedReps r ((i0, rep0) :: rest) with
      | error m => simp [ht] at h
      | ok argss =>
        simp only [ht] at h
        cases hu : u.multi r.name argss with
        | err m => simp [hu] at h
        | panic m => simp [hu] at h
        | values es =>
          simp only [hu] at h
          split at h
          · simp at h
          · rename_i hlen
            simp only [bne_iff_ne, ne_eq, Decidable.not_not] at hlen
            refine ⟨e, r, argss, es, hf, ⟨(i0, rep0), rest, rfl, hsel⟩, ht, hu, by simpa using hlen, h, ?_⟩
            unfold resolveMany
            simp [hf, hsel, ht, hu, hlen]

/-- **What the positional zip guarantees, unconditionally** (every completion order): when the batch call
of a group completes, the k-th entity the user returned is stored at the index of the k-th representation of
the group, with the `@requires` values of that same representation; and the k-th input handed to the user was
read from the k-th representation (with the key paths of the resolver chosen from the first one). -/
theorem multi_positional (cfg : Cfg) (u : User) (reps : List Rep) (order : List Task)
    (ho : order.Perm (tasks cfg reps)) (ty : String) (rs : List (Nat × Rep))
    (hg : (ty, rs) ∈ groupsOf reps) (hm : cfg.isMulti ty = true)
    (e : EntityCfg) (r : ResolverCfg) (argss : List (List KV)) (es : List (Option String))
    (hb : BatchRun cfg u ty rs e r argss es) :
    (∀ x ∈ es.zip rs, ∃ w, zipEnt e x.1 x.2 = .ok w ∧
        (runOrder cfg u reps order).list[x.2.1]? = some (some w.2)) ∧
    (∀ y ∈ argss.zip rs,
        keyArgs y.2.2 (fun _ k _ => s!"Field {k.defName} undefined in schema.") r.keys 0 = .ok y.1) := by
  refine ⟨?_, (typedReps_zip r rs argss hb.typed).2⟩
  intro x hx
  have ht : Task.multi ty rs ∈ tasks cfg reps := by
    simp only [tasks, tasksOf, List.mem_flatMap]
    exact ⟨(ty, rs), hg, by simp [groupTasks, hm]⟩
  have hxr : x.2 ∈ rs := (List.of_mem_zip (show (x.1, x.2) ∈ es.zip rs from hx)).2
  obtain ⟨w, hw, hz⟩ := (zipWrite_complete e es rs hb.zip).2 x hx
  refine ⟨w, hz, ?_⟩
  rw [(result_schedule_independent cfg u reps order ho).1]
  have hidx : x.2.1 ∈ (Task.multi ty rs).idxs := by
    simp only [Task.idxs, List.mem_map]; exact ⟨x.2, hxr, rfl⟩
  rw [cell_of_owner cfg u reps _ ht _ hidx]
  have hlt : x.2.1 < (initSt reps).list.length := by
    have := (group_members_sound reps hg x.2 hxr).1
    simpa [initSt] using lt_of_get this
  have hww : (Task.multi ty rs).effect cfg u = ⟨(zipWrite e es rs).1, (resolveMany cfg u ty rs).2.toList⟩ := by
    simp [Task.effect, hb.writes]
  rw [hww]
  apply applyWrites_get_mem _ _ _ _ ?_ ?_ hlt
  · exact (zipWrite_targets_sublist e es rs).nodup (task_idxs_nodup cfg reps _ ht)
  · rw [← zipEnt_fst hz]; exact hw

/-- after the repair (`cf85b0d`): a result slice of the wrong length writes nothing and is one error -/
theorem multi_length_mismatch_is_error (cfg : Cfg) (u : User) (ty : String) (p : Nat × Rep)
    (rest : List (Nat × Rep)) (e : EntityCfg) (r : ResolverCfg) (argss : List (List KV)) (es : List (Option String))
    (hf : cfg.find ty = some e) (hs : selectResolver e p.2 = .ok r) (ht : typedReps r (p :: rest) = .ok argss)
    (hu : u.multi r.name argss = .values es) (hne : es.length ≠ rest.length + 1) :
    (resolveMany cfg u ty (p :: rest)).1 = [] ∧ (resolveMany cfg u ty (p :: rest)).2.isSome = true := by
  obtain ⟨i0, rep0⟩ := p
  unfold resolveMany
  simp [hf, hs, ht, hu, hne]

/- Full-strength statement (FALSE for the code as it is, see `multi_first_key_witness`,
   `multi_first_key_abort_witness`, `multi_batch_abort_witness`):

     theorem element_i_is_rep_i_all_modes (cfg u reps order) (ho : order.Perm (tasks cfg reps)) (i r)
         (hr : reps[i]? = some r) : (runOrder cfg u reps order).list[i]? = some (specElem cfg u r).1

   i.e. `element_i_is_rep_i` without `SingleMode`. What is missing in batch mode: the resolver is chosen
   from the group's first member, and one member's failure inside the generated code ends the whole group. -/

/-- **Batch mode equals the Spec under the hypotheses that are needed**: every member of the group selects
the resolver the first member selects, the user's batch resolver is pointwise (one entity per input, in
order), and the batch completes. Then, for every completion order, each member's element is what that
representation resolves to by itself. Without the first hypothesis: `multi_first_key_witness`. -/
theorem multi_element_i_is_rep_i_partial (cfg : Cfg) (u : User) (reps : List Rep) (order : List Task)
    (ho : order.Perm (tasks cfg reps)) (ty : String) (rs : List (Nat × Rep))
    (hg : (ty, rs) ∈ groupsOf reps) (hm : cfg.isMulti ty = true)
    (e : EntityCfg) (r : ResolverCfg) (argss : List (List KV)) (es : List (Option String))
    (hb : BatchRun cfg u ty rs e r argss es)
    (hsel : ∀ p ∈ rs, selectResolver e p.2 = .ok r)
    (g : List KV → Option String) (hpt : ∀ l, u.multi r.name l = .values (l.map g)) :
    ∀ p ∈ rs, (runOrder cfg u reps order).list[p.1]? = some (specElem cfg u p.2).1 := by
  intro p hp
  have hes : es = argss.map g := by
    have := hb.user; rw [hpt] at this; simpa using this.symm
  have hlen : argss.length = rs.length := (typedReps_zip r rs argss hb.typed).1
  obtain ⟨args, hargs⟩ := exists_zip_of_mem_right argss rs p hp hlen
  have hx : (g args, p) ∈ es.zip rs := by
    rw [hes, List.zip_map_left, List.mem_map]
    exact ⟨(args, p), hargs, rfl⟩
  obtain ⟨hpos, hkeys⟩ := multi_positional cfg u reps order ho ty rs hg hm e r argss es hb
  obtain ⟨w, hz, hcell⟩ := hpos _ hx
  have hk := keyArgs_ok_irrel _ _ (fun _ k _ => s!"Field {k.defName} undefined in schema.") _ _ _ (hkeys _ hargs)
  rw [hcell]
  have hty := (group_members_sound reps hg p hp).2
  simp only [zipEnt] at hz
  cases hq : assignRequires p.2 (g args).isNone e.requires with
  | error m => simp [hq] at hz
  | ok q =>
    simp only [hq, Except.ok.injEq] at hz
    simp only [specElem, hty, hm, if_true, resolveAlone, resolveMany, hb.find, hsel p hp, typedReps, hk, hpt,
      List.map_cons, List.map_nil, List.length_cons, List.length_nil, zipWrite, hq]
    simp [← hz]

/-! ## the whole response of a request without batch types -/

/-- **Impl = Spec for requests whose representations are all single-mode** (any mix of types, unknown types,
missing `__typename`, failing keys and resolvers), for every completion order: the list is element-wise the
per-representation result and the errors are exactly the per-representation errors (as a multiset) -
nothing is lost, nothing is invented, nothing is attributed to another index. -/
theorem single_mode_impl_eq_spec (cfg : Cfg) (u : User) (reps : List Rep) (order : List Task)
    (ho : order.Perm (tasks cfg reps)) (hall : ∀ r ∈ reps, SingleMode cfg r) :
    (runOrder cfg u reps order).list = (spec cfg u reps).list ∧
    (runOrder cfg u reps order).errs.Perm (spec cfg u reps).errs := by
  obtain ⟨h1, h2⟩ := result_schedule_independent cfg u reps order ho
  refine ⟨?_, h2.trans ?_⟩
  · rw [h1]
    apply List.ext_getElem?
    intro i
    by_cases hi : i < reps.length
    · have hr : reps[i]? = some reps[i] := List.getElem?_eq_getElem hi
      rw [element_i_seq cfg u reps i _ hr (hall _ (List.getElem_mem hi))]
      simp [spec, hi]
    · have e1 : (entities cfg u reps).list.length = reps.length := by
        rw [entities_list, applyAll_length]; simp [initSt]
      rw [List.getElem?_eq_none (by omega), List.getElem?_eq_none (by simp [spec]; omega)]
  · have : (entities cfg u reps).errs = preErrs reps ++ gerrs cfg u (groupsFrom 0 reps) := by
      simp [entities, runOrder, runE_errs, initSt, gerrs, tasks, groupsOf, List.flatMap_map]
    rw [this]
    exact errs_eq_spec cfg u 0 reps hall

/-! ## what the code as it is does in batch mode without the hypotheses (known findings F20a, F20c) -/

open Probe in
/-- **F20a** — two `Bin` representations using different `@key`s in one request: the resolver and key paths
of the FIRST are used for both, so element 1 is the entity for the key `code = nil` (its own key field `slot`
is never read) - not what representation 1 resolves to - and no error is reported. -/
theorem multi_first_key_witness :
    (entities cfg echoUser mixedKeys).list[1]? = some (some { ty := "Bin", tag := "findManyBinByCodes(nil)" }) ∧
    (specElem cfg echoUser (bin [("slot", .str "s2")])).1 = some { ty := "Bin", tag := "findManyBinBySlots(s2)" } ∧
    (entities cfg echoUser mixedKeys).errs = [] := by decide

open Probe in
/-- the same shape with non-null key fields: the second member's missing `a` is a coercion error of the
first member's resolver, which fails the whole group - both elements null - although each representation
resolves by itself. -/
theorem multi_first_key_abort_witness :
    (entities cfg echoUser mixedKeysNN).list = [none, none] ∧
    (entities cfg echoUser mixedKeysNN).errs = ["Field a undefined in schema."] ∧
    (spec cfg echoUser mixedKeysNN).list.map (Option.map (·.tag)) =
      [some "findManyCrateByAs(a1)", some "findManyCrateByBAndOrgIDs(b2,o2)"] ∧
    (spec cfg echoUser mixedKeysNN).errs = [] := by decide

open Probe in
/-- **F20c** — a malformed `@requires` source in the middle member ends the zip loop: element 2 stays null
although its own representation resolves without any error. -/
theorem multi_batch_abort_witness :
    (entities cfg echoUser badMiddle).list[2]? = some none ∧
    (specElem cfg echoUser (crate [("a", .str "a3"), ("extra", .str "f")])) =
      (some { ty := "Crate", tag := "findManyCrateByAs(a3)", req := [(["extra"], KV.str "f")] }, []) ∧
    (entities cfg echoUser badMiddle).errs = ["map[string]interface {} is not a string"] := by decide

/-! ## non-vacuity -/
section NonVacuity
open Probe

/-- the hypotheses of the single-mode theorems hold for real representations -/
example : SingleMode cfg (user "u1") := by
  intro ty h
  have : ty = "User" := by simpa [typenameOf, user] using h.symm
  subst this; decide

example : ∀ r ∈ mixed, SingleMode cfg r := by
  intro r hr ty h
  simp only [mixed, List.mem_cons, List.not_mem_nil, or_false] at hr
  rcases hr with rfl | rfl | rfl | rfl | rfl | rfl <;>
    simp [typenameOf, user, parcel, List.lookup] at h <;> subst h <;> decide

/-- a completion order different from the sequential one -/
example : (tasks cfg mixed).reverse.Perm (tasks cfg mixed) := List.reverse_perm _
example : (tasks cfg mixed).length = 5 := by decide

/-- the model computes: interleaved types, a representation without `__typename`, an unknown type; index 2 and 4 are null with their errors -/
example : (entities cfg echoUser mixed).list.map (Option.map (·.tag)) =
    [some "findUserByID(u1)", some "findParcelByCode(p1)", none, some "findUserByID(u2)", none,
     some "findParcelByCode(p2)"] ∧
    (entities cfg echoUser mixed).errs = ["__typename must be an existing string", "unknown type: Nope"] := by
  decide

/-- a fault injected into one call: that element is null with its error, the others keep their entity -/
example : (entities cfg (withFault echoUser "findUserByID" [.str "u1"] (.panic "boom")) mixed).list.map (Option.map (·.tag)) =
    [none, some "findParcelByCode(p1)", none, some "findUserByID(u2)", none, some "findParcelByCode(p2)"] ∧
    "panic: boom" ∈ (entities cfg (withFault echoUser "findUserByID" [.str "u1"] (.panic "boom")) mixed).errs := by
  decide

/-- hypothesis `hcall` of `fault_injection_isolated` for another representation of the same type -/
example : ∀ ty, typenameOf (user "u2") = some ty → callOf cfg ty (user "u2") ≠ some ("findUserByID", [.str "u1"]) := by
  intro ty h
  have : ty = "User" := by simpa [typenameOf, user] using h.symm
  subst this; decide

/-- `@requires` values present and read from the representation's own `dims.h` -/
example : (resolveEntity cfg echoUser "Parcel" (parcel "p1" 3)).toOption.map (·.req) = some [(["dims", "h"], .int 3)] := by
  decide

/-- a batch group that completes, whose members all select the first member's resolver, with a pointwise user -/
example : ∃ e r argss es, BatchRun cfg echoUser "Crate"
    [(0, crate [("a", .str "a1")]), (1, crate [("a", .str "a2")])] e r argss es :=
  resolveMany_completed _ _ _ _ (by decide)

/-- hypothesis `hsel`: both members select the resolver of the first -/
example : ∀ rep ∈ [crate [("a", .str "a1")], crate [("a", .str "a2")]],
    ((cfg.find "Crate").bind fun e => (selectResolver e rep).toOption.map (·.name)) = some "findManyCrateByAs" := by
  decide

/-- … and then the group's elements are the Spec's (the conclusion of `multi_element_i_is_rep_i_partial`, computed) -/
example : (entities cfg echoUser [crate [("a", .str "a1")], user "u1", crate [("a", .str "a2")]]).list =
    (spec cfg echoUser [crate [("a", .str "a1")], user "u1", crate [("a", .str "a2")]]).list := by decide

example : ∀ l, echoUser.multi "findManyCrateByAs" l = .values (l.map fun a => some (tagOf "findManyCrateByAs" a)) :=
  fun _ => rfl

/-- the length check: a user slice that is one short is an error and writes nothing -/
example : resolveMany cfg { echoUser with multi := fun _ l => .values (l.drop 1 |>.map fun a => some (tagOf "x" a)) } "Crate"
    [(0, crate [("a", .str "a1")]), (1, crate [("a", .str "a2")])] =
    ([], some "entity resolver findManyCrateByAs returned 1 entities for 2 representations of \"Crate\"") := by
  decide

end NonVacuity

end GqlgenVerif.C20
