import GqlgenVerif.Model.KeyWalk
import GqlgenVerif.Gen.FedKeyWalk
/-!
# C20 — the key-field walk of `entityResolverNameFor<T>`: the cursor returns to the representation before every key component

The model (`Model/Entities.lean`: `probeKey`, `tryKeys`) looks every key field up FROM THE REPRESENTATION. The
generated code does it with a cursor variable `m` that descends into nested key objects and has to be put back
(`m = rep`) before the next component. `Model/KeyWalk.lean` has the statements as a program (`Op`, `runOps`), the
program the template emits (`compileKeys`) and a symbolic execution (`checkedPaths`).

For all inputs: `walk_eq_tryKeys` (the template's program decides exactly what `tryKeys` decides, with the same
error text), `checkedPaths_compileKeys` (it null-checks exactly the key paths, each read from the root).
`reset_once_refuses_complete_key_witness` / `reset_once_checks_wrong_path_witness`: with the reset hoisted out of
the loop over the key fields a complete representation of `@key(fields: "owner { id } sku")` is refused.

Over `Gen/FedKeyWalk.lean`, re-extracted on every run from the `federation.go` of every generated probe server
(`go/extract/fedkeywalk.go`): the statements of every generated block ARE `compileKeys` of the paths that
`resolveEntity` / `resolveManyEntities` unmarshal that resolver's key arguments from, and every null check reads
the absolute path of its key argument. A template edit that moves, drops or adds a cursor statement changes the
regenerated definition and these proofs no longer close.
-/
namespace GqlgenVerif.C20Walk
open GqlgenVerif GqlgenVerif.Entities GqlgenVerif.KeyWalk

/-! ## for all inputs -/

/-- one key field: the template's statements for its path behave as `probeKey` from the cursor, whatever follows
(`R`, which only depends on `allNull`) -/
theorem runOps_compilePath (ety : String) (rep : Rep) (R : List Op) (F : Bool → Option String)
    (hR : ∀ s : WS, runOps ety rep R s = F s.allNull) :
    ∀ (p : List String) (s : WS),
      runOps ety rep (compilePath p ++ R) s =
        match probeKey s.m p with
        | .missing seg => some (errMissing ety seg)
        | .notMap seg => some (errNotMap ety seg)
        | .val n => F (s.allNull && n)
  | [], s => by simp [compilePath, probeKey, hR]
  | [k], s => by
    simp only [compilePath, List.cons_append, List.nil_append, runOps, probeKey]
    cases h : s.m.lookup k <;> simp [hR]
  | k :: k' :: rest, s => by
    simp only [compilePath, List.cons_append, runOps, probeKey]
    cases h : s.m.lookup k with
    | none => simp
    | some v =>
      cases v <;> simp
      exact runOps_compilePath ety rep R F hR (k' :: rest) _

/-- **the template's walk is the model's key check**: for every list of key fields and every representation, the
block the template emits (`m = rep` before every key field) refuses / accepts exactly as `tryKeys` does, with the
same error text - whatever the cursor and `val` held before. -/
theorem walk_eq_tryKeys (ety : String) (rep : Rep) :
    ∀ (keys : List KeyField) (s : WS),
      runOps ety rep (compileKeys (keys.map (·.path))) s = tryKeys ety rep keys s.allNull
  | [], s => by simp [compileKeys, runOps, tryKeys, errAllNull]
  | k :: rest, s => by
    simp only [List.map, compileKeys, runOps]
    rw [runOps_compilePath ety rep _ (fun a => tryKeys ety rep rest a) (fun s' => walk_eq_tryKeys ety rep rest s')]
    simp only [tryKeys]
    cases probeKey rep k.path <;> simp [errMissing, errNotMap]

/-- a resolver's block, from its first statement -/
theorem block_eq_tryKeys (ety : String) (rep : Rep) (keys : List KeyField) :
    runOps ety rep (compileKeys (keys.map (·.path))) {} = tryKeys ety rep keys true :=
  walk_eq_tryKeys ety rep keys {}

/-- one key field, symbolically: its value is read at `cursor ++ path` -/
theorem checkedPaths_compilePath (R : List Op) :
    ∀ (p : List String) (c : List String) (last : Option (List String)), p ≠ [] →
      ∃ c' l', checkedPaths (compilePath p ++ R) (some c) last = some (c ++ p) :: checkedPaths R c' l'
  | [], _, _, h => absurd rfl h
  | [k], c, last, _ => ⟨some c, some (c ++ [k]), by simp [compilePath, checkedPaths]⟩
  | k :: k' :: rest, c, last, _ => by
    obtain ⟨c', l', h⟩ := checkedPaths_compilePath R (k' :: rest) (c ++ [k]) (some (c ++ [k])) (by simp)
    exact ⟨c', l', by simp [compilePath, checkedPaths] at h ⊢; simpa using h⟩

/-- **every key component is checked from the root of the representation**: the template's program null-checks
exactly the key paths, in order, each as an ABSOLUTE path - wherever the cursor was left by the component before. -/
theorem checkedPaths_compileKeys :
    ∀ (ps : List (List String)) (cur last : Option (List String)), (∀ p ∈ ps, p ≠ []) →
      checkedPaths (compileKeys ps) cur last = ps.map some
  | [], _, _, _ => by simp [compileKeys, checkedPaths]
  | p :: ps, cur, last, h => by
    obtain ⟨c', l', hp⟩ := checkedPaths_compilePath (compileKeys ps) p [] last (h p (by simp))
    simp only [compileKeys, checkedPaths, hp, List.map, List.nil_append]
    rw [checkedPaths_compileKeys ps c' l' (fun q hq => h q (by simp [hq]))]

example : ∀ p ∈ [["owner", "id"], ["sku"]], p ≠ ([] : List String) := by decide

/-! ## the reset is NOT loop-invariant (witnesses) -/

/-- `@key(fields: "owner { id } sku")`, the reset hoisted out of the loop over the key fields: the complete
representation `{owner: {id: "o1"}, sku: "s1"}` is refused ("missing Key Field sku": `sku` is looked up inside
`owner`), while the key check of the model - and of the template as it is - accepts it. -/
theorem reset_once_refuses_complete_key_witness :
    let rep : Rep := [("__typename", .str "T"), ("owner", .obj [("id", .str "o1")]), ("sku", .str "s1")]
    let keys : List KeyField := [{ path := ["owner", "id"], ty := .id }, { path := ["sku"], ty := .string }]
    tryKeys "T" rep keys true = none ∧
    runOps "T" rep (compileKeys (keys.map (·.path))) {} = none ∧
    runOps "T" rep (compileKeysResetOnce (keys.map (·.path))) {} = some (errMissing "T" "sku") := by
  refine ⟨by decide, by decide, by decide⟩

/-- the same symbolically: after `owner { id }` the hoisted variant reads `sku` at `owner.sku` -/
theorem reset_once_checks_wrong_path_witness :
    checkedPaths (compileKeysResetOnce [["owner", "id"], ["sku"]]) none none = [some ["owner", "id"], some ["owner", "sku"]] ∧
    checkedPaths (compileKeys [["owner", "id"], ["sku"]]) none none = [some ["owner", "id"], some ["sku"]] := by
  decide

/-- a nested component in LAST position hides the difference (why `"sku org { id }"` alone never showed it) -/
theorem reset_once_same_when_nested_last :
    compileKeysResetOnce [["sku"], ["org", "id"]] ≠ compileKeys [["sku"], ["org", "id"]] ∧
    checkedPaths (compileKeysResetOnce [["sku"], ["org", "id"]]) none none =
      checkedPaths (compileKeys [["sku"], ["org", "id"]]) none none := by
  decide

/-! ## over the regenerated statements of the generated code -/
open GqlgenVerif.Gen.FedKeyWalk

/-- where `resolveEntity` / `resolveManyEntities` of the servers of group `g` read the key arguments of `resolver`
(`pos`: the extractor's hint where in `reads` the entry is; the names must agree) -/
def readsOf (g : Nat) (resolver : String) (pos : Nat) : Option (String × List (List String)) :=
  match reads[pos]? with
  | some r => if r.1 == g && r.2.1 == resolver then some (r.2.2.2.1, r.2.2.2.2) else none
  | none => none

abbrev Walk := Nat × String × List (String × Nat × List (Nat × String))

def walkCanonical (w : Walk) : Bool :=
  w.2.2.all fun b =>
    match readsOf w.1 b.1 b.2.1 with
    | some (_, paths) => parseOps b.2.2 == some (compileKeys paths)
    | none => false

def walkChecksReadPaths (w : Walk) : Bool :=
  w.2.2.all fun b =>
    match readsOf w.1 b.1 b.2.1, parseOps b.2.2 with
    | some (_, paths), some ops => paths.all (· ≠ []) && checkedPaths ops none none == paths.map some
    | _, _ => false

/-- the number of blocks returning `resolver` in the walk at position `pos` (of the same server group) -/
def blocksAt (g : Nat) (resolver : String) (pos : Nat) : Nat :=
  match walks[pos]? with
  | some w => if w.1 == g then (w.2.2.filter (fun b => b.1 == resolver)).length else 0
  | none => 0

/-- **the generated key walk is the template's program for the paths the resolver's arguments are read from**: in
every generated server, every `for { … }` block of every `entityResolverNameFor<T>` consists of exactly the statements
`compileKeys` emits (`m = rep` before every key field, look / descend / null-check along its path) for the paths
`resolveEntity` / `resolveManyEntities` unmarshal the key arguments of the returned resolver from - so by
`walk_eq_tryKeys` it decides what the model's `tryKeys` decides. -/
theorem generated_walk_is_canonical :
    servers ≠ [] ∧ (∀ g ∈ servers, g ≠ []) ∧ walks ≠ [] ∧ walks.all (fun w => w.1 < servers.length && walkCanonical w) = true := by
  decide

/-- **every key argument was checked where it is read**: executing the generated statements symbolically, every
null-checked value comes from the absolute path of the corresponding key argument - the presence check and the
argument are the same field of the same representation (holds for any placement of the resets that brings the cursor
back in time; fails when a component is looked up below the component before it). -/
theorem key_checked_at_the_path_it_is_read_from : walks.all walkChecksReadPaths = true := by
  decide

/-- key arguments are read from the representation being resolved: `rep` (single) / the loop's own member
`rep.entity` (batch) -/
theorem key_arguments_read_from_own_representation :
    reads ≠ [] ∧ reads.all (fun r => r.2.2.2.1 == "rep" || r.2.2.2.1 == "rep.entity") = true := by
  decide

/-- every resolver the dispatch reads key arguments for is returned by a block of the key walk (exactly one in its
entity's function) -/
theorem every_dispatched_resolver_has_one_walk :
    reads.all (fun r => blocksAt r.1 r.2.1 r.2.2.1 == 1) = true := by
  decide

end GqlgenVerif.C20Walk
