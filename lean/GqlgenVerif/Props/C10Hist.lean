import GqlgenVerif.Lemmas.ReqHist
import GqlgenVerif.Gen.ParseGate
/-!
# C10 — "… gqlgen's own code does not panic" over request HISTORIES

A server configured like production (`handler.NewDefaultServer`: LRU query cache, APQ) keeps state between
requests. `parseQuery` returns a cached document without validating it, so the malformed input of one request
must not be able to leave an unvalidated document behind for the next one: that document would be executed
with `Field.Definition == nil` - a nil dereference in complexity.go, `panic("unknown field")` in the generated
executor - and the user's recover hook would run although no user code panicked.

`G` is regenerated from graphql/executor/executor.go on every run (go/extract/parsegate.go): which of the three
refusals of a document (`parse`, `no operation`, `validate`) precede `queryCache.Add`. The theorems quantify
over **all** histories (any length, any interleaving of documents, repeated or not, with any APQ extension),
all cache capacities and every classification of the query strings by the library.
-/
namespace GqlgenVerif.C10Hist
open GqlgenVerif GqlgenVerif.ReqHist

/-- `parseQuery` as it is in the source today -/
abbrev G : Gate := Gen.ParseGate.gate

/-- `query_cache_unobservable`: whatever was sent before, every request gets the answer a server without a
query cache (`handler.New` as is) gives to the same history - in particular a malformed or schema-invalid
document sent for the second, third … time gets its parse / validation error again. -/
theorem query_cache_unobservable (cap : Nat) (apqOn : Bool) (cls : Nat → QClass) (hist : List Step) :
    runAll G cap apqOn cls St.init hist = runAll G 0 apqOn cls St.init hist := by
  have hg : G = Gate.all := by decide
  rw [hg]
  exact runAll_all cap apqOn cls hist St.init (inv_nil cls)

/-- `only_validated_documents_run`: in every history every document that is handed on to execution passed
the validator - gqlgen's own panic path (executing a document with `Definition == nil`) stays empty. -/
theorem only_validated_documents_run (cap : Nat) (apqOn : Bool) (cls : Nat → QClass) (hist : List Step) :
    ∀ c, Out.run c ∈ runAll G cap apqOn cls St.init hist → c = .valid := by
  intro c hm
  rw [query_cache_unobservable] at hm
  have h := runAll_nocache_ok G apqOn cls hist [] (.run c) hm
  simpa [Out.ok] using h

/-- `repeated_request_same_answer`: without APQ in play, the answer to a request depends on its own query
string only: it is the answer of a server that has seen nothing. -/
theorem repeated_request_same_answer (cap : Nat) (cls : Nat → QClass) (qs : List Nat) :
    runAll G cap false cls St.init (qs.map fun q => Step.op q .none) = qs.map fun q => fresh (cls q) := by
  rw [query_cache_unobservable]
  suffices h : ∀ a, runAll G 0 false cls ⟨[], a⟩ (qs.map fun q => Step.op q .none) = qs.map fun q => fresh (cls q) from h []
  induction qs with
  | nil => intro a; rfl
  | cons q qs ih =>
    intro a
    simp only [List.map_cons, runAll, step, viaCache, parseQuery_nocache, Bool.not_false, if_true]
    rw [ih]

/-- `history_safe_iff_gate`: for ANY placement of `queryCache.Add`: the cache is unobservable for all
histories **iff** all three refusals precede the `Add` (each of them is necessary). -/
theorem history_safe_iff_gate (g : Gate) :
    (∀ (cap : Nat) (cls : Nat → QClass) (hist : List Step),
        runAll g cap false cls St.init hist = runAll g 0 false cls St.init hist) ↔ g = Gate.all := by
  constructor
  · intro h
    rcases g with ⟨p, n, v⟩
    have hp := h 1 (fun _ => .parseErr) [.op 1 .none, .op 1 .none]
    have hn := h 1 (fun _ => .noOp) [.op 1 .none, .op 1 .none]
    have hv := h 1 (fun _ => .invalid) [.op 1 .none, .op 1 .none]
    cases p <;> cases n <;> cases v <;> first | rfl | (exfalso; revert hp hn hv; decide)
  · intro hg cap cls hist
    rw [hg]
    exact runAll_all cap false cls hist St.init (inv_nil cls)

/-- `cache_before_validate_witness`: `queryCache.Add` moved in front of the validation check: the first
request with a schema-invalid document gets its validation error, the second identical one is executed. -/
theorem cache_before_validate_witness :
    runAll ⟨true, true, false⟩ 1000 true (fun _ => .invalid) St.init [.op 1 .none, .op 1 .none]
      = [.validationError, .run .invalid] := by decide

/-- the same across the APQ path: registered with its hash, then asked for by hash only -/
theorem cache_before_validate_apq_witness :
    runAll ⟨true, true, false⟩ 1 true (fun _ => .invalid) St.init [.op 1 (.hash 1), .op emptyQ (.hash 1)]
      = [.validationError, .run .invalid] := by decide

/-- non-vacuity: with today's gate the same histories answer the validation error every time, also after an
eviction in between (capacity 1) -/
example : runAll G 1 true (fun q => if q = 1 then .invalid else .valid) St.init
    [.op 1 .none, .op 2 .none, .op 1 .none, .op 1 (.hash 1), .op emptyQ (.hash 1), .op emptyQ (.hash 7)]
    = [.validationError, .run .valid, .validationError, .validationError, .validationError, .apqNotFound] := by decide

end GqlgenVerif.C10Hist
