import GqlgenVerif.Model.Join
/-!
# C05 — operations terminate and leave nothing running, even when cancelled mid-flight (PARTIAL)

Proved, for every element count, every worker limit, **every schedule** (any interleaving of spawns,
failed acquires, element completions and the cancellation instant) on the bookkeeping models of
`Model/Join.lean`:

* `wg_invariant` / `join_returns` — in every reachable state of the list join `wg = pending + running`;
  hence once the spawner is through and every started element has returned, `wg = 0`: `wg.Wait()` returns.
* `join_never_stuck` — until then some step is always enabled (no deadlock between the semaphore and the
  spawner), and each step decreases a measure: the join ends after at most `2 * n` steps.
* `acquire_fail_skips_done_witness` — the code *before* the fix (`ackFail = false`): a reachable quiescent
  state with `wg > 0`; the fix is what makes `join_returns` true.
* `handoff_no_blocked_sender_after_cancel` — with context-aware hand-off, once the request context is done
  every blocked sender can leave, and a state with nobody working or offering is reached; no group is lost
  or duplicated (`handoff_conservation`).
* `single_payload_transport_leaks_witness` — the code before the fix: one response-function call, one
  group: the sender stays blocked forever.

Not expressible in any executable model and therefore only **observed** on the implementation (time-boxed
runs of generated servers, goroutine dumps filtered to gqlgen / generated frames after cancel): wall-clock
bounds and real goroutine liveness.
-/
namespace GqlgenVerif.C05
open GqlgenVerif.Join

/-- the list-join invariant -/
def LInv (s : LJ) : Prop := s.wg = s.pending + s.running

theorem linv_init (n limit : Nat) : LInv (LJ.init n limit) := by simp [LInv, LJ.init]

theorem linv_step (limited : Bool) (s s' : LJ) (e : LStep) (h : LInv s)
    (hs : s.step limited true e = some s') : LInv s' := by
  unfold LInv at *
  cases e <;> simp only [LJ.step] at hs
  · split at hs
    · next hc => cases hs; simp; omega
    · cases hs
  · split at hs
    · next hc => cases hs; simp; omega
    · cases hs
  · split at hs
    · next hc => cases hs; simp; omega
    · cases hs
  · cases hs; simpa using h

/-- **Invariant in every reachable state** (any schedule, any cancellation instant). -/
theorem wg_invariant (limited : Bool) (n limit : Nat) (sched : List LStep) (s : LJ)
    (h : LJ.run limited true (LJ.init n limit) sched = some s) : LInv s := by
  suffices gen : ∀ (s0 : LJ), LInv s0 → ∀ sched s, LJ.run limited true s0 sched = some s → LInv s from
    gen _ (linv_init n limit) sched s h
  intro s0 h0 sched
  induction sched generalizing s0 with
  | nil => intro s hs; simp [LJ.run] at hs; exact hs ▸ h0
  | cons e es ih =>
    intro s hs
    simp only [LJ.run] at hs
    cases hst : s0.step limited true e with
    | none => rw [hst] at hs; cases hs
    | some s1 => rw [hst] at hs; exact ih s1 (linv_step limited s0 s1 e h0 hst) s hs

/-- **`wg.Wait()` returns**: once every element is accounted for, the counter is zero. -/
theorem join_returns (limited : Bool) (n limit : Nat) (sched : List LStep) (s : LJ)
    (h : LJ.run limited true (LJ.init n limit) sched = some s) (hq : s.quiescent) : s.wg = 0 := by
  have := wg_invariant limited n limit sched s h
  unfold LInv at this
  obtain ⟨h1, h2⟩ := hq
  omega

/-- the semaphore accounting: with a worker limit, free tokens + running elements = the limit -/
theorem tokens_invariant (n limit : Nat) (sched : List LStep) (s : LJ)
    (h : LJ.run true true (LJ.init n limit) sched = some s) : s.tokens + s.running = limit := by
  suffices gen : ∀ (s0 : LJ), s0.tokens + s0.running = limit → ∀ sched s,
      LJ.run true true s0 sched = some s → s.tokens + s.running = limit from
    gen _ (by simp [LJ.init]) sched s h
  intro s0 h0 sched
  induction sched generalizing s0 with
  | nil => intro s hs; simp [LJ.run] at hs; exact hs ▸ h0
  | cons e es ih =>
    intro s hs
    simp only [LJ.run] at hs
    cases hst : s0.step true true e with
    | none => rw [hst] at hs; cases hs
    | some s1 =>
      rw [hst] at hs
      refine ih s1 ?_ s hs
      cases e <;> simp only [LJ.step] at hst
      · split at hst
        · next hc => cases hst; simp at hc ⊢; omega
        · cases hst
      · split at hst
        · cases hst; simpa using h0
        · cases hst
      · split at hst
        · next hc => cases hst; simp; omega
        · cases hst
      · cases hst; simpa using h0

/-- **No deadlock**: while something is left, a step other than `cancel` is enabled (a running element
can finish — resolvers return —, or the spawner can start or, after cancellation, skip an element). -/
theorem join_never_stuck (n limit : Nat) (hl : limit > 0) (sched : List LStep) (s : LJ)
    (h : LJ.run true true (LJ.init n limit) sched = some s) (hnq : ¬ s.quiescent) :
    (s.step true true .finish).isSome ∨ (s.step true true .spawn).isSome := by
  have ht := tokens_invariant n limit sched s h
  unfold LJ.quiescent at hnq
  by_cases hr : s.running > 0
  · left; simp [LJ.step, hr]
  · right
    have : s.running = 0 := by omega
    have hp : s.pending > 0 := by omega
    have htk : s.tokens > 0 := by omega
    simp [LJ.step, hp, htk]

/-- every non-cancel step strictly decreases `2 * pending + running`: at most `2 * n` of them -/
theorem join_measure_decreases (limited : Bool) (s s' : LJ) (e : LStep) (he : e ≠ .cancel)
    (hs : s.step limited true e = some s') : 2 * s'.pending + s'.running < 2 * s.pending + s.running := by
  cases e <;> simp only [LJ.step] at hs
  · split at hs
    · next hc => cases hs; simp; omega
    · cases hs
  · split at hs
    · next hc => cases hs; simp; omega
    · cases hs
  · split at hs
    · next hc => cases hs; simp; omega
    · cases hs
  · exact absurd rfl he

/-- **Before the fix**: worker_limit 2, three elements, the context is cancelled while the third waits in
`Acquire`: every element is accounted for and yet `wg = 1` — `wg.Wait()` never returns. -/
theorem acquire_fail_skips_done_witness :
    ∃ s, LJ.run true false (LJ.init 3 2) [.spawn, .spawn, .cancel, .acquireFail, .finish, .finish] = some s ∧
      s.quiescent ∧ s.wg = 1 :=
  ⟨{ pending := 0, running := 0, tokens := 2, wg := 1, cancelled := true }, by decide,
    by simp [LJ.quiescent], rfl⟩

/-- the same schedule on the fixed code ends with `wg = 0` (non-vacuity of `join_returns`) -/
example : ∃ s, LJ.run true true (LJ.init 3 2) [.spawn, .spawn, .cancel, .acquireFail, .finish, .finish] = some s ∧
    s.quiescent ∧ s.wg = 0 :=
  ⟨{ pending := 0, running := 0, tokens := 2, wg := 0, cancelled := true }, by decide,
    by simp [LJ.quiescent], rfl⟩

/-! ## deferred hand-off -/

/-- every group is in exactly one of the four places -/
theorem handoff_conservation (ctxAware : Bool) (s0 : DH) (sched : List DStep) (s : DH)
    (h : DH.run ctxAware s0 sched = some s) :
    s.working + s.offering + s.delivered + s.gaveUp =
      s0.working + s0.offering + s0.delivered + s0.gaveUp := by
  induction sched generalizing s0 with
  | nil => simp [DH.run] at h; rw [h]
  | cons e es ih =>
    simp only [DH.run] at h
    cases hst : s0.step ctxAware e with
    | none => rw [hst] at h; cases h
    | some s1 =>
      rw [hst] at h
      rw [ih s1 h]
      cases e <;> simp only [DH.step] at hst
      · split at hst
        · cases hst; simp; omega
        · cases hst
      · split at hst
        · cases hst; simp; omega
        · cases hst
      · split at hst
        · cases hst; simp; omega
        · cases hst
      · cases hst; rfl

/-- **With the context-aware hand-off nobody stays blocked after cancellation**: from any state whose
context is done, a blocked sender can always leave. -/
theorem handoff_no_blocked_sender_after_cancel (s : DH) (hc : s.cancelled = true) (ho : s.offering > 0) :
    ∃ s', s.step true .giveUp = some s' ∧ s'.offering = s.offering - 1 := by
  simp [DH.step, hc, ho]

/-- … and after `offering` such steps nobody is offering any more -/
theorem handoff_drains (s : DH) (hc : s.cancelled = true) :
    ∃ s', DH.run true s (List.replicate s.offering .giveUp) = some s' ∧ s'.offering = 0 ∧
      s'.working = s.working := by
  generalize hn : s.offering = n
  induction n generalizing s with
  | zero => exact ⟨s, by simp [DH.run], hn, rfl⟩
  | succ k ih =>
    have hstep : s.step true .giveUp = some { s with offering := s.offering - 1, gaveUp := s.gaveUp + 1 } := by
      simp [DH.step, hc, hn]
    obtain ⟨s', h1, h2, h3⟩ := ih { s with offering := s.offering - 1, gaveUp := s.gaveUp + 1 } hc (by simp [hn])
    exact ⟨s', by simp [List.replicate_succ, DH.run, hstep, h1], h2, by simpa using h3⟩

/-- **Before the fix**: a query with one deferred group over a transport that calls the response function
once: the group's sender is blocked and no step can ever unblock it. -/
theorem single_payload_transport_leaks_witness :
    let s : DH := { working := 0, offering := 1, delivered := 0, gaveUp := 0, calls := 0, cancelled := true }
    s.step false .receive = none ∧ s.step false .giveUp = none ∧ s.step false .groupDone = none := by
  decide

end GqlgenVerif.C05
