import GqlgenVerif.Model.Stream
/-!
Lemmas for C12: line splitting, block framing of the SSE chunks, the SSE machine.
-/
namespace GqlgenVerif.Stream

/-! ### LF lines -/

/-- lines, each followed by LF -/
def joinLines (ls : List Bytes) : Bytes := (ls.map (· ++ [LF])).flatten

theorem splitLines_line (l rest : Bytes) (h : LF ∉ l) :
    splitLines (l ++ LF :: rest) = (l :: (splitLines rest).1, (splitLines rest).2) := by
  induction l with
  | nil => simp [splitLines]
  | cons b l ih =>
    have hb : b ≠ LF := fun e => h (by simp [e])
    have hl : LF ∉ l := fun e => h (by simp [e])
    simp [splitLines, hb, ih hl, pushByte]

theorem splitLines_joined (ls : List Bytes) (rest : Bytes) (h : ∀ l ∈ ls, LF ∉ l) :
    splitLines (joinLines ls ++ rest) = (ls ++ (splitLines rest).1, (splitLines rest).2) := by
  induction ls with
  | nil => simp [joinLines]
  | cons l ls ih =>
    have h1 : LF ∉ l := h l (by simp)
    have h2 : ∀ l ∈ ls, LF ∉ l := fun x hx => h x (by simp [hx])
    have := ih h2
    simp only [joinLines] at this ⊢
    simp [List.append_assoc, splitLines_line _ _ h1, this]

theorem splitLines_append (a b : Bytes) :
    splitLines (a ++ b) =
      ((splitLines a).1 ++ (splitLines ((splitLines a).2 ++ b)).1, (splitLines ((splitLines a).2 ++ b)).2) := by
  induction a with
  | nil => simp [splitLines]
  | cons x a ih =>
    by_cases hx : x = LF
    · simp [splitLines, hx, ih]
    · simp only [List.cons_append, splitLines, hx, if_false]
      rw [ih]
      cases h1 : (splitLines a).1 with
      | nil =>
        cases h2 : (splitLines ((splitLines a).2 ++ b)).1 with
        | nil => simp [pushByte, h1, h2, splitLines, hx]
        | cons l ls => simp [pushByte, h1, h2, splitLines, hx]
      | cons l ls => simp [pushByte, h1]

theorem parseLines_append (cur : Cur) (a b : List Bytes) :
    parseLines cur (a ++ b) =
      ((parseLines cur a).1 ++ (parseLines (parseLines cur a).2 b).1, (parseLines (parseLines cur a).2 b).2) := by
  induction a generalizing cur with
  | nil => simp [parseLines]
  | cons l ls ih => simp [parseLines, ih, List.append_assoc]

/-! ### SSE chunks are whole blocks -/

def Chunk.lines : Chunk → List Bytes
  | .header => [[0x3A], []]
  | .ping => [0x3A :: pingText, []]
  | .next p => [evName ++ [0x3A, 0x20] ++ nextName, dataName ++ [0x3A, 0x20] ++ p, []]
  | .complete => [evName ++ [0x3A, 0x20] ++ completeName, []]

/-- the payload of a `next` chunk is one line -/
def Chunk.OK : Chunk → Prop
  | .next p => OneLine p
  | _ => True

theorem chunk_bytes_lines (c : Chunk) : c.bytes canonSse = joinLines c.lines := by
  cases c <;> simp [Chunk.bytes, Chunk.lines, canonSse, joinLines, LF, List.append_assoc]

theorem chunk_lines_noLF (c : Chunk) (h : c.OK) : ∀ l ∈ c.lines, LF ∉ l := by
  cases c with
  | next p =>
    have hp : (10 : Nat) ∉ p := h.1
    intro l hl
    simp [Chunk.lines] at hl
    rcases hl with rfl | rfl | rfl <;> simp [evName, nextName, dataName, LF, hp]
  | _ => intro l hl; simp [Chunk.lines] at hl; rcases hl with rfl | rfl <;> simp [evName, completeName, pingText, LF]

theorem chunk_lines_parse (c : Chunk) (h : c.OK) : parseLines none c.lines = ([c.item], none) := by
  cases c with
  | next p =>
    have hp : (13 : Nat) ∉ p := h.2
    simp [Chunk.lines, parseLines, lineStep, fieldStep, splitColon, stripSpace, evName, nextName, dataName,
      CR, hp, Chunk.item, nextItem]
  | header => simp [Chunk.lines, parseLines, lineStep, CR, Chunk.item, hdrItem]
  | ping => simp [Chunk.lines, parseLines, lineStep, CR, Chunk.item, pingItem, pingText]
  | complete =>
    simp [Chunk.lines, parseLines, lineStep, fieldStep, splitColon, stripSpace, evName, completeName,
      CR, Chunk.item, completeItem]


theorem joinLines_append (a b : List Bytes) : joinLines (a ++ b) = joinLines a ++ joinLines b := by
  simp [joinLines]

theorem chunksBytes_lines (cs : List Chunk) :
    chunksBytes canonSse cs = joinLines (cs.flatMap Chunk.lines) := by
  induction cs with
  | nil => simp [chunksBytes, joinLines]
  | cons c cs ih =>
    simp only [chunksBytes, List.map_cons, List.flatten_cons, List.flatMap_cons, joinLines_append] at ih ⊢
    rw [ih, chunk_bytes_lines]

theorem parse_chunk_lines (cs : List Chunk) (h : ∀ c ∈ cs, c.OK) :
    parseLines none (cs.flatMap Chunk.lines) = (cs.map Chunk.item, none) := by
  induction cs with
  | nil => simp [parseLines]
  | cons c cs ih =>
    have h1 : c.OK := h c (by simp)
    have h2 : ∀ c ∈ cs, c.OK := fun x hx => h x (by simp [hx])
    simp [List.flatMap_cons, parseLines_append, chunk_lines_parse c h1, ih h2]

/-- **framing**: any sequence of whole chunks parses back to exactly its items, nothing left over -/
theorem parse_chunks (cs : List Chunk) (h : ∀ c ∈ cs, c.OK) :
    parseSSE (chunksBytes canonSse cs) = (cs.map Chunk.item, false) := by
  have hl : ∀ l ∈ cs.flatMap Chunk.lines, LF ∉ l := by
    intro l hl
    rcases List.mem_flatMap.1 hl with ⟨c, hc, hlc⟩
    exact chunk_lines_noLF c (h c hc) l hlc
  have := splitLines_joined (cs.flatMap Chunk.lines) [] hl
  simp only [List.append_nil] at this
  simp [parseSSE, chunksBytes_lines, this, splitLines, parse_chunk_lines cs h]

/-- what a client has read when it leaves is parsed to a prefix of the items of the whole stream -/
theorem parseSSE_prefix (a b : Bytes) : ∃ rest, (parseSSE (a ++ b)).1 = (parseSSE a).1 ++ rest := by
  refine ⟨(parseLines (parseLines none (splitLines a).1).2 (splitLines ((splitLines a).2 ++ b)).1).1, ?_⟩
  simp only [parseSSE]
  rw [splitLines_append, parseLines_append]

theorem item_notPing (c : Chunk) : notPing c.item = decide (c ≠ Chunk.ping) := by
  cases c <;> simp [notPing, Chunk.item, pingItem, hdrItem, nextItem, completeItem, pingText]

theorem filter_item (cs : List Chunk) :
    (cs.map Chunk.item).filter notPing = (cs.filter (· ≠ Chunk.ping)).map Chunk.item := by
  simp [List.filter_map, Function.comp_def, item_notPing]

/-! ### the SSE machine -/

theorem sse_closed_step (s : SseSt) (h : s.closed = true) (ht : s.todo = []) (x : Step) : s.step x = s := by
  cases x <;> simp [SseSt.step, h, ht]

theorem sse_closed_run (sched : List Step) (s : SseSt) (h : s.closed = true) (ht : s.todo = []) :
    sseRun s sched = s := by
  induction sched with
  | nil => rfl
  | cons x r ih => simp [sseRun, List.foldl_cons, sse_closed_step s h ht x] at ih ⊢; exact ih

theorem sse_finish_closed (s : SseSt) (h : s.closed = true) (ht : s.todo = []) : sseFinish s = s :=
  sse_closed_run _ s h ht

theorem sse_finish_open : ∀ (todo : List Bytes) (s : SseSt), s.todo = todo → s.closed = false →
    (sseFinish s).out = s.out ++ (todo.map Chunk.next ++ [Chunk.complete]) := by
  intro todo
  induction todo with
  | nil =>
    intro s ht hc
    simp [sseFinish, sseRun, ht, SseSt.step, hc]
  | cons p ps ih =>
    intro s ht hc
    have hs : s.step .main = { s with todo := ps, out := s.out ++ [.next p] } := by simp [SseSt.step, ht]
    have e : sseFinish s = sseFinish { s with todo := ps, out := s.out ++ [.next p] } := by
      simp only [sseFinish, sseRun, ht, List.length_cons, List.replicate_succ, List.foldl_cons, hs]
    rw [e, ih { s with todo := ps, out := s.out ++ [.next p] } rfl hc]
    simp [List.append_assoc]

/-- whatever the schedule, from an open state `Do` writes: pings and the remaining events in order,
    then `complete` -/
theorem sse_run_shape : ∀ (sched : List Step) (s : SseSt), s.closed = false →
    ∃ mid, (sseFinish (sseRun s sched)).out = s.out ++ (mid ++ [Chunk.complete]) ∧
      mid.filter (· ≠ Chunk.ping) = s.todo.map Chunk.next ∧
      (s.ka = false → mid = s.todo.map Chunk.next) := by
  intro sched
  induction sched with
  | nil =>
    intro s hc
    exact ⟨s.todo.map Chunk.next, by simpa [sseRun] using sse_finish_open s.todo s rfl hc, by simp [List.filter_eq_self], fun _ => rfl⟩
  | cons x r ih =>
    intro s hc
    cases x with
    | main =>
      cases ht : s.todo with
      | nil =>
        have hs : s.step .main = { s with closed := true, out := s.out ++ [.complete] } := by
          simp [SseSt.step, ht, hc]
        refine ⟨[], ?_, by simp, fun _ => by simp⟩
        simp only [sseRun, List.foldl_cons, hs]
        have h1 := sse_closed_run r { s with closed := true, out := s.out ++ [.complete] } rfl ht
        simp only [sseRun] at h1
        rw [h1, sse_finish_closed { s with closed := true, out := s.out ++ [.complete] } rfl ht]
        simp
      | cons p ps =>
        have hs : s.step .main = { s with todo := ps, out := s.out ++ [.next p] } := by
          simp [SseSt.step, ht]
        rcases ih { s with todo := ps, out := s.out ++ [.next p] } hc with ⟨mid, h1, h2, h3⟩
        refine ⟨.next p :: mid, ?_, ?_, ?_⟩
        · simp only [sseRun, List.foldl_cons, hs] at h1 ⊢
          simp [h1, List.append_assoc]
        · simp at h2 ⊢; exact h2
        · intro hk; simp [h3 hk]
    | tick =>
      by_cases hk : s.ka = true
      · have hs : s.step .tick = { s with out := s.out ++ [.ping] } := by simp [SseSt.step, hk, hc]
        rcases ih { s with out := s.out ++ [.ping] } hc with ⟨mid, h1, h2, h3⟩
        refine ⟨.ping :: mid, ?_, ?_, ?_⟩
        · simp only [sseRun, List.foldl_cons, hs] at h1 ⊢
          simp [h1, List.append_assoc]
        · simp at h2 ⊢; exact h2
        · intro hk'; simp [hk'] at hk
      · have hs : s.step .tick = s := by simp [SseSt.step, hk]
        rcases ih s hc with ⟨mid, h1, h2, h3⟩
        exact ⟨mid, by simpa [sseRun, List.foldl_cons, hs] using h1, h2, h3⟩

end GqlgenVerif.Stream
