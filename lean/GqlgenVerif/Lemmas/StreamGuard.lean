import GqlgenVerif.Model.StreamGuard
import GqlgenVerif.Model.StreamAlias
/-!
Lemmas for the cancellation model (`Model/StreamGuard.lean`) and the buffer-ownership model
(`Model/StreamAlias.lean`) of C12.
-/
namespace GqlgenVerif.StreamGuard
open GqlgenVerif.Stream

/-- `closed` is only ever set by the step that finds nothing left to do -/
def Inv (c : CSt) : Prop := c.s.closed = true → c.s.todo = []

/-- a `write` whose only reason not to write is `closed`: a cancellation step changes nothing the
    stream depends on, one step at a time -/
theorem step_erase (w : List WStmt) (hw : ∀ c d, reaches c d w = !c) (c : CSt) (st : CStep) (hi : Inv c) :
    (CSt.step w c st).s = sseRun c.s (erase [st]) ∧ Inv (CSt.step w c st) := by
  cases st with
  | cancel => exact ⟨by simp [CSt.step, erase, sseRun], hi⟩
  | tick =>
    simp only [CSt.step, erase, sseRun, List.foldl, SseSt.step, hw, Inv]
    split <;> simp_all [Inv]
  | main =>
    simp only [CSt.step, erase, sseRun, List.foldl, SseSt.step, hw, Inv]
    cases h : c.s.todo with
    | nil =>
      simp only
      cases hc : c.s.closed <;> simp [h]
    | cons p ps =>
      have hc : c.s.closed = false := by
        cases hc : c.s.closed
        · rfl
        · have := hi hc; simp [h] at this
      simp [hc]

theorem run_erase (w : List WStmt) (hw : ∀ c d, reaches c d w = !c) (sched : List CStep) :
    ∀ c : CSt, Inv c → (cRun w c sched).s = sseRun c.s (erase sched) ∧ Inv (cRun w c sched) := by
  induction sched with
  | nil => intro c hi; exact ⟨rfl, hi⟩
  | cons st r ih =>
    intro c hi
    have h1 := step_erase w hw c st hi
    have h2 := ih (CSt.step w c st) h1.2
    refine ⟨?_, by simpa [cRun] using h2.2⟩
    have : (cRun w c (st :: r)).s = (cRun w (CSt.step w c st) r).s := by simp [cRun]
    rw [this, h2.1, h1.1]
    cases st <;> simp [erase, sseRun]

theorem erase_replicate_main (n : Nat) : erase (List.replicate n .main) = List.replicate n .main := by
  induction n with
  | zero => rfl
  | succ n ih => simp [List.replicate_succ, erase, ih]

theorem inv_init (ka : Bool) (ps : List Bytes) : Inv (cInit ka ps) := by
  intro h; simp [cInit, sseInit] at h

/-- with a `write` that refuses only once `closed`, the chunks written under any schedule WITH
    cancellations are those of the same schedule without them -/
theorem cancel_chunks (w : List WStmt) (hw : ∀ c d, reaches c d w = !c) (ka : Bool) (ps : List Bytes)
    (sched : List CStep) : sseCancelChunks w ka ps sched = sseChunks ka ps (erase sched) := by
  have h1 := run_erase w hw sched (cInit ka ps) (inv_init ka ps)
  have h2 := run_erase w hw (List.replicate ((cRun w (cInit ka ps) sched).s.todo.length + 1) .main)
    (cRun w (cInit ka ps) sched) h1.2
  simp only [sseCancelChunks, cFinish, sseChunks, sseFinish]
  rw [h2.1, erase_replicate_main, h1.1]
  rfl

/-- a state with its chunks newest first -/
def rev (c : CSt) : CSt := { c with s := { c.s with out := c.s.out.reverse } }

theorem stepR_rev (w : List WStmt) (c : CSt) (st : CStep) : CSt.stepR w (rev c) st = rev (CSt.step w c st) := by
  obtain ⟨⟨todo, ka, closed, out⟩, cancelled⟩ := c
  cases st with
  | cancel => rfl
  | tick =>
    cases hr : (ka && reaches closed cancelled w) <;> simp [CSt.stepR, CSt.step, rev, hr]
  | main =>
    cases todo with
    | nil =>
      cases closed
      · cases hr : reaches false cancelled w <;> simp [CSt.stepR, CSt.step, rev, hr]
      · simp [CSt.stepR, CSt.step, rev]
    | cons p ps =>
      cases hr : reaches closed cancelled w <;> simp [CSt.stepR, CSt.step, rev, hr]

theorem runR_rev (w : List WStmt) (sched : List CStep) : ∀ c : CSt, cRunR w (rev c) sched = rev (cRun w c sched) := by
  induction sched with
  | nil => intro c; rfl
  | cons st r ih => intro c; simp only [cRunR, cRun, List.foldl_cons] at ih ⊢; rw [stepR_rev]; exact ih _

theorem finishR_rev (w : List WStmt) (sched : List CStep) (c : CSt) :
    (cFinishR w (cRunR w (rev c) sched)).s.out.reverse = (cFinish w (cRun w c sched)).s.out := by
  simp only [cFinishR, cFinish]
  rw [runR_rev]
  have : (rev (cRun w c sched)).s.todo = (cRun w c sched).s.todo := rfl
  rw [this, runR_rev]
  simp [rev]

/-- the driver's machine (chunks newest first, reversed at the end) writes the chunks of the model -/
theorem cancel_chunks_rev (w : List WStmt) (ka : Bool) (ps : List Bytes) (sched : List CStep) :
    sseCancelChunksR w ka ps sched = sseCancelChunks w ka ps sched := by
  have h := finishR_rev w sched (cInit ka ps)
  have h0 : rev (cInit ka ps) = cInit ka ps := rfl
  rw [h0] at h
  exact h

end GqlgenVerif.StreamGuard

namespace GqlgenVerif.StreamAlias
open GqlgenVerif.Stream

/-- fresh buffers: every held pointer still reads what was produced, every flush so far read what was
    produced, and nothing is lost or duplicated -/
structure Good (ps : List Bytes) (s : ASt) : Prop where
  held : ∀ r ∈ s.held, r.idx < s.heap.length ∧ readRef s.heap r = r.produced
  out : ∀ g ∈ s.out, ∀ pr ∈ g, pr.1 = pr.2
  all : (s.out.flatten.map Prod.snd) ++ s.held.map Ref.produced ++ s.todo = ps

theorem good_init (ps : List Bytes) : Good ps (aInit ps) :=
  ⟨by simp [aInit], by simp [aInit], by simp [aInit]⟩

theorem good_step (ps : List Bytes) (s : ASt) (st : Step) (h : Good ps s) : Good ps (ASt.step true s st) := by
  cases st with
  | main =>
    cases ht : s.todo with
    | nil => simpa [ASt.step, ht] using h
    | cons p r =>
      simp only [ASt.step, ht, if_true]
      refine ⟨?_, h.out, ?_⟩
      · intro x hx
        simp only [List.mem_append, List.mem_singleton] at hx
        rcases hx with hx | hx
        · have := h.held x hx
          refine ⟨by simp; omega, ?_⟩
          rw [← this.2]
          simp [readRef, List.getD, List.getElem?_append_left this.1]
        · subst hx
          simp [readRef, List.getD]
      · have := h.all
        rw [ht] at this
        simp only [List.map_append, List.map_cons, List.map_nil]
        rw [← this]
        simp
  | tick =>
    simp only [ASt.step]
    refine ⟨by simp, ?_, ?_⟩
    · intro g hg pr hpr
      simp only [List.mem_append, List.mem_singleton] at hg
      rcases hg with hg | hg
      · exact h.out g hg pr hpr
      · subst hg
        simp only [List.mem_map] at hpr
        rcases hpr with ⟨r, hr, rfl⟩
        exact (h.held r hr).2
    · have := h.all
      rw [← this]
      simp [Function.comp_def]

theorem good_run (ps : List Bytes) (sched : List Step) : ∀ s, Good ps s → Good ps (sched.foldl (ASt.step true) s) := by
  induction sched with
  | nil => intro s h; exact h
  | cons st r ih => intro s h; exact ih _ (good_step ps s st h)

/-- after `n` more `.main` steps at most `todo.length - n` responses are left -/
theorem todo_after_mains (fresh : Bool) (n : Nat) : ∀ s : ASt,
    ((List.replicate n Step.main).foldl (ASt.step fresh) s).todo.length = s.todo.length - n := by
  induction n with
  | zero => intro s; simp
  | succ n ih =>
    intro s
    rw [List.replicate_succ, List.foldl_cons, ih]
    cases ht : s.todo with
    | nil => simp [ASt.step, ht]
    | cons p r =>
      cases fresh
      · cases hh : s.heap <;> simp [ASt.step, ht, hh] <;> omega
      · simp [ASt.step, ht]

theorem todo_le_step (fresh : Bool) (s : ASt) (st : Step) : (ASt.step fresh s st).todo.length ≤ s.todo.length := by
  cases st with
  | tick => simp [ASt.step]
  | main =>
    cases ht : s.todo with
    | nil => simp [ASt.step, ht]
    | cons p r =>
      cases fresh
      · cases hh : s.heap <;> simp [ASt.step, ht, hh]
      · simp [ASt.step, ht]

theorem todo_le_run (fresh : Bool) (sched : List Step) : ∀ s : ASt,
    (sched.foldl (ASt.step fresh) s).todo.length ≤ s.todo.length := by
  induction sched with
  | nil => intro s; simp
  | cons st r ih => intro s; exact Nat.le_trans (ih _) (todo_le_step fresh s st)

end GqlgenVerif.StreamAlias
