import GqlgenVerif.Model.DeferSpec
/-! Sanity lemmas about the executable C13 statement (`Model/DeferSpec.lean`): it accepts what it must. -/
namespace GqlgenVerif.DeferSpec
open GqlgenVerif

mutual
theorem eqModCut_refl (failed : List Path) : ∀ (t : Out) (path : Path), eqModCut failed t t path = true
  | .null, _ => by simp [eqModCut, Out.isNull]
  | .leaf a, _ => by simp [eqModCut]
  | .obj fs, path => by simp [eqModCut, eqMembers_refl failed fs path]
  | .list xs, path => by simp [eqModCut, eqElems_refl failed xs path 0]
theorem eqMembers_refl (failed : List Path) : ∀ (fs : List (String × Out)) (path : Path),
    eqMembers failed fs fs path = true
  | [], _ => by simp [eqMembers]
  | (k, v) :: rest, path => by
    simp [eqMembers, eqModCut_refl failed v (path ++ [.key k]), eqMembers_refl failed rest path]
theorem eqElems_refl (failed : List Path) : ∀ (xs : List Out) (path : Path) (i : Nat),
    eqElems failed xs xs path i = true
  | [], _, _ => by simp [eqElems]
  | x :: rest, path, i => by
    simp [eqElems, eqModCut_refl failed x (path ++ [.idx i]), eqElems_refl failed rest path (i + 1)]
end

theorem notIn_self : ∀ (xs : List (String × String)), notIn xs xs = []
  | [] => rfl
  | x :: xs => by
    simp only [notIn, List.contains_cons, BEq.rfl, Bool.true_or, ↓reduceIte, List.erase_cons_head]
    exact notIn_self xs

/-! ### the client's merge on one object: `setKeys` restores the plain object

`view R kvs`: the object `kvs` with every entry whose key is not (yet) in `R` still `null` - what the initial
payload holds (`R` = the keys that were not deferred) and what it becomes as groups arrive. -/

def view (R : String → Bool) (kvs : List (String × Out)) : List (String × Out) :=
  kvs.map fun e => if R e.1 then e else (e.1, Out.null)

theorem view_keys (R : String → Bool) (kvs : List (String × Out)) :
    (view R kvs).map (·.1) = kvs.map (·.1) := by
  simp only [view, List.map_map]
  apply List.map_congr_left
  intro e _
  simp only [Function.comp]
  split <;> rfl

theorem nodup_map_inj {α β : Type} (f : α → β) : ∀ (l : List α), (l.map f).Nodup →
    ∀ a ∈ l, ∀ b ∈ l, f a = f b → a = b
  | [], _, a, ha, _, _, _ => by cases ha
  | x :: rest, hnd, a, ha, b, hb, hab => by
    simp only [List.map_cons, List.nodup_cons, List.mem_map, not_exists, not_and] at hnd
    rcases List.mem_cons.mp ha with rfl | ha' <;> rcases List.mem_cons.mp hb with rfl | hb'
    · rfl
    · exact absurd hab.symm (hnd.1 b hb')
    · exact absurd hab (hnd.1 a ha')
    · exact nodup_map_inj f rest hnd.2 a ha' b hb' hab

theorem view_any_key (R : String → Bool) (kvs : List (String × Out)) (k : String) :
    (view R kvs).any (·.1 == k) = kvs.any (·.1 == k) := by
  have h := view_keys R kvs
  have : ∀ l : List (String × Out), l.any (·.1 == k) = (l.map (·.1)).any (· == k) := by
    intro l; induction l with
    | nil => rfl
    | cons a t ih => simp [ih]
  rw [this, this, h]

/-- one arriving key/value pair that the plain object holds: exactly that entry is restored -/
theorem setKeys_one (R : String → Bool) (kvs : List (String × Out)) (hnd : (kvs.map (·.1)).Nodup)
    (k : String) (v : Out) (hm : (k, v) ∈ kvs) :
    setKeys (view R kvs) [(k, v)] = view (fun x => R x || x == k) kvs := by
  have hany : (view R kvs).any (·.1 == k) = true := by
    rw [view_any_key]
    exact List.any_eq_true.mpr ⟨(k, v), hm, by simp⟩
  simp only [setKeys, hany, ↓reduceIte]
  -- pointwise on the entries of `kvs`
  simp only [view, List.map_map]
  apply List.map_congr_left
  intro e he
  simp only [Function.comp]
  by_cases hk : e.1 = k
  · -- the entry with this key is `(k, v)` itself (keys are distinct)
    have heq : e = (k, v) := by
      exact nodup_map_inj (·.1) kvs hnd e he (k, v) hm (by simpa using hk)
    subst heq
    by_cases hr : R k = true <;> simp [hr]
  · have hk' : (e.1 == k) = false := by simpa using hk
    by_cases hr : R e.1 = true
    · simp [hr, hk']
    · have hr' : R e.1 = false := by simpa using hr
      simp [hr', hk']

/-- a whole group's pairs -/
theorem setKeys_group (kvs : List (String × Out)) (hnd : (kvs.map (·.1)).Nodup) :
    ∀ (upd : List (String × Out)) (R : String → Bool), (∀ kv ∈ upd, kv ∈ kvs) →
      setKeys (view R kvs) upd = view (fun x => R x || upd.any (·.1 == x)) kvs
  | [], R, _ => by simp [setKeys]
  | (k, v) :: rest, R, h => by
    have h1 := setKeys_one R kvs hnd k v (h (k, v) (by simp))
    have hstep : setKeys (view R kvs) ((k, v) :: rest) = setKeys (setKeys (view R kvs) [(k, v)]) rest := by
      simp [setKeys]
    rw [hstep, h1, setKeys_group kvs hnd rest _ (fun kv hkv => h kv (by simp [hkv]))]
    congr 1
    funext x
    simp only [List.any_cons, Bool.or_assoc]
    congr 2
    exact Bool.eq_iff_iff.mpr ⟨fun hx => by simpa using (by simpa using hx : x = k).symm,
      fun hx => by simpa using (by simpa using hx : k = x).symm⟩

/-- every group, in any arrival order -/
theorem setKeys_groups (kvs : List (String × Out)) (hnd : (kvs.map (·.1)).Nodup) :
    ∀ (groups : List (List (String × Out))) (R : String → Bool), (∀ g ∈ groups, ∀ kv ∈ g, kv ∈ kvs) →
      groups.foldl setKeys (view R kvs) = view (fun x => R x || groups.any (fun g => g.any (·.1 == x))) kvs
  | [], R, _ => by simp
  | g :: rest, R, h => by
    simp only [List.foldl_cons]
    rw [setKeys_group kvs hnd g R (h g (by simp)),
      setKeys_groups kvs hnd rest _ (fun g' hg' => h g' (by simp [hg']))]
    congr 1
    funext x
    simp [Bool.or_assoc]

theorem view_all (R : String → Bool) (kvs : List (String × Out)) (h : ∀ e ∈ kvs, R e.1 = true) :
    view R kvs = kvs := by
  simp only [view]
  conv => rhs; rw [← List.map_id kvs]
  apply List.map_congr_left
  intro e he
  simp [h e he]

end GqlgenVerif.DeferSpec
