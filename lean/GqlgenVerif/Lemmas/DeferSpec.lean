import GqlgenVerif.Model.DeferSpec
/-! Sanity lemmas about the executable C13 statement (`Model/DeferSpec.lean`): it accepts what it must. -/
namespace GqlgenVerif.DeferSpec
open GqlgenVerif

mutual
theorem eqModCut_refl (failed : List Path) : ∀ (t : Out) (path : Path), eqModCut failed t t path = true
  | .null, _ => by simp [eqModCut, Out.isNull]
  | .leaf a, _ => by simp [eqModCut]
  | .obj fs, path => by simp [eqModCut, eqMembers_refl failed fs path]
  | .list xs, path => by simp [eqModCut, eqElems_refl failed xs path 0]
theorem eqMembers_refl (failed : List Path) : ∀ (fs : List (String × Out)) (path : Path),
    eqMembers failed fs fs path = true
  | [], _ => by simp [eqMembers]
  | (k, v) :: rest, path => by
    simp [eqMembers, eqModCut_refl failed v (path ++ [.key k]), eqMembers_refl failed rest path]
theorem eqElems_refl (failed : List Path) : ∀ (xs : List Out) (path : Path) (i : Nat),
    eqElems failed xs xs path i = true
  | [], _, _ => by simp [eqElems]
  | x :: rest, path, i => by
    simp [eqElems, eqModCut_refl failed x (path ++ [.idx i]), eqElems_refl failed rest path (i + 1)]
end

theorem notIn_self : ∀ (xs : List (String × String)), notIn xs xs = []
  | [] => rfl
  | x :: xs => by
    simp only [notIn, List.contains_cons, BEq.rfl, Bool.true_or, ↓reduceIte, List.erase_cons_head]
    exact notIn_self xs

end GqlgenVerif.DeferSpec
