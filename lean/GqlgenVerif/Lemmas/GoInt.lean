import GqlgenVerif.Model.GoInt
/-! Helper lemmas: decimal rendering round-trips through the strict JSON integer parser. -/
namespace GqlgenVerif.Go

theorem isDigit_add (d : Nat) (h : d < 10) : isDigit (48 + d) = true := by
  simp [isDigit]; omega

theorem parseDigitsAcc_digit (acc d : Nat) (h : d < 10) (r : Bytes) :
    parseDigitsAcc acc ((48 + d) :: r) = parseDigitsAcc (acc * 10 + d) r := by
  simp [parseDigitsAcc, isDigit_add d h]

theorem natDec_lt {n : Nat} (h : n < 10) : natDec n = [48 + n] := by
  rw [natDec]; simp [h]
theorem natDec_ge {n : Nat} (h : ¬ n < 10) : natDec n = natDec (n / 10) ++ [48 + n % 10] := by
  rw [natDec]; simp [h]

theorem natDec_ne_nil (n : Nat) : natDec n ≠ [] := by
  rw [natDec]; split <;> simp

theorem natDec_all_digits (n : Nat) : (natDec n).all isDigit = true := by
  induction n using natDec.induct with
  | case1 n h => rw [natDec_lt h]; simp [isDigit_add n h]
  | case2 n h ih => rw [natDec_ge h]; simp [isDigit_add (n % 10) (by omega)] at *; exact ih

theorem parseDigitsAcc_append (acc : Nat) (n : Nat) (t : Bytes) :
    parseDigitsAcc acc (natDec n ++ t) = parseDigitsAcc (acc * 10 ^ (natDec n).length + n) t := by
  induction n using natDec.induct generalizing acc t with
  | case1 n h =>
    rw [natDec_lt h]; simp [parseDigitsAcc_digit acc n h]
  | case2 n h ih =>
    rw [natDec_ge h]
    simp only [List.append_assoc, List.length_append, List.length_cons, List.length_nil]
    rw [ih]
    simp only [List.cons_append, List.nil_append]
    rw [parseDigitsAcc_digit _ _ (by omega)]
    congr 1
    rw [Nat.zero_add, Nat.pow_succ, ← Nat.mul_assoc]
    generalize acc * 10 ^ (natDec (n / 10)).length = X
    omega

theorem parseNat_natDec (n : Nat) : parseNat (natDec n) = some n := by
  have h := parseDigitsAcc_append 0 n []
  simp [parseDigitsAcc] at h
  unfold parseNat
  split
  · next h0 => exact absurd h0 (natDec_ne_nil n)
  · exact h

theorem natDec_head (n : Nat) : ∃ b r, natDec n = b :: r ∧ isDigit b = true ∧ (b = 48 → n = 0) := by
  induction n using natDec.induct with
  | case1 n h => rw [natDec_lt h]; exact ⟨48 + n, [], rfl, isDigit_add n h, by omega⟩
  | case2 n h ih =>
    obtain ⟨b, r, he, hd, hz⟩ := ih
    rw [natDec_ge h, he]
    refine ⟨b, r ++ [48 + n % 10], by simp, hd, ?_⟩
    intro hb
    have := hz hb
    omega

theorem validJsonNat_natDec (n : Nat) : validJsonNat (natDec n) = true := by
  obtain ⟨b, r, he, hd, hz⟩ := natDec_head n
  have hall := natDec_all_digits n
  rw [he] at hall ⊢
  cases r with
  | nil => simp [validJsonNat, hd]
  | cons c r' =>
    have hb : b ≠ 48 := by
      intro hb
      have h0 := hz hb
      subst h0
      rw [natDec_lt (by omega)] at he
      cases he
    simp only [List.all_cons, Bool.and_eq_true] at hall
    simp [validJsonNat, hd, hb, hall.2.1, hall.2.2]

theorem parseJsonInt_intDec (i : Int) : parseJsonInt (intDec i) = some i := by
  unfold intDec
  split
  · next h =>
    simp only [parseJsonInt, validJsonNat_natDec, ↓reduceIte, parseNat_natDec]
    congr 1; simp only [Int.ofNat_eq_natCast]; omega
  · next h =>
    obtain ⟨b, r, he, hd, _⟩ := natDec_head i.natAbs
    have hb : b ≠ 0x2D := by simp [isDigit] at hd; omega
    have : parseJsonInt (natDec i.natAbs) = (if validJsonNat (natDec i.natAbs) then (match parseNat (natDec i.natAbs) with | some n => some (Int.ofNat n) | none => none) else none) := by
      rw [he]; unfold parseJsonInt; split
      · next heq => simp at heq; exact absurd heq.1 hb
      · rfl
    rw [this, validJsonNat_natDec, parseNat_natDec]; simp only [↓reduceIte]; congr 1; simp only [Int.ofNat_eq_natCast]; omega
end GqlgenVerif.Go
