import GqlgenVerif.Model.Http
/-! Helper lemmas for C09: an exhaustive description of what `serve` answers (`served`), the gate, and
    gqlparser's `ForName`. No property statements here. -/
namespace GqlgenVerif.Http
open GqlgenVerif.Gen.HttpStatus Spec

theorem find_name {ops : List Op} {n : String} {op : Op}
    (h : ops.find? (fun it => it.name = n) = some op) : op ∈ ops ∧ op.name = n := by
  have h1 := List.mem_of_find?_eq_some h
  have h2 := List.find?_some h
  exact ⟨h1, by simpa using h2⟩

/-- ForName answers an operation the request names -/
theorem forName_names {ops : List Op} {n : String} {op : Op} (h : forName ops n = some op) :
    Names ops n op := by
  unfold forName at h
  split at h
  · rename_i o
    by_cases hn : n = ""
    · simp [hn] at h; subst h; exact ⟨by simp, Or.inr ⟨hn, rfl⟩⟩
    · simp only [hn, if_false] at h
      have := find_name h
      exact ⟨this.1, Or.inl this.2⟩
  · have := find_name h
    exact ⟨this.1, Or.inl this.2⟩

/-- ForName finds an operation whenever the request names one -/
theorem forName_complete {ops : List Op} {n : String} {op : Op} (h : Names ops n op) :
    (forName ops n).isSome = true := by
  obtain ⟨m, h⟩ := h
  have hfind : ∀ (l : List Op), op ∈ l → op.name = n → (l.find? (fun it => it.name = n)).isSome = true := by
    intro l ml hn
    rw [List.find?_isSome]
    exact ⟨op, ml, by simpa using hn⟩
  rcases h with h | ⟨hn, hl⟩
  · unfold forName
    split
    · split
      · rfl
      · exact hfind _ m h
    · exact hfind _ m h
  · subst hl; simp [forName, hn]

/-- with operation names unique (what validation guarantees) the named operation is unique -/
theorem names_unique {ops : List Op} {n : String} {a b : Op} (hu : (ops.map (·.name)).Nodup)
    (ha : Names ops n a) (hb : Names ops n b) : a = b := by
  obtain ⟨ma, ha⟩ := ha
  obtain ⟨mb, hb⟩ := hb
  rcases ha with ha | ⟨_, ha⟩
  · rcases hb with hb | ⟨_, hb⟩
    · have hab : a.name = b.name := by rw [ha, hb]
      clear ha hb
      induction ops with
      | nil => cases ma
      | cons x xs ih =>
        simp only [List.map_cons, List.nodup_cons, List.mem_map, not_exists, not_and] at hu
        rcases List.mem_cons.mp ma with rfl | ma'
        · rcases List.mem_cons.mp mb with rfl | mb'
          · rfl
          · exact absurd hab.symm (hu.1 b mb')
        · rcases List.mem_cons.mp mb with rfl | mb'
          · exact absurd hab (hu.1 a ma')
          · exact ih hu.2 ma' mb'
    · rw [hb] at ma; simpa using ma
  · rw [ha] at mb; exact (by simpa using mb : b = a).symm

/-- the regenerated stamps: every refusal exit of the executor returns an error carrying its protocol code -/
theorem stamps :
    stampParseGql = some ParseFailed ∧ stampParsePlain = some ParseFailed ∧ stampNoOperation = some ValidationFailed ∧
    stampInvalid = some ValidationFailed ∧ stampOpNotFound = some ValidationFailed ∧
    stampVariables = some ValidationFailed := by decide

/-- what the gate lets through -/
theorem gate_ok {r : Req} {op : Op} (h : gate r = .ok op) :
    r.paramErr = none ∧ ∃ l, r.doc = .ops l ∧ forName l r.opName = some op ∧ r.varsOk = true ∧ r.ctxErr = none := by
  unfold gate at h
  split at h
  · cases h
  · rename_i hp
    refine ⟨hp, ?_⟩
    split at h
    · cases h
    · cases h
    · cases h
    · rename_i l _ hl
      split at h
      · cases h
      · rename_i op' hf
        by_cases hv : r.varsOk = true
        · simp only [hv, if_true] at h
          split at h
          · cases h
          · rename_i hc; cases h; exact ⟨_, hl, hf, hv, hc⟩
        · simp [hv] at h

/-- what the gate stops: the error codes are the ones of the stage that stopped the request -/
theorem gate_err {r : Req} {codes : List (Option String)} (h : gate r = .err codes) :
    (∃ c, (r.paramErr = some c ∨ (r.paramErr = none ∧ docFails r = false ∧ r.ctxErr = some c)) ∧ codes = [c]) ∨
    (r.paramErr = none ∧ docFails r = true ∧ (codes = [some ParseFailed] ∨ codes = [some ValidationFailed])) := by
  obtain ⟨s1, s2, s3, s4, s5, s6⟩ := stamps
  unfold gate at h
  split at h
  · rename_i c hp; left; exact ⟨c, Or.inl hp, by cases h; rfl⟩
  · rename_i hp
    split at h
    · rename_i hd; cases h; right
      exact ⟨hp, by simp [docFails, hd], Or.inl (by cases r.parsePlain <;> simp [s1, s2])⟩
    · rename_i hd; cases h; right; exact ⟨hp, by simp [docFails, hd], Or.inr (by rw [s4])⟩
    · rename_i hd; cases h; right; exact ⟨hp, by simp [docFails, hd, forName], Or.inr (by rw [s3])⟩
    · rename_i l _ hd
      split at h
      · rename_i hf; cases h; right; exact ⟨hp, by simp [docFails, hd, hf], Or.inr (by rw [s5])⟩
      · rename_i op hf
        by_cases hv : r.varsOk = true
        · simp only [hv, if_true] at h
          split at h
          · rename_i c hc; cases h; left
            exact ⟨c, Or.inr ⟨hp, by simp [docFails, hd, hf, hv], hc⟩, rfl⟩
          · cases h
        · simp only [hv] at h; cases h; right
          exact ⟨hp, by simp [docFails, hd, hv], Or.inr (by rw [s6])⟩

/-- a document that fails is stopped by the gate (when no parameter mutator stopped the request first) -/
theorem gate_of_docFails {r : Req} (hp : r.paramErr = none) (hf : docFails r = true) :
    gate r = .err [some ParseFailed] ∨ gate r = .err [some ValidationFailed] := by
  cases hg : gate r with
  | err codes =>
    rcases gate_err hg with ⟨c, hc | ⟨_, hc, _⟩, _⟩ | ⟨_, _, h | h⟩
    · rw [hp] at hc; cases hc
    · rw [hf] at hc; cases hc
    · left; rw [h]
    · right; rw [h]
  | ok op =>
    exfalso
    obtain ⟨_, l, hl, hfn, hv, _⟩ := gate_ok hg
    simp [docFails, hl, hfn, hv] at hf

/-- Exhaustive description of the answers of `serve`. -/
inductive Served (srv : List Transport) (r : Req) : Resp → Prop
  | noTransport : getTransport srv r = none →
      Served srv r { status := 400, ctype := some (determineCT none r.accept), body := .errors, executed := none }
  | options (t : Transport) (st : Nat) : getTransport srv r = some t → t.kind = .options → (st = 200 ∨ st = 405) →
      Served srv r { status := st, ctype := none, body := .empty, executed := none }
  | decodeFail (t : Transport) (st : Nat) : getTransport srv r = some t → t.kind ≠ .options →
      r.dec.bind (decodeStatus t.kind) = some st →
      Served srv r { status := st, ctype := some (determineCT t.hdrs.ct r.accept), body := .errors, executed := none }
  | gateErr (t : Transport) (codes : List (Option String)) : getTransport srv r = some t → t.kind ≠ .options →
      r.dec.bind (decodeStatus t.kind) = none → gate r = .err codes →
      Served srv r { status := gateStatus (determineCT t.hdrs.ct r.accept) codes,
                     ctype := some (determineCT t.hdrs.ct r.accept), body := .errors, executed := none }
  | refused (t : Transport) (op : Op) : getTransport srv r = some t → t.kind = .get →
      r.dec.bind (decodeStatus t.kind) = none → gate r = .ok op → getRefuses op.kind = true →
      Served srv r { status := getRefusedStatus, ctype := some (determineCT t.hdrs.ct r.accept), body := .errors,
                     executed := none }
  | ran (t : Transport) (op : Op) (b : Body) : getTransport srv r = some t → t.kind ≠ .options →
      r.dec.bind (decodeStatus t.kind) = none → gate r = .ok op → (t.kind = .get → getRefuses op.kind = false) →
      (b = .errors ∨ b = .data) →
      Served srv r { status := 200, ctype := some (determineCT t.hdrs.ct r.accept), body := b, executed := some op }

theorem served (srv : List Transport) (r : Req) : Served srv r (serve srv r) := by
  unfold serve
  cases hg : getTransport srv r with
  | none => exact .noTransport hg
  | some t =>
    by_cases ho : t.kind = .options
    · simp only [ho, if_true]
      unfold doOptions
      split
      · exact .options t 200 hg ho (Or.inl rfl)
      · exact .options t 405 hg ho (Or.inr rfl)
    · simp only [ho, if_false]
      unfold doDocument
      cases hd : r.dec.bind (decodeStatus t.kind) with
      | some st => exact .decodeFail t st hg ho hd
      | none =>
        cases hgate : gate r with
        | err codes => exact .gateErr t codes hg ho hd hgate
        | ok op =>
          by_cases hk : t.kind = .get
          · cases hr : getRefuses op.kind with
            | true => simpa [hk, hr] using Served.refused t op hg hk hd hgate hr
            | false =>
              simp only [hk, hr, decide_true, Bool.and_false, Bool.false_eq_true, if_false]
              exact .ran t op _ hg ho hd hgate (fun _ => hr) (by cases r.execErr <;> simp)
          · simp only [hk, decide_false, Bool.false_and, Bool.false_eq_true, if_false]
            exact .ran t op _ hg ho hd hgate (fun h => absurd h hk) (by cases r.execErr <;> simp)

theorem supports_of_getTransport {srv : List Transport} {r : Req} {t : Transport}
    (h : getTransport srv r = some t) : t ∈ srv ∧ supports t.kind r = true := by
  exact ⟨List.mem_of_find?_eq_some h, by simpa using List.find?_some h⟩

/-- the `Supports` predicates of the transports are mutually exclusive -/
theorem supports_exclusive {k1 k2 : TKind} {r : Req} (h1 : supports k1 r = true) (h2 : supports k2 r = true) :
    k1 = k2 := by
  cases k1 <;> cases k2 <;> first | rfl | (simp [supports] at h1 h2; try (obtain ⟨⟨_, a⟩, b⟩ := h1; try simp_all))
  all_goals simp_all

end GqlgenVerif.Http
