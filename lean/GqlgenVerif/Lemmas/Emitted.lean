import GqlgenVerif.Model.Naming
import GqlgenVerif.Lemmas.Naming
/-! Lemmas about `Naming.emitted`: what each scope contains (C17, `emitted_nodup_per_scope`). -/
namespace GqlgenVerif.Naming

/-! ## scope filtering -/

@[simp] theorem inScope_nil (s : Scope) : inScope s [] = [] := rfl

theorem inScope_append (s : Scope) (a b : List (Scope × Name)) : inScope s (a ++ b) = inScope s a ++ inScope s b := by
  simp [inScope, List.filter_append]

theorem inScope_cons_same (s : Scope) (n : Name) (l : List (Scope × Name)) :
    inScope s ((s, n) :: l) = n :: inScope s l := by
  simp [inScope, List.filter_cons]

theorem inScope_cons_ne (s s' : Scope) (n : Name) (l : List (Scope × Name)) (h : s' ≠ s) :
    inScope s ((s', n) :: l) = inScope s l := by
  simp [inScope, List.filter_cons, h]

theorem inScope_flatMap {α} (s : Scope) (l : List α) (f : α → List (Scope × Name)) :
    inScope s (l.flatMap f) = l.flatMap (fun a => inScope s (f a)) := by
  induction l with
  | nil => rfl
  | cons a t ih => simp only [List.flatMap_cons, inScope_append, ih]

theorem inScope_map_same {α} (s : Scope) (l : List α) (g : α → Name) :
    inScope s (l.map (fun a => (s, g a))) = l.map g := by
  induction l with
  | nil => rfl
  | cons a t ih => simp only [List.map_cons, inScope_cons_same, ih]

theorem inScope_map_ne {α} (s : Scope) (l : List α) (sc : α → Scope) (g : α → Name) (h : ∀ a ∈ l, sc a ≠ s) :
    inScope s (l.map (fun a => (sc a, g a))) = [] := by
  induction l with
  | nil => rfl
  | cons a t ih =>
    simp only [List.map_cons]
    rw [inScope_cons_ne _ _ _ _ (h a (by simp)), ih (fun b hb => h b (by simp [hb]))]

theorem mem_inScope (s : Scope) (l : List (Scope × Name)) (n : Name) : n ∈ inScope s l ↔ (s, n) ∈ l := by
  simp only [inScope, List.mem_map, List.mem_filter, beq_iff_eq]
  constructor
  · rintro ⟨⟨s', n'⟩, ⟨hm, hs⟩, hn⟩
    simp only at hs hn
    subst hs hn
    exact hm
  · intro h
    exact ⟨(s, n), ⟨h, rfl⟩, rfl⟩

/-- the identifiers of one scope over a concatenation of per-declaration blocks are pairwise distinct when each
block is, and no two different blocks share an identifier of that scope -/
theorem nodup_inScope_flatMap {α} (s : Scope) (l : List α) (f : α → List (Scope × Name))
    (h1 : ∀ a ∈ l, (inScope s (f a)).Nodup)
    (h2 : l.Pairwise (fun a b => ∀ x ∈ inScope s (f a), ∀ y ∈ inScope s (f b), x ≠ y)) :
    (inScope s (l.flatMap f)).Nodup := by
  induction l with
  | nil => simp
  | cons a t ih =>
    simp only [List.flatMap_cons, inScope_append]
    rw [List.nodup_append]
    rw [List.pairwise_cons] at h2
    refine ⟨h1 a (by simp), ih (fun b hb => h1 b (by simp [hb])) h2.2, ?_⟩
    intro x hx y hy
    rw [inScope_flatMap, List.mem_flatMap] at hy
    obtain ⟨b, hb, hyb⟩ := hy
    exact h2.1 b hb x hx y hyb

/-! ## package scope of the model file -/

/-- what a package-level identifier of the model file stands for -/
inductive Tag where
  | name (key : Name)    -- a registry key: `Type` or `Enum:value`
  | all (enum : Name)    -- `All<Enum>`
deriving DecidableEq

def nameOfKey (r : Reg) (k : Name) : Name := (r.lookup k).getD []

theorem nameOf_eq (r : Reg) (parts : List Name) : nameOf r parts = nameOfKey r (modelKey parts) := rfl

def tagsOfEnum (t : TypeDecl) : List Tag :=
  Tag.name (modelKey [t.name]) :: t.values.map (fun v => Tag.name (modelKey [t.name, v])) ++ [Tag.all t.name]

/-- the package-level declarations of the model file in template order -/
def pkgTags (ifaces models enums : List TypeDecl) : List Tag :=
  ifaces.map (fun t => Tag.name (modelKey [t.name])) ++ models.map (fun t => Tag.name (modelKey [t.name]))
  ++ enums.flatMap tagsOfEnum

def render (r : Reg) : Tag → Name
  | .name k => nameOfKey r k
  | .all e => str "All" ++ nameOfKey r (modelKey [e])

theorem nodup_map_of_inj_on {α β} (f : α → β) (l : List α) (hn : l.Nodup)
    (hinj : ∀ a ∈ l, ∀ b ∈ l, f a = f b → a = b) : (l.map f).Nodup := by
  induction l with
  | nil => simp
  | cons a t ih =>
    rw [List.nodup_cons] at hn
    simp only [List.map_cons, List.nodup_cons, List.mem_map, not_exists, not_and]
    refine ⟨?_, ih hn.2 (fun x hx y hy => hinj x (by simp [hx]) y (by simp [hy]))⟩
    intro b hb heq
    have := hinj b (by simp [hb]) a (by simp) heq
    subst this
    exact hn.1 hb

theorem flatMap_eq_map_of {α β} (l : List α) (f : α → List β) (g : α → β) (h : ∀ a, f a = [g a]) :
    l.flatMap f = l.map g := by
  induction l with
  | nil => rfl
  | cons a t ih => simp only [List.flatMap_cons, List.map_cons, h a, ih, List.singleton_append]

theorem pkg_scope_eq (ts : List TypeDecl) :
    inScope Scope.pkg (emitted ts) =
      (pkgTags (ifacesOf ts) (modelsOf ts) (enumsOf ts)).map (render (registryOf ts)) := by
  have hres : inScope Scope.pkg (emittedResolvers ts) = [] := by
    unfold emittedResolvers
    rw [inScope_flatMap]
    apply List.flatMap_eq_nil_iff.mpr
    intro t _
    rw [inScope_flatMap]
    apply List.flatMap_eq_nil_iff.mpr
    intro f _
    rw [inScope_cons_ne _ _ _ _ (by simp)]
    exact inScope_map_ne _ _ (fun _ => Scope.args t.name (toGo f.name)) _ (by simp)
  unfold emitted
  rw [inScope_append, hres, List.append_nil]
  unfold emittedModels
  simp only [inScope_append]
  unfold pkgTags
  simp only [List.map_append, List.map_map]
  congr 1
  · congr 1
    · exact inScope_map_same _ _ _
    · rw [inScope_flatMap]
      apply flatMap_eq_map_of
      intro m
      rw [inScope_cons_same, inScope_map_ne _ _ (fun _ => Scope.struct _) _ (by simp)]
      rfl
  · rw [inScope_flatMap, List.map_flatMap]
    congr 1
    funext t
    simp only [tagsOfEnum, List.map_cons, List.map_append, List.map_map, List.map_nil]
    rw [inScope_append, inScope_cons_same, inScope_map_same, inScope_cons_same]
    rfl

/-- hypotheses under which the package scope is duplicate free -/
structure PkgHyp (ts : List TypeDecl) : Prop where
  /-- GraphQL: type names are unique, enum values are unique within their enum (and contain no ':') -/
  tags_nodup : (pkgTags (ifacesOf ts) (modelsOf ts) (enumsOf ts)).Nodup
  /-- every declaration got a name: `goModelName`'s search for a free name did not run out of fuel -/
  registered : ∀ k, Tag.name k ∈ pkgTags (ifacesOf ts) (modelsOf ts) (enumsOf ts) → (registryOf ts).lookup k ≠ none
  /-- gqlgen does not route `All<Enum>` through the registry: no declared name may be `All` + an enum's name -/
  all_free : ∀ k e, Tag.name k ∈ pkgTags (ifacesOf ts) (modelsOf ts) (enumsOf ts) →
    Tag.all e ∈ pkgTags (ifacesOf ts) (modelsOf ts) (enumsOf ts) →
    nameOfKey (registryOf ts) k ≠ str "All" ++ nameOfKey (registryOf ts) (modelKey [e])

theorem registryOf_inj (ts : List TypeDecl) : RegInj (registryOf ts) :=
  runCalls_inj toGo [] _ ⟨by simp, by simp⟩

theorem all_tag_registered (ts : List TypeDecl) (e : Name)
    (h : Tag.all e ∈ pkgTags (ifacesOf ts) (modelsOf ts) (enumsOf ts)) :
    Tag.name (modelKey [e]) ∈ pkgTags (ifacesOf ts) (modelsOf ts) (enumsOf ts) := by
  unfold pkgTags at h ⊢
  simp only [List.mem_append, List.mem_map, List.mem_flatMap, reduceCtorEq, and_false, exists_false, false_or] at h
  obtain ⟨t, ht, hm⟩ := h
  simp only [tagsOfEnum, List.mem_cons, List.mem_append, List.mem_map, reduceCtorEq, and_false, exists_false,
    List.mem_singleton, Tag.all.injEq, false_or, List.not_mem_nil, or_false] at hm
  subst hm
  simp only [List.mem_append, List.mem_flatMap]
  right
  exact ⟨t, ht, by simp [tagsOfEnum]⟩

theorem pkg_scope_nodup (ts : List TypeDecl) (H : PkgHyp ts) : (inScope Scope.pkg (emitted ts)).Nodup := by
  rw [pkg_scope_eq]
  apply nodup_map_of_inj_on _ _ H.tags_nodup
  intro a ha b hb hab
  have lk : ∀ k, Tag.name k ∈ pkgTags (ifacesOf ts) (modelsOf ts) (enumsOf ts) →
      (registryOf ts).lookup k = some (nameOfKey (registryOf ts) k) := by
    intro k hk
    have := H.registered k hk
    unfold nameOfKey
    cases hl : (registryOf ts).lookup k with
    | none => exact absurd hl this
    | some n => rfl
  cases a with
  | name k1 =>
    cases b with
    | name k2 =>
      simp only [render] at hab
      have := regInj_lookup_inj _ (registryOf_inj ts) k1 k2 _ (lk k1 ha) (hab ▸ lk k2 hb)
      rw [this]
    | all e => exact absurd hab (H.all_free k1 e ha hb)
  | all e1 =>
    cases b with
    | name k2 => exact absurd hab.symm (H.all_free k2 e1 hb ha)
    | all e2 =>
      simp only [render] at hab
      have h1 := List.append_cancel_left hab
      have r1 := lk _ (all_tag_registered ts e1 ha)
      have r2 := lk _ (all_tag_registered ts e2 hb)
      have := regInj_lookup_inj _ (registryOf_inj ts) _ _ _ r1 (h1 ▸ r2)
      simp only [modelKey, joinWith] at this
      rw [this]

end GqlgenVerif.Naming

namespace GqlgenVerif.Naming

/-! ## struct scopes of the model file -/

theorem mem_modelsOf (ts : List TypeDecl) (t : TypeDecl) (h : t ∈ modelsOf ts) : t ∈ ts := by
  unfold modelsOf sortBy Order.sortByKey at h
  have := (List.mergeSort_perm _ _).mem_iff.mp h
  exact (List.mem_filter.mp this).1

theorem model_tag_mem (ts : List TypeDecl) (t : TypeDecl) (h : t ∈ modelsOf ts) :
    Tag.name (modelKey [t.name]) ∈ pkgTags (ifacesOf ts) (modelsOf ts) (enumsOf ts) := by
  unfold pkgTags
  simp only [List.mem_append, List.mem_map]
  exact Or.inl (Or.inr ⟨t, h, rfl⟩)

/-- two models with the same generated struct name are the same declaration key -/
theorem model_name_inj (ts : List TypeDecl) (H : PkgHyp ts) (a b : TypeDecl) (ha : a ∈ modelsOf ts) (hb : b ∈ modelsOf ts)
    (h : nameOf (registryOf ts) [a.name] = nameOf (registryOf ts) [b.name]) : modelKey [a.name] = modelKey [b.name] := by
  have lk : ∀ t ∈ modelsOf ts, (registryOf ts).lookup (modelKey [t.name]) = some (nameOf (registryOf ts) [t.name]) := by
    intro t ht
    have := H.registered _ (model_tag_mem ts t ht)
    rw [nameOf_eq]; unfold nameOfKey
    cases hl : (registryOf ts).lookup (modelKey [t.name]) with
    | none => exact absurd hl this
    | some n => rfl
  exact regInj_lookup_inj _ (registryOf_inj ts) _ _ _ (lk a ha) (h ▸ lk b hb)

theorem struct_block (r : Reg) (g : Name) (t : TypeDecl) :
    ∀ x ∈ inScope (Scope.struct g) ((Scope.pkg, nameOf r [t.name]) ::
        t.fields.map (fun f => (Scope.struct (nameOf r [t.name]), toGo f.name))), nameOf r [t.name] = g := by
  intro x hx
  rw [mem_inScope] at hx
  simp only [List.mem_cons, Prod.mk.injEq, reduceCtorEq, false_and, List.mem_map, false_or] at hx
  obtain ⟨f, _, hf, _⟩ := hx
  injection hf

theorem struct_scope_nodup (ts : List TypeDecl) (H : PkgHyp ts)
    (hfields : ∀ t ∈ ts, (t.fields.map (fun f => toGo f.name)).Nodup) (g : Name) :
    (inScope (Scope.struct g) (emitted ts)).Nodup := by
  have hres : inScope (Scope.struct g) (emittedResolvers ts) = [] := by
    unfold emittedResolvers
    rw [inScope_flatMap]
    apply List.flatMap_eq_nil_iff.mpr
    intro t _
    rw [inScope_flatMap]
    apply List.flatMap_eq_nil_iff.mpr
    intro f _
    rw [inScope_cons_ne _ _ _ _ (by simp)]
    exact inScope_map_ne _ _ (fun _ => Scope.args t.name (toGo f.name)) _ (by simp)
  have hif : inScope (Scope.struct g) ((ifacesOf ts).map (fun t => (Scope.pkg, nameOf (registryOf ts) [t.name]))) = [] :=
    inScope_map_ne _ _ (fun _ => Scope.pkg) _ (by simp)
  have hen : inScope (Scope.struct g) ((enumsOf ts).flatMap (fun t => (Scope.pkg, nameOf (registryOf ts) [t.name]) ::
        t.values.map (fun v => (Scope.pkg, nameOf (registryOf ts) [t.name, v])) ++
        [(Scope.pkg, str "All" ++ nameOf (registryOf ts) [t.name])])) = [] := by
    rw [inScope_flatMap]
    apply List.flatMap_eq_nil_iff.mpr
    intro t _
    rw [inScope_append, inScope_cons_ne _ _ _ _ (by simp), inScope_map_ne _ _ (fun _ => Scope.pkg) _ (by simp),
      inScope_cons_ne _ _ _ _ (by simp)]
    rfl
  unfold emitted
  rw [inScope_append, hres, List.append_nil]
  unfold emittedModels
  simp only [inScope_append]
  rw [hif, hen, List.nil_append, List.append_nil]
  apply nodup_inScope_flatMap
  · intro t ht
    rw [inScope_cons_ne _ _ _ _ (by simp)]
    by_cases hg : nameOf (registryOf ts) [t.name] = g
    · rw [hg, inScope_map_same]
      exact hfields t (mem_modelsOf ts t ht)
    · rw [inScope_map_ne _ _ (fun _ => Scope.struct _) _ (by intro _ _ h; injection h with h; exact hg h)]
      simp
  · have hp : (modelsOf ts).Pairwise (fun a b => Tag.name (modelKey [a.name]) ≠ Tag.name (modelKey [b.name])) := by
      have h1 := H.tags_nodup
      unfold pkgTags at h1
      have h2 := (List.nodup_append.mp (List.nodup_append.mp h1).1).2.1
      exact List.pairwise_map.mp h2
    apply hp.imp_of_mem
    intro a b ha hb hab x hx y hy hxy
    have e1 := struct_block _ g a x hx
    have e2 := struct_block _ g b y hy
    apply hab
    rw [model_name_inj ts H a b ha hb (e1.trans e2.symm)]

end GqlgenVerif.Naming

namespace GqlgenVerif.Naming

/-! ## resolver interfaces: one declaration at a time -/

/-- what one object type contributes to `emittedResolvers` -/
def resolverBlock (t : TypeDecl) : List (Scope × Name) :=
  t.fields.flatMap fun f =>
    (Scope.resolver t.name, toGo f.name) :: f.args.map (fun a => (Scope.args t.name (toGo f.name), toGoPrivate a))

theorem emittedResolvers_eq (ts : List TypeDecl) :
    emittedResolvers ts = (ts.filter (fun t => t.kind == .model || t.kind == .root)).flatMap resolverBlock := rfl

theorem resolver_block_methods (t : TypeDecl) :
    inScope (Scope.resolver t.name) (resolverBlock t) = t.fields.map (fun f => toGo f.name) := by
  unfold resolverBlock
  rw [inScope_flatMap]
  apply flatMap_eq_map_of
  intro f
  rw [inScope_cons_same, inScope_map_ne _ _ (fun _ => Scope.args t.name (toGo f.name)) _ (by simp)]

theorem resolver_block_args (t : TypeDecl) (f : FieldDecl) (hf : f ∈ t.fields)
    (hinj : ∀ a ∈ t.fields, ∀ b ∈ t.fields, toGo a.name = toGo b.name → a = b)
    (hn : t.fields.Nodup) :
    inScope (Scope.args t.name (toGo f.name)) (resolverBlock t) = f.args.map toGoPrivate := by
  unfold resolverBlock
  rw [inScope_flatMap]
  have key : ∀ (l : List FieldDecl), l.Nodup → (∀ g ∈ l, g ≠ f → toGo g.name ≠ toGo f.name) →
      l.flatMap (fun g => inScope (Scope.args t.name (toGo f.name))
        ((Scope.resolver t.name, toGo g.name) :: g.args.map (fun a => (Scope.args t.name (toGo g.name), toGoPrivate a))))
      = if f ∈ l then f.args.map toGoPrivate else [] := by
    intro l
    induction l with
    | nil => intro _ _; rfl
    | cons g tl ih =>
      intro hnd hi
      rw [List.nodup_cons] at hnd
      simp only [List.flatMap_cons]
      rw [inScope_cons_ne _ _ _ _ (by simp), ih hnd.2 (fun a ha => hi a (by simp [ha]))]
      by_cases hgf : g = f
      · subst hgf
        rw [inScope_map_same, if_neg hnd.1]
        simp
      · have hne := hi g (by simp) hgf
        rw [inScope_map_ne _ _ (fun _ => Scope.args t.name (toGo g.name)) _
          (by intro _ _ h; injection h with _ h2; exact hne h2)]
        simp only [List.nil_append, List.mem_cons]
        by_cases hfl : f ∈ tl
        · simp [hfl]
        · have : ¬(f = g ∨ f ∈ tl) := by
            rintro (h | h)
            · exact hgf h.symm
            · exact hfl h
          rw [if_neg this, if_neg hfl]
  rw [key t.fields hn (fun g hg hne h => hne (hinj g hg f hf h)), if_pos hf]

end GqlgenVerif.Naming
