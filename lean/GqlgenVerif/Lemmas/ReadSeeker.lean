import GqlgenVerif.Model.ReadSeeker
/-! Lemmas about `Model/ReadSeeker`: the Spec never panics and keeps the position non-negative; an
implementation step that agrees with the Spec on non-negative positions gives the same traces. -/
namespace GqlgenVerif.ReadSeeker

/-- inside int64 nothing wraps -/
theorem wrap64_id (x : Int) (h1 : -9223372036854775808 ≤ x) (h2 : x ≤ 9223372036854775807) : wrap64 x = x := by
  unfold wrap64
  have h : (x + 9223372036854775808) % 18446744073709551616 = x + 9223372036854775808 :=
    Int.emod_eq_of_lt (by omega) (by omega)
  rw [h]
  omega

theorem spec_no_panic (k : Kind) (data : List Nat) (pos : Int) (o : Op) :
    (stepSpec k data pos o).1 ≠ .panic := by
  cases o with
  | read n =>
    simp only [stepSpec]
    split
    · simp
    · split <;> simp
  | seek w off =>
    simp only [stepSpec]
    split
    · simp
    · split <;> simp

theorem spec_pos (k : Kind) (data : List Nat) (pos : Int) (o : Op) (h : 0 ≤ pos) :
    0 ≤ (stepSpec k data pos o).2 := by
  cases o with
  | read n =>
    simp only [stepSpec]
    split
    · exact h
    · split
      · exact h
      · simp only; omega
  | seek w off =>
    simp only [stepSpec]
    split
    · exact h
    · split
      · exact h
      · simp only; omega

/-- `Seek(x, io.SeekStart)` with `0 <= x` is accepted, wherever `x` lies relative to the end -/
theorem spec_seek_start (k : Kind) (data : List Nat) (pos x : Int) (h0 : 0 ≤ x) (h1 : x ≤ 9223372036854775807) :
    stepSpec k data pos (.seek 0 x) = (.at x, x) := by
  have hw : wrap64 (0 + x) = x := by
    rw [Int.zero_add]; exact wrap64_id _ (by omega) h1
  have hn : ¬ (x < 0) := by omega
  simp only [stepSpec, if_true, hw, hn, if_false]

theorem run_cons_at (step : Int → Op → Res × Int) (p : Int) (o : Op) (os : List Op) (a p' : Int)
    (h : step p o = (.at a, p')) : run step p (o :: os) = .at a :: run step p' os := by
  simp only [run, h]

/-- two step functions that agree on every non-negative position, the second keeping positions non-negative
and never panicking, give the same traces -/
theorem run_eq_of_step_eq (f g : Int → Op → Res × Int)
    (hfg : ∀ p o, 0 ≤ p → f p o = g p o) (hpos : ∀ p o, 0 ≤ p → 0 ≤ (g p o).2) :
    ∀ (ops : List Op) (p : Int), 0 ≤ p → run f p ops = run g p ops := by
  intro ops
  induction ops with
  | nil => intro p _; simp [run]
  | cons o os ih =>
    intro p hp
    simp only [run, hfg p o hp]
    have h2 := hpos p o hp
    cases hg : g p o with
    | mk r p' =>
      rw [hg] at h2
      cases r <;> simp [ih p' h2]

theorem run_no_panic (g : Int → Op → Res × Int) (hnp : ∀ p o, (g p o).1 ≠ .panic) :
    ∀ (ops : List Op) (p : Int), Res.panic ∉ run g p ops := by
  intro ops
  induction ops with
  | nil => intro p; simp [run]
  | cons o os ih =>
    intro p
    simp only [run]
    have h := hnp p o
    cases hg : g p o with
    | mk r p' =>
      rw [hg] at h
      cases r <;> simp_all

theorem runMulti_eq_of_step_eq (f g : Nat → Int → Op → Res × Int)
    (hfg : ∀ k p o, 0 ≤ p → f k p o = g k p o) (hpos : ∀ k p o, 0 ≤ p → 0 ≤ (g k p o).2) :
    ∀ (ops : List (Nat × Op)) (st : Nat → Int), (∀ k, 0 ≤ st k) → runMulti f st ops = runMulti g st ops := by
  intro ops
  induction ops with
  | nil => intro st _; simp [runMulti]
  | cons ko os ih =>
    intro st hst
    obtain ⟨k, o⟩ := ko
    simp only [runMulti, hfg k (st k) o (hst k)]
    have h2 := hpos k (st k) o (hst k)
    cases hg : g k (st k) o with
    | mk r p' =>
      rw [hg] at h2
      have hst' : ∀ j, 0 ≤ upd st k p' j := by
        intro j; unfold upd; split
        · exact h2
        · exact hst j
      cases r <;> simp [ih _ hst']

/-- the trace of reader `k` inside an interleaved script is the trace of its own operations alone -/
theorem proj_runMulti (g : Nat → Int → Op → Res × Int) (hnp : ∀ k p o, (g k p o).1 ≠ .panic) (k : Nat) :
    ∀ (ops : List (Nat × Op)) (st : Nat → Int),
      proj k (runMulti g st ops) = run (g k) (st k) (proj k ops) := by
  intro ops
  induction ops with
  | nil => intro st; simp [runMulti, proj, run]
  | cons jo os ih =>
    intro st
    obtain ⟨j, o⟩ := jo
    have h := hnp j (st j) o
    by_cases hjk : j = k
    · subst hjk
      cases hg : g j (st j) o with
      | mk r p' =>
        rw [hg] at h
        have hp : proj j ((j, o) :: os) = o :: proj j os := by simp [proj]
        have hu : upd st j p' j = p' := by simp [upd]
        rw [hp]
        simp only [runMulti, run, hg]
        cases r with
        | panic => exact absurd rfl h
        | data bs e =>
          have := ih (upd st j p')
          rw [hu] at this
          simp only [proj, List.filterMap_cons, if_true] at this ⊢
          simp [this]
        | «at» a =>
          have := ih (upd st j p')
          rw [hu] at this
          simp only [proj, List.filterMap_cons, if_true] at this ⊢
          simp [this]
        | refused =>
          have := ih (upd st j p')
          rw [hu] at this
          simp only [proj, List.filterMap_cons, if_true] at this ⊢
          simp [this]
    · cases hg : g j (st j) o with
      | mk r p' =>
        rw [hg] at h
        have hp : proj k ((j, o) :: os) = proj k os := by simp [proj, hjk]
        have hu : upd st j p' k = st k := by
          have : k ≠ j := fun e => hjk e.symm
          simp [upd, this]
        rw [hp]
        simp only [runMulti, hg]
        cases r with
        | panic => exact absurd rfl h
        | data bs e =>
          have := ih (upd st j p')
          rw [hu] at this
          simp only [proj, List.filterMap_cons] at this ⊢
          simp [hjk, this]
        | «at» a =>
          have := ih (upd st j p')
          rw [hu] at this
          simp only [proj, List.filterMap_cons] at this ⊢
          simp [hjk, this]
        | refused =>
          have := ih (upd st j p')
          rw [hu] at this
          simp only [proj, List.filterMap_cons] at this ⊢
          simp [hjk, this]

end GqlgenVerif.ReadSeeker
