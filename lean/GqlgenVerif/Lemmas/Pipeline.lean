import GqlgenVerif.Model.Pipeline
import GqlgenVerif.Model.PipelineSpec
import GqlgenVerif.Model.SuggRace
import GqlgenVerif.Lemmas.Apq
/-! Helper lemmas for C03 (fold = nesting, what each log can contain, rule-list facts, cache invariant). -/
namespace GqlgenVerif.Pipeline

section fold
variable {H : Type}

theorem nest_append (sel : Ext → Option (H → H)) (a b : List Ext) (next : H) :
    nest sel (a ++ b) next = nest sel a (nest sel b next) := by
  induction a with
  | nil => rfl
  | cons x xs ih =>
    simp only [List.cons_append, nest]
    cases sel x <;> simp [ih]

theorem wrapWith_some (sel : Ext → Option (H → H)) (x : Ext) (e : H → H) (next : H) :
    wrapWith sel (some x) e next = nest sel [x] (e next) := by
  simp only [wrapWith, Option.bind_some, nest]
  cases sel x <;> rfl

theorem loop_eq (sel : Ext → Option (H → H)) (exts : List Ext) :
    ∀ i, i ≤ exts.length → ∀ (e : H → H) (next : H),
      loop sel exts i e next = nest sel (exts.take i) (e next) := by
  intro i
  induction i with
  | zero => intro _ e next; simp [loop, nest]
  | succ i ih =>
    intro hi e next
    have hlt : i < exts.length := by omega
    rw [loop, ih (by omega)]
    have hx : exts[i]? = some exts[i] := List.getElem?_eq_getElem hlt
    rw [hx, wrapWith_some]
    rw [← nest_append]
    congr 1
    rw [List.take_succ, hx]; rfl

theorem chain_eq_nest (sel : Ext → Option (H → H)) (exts : List Ext) : chain sel exts = nest sel exts := by
  funext next
  simp only [chain]
  rw [loop_eq sel exts exts.length (Nat.le_refl _) id next, List.take_length]
  rfl

end fold
/-! ## what the logs can contain -/

/-- mutator and cache bookkeeping events: everything `CreateOperationContext` can log -/
def Ev.isGateEv : Ev → Bool
  | .pm _ | .cm _ | .cget _ _ | .cadd _ => true
  | _ => false

theorem Ev.isGateEv_not_exec {e : Ev} (h : e.isGateEv = true) : e.isExecution = false := by
  cases e <;> simp_all [Ev.isGateEv, Ev.isExecution]

theorem mem_nest_log {k : Kind} {p : Path} {exts : List Ext} {inner : List Ev} {e : Ev}
    (h : e ∈ nest (logSel k p) exts inner) :
    e ∈ inner ∨ ∃ x ∈ exts, x.has k = true ∧ (e = .enter k x.id p ∨ e = .exit k x.id p) := by
  induction exts with
  | nil => exact Or.inl h
  | cons x xs ih =>
    simp only [nest, logSel] at h
    by_cases hx : x.has k = true
    · simp only [hx, if_true, List.mem_cons, List.mem_append, List.mem_nil_iff, or_false] at h
      rcases h with (h | h) | h
      · exact Or.inr ⟨x, by simp, hx, Or.inl h⟩
      · rcases ih h with h | ⟨y, hy, hh⟩
        · exact Or.inl h
        · exact Or.inr ⟨y, by simp [hy], hh⟩
      · exact Or.inr ⟨x, by simp, hx, Or.inr h⟩
    · simp only [hx] at h
      rcases ih h with h | ⟨y, hy, hh⟩
      · exact Or.inl h
      · exact Or.inr ⟨y, by simp [hy], hh⟩

theorem respLog_nil_no_exec (exts : List Ext) : ∀ e ∈ respLog exts [], e.isExecution = false := by
  intro e he
  rw [respLog, chain_eq_nest] at he
  rcases mem_nest_log he with h | ⟨x, _, _, h | h⟩
  · simp at h
  · subst h; rfl
  · subst h; rfl

theorem pmPhase_log (r : Req) : ∀ (xs : List Ext) (q : Nat), ∀ e ∈ (pmPhase r xs q).2, e.isGateEv = true := by
  intro xs
  induction xs with
  | nil => intro q e he; simp [pmPhase] at he
  | cons x xs ih =>
    intro q e he
    simp only [pmPhase] at he
    split at he
    · simp at he; subst he; rfl
    · simp only [List.mem_cons] at he
      rcases he with he | he
      · subst he; rfl
      · exact ih _ e he

theorem cmPhase_log (r : Req) : ∀ (xs : List Ext), ∀ e ∈ (cmPhase r xs).2, e.isGateEv = true := by
  intro xs
  induction xs with
  | nil => intro e he; simp [cmPhase] at he
  | cons x xs ih =>
    intro e he
    simp only [cmPhase] at he
    split at he
    · simp at he; subst he; rfl
    · simp only [List.mem_cons] at he
      rcases he with he | he
      · subst he; rfl
      · exact ih e he

variable {σ : Type}

theorem validateAndStore_log (C : Apq.CacheImpl σ Doc Nat) (rules : Rules) (c' : σ) (q : Nat) (d : Doc) :
    ∀ e ∈ (validateAndStore C rules c' q d).2.2, e.isGateEv = true := by
  intro e he
  unfold validateAndStore at he
  split at he
  · simp at he; subst he; rfl
  · simp at he; rcases he with he | he <;> subst he <;> rfl

theorem parseQuery_log (W : World) (C : Apq.CacheImpl σ Doc Nat) (dis : Bool) (s : St σ) (q : Nat) :
    ∀ e ∈ (parseQuery W C dis s q).2.2, e.isGateEv = true := by
  intro e he
  unfold parseQuery at he
  split at he
  · simp at he; subst he; rfl
  · split at he
    · simp at he; subst he; rfl
    · split at he
      · simp at he; subst he; rfl
      · exact validateAndStore_log C _ _ _ _ e he

theorem finishCreate_log (cfg : Cfg) (r : Req) (d : Doc) :
    ∀ e ∈ (finishCreate cfg r d).2, e.isGateEv = true := by
  intro e he
  unfold finishCreate at he
  have hcm := cmPhase_log r (cmList cfg.exts)
  split at he
  · simp at he
  · split at he
    · simp at he
    · split at he
      · rename_i j l heq; rw [heq] at hcm; exact hcm e he
      · rename_i l heq; rw [heq] at hcm; exact hcm e he

theorem create_log (W : World) (C : Apq.CacheImpl σ Doc Nat) (cfg : Cfg) (s : St σ) (r : Req) :
    ∀ e ∈ (create W C cfg s r).2.2, e.isGateEv = true := by
  intro e he
  unfold create at he
  have hpm := pmPhase_log r (pmList cfg.exts) r.q
  split at he
  · rename_i i q l heq
    rw [heq] at hpm; exact hpm e he
  · rename_i q l heq
    rw [heq] at hpm
    have hpq := parseQuery_log W C cfg.disableSuggestion s q
    split at he
    · rename_i g n sg s' l' heq2
      rw [heq2] at hpq
      simp only [List.mem_append] at he
      rcases he with he | he
      · exact hpm e he
      · exact hpq e he
    · rename_i d s' l' heq2
      rw [heq2] at hpq
      simp only [List.mem_append] at he
      rcases he with (he | he) | he
      · exact hpm e he
      · exact hpq e he
      · exact finishCreate_log cfg r d e he

/-! ## rejected requests -/

theorem validateAndStore_fail_pos (C : Apq.CacheImpl σ Doc Nat) (rules : Rules) (c' : σ) (q : Nat) (d : Doc)
    {g : Gate} {n : Nat} {sg : Bool} (h : (validateAndStore C rules c' q d).1 = .fail g n sg) : 0 < n := by
  unfold validateAndStore at h
  split at h
  · simp at h; omega
  · simp at h

theorem parseQuery_fail_pos (W : World) (C : Apq.CacheImpl σ Doc Nat) (dis : Bool) (s : St σ) (q : Nat)
    {g : Gate} {n : Nat} {sg : Bool} (h : (parseQuery W C dis s q).1 = .fail g n sg) : 0 < n := by
  unfold parseQuery at h
  split at h
  · simp at h
  · split at h
    · simp at h; omega
    · split at h
      · simp at h; omega
      · exact validateAndStore_fail_pos C _ _ _ _ h

theorem finishCreate_rejected_pos (cfg : Cfg) (r : Req) (d : Doc)
    {g : Gate} {n : Nat} {sg : Bool} (h : (finishCreate cfg r d).1 = .rejected g n sg) : 0 < n := by
  unfold finishCreate at h
  split at h
  · simp at h; omega
  · split at h
    · simp at h; omega
    · split at h
      · simp at h; omega
      · simp at h

theorem create_rejected_pos (W : World) (C : Apq.CacheImpl σ Doc Nat) (cfg : Cfg) (s : St σ) (r : Req)
    {g : Gate} {n : Nat} {sg : Bool} (h : (create W C cfg s r).1 = .rejected g n sg) : 0 < n := by
  unfold create at h
  split at h
  · simp at h; omega
  · split at h
    · rename_i heq
      simp at h
      have := parseQuery_fail_pos W C cfg.disableSuggestion s _ (g := g) (n := n) (sg := sg)
        (by rw [heq]; simp [h])
      exact this
    · exact finishCreate_rejected_pos cfg r _ h

theorem run_rejected (W : World) (C : Apq.CacheImpl σ Doc Nat) (cfg : Cfg) (s : St σ) (r : Req)
    (h : (run W C cfg s r).1.gate ≠ none) :
    (∀ e ∈ (run W C cfg s r).1.log, e.isExecution = false) ∧
    (∀ x ∈ (run W C cfg s r).1.resps, Spec.errorsOnly x = true) ∧
    (run W C cfg s r).1.resps ≠ [] := by
  have hlog := create_log W C cfg s r
  have hpos := @create_rejected_pos σ W C cfg s r
  unfold run at h ⊢
  split
  · rename_i g n sg s' l heq
    rw [heq] at hlog
    have hn : 0 < n := hpos (g := g) (n := n) (sg := sg) (by rw [heq])
    refine ⟨?_, ?_, by simp⟩
    · intro e he
      simp only [List.mem_append] at he
      rcases he with he | he
      · exact Ev.isGateEv_not_exec (hlog e he)
      · exact respLog_nil_no_exec cfg.exts e he
    · intro x hx
      simp at hx; subst hx
      simp [Spec.errorsOnly, hn]
  · rename_i op s' l heq
    rw [heq] at h
    simp only at h
    split at h <;> simp at h

/-! ## the rule list -/

/-- at least one field-existence rule and the remaining rules are in the list -/
def Complete (l : Rules) : Prop := 0 < l.count .foct + l.count .ws ∧ 0 < l.count .other

theorem count_removeRule (a name : Rule) (l : Rules) :
    (removeRule name l).count a = if a = name then 0 else l.count a := by
  induction l with
  | nil => simp [removeRule]
  | cons r rs ih =>
    simp only [removeRule]
    by_cases hr : r = name
    · subst hr
      simp only [if_true, ih]
      by_cases ha : a = r
      · simp [ha]
      · have : ¬ r = a := fun e => ha e.symm
        simp [ha, List.count_cons, this]
    · simp only [hr, if_false, List.count_cons, ih]
      by_cases ha : a = name
      · subst ha; simp [hr]
      · simp [ha]

theorem replaceScan_snd (name : Rule) (l : Rules) : (replaceScan name l).2 = l := by
  induction l with
  | nil => rfl
  | cons r rs ih =>
    simp only [replaceScan]
    by_cases hr : r = name
    · simp [hr, ih]
    · simp [hr, ih]

theorem replaceScan_fst (name : Rule) (l : Rules) : (replaceScan name l).1 = true ↔ name ∈ l := by
  induction l with
  | nil => simp [replaceScan]
  | cons r rs ih =>
    simp only [replaceScan]
    by_cases hr : r = name
    · simp [hr]
    · have : ¬ name = r := fun e => hr e.symm
      simp [hr, ih, this]

theorem replaceRule_eq (name : Rule) (l : Rules) :
    replaceRule name l = if name ∈ l then l else l ++ [name] := by
  unfold replaceRule
  by_cases h : name ∈ l
  · simp [h, (replaceScan_fst name l).2 h, replaceScan_snd]
  · have : ¬ (replaceScan name l).1 = true := fun e => h ((replaceScan_fst name l).1 e)
    simp [h, this]

theorem count_swapRules_ws (l : Rules) : 0 < (swapRules l).count .ws := by
  unfold swapRules
  rw [replaceRule_eq]
  split
  · rename_i h; exact List.count_pos_iff.2 h
  · simp [List.count_append]

theorem count_swapRules_other (l : Rules) : (swapRules l).count .other = l.count .other := by
  unfold swapRules
  rw [replaceRule_eq]
  split <;> simp [List.count_append, count_removeRule]

theorem count_swapRules_foct (l : Rules) : (swapRules l).count .foct = 0 := by
  unfold swapRules
  rw [replaceRule_eq]
  split <;> simp [List.count_append, count_removeRule]

theorem Complete.swap {l : Rules} (h : Complete l) : Complete (swapRules l) :=
  ⟨by have := count_swapRules_ws l; omega, by rw [count_swapRules_other]; exact h.2⟩

theorem Complete.init : Complete initRules := by
  constructor <;> decide

theorem validate_eq_zero_iff {l : Rules} (h : Complete l) (d : Doc) :
    validate l d = 0 ↔ d.valid = true := by
  obtain ⟨h1, h2⟩ := h
  unfold validate Doc.valid
  simp only [Bool.and_eq_true, beq_iff_eq]
  constructor
  · intro hz
    have ha := Nat.eq_zero_of_add_eq_zero_right hz
    have hb := Nat.eq_zero_of_add_eq_zero_left hz
    rcases Nat.mul_eq_zero.1 ha with h | h
    · omega
    · rcases Nat.mul_eq_zero.1 hb with h' | h'
      · omega
      · exact ⟨h, h'⟩
  · rintro ⟨ha, hb⟩
    simp [ha, hb]

/-! ## the query cache holds only validated documents -/

/-- every binding of the cache maps a text to the document that text parses to, and that document
has an operation and is valid under the complete rule set -/
def Inv (W : World) (view : σ → Nat → Option Doc) (c : σ) : Prop :=
  ∀ k d, view c k = some d → W.parse k = some d ∧ d.valid = true ∧ d.ops.isEmpty = false

/-- what the property says `parseQuery` may hand on: the parse of the text, if it has an operation
and is valid -/
def Spec.parsed (W : World) (q : Nat) : Option Doc :=
  match W.parse q with
  | none => none
  | some d => if d.ops.isEmpty || !d.valid then none else some d

def Parsed.doc? : Parsed → Option Doc
  | .doc d => some d
  | .fail _ _ _ => none

open Apq (Lawful) in
theorem validateAndStore_spec (W : World) {C : Apq.CacheImpl σ Doc Nat} {view : σ → Nat → Option Doc}
    (law : Lawful C view) (rules : Rules) (c' : σ) (q : Nat) (d : Doc)
    (hinv : Inv W view c') (hcr : Complete rules) (hp : W.parse q = some d) (he : ¬ d.ops.isEmpty = true) :
    (validateAndStore C rules c' q d).1.doc? = Spec.parsed W q ∧
    Inv W view (validateAndStore C rules c' q d).2.1.cache ∧
    (validateAndStore C rules c' q d).2.1.rules = rules := by
  unfold validateAndStore
  split
  · rename_i hn
    have : d.valid = false := by
      cases hv : d.valid
      · rfl
      · exact absurd ((validate_eq_zero_iff hcr d).2 hv) hn
    exact ⟨by simp [Parsed.doc?, Spec.parsed, hp, this], hinv, rfl⟩
  · rename_i hn
    have hz : validate rules d = 0 := by simpa using hn
    have hval : d.valid = true := (validate_eq_zero_iff hcr d).1 hz
    refine ⟨by simp [Parsed.doc?, Spec.parsed, hp, hval, he], ?_, rfl⟩
    intro k d' hk
    rcases law.add_law _ _ _ _ _ hk with ⟨hkk, hdd⟩ | ⟨_, hold⟩
    · subst hkk; subst hdd
      exact ⟨hp, hval, by simpa using he⟩
    · exact hinv k d' hold

open Apq (Lawful) in
theorem parseQuery_spec (W : World) {C : Apq.CacheImpl σ Doc Nat} {view : σ → Nat → Option Doc}
    (law : Lawful C view) (dis : Bool) (s : St σ) (q : Nat)
    (hinv : Inv W view s.cache) (hc : Complete s.rules) :
    (parseQuery W C dis s q).1.doc? = Spec.parsed W q ∧
    Inv W view (parseQuery W C dis s q).2.1.cache ∧ Complete (parseQuery W C dis s q).2.1.rules := by
  have hmono : Inv W view (C.get s.cache q).2 := by
    intro k d hk
    exact hinv k d (law.get_mono _ _ _ _ hk)
  unfold parseQuery
  split
  · rename_i d c' heq
    have hv : view s.cache q = some d := law.get_val _ _ _ (by rw [heq])
    obtain ⟨hp, hval, hne⟩ := hinv q d hv
    refine ⟨?_, ?_, hc⟩
    · simp [Parsed.doc?, Spec.parsed, hp, hval, hne]
    · have : c' = (C.get s.cache q).2 := by rw [heq]
      simpa [this] using hmono
  · rename_i c' heq
    have hc' : c' = (C.get s.cache q).2 := by rw [heq]
    have hinv' : Inv W view c' := by simpa [hc'] using hmono
    split
    · rename_i hp
      exact ⟨by simp [Parsed.doc?, Spec.parsed, hp], hinv', hc⟩
    · rename_i d hp
      split
      · rename_i he
        exact ⟨by simp [Parsed.doc?, Spec.parsed, hp, he], hinv', hc⟩
      · rename_i he
        have hcr : Complete (if dis = true then swapRules s.rules else s.rules) := by
          split
          · exact hc.swap
          · exact hc
        obtain ⟨h1, h2, h3⟩ := validateAndStore_spec W law _ c' q d hinv' hcr hp he
        exact ⟨h1, h2, by rw [h3]; exact hcr⟩

/-! ## `CreateOperationContext` accepts exactly what passes every gate -/

theorem pmList_cons (x : Ext) (xs : List Ext) :
    pmList (x :: xs) = if x.pm then x :: pmList xs else pmList xs := by
  unfold pmList; rw [List.filter_cons]

theorem cmList_cons (x : Ext) (xs : List Ext) :
    cmList (x :: xs) = if x.cm then x :: cmList xs else cmList xs := by
  unfold cmList; rw [List.filter_cons]

theorem pmPhase_spec (r : Req) : ∀ (exts : List Ext) (q : Nat),
    (exts.any (fun x => x.pm && decide (x.id ∈ r.pmReject)) = true →
      ∃ i q', (pmPhase r (pmList exts) q).1 = (some i, q')) ∧
    (exts.any (fun x => x.pm && decide (x.id ∈ r.pmReject)) = false →
      pmPhase r (pmList exts) q =
        ((none, Spec.finalQuery r exts q), (pmList exts).map (fun x => Ev.pm x.id))) := by
  intro exts
  induction exts with
  | nil => intro q; simp [pmList, pmPhase, Spec.finalQuery]
  | cons x xs ih =>
    intro q
    rw [pmList_cons]
    by_cases hp : x.pm = true
    · simp only [hp, if_true, List.any_cons, Bool.true_and, Spec.finalQuery]
      by_cases hr : x.id ∈ r.pmReject
      · simp [pmPhase, hr]
      · simp only [hr, decide_false, Bool.false_or, pmPhase, if_false]
        obtain ⟨h1, h2⟩ := ih ((lookupNat x.id r.pmRewrite).getD q)
        constructor
        · intro ha
          obtain ⟨i, q', h⟩ := h1 ha
          exact ⟨i, q', by simp [h]⟩
        · intro ha
          rw [h2 ha]; simp
    · have hp' : x.pm = false := by simpa using hp
      simp only [hp', List.any_cons, Bool.false_and, Bool.false_or, Spec.finalQuery]
      simpa using ih q

theorem cmPhase_spec (r : Req) : ∀ (exts : List Ext),
    (exts.any (fun x => x.cm && decide (x.id ∈ r.cmReject)) = true →
      ∃ j, (cmPhase r (cmList exts)).1 = some j) ∧
    (exts.any (fun x => x.cm && decide (x.id ∈ r.cmReject)) = false →
      cmPhase r (cmList exts) = (none, (cmList exts).map (fun x => Ev.cm x.id))) := by
  intro exts
  induction exts with
  | nil => simp [cmList, cmPhase]
  | cons x xs ih =>
    rw [cmList_cons]
    by_cases hp : x.cm = true
    · simp only [hp, if_true, List.any_cons, Bool.true_and]
      by_cases hr : x.id ∈ r.cmReject
      · simp [cmPhase, hr]
      · simp only [hr, decide_false, Bool.false_or, cmPhase, if_false]
        obtain ⟨h1, h2⟩ := ih
        constructor
        · intro ha
          obtain ⟨j, h⟩ := h1 ha
          exact ⟨j, by simp [h]⟩
        · intro ha
          rw [h2 ha]; simp
    · have hp' : x.cm = false := by simpa using hp
      simp only [hp', List.any_cons, Bool.false_and, Bool.false_or]
      simpa using ih

def Created.op? : Created → Option OpDef
  | .ok op => some op
  | .rejected _ _ _ => none

/-- selection, variables and context mutators as the Spec words them -/
def Spec.finish (exts : List Ext) (r : Req) (d : Doc) : Option OpDef :=
  match forName d.ops r.opName with
  | none => none
  | some (i, op) =>
    if (r.varsOk.getD i true) = false then none
    else if exts.any (fun x => x.cm && decide (x.id ∈ r.cmReject)) then none
    else some op

theorem finishCreate_spec (cfg : Cfg) (r : Req) (d : Doc) :
    (finishCreate cfg r d).1.op? = Spec.finish cfg.exts r d ∧
    ((finishCreate cfg r d).1.op?.isSome = true →
      (finishCreate cfg r d).2 = (cmList cfg.exts).map (fun x => Ev.cm x.id)) := by
  unfold finishCreate Spec.finish
  obtain ⟨h1, h2⟩ := cmPhase_spec r cfg.exts
  cases hf : forName d.ops r.opName with
  | none => simp [Created.op?]
  | some p =>
    obtain ⟨i, op⟩ := p
    by_cases hv : r.varsOk.getD i true = false
    · simp only [if_pos hv, Created.op?]
      simp
    · cases ha : cfg.exts.any (fun x => x.cm && decide (x.id ∈ r.cmReject))
      · simp only [hv, if_false, h2 ha, Created.op?, Bool.false_eq_true]
        simp
      · obtain ⟨j, hj⟩ := h1 ha
        have hcm : cmPhase r (cmList cfg.exts) = (some j, (cmPhase r (cmList cfg.exts)).2) :=
          Prod.ext hj rfl
        simp only [hv, if_false, if_true]
        rw [hcm]
        simp [Created.op?]

theorem Spec.accepts_eq (W : World) (exts : List Ext) (r : Req) :
    Spec.accepts W exts r =
      if exts.any (fun x => x.pm && decide (x.id ∈ r.pmReject)) then none
      else (Spec.parsed W (Spec.finalQuery r exts r.q)).bind (Spec.finish exts r) := by
  unfold Spec.accepts Spec.parsed Spec.finish
  cases hany : exts.any (fun x => x.pm && decide (x.id ∈ r.pmReject))
  · simp only [Bool.false_eq_true, if_false]
    cases hp : W.parse (Spec.finalQuery r exts r.q) with
    | none => simp
    | some d =>
      by_cases hb : (d.ops.isEmpty || !d.valid) = true
      · simp [hb]
      · simp only [hb, Bool.false_eq_true, if_false, Option.bind_some]
        rfl
  · simp

theorem validateAndStore_log_cache (C : Apq.CacheImpl σ Doc Nat) (rules : Rules) (c' : σ) (q : Nat) (d : Doc) :
    ∀ e ∈ (validateAndStore C rules c' q d).2.2, e.isCache = true := by
  intro e he
  unfold validateAndStore at he
  split at he
  · simp at he; subst he; rfl
  · simp at he; rcases he with he | he <;> subst he <;> rfl

theorem parseQuery_log_cache (W : World) (C : Apq.CacheImpl σ Doc Nat) (dis : Bool) (s : St σ) (q : Nat) :
    ∀ e ∈ (parseQuery W C dis s q).2.2, e.isCache = true := by
  intro e he
  unfold parseQuery at he
  split at he
  · simp at he; subst he; rfl
  · split at he
    · simp at he; subst he; rfl
    · split at he
      · simp at he; subst he; rfl
      · exact validateAndStore_log_cache C _ _ _ _ e he

theorem filter_notCache_of_cache {l : List Ev} (h : ∀ e ∈ l, e.isCache = true) :
    l.filter (fun e => !e.isCache) = [] := by
  rw [List.filter_eq_nil_iff]
  intro e he; simp [h e he]

theorem filter_notCache_of_none {l : List Ev} (h : ∀ e ∈ l, e.isCache = false) :
    l.filter (fun e => !e.isCache) = l := by
  rw [List.filter_eq_self]
  intro e he; simp [h e he]

open Apq (Lawful) in
/-- the gates of `CreateOperationContext` are sound and complete for `Spec.accepts`, they keep the
cache invariant, and an accepted request has logged every mutator exactly once in registration order -/
theorem create_spec (W : World) {C : Apq.CacheImpl σ Doc Nat} {view : σ → Nat → Option Doc}
    (law : Lawful C view) (cfg : Cfg) (s : St σ) (r : Req)
    (hinv : Inv W view s.cache) (hc : Complete s.rules) :
    (create W C cfg s r).1.op? = Spec.accepts W cfg.exts r ∧
    Inv W view (create W C cfg s r).2.1.cache ∧ Complete (create W C cfg s r).2.1.rules ∧
    ((create W C cfg s r).1.op?.isSome = true →
      (create W C cfg s r).2.2.filter (fun e => !e.isCache) =
        (pmList cfg.exts).map (fun x => Ev.pm x.id) ++ (cmList cfg.exts).map (fun x => Ev.cm x.id)) := by
  rw [Spec.accepts_eq]
  obtain ⟨hp1, hp2⟩ := pmPhase_spec r cfg.exts r.q
  unfold create
  cases ha : cfg.exts.any (fun x => x.pm && decide (x.id ∈ r.pmReject))
  · rw [hp2 ha]
    simp only [Bool.false_eq_true, if_false]
    obtain ⟨hq1, hq2, hq3⟩ := parseQuery_spec W law cfg.disableSuggestion s (Spec.finalQuery r cfg.exts r.q) hinv hc
    have hlc := parseQuery_log_cache W C cfg.disableSuggestion s (Spec.finalQuery r cfg.exts r.q)
    split
    · rename_i g n sg s' l' heq
      rw [heq] at hq1 hq2 hq3
      simp only [Parsed.doc?] at hq1
      refine ⟨?_, hq2, hq3, ?_⟩
      · simp [Created.op?, ← hq1]
      · simp [Created.op?]
    · rename_i d s' l' heq
      rw [heq] at hq1 hq2 hq3 hlc
      simp only [Parsed.doc?] at hq1
      obtain ⟨hf1, hf2⟩ := finishCreate_spec cfg r d
      refine ⟨?_, hq2, hq3, ?_⟩
      · simp [← hq1, hf1]
      · intro hs
        simp only [List.filter_append]
        rw [filter_notCache_of_cache hlc, hf2 hs]
        rw [filter_notCache_of_none (by intro e he; simp at he; obtain ⟨x, _, rfl⟩ := he; rfl)]
        rw [filter_notCache_of_none (by intro e he; simp at he; obtain ⟨x, _, rfl⟩ := he; rfl)]
        simp
  · obtain ⟨i, q', h⟩ := hp1 ha
    simp only [if_true]
    split
    · exact ⟨by simp [Created.op?], hinv, hc, by simp [Created.op?]⟩
    · rename_i heq; rw [heq] at h; simp at h

/-! ## the model's logs are the Spec's nested logs -/

theorem fieldLog_eq (exts : List Ext) (p : Path) : fieldLog exts p = Spec.fieldLog exts p := by
  simp [fieldLog, Spec.fieldLog, chain_eq_nest]

theorem childrenLog_eq (exts : List Ext) (a : Nat) : ∀ n b, childrenLog exts a n b = Spec.childrenLog exts a n b := by
  intro n
  induction n with
  | zero => intro b; rfl
  | succ n ih => intro b; simp [childrenLog, Spec.childrenLog, fieldLog_eq, ih]

theorem rootLog_eq (exts : List Ext) (a n : Nat) : rootLog exts a n = Spec.rootLog exts a n := by
  simp [rootLog, Spec.rootLog, chain_eq_nest, fieldLog_eq, childrenLog_eq]

theorem rootsLog_eq (exts : List Ext) : ∀ ns a, rootsLog exts a ns = Spec.rootsLog exts a ns := by
  intro ns
  induction ns with
  | nil => intro a; rfl
  | cons n ns ih => intro a; simp [rootsLog, Spec.rootsLog, rootLog_eq, ih]

theorem respLog_eq (exts : List Ext) (inner : List Ev) : respLog exts inner = Spec.respLog exts inner := by
  simp [respLog, Spec.respLog, chain_eq_nest]

theorem pollLoop_eq (exts : List Ext) (op : OpDef) (r : Req) :
    ∀ n j, pollLoop exts op r n j = Spec.pollLoop exts op r n j := by
  intro n
  induction n with
  | zero => intro j; rfl
  | succ n ih =>
    intro j
    simp only [pollLoop, Spec.pollLoop, respLog_eq, rootsLog_eq, ih]

theorem dispatch_eq (exts : List Ext) (r : Req) :
    dispatch exts r = nest (opSel r.opBlock) exts ([.exec], if r.execErr then .oneShot .execErr else .normal) := by
  simp [dispatch, chain_eq_nest]

/-! ### no cache event after `CreateOperationContext` -/

def NoCacheEv (l : List Ev) : Prop := ∀ e ∈ l, e.isCache = false

theorem NoCacheEv.append {a b : List Ev} (ha : NoCacheEv a) (hb : NoCacheEv b) : NoCacheEv (a ++ b) := by
  intro e he
  rcases List.mem_append.1 he with h | h
  · exact ha e h
  · exact hb e h

theorem NoCacheEv.nest {k : Kind} {p : Path} {exts : List Ext} {inner : List Ev} (h : NoCacheEv inner) :
    NoCacheEv (nest (logSel k p) exts inner) := by
  intro e he
  rcases mem_nest_log he with h' | ⟨x, _, _, h' | h'⟩
  · exact h e h'
  · subst h'; rfl
  · subst h'; rfl

theorem Spec.fieldLog_noCache (exts : List Ext) (p : Path) : NoCacheEv (Spec.fieldLog exts p) := by
  apply NoCacheEv.nest
  intro e he; simp at he; rcases he with he | he <;> subst he <;> rfl

theorem Spec.childrenLog_noCache (exts : List Ext) (a : Nat) : ∀ n b, NoCacheEv (Spec.childrenLog exts a n b) := by
  intro n
  induction n with
  | zero => intro b e he; simp [Spec.childrenLog] at he
  | succ n ih => intro b; exact (Spec.fieldLog_noCache exts _).append (ih _)

theorem Spec.rootsLog_noCache (exts : List Ext) : ∀ ns a, NoCacheEv (Spec.rootsLog exts a ns) := by
  intro ns
  induction ns with
  | nil => intro a e he; simp [Spec.rootsLog] at he
  | cons n ns ih =>
    intro a
    refine NoCacheEv.append ?_ (ih _)
    exact NoCacheEv.nest ((Spec.fieldLog_noCache exts _).append (Spec.childrenLog_noCache exts a n 0))

theorem Spec.pollLoop_noCache (exts : List Ext) (op : OpDef) (r : Req) :
    ∀ n j, NoCacheEv (Spec.pollLoop exts op r n j).1 := by
  intro n
  induction n with
  | zero => intro j e he; simp [Spec.pollLoop] at he
  | succ n ih =>
    intro j
    simp only [Spec.pollLoop]
    split
    · exact (NoCacheEv.nest (Spec.rootsLog_noCache exts _ _)).append (ih _)
    · exact NoCacheEv.nest (by intro e he; simp at he)

theorem mem_nest_op {blk : List Nat} {exts : List Ext} {base : OpH} {e : Ev}
    (h : e ∈ (nest (opSel blk) exts base).1) :
    e ∈ base.1 ∨ ∃ x ∈ exts, x.op = true ∧ (e = .enter .op x.id [] ∨ e = .exit .op x.id []) := by
  induction exts with
  | nil => exact Or.inl h
  | cons x xs ih =>
    simp only [nest, opSel] at h
    by_cases hx : x.op = true
    · simp only [hx, if_true] at h
      by_cases hb : x.id ∈ blk
      · simp only [hb, if_true, List.mem_cons, List.mem_nil_iff, or_false] at h
        rcases h with h | h
        · exact Or.inr ⟨x, by simp, hx, Or.inl h⟩
        · exact Or.inr ⟨x, by simp, hx, Or.inr h⟩
      · simp only [hb, if_false, List.mem_cons, List.mem_append, List.mem_nil_iff, or_false] at h
        rcases h with (h | h) | h
        · exact Or.inr ⟨x, by simp, hx, Or.inl h⟩
        · rcases ih h with h | ⟨y, hy, hh⟩
          · exact Or.inl h
          · exact Or.inr ⟨y, by simp [hy], hh⟩
        · exact Or.inr ⟨x, by simp, hx, Or.inr h⟩
    · simp only [hx] at h
      rcases ih h with h | ⟨y, hy, hh⟩
      · exact Or.inl h
      · exact Or.inr ⟨y, by simp [hy], hh⟩

theorem nest_op_noCache (blk : List Nat) (exts : List Ext) (st : Stream) :
    NoCacheEv (nest (opSel blk) exts ([.exec], st)).1 := by
  intro e he
  rcases mem_nest_op he with h | ⟨x, _, _, h | h⟩
  · simp at h; subst h; rfl
  · subst h; rfl
  · subst h; rfl

theorem run_state (W : World) (C : Apq.CacheImpl σ Doc Nat) (cfg : Cfg) (s : St σ) (r : Req) :
    (run W C cfg s r).2 = (create W C cfg s r).2.1 := by
  unfold run
  split
  · rename_i heq; simp [heq]
  · rename_i heq
    split <;> simp [heq]

open Apq (Lawful) in
/-- Impl ⊨ Spec: from a state whose cache holds only validated documents and whose rule list is
complete, what `run` produces satisfies the property, and the state it leaves is again such a state. -/
theorem run_spec (W : World) {C : Apq.CacheImpl σ Doc Nat} {view : σ → Nat → Option Doc}
    (law : Lawful C view) (cfg : Cfg) (s : St σ) (r : Req)
    (hinv : Inv W view s.cache) (hc : Complete s.rules) :
    Spec.ok W cfg.exts r (run W C cfg s r).1.log (run W C cfg s r).1.resps = true ∧
    ((run W C cfg s r).1.gate = none ↔ (Spec.accepts W cfg.exts r).isSome = true) ∧
    Inv W view (run W C cfg s r).2.cache ∧ Complete (run W C cfg s r).2.rules := by
  obtain ⟨h1, h2, h3, h4⟩ := create_spec W law cfg s r hinv hc
  rw [run_state]
  refine ⟨?_, ?_, h2, h3⟩
  · cases hacc : Spec.accepts W cfg.exts r with
    | none =>
      rw [hacc] at h1
      have hg : (run W C cfg s r).1.gate ≠ none := by
        unfold run
        split
        · simp
        · rename_i heq; rw [heq] at h1; simp [Created.op?] at h1
      obtain ⟨ha, hb, hcne⟩ := run_rejected W C cfg s r hg
      simp only [Spec.ok, hacc, Bool.and_eq_true, List.all_eq_true, Bool.not_eq_eq_eq_not, Bool.not_true,
        List.isEmpty_eq_false_iff]
      exact ⟨⟨fun e he => ha e he, fun x hx => hb x hx⟩, hcne⟩
    | some op =>
      rw [hacc] at h1
      have hs : (create W C cfg s r).1.op?.isSome = true := by rw [h1]; rfl
      have hlog := h4 hs
      simp only [Spec.ok, hacc]
      unfold run Spec.expected
      split
      · rename_i heq; rw [heq] at h1; simp [Created.op?] at h1
      · rename_i op' s' l heq
        rw [heq] at h1 hlog
        simp only [Created.op?, Option.some.injEq] at h1
        subst h1
        simp only at hlog
        rw [dispatch_eq]
        have hnc := nest_op_noCache r.opBlock cfg.exts (if r.execErr then .oneShot .execErr else .normal)
        generalize nest (opSel r.opBlock) cfg.exts ([.exec], if r.execErr then .oneShot .execErr else .normal) = dres at hnc ⊢
        obtain ⟨lo, st⟩ := dres
        cases st with
        | normal =>
          simp only [pollLoop_eq]
          have hpc := Spec.pollLoop_noCache cfg.exts op' r r.polls 0
          simp only [List.filter_append, hlog, filter_notCache_of_none hnc, filter_notCache_of_none hpc]
          simp
        | oneShot c =>
          simp only [List.filter_append, hlog, filter_notCache_of_none hnc]
          simp
  · constructor
    · intro hg
      unfold run at hg
      split at hg
      · simp at hg
      · rename_i heq; rw [heq] at h1; rw [← h1]; rfl
    · intro hs
      unfold run
      split
      · rename_i heq; rw [heq] at h1; rw [← h1] at hs; simp [Created.op?] at hs
      · split <;> rfl

/-! ## histories; cached = uncached -/

open Apq (Lawful) in
theorem runAll_spec (W : World) {C : Apq.CacheImpl σ Doc Nat} {view : σ → Nat → Option Doc}
    (law : Lawful C view) (cfg : Cfg) : ∀ (rs : List Req) (s : St σ),
    Inv W view s.cache → Complete s.rules →
    Inv W view (runAll W C cfg s rs).2.cache ∧ Complete (runAll W C cfg s rs).2.rules := by
  intro rs
  induction rs with
  | nil => intro s hi hc; exact ⟨hi, hc⟩
  | cons r rs ih =>
    intro s hi hc
    obtain ⟨_, _, hi', hc'⟩ := run_spec W law cfg s r hi hc
    simp only [runAll]
    exact ih _ hi' hc'

theorem validateAndStore_fst {σ' : Type} (C : Apq.CacheImpl σ Doc Nat) (C' : Apq.CacheImpl σ' Doc Nat)
    (rules : Rules) (c : σ) (c' : σ') (q : Nat) (d : Doc) :
    (validateAndStore C rules c q d).1 = (validateAndStore C' rules c' q d).1 := by
  unfold validateAndStore
  split <;> rfl

open Apq (Lawful) in
theorem parseQuery_fst_eq_uncached (W : World) {C : Apq.CacheImpl σ Doc Nat} {view : σ → Nat → Option Doc}
    (law : Lawful C view) (dis : Bool) (s : St σ) (q : Nat)
    (hinv : Inv W view s.cache) (hc : Complete s.rules) :
    (parseQuery W C dis s q).1 = (parseQuery W Apq.noCache dis ⟨(), s.rules⟩ q).1 := by
  have hcr : Complete (if dis = true then swapRules s.rules else s.rules) := by
    split
    · exact hc.swap
    · exact hc
  unfold parseQuery
  simp only [Apq.noCache]
  split
  · rename_i d c' heq
    have hv : view s.cache q = some d := law.get_val _ _ _ (by rw [heq])
    obtain ⟨hp, hval, hne⟩ := hinv q d hv
    have hz := (validate_eq_zero_iff hcr d).2 hval
    simp [hp, hne, validateAndStore, hz]
  · rename_i c' heq
    split
    · rfl
    · split
      · rfl
      · exact validateAndStore_fst _ _ _ _ _ _ _

open Apq (Lawful) in
theorem create_eq_uncached (W : World) {C : Apq.CacheImpl σ Doc Nat} {view : σ → Nat → Option Doc}
    (law : Lawful C view) (cfg : Cfg) (s : St σ) (r : Req)
    (hinv : Inv W view s.cache) (hc : Complete s.rules) :
    (create W C cfg s r).1 = (create W Apq.noCache cfg ⟨(), s.rules⟩ r).1 ∧
    (create W C cfg s r).2.2.filter (fun e => !e.isCache) =
      (create W Apq.noCache cfg ⟨(), s.rules⟩ r).2.2.filter (fun e => !e.isCache) := by
  unfold create
  generalize pmPhase r (pmList cfg.exts) r.q = pres
  obtain ⟨⟨rej, q⟩, l⟩ := pres
  cases rej with
  | some i => exact ⟨rfl, rfl⟩
  | none =>
    simp only
    have h := parseQuery_fst_eq_uncached W law cfg.disableSuggestion s q hinv hc
    have hl1 := parseQuery_log_cache W C cfg.disableSuggestion s q
    have hl2 := parseQuery_log_cache W Apq.noCache cfg.disableSuggestion ⟨(), s.rules⟩ q
    generalize parseQuery W C cfg.disableSuggestion s q = p1 at h hl1
    generalize parseQuery W Apq.noCache cfg.disableSuggestion ⟨(), s.rules⟩ q = p2 at h hl2
    obtain ⟨a1, s1, l1⟩ := p1
    obtain ⟨a2, s2, l2⟩ := p2
    simp only at h hl1 hl2
    subst h
    cases a1 with
    | fail g n sg =>
      simp only [List.filter_append, filter_notCache_of_cache hl1, filter_notCache_of_cache hl2, true_and]
    | doc d =>
      simp only [List.filter_append, filter_notCache_of_cache hl1, filter_notCache_of_cache hl2, true_and]

open Apq (Lawful) in
/-- one request answered with a cache that holds only validated documents, and the same request
answered with no cache, from the same rule list: same verdict, same answers, same events -/
theorem run_eq_uncached (W : World) {C : Apq.CacheImpl σ Doc Nat} {view : σ → Nat → Option Doc}
    (law : Lawful C view) (cfg : Cfg) (s : St σ) (r : Req)
    (hinv : Inv W view s.cache) (hc : Complete s.rules) :
    (run W C cfg s r).1.gate = (run W Apq.noCache cfg ⟨(), s.rules⟩ r).1.gate ∧
    (run W C cfg s r).1.resps = (run W Apq.noCache cfg ⟨(), s.rules⟩ r).1.resps ∧
    (run W C cfg s r).1.log.filter (fun e => !e.isCache) =
      (run W Apq.noCache cfg ⟨(), s.rules⟩ r).1.log.filter (fun e => !e.isCache) := by
  obtain ⟨h1, h2⟩ := create_eq_uncached W law cfg s r hinv hc
  unfold run
  generalize create W C cfg s r = c1 at h1 h2
  generalize create W Apq.noCache cfg ⟨(), s.rules⟩ r = c2 at h1 h2
  obtain ⟨a1, s1, l1⟩ := c1
  obtain ⟨a2, s2, l2⟩ := c2
  simp only at h1 h2
  subst h1
  cases a1 with
  | rejected g n sg => simp only [List.filter_append, h2, and_self]
  | ok op =>
    simp only
    generalize dispatch cfg.exts r = dres
    obtain ⟨lo, st⟩ := dres
    cases st with
    | normal => simp only [List.filter_append, h2, and_self]
    | oneShot c => simp only [List.filter_append, h2, and_self]

end GqlgenVerif.Pipeline
