import GqlgenVerif.Model.ExecSpec
/-! Helper lemmas and the central relation theorem for the execution model: the mechanism of the generated
code (`Invalids` counter, `== Null` tests, `HasFieldError` lookups, threaded error list) computes the
same thing as the Option-propagating Spec, for every shape with distinct response keys. -/
namespace GqlgenVerif
open Spec

@[ext] theorem St.ext' {a b : St} (h1 : a.errs = b.errs) (h2 : a.invs = b.invs)
    (h3 : a.recovers = b.recovers) (h4 : a.unlogged = b.unlogged) : a = b := by
  cases a; cases b; simp_all

@[simp] theorem St.append_errs (a b : St) : (a.append b).errs = a.errs ++ b.errs := rfl
@[simp] theorem St.append_invs (a b : St) : (a.append b).invs = a.invs ++ b.invs := rfl
@[simp] theorem St.append_recovers (a b : St) : (a.append b).recovers = a.recovers + b.recovers := rfl
@[simp] theorem St.append_unlogged (a b : St) : (a.append b).unlogged = a.unlogged ++ b.unlogged := rfl
@[simp] theorem St.empty_errs : ({} : St).errs = [] := rfl
@[simp] theorem St.empty_invs : ({} : St).invs = [] := rfl
@[simp] theorem St.empty_recovers : ({} : St).recovers = 0 := rfl
@[simp] theorem St.empty_unlogged : ({} : St).unlogged = [] := rfl

@[simp] theorem St.append_empty (a : St) : a.append {} = a := by
  apply St.ext' <;> simp
@[simp] theorem St.empty_append (a : St) : ({} : St).append a = a := by
  apply St.ext' <;> simp
theorem St.append_assoc (a b c : St) : (a.append b).append c = a.append (b.append c) := by
  apply St.ext' <;> simp [Nat.add_assoc]

@[simp] theorem eff_errs (e i r u) : (eff e i r u).errs = e := rfl
@[simp] theorem eff_invs (e i r u) : (eff e i r u).invs = i := rfl
@[simp] theorem eff_recovers (e i r u) : (eff e i r u).recovers = r := rfl
@[simp] theorem eff_unlogged (e i r u) : (eff e i r u).unlogged = u := rfl

theorem St.addErr_eq (st : St) (p : Path) (m : String) : st.addErr p m = st.append (eff [⟨p, m⟩]) := by
  apply St.ext' <;> simp [St.addErr]
theorem St.invoked_eq (st : St) (p : Path) (h : String) :
    st.invoked p h = st.append (eff [] [(pathStr p, h)]) := by
  apply St.ext' <;> simp [St.invoked]

def Clean (st : St) (p : Path) : Prop := ∀ x ∈ st.errs, ¬ p <+: x.path
def Under (p : Path) (e : St) : Prop := ∀ x ∈ e.errs, p <+: x.path

theorem Clean.noFieldError {st : St} {p : Path} (h : Clean st p) : st.hasFieldError p = false := by
  simp only [St.hasFieldError, List.any_eq_false, beq_iff_eq]
  intro x hx heq
  exact h x hx (heq ▸ List.prefix_refl _)

theorem prefix_snoc_disjoint {p x : Path} {a b : Seg} (h1 : (p ++ [a]) <+: x) (h2 : (p ++ [b]) <+: x) :
    a = b := by
  obtain ⟨t1, rfl⟩ := h1
  obtain ⟨t2, h2⟩ := h2
  simp only [List.append_assoc, List.cons_append, List.nil_append] at h2
  have := List.append_cancel_left h2
  simp at this
  exact this.1.symm

theorem runDirs_append (o : Oracle) (p : Path) (ds : List String) (st : St) :
    Impl.runDirs o p ds st = ((Impl.runDirs o p ds {}).1, st.append (Impl.runDirs o p ds {}).2) := by
  induction ds generalizing st with
  | nil => simp [Impl.runDirs]
  | cons d inner ih =>
    simp only [Impl.runDirs]
    cases o.dir p d with
    | missing => simp
    | pass =>
      simp only
      rw [ih (st.invoked p _), ih (({} : St).invoked p _)]
      simp [St.invoked_eq, St.append_assoc]
    | err m => simp [St.invoked_eq]
    | panic m => simp [St.invoked_eq]
    | block => simp [St.invoked_eq]

theorem runDirs_noErrs (o : Oracle) (p : Path) (ds : List String) :
    (Impl.runDirs o p ds {}).2.errs = [] := by
  suffices h : ∀ st : St, st.errs = [] → (Impl.runDirs o p ds st).2.errs = [] from h {} rfl
  induction ds with
  | nil => intro st h; simpa [Impl.runDirs] using h
  | cons d inner ih =>
    intro st h
    simp only [Impl.runDirs]
    cases o.dir p d with
    | missing => simpa using h
    | pass => exact ih _ (by simp [St.invoked, h])
    | err m => simp [St.invoked, h]
    | panic m => simp [St.invoked, h]
    | block => simp [St.invoked, h]
end GqlgenVerif

namespace GqlgenVerif
open Spec

def view (o : Option Out) : Out := o.getD .null

mutual
def Shape.WF : Shape → Prop
  | .leaf _ => True
  | .obj _ _ cases => casesWF cases
  | .list _ elemCtx e => e.WF ∧ (elemCtx = false → ∃ b, e = .leaf b)
def casesWF : List (String × List (FInfo × Shape)) → Prop
  | [] => True
  | (_, fs) :: rest => fieldsWF fs ∧ casesWF rest
def fieldsWF : List (FInfo × Shape) → Prop
  | [] => True
  | (fi, sh) :: rest => (∀ g ∈ rest, g.1.alias ≠ fi.alias) ∧ sh.WF ∧ fieldsWF rest
end

structure RelV (nn : Bool) (p : Path) (st : St) (ri : Out × St) (rs : Option Out × St) : Prop where
  st_eq : ri.2 = st.append rs.2
  out_eq : ri.1 = view rs.1
  none_nn : rs.1 = none → nn = true
  good : nn = true → rs.1 ≠ some .null
  under : Under p rs.2

theorem RelV.inval {nn p st ri rs} (h : RelV nn p st ri rs) :
    (nn && ri.1.isNull) = true ↔ rs.1 = none := by
  obtain ⟨_, h1, h3, h4, _⟩ := h
  constructor
  · intro h
    simp only [Bool.and_eq_true] at h
    cases hr : rs.1 with
    | none => rfl
    | some o =>
      rw [hr] at h1 h4
      simp only [view, Option.getD_some] at h1
      have : o = .null := by
        rw [h1] at h; cases o <;> simp_all [Out.isNull]
      exact absurd (by rw [this]) (h4 h.1)
  · intro h
    rw [h] at h1
    simp [view] at h1
    simp [h3 h, h1, Out.isNull]

structure RelF (p : Path) (st : St) (fields : List (FInfo × Shape))
    (ri : List (String × Out) × Nat × St) (rs : Option (List (String × Out)) × St) : Prop where
  st_eq : ri.2.2 = st.append rs.2
  inval : ri.2.1 > 0 ↔ rs.1 = none
  vals : ∀ os, rs.1 = some os → ri.1 = os
  under : ∀ x ∈ rs.2.errs, ∃ f ∈ fields, (p ++ [Seg.key f.1.alias]) <+: x.path

theorem Clean.snoc {st : St} {p : Path} (h : Clean st p) (a : Seg) : Clean st (p ++ [a]) := by
  intro x hx hp
  exact h x hx (List.IsPrefix.trans (List.prefix_append p [a]) hp)

theorem Under.of_snoc {p : Path} {a : Seg} {e : St} (h : Under (p ++ [a]) e) : Under p e := by
  intro x hx
  exact List.IsPrefix.trans (List.prefix_append p [a]) (h x hx)

theorem relV_nilAt (nn : Bool) (p : Path) (st : St) (hc : Clean st p) :
    RelV nn p st (Impl.nilAt nn p st) (Spec.nilAt nn p) := by
  unfold Impl.nilAt Spec.nilAt
  cases nn with
  | false => exact ⟨by simp, by simp [view], by simp, by simp, by intro x hx; simp at hx⟩
  | true =>
    simp only [↓reduceIte, hc.noFieldError, Bool.false_eq_true]
    refine ⟨by simp [St.addErr_eq], by simp [view], by simp, by simp, ?_⟩
    intro x hx
    simp at hx
    subst hx
    exact List.prefix_refl _

/-- a failed position with exactly one new error at `p` -/
theorem relV_failed (nn : Bool) (p : Path) (st : St) (e : St) (he : Under p e) :
    RelV nn p st (.null, st.append e) (Spec.failed nn, e) := by
  refine ⟨rfl, ?_, ?_, ?_, he⟩
  · cases nn <;> simp [Spec.failed, view]
  · cases nn <;> simp [Spec.failed]
  · cases nn <;> simp [Spec.failed]

end GqlgenVerif

namespace GqlgenVerif
open Spec

theorem combine_elems {nn : Bool} {p' : Path} {st : St} {ri : Out × St} {rs : Option Out × St}
    (h1 : RelV nn p' st ri rs) {restI : List Out × St} {restS : Option (List Out) × St}
    (h2 : restI.2 = ri.2.append restS.2)
    (hiff : (nn && restI.1.any Out.isNull) = true ↔ restS.1 = none)
    (hv : ∀ os, restS.1 = some os → restI.1 = os) :
    restI.2 = st.append (rs.2.append restS.2) ∧
    ((nn && (ri.1 :: restI.1).any Out.isNull) = true ↔
      (match rs.1, restS.1 with | some x, some xs => some (x :: xs) | _, _ => none) = none) ∧
    (∀ os, (match rs.1, restS.1 with | some x, some xs => some (x :: xs) | _, _ => none) = some os →
      ri.1 :: restI.1 = os) := by
  have hinv := h1.inval
  obtain ⟨e1, e2, _, _, _⟩ := h1
  refine ⟨by rw [h2, e1, St.append_assoc], ?_, ?_⟩
  · cases hs1 : rs.1 <;> cases hs2 : restS.1 <;>
      simp_all [Bool.and_or_distrib_left]
  · intro os
    cases hs1 : rs.1 <;> cases hs2 : restS.1 <;> simp_all [view]

theorem relV_leaf_elem (o : Oracle) (b : Bool) (v : V) (rest : List V) (p : Path) (st : St) :
    RelV b p st
      (if !false && b && v.isNull then (Out.null, if rest.any V.isNull then st else st.addErr p elementIsNull)
        else Impl.completeValue o (.leaf b) v p st)
      (if !false && b && v.isNull then
          ((none : Option Out), if rest.any V.isNull then {} else eff [⟨p, elementIsNull⟩])
        else Spec.completeValue o (.leaf b) v p) := by
  have hu : ∀ m, Under p (eff [⟨p, m⟩]) := by
    intro m x hx; simp at hx; subst hx; exact List.prefix_refl _
  cases v with
  | null =>
    cases b with
    | true =>
      simp only [Bool.not_false, Bool.and_self, V.isNull, ↓reduceIte]
      cases rest.any V.isNull with
      | true =>
        simp only [↓reduceIte]
        exact ⟨by simp, by simp [view], by simp, by simp, by intro x hx; simp at hx⟩
      | false =>
        simp only [Bool.false_eq_true, ↓reduceIte]
        exact ⟨by simp [St.addErr_eq], by simp [view], by simp, by simp, hu _⟩
    | false =>
      simp only [Bool.not_false, Bool.and_false, Bool.false_and, Bool.false_eq_true, ↓reduceIte,
        Impl.completeValue, Spec.completeValue, Impl.nilAt, Spec.nilAt]
      exact ⟨by simp, by simp [view], by simp, by simp, by intro x hx; simp at hx⟩
  | leaf t =>
    simp only [V.isNull, Bool.and_false, Bool.false_eq_true, ↓reduceIte, Impl.completeValue,
      Spec.completeValue]
    exact ⟨by simp, by simp [view], by simp, by simp, by intro x hx; simp at hx⟩
  | obj ty =>
    simp only [V.isNull, Bool.and_false, Bool.false_eq_true, ↓reduceIte, Impl.completeValue,
      Spec.completeValue]
    rw [St.addErr_eq]; exact relV_failed b p st _ (hu _)
  | list vs =>
    simp only [V.isNull, Bool.and_false, Bool.false_eq_true, ↓reduceIte, Impl.completeValue,
      Spec.completeValue]
    rw [St.addErr_eq]; exact relV_failed b p st _ (hu _)

theorem elems_scalar (o : Oracle) (b : Bool) (vs : List V) (p : Path) (i : Nat) (st : St) :
    (Impl.completeElems o (.leaf b) false vs p i st).2 =
      st.append (Spec.completeElems o (.leaf b) false vs p i).2 ∧
    ((b && (Impl.completeElems o (.leaf b) false vs p i st).1.any Out.isNull) = true ↔
      (Spec.completeElems o (.leaf b) false vs p i).1 = none) ∧
    (∀ os, (Spec.completeElems o (.leaf b) false vs p i).1 = some os →
      (Impl.completeElems o (.leaf b) false vs p i st).1 = os) ∧
    Under p (Spec.completeElems o (.leaf b) false vs p i).2 := by
  induction vs generalizing i st with
  | nil =>
    simp only [Impl.completeElems, Spec.completeElems]
    exact ⟨by simp, by simp, by simp, by intro x hx; simp at hx⟩
  | cons v rest ih =>
    have h1 := relV_leaf_elem o b v rest p st
    simp only [Impl.completeElems, Spec.completeElems, Shape.nn, Bool.false_eq_true, ↓reduceIte]
    obtain ⟨i1, i2, i3, i4⟩ := ih (i + 1) _
    have hc := combine_elems h1 i1 i2 i3
    refine ⟨hc.1, hc.2.1, hc.2.2, ?_⟩
    intro x hx
    simp only [St.append_errs, List.mem_append] at hx
    rcases hx with hx | hx
    · exact h1.under x hx
    · exact i4 x hx

end GqlgenVerif

namespace GqlgenVerif
open Spec

def CasesRel (p : Path) (st : St) (ri : Option (List (String × Out) × Nat × St))
    (rs : Option (Option (List (String × Out)) × St)) : Prop :=
  match ri, rs with
  | none, none => True
  | some a, some b => ∃ fs, RelF p st fs a b
  | _, _ => False

theorem under_single (p : Path) (m : String) : Under p (eff [⟨p, m⟩]) := by
  intro x hx; simp at hx; subst hx; exact List.prefix_refl _

theorem under_single' (p : Path) (m : String) (i : List (String × String)) (r : Nat) :
    Under p (eff [⟨p, m⟩] i r) := by
  intro x hx; simp at hx; subst hx; exact List.prefix_refl _

theorem under_noerrs (p : Path) (e : St) (h : e.errs = []) : Under p e := by
  intro x hx; rw [h] at hx; cases hx

theorem Under.append {p : Path} {a b : St} (ha : Under p a) (hb : Under p b) : Under p (a.append b) := by
  intro x hx
  simp only [St.append_errs, List.mem_append] at hx
  rcases hx with hx | hx
  · exact ha x hx
  · exact hb x hx

theorem Clean.append_noerrs {st e : St} {p : Path} (h : Clean st p) (he : e.errs = []) :
    Clean (st.append e) p := by
  intro x hx
  simp only [St.append_errs, he, List.append_nil] at hx
  exact h x hx

theorem RelV.shift {nn p st ri rs} (e : St) (h : RelV nn p (st.append e) ri rs) (he : e.errs = []) :
    RelV nn p st ri (rs.1, e.append rs.2) :=
  ⟨by rw [h.st_eq, St.append_assoc], h.out_eq, h.none_nn, h.good,
    Under.append (under_noerrs p e he) h.under⟩

end GqlgenVerif

namespace GqlgenVerif
open Spec

theorem St.unlogged_eq (st : St) (x : String) :
    ({ st with unlogged := st.unlogged ++ [x] } : St) = st.append (eff [] [] 0 [x]) := by
  apply St.ext' <;> simp
theorem St.panic_eq (st : St) (p : Path) (m : String) :
    ({ st.addErr p m with recovers := st.recovers + 1 } : St) = st.append (eff [⟨p, m⟩] [] 1) := by
  apply St.ext' <;> simp [St.addErr]

theorem relV_mustNotBeNull (nn : Bool) (p : Path) (st e : St) (he : e.errs = []) (hc : Clean st p) :
    RelV nn p st
      (Out.null, if nn && !(st.append e).hasFieldError p then (st.append e).addErr p mustNotBeNull
        else st.append e)
      (if nn then ((none : Option Out), e.append (eff [⟨p, mustNotBeNull⟩])) else (some Out.null, e)) := by
  have hf := (hc.append_noerrs he).noFieldError
  cases nn with
  | false =>
    simp only [Bool.false_and, Bool.false_eq_true, ↓reduceIte]
    exact ⟨rfl, by simp [view], by simp, by simp, under_noerrs p e he⟩
  | true =>
    simp only [hf, Bool.not_false, Bool.and_self, ↓reduceIte]
    refine ⟨by simp [St.addErr_eq, St.append_assoc], by simp [view], by simp, by simp, ?_⟩
    exact Under.append (under_noerrs p e he) (under_single _ _)

mutual
theorem value_rel (o : Oracle) : ∀ (sh : Shape) (v : V) (p : Path) (st : St), sh.WF → Clean st p →
    RelV sh.nn p st (Impl.completeValue o sh v p st) (Spec.completeValue o sh v p)
  | .leaf nn, v, p, st, _, hc => by
    cases v with
    | null => simpa [Impl.completeValue, Spec.completeValue, Shape.nn] using relV_nilAt nn p st hc
    | leaf t =>
      simp only [Impl.completeValue, Spec.completeValue, Shape.nn]
      exact ⟨by simp, by simp [view], by simp, by simp, by intro x hx; simp at hx⟩
    | obj ty =>
      simp only [Impl.completeValue, Spec.completeValue, Shape.nn]
      rw [St.addErr_eq]; exact relV_failed nn p st _ (under_single _ _)
    | list vs =>
      simp only [Impl.completeValue, Spec.completeValue, Shape.nn]
      rw [St.addErr_eq]; exact relV_failed nn p st _ (under_single _ _)
  | .obj nn ifc cases, v, p, st, hwf, hc => by
    cases v with
    | null => simpa [Impl.completeValue, Spec.completeValue, Shape.nn] using relV_nilAt nn p st hc
    | leaf t =>
      simp only [Impl.completeValue, Spec.completeValue, Shape.nn]
      rw [St.addErr_eq]; exact relV_failed nn p st _ (under_single _ _)
    | list vs =>
      simp only [Impl.completeValue, Spec.completeValue, Shape.nn]
      rw [St.addErr_eq]; exact relV_failed nn p st _ (under_single _ _)
    | obj ty =>
      have h := cases_rel o ty cases p st (by simpa [Shape.WF] using hwf) (fun a => hc.snoc a)
      simp only [Impl.completeValue, Spec.completeValue, Shape.nn]
      unfold CasesRel at h
      cases hi : Impl.completeCases o ty cases p st with
      | none =>
        cases hs : Spec.completeCases o ty cases p with
        | none =>
          simp only []
          rw [St.addErr_eq]; exact relV_failed nn p st _ (under_single _ _)
        | some b => rw [hi, hs] at h; exact absurd h (by simp)
      | some a =>
        cases hs : Spec.completeCases o ty cases p with
        | none => rw [hi, hs] at h; exact absurd h (by simp)
        | some b =>
          rw [hi, hs] at h
          obtain ⟨fs, hst, hinv, hvals, hund⟩ := h
          have hU : Under p b.2 := by
            intro x hx
            obtain ⟨f, _, hf⟩ := hund x hx
            exact List.IsPrefix.trans (List.prefix_append p _) hf
          obtain ⟨b1, b2⟩ := b
          cases b1 with
          | none =>
            have : a.2.1 > 0 := hinv.mpr rfl
            simp only [this, ↓reduceIte]
            simp only at hst
            rw [hst]; exact relV_failed nn p st _ hU
          | some os =>
            have h0 : ¬ a.2.1 > 0 := fun h => by have := hinv.mp h; cases this
            simp only [h0, ↓reduceIte]
            exact ⟨hst, by simp [view, hvals os rfl], by simp, by simp, hU⟩
  | .list nn ec elem, v, p, st, hwf, hc => by
    cases v with
    | null =>
      simp only [Impl.completeValue, Spec.completeValue, Shape.nn]
      cases nn with
      | true => exact ⟨by simp, by simp [view], by simp, by simp, by intro x hx; simp at hx⟩
      | false => exact ⟨by simp, by simp [view], by simp, by simp, by intro x hx; simp at hx⟩
    | leaf t =>
      simp only [Impl.completeValue, Spec.completeValue, Shape.nn]
      rw [St.addErr_eq]; exact relV_failed nn p st _ (under_single _ _)
    | obj ty =>
      simp only [Impl.completeValue, Spec.completeValue, Shape.nn]
      rw [St.addErr_eq]; exact relV_failed nn p st _ (under_single _ _)
    | list vs =>
      simp only [Shape.WF] at hwf
      have key : (Impl.completeElems o elem ec vs p 0 st).2 =
            st.append (Spec.completeElems o elem ec vs p 0).2 ∧
          ((elem.nn && (Impl.completeElems o elem ec vs p 0 st).1.any Out.isNull) = true ↔
            (Spec.completeElems o elem ec vs p 0).1 = none) ∧
          (∀ os, (Spec.completeElems o elem ec vs p 0).1 = some os →
            (Impl.completeElems o elem ec vs p 0 st).1 = os) ∧
          Under p (Spec.completeElems o elem ec vs p 0).2 := by
        cases ec with
        | false =>
          obtain ⟨b, rfl⟩ := hwf.2 rfl
          exact elems_scalar o b vs p 0 st
        | true =>
          obtain ⟨k1, k2, k3, k4⟩ := elems_rel o elem vs p 0 st hwf.1 (fun j _ => hc.snoc _)
          refine ⟨k1, k2, k3, ?_⟩
          intro x hx
          obtain ⟨j, _, hj⟩ := k4 x hx
          exact List.IsPrefix.trans (List.prefix_append p _) hj
      obtain ⟨k1, k2, k3, k4⟩ := key
      show RelV nn p st _ _
      simp only [Impl.completeValue, Spec.completeValue]
      cases hs : (Spec.completeElems o elem ec vs p 0).1 with
      | none =>
        have hc' := k2.mpr hs
        rw [show Spec.completeElems o elem ec vs p 0 = (none, (Spec.completeElems o elem ec vs p 0).2) from by rw [← hs]]
        simp only [hc', ↓reduceIte]
        rw [k1]; exact relV_failed nn p st _ k4
      | some os =>
        have h0 : ¬ ((elem.nn && (Impl.completeElems o elem ec vs p 0 st).1.any Out.isNull) = true) :=
          fun h => by have := k2.mp h; rw [hs] at this; cases this
        rw [show Spec.completeElems o elem ec vs p 0 = (some os, (Spec.completeElems o elem ec vs p 0).2) from by rw [← hs]]
        simp only [Bool.not_eq_true] at h0
        simp only [h0, Bool.false_eq_true, ↓reduceIte]
        exact ⟨k1, by simp [view, k3 os hs], by simp, by simp, k4⟩

theorem cases_rel (o : Oracle) (ty : String) : ∀ (cases : List (String × List (FInfo × Shape)))
    (p : Path) (st : St), casesWF cases → (∀ a, Clean st (p ++ [a])) →
    CasesRel p st (Impl.completeCases o ty cases p st) (Spec.completeCases o ty cases p)
  | [], p, st, _, _ => by simp [Impl.completeCases, Spec.completeCases, CasesRel]
  | (c, fields) :: rest, p, st, hwf, hc => by
    simp only [casesWF] at hwf
    simp only [Impl.completeCases, Spec.completeCases]
    by_cases hct : (c == ty) = true
    · simp only [hct, ↓reduceIte, CasesRel]
      exact ⟨fields, fields_rel o ty fields p st hwf.1 (fun f _ => hc _)⟩
    · simp only [hct, Bool.false_eq_true, ↓reduceIte]
      exact cases_rel o ty rest p st hwf.2 hc

theorem fields_rel (o : Oracle) (ty : String) : ∀ (fields : List (FInfo × Shape)) (p : Path) (st : St),
    fieldsWF fields → (∀ f ∈ fields, Clean st (p ++ [Seg.key f.1.alias])) →
    RelF p st fields (Impl.completeFields o ty fields p st) (Spec.completeFields o ty fields p)
  | [], p, st, _, _ => by
    simp only [Impl.completeFields, Spec.completeFields]
    exact ⟨by simp, by simp, by simp, by intro x hx; simp at hx⟩
  | (fi, sh) :: rest, p, st, hwf, hc => by
    simp only [fieldsWF] at hwf
    obtain ⟨hdis, hsh, hrest⟩ := hwf
    -- the first field
    have h1 : RelV sh.nn (p ++ [Seg.key fi.alias]) st
        (if fi.name == "__typename" then (Out.leaf (quoteTypename ty), st)
          else Impl.completeField o fi sh (p ++ [Seg.key fi.alias]) st)
        (if fi.name == "__typename" then (some (Out.leaf (quoteTypename ty)), ({} : St))
          else Spec.completeField o fi sh (p ++ [Seg.key fi.alias])) := by
      by_cases ht : (fi.name == "__typename") = true
      · simp only [ht, ↓reduceIte]
        exact ⟨by simp, by simp [view], by simp, by simp, by intro x hx; simp at hx⟩
      · simp only [ht, Bool.false_eq_true, ↓reduceIte]
        exact field_rel o fi sh _ st hsh (hc (fi, sh) (by simp))
    -- the remaining fields see a state that is still clean for *their* paths
    have hc2 : ∀ f ∈ rest, Clean (st.append
        (if fi.name == "__typename" then (some (Out.leaf (quoteTypename ty)), ({} : St))
          else Spec.completeField o fi sh (p ++ [Seg.key fi.alias])).2) (p ++ [Seg.key f.1.alias]) := by
      intro f hf x hx hp
      simp only [St.append_errs, List.mem_append] at hx
      rcases hx with hx | hx
      · exact hc f (by simp [hf]) x hx hp
      · have := prefix_snoc_disjoint (h1.under x hx) hp
        injection this with this
        exact hdis f hf this.symm
    have h2 := fields_rel o ty rest p _ hrest hc2
    rw [← h1.st_eq] at h2
    have hinv := h1.inval
    obtain ⟨e1, e2, _, _, e5⟩ := h1
    obtain ⟨f1, f2, f3, f4⟩ := h2
    simp only [Impl.completeFields, Spec.completeFields]
    refine ⟨by rw [f1, e1, St.append_assoc], ?_, ?_, ?_⟩
    · cases hs1 : (if fi.name == "__typename" then (some (Out.leaf (quoteTypename ty)), ({} : St))
          else Spec.completeField o fi sh (p ++ [Seg.key fi.alias])).1 <;>
        cases hs2 : (Spec.completeFields o ty rest p).1 <;> simp_all <;> omega
    · intro os
      cases hs1 : (if fi.name == "__typename" then (some (Out.leaf (quoteTypename ty)), ({} : St))
          else Spec.completeField o fi sh (p ++ [Seg.key fi.alias])).1 <;>
        cases hs2 : (Spec.completeFields o ty rest p).1 <;> simp_all [view]
    · intro x hx
      simp only [St.append_errs, List.mem_append] at hx
      rcases hx with hx | hx
      · exact ⟨(fi, sh), by simp, e5 x hx⟩
      · obtain ⟨f, hf, hp⟩ := f4 x hx
        exact ⟨f, by simp [hf], hp⟩

theorem field_rel (o : Oracle) (fi : FInfo) : ∀ (sh : Shape) (p : Path) (st : St), sh.WF → Clean st p →
    RelV sh.nn p st (Impl.completeField o fi sh p st) (Spec.completeField o fi sh p)
  | sh, p, st, hwf, hc => by
    have hne := runDirs_noErrs o p fi.dirs.reverse
    simp only [Impl.completeField, Spec.completeField]
    rw [runDirs_append o p fi.dirs.reverse st]
    generalize hrd : Impl.runDirs o p fi.dirs.reverse {} = rd at hne
    obtain ⟨c, e⟩ := rd
    simp only at hne
    cases c with
    | missing d =>
      simp only []
      rw [St.unlogged_eq, St.append_assoc]
      exact relV_failed sh.nn p st _ (Under.append (under_noerrs p e hne) (under_noerrs p _ rfl))
    | err m =>
      simp only []
      rw [St.addErr_eq, St.append_assoc]
      exact relV_failed sh.nn p st _ (Under.append (under_noerrs p e hne) (under_single _ _))
    | panic m =>
      simp only []
      rw [St.panic_eq, St.append_assoc]
      exact relV_failed sh.nn p st _ (Under.append (under_noerrs p e hne) (under_single' _ _ _ _))
    | block =>
      simp only []
      exact relV_mustNotBeNull sh.nn p st e hne hc
    | reached =>
      simp only []
      -- the invocation record of the field's own "resolver" (none for a plain struct field)
      have hres : ∀ s' : St, s'.resolved fi.plain p =
          s'.append (eff [] (if fi.plain then [] else [(pathStr p, "resolver")])) := by
        intro s'
        unfold St.resolved
        cases fi.plain
        · simp [St.invoked_eq]
        · apply St.ext' <;> simp
      generalize hI : (if fi.plain then ([] : List (String × String)) else [(pathStr p, "resolver")]) = I at hres
      cases o.outcome fi p with
      | missing =>
        simp only []
        rw [St.unlogged_eq, St.append_assoc]
        exact relV_failed sh.nn p st _ (Under.append (under_noerrs p e hne) (under_noerrs p _ rfl))
      | err m =>
        simp only []
        rw [hres, St.addErr_eq, St.append_assoc, St.append_assoc]
        have : (eff [] I).append (eff [⟨p, m⟩]) = eff [⟨p, m⟩] I := by
          apply St.ext' <;> simp
        rw [this]
        refine relV_failed sh.nn p st _ ?_
        exact Under.append (under_noerrs p e hne) (under_single' _ _ _ _)
      | panic m =>
        simp only []
        rw [St.panic_eq, hres, St.append_assoc, St.append_assoc]
        have : (eff [] I).append (eff [⟨p, "recovered: " ++ m⟩] [] 1) =
            eff [⟨p, "recovered: " ++ m⟩] I 1 := by
          apply St.ext' <;> simp
        rw [this]
        refine relV_failed sh.nn p st _ ?_
        exact Under.append (under_noerrs p e hne) (under_single' _ _ _ _)
      | val v =>
        simp only []
        rw [hres, St.append_assoc]
        have he1 : (e.append (eff [] I)).errs = [] := by simp [hne]
        by_cases hif : (sh.isIface && v.isNull) = true
        · simp only [hif, ↓reduceIte]
          exact relV_mustNotBeNull sh.nn p st _ he1 hc
        · simp only [hif, Bool.false_eq_true, ↓reduceIte]
          have := value_rel o sh v p (st.append (e.append (eff [] I))) hwf
            (hc.append_noerrs he1)
          exact this.shift _ he1

theorem elems_rel (o : Oracle) : ∀ (elem : Shape) (vs : List V) (p : Path) (i : Nat) (st : St), elem.WF →
    (∀ j, i ≤ j → Clean st (p ++ [Seg.idx j])) →
    (Impl.completeElems o elem true vs p i st).2 = st.append (Spec.completeElems o elem true vs p i).2 ∧
    ((elem.nn && (Impl.completeElems o elem true vs p i st).1.any Out.isNull) = true ↔
      (Spec.completeElems o elem true vs p i).1 = none) ∧
    (∀ os, (Spec.completeElems o elem true vs p i).1 = some os →
      (Impl.completeElems o elem true vs p i st).1 = os) ∧
    (∀ x ∈ (Spec.completeElems o elem true vs p i).2.errs, ∃ j, i ≤ j ∧ (p ++ [Seg.idx j]) <+: x.path)
  | elem, [], p, i, st, _, _ => by
    simp only [Impl.completeElems, Spec.completeElems]
    exact ⟨by simp, by simp, by simp, by intro x hx; simp at hx⟩
  | elem, v :: rest, p, i, st, hwf, hc => by
    have h1 := value_rel o elem v (p ++ [Seg.idx i]) st hwf (hc i (Nat.le_refl i))
    have hc2 : ∀ j, i + 1 ≤ j →
        Clean (st.append (Spec.completeValue o elem v (p ++ [Seg.idx i])).2) (p ++ [Seg.idx j]) := by
      intro j hj x hx hp
      simp only [St.append_errs, List.mem_append] at hx
      rcases hx with hx | hx
      · exact hc j (by omega) x hx hp
      · have := prefix_snoc_disjoint (h1.under x hx) hp
        injection this with this
        omega
    have ih := elems_rel o elem rest p (i + 1) _ hwf hc2
    rw [← h1.st_eq] at ih
    obtain ⟨i1, i2, i3, i4⟩ := ih
    have hcmb := combine_elems h1 i1 i2 i3
    simp only [Impl.completeElems, Spec.completeElems, Bool.not_true, Bool.false_and,
      Bool.false_eq_true, ↓reduceIte]
    refine ⟨hcmb.1, hcmb.2.1, hcmb.2.2, ?_⟩
    intro x hx
    simp only [St.append_errs, List.mem_append] at hx
    rcases hx with hx | hx
    · exact ⟨i, Nat.le_refl i, h1.under x hx⟩
    · obtain ⟨j, hj, hp⟩ := i4 x hx
      exact ⟨j, by omega, hp⟩
end

end GqlgenVerif
