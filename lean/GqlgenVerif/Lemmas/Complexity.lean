import GqlgenVerif.Model.Complexity
/-!
# Helper lemmas for C14 (complexity walker = documented definition)

Everything here is about `Model/Complexity.lean` and the regenerated `Gen/SafeAdd.lean`; the property
theorems themselves are in `Props/C14.lean`.
-/
namespace GqlgenVerif.Lemmas.Complexity
open GqlgenVerif GqlgenVerif.Complexity GqlgenVerif.Gen.SafeAdd

theorem maxInt_eq : maxInt = 9223372036854775807 := by decide

theorem safeAdd_spec (a b : Int) (ha : Go.inInt64 a) (hb : Go.inInt64 b) :
    safeAdd a b = if a < 0 ∧ b < 0 then 1 else min maxInt (max a 0 + max b 0) := by
  rw [maxInt_eq]
  unfold Go.inInt64 Go.minInt64 Go.maxInt64 at ha hb
  simp only [safeAdd, maxInt_eq, Go.conv_int, Go.conv_int64]
  split <;> split <;> (try split) <;> omega

theorem safeAdd_nonneg_eq {a b : Int} (ha : 0 ≤ a) (ha' : a ≤ maxInt) (hb : 0 ≤ b) (hb' : b ≤ maxInt) :
    safeAdd a b = Spec.sat (a + b) := by
  have h := safeAdd_spec a b (by unfold Go.inInt64 Go.minInt64 Go.maxInt64; rw [maxInt_eq] at ha'; omega)
    (by unfold Go.inInt64 Go.minInt64 Go.maxInt64; rw [maxInt_eq] at hb'; omega)
  rw [h, Spec.sat]
  split <;> omega

theorem sat_range {x : Int} (h : 0 ≤ x) : 0 ≤ Spec.sat x ∧ Spec.sat x ≤ maxInt := by
  unfold Spec.sat; rw [maxInt_eq]; omega

theorem sat_id {x : Int} (h : x ≤ maxInt) : Spec.sat x = x := by
  unfold Spec.sat; omega


theorem one_range {cf : Custom} (hcf : cf.InRange) (t f : String) {child : Int} (a : Args)
    (h0 : 0 ≤ child) : 0 ≤ Spec.one cf t f child a ∧ Spec.one cf t f child a ≤ maxInt := by
  unfold Spec.one
  split
  · rename_i c hc
    have := hcf _ _ _ _ _ hc
    unfold Go.inInt64 Go.maxInt64 Go.minInt64 at this
    split
    · rw [maxInt_eq]; omega
    · exact sat_range (by omega)
  · exact sat_range (by omega)

theorem fieldComplexity_eq {cf : Custom} (t f : String) {child : Int} (a : Args)
    (h0 : 0 ≤ child) (h1 : child ≤ maxInt) : fieldComplexity cf t f child a = Spec.one cf t f child a := by
  unfold fieldComplexity Spec.one
  have h : safeAdd 1 child = Spec.sat (1 + child) :=
    safeAdd_nonneg_eq (by omega) (by rw [maxInt_eq]; omega) h0 h1
  split
  · split
    · rfl
    · exact h
  · exact h

theorem foldl_max (g : String → Int) (l : List String) (m : Int) (hm : 0 ≤ m) :
    l.foldl (fun m t => let fc := g t; if fc > m then fc else m) m = max m (Spec.maxList (l.map g)) := by
  induction l generalizing m with
  | nil => simp [Spec.maxList]; omega
  | cons x r ih =>
    simp only [List.foldl_cons, List.map_cons, Spec.maxList]
    rw [ih _ (by split <;> omega)]
    split <;> omega

theorem maxList_nonneg (l : List Int) : 0 ≤ Spec.maxList l := by
  induction l with
  | nil => simp [Spec.maxList]
  | cons x r ih => simp only [Spec.maxList]; omega

theorem maxList_range (l : List Int) (h : ∀ x ∈ l, 0 ≤ x ∧ x ≤ maxInt) : 0 ≤ Spec.maxList l ∧ Spec.maxList l ≤ maxInt := by
  induction l with
  | nil => simp [Spec.maxList]; rw [maxInt_eq]; omega
  | cons x r ih =>
    have hx := h x (by simp)
    have hr := ih (fun y hy => h y (by simp [hy]))
    simp only [Spec.maxList]; omega

theorem specField_range {S : Schema} {cf : Custom} (hcf : cf.InRange) (p n : String) {child : Int} (a : Args) (h0 : 0 ≤ child) :
    0 ≤ Spec.field S cf p n child a ∧ Spec.field S cf p n child a ≤ maxInt := by
  unfold Spec.field
  split
  · apply maxList_range
    intro x hx
    simp only [List.mem_map] at hx
    obtain ⟨t, _, rfl⟩ := hx
    exact one_range hcf t n a h0
  · exact one_range hcf p n a h0

theorem fieldCost_eq {S : Schema} {cf : Custom} (vars : Vars) (p n r : String) (args : List Arg) {sub : Int}
    (h0 : 0 ≤ sub) (h1 : sub ≤ maxInt) :
    fieldCost S cf vars p n r args sub
      = Spec.field S cf p n (if (S.kind r).composite then sub else 0) (resolveArgs vars args) := by
  unfold fieldCost Spec.field
  have hc0 : 0 ≤ (if (S.kind r).composite then sub else 0) := by split <;> omega
  have hc1 : (if (S.kind r).composite then sub else 0) ≤ maxInt := by have := maxInt_eq; split <;> omega
  simp only []
  split
  · unfold interfaceFieldComplexity
    rw [foldl_max (fun t => fieldComplexity cf t n _ (resolveArgs vars args)) _ 0 (by omega)]
    have : ∀ l : List String, l.map (fun t => fieldComplexity cf t n (if (S.kind r).composite then sub else 0) (resolveArgs vars args))
        = l.map (fun t => Spec.one cf t n (if (S.kind r).composite then sub else 0) (resolveArgs vars args)) := by
      intro l; apply List.map_congr_left; intro t _; exact fieldComplexity_eq t n _ hc0 hc1
    rw [this]
    have := maxList_nonneg ((S.possible p).map fun t => Spec.one cf t n (if (S.kind r).composite then sub else 0) (resolveArgs vars args))
    omega
  · exact fieldComplexity_eq p n _ hc0 hc1

section walker
variable {S : Schema} {cf : Custom} (vars : Vars)

mutual
theorem selCost_spec (hcf : cf.InRange) : ∀ s : Sel,
    0 ≤ Spec.sel S cf vars s ∧
    (∀ c, selCost S cf vars s = some c → c = Spec.sat (Spec.sel S cf vars s)) ∧
    (selCost S cf vars s = none → Spec.sel S cf vars s = 0)
  | .field p n r args sels => by
    have ih := selsC_spec hcf sels
    have hsub : selsC S cf vars 0 sels = Spec.sat (Spec.sels' S cf vars sels) := by
      have := ih.2 0 (by omega) (by rw [maxInt_eq]; omega); simpa using this
    have hr := sat_range ih.1
    simp only [selCost, Spec.sel]
    by_cases hs : r = "__Schema"
    · simp [hs]
    · simp only [hs, if_false]
      have hc0 : 0 ≤ (if (S.kind r).composite then Spec.sat (Spec.sels' S cf vars sels) else 0) := by split <;> omega
      have hf := specField_range (S := S) hcf p n (resolveArgs vars args) hc0
      refine ⟨hf.1, ?_, by simp⟩
      intro c hc
      simp only [Option.some.injEq] at hc
      rw [← hc, hsub, fieldCost_eq vars p n r args hr.1 hr.2, sat_id hf.2]
  | .spread _ sels => by
    have ih := selsC_spec hcf sels
    simp only [selCost, Spec.sel]
    refine ⟨ih.1, ?_, by simp⟩
    intro c hc
    simp only [Option.some.injEq] at hc
    have := ih.2 0 (by omega) (by rw [maxInt_eq]; omega)
    rw [← hc, this]; simp
  | .inline _ sels => by
    have ih := selsC_spec hcf sels
    simp only [selCost, Spec.sel]
    refine ⟨ih.1, ?_, by simp⟩
    intro c hc
    simp only [Option.some.injEq] at hc
    have := ih.2 0 (by omega) (by rw [maxInt_eq]; omega)
    rw [← hc, this]; simp
theorem selsC_spec (hcf : cf.InRange) : ∀ l : List Sel,
    0 ≤ Spec.sels' S cf vars l ∧
    ∀ acc, 0 ≤ acc → acc ≤ maxInt → selsC S cf vars acc l = Spec.sat (acc + Spec.sels' S cf vars l)
  | [] => by
    simp only [selsC, Spec.sels']
    refine ⟨by omega, ?_⟩
    intro acc h0 h1
    rw [sat_id (by omega)]; omega
  | s :: r => by
    have hs := selCost_spec hcf s
    have hr := selsC_spec hcf r
    simp only [selsC, Spec.sels']
    refine ⟨by omega, ?_⟩
    intro acc h0 h1
    cases hsc : selCost S cf vars s with
    | none =>
      simp only []
      rw [hr.2 acc h0 h1, hs.2.2 hsc]; simp
    | some c =>
      simp only []
      have hc := hs.2.1 c hsc
      have hcr := sat_range hs.1
      rw [← hc] at hcr
      rw [safeAdd_nonneg_eq h0 h1 hcr.1 hcr.2]
      have hsr := sat_range (x := acc + c) (by omega)
      rw [hr.2 _ hsr.1 hsr.2, hc]
      unfold Spec.sat
      omega
end
end walker

/-! ### congruence of the definition in the custom function -/
section congr
variable {S : Schema} (vars : Vars)

theorem one_nonneg (cf : Custom) (t f : String) {child : Int} (a : Args) (h0 : 0 ≤ child) :
    0 ≤ Spec.one cf t f child a := by
  unfold Spec.one
  have := maxInt_eq
  split
  · split
    · omega
    · exact (sat_range (by omega)).1
  · exact (sat_range (by omega)).1

theorem specField_nonneg (cf : Custom) (p n : String) {child : Int} (a : Args) (h0 : 0 ≤ child) :
    0 ≤ Spec.field S cf p n child a := by
  unfold Spec.field
  split
  · exact maxList_nonneg _
  · exact one_nonneg cf p n a h0

mutual
theorem specSel_nonneg (cf : Custom) : ∀ s : Sel, 0 ≤ Spec.sel S cf vars s
  | .field p n r args sels => by
    have ih := specSels_nonneg cf sels
    simp only [Spec.sel]
    split
    · omega
    · apply specField_nonneg
      split
      · exact (sat_range ih).1
      · omega
  | .spread _ sels => by simpa [Spec.sel] using specSels_nonneg cf sels
  | .inline _ sels => by simpa [Spec.sel] using specSels_nonneg cf sels
theorem specSels_nonneg (cf : Custom) : ∀ l : List Sel, 0 ≤ Spec.sels' S cf vars l
  | [] => by simp [Spec.sels']
  | s :: r => by
    have := specSel_nonneg cf s
    have := specSels_nonneg cf r
    simp only [Spec.sels']; omega
end

/-- two custom functions that agree on the per-type cost for non-negative children give the same definition -/
def OneAgree (cf cf' : Custom) : Prop :=
  ∀ t f child a, 0 ≤ child → Spec.one cf t f child a = Spec.one cf' t f child a

theorem specField_congr {cf cf' : Custom} (h : OneAgree cf cf') (p n : String) {child : Int} (a : Args) (h0 : 0 ≤ child) :
    Spec.field S cf p n child a = Spec.field S cf' p n child a := by
  unfold Spec.field
  split
  · congr 1
    apply List.map_congr_left
    intro t _
    exact h t n child a h0
  · exact h p n child a h0

mutual
theorem specSel_congr {cf cf' : Custom} (h : OneAgree cf cf') : ∀ s : Sel, Spec.sel S cf vars s = Spec.sel S cf' vars s
  | .field p n r args sels => by
    have ih := specSels_congr h sels
    have hn := specSels_nonneg (S := S) vars cf' sels
    simp only [Spec.sel, ih]
    split
    · rfl
    · apply specField_congr h
      split
      · exact (sat_range hn).1
      · omega
  | .spread _ sels => by simpa [Spec.sel] using specSels_congr h sels
  | .inline _ sels => by simpa [Spec.sel] using specSels_congr h sels
theorem specSels_congr {cf cf' : Custom} (h : OneAgree cf cf') : ∀ l : List Sel, Spec.sels' S cf vars l = Spec.sels' S cf' vars l
  | [] => by simp [Spec.sels']
  | s :: r => by
    simp only [Spec.sels', specSel_congr h s, specSels_congr h r]
end
end congr

/-- the custom function with its negative results removed ("no custom function" there) -/
def dropNegative (cf : Custom) : Custom :=
  fun t f child a => (cf t f child a).filter fun c => decide (0 ≤ c)

theorem dropNegative_agree (cf : Custom) : OneAgree cf (dropNegative cf) := by
  intro t f child a h0
  unfold Spec.one dropNegative
  cases h : cf t f child a with
  | none => simp
  | some c =>
    by_cases hc : 0 ≤ c
    · simp [Option.filter, hc]
    · have : ¬ child ≤ c := by omega
      simp [Option.filter, hc, this]

/-! ### monotonicity of the definition -/

theorem sat_mono {x y : Int} (h : x ≤ y) : Spec.sat x ≤ Spec.sat y := by
  unfold Spec.sat; omega

theorem one_mono {cf : Custom} (hm : cf.Monotone) (t f : String) (a : Args) {c c' : Int}
    (h0 : 0 ≤ c) (h : c ≤ c') (h1 : c' ≤ maxInt) : Spec.one cf t f c a ≤ Spec.one cf t f c' a := by
  rcases Int.lt_or_eq_of_le h with hlt | heq
  · unfold Spec.one Spec.sat
    cases hc : cf t f c a with
    | none =>
      cases hc' : cf t f c' a with
      | none => simp only []; omega
      | some v' => simp only []; split <;> omega
    | some v =>
      obtain ⟨v', hv', hle⟩ := hm t f a c c' v h hc
      rw [hv']
      simp only []
      split <;> split <;> omega
  · subst heq; omega

theorem maxList_mono (g g' : String → Int) (l : List String) (h : ∀ t, g t ≤ g' t) :
    Spec.maxList (l.map g) ≤ Spec.maxList (l.map g') := by
  induction l with
  | nil => simp [Spec.maxList]
  | cons x r ih =>
    have := h x
    simp only [List.map_cons, Spec.maxList]; omega

theorem specField_mono {S : Schema} {cf : Custom} (hm : cf.Monotone) (p n : String) (a : Args) {c c' : Int}
    (h0 : 0 ≤ c) (h : c ≤ c') (h1 : c' ≤ maxInt) : Spec.field S cf p n c a ≤ Spec.field S cf p n c' a := by
  unfold Spec.field
  split
  · exact maxList_mono _ _ _ (fun t => one_mono hm t n a h0 h h1)
  · exact one_mono hm p n a h0 h h1

theorem spec_mono_ins {S : Schema} {cf : Custom} (hm : cf.Monotone) (vars : Vars) {a b : List Sel} (h : Ins a b) :
    Spec.sels' S cf vars a ≤ Spec.sels' S cf vars b := by
  induction h with
  | here s l =>
    have := specSel_nonneg (S := S) vars cf s
    simp only [Spec.sels']; omega
  | skip x _ ih => simp only [Spec.sels']; omega
  | inField p n r args rest hab ih =>
    rename_i a b
    simp only [Spec.sels', Spec.sel]
    have ha := specSels_nonneg (S := S) vars cf a
    have hb := specSels_nonneg (S := S) vars cf b
    split
    · omega
    · have : Spec.field S cf p n (if (S.kind r).composite then Spec.sat (Spec.sels' S cf vars a) else 0) (resolveArgs vars args)
          ≤ Spec.field S cf p n (if (S.kind r).composite then Spec.sat (Spec.sels' S cf vars b) else 0) (resolveArgs vars args) := by
        have hsa := sat_range ha
        have hsb := sat_range hb
        have hmono := sat_mono ih
        have := maxInt_eq
        apply specField_mono hm
        · split <;> omega
        · split <;> omega
        · split <;> omega
      omega
  | inSpread f rest _ ih => simp only [Spec.sels', Spec.sel]; omega
  | inInline c rest _ ih => simp only [Spec.sels', Spec.sel]; omega

theorem spec_mono_insTop {S : Schema} (cf : Custom) (vars : Vars) {a b : List Sel} (h : InsTop a b) :
    Spec.sels' S cf vars a ≤ Spec.sels' S cf vars b := by
  induction h with
  | here s l =>
    have := specSel_nonneg (S := S) vars cf s
    simp only [Spec.sels']; omega
  | skip x _ ih => simp only [Spec.sels']; omega
  | inSpread f rest _ ih => simp only [Spec.sels', Spec.sel]; omega
  | inInline c rest _ ih => simp only [Spec.sels', Spec.sel]; omega

end GqlgenVerif.Lemmas.Complexity
