import GqlgenVerif.Model.ExtInstall
/-! Helper lemmas for `Props/C14Install.lean`: what `processExtensions` leaves in a slot, loop by loop. -/
namespace GqlgenVerif.Lemmas.ExtInstall
open GqlgenVerif GqlgenVerif.ExtInstall

theorem step_irrelevant (h : Hook) (hooks : List Hook) (i : Nat) (acc : List Nat) (st : Stmt)
    (hr : st.relevant h = false) : st.step h hooks i acc = acc := by
  cases st with
  | ifAssert h' f =>
    simp only [Stmt.relevant, beq_eq_false_iff_ne, ne_eq] at hr
    simp only [Stmt.step, Stmt.fires]
    split
    · rename_i f' hf
      split at hf
      · cases hf; simp [hr]
      · cases hf
    · rfl
  | typeSwitch cs =>
    simp only [Stmt.relevant, List.any_eq_false, beq_iff_eq] at hr
    simp only [Stmt.step, Stmt.fires]
    split
    · rename_i f' hf
      simp only [Option.map_eq_some_iff] at hf
      obtain ⟨c, hc, rfl⟩ := hf
      have := hr c (List.mem_of_find?_eq_some hc)
      simp [this]
    · rfl

theorem foldl_step_filter (h : Hook) (hooks : List Hook) (i : Nat) (body : List Stmt) (acc : List Nat) :
    body.foldl (Stmt.step h hooks i) acc = (body.filter (Stmt.relevant h)).foldl (Stmt.step h hooks i) acc := by
  induction body generalizing acc with
  | nil => rfl
  | cons st r ih =>
    simp only [List.foldl_cons]
    rw [List.filter_cons]
    cases hr : st.relevant h
    · simp only [Bool.false_eq_true, ↓reduceIte]
      rw [show Stmt.step h hooks i acc st = acc from step_irrelevant h hooks i acc st hr]
      exact ih acc
    · simp only [↓reduceIte, List.foldl_cons]
      exact ih _

/-- the extensions of a (numbered) list whose type implements `h` -/
def sel (h : Hook) (exts : List (Nat × List Hook)) : List Nat :=
  (exts.filter fun e => decide (h ∈ e.2)).map (·.1)

theorem sel_cons (h : Hook) (e : Nat × List Hook) (r : List (Nat × List Hook)) :
    sel h (e :: r) = if h ∈ e.2 then e.1 :: sel h r else sel h r := by
  unfold sel
  by_cases hm : h ∈ e.2 <;> simp [hm]

theorem sel_append (h : Hook) (a b : List (Nat × List Hook)) : sel h (a ++ b) = sel h a ++ sel h b := by
  simp [sel]

theorem loop_none (h : Hook) (l : Loop) (hc : l.cls h = .none) (exts : List (Nat × List Hook)) (acc : List Nat) :
    l.slot h exts acc = acc := by
  have hf : l.body.filter (Stmt.relevant h) = [] := by
    unfold Loop.cls at hc
    split at hc
    · assumption
    · split at hc
      · split at hc <;> cases hc
      · cases hc
    · cases hc
  unfold Loop.slot
  generalize visit l.dir exts = xs
  induction xs generalizing acc with
  | nil => rfl
  | cons e r ih =>
    simp only [List.foldl_cons]
    rw [foldl_step_filter, hf]
    exact ih acc

theorem loop_appendForward (h : Hook) (l : Loop) (hc : l.cls h = .appendForward) (exts : List (Nat × List Hook))
    (acc : List Nat) : l.slot h exts acc = acc ++ sel h exts := by
  unfold Loop.cls at hc
  split at hc
  · cases hc
  · rename_i h' f hf
    split at hc
    · rename_i hh
      obtain ⟨rfl, hs⟩ := hh
      split at hc
      · rename_i hhow hdir
        unfold Loop.slot
        rw [hdir]
        simp only [visit]
        induction exts generalizing acc with
        | nil => simp [sel]
        | cons e r ih =>
          simp only [List.foldl_cons]
          rw [foldl_step_filter, hf, ih, sel_cons]
          simp only [List.foldl_cons, List.foldl_nil, Stmt.step, Stmt.fires]
          by_cases hm : h' ∈ e.2
          · simp [hm, hs, hhow, ins]
          · simp [hm]
      · cases hc
      · cases hc
    · cases hc
  · cases hc

theorem foldl_wrap (h : Hook) (xs : List (Nat × List Hook)) (acc : List Nat) :
    xs.reverse.foldl (fun acc e => if h ∈ e.2 then e.1 :: acc else acc) acc = sel h xs ++ acc := by
  induction xs generalizing acc with
  | nil => simp [sel]
  | cons e r ih =>
    simp only [List.reverse_cons, List.foldl_append, List.foldl_cons, List.foldl_nil]
    rw [ih, sel_cons]
    by_cases hm : h ∈ e.2 <;> simp [hm]

theorem loop_wrapBackward (h : Hook) (l : Loop) (hc : l.cls h = .wrapBackward) (exts : List (Nat × List Hook))
    (acc : List Nat) : l.slot h exts acc = sel h exts ++ acc := by
  unfold Loop.cls at hc
  split at hc
  · cases hc
  · rename_i h' f hf
    split at hc
    · rename_i hh
      obtain ⟨rfl, hs⟩ := hh
      split at hc
      · cases hc
      · rename_i hhow hdir
        unfold Loop.slot
        rw [hdir]
        simp only [visit]
        rw [← foldl_wrap]
        congr 1
        funext acc e
        rw [foldl_step_filter, hf]
        simp only [List.foldl_cons, List.foldl_nil, Stmt.step, Stmt.fires]
        by_cases hm : h' ∈ e.2
        · simp [hm, hs, hhow, ins]
        · simp [hm]
      · cases hc
    · cases hc
  · cases hc

theorem loops_none (h : Hook) (exts : List (Nat × List Hook)) (loops : List Loop)
    (hc : (loops.map (Loop.cls h)).filter (· != Cls.none) = []) (acc : List Nat) :
    loops.foldl (fun acc l => l.slot h exts acc) acc = acc := by
  induction loops generalizing acc with
  | nil => rfl
  | cons l r ih =>
    simp only [List.map_cons, List.filter_cons] at hc
    split at hc
    · cases hc
    · rename_i hn
      have hl : l.cls h = .none := by simpa using hn
      simp only [List.foldl_cons]
      rw [loop_none h l hl]
      exact ih hc acc

theorem loops_appendForward (h : Hook) (exts : List (Nat × List Hook)) (loops : List Loop)
    (hc : (loops.map (Loop.cls h)).filter (· != Cls.none) = [Cls.appendForward]) (acc : List Nat) :
    loops.foldl (fun acc l => l.slot h exts acc) acc = acc ++ sel h exts := by
  induction loops generalizing acc with
  | nil => simp at hc
  | cons l r ih =>
    simp only [List.map_cons, List.filter_cons] at hc
    simp only [List.foldl_cons]
    split at hc
    · simp only [List.cons.injEq] at hc
      rw [loop_appendForward h l hc.1, loops_none h exts r hc.2]
    · rename_i hn
      have hl : l.cls h = .none := by simpa using hn
      rw [loop_none h l hl]
      exact ih hc acc

theorem loops_wrapBackward (h : Hook) (exts : List (Nat × List Hook)) (loops : List Loop)
    (hc : (loops.map (Loop.cls h)).filter (· != Cls.none) = [Cls.wrapBackward]) (acc : List Nat) :
    loops.foldl (fun acc l => l.slot h exts acc) acc = sel h exts ++ acc := by
  induction loops generalizing acc with
  | nil => simp at hc
  | cons l r ih =>
    simp only [List.map_cons, List.filter_cons] at hc
    simp only [List.foldl_cons]
    split at hc
    · simp only [List.cons.injEq] at hc
      rw [loop_wrapBackward h l hc.1, loops_none h exts r hc.2]
    · rename_i hn
      have hl : l.cls h = .none := by simpa using hn
      rw [loop_none h l hl]
      exact ih hc acc

/-! ### numbering -/

theorem number_map {α β : Type} (f : α → β) (k : Nat) (xs : List α) :
    number k (xs.map f) = (number k xs).map fun e => (e.1, f e.2) := by
  induction xs generalizing k with
  | nil => rfl
  | cons x r ih => simp [number, ih]

theorem number_getElem? {α : Type} (k : Nat) (xs : List α) (e : Nat × α) (he : e ∈ number k xs) :
    k ≤ e.1 ∧ xs[e.1 - k]? = some e.2 := by
  induction xs generalizing k with
  | nil => simp [number] at he
  | cons x r ih =>
    simp only [number, List.mem_cons] at he
    rcases he with rfl | he
    · simp
    · have := ih (k + 1) he
      refine ⟨by omega, ?_⟩
      have h1 : e.1 - k = (e.1 - (k + 1)) + 1 := by omega
      rw [h1, List.getElem?_cons_succ]
      exact this.2

theorem mem_number {α : Type} (k : Nat) (xs : List α) (i : Nat) (x : α) (h : xs[i]? = some x) : (k + i, x) ∈ number k xs := by
  induction xs generalizing k i with
  | nil => simp at h
  | cons y r ih =>
    cases i with
    | zero => simp at h; simp [number, h]
    | succ j =>
      simp only [List.getElem?_cons_succ] at h
      have := ih (k + 1) j h
      simp only [number, List.mem_cons]
      right
      have e : k + (j + 1) = k + 1 + j := by omega
      rw [e]; exact this

theorem mem_number_of_mem {α : Type} (k : Nat) (xs : List α) (x : α) (h : x ∈ xs) : ∃ i, (i, x) ∈ number k xs := by
  obtain ⟨i, hi, rfl⟩ := List.mem_iff_getElem.mp h
  exact ⟨k + i, mem_number k xs i _ (by simp [hi])⟩

theorem mem_of_mem_number {α : Type} (k : Nat) (xs : List α) (e : Nat × α) (h : e ∈ number k xs) : e.2 ∈ xs := by
  have := (number_getElem? k xs e h).2
  exact List.mem_of_getElem? this

/-- looking the numbers of a selection up again gives the selection -/
theorem pick_sel {α : Type} (exts : List Ext) (f : Ext → α) (L : List (Nat × Ext))
    (hL : ∀ e ∈ L, exts[e.1]? = some e.2) :
    pick exts f (L.map (·.1)) = L.map fun e => (e.1, f e.2) := by
  induction L with
  | nil => rfl
  | cons e r ih =>
    have h1 := hL e (by simp)
    have h2 := ih (fun x hx => hL x (List.mem_cons_of_mem _ hx))
    unfold pick at h2 ⊢
    simp only [List.map_cons, List.filterMap_cons, h1, Option.map_some]
    rw [h2]

theorem pick_spec_slot {α : Type} (exts : List Ext) (f : Ext → α) (h : Hook) :
    pick exts f (Spec.slot (exts.map (·.hooks)) h) = Spec.having h f exts := by
  unfold Spec.slot Spec.having
  rw [number_map]
  have hl : ((number 0 exts).map fun e => (e.1, e.2.hooks)).filter (fun e => decide (h ∈ e.2))
      = ((number 0 exts).filter fun e => decide (h ∈ e.2.hooks)).map fun e => (e.1, e.2.hooks) := by
    rw [List.filter_map]; rfl
  rw [hl, List.map_map]
  have := pick_sel exts f ((number 0 exts).filter fun e => decide (h ∈ e.2.hooks)) (by
    intro e he
    have := (number_getElem? 0 exts e (List.mem_filter.mp he).1).2
    simpa using this)
  simpa [Function.comp_def] using this

theorem mem_having {α : Type} (h : Hook) (f : Ext → α) (exts : List Ext) (e : Ext) (he : e ∈ exts) (hh : h ∈ e.hooks) :
    ∃ i, (i, f e) ∈ Spec.having h f exts := by
  obtain ⟨i, hi⟩ := mem_number_of_mem 0 exts e he
  refine ⟨i, ?_⟩
  unfold Spec.having
  simp only [List.mem_map, List.mem_filter, decide_eq_true_eq]
  exact ⟨(i, e), ⟨hi, hh⟩, rfl⟩

theorem of_mem_having {α : Type} (h : Hook) (f : Ext → α) (exts : List Ext) (x : Nat × α) (hx : x ∈ Spec.having h f exts) :
    ∃ e ∈ exts, h ∈ e.hooks ∧ x.2 = f e := by
  unfold Spec.having at hx
  simp only [List.mem_map, List.mem_filter, decide_eq_true_eq] at hx
  obtain ⟨e, ⟨he, hh⟩, rfl⟩ := hx
  exact ⟨e.2, mem_of_mem_number 0 exts e he, hh, rfl⟩

/-! ### the two mutator loops -/

theorem cStep_cur (st st' : St) (i : Nat) (a : CAct) (h : cStep st i a = .ok st') : st'.cur = st.cur := by
  cases a with
  | pass => simp [cStep] at h; rw [← h]
  | fail c => simp [cStep] at h
  | limit l =>
    simp only [cStep] at h
    split at h
    · cases h
    · simp at h; rw [← h]

/-- a limit below the complexity anywhere in the list: the loop ends in an error -/
theorem runC_over (L : List (Nat × CAct)) (st : St) (i : Nat) (l : Int) (hm : (i, CAct.limit l) ∈ L) (ho : st.cur > l) :
    ∃ e, runM cStep L st = .error e := by
  induction L generalizing st with
  | nil => simp at hm
  | cons x r ih =>
    obtain ⟨j, a⟩ := x
    simp only [runM]
    cases hs : cStep st j a with
    | error e => exact ⟨e, rfl⟩
    | ok st' =>
      simp only
      have hc := cStep_cur st st' j a hs
      simp only [List.mem_cons] at hm
      rcases hm with hm | hm
      · cases hm
        simp only [cStep, Complexity.gate] at hs
        rw [if_pos ho] at hs
        cases hs
      · exact ih st' hm (by rw [hc]; exact ho)

/-- an error of the context-mutator loop is a user error or a limit below the complexity -/
theorem runC_error (L : List (Nat × CAct)) (st : St) (code : String) (st' : St) (h : runM cStep L st = .error (code, st')) :
    (∃ i, (i, CAct.fail code) ∈ L) ∨ (∃ i l, (i, CAct.limit l) ∈ L ∧ st.cur > l ∧ code = "COMPLEXITY_LIMIT_EXCEEDED") := by
  induction L generalizing st with
  | nil => simp [runM] at h
  | cons x r ih =>
    obtain ⟨j, a⟩ := x
    simp only [runM] at h
    cases hs : cStep st j a with
    | error e =>
      rw [hs] at h
      simp only [Except.error.injEq] at h
      subst h
      cases a with
      | pass => simp [cStep] at hs
      | fail c =>
        simp only [cStep, Except.error.injEq, Prod.mk.injEq] at hs
        left; exact ⟨j, by rw [← hs.1]; simp⟩
      | limit l =>
        simp only [cStep, Complexity.gate] at hs
        by_cases ho : st.cur > l
        · rw [if_pos ho] at hs
          simp only [Except.error.injEq, Prod.mk.injEq] at hs
          right; exact ⟨j, l, by simp, ho, hs.1.symm⟩
        · rw [if_neg ho] at hs
          cases hs
    | ok st2 =>
      rw [hs] at h
      simp only at h
      have hc := cStep_cur st st2 j a hs
      rcases ih st2 h with ⟨i, hi⟩ | ⟨i, l, hi, ho, hcode⟩
      · left; exact ⟨i, List.mem_cons_of_mem _ hi⟩
      · right; exact ⟨i, l, List.mem_cons_of_mem _ hi, by rw [← hc]; exact ho, hcode⟩

theorem runP_error (req : Req) (L : List (Nat × PAct)) (st : St) (code : String) (st' : St)
    (h : runM (pStep req) L st = .error (code, st')) : ∃ i, (i, PAct.fail code) ∈ L := by
  induction L generalizing st with
  | nil => simp [runM] at h
  | cons x r ih =>
    obtain ⟨j, a⟩ := x
    simp only [runM] at h
    cases hs : pStep req st j a with
    | error e =>
      rw [hs] at h
      simp only [Except.error.injEq] at h
      subst h
      cases a with
      | pass => simp [pStep] at hs
      | rewrite => simp [pStep] at hs
      | fail c =>
        simp only [pStep, Except.error.injEq, Prod.mk.injEq] at hs
        exact ⟨j, by rw [← hs.1]; simp⟩
    | ok st2 =>
      rw [hs] at h
      simp only at h
      obtain ⟨i, hi⟩ := ih st2 h
      exact ⟨i, List.mem_cons_of_mem _ hi⟩

/-- after the parameter mutators the document is the alternative one iff one of them rewrote -/
theorem runP_cur (req : Req) (L : List (Nat × PAct)) (st st' : St) (h : runM (pStep req) L st = .ok st') :
    st'.cur = if L.any (fun a => decide (a.2 = PAct.rewrite)) then req.cAlt else st.cur := by
  induction L generalizing st with
  | nil => simp [runM] at h; simp [h]
  | cons x r ih =>
    obtain ⟨j, a⟩ := x
    simp only [runM] at h
    cases hs : pStep req st j a with
    | error e => rw [hs] at h; cases h
    | ok st2 =>
      rw [hs] at h
      simp only at h
      have := ih st2 h
      cases a with
      | pass =>
        simp only [pStep, Except.ok.injEq] at hs
        rw [this, ← hs]
        have hd : decide (PAct.pass = PAct.rewrite) = false := by decide
        simp only [List.any_cons, hd, Bool.false_or]
      | fail c => simp [pStep] at hs
      | rewrite =>
        simp only [pStep, Except.ok.injEq] at hs
        rw [this, ← hs]
        simp

theorem runP_ok (req : Req) (L : List (Nat × PAct)) (st : St) (hn : ∀ x ∈ L, ∀ c, x.2 ≠ PAct.fail c) :
    ∃ st', runM (pStep req) L st = .ok st' := by
  induction L generalizing st with
  | nil => exact ⟨st, rfl⟩
  | cons x r ih =>
    obtain ⟨j, a⟩ := x
    simp only [runM]
    cases a with
    | pass => simp only [pStep]; exact ih _ (fun x hx => hn x (List.mem_cons_of_mem _ hx))
    | rewrite => simp only [pStep]; exact ih _ (fun x hx => hn x (List.mem_cons_of_mem _ hx))
    | fail c => exact absurd rfl (hn (j, .fail c) (by simp) c)

theorem runC_ok (L : List (Nat × CAct)) (st : St)
    (hn : ∀ x ∈ L, x.2 = CAct.pass ∨ ∃ l, x.2 = CAct.limit l ∧ st.cur ≤ l) : ∃ st', runM cStep L st = .ok st' := by
  induction L generalizing st with
  | nil => exact ⟨st, rfl⟩
  | cons x r ih =>
    obtain ⟨j, a⟩ := x
    simp only [runM]
    have hrest : ∀ st2 : St, st2.cur = st.cur → ∀ x ∈ r, x.2 = CAct.pass ∨ ∃ l, x.2 = CAct.limit l ∧ st2.cur ≤ l := by
      intro st2 h2 x hx
      rw [h2]; exact hn x (List.mem_cons_of_mem _ hx)
    rcases hn (j, a) (by simp) with h | ⟨l, h, hle⟩
    · simp only at h; subst h
      simp only [cStep]
      exact ih _ (hrest _ rfl)
    · simp only at h; subst h
      simp only [cStep, Complexity.gate]
      rw [if_neg (by omega)]
      exact ih _ (hrest _ rfl)

end GqlgenVerif.Lemmas.ExtInstall
