import GqlgenVerif.Model.ServerState
/-! Helper lemmas for `Props/C07.lean`: the invariant of the server state and its preservation by every event. -/
namespace GqlgenVerif.SS

/-- the fields of `Params`, with the type kind `resetBy` asks `isReset` about -/
def stdFields : List (String × String) :=
  [("Query", "string"), ("OperationName", "string"), ("Variables", "map"), ("Extensions", "map"),
   ("Headers", "map"), ("ReadTime", "struct")]

/-- a reset list that clears every field makes `resetBy` the constant zero function -/
theorem resetBy_zero (rs : List (String × String)) (h : ∀ f ∈ stdFields, isReset rs f.1 f.2 = true) (p : Params) :
    resetBy rs p = Params.zero := by
  have h1 := h ("Query", "string") (by simp [stdFields])
  have h2 := h ("OperationName", "string") (by simp [stdFields])
  have h3 := h ("Variables", "map") (by simp [stdFields])
  have h4 := h ("Extensions", "map") (by simp [stdFields])
  have h5 := h ("Headers", "map") (by simp [stdFields])
  have h6 := h ("ReadTime", "struct") (by simp [stdFields])
  simp only at h1 h2 h3 h4 h5 h6
  simp [resetBy, h1, h2, h3, h4, h5, h6, Params.zero]

/-- `Good cfg`: the deferred reset returns the struct to its zero value -/
def Good (cfg : Cfg) : Prop := ∀ p, resetBy cfg.resets p = Params.zero

section
variable {D E : Type}

/-- every cached document is what parsing + validating its key gives -/
def QcInv (env : Env D E) (qc : QC D) : Prop := ∀ k d, (k, d) ∈ qc → env.parse k = .ok d

/-- every persisted query is stored under its own hash, and is not empty -/
def ApqInv (env : Env D E) (apq : Apq) : Prop := ∀ h q, (h, q) ∈ apq → env.sha q = h ∧ q ≠ ""

structure Inv (env : Env D E) (s : State D) : Prop where
  pool : ∀ p ∈ s.pool, p = Params.zero
  held : ∀ h ∈ s.held, h.ran = false → h.p = some Params.zero
  qc : QcInv env s.caches.qc
  apq : ApqInv env s.caches.apq

theorem inv_fresh (env : Env D E) : Inv env (State.fresh : State D) :=
  ⟨by simp [State.fresh], by simp [State.fresh], by simp [State.fresh, QcInv], by simp [State.fresh, ApqInv]⟩

theorem lookup_mem {V : Type} (c : List (String × V)) (k : String) (v : V) (h : c.lookup k = some v) : (k, v) ∈ c := by
  induction c with
  | nil => simp at h
  | cons a r ih =>
    obtain ⟨k', v'⟩ := a
    simp only [List.lookup] at h
    split at h
    · rename_i heq
      have : k = k' := by simpa using heq
      cases h; subst this; simp
    · exact List.mem_cons_of_mem _ (ih h)

theorem cacheGet_mem {V : Type} (c : List (String × V)) (a : Bool) (k : String) (v : V) (h : cacheGet c a k = some v) :
    (k, v) ∈ c := by
  unfold cacheGet at h
  split at h
  · exact lookup_mem c k v h
  · simp at h

/-- `parseQuery` answers what parsing the text answers, whatever the cache holds (given the invariant), and keeps
the invariant -/
theorem parseQuery_spec (env : Env D E) (qc : QC D) (hit : Bool) (q : String) (hq : QcInv env qc) :
    (parseQuery env qc hit q).1 = env.parse q ∧ QcInv env (parseQuery env qc hit q).2 := by
  unfold parseQuery
  split
  · rename_i d hd
    exact ⟨(hq q d (cacheGet_mem qc hit q d hd)).symm, hq⟩
  · split
    · rename_i e he
      exact ⟨he.symm, hq⟩
    · rename_i d hd
      refine ⟨hd.symm, ?_⟩
      intro k d' hm
      simp only [List.mem_cons] at hm
      rcases hm with hm | hm
      · cases hm; exact hd
      · exact hq k d' hm

theorem apqCore_add (env : Env D E) (look : String → Option String) (p p' : Params) (h q : String)
    (hc : apqCore env look p = .ok (p', some (h, q))) : env.sha q = h ∧ q ≠ "" ∧ p' = p := by
  unfold apqCore at hc
  split at hc
  · simp at hc
  · split at hc
    · simp at hc
    · simp at hc
    · simp at hc
    · split at hc
      · split at hc <;> simp at hc
      · rename_i hne
        split at hc
        · rename_i hs
          simp only [Except.ok.injEq, Prod.mk.injEq, Option.some.injEq] at hc
          obtain ⟨hp, hh, hq⟩ := hc
          subst hq; subst hh
          exact ⟨hs, hne, hp.symm⟩
        · simp at hc

theorem apqAdd_inv (env : Env D E) (apq : Apq) (look : String → Option String) (p p' : Params)
    (add : Option (String × String)) (ha : ApqInv env apq) (hc : apqCore env look p = .ok (p', add)) :
    ApqInv env (apqAdd apq add) := by
  cases add with
  | none => simpa [apqAdd] using ha
  | some e =>
    obtain ⟨h, q⟩ := e
    have := apqCore_add env look p p' h q hc
    intro h' q' hm
    simp only [apqAdd, List.mem_cons] at hm
    rcases hm with hm | hm
    · cases hm; exact ⟨this.1, this.2.1⟩
    · exact ha h' q' hm

/-- the executor's outcome is the Spec's, whatever the query cache holds; both cache invariants are kept -/
theorem execParams_spec (env : Env D E) (c : Caches D) (a q : Bool) (t : Transport) (p : Params)
    (hq : QcInv env c.qc) (ha : ApqInv env c.apq) :
    (execParams env c a q t p).1 = spec.specExec env (cacheGet c.apq a) t p ∧
    QcInv env (execParams env c a q t p).2.2.qc ∧ ApqInv env (execParams env c a q t p).2.2.apq := by
  unfold execParams spec.specExec
  cases hc : apqCore env (cacheGet c.apq a) p with
  | error e => exact ⟨rfl, hq, ha⟩
  | ok r =>
    obtain ⟨p', add⟩ := r
    have hp := parseQuery_spec env c.qc q p'.query hq
    have ha' := apqAdd_inv env c.apq _ p p' add ha hc
    simp only
    cases hpq : parseQuery env c.qc q p'.query with
    | mk res qc' =>
      rw [hpq] at hp
      simp only at hp
      cases res with
      | error e => simp only; rw [← hp.1]; exact ⟨rfl, hp.2, ha'⟩
      | ok d => simp only; rw [← hp.1]; exact ⟨rfl, hp.2, ha'⟩

theorem findHeld_mem (hs : List Held) (id : Nat) (h : Held) (hf : findHeld hs id = some h) : h ∈ hs ∧ h.id = id := by
  unfold findHeld at hf
  exact ⟨List.mem_of_find?_eq_some hf, by simpa using List.find?_some hf⟩

theorem setHeld_inv (hs : List Held) (h : Held) (P : Held → Prop) (hp : P h) (hall : ∀ x ∈ hs, P x) :
    ∀ x ∈ setHeld hs h, P x := by
  intro x hx
  simp only [setHeld, List.mem_cons, List.mem_filter] at hx
  rcases hx with hx | hx
  · subst hx; exact hp
  · exact hall x hx.1

theorem dropHeld_inv (hs : List Held) (id : Nat) (P : Held → Prop) (hall : ∀ x ∈ hs, P x) :
    ∀ x ∈ dropHeld hs id, P x := by
  intro x hx
  simp only [dropHeld, List.mem_filter] at hx
  exact hall x hx.1

theorem getStruct_inv (pool : List Params) (c : Option Nat) (hp : ∀ p ∈ pool, p = Params.zero) :
    (getStruct pool c).1 = Params.zero ∧ ∀ p ∈ (getStruct pool c).2, p = Params.zero := by
  unfold getStruct
  cases c with
  | none => exact ⟨rfl, hp⟩
  | some i =>
    simp only
    split
    · rename_i p hpi
      refine ⟨hp p (List.mem_of_getElem? hpi), ?_⟩
      intro x hx
      exact hp x (List.mem_of_mem_eraseIdx hx)
    · exact ⟨rfl, hp⟩

/-- POST on a zero struct: Spec outcome; the caches keep their invariants -/
theorem runPost_spec (cfg : Cfg) (env : Env D E) (c : Caches D) (a q : Bool) (hdrs : KV) (body : Body)
    (hq : QcInv env c.qc) (ha : ApqInv env c.apq) :
    (runPost cfg env c a q Params.zero hdrs body).1 = spec cfg env (cacheGet c.apq a) (.post hdrs body) ∧
    QcInv env (runPost cfg env c a q Params.zero hdrs body).2.2.qc ∧
    ApqInv env (runPost cfg env c a q Params.zero hdrs body).2.2.apq := by
  unfold runPost spec
  simp only
  cases hd : decodeBody cfg.nullMode { Params.zero with hdrs := some hdrs, readTime := true } body with
  | err p => exact ⟨rfl, hq, ha⟩
  | nil => exact ⟨rfl, hq, ha⟩
  | ok p =>
    have := execParams_spec env c a q .post p hq ha
    exact ⟨this.1, this.2.1, this.2.2⟩

theorem apply_inv (cfg : Cfg) (env : Env D E) (hg : Good cfg) (s : State D) (e : Ev) (hi : Inv env s) :
    Inv env (apply cfg env s e).1 := by
  cases e with
  | get id choice =>
    simp only [apply]
    split
    · exact hi
    · have g := getStruct_inv s.pool choice hi.pool
      refine ⟨g.2, ?_, hi.qc, hi.apq⟩
      apply setHeld_inv
      · intro _; simp [g.1]
      · exact hi.held
  | gc i =>
    simp only [apply]
    exact ⟨fun p hp => hi.pool p (List.mem_of_mem_eraseIdx hp), hi.held, hi.qc, hi.apq⟩
  | put id drop =>
    simp only [apply]
    split
    · refine ⟨?_, dropHeld_inv _ _ _ hi.held, hi.qc, hi.apq⟩
      intro p hp
      simp only at hp
      split at hp
      · exact hi.pool p hp
      · simp only [List.mem_cons] at hp
        rcases hp with hp | hp
        · rw [hp]; exact hg _
        · exact hi.pool p hp
    · exact ⟨hi.pool, dropHeld_inv _ _ _ hi.held, hi.qc, hi.apq⟩
    · exact hi
  | run id r a q =>
    cases r with
    | post hdrs body =>
      simp only [apply]
      split
      · rename_i p0 hf
        have hm := findHeld_mem _ _ _ hf
        have hz : p0 = Params.zero := by
          have := hi.held _ hm.1 rfl
          simpa using this
        subst hz
        have sp := runPost_spec cfg env s.caches a q hdrs body hi.qc hi.apq
        refine ⟨hi.pool, ?_, sp.2.1, sp.2.2⟩
        apply setHeld_inv
        · intro h; simp at h
        · exact hi.held
      · exact hi
    | unsupported => simp only [apply, paramsOf]; exact hi
    | get h b qq o v ee =>
      simp only [apply]
      split
      · exact hi
      · exact hi
      · exact hi
      · rename_i t p _
        have sp := execParams_spec env s.caches a q t p hi.qc hi.apq
        exact ⟨hi.pool, hi.held, sp.2.1, sp.2.2⟩
    | form h f =>
      simp only [apply]
      split
      · exact hi
      · exact hi
      · exact hi
      · rename_i t p _
        have sp := execParams_spec env s.caches a q t p hi.qc hi.apq
        exact ⟨hi.pool, hi.held, sp.2.1, sp.2.2⟩
    | graphql h qq =>
      simp only [apply]
      split
      · exact hi
      · exact hi
      · exact hi
      · rename_i t p _
        have sp := execParams_spec env s.caches a q t p hi.qc hi.apq
        exact ⟨hi.pool, hi.held, sp.2.1, sp.2.2⟩

/-- whatever a `run` event answers in a state satisfying the invariant is the Spec's answer -/
theorem apply_run_spec (cfg : Cfg) (env : Env D E) (s : State D) (hi : Inv env s) (id : Nat) (r : Req) (a q : Bool)
    (x : Nat × Outcome D E) (hx : (apply cfg env s (.run id r a q)).2 = some x) :
    x = (id, spec cfg env (cacheGet s.caches.apq a) r) := by
  cases r with
  | post hdrs body =>
    simp only [apply] at hx
    split at hx
    · rename_i p0 hf
      have hm := findHeld_mem _ _ _ hf
      have hz : p0 = Params.zero := by
        have := hi.held _ hm.1 rfl
        simpa using this
      subst hz
      have sp := runPost_spec cfg env s.caches a q hdrs body hi.qc hi.apq
      simp only [Option.some.injEq] at hx
      rw [← hx, sp.1]
    · simp at hx
  | unsupported =>
    simp only [apply, paramsOf, Option.some.injEq] at hx
    rw [← hx]; simp [spec, paramsOf]
  | get h b qq o v ee =>
    simp only [apply] at hx
    unfold spec
    split at hx
    all_goals (rename_i hb; simp only [Option.some.injEq] at hx; rw [← hx]; simp only [hb])
    rename_i t p
    rw [(execParams_spec env s.caches a q t p hi.qc hi.apq).1]
  | form h f =>
    simp only [apply] at hx
    unfold spec
    split at hx
    all_goals (rename_i hb; simp only [Option.some.injEq] at hx; rw [← hx]; simp only [hb])
    rename_i t p
    rw [(execParams_spec env s.caches a q t p hi.qc hi.apq).1]
  | graphql h qq =>
    simp only [apply] at hx
    unfold spec
    split at hx
    all_goals (rename_i hb; simp only [Option.some.injEq] at hx; rw [← hx]; simp only [hb])
    rename_i t p
    rw [(execParams_spec env s.caches a q t p hi.qc hi.apq).1]

/-- only `run` events answer -/
theorem apply_answer (cfg : Cfg) (env : Env D E) (s : State D) (e : Ev) (x : Nat × Outcome D E)
    (hx : (apply cfg env s e).2 = some x) : ∃ id r a q, e = .run id r a q := by
  cases e with
  | run id r a q => exact ⟨id, r, a, q, rfl⟩
  | get id c => simp only [apply] at hx; split at hx <;> simp at hx
  | put id d => simp only [apply] at hx; split at hx <;> simp at hx
  | gc i => simp [apply] at hx

theorem runAll_inv (cfg : Cfg) (env : Env D E) (hg : Good cfg) (evs : List Ev) (s : State D) (hi : Inv env s) :
    Inv env (runAll cfg env s evs).1 := by
  induction evs generalizing s with
  | nil => exact hi
  | cons e es ih => simp only [runAll]; exact ih _ (apply_inv cfg env hg s e hi)

theorem runAll_append (cfg : Cfg) (env : Env D E) (xs ys : List Ev) (s : State D) :
    runAll cfg env s (xs ++ ys) =
      ((runAll cfg env (runAll cfg env s xs).1 ys).1, (runAll cfg env s xs).2 ++ (runAll cfg env (runAll cfg env s xs).1 ys).2) := by
  induction xs generalizing s with
  | nil => simp [runAll]
  | cons e es ih => simp [runAll, ih, List.append_assoc]

/-- every answer in an arbitrary interleaving is the Spec's answer to the request of the `run` event that produced
it, with the APQ lookup taken in the state the preceding events led to -/
theorem runAll_outputs (cfg : Cfg) (env : Env D E) (hg : Good cfg) (evs : List Ev) (s : State D) (hi : Inv env s)
    (x : Nat × Outcome D E) (hx : x ∈ (runAll cfg env s evs).2) :
    ∃ pre id r a q post, evs = pre ++ Ev.run id r a q :: post ∧
      x = (id, spec cfg env (cacheGet (runAll cfg env s pre).1.caches.apq a) r) := by
  induction evs generalizing s with
  | nil => simp [runAll] at hx
  | cons e es ih =>
    simp only [runAll, List.mem_append, Option.mem_toList] at hx
    rcases hx with hx | hx
    · obtain ⟨id, r, a, q, he⟩ := apply_answer cfg env s e x hx
      subst he
      exact ⟨[], id, r, a, q, es, rfl, apply_run_spec cfg env s hi id r a q x hx⟩
    · obtain ⟨pre, id, r, a, q, post, he, hxe⟩ := ih _ (apply_inv cfg env hg s e hi) hx
      refine ⟨e :: pre, id, r, a, q, post, by simp [he], ?_⟩
      simpa [runAll] using hxe

theorem findHeld_single (h : Held) : findHeld [h] h.id = some h := by
  simp [findHeld]

/-- one request served alone from a state in which no POST is in flight: exactly one answer, the Spec's; again no
request is in flight afterwards -/
theorem serveOne_spec (cfg : Cfg) (env : Env D E) (s : State D) (hi : Inv env s) (hh : s.held = [])
    (n : Nat) (r : Req) (ch : Choice) :
    (runAll cfg env s (eventsOf n r ch)).2 = [(n, spec cfg env (cacheGet s.caches.apq ch.apqHit) r)] ∧
    (runAll cfg env s (eventsOf n r ch)).1.held = [] := by
  cases r with
  | post hdrs body =>
    have g := getStruct_inv s.pool ch.pool hi.pool
    simp only [eventsOf, runAll, apply, hh, findHeld, List.find?_nil, setHeld, List.filter_nil]
    simp only [List.find?_cons, beq_self_eq_true, g.1]
    have sp := runPost_spec cfg env s.caches ch.apqHit ch.qcHit hdrs body hi.qc hi.apq
    rw [sp.1]
    cases (runPost cfg env s.caches ch.apqHit ch.qcHit Params.zero hdrs body).2.1 <;> simp [dropHeld]
  | unsupported => simp [eventsOf, runAll, apply, paramsOf, spec, hh]
  | get h b qq o v ee =>
    simp only [eventsOf, runAll, apply]
    unfold spec
    split
    all_goals (rename_i hb; simp only [hb, Option.toList, List.append_nil, hh, and_true])
    rename_i t p
    rw [(execParams_spec env s.caches ch.apqHit ch.qcHit t p hi.qc hi.apq).1]
  | form h f =>
    simp only [eventsOf, runAll, apply]
    unfold spec
    split
    all_goals (rename_i hb; simp only [hb, Option.toList, List.append_nil, hh, and_true])
    rename_i t p
    rw [(execParams_spec env s.caches ch.apqHit ch.qcHit t p hi.qc hi.apq).1]
  | graphql h qq =>
    simp only [eventsOf, runAll, apply]
    unfold spec
    split
    all_goals (rename_i hb; simp only [hb, Option.toList, List.append_nil, hh, and_true])
    rename_i t p
    rw [(execParams_spec env s.caches ch.apqHit ch.qcHit t p hi.qc hi.apq).1]

theorem serveSeq_inv (cfg : Cfg) (env : Env D E) (hg : Good cfg) (hist : List (Req × Choice)) (s : State D) (n : Nat)
    (hi : Inv env s) (hh : s.held = []) :
    Inv env (serveSeq cfg env s n hist).1 ∧ (serveSeq cfg env s n hist).1.held = [] := by
  induction hist generalizing s n with
  | nil => exact ⟨hi, hh⟩
  | cons a rest ih =>
    obtain ⟨r, ch⟩ := a
    simp only [serveSeq]
    exact ih _ _ (runAll_inv cfg env hg _ s hi) (serveOne_spec cfg env s hi hh n r ch).2

/-- the APQ mutator changes nothing but, for a hash-only request, the query text - and then to a registered text -/
theorem apqCore_own (env : Env D E) (look : String → Option String) (p p' : Params) (add : Option (String × String))
    (h : apqCore env look p = .ok (p', add)) :
    p'.opName = p.opName ∧ p'.vars = p.vars ∧ p'.exts = p.exts ∧ p'.hdrs = p.hdrs ∧ p'.readTime = p.readTime ∧
    (p'.query = p.query ∨ (p.query = "" ∧ ∃ hash, look hash = some p'.query)) := by
  unfold apqCore at h
  split at h
  · simp only [Except.ok.injEq, Prod.mk.injEq] at h; rw [← h.1]; simp
  · split at h
    · simp only [Except.ok.injEq, Prod.mk.injEq] at h; rw [← h.1]; simp
    · simp at h
    · simp at h
    · rename_i hash _
      split at h
      · rename_i hq
        split at h
        · simp at h
        · rename_i q hl
          simp only [Except.ok.injEq, Prod.mk.injEq] at h
          rw [← h.1]
          exact ⟨rfl, rfl, rfl, rfl, rfl, Or.inr ⟨hq, hash, hl⟩⟩
      · split at h
        · simp only [Except.ok.injEq, Prod.mk.injEq] at h; rw [← h.1]; simp
        · simp at h


end
end GqlgenVerif.SS
