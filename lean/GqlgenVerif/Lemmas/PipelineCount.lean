import GqlgenVerif.Lemmas.Pipeline
/-! Counting lemmas for C03: how often an event occurs in the nested logs ("each hook exactly once"). -/
namespace GqlgenVerif.Pipeline

/-- the enter / exit events the extensions with hook `k` log at path `p` -/
def enters (k : Kind) (p : Path) (exts : List Ext) : List Ev := (exts.filter (·.has k)).map (fun x => Ev.enter k x.id p)
def exits (k : Kind) (p : Path) (exts : List Ext) : List Ev := (exts.filter (·.has k)).map (fun x => Ev.exit k x.id p)

theorem enters_cons (k : Kind) (p : Path) (x : Ext) (xs : List Ext) :
    enters k p (x :: xs) = if x.has k then Ev.enter k x.id p :: enters k p xs else enters k p xs := by
  unfold enters; rw [List.filter_cons]; split <;> simp

theorem exits_cons (k : Kind) (p : Path) (x : Ext) (xs : List Ext) :
    exits k p (x :: xs) = if x.has k then Ev.exit k x.id p :: exits k p xs else exits k p xs := by
  unfold exits; rw [List.filter_cons]; split <;> simp

theorem count_nest_log (a : Ev) (k : Kind) (p : Path) (exts : List Ext) (inner : List Ev) :
    (nest (logSel k p) exts inner).count a =
      inner.count a + (enters k p exts).count a + (exits k p exts).count a := by
  induction exts with
  | nil => simp [nest, enters, exits]
  | cons x xs ih =>
    rw [enters_cons, exits_cons]
    simp only [nest, logSel]
    by_cases hx : x.has k = true
    · simp only [hx, if_true, List.count_cons, List.count_append, ih, List.count_nil]
      omega
    · simp only [hx]
      exact ih

/-- number of registered extensions with hook `k` whose id is `i` -/
def hooks (k : Kind) (i : Nat) (exts : List Ext) : Nat := ((exts.filter (·.has k)).map (·.id)).count i

theorem count_enters (k k' : Kind) (p p' : Path) (i : Nat) (exts : List Ext) :
    (enters k p exts).count (Ev.enter k' i p') = if k = k' ∧ p = p' then hooks k i exts else 0 := by
  unfold enters hooks
  induction exts.filter (·.has k) with
  | nil => simp
  | cons x xs ih =>
    simp only [List.map_cons, List.count_cons, ih]
    by_cases h : k = k' ∧ p = p'
    · obtain ⟨rfl, rfl⟩ := h
      simp
    · simp only [h, if_false, Nat.zero_add]
      have : ¬ (Ev.enter k x.id p == Ev.enter k' i p') = true := by
        simp only [beq_iff_eq, Ev.enter.injEq, not_and]
        intro hk _ hp; exact h ⟨hk, hp⟩
      simp [this]

theorem count_exits (k k' : Kind) (p p' : Path) (i : Nat) (exts : List Ext) :
    (exits k p exts).count (Ev.exit k' i p') = if k = k' ∧ p = p' then hooks k i exts else 0 := by
  unfold exits hooks
  induction exts.filter (·.has k) with
  | nil => simp
  | cons x xs ih =>
    simp only [List.map_cons, List.count_cons, ih]
    by_cases h : k = k' ∧ p = p'
    · obtain ⟨rfl, rfl⟩ := h
      simp
    · simp only [h, if_false, Nat.zero_add]
      have : ¬ (Ev.exit k x.id p == Ev.exit k' i p') = true := by
        simp only [beq_iff_eq, Ev.exit.injEq, not_and]
        intro hk _ hp; exact h ⟨hk, hp⟩
      simp [this]

theorem count_enters_other (k : Kind) (p : Path) (exts : List Ext) (a : Ev)
    (h : ∀ i, a ≠ Ev.enter k i p) : (enters k p exts).count a = 0 := by
  rw [List.count_eq_zero]
  intro hm
  simp only [enters, List.mem_map] at hm
  obtain ⟨x, _, hx⟩ := hm
  exact h x.id hx.symm

theorem count_exits_other (k : Kind) (p : Path) (exts : List Ext) (a : Ev)
    (h : ∀ i, a ≠ Ev.exit k i p) : (exits k p exts).count a = 0 := by
  rw [List.count_eq_zero]
  intro hm
  simp only [exits, List.mem_map] at hm
  obtain ⟨x, _, hx⟩ := hm
  exact h x.id hx.symm

theorem count_eq_one_of_nodup {l : List Nat} (hnd : l.Nodup) {a : Nat} (h : a ∈ l) : l.count a = 1 := by
  induction l with
  | nil => simp at h
  | cons x xs ih =>
    obtain ⟨hx, hxs⟩ := List.nodup_cons.1 hnd
    rcases List.mem_cons.1 h with rfl | h
    · simp [List.count_cons, List.count_eq_zero.2 hx]
    · have : x ≠ a := fun e => hx (e ▸ h)
      simp [List.count_cons, this, ih hxs h]

/-- with distinct extension ids, a registered extension with hook `k` is counted exactly once -/
theorem hooks_eq_one {k : Kind} {exts : List Ext} (hnd : (exts.map (·.id)).Nodup) {x : Ext}
    (hx : x ∈ exts) (hk : x.has k = true) : hooks k x.id exts = 1 := by
  unfold hooks
  apply count_eq_one_of_nodup
  · exact List.Nodup.sublist (List.Sublist.map _ List.filter_sublist) hnd
  · exact List.mem_map.2 ⟨x, List.mem_filter.2 ⟨hx, by simpa using hk⟩, rfl⟩

/-- an id that belongs to no extension with hook `k` is never logged -/
theorem hooks_eq_zero {k : Kind} {exts : List Ext} {i : Nat}
    (h : ∀ x ∈ exts, x.has k = true → x.id ≠ i) : hooks k i exts = 0 := by
  unfold hooks
  rw [List.count_eq_zero]
  intro hm
  obtain ⟨x, hx, rfl⟩ := List.mem_map.1 hm
  obtain ⟨hx1, hx2⟩ := List.mem_filter.1 hx
  exact h x hx1 (by simpa using hx2) rfl

/-! ### one response -/

/-- the paths of the fields the universal schema resolves for root fields `a, a+1, …` -/
def childPaths (a : Nat) : Nat → Nat → List Path
  | 0, _ => []
  | n + 1, b => [a, b] :: childPaths a n (b + 1)

def fieldPaths : Nat → List Nat → List Path
  | _, [] => []
  | a, n :: ns => ([a] :: childPaths a n 0) ++ fieldPaths (a + 1) ns

def rootPaths : Nat → List Nat → List Path
  | _, [] => []
  | a, _ :: ns => [a] :: rootPaths (a + 1) ns

theorem count_fieldLog_enter (exts : List Ext) (p p' : Path) (i : Nat) :
    (Spec.fieldLog exts p).count (Ev.enter .field i p') = if p = p' then hooks .field i exts else 0 := by
  unfold Spec.fieldLog
  rw [count_nest_log, count_enters, count_exits_other _ _ _ _ (by intro j; simp)]
  simp

theorem count_fieldLog_res (exts : List Ext) (p p' : Path) :
    (Spec.fieldLog exts p).count (Ev.res p') = if p = p' then 1 else 0 := by
  unfold Spec.fieldLog
  rw [count_nest_log, count_enters_other _ _ _ _ (by intro j; simp), count_exits_other _ _ _ _ (by intro j; simp)]
  by_cases h : p = p' <;> simp [h]

theorem count_fieldLog_dir (exts : List Ext) (p p' : Path) :
    (Spec.fieldLog exts p).count (Ev.dir p') = if p = p' then 1 else 0 := by
  unfold Spec.fieldLog
  rw [count_nest_log, count_enters_other _ _ _ _ (by intro j; simp), count_exits_other _ _ _ _ (by intro j; simp)]
  by_cases h : p = p' <;> simp [h]

theorem count_fieldLog_root (exts : List Ext) (p p' : Path) (i : Nat) :
    (Spec.fieldLog exts p).count (Ev.enter .root i p') = 0 := by
  unfold Spec.fieldLog
  rw [count_nest_log, count_enters, count_exits_other _ _ _ _ (by intro j; simp)]
  simp

theorem count_childrenLog_enter (exts : List Ext) (a : Nat) (p' : Path) (i : Nat) : ∀ n b,
    (Spec.childrenLog exts a n b).count (Ev.enter .field i p') =
      hooks .field i exts * (childPaths a n b).count p' := by
  intro n
  induction n with
  | zero => intro b; simp [Spec.childrenLog, childPaths]
  | succ n ih =>
    intro b
    simp only [Spec.childrenLog, childPaths, List.count_append, count_fieldLog_enter, ih, List.count_cons]
    by_cases h : [a, b] = p'
    · simp [h, Nat.mul_add, Nat.add_comm]
    · have : ¬ ([a, b] == p') = true := by simpa using h
      simp [h, this]

theorem count_childrenLog_res (exts : List Ext) (a : Nat) (p' : Path) : ∀ n b,
    (Spec.childrenLog exts a n b).count (Ev.res p') = (childPaths a n b).count p' := by
  intro n
  induction n with
  | zero => intro b; simp [Spec.childrenLog, childPaths]
  | succ n ih =>
    intro b
    simp only [Spec.childrenLog, childPaths, List.count_append, count_fieldLog_res, ih, List.count_cons]
    by_cases h : [a, b] = p'
    · simp [h, Nat.add_comm]
    · have : ¬ ([a, b] == p') = true := by simpa using h
      simp [h, this]

theorem count_childrenLog_root (exts : List Ext) (a : Nat) (p' : Path) (i : Nat) : ∀ n b,
    (Spec.childrenLog exts a n b).count (Ev.enter .root i p') = 0 := by
  intro n
  induction n with
  | zero => intro b; simp [Spec.childrenLog]
  | succ n ih => intro b; simp [Spec.childrenLog, List.count_append, count_fieldLog_root, ih]

/-- field interceptor of extension id `i` at path `p`: once per extension carrying that id and hook,
for every resolved field, never elsewhere -/
theorem count_rootsLog_enter_field (exts : List Ext) (p' : Path) (i : Nat) : ∀ ns a,
    (Spec.rootsLog exts a ns).count (Ev.enter .field i p') =
      hooks .field i exts * (fieldPaths a ns).count p' := by
  intro ns
  induction ns with
  | nil => intro a; simp [Spec.rootsLog, fieldPaths]
  | cons n ns ih =>
    intro a
    simp only [Spec.rootsLog, Spec.rootLog, fieldPaths, List.count_append, ih, count_nest_log,
      count_fieldLog_enter, count_childrenLog_enter, List.count_cons]
    rw [count_enters, count_exits_other _ _ _ _ (by intro j; simp)]
    by_cases h : [a] = p'
    · simp [h, Nat.mul_add, Nat.add_comm, Nat.add_left_comm]
    · have : ¬ ([a] == p') = true := by simpa using h
      simp [h, this, Nat.mul_add]

theorem count_rootsLog_res (exts : List Ext) (p' : Path) : ∀ ns a,
    (Spec.rootsLog exts a ns).count (Ev.res p') = (fieldPaths a ns).count p' := by
  intro ns
  induction ns with
  | nil => intro a; simp [Spec.rootsLog, fieldPaths]
  | cons n ns ih =>
    intro a
    simp only [Spec.rootsLog, Spec.rootLog, fieldPaths, List.count_append, ih, count_nest_log,
      count_fieldLog_res, count_childrenLog_res, List.count_cons]
    rw [count_enters_other _ _ _ _ (by intro j; simp), count_exits_other _ _ _ _ (by intro j; simp)]
    by_cases h : [a] = p'
    · simp [h, Nat.add_comm, Nat.add_left_comm]
    · have : ¬ ([a] == p') = true := by simpa using h
      simp [h, this]

theorem count_rootsLog_enter_root (exts : List Ext) (p' : Path) (i : Nat) : ∀ ns a,
    (Spec.rootsLog exts a ns).count (Ev.enter .root i p') =
      hooks .root i exts * (rootPaths a ns).count p' := by
  intro ns
  induction ns with
  | nil => intro a; simp [Spec.rootsLog, rootPaths]
  | cons n ns ih =>
    intro a
    simp only [Spec.rootsLog, Spec.rootLog, rootPaths, List.count_append, ih, count_nest_log,
      count_fieldLog_root, count_childrenLog_root, List.count_cons]
    rw [count_enters, count_exits_other _ _ _ _ (by intro j; simp)]
    by_cases h : [a] = p'
    · simp [h, Nat.mul_add, Nat.add_comm]
    · have : ¬ ([a] == p') = true := by simpa using h
      simp [h, this]

/-! ### the executed paths are pairwise distinct -/

theorem mem_childPaths {a : Nat} {p : Path} : ∀ {n b}, p ∈ childPaths a n b → ∃ c, b ≤ c ∧ p = [a, c] := by
  intro n
  induction n with
  | zero => intro b h; simp [childPaths] at h
  | succ n ih =>
    intro b h
    simp only [childPaths, List.mem_cons] at h
    rcases h with h | h
    · exact ⟨b, Nat.le_refl _, h⟩
    · obtain ⟨c, hc, rfl⟩ := ih h
      exact ⟨c, by omega, rfl⟩

theorem childPaths_nodup (a : Nat) : ∀ n b, (childPaths a n b).Nodup := by
  intro n
  induction n with
  | zero => intro b; simp [childPaths]
  | succ n ih =>
    intro b
    simp only [childPaths, List.nodup_cons]
    refine ⟨?_, ih _⟩
    intro h
    obtain ⟨c, hc, he⟩ := mem_childPaths h
    simp at he; omega

theorem mem_fieldPaths {p : Path} : ∀ {ns a}, p ∈ fieldPaths a ns → ∃ c, a ≤ c ∧ p.head? = some c := by
  intro ns
  induction ns with
  | nil => intro a h; simp [fieldPaths] at h
  | cons n ns ih =>
    intro a h
    simp only [fieldPaths, List.cons_append, List.mem_cons, List.mem_append] at h
    rcases h with h | h | h
    · exact ⟨a, Nat.le_refl _, by simp [h]⟩
    · obtain ⟨c, _, rfl⟩ := mem_childPaths h
      exact ⟨a, Nat.le_refl _, rfl⟩
    · obtain ⟨c, hc, he⟩ := ih h
      exact ⟨c, by omega, he⟩

theorem fieldPaths_nodup : ∀ ns a, (fieldPaths a ns).Nodup := by
  intro ns
  induction ns with
  | nil => intro a; simp [fieldPaths]
  | cons n ns ih =>
    intro a
    simp only [fieldPaths]
    rw [List.nodup_append]
    refine ⟨?_, ih _, ?_⟩
    · simp only [List.nodup_cons]
      refine ⟨?_, childPaths_nodup a n 0⟩
      intro h
      obtain ⟨c, _, he⟩ := mem_childPaths h
      simp at he
    · intro p hp q hq hpq
      subst hpq
      obtain ⟨c, hc, he⟩ := mem_fieldPaths hq
      simp only [List.mem_cons] at hp
      rcases hp with rfl | hp
      · simp at he; omega
      · obtain ⟨c', _, rfl⟩ := mem_childPaths hp
        simp at he; omega

theorem mem_rootPaths {p : Path} : ∀ {ns a}, p ∈ rootPaths a ns → ∃ c, a ≤ c ∧ p = [c] := by
  intro ns
  induction ns with
  | nil => intro a h; simp [rootPaths] at h
  | cons n ns ih =>
    intro a h
    simp only [rootPaths, List.mem_cons] at h
    rcases h with h | h
    · exact ⟨a, Nat.le_refl _, h⟩
    · obtain ⟨c, hc, he⟩ := ih h
      exact ⟨c, by omega, he⟩

theorem rootPaths_nodup : ∀ ns a, (rootPaths a ns).Nodup := by
  intro ns
  induction ns with
  | nil => intro a; simp [rootPaths]
  | cons n ns ih =>
    intro a
    simp only [rootPaths, List.nodup_cons]
    refine ⟨?_, ih _⟩
    intro h
    obtain ⟨c, hc, he⟩ := mem_rootPaths h
    simp at he; omega

theorem count_path_eq_one {l : List Path} (hnd : l.Nodup) {p : Path} (h : p ∈ l) : l.count p = 1 := by
  induction l with
  | nil => simp at h
  | cons x xs ih =>
    obtain ⟨hx, hxs⟩ := List.nodup_cons.1 hnd
    rcases List.mem_cons.1 h with rfl | h
    · simp [List.count_cons, List.count_eq_zero.2 hx]
    · have : x ≠ p := fun e => hx (e ▸ h)
      simp [List.count_cons, this, ih hxs h]

/-! ### the operation level -/

theorem nest_op_noblock (exts : List Ext) (base : OpH) :
    nest (opSel []) exts base = (nest (logSel .op []) exts base.1, base.2) := by
  induction exts with
  | nil => rfl
  | cons x xs ih =>
    simp only [nest, opSel, logSel, Ext.has]
    by_cases hx : x.op = true
    · simp [hx, ih]
    · simp [hx, ih]

/-- everything after `DispatchOperation` returned: no operation-level event -/
def Ev.isOpLevel : Ev → Bool
  | .enter .op _ _ | .exit .op _ _ | .exec => true
  | _ => false

def NoOpLevel (l : List Ev) : Prop := ∀ e ∈ l, e.isOpLevel = false

theorem NoOpLevel.append {a b : List Ev} (ha : NoOpLevel a) (hb : NoOpLevel b) : NoOpLevel (a ++ b) := by
  intro e he
  rcases List.mem_append.1 he with h | h
  · exact ha e h
  · exact hb e h

theorem NoOpLevel.nest {k : Kind} (hk : k ≠ .op) {p : Path} {exts : List Ext} {inner : List Ev}
    (h : NoOpLevel inner) : NoOpLevel (nest (logSel k p) exts inner) := by
  intro e he
  rcases mem_nest_log he with h' | ⟨x, _, _, h' | h'⟩
  · exact h e h'
  · subst h'; cases k <;> simp_all [Ev.isOpLevel]
  · subst h'; cases k <;> simp_all [Ev.isOpLevel]

theorem Spec.rootsLog_noOp (exts : List Ext) : ∀ ns a, NoOpLevel (Spec.rootsLog exts a ns) := by
  have hf : ∀ p, NoOpLevel (Spec.fieldLog exts p) := by
    intro p
    apply NoOpLevel.nest (by simp)
    intro e he; simp at he; rcases he with he | he <;> subst he <;> rfl
  have hch : ∀ a n b, NoOpLevel (Spec.childrenLog exts a n b) := by
    intro a n
    induction n with
    | zero => intro b e he; simp [Spec.childrenLog] at he
    | succ n ih => intro b; exact (hf _).append (ih _)
  intro ns
  induction ns with
  | nil => intro a e he; simp [Spec.rootsLog] at he
  | cons n ns ih =>
    intro a
    exact NoOpLevel.append (NoOpLevel.nest (by simp) ((hf _).append (hch _ _ _))) (ih _)

theorem Spec.pollLoop_noOp (exts : List Ext) (op : OpDef) (r : Req) :
    ∀ n j, NoOpLevel (Spec.pollLoop exts op r n j).1 := by
  intro n
  induction n with
  | zero => intro j e he; simp [Spec.pollLoop] at he
  | succ n ih =>
    intro j
    simp only [Spec.pollLoop]
    split
    · exact (NoOpLevel.nest (by simp) (Spec.rootsLog_noOp exts _ _)).append (ih _)
    · exact NoOpLevel.nest (by simp) (by intro e he; simp at he)

theorem count_zero_of_noOp {l : List Ev} (h : NoOpLevel l) {a : Ev} (ha : a.isOpLevel = true) : l.count a = 0 := by
  rw [List.count_eq_zero]
  intro hm
  have := h a hm
  rw [ha] at this; cases this

/-! ### one segment per call of the response handler -/

def Spec.pollSegments (exts : List Ext) (op : OpDef) (r : Req) : Nat → Nat → List (List Ev)
  | 0, _ => []
  | n + 1, j =>
    if j < avail op r then
      Spec.respLog exts (Spec.rootsLog exts 0 op.roots) :: Spec.pollSegments exts op r n (j + 1)
    else [Spec.respLog exts []]

theorem Spec.pollLoop_flatten (exts : List Ext) (op : OpDef) (r : Req) : ∀ n j,
    (Spec.pollLoop exts op r n j).1 = (Spec.pollSegments exts op r n j).flatten ∧
    (Spec.pollLoop exts op r n j).2.length = (Spec.pollSegments exts op r n j).length := by
  intro n
  induction n with
  | zero => intro j; simp [Spec.pollLoop, Spec.pollSegments]
  | succ n ih =>
    intro j
    simp only [Spec.pollLoop, Spec.pollSegments]
    split
    · simp [(ih (j + 1)).1, (ih (j + 1)).2]
    · simp

theorem Spec.mem_pollSegments {exts : List Ext} {op : OpDef} {r : Req} {seg : List Ev} : ∀ {n j},
    seg ∈ Spec.pollSegments exts op r n j →
      seg = Spec.respLog exts (Spec.rootsLog exts 0 op.roots) ∨ seg = Spec.respLog exts [] := by
  intro n
  induction n with
  | zero => intro j h; simp [Spec.pollSegments] at h
  | succ n ih =>
    intro j h
    simp only [Spec.pollSegments] at h
    split at h
    · rcases List.mem_cons.1 h with h | h
      · exact Or.inl h
      · exact ih h
    · simp at h; exact Or.inr h

/-- a response interceptor sees every call of the handler exactly once -/
theorem count_respLog_enter (exts : List Ext) (ns : List Nat) (i : Nat) :
    (Spec.respLog exts (Spec.rootsLog exts 0 ns)).count (Ev.enter .resp i []) = hooks .resp i exts ∧
    (Spec.respLog exts []).count (Ev.enter .resp i []) = hooks .resp i exts ∧
    (Spec.respLog exts (Spec.rootsLog exts 0 ns)).count (Ev.exit .resp i []) = hooks .resp i exts ∧
    (Spec.respLog exts []).count (Ev.exit .resp i []) = hooks .resp i exts := by
  have hz : ∀ a : Ev, (a = .enter .resp i [] ∨ a = .exit .resp i []) → (Spec.rootsLog exts 0 ns).count a = 0 := by
    intro a ha
    rw [List.count_eq_zero]
    intro hm
    -- events of a response body are root / field interceptor, directive and resolver events
    have : ∀ ns a0 e, e ∈ Spec.rootsLog exts a0 ns → (∀ j, e ≠ .enter .resp j []) ∧ (∀ j, e ≠ .exit .resp j []) := by
      have hf : ∀ p e, e ∈ Spec.fieldLog exts p → (∀ j, e ≠ .enter .resp j []) ∧ (∀ j, e ≠ .exit .resp j []) := by
        intro p e he
        rcases mem_nest_log he with h | ⟨x, _, _, h | h⟩
        · simp at h; rcases h with h | h <;> subst h <;> simp
        · subst h; simp
        · subst h; simp
      have hc : ∀ a0 n b e, e ∈ Spec.childrenLog exts a0 n b → (∀ j, e ≠ .enter .resp j []) ∧ (∀ j, e ≠ .exit .resp j []) := by
        intro a0 n
        induction n with
        | zero => intro b e he; simp [Spec.childrenLog] at he
        | succ n ih =>
          intro b e he
          simp only [Spec.childrenLog, List.mem_append] at he
          rcases he with he | he
          · exact hf _ e he
          · exact ih _ e he
      intro ns
      induction ns with
      | nil => intro a0 e he; simp [Spec.rootsLog] at he
      | cons n ns ih =>
        intro a0 e he
        simp only [Spec.rootsLog, Spec.rootLog, List.mem_append] at he
        rcases he with he | he
        · rcases mem_nest_log he with h | ⟨x, _, _, h | h⟩
          · rcases List.mem_append.1 h with h | h
            · exact hf _ e h
            · exact hc _ _ _ e h
          · subst h; simp
          · subst h; simp
        · exact ih _ e he
    obtain ⟨h1, h2⟩ := this ns 0 a hm
    rcases ha with rfl | rfl
    · exact h1 i rfl
    · exact h2 i rfl
  unfold Spec.respLog
  refine ⟨?_, ?_, ?_, ?_⟩
  · rw [count_nest_log, hz _ (Or.inl rfl), count_enters, count_exits_other _ _ _ _ (by intro j; simp)]; simp
  · rw [count_nest_log, count_enters, count_exits_other _ _ _ _ (by intro j; simp)]; simp
  · rw [count_nest_log, hz _ (Or.inr rfl), count_exits, count_enters_other _ _ _ _ (by intro j; simp)]; simp
  · rw [count_nest_log, count_exits, count_enters_other _ _ _ _ (by intro j; simp)]; simp

/-- the response chain adds no field-level event -/
theorem count_respLog_inner (exts : List Ext) (inner : List Ev) (a : Ev)
    (h1 : ∀ j, a ≠ .enter .resp j []) (h2 : ∀ j, a ≠ .exit .resp j []) :
    (Spec.respLog exts inner).count a = inner.count a := by
  unfold Spec.respLog
  rw [count_nest_log, count_enters_other _ _ _ _ h1, count_exits_other _ _ _ _ h2]; simp

end GqlgenVerif.Pipeline
