import GqlgenVerif.Model.RespHeaders
/-!
Helper lemmas for Part C of `Props/C07.lean`: soundness of the alias analysis `RH.pureFrom` for the heap
semantics `RH.exec` - a pure body returns, and leaves every map object that existed before the call untouched.
-/
namespace GqlgenVerif.RH

theorem lookupVar_cons (x y : String) (r : Ref) (env : Env) :
    lookupVar ((x, r) :: env) y = if y == x then r else lookupVar env y := by
  unfold lookupVar
  rw [List.lookup_cons]
  cases h : (y == x) <;> simp

/-- every variable the analysis calls fresh holds an address at or above `n0` -/
def FreshInv (n0 : Nat) (env : Env) (fresh : List String) : Prop :=
  ∀ x, x ∈ fresh → ∃ a, lookupVar env x = some a ∧ n0 ≤ a

theorem exec_pure : ∀ (prog : List HStmt) (fresh : List String) (env : Env) (h : Heap) (n0 : Nat),
    pureFrom prog fresh = true → FreshInv n0 env fresh → n0 ≤ h.length →
    ∃ r h', exec prog env h = .ret r h' ∧ h'.take n0 = h.take n0 := by
  intro prog
  induction prog with
  | nil => intro fresh env h n0 hp; simp [pureFrom] at hp
  | cons st rest ih =>
    intro fresh env h n0 hp hinv hn
    cases st with
    | mk x =>
      simp only [pureFrom] at hp
      have hinv' : FreshInv n0 ((x, some h.length) :: env) (x :: fresh) := by
        intro y hy
        rw [lookupVar_cons]
        by_cases hyx : (y == x) = true
        · simp only [hyx, if_true]; exact ⟨h.length, rfl, hn⟩
        · simp only [hyx]
          have : y ≠ x := by intro e; apply hyx; simp [e]
          have hy' : y ∈ fresh := by
            cases hy with
            | head => exact absurd rfl this
            | tail _ h' => exact h'
          exact hinv y hy'
      have hn' : n0 ≤ (h ++ [([] : HMap)]).length := by simp; omega
      obtain ⟨r, h', he, ht⟩ := ih (x :: fresh) _ (h ++ [[]]) n0 hp hinv' hn'
      refine ⟨r, h', ?_, ?_⟩
      · simp only [exec]; exact he
      · rw [ht, List.take_append_of_le_length hn]
    | «alias» x y =>
      simp only [pureFrom] at hp
      have hinv' : FreshInv n0 ((x, lookupVar env y) :: env)
          (if fresh.contains y then x :: fresh else fresh.filter (fun z => z != x)) := by
        intro z hz
        rw [lookupVar_cons]
        by_cases hc : fresh.contains y = true
        · simp only [hc, if_true] at hz
          by_cases hzx : (z == x) = true
          · simp only [hzx, if_true]
            exact hinv y (by simpa using hc)
          · simp only [hzx]
            have : z ≠ x := by intro e; apply hzx; simp [e]
            have hz' : z ∈ fresh := by
              cases hz with
              | head => exact absurd rfl this
              | tail _ h' => exact h'
            exact hinv z hz'
        · simp only [hc] at hz
          have hz' := List.mem_filter.mp hz
          have hzx : (z == x) = false := by
            have := hz'.2
            simp at this
            simp [this]
          simp only [hzx]
          exact hinv z hz'.1
      obtain ⟨r, h', he, ht⟩ := ih _ _ h n0 hp hinv' hn
      exact ⟨r, h', by simp only [exec]; exact he, ht⟩
    | copy s d om =>
      simp only [pureFrom, Bool.and_eq_true] at hp
      obtain ⟨a, ha, hna⟩ := hinv d (by simpa using hp.1)
      have hn' : n0 ≤ (h.set a (copyInto (readMap h (lookupVar env s)) (h.getD a []) om)).length := by
        simp; exact hn
      obtain ⟨r, h', he, ht⟩ := ih fresh env _ n0 hp.2 hinv hn'
      refine ⟨r, h', ?_, ?_⟩
      · simp only [exec, ha]; exact he
      · rw [ht, List.take_set_of_le hna]
    | retIfEmpty t r =>
      simp only [pureFrom] at hp
      by_cases hemp : (readMap h (lookupVar env t)).isEmpty = true
      · exact ⟨lookupVar env r, h, by simp only [exec, hemp, if_true], rfl⟩
      · obtain ⟨r', h', he, ht⟩ := ih fresh env h n0 hp hinv hn
        exact ⟨r', h', by simp only [exec, hemp]; exact he, ht⟩
    | ret r =>
      exact ⟨lookupVar env r, h, by simp only [exec], rfl⟩

/-- a request through a transport whose `mergeHeaders` is pure is answered, and leaves the heap as it was -/
theorem serve_pure (prog : List HStmt) (params : List String) (neg : HMap → String → String)
    (hp : pureFrom prog [] = true) (h : Heap) (cfg : Ref) (accept : String) :
    (serve prog params neg h cfg accept).2 = h ∧ (serve prog params neg h cfg accept).1.isSome = true := by
  have hinv : FreshInv h.length [(params.getD 0 "", some h.length), (params.getD 1 "", cfg)] [] := by
    intro x hx; cases hx
  have hn : h.length ≤ (h ++ [[("Content-Type", [neg (readMap h cfg) accept])]]).length := by simp
  obtain ⟨r, h', he, ht⟩ := exec_pure prog [] _ _ h.length hp hinv hn
  unfold serve
  simp only [he]
  refine ⟨?_, rfl⟩
  rw [ht]
  simp

theorem serveAll_pure (prog : List HStmt) (params : List String) (neg : HMap → String → String)
    (hp : pureFrom prog [] = true) (h : Heap) (reqs : List (Ref × String)) :
    serveAll prog params neg h reqs = reqs.map (fun r => (serve prog params neg h r.1 r.2).1) := by
  induction reqs with
  | nil => rfl
  | cons r rest ih =>
    obtain ⟨cfg, accept⟩ := r
    simp only [serveAll, List.map_cons]
    have := (serve_pure prog params neg hp h cfg accept).1
    rw [this, ih]

end GqlgenVerif.RH
