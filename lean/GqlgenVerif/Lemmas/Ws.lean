import GqlgenVerif.Model.Ws
import GqlgenVerif.Model.WsSpec
/-!
# Lemmas for C11: invariants of the websocket transition system

Layered inductive invariants of `Ws.Reachable` (each layer may use the previous ones):
`Basic` (control state, todo shapes, close bookkeeping) → `Registry` (the `active` map and the operation
instances) → `Cancel` → `Phases` (the per-id protocol monitor is simulated by the model state) → history
orderings.  `Props/C11.lean` states the property theorems on top of these.
-/
namespace GqlgenVerif.Ws
open GqlgenVerif.Gen.WsTables GqlgenVerif.Sched

/-! ## facts about the regenerated message-type tables -/

theorem data_is_frame (p : Proto) : ∃ w, p.fromMessage .data = some (some w) := by
  cases p <;> simp [Proto.fromMessage, gqlwsFromMessage, twsFromMessage]
theorem error_is_frame (p : Proto) : ∃ w, p.fromMessage .error = some (some w) := by
  cases p <;> simp [Proto.fromMessage, gqlwsFromMessage, twsFromMessage]
theorem complete_is_frame (p : Proto) : ∃ w, p.fromMessage .complete = some (some w) := by
  cases p <;> simp [Proto.fromMessage, gqlwsFromMessage, twsFromMessage]
theorem ack_is_frame (p : Proto) : ∃ w, p.fromMessage .connectionAck = some (some w) := by
  cases p <;> simp [Proto.fromMessage, gqlwsFromMessage, twsFromMessage]

/-! ## the primitives as record updates -/

/-- the events `wsConnection.write` appends -/
def wr (cfg : Cfg) (t : MT) (id info : String) (closed : Bool) : List Ev :=
  match cfg.proto.fromMessage t with
  | some (some w) => if closed then [] else [.frame t w id info]
  | _ => []

theorem emit_eq (e : Ev) (s : State) :
    emit e s = { s with trace := s.trace ++ (if s.closed then [] else [e]) } := by
  cases s; unfold emit; split <;> simp_all

theorem write_eq (cfg : Cfg) (t : MT) (id info : String) (s : State) :
    write cfg t id info s = { s with trace := s.trace ++ wr cfg t id info s.closed } := by
  cases s; unfold write wr; split <;> simp_all [emit_eq]

theorem note_eq (e : Ev) (s : State) : note e s = { s with trace := s.trace ++ [e] } := rfl

theorem wr_closed (cfg : Cfg) (t : MT) (id info : String) : wr cfg t id info true = [] := by
  unfold wr; split <;> simp

theorem wr_mem {cfg : Cfg} {t : MT} {id info : String} {c : Bool} {e : Ev} (h : e ∈ wr cfg t id info c) :
    c = false ∧ ∃ w, cfg.proto.fromMessage t = some (some w) ∧ e = .frame t w id info := by
  unfold wr at h; split at h
  · split at h <;> simp_all
  · simp at h


/-! ## Layer 1: control state -/

/-- the lists of critical sections `runHandle` produces, and their suffixes -/
inductive TodoShape : List Sec → Prop
  | nil : TodoShape []
  | fin : TodoShape [.finish]
  | close (c : Nat) : TodoShape [.close c, .finish]
  | errClose (c : Nat) : TodoShape [.send .connectionError, .close c, .finish]
  | pong : TodoShape [.send .pong]
  | stop (id : String) : TodoShape [.stop id]
  | reg (id : String) (tag : Nat) : TodoShape [.register id tag]
  | e0 (id : String) : TodoShape [.opErr id, .opComplete id true]
  | e1 (id : String) : TodoShape [.opComplete id true]
  | d0 (id : String) : TodoShape [.opData id, .opComplete id false]
  | d1 (id : String) : TodoShape [.opComplete id false]

structure Basic (s : State) : Prop where
  shape : TodoShape s.todo
  uninit : s.initialised = false →
    s.rpc ≠ .running ∧ s.todo = [] ∧ s.ops = [] ∧ s.active = [] ∧ s.runCancelled = false ∧ s.wpc = .idle
  await_open : s.rpc = .awaitInit → s.closed = false ∧ s.initialised = false
  done_uninit_closed : s.rpc = .done → s.initialised = false → s.closed = true
  done_todo : s.rpc = .done → s.todo = []
  run_done : s.runCancelled = true → s.rpc = .done
  count : s.closeCount = if s.closed then 1 else 0
  wdone : s.wpc = .done → s.closed = true
  closed_reader : s.closed = true → s.connCancelled = false → s.rpc = .done ∨ s.todo = [.finish]

theorem basic_initial : Basic State.initial := by
  constructor <;> simp [State.initial, TodoShape.nil]

theorem doClose_eq (code : Nat) (s : State) : doClose code s =
    if s.closed then s else
      { s with trace := s.trace ++ [.closeFrame code, .closeFunc code], ops := cancelActive s,
               closed := true, closeCount := s.closeCount + 1 } := rfl

theorem basic_initHandle {cfg : Cfg} {m : ClientMsg} {s : State} (hb : Basic s) (hr : s.rpc = .awaitInit) :
    Basic (initHandle cfg m s) := by
  obtain ⟨shape, uninit, await_open, dup, done_todo, run_done, count, wdone, cr⟩ := hb
  have ⟨hc, hi⟩ := await_open hr
  have ⟨_, h2, h3, h4, h5, h6⟩ := uninit hi
  unfold initHandle
  simp only [write_eq, note_eq, doClose_eq]
  repeat' split
  all_goals (constructor <;> simp_all [TodoShape.nil, cancelActive])

theorem basic_runHandle {cfg : Cfg} {m : ClientMsg} {s : State} (hb : Basic s) (hr : s.rpc = .running)
    (ht : s.todo = []) : Basic (runHandle cfg m s) := by
  obtain ⟨shape, uninit, await_open, dup, done_todo, run_done, count, wdone, cr⟩ := hb
  unfold runHandle
  simp only [emit_eq]
  repeat' split
  all_goals (constructor <;> simp_all [TodoShape.nil, TodoShape.fin, TodoShape.close, TodoShape.errClose,
    TodoShape.pong, TodoShape.stop, TodoShape.reg, TodoShape.e0, TodoShape.d0])

theorem basic_runSec {cfg : Cfg} {x : Sec} {rest : List Sec} {s : State} (hb : Basic s)
    (ht : s.todo = x :: rest) : Basic (runSec cfg x { s with todo := rest }) := by
  obtain ⟨shape, uninit, await_open, dup, done_todo, run_done, count, wdone, cr⟩ := hb
  rw [ht] at shape
  cases shape <;> simp only [runSec, write_eq, note_eq, doClose_eq]
  all_goals (repeat' split)
  all_goals (constructor <;> simp_all [TodoShape.nil, TodoShape.fin, TodoShape.close, TodoShape.e1, TodoShape.d1])

theorem foldl_write_eq (cfg : Cfg) (id : String) (fs : List (MT × String)) (s : State) :
    fs.foldl (fun s f => write cfg f.1 id f.2 s) s =
      { s with trace := s.trace ++ fs.flatMap (fun f => wr cfg f.1 id f.2 s.closed) } := by
  induction fs generalizing s with
  | nil => cases s; simp
  | cons f rest ih =>
    simp only [List.foldl_cons]; rw [ih]; cases s; simp [write_eq]

theorem opFinish_eq (cfg : Cfg) (o : Op) (k : FinKind) (s : State) :
    opFinish cfg o k s =
      { s with trace := s.trace ++ (terminal o k).flatMap (fun f => wr cfg f.1 o.id f.2 s.closed),
               active := s.active.filter (fun e => e.1 != o.id),
               ops := s.ops.map fun p =>
                 if p.inst = o.inst then { p with done := true, cancelled := true, cmd := none } else p } := by
  unfold opFinish; simp only [foldl_write_eq]

theorem findOp_some {s : State} {k : Nat} {o : Op} (h : findOp s k = some o) : o ∈ s.ops ∧ o.inst = k := by
  unfold findOp at h
  exact ⟨List.mem_of_find?_eq_some h, by simpa using List.find?_some h⟩

theorem basic_step {cfg : Cfg} {a : Action} {s s' : State} (hb : Basic s) (h : fire cfg a s = some s') :
    Basic s' := by
  cases a <;> simp only [fire] at h
  case clientSend m =>
    obtain ⟨shape, uninit, await_open, dup, done_todo, run_done, count, wdone, cr⟩ := hb
    cases h; constructor <;> simp_all
  case serverCancel =>
    obtain ⟨shape, uninit, await_open, dup, done_todo, run_done, count, wdone, cr⟩ := hb
    cases h; constructor <;> simp_all
  case deliver k c =>
    split at h
    · rename_i o ho
      have ⟨hm, _⟩ := findOp_some ho
      obtain ⟨shape, uninit, await_open, dup, done_todo, run_done, count, wdone, cr⟩ := hb
      split at h
      · cases h; constructor <;> simp_all [updOp]
      · cases h
    · cases h
  case recv =>
    split at h
    · rename_i m rest ht hi
      split at h
      · cases h; exact basic_initHandle (s := { s with inbox := rest }) ⟨hb.1, hb.2, hb.3, hb.4, hb.5, hb.6, hb.7, hb.8, hb.9⟩ (by assumption)
      · cases h; exact basic_runHandle (s := { s with inbox := rest }) ⟨hb.1, hb.2, hb.3, hb.4, hb.5, hb.6, hb.7, hb.8, hb.9⟩ (by assumption) ht
      · cases h
    · cases h
  case sec =>
    split at h
    · rename_i x rest ht
      cases h; exact basic_runSec hb ht
    · cases h
  case initTimeout =>
    obtain ⟨shape, uninit, await_open, dup, done_todo, run_done, count, wdone, cr⟩ := hb
    split at h
    · rename_i hc
      cases h
      simp only [Bool.and_eq_true, beq_iff_eq] at hc
      have ⟨hc1, hi⟩ := await_open hc.2
      have ⟨_, h2, h3, h4, h5, h6⟩ := uninit hi
      simp only [doClose_eq]
      split <;> (constructor <;> simp_all [TodoShape.nil, cancelActive])
    · cases h
  case readErr =>
    obtain ⟨shape, uninit, await_open, dup, done_todo, run_done, count, wdone, cr⟩ := hb
    split at h
    · rename_i hc
      cases h
      simp only [Bool.and_eq_true, beq_iff_eq, List.isEmpty_iff] at hc
      constructor <;> simp_all [TodoShape.nil]
    · cases h
  case opStep k =>
    split at h
    · rename_i o ho
      have ⟨hm, _⟩ := findOp_some ho
      obtain ⟨shape, uninit, await_open, dup, done_todo, run_done, count, wdone, cr⟩ := hb
      have hinit : s.initialised = true := by
        cases hi : s.initialised
        · have := (uninit hi).2.2.1; simp_all
        · rfl
      split at h
      · cases h
      · split at h
        · cases h
        · cases h; simp only [updOp, write_eq]; constructor <;> simp_all
        · cases h; simp only [updOp]; constructor <;> simp_all
        · cases h; simp only [opFinish_eq]; constructor <;> simp_all
    · cases h
  case opCancel k =>
    split at h
    · rename_i o ho
      have ⟨hm, _⟩ := findOp_some ho
      obtain ⟨shape, uninit, await_open, dup, done_todo, run_done, count, wdone, cr⟩ := hb
      have hinit : s.initialised = true := by
        cases hi : s.initialised
        · have := (uninit hi).2.2.1; simp_all
        · rfl
      split at h
      · cases h; simp only [opFinish_eq]; constructor <;> simp_all
      · cases h
    · cases h
  case tick t =>
    obtain ⟨shape, uninit, await_open, dup, done_todo, run_done, count, wdone, cr⟩ := hb
    split at h
    · cases h; simp only [write_eq]; constructor <;> simp_all
    · cases h
  case watch =>
    obtain ⟨shape, uninit, await_open, dup, done_todo, run_done, count, wdone, cr⟩ := hb
    split at h
    · rename_i hc
      simp only [Bool.and_eq_true, Bool.or_eq_true] at hc
      split at h
      · split at h
        · cases h; simp only [write_eq]; constructor <;> simp_all
        · cases h; simp only [doClose_eq]; split <;> (constructor <;> simp_all)
          intro hcc; left; rcases hc.2 with h1 | h1 <;> simp_all
      · cases h; simp only [doClose_eq]; split <;> (constructor <;> simp_all)
        intro hcc; left; rcases hc.2 with h1 | h1 <;> simp_all
      · cases h
    · cases h

/-! ## Layer 2: the `active` map and the operation instances -/

/-- the operation id the reader is in the middle of handling, with the monitor phase its next section expects -/
def focus : List Sec → Option (String × Ph)
  | .register id _ :: _ => some (id, .live)
  | .opErr id :: _ => some (id, .live)
  | .opData id :: _ => some (id, .live)
  | .opComplete id true :: _ => some (id, .errd)
  | .opComplete id false :: _ => some (id, .live)
  | _ => none

structure Registry (s : State) : Prop where
  inst_lt : ∀ o ∈ s.ops, o.inst < s.nextInst
  inst_inj : ∀ o ∈ s.ops, ∀ o' ∈ s.ops, o.inst = o'.inst → o = o'
  live_active : ∀ o ∈ s.ops, o.done = false → (o.id, o.inst) ∈ s.active
  active_live : ∀ e ∈ s.active, ∃ o ∈ s.ops, o.done = false ∧ o.id = e.1 ∧ o.inst = e.2
  active_fun : ∀ e ∈ s.active, ∀ e' ∈ s.active, e.1 = e'.1 → e = e'
  focus_free : ∀ id ph, focus s.todo = some (id, ph) → isActive s id = false

theorem registry_initial : Registry State.initial := by
  constructor <;> simp [State.initial, focus]

/-- an update of the operations that keeps id, instance number and liveness (cmd, seq, errs, cancelled) -/
def SameKeys (f : Op → Op) : Prop := ∀ o, (f o).id = o.id ∧ (f o).inst = o.inst ∧ (f o).done = o.done

theorem registry_map {s s' : State} {f : Op → Op} (hr : Registry s) (hf : SameKeys f)
    (hops : s'.ops = s.ops.map f) (hact : s'.active = s.active) (hn : s'.nextInst = s.nextInst)
    (htodo : ∀ id ph, focus s'.todo = some (id, ph) → isActive s id = false) : Registry s' := by
  obtain ⟨inst_lt, inst_inj, live_active, active_live, active_fun, focus_free⟩ := hr
  constructor
  · intro o ho; rw [hops] at ho; obtain ⟨p, hp, rfl⟩ := List.mem_map.1 ho
    rw [hn, (hf p).2.1]; exact inst_lt p hp
  · intro o ho o' ho' heq; rw [hops] at ho ho'
    obtain ⟨p, hp, rfl⟩ := List.mem_map.1 ho
    obtain ⟨p', hp', rfl⟩ := List.mem_map.1 ho'
    rw [(hf p).2.1, (hf p').2.1] at heq
    rw [inst_inj p hp p' hp' heq]
  · intro o ho hd; rw [hops] at ho; obtain ⟨p, hp, rfl⟩ := List.mem_map.1 ho
    rw [hact, (hf p).1, (hf p).2.1]; rw [(hf p).2.2] at hd; exact live_active p hp hd
  · intro e he; rw [hact] at he
    obtain ⟨o, ho, hd, hi, hk⟩ := active_live e he
    refine ⟨f o, ?_, ?_, ?_, ?_⟩
    · rw [hops]; exact List.mem_map_of_mem ho
    · rw [(hf o).2.2]; exact hd
    · rw [(hf o).1]; exact hi
    · rw [(hf o).2.1]; exact hk
  · rw [hact]; exact active_fun
  · intro id ph hfo
    simpa [isActive, hact] using htodo id ph hfo

theorem isActive_false_iff {s : State} {id : String} : isActive s id = false ↔ ∀ e ∈ s.active, e.1 ≠ id := by
  simp [isActive]

theorem registry_register {s s' : State} {id : String} {tag : Nat} (hr : Registry s)
    (hfree : isActive s id = false)
    (hops : s'.ops = s.ops ++ [newOp id tag s.nextInst])
    (hact : s'.active = (id, s.nextInst) :: s.active.filter (fun e => e.1 != id))
    (hn : s'.nextInst = s.nextInst + 1) (htodo : focus s'.todo = none) : Registry s' := by
  obtain ⟨inst_lt, inst_inj, live_active, active_live, active_fun, focus_free⟩ := hr
  have hfree' := isActive_false_iff.1 hfree
  have hfilter : s.active.filter (fun e => e.1 != id) = s.active := by
    apply List.filter_eq_self.2; intro e he; simpa using hfree' e he
  rw [hfilter] at hact
  constructor
  · intro o ho; rw [hops] at ho; rw [hn]
    rcases List.mem_append.1 ho with h | h
    · exact Nat.lt_succ_of_lt (inst_lt o h)
    · simp at h; subst h; simp [newOp]
  · intro o ho o' ho' heq; rw [hops] at ho ho'
    rcases List.mem_append.1 ho with h | h <;> rcases List.mem_append.1 ho' with h' | h'
    · exact inst_inj o h o' h' heq
    · simp at h'; subst h'; have := inst_lt o h; simp [newOp] at heq; omega
    · simp at h; subst h; have := inst_lt o' h'; simp [newOp] at heq; omega
    · simp at h h'; rw [h, h']
  · intro o ho hd; rw [hops] at ho; rw [hact]
    rcases List.mem_append.1 ho with h | h
    · exact List.mem_cons_of_mem _ (live_active o h hd)
    · simp at h; subst h; simp [newOp]
  · intro e he; rw [hact] at he; rw [hops]
    rcases List.mem_cons.1 he with h | h
    · subst h; exact ⟨newOp id tag s.nextInst, by simp, by simp [newOp]⟩
    · obtain ⟨o, ho, hd⟩ := active_live e h
      exact ⟨o, List.mem_append_left _ ho, hd⟩
  · intro e he e' he' heq; rw [hact] at he he'
    rcases List.mem_cons.1 he with h | h <;> rcases List.mem_cons.1 he' with h' | h'
    · rw [h, h']
    · subst h; exact absurd heq.symm (hfree' e' h')
    · subst h'; exact absurd heq (hfree' e h)
    · exact active_fun e h e' h' heq
  · intro id' ph hfo; rw [htodo] at hfo; cases hfo

theorem registry_finish {s s' : State} {o : Op} (hr : Registry s) (ho : o ∈ s.ops) (hlive : o.done = false)
    (hops : s'.ops = s.ops.map fun p =>
      if p.inst = o.inst then { p with done := true, cancelled := true, cmd := none } else p)
    (hact : s'.active = s.active.filter (fun e => e.1 != o.id))
    (hn : s'.nextInst = s.nextInst) (htodo : s'.todo = s.todo) : Registry s' := by
  obtain ⟨inst_lt, inst_inj, live_active, active_live, active_fun, focus_free⟩ := hr
  have hoa := live_active o ho hlive
  constructor
  · intro q hq; rw [hops] at hq; obtain ⟨p, hp, rfl⟩ := List.mem_map.1 hq
    rw [hn]; split <;> exact inst_lt p hp
  · intro q hq q' hq' heq; rw [hops] at hq hq'
    obtain ⟨p, hp, rfl⟩ := List.mem_map.1 hq
    obtain ⟨p', hp', rfl⟩ := List.mem_map.1 hq'
    have : p.inst = p'.inst := by
      split at heq <;> split at heq <;> simp_all
    rw [inst_inj p hp p' hp' this]
  · intro q hq hd; rw [hops] at hq; obtain ⟨p, hp, rfl⟩ := List.mem_map.1 hq
    split at hd
    · simp at hd
    · rename_i hne
      rw [if_neg hne, hact]
      have hpa := live_active p hp hd
      refine List.mem_filter.2 ⟨hpa, ?_⟩
      simp only [bne_iff_ne, ne_eq]
      intro hid
      have := active_fun _ hpa _ hoa hid
      simp at this; exact hne this.2
  · intro e he; rw [hact] at he
    obtain ⟨hea, hne⟩ := List.mem_filter.1 he
    simp only [bne_iff_ne, ne_eq] at hne
    obtain ⟨p, hp, hd, hi, hk⟩ := active_live e hea
    have hpi : p.inst ≠ o.inst := by
      intro h; have := inst_inj p hp o ho h; subst this; exact hne hi.symm
    refine ⟨p, ?_, hd, hi, hk⟩
    rw [hops]; exact List.mem_map.2 ⟨p, hp, by rw [if_neg hpi]⟩
  · intro e he e' he' heq; rw [hact] at he he'
    exact active_fun e (List.mem_filter.1 he).1 e' (List.mem_filter.1 he').1 heq
  · intro id ph hfo; rw [htodo] at hfo
    have := isActive_false_iff.1 (focus_free id ph hfo)
    apply isActive_false_iff.2; intro e he; rw [hact] at he
    exact this e (List.mem_filter.1 he).1

theorem sameKeys_id : SameKeys id := fun _ => ⟨rfl, rfl, rfl⟩

theorem sameKeys_upd (k : Nat) (f : Op → Op) (hf : SameKeys f) :
    SameKeys (fun p => if p.inst = k then f p else p) := by
  intro o; by_cases h : o.inst = k <;> simp [h, hf o]

theorem sameKeys_cancelActive (s : State) :
    SameKeys (fun o => if s.active.any (fun e => e.2 == o.inst) then { o with cancelled := true } else o) := by
  intro o; dsimp only; split <;> simp

/-- the fields `Registry` depends on are unchanged (only trace / inbox / flags moved) -/
theorem registry_same {s s' : State} (hr : Registry s) (hops : s'.ops = s.ops) (hact : s'.active = s.active)
    (hn : s'.nextInst = s.nextInst)
    (htodo : ∀ id ph, focus s'.todo = some (id, ph) → isActive s id = false) : Registry s' :=
  registry_map hr sameKeys_id (by simp [hops]) hact hn htodo

theorem registry_doClose {s : State} {code : Nat} (hr : Registry s) : Registry (doClose code s) := by
  rw [doClose_eq]; split
  · exact hr
  · exact registry_map hr (sameKeys_cancelActive s) rfl rfl rfl hr.focus_free

theorem registry_initHandle {cfg : Cfg} {m : ClientMsg} {s : State} (hr : Registry s) (ht : s.todo = []) :
    Registry (initHandle cfg m s) := by
  have hff : ∀ id ph, focus ([] : List Sec) = some (id, ph) → isActive s id = false := by
    intro id ph h; cases h
  unfold initHandle
  simp only [write_eq, note_eq, doClose_eq]
  repeat' split
  all_goals first
    | exact registry_same hr rfl rfl rfl (by simpa [ht] using hff)
    | exact registry_map hr (sameKeys_cancelActive s) rfl rfl rfl (by simpa [ht] using hff)

theorem registry_runHandle {cfg : Cfg} {m : ClientMsg} {s : State} (hr : Registry s) (ht : s.todo = []) :
    Registry (runHandle cfg m s) := by
  unfold runHandle
  simp only [emit_eq]
  repeat' split
  all_goals
    refine registry_same hr rfl rfl rfl ?_
    intro id' ph h
    simp only [focus, ht, Option.some.injEq, Prod.mk.injEq, reduceCtorEq] at h
  all_goals
    obtain ⟨rfl, _⟩ := h; simpa using ‹¬isActive s _ = true›

theorem registry_runSec {cfg : Cfg} {x : Sec} {rest : List Sec} {s : State} (hb : Basic s) (hr : Registry s)
    (ht : s.todo = x :: rest) : Registry (runSec cfg x { s with todo := rest }) := by
  have shape := hb.shape
  have hff := hr.focus_free
  rw [ht] at shape hff
  cases shape <;> simp only [runSec, write_eq, note_eq]
  case reg id tag =>
    exact registry_register hr (hff id .live rfl) rfl rfl rfl rfl
  case stop id =>
    split
    · exact registry_map hr (sameKeys_upd _ _ (by intro o; exact ⟨rfl, rfl, rfl⟩)) (f := fun p => if p.inst = _ then _ else p) rfl rfl rfl (by intro _ _ h; cases h)
    · exact registry_same hr rfl rfl rfl (by intro _ _ h; cases h)
  case close c =>
    exact registry_doClose (s := { s with todo := [Sec.finish] })
      (registry_same hr rfl rfl rfl (by intro _ _ h; cases h))
  case e0 id =>
    exact registry_same hr rfl rfl rfl (by
      intro id' ph h; simp only [focus, Option.some.injEq, Prod.mk.injEq] at h
      obtain ⟨rfl, _⟩ := h; exact hff _ .live rfl)
  case d0 id =>
    exact registry_same hr rfl rfl rfl (by
      intro id' ph h; simp only [focus, Option.some.injEq, Prod.mk.injEq] at h
      obtain ⟨rfl, _⟩ := h; exact hff _ .live rfl)
  all_goals exact registry_same hr rfl rfl rfl (by intro _ _ h; cases h)

theorem registry_step {cfg : Cfg} {a : Action} {s s' : State} (hb : Basic s) (hr : Registry s)
    (h : fire cfg a s = some s') : Registry s' := by
  cases a <;> simp only [fire] at h
  case clientSend m => cases h; exact registry_same hr rfl rfl rfl hr.focus_free
  case serverCancel => cases h; exact registry_same hr rfl rfl rfl hr.focus_free
  case deliver k c =>
    split at h
    · split at h
      · cases h
        exact registry_map hr (sameKeys_upd _ _ (by intro o; exact ⟨rfl, rfl, rfl⟩)) (f := fun p => if p.inst = _ then _ else p) rfl rfl rfl hr.focus_free
      · cases h
    · cases h
  case recv =>
    split at h
    · rename_i m rest ht hi
      split at h
      · cases h
        exact registry_initHandle (s := { s with inbox := rest })
          (registry_same hr rfl rfl rfl hr.focus_free) ht
      · cases h
        exact registry_runHandle (s := { s with inbox := rest })
          (registry_same hr rfl rfl rfl hr.focus_free) ht
      · cases h
    · cases h
  case sec =>
    split at h
    · rename_i x rest ht
      cases h; exact registry_runSec hb hr ht
    · cases h
  case initTimeout =>
    split at h
    · cases h
      exact registry_same (registry_doClose (code := 1002) hr) rfl rfl rfl (registry_doClose (code := 1002) hr).focus_free
    · cases h
  case readErr =>
    split at h
    · cases h; exact registry_same hr rfl rfl rfl hr.focus_free
    · cases h
  case opStep k =>
    split at h
    · rename_i o ho
      have ⟨hm, _⟩ := findOp_some ho
      split at h
      · cases h
      · rename_i hd
        split at h
        · cases h
        · cases h; simp only [updOp, write_eq]
          exact registry_map hr (sameKeys_upd _ _ (by intro o; exact ⟨rfl, rfl, rfl⟩)) (f := fun p => if p.inst = _ then _ else p) rfl rfl rfl hr.focus_free
        · cases h; simp only [updOp]
          exact registry_map hr (sameKeys_upd _ _ (by intro o; exact ⟨rfl, rfl, rfl⟩)) (f := fun p => if p.inst = _ then _ else p) rfl rfl rfl hr.focus_free
        · cases h; simp only [opFinish_eq]
          exact registry_finish hr hm (by simpa using hd) rfl rfl rfl rfl
    · cases h
  case opCancel k =>
    split at h
    · rename_i o ho
      have ⟨hm, _⟩ := findOp_some ho
      split at h
      · rename_i hc
        cases h; simp only [opFinish_eq]
        simp only [Bool.and_eq_true, Bool.not_eq_true'] at hc
        exact registry_finish hr hm hc.1.1.1 rfl rfl rfl rfl
      · cases h
    · cases h
  case tick t =>
    split at h
    · cases h; simp only [write_eq]; exact registry_same hr rfl rfl rfl hr.focus_free
    · cases h
  case watch =>
    split at h
    · split at h
      · split at h
        · cases h; simp only [write_eq]; exact registry_same hr rfl rfl rfl hr.focus_free
        · cases h
          exact registry_same (registry_doClose (code := 1000) hr) rfl rfl rfl (registry_doClose (code := 1000) hr).focus_free
      · cases h
        exact registry_same (registry_doClose (code := 1000) hr) rfl rfl rfl (registry_doClose (code := 1000) hr).focus_free
      · cases h
    · cases h

/-! ## Layer 3: once the connection is closed every running operation has a cancelled context -/

def CancelInv (s : State) : Prop :=
  s.closed = true → ∀ o ∈ s.ops, o.done = false → o.cancelled = true ∨ s.connCancelled = true

/-- an update that never resurrects an operation and never un-cancels one -/
def Monotone (f : Op → Op) : Prop :=
  ∀ o, (f o).done = false → o.done = false ∧ (o.cancelled = true → (f o).cancelled = true)

theorem cancel_map {s s' : State} {f : Op → Op} (hc : CancelInv s) (hf : Monotone f)
    (hops : s'.ops = s.ops.map f) (hcl : s'.closed = s.closed)
    (hcc : s.connCancelled = true → s'.connCancelled = true) : CancelInv s' := by
  intro hclosed o ho hd
  rw [hops] at ho; obtain ⟨p, hp, rfl⟩ := List.mem_map.1 ho
  have ⟨h1, h2⟩ := hf p hd
  rcases hc (hcl ▸ hclosed) p hp h1 with h | h
  · exact Or.inl (h2 h)
  · exact Or.inr (hcc h)

theorem monotone_id : Monotone id := fun _ h => ⟨h, fun h => h⟩

theorem monotone_upd (k : Nat) (f : Op → Op) (hf : Monotone f) :
    Monotone (fun p => if p.inst = k then f p else p) := by
  intro o; by_cases h : o.inst = k <;> simp only [h, if_true, if_false]
  · exact hf o
  · exact fun h => ⟨h, fun h => h⟩

theorem cancel_same {s s' : State} (hc : CancelInv s) (hops : s'.ops = s.ops) (hcl : s'.closed = s.closed)
    (hcc : s.connCancelled = true → s'.connCancelled = true) : CancelInv s' :=
  cancel_map hc monotone_id (by simp [hops]) hcl hcc

theorem cancel_doClose {s : State} {code : Nat} (hr : Registry s) (hc : CancelInv s) :
    CancelInv (doClose code s) := by
  rw [doClose_eq]; split
  · exact hc
  · intro _ o ho hd
    simp only [cancelActive] at ho
    obtain ⟨p, hp, rfl⟩ := List.mem_map.1 ho
    have hpd : p.done = false := by split at hd <;> simpa using hd
    have hpa := hr.live_active p hp hpd
    have : (s.active.any fun e => e.2 == p.inst) = true :=
      List.any_eq_true.2 ⟨(p.id, p.inst), hpa, by simp⟩
    left; rw [if_pos this]

theorem cancel_uninit {s : State} (h : s.ops = []) : CancelInv s := by
  intro _ o ho; rw [h] at ho; cases ho

theorem initHandle_ops {cfg : Cfg} {m : ClientMsg} {s : State} (h : s.ops = []) : (initHandle cfg m s).ops = [] := by
  unfold initHandle
  simp only [write_eq, note_eq, doClose_eq]
  repeat' split
  all_goals simp_all [cancelActive]

theorem cancel_runHandle {cfg : Cfg} {m : ClientMsg} {s : State} (hc : CancelInv s) :
    CancelInv (runHandle cfg m s) := by
  unfold runHandle
  simp only [emit_eq]
  repeat' split
  all_goals exact cancel_same hc rfl rfl id

theorem cancel_runSec {cfg : Cfg} {x : Sec} {rest : List Sec} {s : State} (hb : Basic s) (hr : Registry s)
    (hc : CancelInv s) (ht : s.todo = x :: rest) : CancelInv (runSec cfg x { s with todo := rest }) := by
  have shape := hb.shape
  rw [ht] at shape
  cases shape <;> simp only [runSec, write_eq, note_eq]
  case reg id tag =>
    intro hclosed o ho hd
    simp only [List.mem_append, List.mem_singleton] at ho
    rcases ho with ho | rfl
    · rcases hc hclosed o ho hd with h | h
      · exact Or.inl h
      · exact Or.inr h
    · right
      cases hcc : s.connCancelled
      · rcases hb.closed_reader hclosed hcc with h | h
        · have := hb.done_todo h; simp [ht] at this
        · simp [ht] at h
      · rfl
  case stop sid =>
    split
    · refine cancel_map hc (monotone_upd _ _ ?_) (f := fun p => if p.inst = _ then _ else p) rfl rfl id
      intro o h; exact ⟨h, fun _ => rfl⟩
    · exact cancel_same hc rfl rfl id
  case close c =>
    exact cancel_doClose (s := { s with todo := [Sec.finish] })
      (registry_same hr rfl rfl rfl (by intro _ _ h; cases h)) (cancel_same hc rfl rfl id)
  all_goals exact cancel_same hc rfl rfl id

theorem monotone_finish (k : Nat) :
    Monotone (fun p => if p.inst = k then { p with done := true, cancelled := true, cmd := none } else p) := by
  intro o; by_cases h : o.inst = k <;> simp [h]

theorem cancel_step {cfg : Cfg} {a : Action} {s s' : State} (hb : Basic s) (hr : Registry s) (hc : CancelInv s)
    (h : fire cfg a s = some s') : CancelInv s' := by
  cases a <;> simp only [fire] at h
  case clientSend m => cases h; exact cancel_same hc rfl rfl id
  case serverCancel => cases h; exact cancel_same hc rfl rfl (fun _ => rfl)
  case deliver k c =>
    split at h
    · split at h
      · cases h
        refine cancel_map hc (monotone_upd _ _ ?_) (f := fun p => if p.inst = _ then _ else p) rfl rfl id
        intro o h; exact ⟨h, fun h => h⟩
      · cases h
    · cases h
  case recv =>
    split at h
    · rename_i m rest ht hi
      split at h
      · rename_i hrpc
        cases h
        have := (hb.uninit (hb.await_open hrpc).2).2.2.1
        exact cancel_uninit (initHandle_ops (s := { s with inbox := rest }) this)
      · cases h
        exact cancel_runHandle (s := { s with inbox := rest }) (cancel_same hc rfl rfl id)
      · cases h
    · cases h
  case sec =>
    split at h
    · rename_i x rest ht
      cases h; exact cancel_runSec hb hr hc ht
    · cases h
  case initTimeout =>
    split at h
    · cases h
      exact cancel_same (cancel_doClose (code := 1002) hr hc) rfl rfl id
    · cases h
  case readErr =>
    split at h
    · cases h; exact cancel_same hc rfl rfl id
    · cases h
  case opStep k =>
    split at h
    · split at h
      · cases h
      · split at h
        · cases h
        · cases h; simp only [updOp, write_eq]
          refine cancel_map hc (monotone_upd _ _ ?_) (f := fun p => if p.inst = _ then _ else p) rfl rfl id
          intro o h; exact ⟨h, fun h => h⟩
        · cases h; simp only [updOp]
          refine cancel_map hc (monotone_upd _ _ ?_) (f := fun p => if p.inst = _ then _ else p) rfl rfl id
          intro o h; exact ⟨h, fun h => h⟩
        · cases h; simp only [opFinish_eq]
          exact cancel_map hc (monotone_finish _) rfl rfl id
    · cases h
  case opCancel k =>
    split at h
    · split at h
      · cases h; simp only [opFinish_eq]
        exact cancel_map hc (monotone_finish _) rfl rfl id
      · cases h
    · cases h
  case tick t =>
    split at h
    · cases h; simp only [write_eq]; exact cancel_same hc rfl rfl id
    · cases h
  case watch =>
    split at h
    · split at h
      · split at h
        · cases h; simp only [write_eq]; exact cancel_same hc rfl rfl id
        · cases h; exact cancel_same (cancel_doClose (code := 1000) hr hc) rfl rfl id
      · cases h; exact cancel_same (cancel_doClose (code := 1000) hr hc) rfl rfl id
      · cases h
    · cases h

/-! ## Layer 4: the per-id protocol monitor is simulated by the model state -/

theorem phase_append (id : String) (tr evs : List Ev) :
    phase id (tr ++ evs) = phaseFrom id (phase id tr) evs := by
  simp [phase, phaseFrom, List.foldl_append]

/-- events the monitor ignores for every id -/
def NonOp (e : Ev) : Prop := ∀ id ph, phStep id ph e = ph

theorem phaseFrom_nonOp {id : String} {ph : Ph} {evs : List Ev} (h : ∀ e ∈ evs, NonOp e) :
    phaseFrom id ph evs = ph := by
  induction evs generalizing ph with
  | nil => rfl
  | cons e rest ih =>
    simp only [phaseFrom, List.foldl_cons]
    rw [h e (by simp) id ph]
    exact ih (fun e' he' => h e' (by simp [he']))

theorem nonOp_closeFrame (c : Nat) : NonOp (.closeFrame c) := fun _ _ => rfl
theorem nonOp_closeFunc (c : Nat) : NonOp (.closeFunc c) := fun _ _ => rfl
theorem nonOp_initAccepted : NonOp .initAccepted := fun _ _ => rfl
theorem nonOp_exec (t : Nat) : NonOp (.exec t) := fun _ _ => rfl

theorem nonOp_wr {cfg : Cfg} {t : MT} {id info : String} {c : Bool}
    (ht : t ≠ .data ∧ t ≠ .error ∧ t ≠ .complete) : ∀ e ∈ wr cfg t id info c, NonOp e := by
  intro e he
  obtain ⟨_, w, _, rfl⟩ := wr_mem he
  intro id' ph
  cases t <;> simp_all [phStep]

def focusOn (todo : List Sec) (id : String) : Option Ph :=
  match focus todo with
  | some (fid, ph) => if fid = id then some ph else none
  | none => none

/-- what the monitor phase of `id` must be, given the reader's pending work and whether `id` is registered -/
def Expected (todo : List Sec) (act : Bool) (id : String) (ph : Ph) : Prop :=
  match focusOn todo id with
  | some fph => ph = fph
  | none => if act then ph = .live else (ph = .idle ∨ ph = .errd)

structure PhaseInv (s : State) : Prop where
  ok : ∀ id, phase id s.trace ≠ .bad
  sim : s.closed = false → ∀ id, Expected s.todo (isActive s id) id (phase id s.trace)

theorem phase_initial : PhaseInv State.initial := by
  constructor
  · intro id; simp [State.initial, phase, phaseFrom]
  · intro _ id; simp [State.initial, phase, phaseFrom, Expected, focusOn, focus, isActive]

/-- class A: only events the monitor ignores were appended -/
theorem phase_same {s s' : State} {evs : List Ev} (hp : PhaseInv s) (htr : s'.trace = s.trace ++ evs)
    (hev : ∀ e ∈ evs, NonOp e)
    (hsim : s'.closed = false → s.closed = false ∧
      ∀ id ph, Expected s.todo (isActive s id) id ph → Expected s'.todo (isActive s' id) id ph) :
    PhaseInv s' := by
  have hph : ∀ id, phase id s'.trace = phase id s.trace := by
    intro id; rw [htr, phase_append, phaseFrom_nonOp hev]
  constructor
  · intro id; rw [hph]; exact hp.ok id
  · intro hc id; rw [hph]
    have ⟨h1, h2⟩ := hsim hc
    exact h2 id _ (hp.sim h1 id)


theorem phStep_frame_other {id id' : String} (h : id' ≠ id) (t : MT) (w info : String) (ph : Ph) :
    phStep id' ph (.frame t w id info) = ph := by
  cases t <;> simp [phStep, h.symm]

theorem phStep_accept_other {id id' : String} (h : id' ≠ id) (ph : Ph) :
    phStep id' ph (.accept id) = ph := by
  simp [phStep, h.symm]

/-- events that can only move the monitor of `id` -/
def Only (id : String) (e : Ev) : Prop := ∀ id', id' ≠ id → ∀ ph, phStep id' ph e = ph

theorem phaseFrom_only {id id' : String} {ph : Ph} {evs : List Ev} (h : ∀ e ∈ evs, Only id e) (hne : id' ≠ id) :
    phaseFrom id' ph evs = ph := by
  induction evs generalizing ph with
  | nil => rfl
  | cons e rest ih =>
    simp only [phaseFrom, List.foldl_cons]
    rw [h e (by simp) id' hne ph]
    exact ih (fun e' he' => h e' (by simp [he']))

theorem only_wr {cfg : Cfg} {t : MT} {id info : String} {c : Bool} : ∀ e ∈ wr cfg t id info c, Only id e := by
  intro e he
  obtain ⟨_, w, _, rfl⟩ := wr_mem he
  intro id' hne ph; exact phStep_frame_other hne t w info ph

theorem only_accept (id : String) : Only id (.accept id) := fun _ hne ph => phStep_accept_other hne ph

/-- classes B and C: the appended events concern one id only -/
theorem phase_focus_id {s s' : State} {id : String} {evs : List Ev} (hp : PhaseInv s)
    (hopen : s.closed = false) (htr : s'.trace = s.trace ++ evs) (hev : ∀ e ∈ evs, Only id e)
    (hother : ∀ id', id' ≠ id → ∀ ph, Expected s.todo (isActive s id') id' ph →
      Expected s'.todo (isActive s' id') id' ph)
    (hid : ∀ ph, Expected s.todo (isActive s id) id ph → phaseFrom id ph evs ≠ .bad ∧
      (s'.closed = false → Expected s'.todo (isActive s' id) id (phaseFrom id ph evs))) :
    PhaseInv s' := by
  constructor
  · intro id'
    rw [htr, phase_append]
    by_cases hne : id' = id
    · subst hne; exact (hid _ (hp.sim hopen id')).1
    · rw [phaseFrom_only hev hne]; exact hp.ok id'
  · intro hc id'
    rw [htr, phase_append]
    by_cases hne : id' = id
    · subst hne; exact (hid _ (hp.sim hopen id')).2 hc
    · rw [phaseFrom_only hev hne]; exact hother id' hne _ (hp.sim hopen id')

theorem focusOn_other {todo : List Sec} {id id' : String}
    (h : ∀ fid ph, focus todo = some (fid, ph) → fid = id) (hne : id' ≠ id) : focusOn todo id' = none := by
  unfold focusOn
  split
  · rename_i fid ph hf
    have := h fid ph hf; subst this
    simp [Ne.symm hne]
  · rfl

theorem any_filter_other (l : List (String × Nat)) {id id' : String} (hne : id' ≠ id) :
    (l.filter (fun e => e.1 != id)).any (fun e => e.1 == id') = l.any (fun e => e.1 == id') := by
  induction l with
  | nil => rfl
  | cons a rest ih =>
    by_cases h : a.1 = id
    · simp [h, ih]; intro h'; exact absurd h'.symm hne
    · simp [h, ih]

theorem any_filter_self (l : List (String × Nat)) (id : String) :
    (l.filter (fun e => e.1 != id)).any (fun e => e.1 == id) = false := by
  induction l with
  | nil => rfl
  | cons a rest ih =>
    by_cases h : a.1 = id <;> simp [h, ih]


theorem wr_open {cfg : Cfg} {t : MT} {w : String} (h : cfg.proto.fromMessage t = some (some w)) (id info : String) :
    wr cfg t id info false = [.frame t w id info] := by
  simp [wr, h]

/-- `PhaseInv` only reads trace, closed, todo and active -/
theorem phase_congr {s s' : State} (hp : PhaseInv s) (htr : s'.trace = s.trace) (hcl : s'.closed = s.closed)
    (htodo : ∀ id, focusOn s'.todo id = focusOn s.todo id) (hact : s'.active = s.active) : PhaseInv s' := by
  refine phase_same hp (evs := []) (by simp [htr]) (by simp) ?_
  intro hc
  refine ⟨by rw [← hcl]; exact hc, ?_⟩
  intro id ph h
  unfold Expected isActive at *; rw [htodo, hact]; exact h

theorem phase_write_nonop {cfg : Cfg} {t : MT} {id info : String} {s : State} (hp : PhaseInv s)
    (ht : t ≠ .data ∧ t ≠ .error ∧ t ≠ .complete) : PhaseInv (write cfg t id info s) := by
  rw [write_eq]
  exact phase_same hp rfl (nonOp_wr ht) (fun hc => ⟨hc, fun _ _ h => h⟩)

theorem phase_note {e : Ev} {s : State} (hp : PhaseInv s) (he : NonOp e) : PhaseInv (note e s) := by
  rw [note_eq]
  exact phase_same hp rfl (by simpa using he) (fun hc => ⟨hc, fun _ _ h => h⟩)

theorem phase_doClose {code : Nat} {s : State} (hp : PhaseInv s) : PhaseInv (doClose code s) := by
  rw [doClose_eq]; split
  · exact hp
  · refine phase_same hp rfl ?_ (fun hc => by simp at hc)
    intro e he; simp at he; rcases he with rfl | rfl
    · exact nonOp_closeFrame _
    · exact nonOp_closeFunc _

theorem focusOn_none_of_focus {todo : List Sec} (h : focus todo = none) (id : String) : focusOn todo id = none := by
  simp [focusOn, h]

theorem phase_initHandle {cfg : Cfg} {m : ClientMsg} {s : State} (hp : PhaseInv s) :
    PhaseInv (initHandle cfg m s) := by
  have hce : MT.connectionError ≠ .data ∧ MT.connectionError ≠ .error ∧ MT.connectionError ≠ .complete := by decide
  have hack : MT.connectionAck ≠ .data ∧ MT.connectionAck ≠ .error ∧ MT.connectionAck ≠ .complete := by decide
  have hka : MT.keepAlive ≠ .data ∧ MT.keepAlive ≠ .error ∧ MT.keepAlive ≠ .complete := by decide
  unfold initHandle
  dsimp only
  repeat' split
  all_goals first
    | exact phase_congr (phase_doClose (phase_write_nonop hp hce)) rfl rfl (fun _ => rfl) rfl
    | exact phase_congr (phase_doClose hp) rfl rfl (fun _ => rfl) rfl
    | exact phase_congr (phase_write_nonop (phase_write_nonop (phase_note hp nonOp_initAccepted) hack) hka)
        rfl rfl (fun _ => rfl) rfl


theorem focusOn_self {todo : List Sec} {id : String} {ph : Ph} (h : focus todo = some (id, ph)) :
    focusOn todo id = some ph := by simp [focusOn, h]

theorem focusOn_other' {todo : List Sec} {id id' : String} {ph : Ph} (h : focus todo = some (id, ph))
    (hne : id' ≠ id) : focusOn todo id' = none :=
  focusOn_other (by intro fid ph' h'; rw [h] at h'; simp at h'; exact h'.1.symm) hne

theorem phase_accept {s : State} {id : String} {todo' : List Sec} (hp : PhaseInv s) (ht : s.todo = [])
    (hfree : isActive s id = false) (hf : focus todo' = some (id, .live)) :
    PhaseInv { emit (.accept id) s with todo := todo' } := by
  rw [emit_eq]
  have h0 : ∀ i, focusOn s.todo i = none := fun i => by simp [ht, focusOn, focus]
  cases hcl : s.closed
  · refine phase_focus_id (id := id) (evs := [.accept id]) hp hcl (by simp) (by simpa using only_accept id) ?_ ?_
    · intro id' hne ph h
      unfold Expected at *
      rw [show focusOn todo' id' = none from focusOn_other' hf hne]
      rw [h0] at h; exact h
    · intro ph h
      unfold Expected at h; rw [h0, hfree] at h; simp at h
      have h1 : focusOn todo' id = some .live := focusOn_self hf
      rcases h with rfl | rfl <;> simp [phaseFrom, phStep, Expected, h1]
  · exact phase_same hp (evs := []) (by simp) (by simp) (fun hc => by simp at hc)

theorem phase_reader_frame {cfg : Cfg} {s : State} {id info : String} {t : MT} {w : String} {rest : List Sec}
    {ph0 ph1 : Ph} (hp : PhaseInv s) (hw : cfg.proto.fromMessage t = some (some w))
    (hfree : isActive s id = false) (hbefore : focus s.todo = some (id, ph0))
    (hstep : phStep id ph0 (.frame t w id info) = ph1) (hgood : ph1 ≠ .bad)
    (hafter : focus rest = some (id, ph1) ∨ (focus rest = none ∧ (ph1 = .idle ∨ ph1 = .errd))) :
    PhaseInv (write cfg t id info { s with todo := rest }) := by
  rw [write_eq]
  cases hcl : s.closed
  · refine phase_focus_id (id := id) (evs := [.frame t w id info]) hp hcl (by simp [wr_open hw])
      (by intro e he; simp at he; subst he; exact fun id' hne ph => phStep_frame_other hne t w info ph) ?_ ?_
    · intro id' hne ph h
      unfold Expected at *
      rw [focusOn_other' hbefore hne] at h
      have : focusOn rest id' = none := by
        rcases hafter with h' | ⟨h', _⟩
        · exact focusOn_other' h' hne
        · exact focusOn_none_of_focus h' id'
      rw [this]; exact h
    · intro ph h
      unfold Expected at h; rw [focusOn_self hbefore] at h; subst h
      simp only [phaseFrom, List.foldl_cons, List.foldl_nil, hstep]
      refine ⟨hgood, fun _ => ?_⟩
      unfold Expected
      rcases hafter with h' | ⟨h', h''⟩
      · rw [focusOn_self h']
      · rw [focusOn_none_of_focus h']
        simp only [isActive] at hfree ⊢
        simp only [hfree]; simpa using h''
  · refine phase_same hp (evs := []) (by simp [wr_closed]) (by simp) (fun hc => by simp at hc)

theorem phase_register {s : State} {id : String} {tag : Nat} {rest : List Sec} (hp : PhaseInv s)
    (ht : s.todo = .register id tag :: rest) (hrest : focus rest = none) :
    PhaseInv (note (.exec tag)
      { s with todo := rest, ops := s.ops ++ [newOp id tag s.nextInst],
               active := (id, s.nextInst) :: s.active.filter (fun e => e.1 != id),
               nextInst := s.nextInst + 1 }) := by
  rw [note_eq]
  refine phase_same hp (evs := [.exec tag]) rfl (by simpa using nonOp_exec tag) ?_
  intro hc
  refine ⟨hc, ?_⟩
  intro id' ph h
  have hfo : focus s.todo = some (id, .live) := by rw [ht]; rfl
  unfold Expected at *
  simp only [focusOn_none_of_focus hrest]
  by_cases hne : id' = id
  · subst hne
    rw [focusOn_self hfo] at h
    simp [isActive, h]
  · rw [focusOn_other' hfo hne] at h
    simp only [isActive, List.any_cons, any_filter_other _ hne] at h ⊢
    have hb : (id == id') = false := by simpa using Ne.symm hne
    simp only [hb, Bool.false_or]; exact h

theorem phase_data_active {cfg : Cfg} {s : State} {id info : String} (hp : PhaseInv s)
    (hact : isActive s id = true) (hfo : focusOn s.todo id = none) : PhaseInv (write cfg .data id info s) := by
  rw [write_eq]
  obtain ⟨w, hw⟩ := data_is_frame cfg.proto
  cases hcl : s.closed
  · refine phase_focus_id (id := id) (evs := [.frame .data w id info]) hp hcl (by simp [wr_open hw])
      (by intro e he; simp at he; subst he; exact fun id' hne ph => phStep_frame_other hne .data w info ph) ?_ ?_
    · intro id' hne ph h; exact h
    · intro ph h
      unfold Expected at h; rw [hfo, hact] at h; simp at h; subst h
      refine ⟨by simp [phaseFrom, phStep], fun _ => ?_⟩
      show Expected s.todo (isActive s id) id _
      unfold Expected; rw [hfo, hact]; simp [phaseFrom, phStep]
  · exact phase_same hp (evs := []) (by simp [wr_closed]) (by simp) (fun hc => by simp at hc)


/-- the terminating frames move a live stream to `idle` or `errd`, never to `bad` -/
theorem terminal_phase {cfg : Cfg} (o : Op) (k : FinKind) :
    let evs := (terminal o k).flatMap (fun f => wr cfg f.1 o.id f.2 false)
    (∀ e ∈ evs, Only o.id e) ∧
    (phaseFrom o.id .live evs = .idle ∨ phaseFrom o.id .live evs = .errd) := by
  obtain ⟨we, hwe⟩ := error_is_frame cfg.proto
  obtain ⟨wc, hwc⟩ := complete_is_frame cfg.proto
  intro evs
  refine ⟨?_, ?_⟩
  · intro e he
    obtain ⟨f, _, hf⟩ := List.mem_flatMap.1 he
    exact only_wr e hf
  · cases k <;> simp only [evs, terminal]
    · split <;> simp [wr_open hwe, wr_open hwc, phaseFrom, phStep]
    · simp [wr_open hwe, phaseFrom, phStep]
    · simp [wr_open hwe, wr_open hwc, phaseFrom, phStep]

theorem phase_finish {cfg : Cfg} {s : State} {o : Op} {k : FinKind} (hp : PhaseInv s)
    (hact : isActive s o.id = true) (hfo : focusOn s.todo o.id = none) :
    PhaseInv (opFinish cfg o k s) := by
  rw [opFinish_eq]
  cases hcl : s.closed
  · have ⟨h1, h2⟩ := terminal_phase (cfg := cfg) o k
    refine phase_focus_id (id := o.id) hp hcl rfl h1 ?_ ?_
    · intro id' hne ph h
      unfold Expected at *
      simp only [isActive, any_filter_other _ hne] at h ⊢
      exact h
    · intro ph h
      unfold Expected at h; rw [hfo, hact] at h; simp at h; subst h
      refine ⟨by rcases h2 with h | h <;> simp [h], fun _ => ?_⟩
      unfold Expected
      simp only [hfo, isActive, any_filter_self]
      simpa using h2
  · refine phase_same hp (evs := []) ?_ (by simp) (fun hc => by simp at hc)
    simp [wr_closed]


theorem focusOn_none_of_active {s : State} {id : String} (hr : Registry s) (h : isActive s id = true) :
    focusOn s.todo id = none := by
  unfold focusOn
  split
  · rename_i fid ph hf
    split
    · rename_i heq; subst heq
      have := hr.focus_free fid ph hf; rw [this] at h; cases h
    · rfl
  · rfl

theorem isActive_of_live {s : State} {o : Op} (hr : Registry s) (ho : o ∈ s.ops) (hd : o.done = false) :
    isActive s o.id = true := by
  have := hr.live_active o ho hd
  exact List.any_eq_true.2 ⟨_, this, by simp⟩

theorem phase_runHandle {cfg : Cfg} {m : ClientMsg} {s : State} (hp : PhaseInv s) (ht : s.todo = []) :
    PhaseInv (runHandle cfg m s) := by
  unfold runHandle
  repeat' split
  all_goals first
    | exact hp
    | exact phase_accept hp ht (by simpa using ‹¬isActive s _ = true›) rfl
    | exact phase_congr hp rfl rfl (fun id => by simp [focusOn, focus, ht]) rfl

theorem phase_runSec {cfg : Cfg} {x : Sec} {rest : List Sec} {s : State} (hb : Basic s) (hr : Registry s)
    (hp : PhaseInv s) (ht : s.todo = x :: rest) : PhaseInv (runSec cfg x { s with todo := rest }) := by
  have shape := hb.shape
  have hff := hr.focus_free
  obtain ⟨we, hwe⟩ := error_is_frame cfg.proto
  obtain ⟨wc, hwc⟩ := complete_is_frame cfg.proto
  obtain ⟨wd, hwd⟩ := data_is_frame cfg.proto
  rw [ht] at shape hff
  cases shape <;> simp only [runSec]
  case fin => exact phase_congr hp rfl rfl (fun id => by simp [focusOn, focus, ht]) rfl
  case close c =>
    exact phase_doClose (phase_congr hp rfl rfl (fun id => by simp [focusOn, focus, ht]) rfl)
  case errClose c =>
    exact phase_write_nonop (phase_congr hp rfl rfl (fun id => by simp [focusOn, focus, ht]) rfl) (by decide)
  case pong =>
    exact phase_write_nonop (phase_congr hp rfl rfl (fun id => by simp [focusOn, focus, ht]) rfl) (by decide)
  case stop sid =>
    split
    · exact phase_congr hp rfl rfl (fun id => by simp [focusOn, focus, ht]) rfl
    · exact phase_congr hp rfl rfl (fun id => by simp [focusOn, focus, ht]) rfl
  case reg id tag => exact phase_register hp ht rfl
  case e0 id =>
    exact phase_reader_frame hp hwe (hff id .live rfl) (by rw [ht]; rfl) (ph1 := .errd) (by simp [phStep])
      (by decide) (Or.inl rfl)
  case e1 id =>
    exact phase_reader_frame hp hwc (hff id .errd rfl) (by rw [ht]; rfl) (ph1 := .idle) (by simp [phStep])
      (by decide) (Or.inr ⟨rfl, Or.inl rfl⟩)
  case d0 id =>
    exact phase_reader_frame hp hwd (hff id .live rfl) (by rw [ht]; rfl) (ph1 := .live) (by simp [phStep])
      (by decide) (Or.inl rfl)
  case d1 id =>
    exact phase_reader_frame hp hwc (hff id .live rfl) (by rw [ht]; rfl) (ph1 := .idle) (by simp [phStep])
      (by decide) (Or.inr ⟨rfl, Or.inl rfl⟩)

theorem tickKind_nonop {t : MT} (h : isTickKind t = true) : t ≠ .data ∧ t ≠ .error ∧ t ≠ .complete := by
  cases t <;> simp_all [isTickKind]

theorem phase_step {cfg : Cfg} {a : Action} {s s' : State} (hb : Basic s) (hr : Registry s) (hp : PhaseInv s)
    (h : fire cfg a s = some s') : PhaseInv s' := by
  cases a <;> simp only [fire] at h
  case clientSend m => cases h; exact phase_congr hp rfl rfl (fun _ => rfl) rfl
  case serverCancel => cases h; exact phase_congr hp rfl rfl (fun _ => rfl) rfl
  case deliver k c =>
    split at h
    · split at h
      · cases h; exact phase_congr hp rfl rfl (fun _ => rfl) rfl
      · cases h
    · cases h
  case recv =>
    split at h
    · rename_i m rest ht hi
      split at h
      · cases h
        exact phase_initHandle (s := { s with inbox := rest }) (phase_congr hp rfl rfl (fun _ => rfl) rfl)
      · cases h
        exact phase_runHandle (s := { s with inbox := rest }) (phase_congr hp rfl rfl (fun _ => rfl) rfl) ht
      · cases h
    · cases h
  case sec =>
    split at h
    · rename_i x rest ht
      cases h; exact phase_runSec hb hr hp ht
    · cases h
  case initTimeout =>
    split at h
    · cases h; exact phase_congr (phase_doClose (code := 1002) hp) rfl rfl (fun _ => rfl) rfl
    · cases h
  case readErr =>
    split at h
    · cases h; exact phase_congr hp rfl rfl (fun _ => rfl) rfl
    · cases h
  case opStep k =>
    split at h
    · rename_i o ho
      have ⟨hm, _⟩ := findOp_some ho
      split at h
      · cases h
      · rename_i hd
        have hact := isActive_of_live hr hm (by simpa using hd)
        have hfo := focusOn_none_of_active hr hact
        split at h
        · cases h
        · cases h; simp only [updOp]
          exact phase_congr (phase_data_active hp hact hfo) rfl rfl (fun _ => rfl) rfl
        · cases h; simp only [updOp]
          exact phase_congr hp rfl rfl (fun _ => rfl) rfl
        · cases h; exact phase_finish hp hact hfo
    · cases h
  case opCancel k =>
    split at h
    · rename_i o ho
      have ⟨hm, _⟩ := findOp_some ho
      split at h
      · rename_i hc
        simp only [Bool.and_eq_true, Bool.not_eq_true'] at hc
        have hact := isActive_of_live hr hm hc.1.1.1
        have hfo := focusOn_none_of_active hr hact
        cases h; exact phase_finish hp hact hfo
      · cases h
    · cases h
  case tick t =>
    split at h
    · rename_i hc
      simp only [Bool.and_eq_true] at hc
      cases h; exact phase_write_nonop hp (tickKind_nonop hc.2)
    · cases h
  case watch =>
    split at h
    · split at h
      · split at h
        · cases h; exact phase_congr (phase_write_nonop (t := .connectionError) hp (by decide)) rfl rfl (fun _ => rfl) rfl
        · cases h; exact phase_congr (phase_doClose (code := 1000) hp) rfl rfl (fun _ => rfl) rfl
      · cases h; exact phase_congr (phase_doClose (code := 1000) hp) rfl rfl (fun _ => rfl) rfl
      · cases h
    · cases h


/-! ## Layer 5: orderings in the history -/

theorem precedes_append_of_mem {α : Type} {p q : α → Prop} {tr evs : List α} (h : Precedes p q tr)
    (hm : ∃ x, x ∈ tr ∧ p x) : Precedes p q (tr ++ evs) := by
  induction evs generalizing tr with
  | nil => simpa using h
  | cons a rest ih =>
    have : tr ++ a :: rest = (tr ++ [a]) ++ rest := by simp
    rw [this]
    obtain ⟨x, hx, hp⟩ := hm
    exact ih (h.snoc (fun _ => ⟨x, hx, hp⟩)) ⟨x, by simp [hx], hp⟩

structure Hist (s : State) : Prop where
  acked : s.initialised = true → (∃ e, e ∈ s.trace ∧ e.isAck) ∧ (∃ e, e ∈ s.trace ∧ e.isInitAccepted)
  ack_first : Precedes Ev.isAck Ev.isOperation s.trace
  init_first : Precedes Ev.isInitAccepted Ev.isOperation s.trace
  cf : (s.trace.filter Ev.isCloseFunc).length = s.closeCount

theorem hist_initial : Hist State.initial := by
  constructor <;> simp [State.initial, Precedes.nil]

theorem hist_append {s s' : State} (evs : List Ev) (hh : Hist s) (htr : s'.trace = s.trace ++ evs)
    (hi : s'.initialised = s.initialised)
    (hop : (∃ e, e ∈ evs ∧ e.isOperation) → s.initialised = true)
    (hcf : s'.closeCount = s.closeCount + (evs.filter Ev.isCloseFunc).length) : Hist s' := by
  obtain ⟨acked, ack_first, init_first, cf⟩ := hh
  constructor
  · intro h; rw [hi] at h
    obtain ⟨⟨e1, h1, h1'⟩, ⟨e2, h2, h2'⟩⟩ := acked h
    rw [htr]
    exact ⟨⟨e1, by simp [h1], h1'⟩, ⟨e2, by simp [h2], h2'⟩⟩
  · rw [htr]
    by_cases h : ∃ e, e ∈ evs ∧ e.isOperation
    · exact precedes_append_of_mem ack_first (acked (hop h)).1
    · exact ack_first.append_of_not (fun e he hq => h ⟨e, he, hq⟩)
  · rw [htr]
    by_cases h : ∃ e, e ∈ evs ∧ e.isOperation
    · exact precedes_append_of_mem init_first (acked (hop h)).2
    · exact init_first.append_of_not (fun e he hq => h ⟨e, he, hq⟩)
  · rw [htr, hcf, List.filter_append, List.length_append, cf]

theorem hist_congr {s s' : State} (hh : Hist s) (htr : s'.trace = s.trace) (hi : s'.initialised = s.initialised)
    (hc : s'.closeCount = s.closeCount) : Hist s' :=
  hist_append [] hh (by simp [htr]) hi (by simp) (by simp [hc])

theorem wr_not_closeFunc {cfg : Cfg} {t : MT} {id info : String} {c : Bool} :
    (wr cfg t id info c).filter Ev.isCloseFunc = [] := by
  apply List.filter_eq_nil_iff.2
  intro e he; obtain ⟨_, w, _, rfl⟩ := wr_mem he; simp [Ev.isCloseFunc]

theorem wr_operation {cfg : Cfg} {t : MT} {id info : String} {c : Bool}
    (h : ∃ e, e ∈ wr cfg t id info c ∧ e.isOperation) : t = .data ∨ t = .error ∨ t = .complete := by
  obtain ⟨e, he, hop⟩ := h
  obtain ⟨_, w, _, rfl⟩ := wr_mem he
  cases t <;> simp_all [Ev.isOperation]

/-- a frame write: either not an operation frame, or the connection is initialised -/
theorem hist_write {cfg : Cfg} {t : MT} {id info : String} {s : State} (hh : Hist s)
    (h : (t ≠ .data ∧ t ≠ .error ∧ t ≠ .complete) ∨ s.initialised = true) :
    Hist (write cfg t id info s) := by
  rw [write_eq]
  refine hist_append _ hh rfl rfl ?_ (by simp [wr_not_closeFunc])
  intro hop
  rcases h with h | h
  · have := wr_operation hop; rcases this with r | r | r <;> simp_all
  · exact h

theorem hist_note {e : Ev} {s : State} (hh : Hist s) (hcf : e.isCloseFunc = false)
    (h : e.isOperation → s.initialised = true) : Hist (note e s) := by
  rw [note_eq]
  refine hist_append [e] hh rfl rfl ?_ (by simp [hcf])
  rintro ⟨e', he', hop⟩; simp at he'; subst he'; exact h hop

theorem hist_emit {e : Ev} {s : State} (hh : Hist s) (hcf : e.isCloseFunc = false)
    (h : e.isOperation → s.initialised = true) : Hist (emit e s) := by
  rw [emit_eq]
  split
  · exact hist_congr hh (by simp) rfl rfl
  · refine hist_append [e] hh (by simp) rfl ?_ (by simp [hcf])
    rintro ⟨e', he', hop⟩; simp at he'; subst he'; exact h hop

theorem hist_doClose {code : Nat} {s : State} (hh : Hist s) :
    Hist (doClose code s) := by
  rw [doClose_eq]; split
  · exact hh
  · refine hist_append [.closeFrame code, .closeFunc code] hh rfl rfl ?_ (by simp [Ev.isCloseFunc, List.filter])
    rintro ⟨e, he, hop⟩; simp at he; rcases he with rfl | rfl <;> simp [Ev.isOperation] at hop


theorem initd {s : State} (hb : Basic s) (h : s.todo ≠ [] ∨ s.ops ≠ [] ∨ s.rpc = .running) :
    s.initialised = true := by
  cases hi : s.initialised
  · have := hb.uninit hi
    rcases h with h | h | h <;> simp_all
  · rfl

theorem hist_initOK {cfg : Cfg} {s : State} (hh : Hist s) (hc : s.closed = false) :
    Hist { write cfg .keepAlive "" "-" (write cfg .connectionAck "" "-" (note .initAccepted s)) with
           rpc := .running, initialised := true } := by
  have h3 : Hist (write cfg .keepAlive "" "-" (write cfg .connectionAck "" "-" (note .initAccepted s))) :=
    hist_write (hist_write (hist_note hh rfl (by simp [Ev.isOperation])) (Or.inl (by decide))) (Or.inl (by decide))
  obtain ⟨w, hw⟩ := ack_is_frame cfg.proto
  constructor
  · intro _
    simp only [write_eq, note_eq, hc, wr_open hw]
    exact ⟨⟨.frame .connectionAck w "" "-", by simp, by simp [Ev.isAck]⟩,
           ⟨.initAccepted, by simp, by simp [Ev.isInitAccepted]⟩⟩
  · exact h3.ack_first
  · exact h3.init_first
  · exact h3.cf

theorem hist_initHandle {cfg : Cfg} {m : ClientMsg} {s : State} (hh : Hist s) (hc : s.closed = false) :
    Hist (initHandle cfg m s) := by
  unfold initHandle
  dsimp only
  repeat' split
  all_goals first
    | exact hist_congr (hist_doClose (hist_write hh (Or.inl (by decide)))) rfl rfl rfl
    | exact hist_congr (hist_doClose hh) rfl rfl rfl
    | exact hist_initOK hh hc

theorem hist_runHandle {cfg : Cfg} {m : ClientMsg} {s : State} (hh : Hist s) (hi : s.initialised = true) :
    Hist (runHandle cfg m s) := by
  unfold runHandle
  repeat' split
  all_goals first
    | exact hh
    | exact hist_congr hh rfl rfl rfl
    | exact hist_congr (hist_emit hh rfl (fun _ => hi)) rfl rfl rfl

theorem hist_runSec {cfg : Cfg} {x : Sec} {rest : List Sec} {s : State} (hb : Basic s) (hh : Hist s)
    (ht : s.todo = x :: rest) : Hist (runSec cfg x { s with todo := rest }) := by
  have hi : s.initialised = true := initd hb (Or.inl (by simp [ht]))
  have h0 : Hist { s with todo := rest } := hist_congr hh rfl rfl rfl
  cases x <;> simp only [runSec]
  case send t => exact hist_write h0 (Or.inr hi)
  case opErr id => exact hist_write h0 (Or.inr hi)
  case opData id => exact hist_write h0 (Or.inr hi)
  case opComplete id b => exact hist_write h0 (Or.inr hi)
  case register id tag => exact hist_note (hist_congr hh rfl rfl rfl) rfl (fun _ => hi)
  case stop id => split <;> exact hist_congr hh rfl rfl rfl
  case close c => exact hist_doClose h0
  case finish => exact hist_congr hh rfl rfl rfl

theorem hist_opFinish {cfg : Cfg} {s : State} {o : Op} {k : FinKind} (hh : Hist s) (hi : s.initialised = true) :
    Hist (opFinish cfg o k s) := by
  rw [opFinish_eq]
  refine hist_append _ hh rfl rfl (fun _ => hi) ?_
  have : ((terminal o k).flatMap fun f => wr cfg f.1 o.id f.2 s.closed).filter Ev.isCloseFunc = [] := by
    apply List.filter_eq_nil_iff.2
    intro e he
    obtain ⟨f, _, hf⟩ := List.mem_flatMap.1 he
    obtain ⟨_, w, _, rfl⟩ := wr_mem hf; simp [Ev.isCloseFunc]
  simp [this]

theorem hist_step {cfg : Cfg} {a : Action} {s s' : State} (hb : Basic s) (hh : Hist s)
    (h : fire cfg a s = some s') : Hist s' := by
  cases a <;> simp only [fire] at h
  case clientSend m => cases h; exact hist_congr hh rfl rfl rfl
  case serverCancel => cases h; exact hist_congr hh rfl rfl rfl
  case deliver k c =>
    split at h
    · split at h
      · cases h; exact hist_congr hh rfl rfl rfl
      · cases h
    · cases h
  case recv =>
    split at h
    · rename_i m rest ht hi
      split at h
      · rename_i hrpc
        cases h
        exact hist_initHandle (s := { s with inbox := rest }) (hist_congr hh rfl rfl rfl) (hb.await_open hrpc).1
      · rename_i hrpc
        cases h
        have hinit : s.initialised = true := initd hb (Or.inr (Or.inr hrpc))
        exact hist_runHandle (s := { s with inbox := rest }) (hist_congr hh rfl rfl rfl) hinit
      · cases h
    · cases h
  case sec =>
    split at h
    · rename_i x rest ht
      cases h; exact hist_runSec hb hh ht
    · cases h
  case initTimeout =>
    split at h
    · cases h; exact hist_congr (hist_doClose (code := 1002) hh) rfl rfl rfl
    · cases h
  case readErr =>
    split at h
    · cases h; exact hist_congr hh rfl rfl rfl
    · cases h
  case opStep k =>
    split at h
    · rename_i o ho
      have ⟨hm, _⟩ := findOp_some ho
      have hi : s.initialised = true := initd hb (Or.inr (Or.inl (List.ne_nil_of_mem hm)))
      split at h
      · cases h
      · split at h
        · cases h
        · cases h; simp only [updOp]
          exact hist_congr (hist_write (t := .data) hh (Or.inr hi)) rfl rfl rfl
        · cases h; simp only [updOp]; exact hist_congr hh rfl rfl rfl
        · cases h; exact hist_opFinish hh hi
    · cases h
  case opCancel k =>
    split at h
    · rename_i o ho
      have ⟨hm, _⟩ := findOp_some ho
      have hi : s.initialised = true := initd hb (Or.inr (Or.inl (List.ne_nil_of_mem hm)))
      split at h
      · cases h; exact hist_opFinish hh hi
      · cases h
    · cases h
  case tick t =>
    split at h
    · rename_i hc
      simp only [Bool.and_eq_true] at hc
      cases h; exact hist_write hh (Or.inl (tickKind_nonop hc.2))
    · cases h
  case watch =>
    split at h
    · split at h
      · split at h
        · cases h; exact hist_congr (hist_write (t := .connectionError) hh (Or.inl (by decide))) rfl rfl rfl
        · cases h; exact hist_congr (hist_doClose (code := 1000) hh) rfl rfl rfl
      · cases h; exact hist_congr (hist_doClose (code := 1000) hh) rfl rfl rfl
      · cases h
    · cases h

/-! ## a finished operation has called `cancel()` -/

def DoneInv (s : State) : Prop := ∀ o ∈ s.ops, o.done = true → o.cancelled = true

def DoneOK (f : Op → Op) : Prop :=
  ∀ o, (o.done = true → o.cancelled = true) → ((f o).done = true → (f o).cancelled = true)

theorem done_map {s s' : State} {f : Op → Op} (hd : DoneInv s) (hf : DoneOK f) (hops : s'.ops = s.ops.map f) :
    DoneInv s' := by
  intro o ho; rw [hops] at ho; obtain ⟨p, hp, rfl⟩ := List.mem_map.1 ho
  exact hf p (hd p hp)

theorem doneOK_upd (k : Nat) (f : Op → Op) (hf : DoneOK f) : DoneOK (fun p => if p.inst = k then f p else p) := by
  intro o h; by_cases hk : o.inst = k <;> simp only [hk, if_true, if_false]
  · exact hf o h
  · exact h

theorem done_same {s s' : State} (hd : DoneInv s) (hops : s'.ops = s.ops) : DoneInv s' := by
  intro o ho; rw [hops] at ho; exact hd o ho

theorem done_doClose {s : State} {code : Nat} (hd : DoneInv s) : DoneInv (doClose code s) := by
  rw [doClose_eq]; split
  · exact hd
  · refine done_map hd ?_ (f := fun o => if s.active.any (fun e => e.2 == o.inst) then { o with cancelled := true } else o) rfl
    intro o h; dsimp only; split
    · intro _; rfl
    · exact h

theorem done_step {cfg : Cfg} {a : Action} {s s' : State} (hb : Basic s) (hd : DoneInv s)
    (h : fire cfg a s = some s') : DoneInv s' := by
  cases a <;> simp only [fire] at h
  case clientSend m => cases h; exact done_same hd rfl
  case serverCancel => cases h; exact done_same hd rfl
  case deliver k c =>
    split at h
    · split at h
      · cases h
        exact done_map hd (doneOK_upd _ _ (by intro o h; exact h)) (f := fun p => if p.inst = _ then _ else p) rfl
      · cases h
    · cases h
  case recv =>
    split at h
    · rename_i m rest ht hi
      split at h
      · rename_i hrpc
        cases h
        have := (hb.uninit (hb.await_open hrpc).2).2.2.1
        have h0 := initHandle_ops (cfg := cfg) (m := m) (s := { s with inbox := rest }) this
        intro o ho; rw [h0] at ho; cases ho
      · cases h
        have : (runHandle cfg m { s with inbox := rest }).ops = s.ops := by
          unfold runHandle; simp only [emit_eq]; repeat' split
          all_goals rfl
        exact done_same hd this
      · cases h
    · cases h
  case sec =>
    split at h
    · rename_i x rest ht
      cases h
      cases x <;> simp only [runSec, write_eq, note_eq]
      case register id tag =>
        intro o ho
        simp only [List.mem_append, List.mem_singleton] at ho
        rcases ho with ho | rfl
        · exact hd o ho
        · simp [newOp]
      case stop sid =>
        split
        · exact done_map hd (doneOK_upd _ _ (by intro o _ _; rfl)) (f := fun p => if p.inst = _ then _ else p) rfl
        · exact done_same hd rfl
      case close c => exact done_doClose (s := { s with todo := rest }) (done_same hd rfl)
      all_goals exact done_same hd rfl
    · cases h
  case initTimeout =>
    split at h
    · cases h; exact done_same (done_doClose (code := 1002) hd) rfl
    · cases h
  case readErr =>
    split at h
    · cases h; exact done_same hd rfl
    · cases h
  case opStep k =>
    split at h
    · split at h
      · cases h
      · split at h
        · cases h
        · cases h; simp only [updOp, write_eq]
          exact done_map hd (doneOK_upd _ _ (by intro o h; exact h)) (f := fun p => if p.inst = _ then _ else p) rfl
        · cases h; simp only [updOp]
          exact done_map hd (doneOK_upd _ _ (by intro o h; exact h)) (f := fun p => if p.inst = _ then _ else p) rfl
        · cases h; simp only [opFinish_eq]
          exact done_map hd (doneOK_upd _ _ (by intro o _ _; rfl)) (f := fun p => if p.inst = _ then _ else p) rfl
    · cases h
  case opCancel k =>
    split at h
    · split at h
      · cases h; simp only [opFinish_eq]
        exact done_map hd (doneOK_upd _ _ (by intro o _ _; rfl)) (f := fun p => if p.inst = _ then _ else p) rfl
      · cases h
    · cases h
  case tick t =>
    split at h
    · cases h; simp only [write_eq]; exact done_same hd rfl
    · cases h
  case watch =>
    split at h
    · split at h
      · split at h
        · cases h; simp only [write_eq]; exact done_same hd rfl
        · cases h; exact done_same (done_doClose (code := 1000) hd) rfl
      · cases h; exact done_same (done_doClose (code := 1000) hd) rfl
      · cases h
    · cases h

/-! ## all layers together -/

structure AllInv (s : State) : Prop where
  basic : Basic s
  registry : Registry s
  cancel : CancelInv s
  phases : PhaseInv s
  hist : Hist s
  doneInv : DoneInv s

theorem allInv_reachable {cfg : Cfg} {s : State} (h : Reachable cfg s) : AllInv s := by
  refine Sched.Reachable.invariant (init := fun s => s = State.initial) (step := Step cfg) AllInv ?_ ?_ s h
  · rintro s rfl
    exact ⟨basic_initial, registry_initial, cancel_uninit rfl, phase_initial, hist_initial, by intro o ho; cases ho⟩
  · rintro s s' ⟨b, r, c, p, hh, dn⟩ ⟨a, ha⟩
    exact ⟨basic_step b ha, registry_step b r ha, cancel_step b r c ha, phase_step b r p ha, hist_step b hh ha, done_step b dn ha⟩


/-! ## the monitor language, unfolded into plain statements about positions in the history -/

theorem phaseFrom_bad (id : String) (evs : List Ev) : phaseFrom id .bad evs = .bad := by
  induction evs with
  | nil => rfl
  | cons e rest ih =>
    simp only [phaseFrom, List.foldl_cons] at ih ⊢
    have : phStep id .bad e = .bad := by
      cases e <;> simp [phStep]
      all_goals (try (rename_i t _ _ _; cases t <;> simp <;> split <;> rfl))
      all_goals (try (split <;> rfl))
    rw [this]; exact ih

theorem phaseFrom_append (id : String) (ph : Ph) (a b : List Ev) :
    phaseFrom id ph (a ++ b) = phaseFrom id (phaseFrom id ph a) b := by
  simp [phaseFrom, List.foldl_append]

theorem phaseFrom_cons (id : String) (ph : Ph) (e : Ev) (b : List Ev) :
    phaseFrom id ph (e :: b) = phaseFrom id (phStep id ph e) b := rfl

/-- without a new `accept id`, a terminated stream stays terminated (or the monitor has failed) -/
theorem phaseFrom_idle_no_accept {id : String} {b : List Ev} (h : ∀ e ∈ b, e ≠ .accept id) :
    phaseFrom id .idle b = .idle ∨ phaseFrom id .idle b = .bad := by
  induction b with
  | nil => left; rfl
  | cons e rest ih =>
    rw [phaseFrom_cons]
    have hrest := ih (fun e' he' => h e' (by simp [he']))
    have he := h e (by simp)
    have : phStep id .idle e = .idle ∨ phStep id .idle e = .bad := by
      cases e
      case accept id' => by_cases hid : id' = id <;> simp_all [phStep]
      case frame t w id' info => by_cases hid : id' = id <;> cases t <;> simp [phStep, hid]
      all_goals simp [phStep]
    rcases this with h1 | h1 <;> rw [h1]
    · exact hrest
    · right; exact phaseFrom_bad id rest

theorem phaseFrom_errd_no_accept {id : String} {b : List Ev} (h : ∀ e ∈ b, e ≠ .accept id) :
    phaseFrom id .errd b = .errd ∨ phaseFrom id .errd b = .idle ∨ phaseFrom id .errd b = .bad := by
  induction b with
  | nil => left; rfl
  | cons e rest ih =>
    rw [phaseFrom_cons]
    have hrest := ih (fun e' he' => h e' (by simp [he']))
    have hidle := phaseFrom_idle_no_accept (id := id) (b := rest) (fun e' he' => h e' (by simp [he']))
    have he := h e (by simp)
    have : phStep id .errd e = .errd ∨ phStep id .errd e = .idle ∨ phStep id .errd e = .bad := by
      cases e
      case accept id' => by_cases hid : id' = id <;> simp_all [phStep]
      case frame t w id' info => by_cases hid : id' = id <;> cases t <;> simp [phStep, hid]
      all_goals simp [phStep]
    rcases this with h1 | h1 | h1 <;> rw [h1]
    · exact hrest
    · rcases hidle with h2 | h2 <;> simp [h2]
    · right; right; exact phaseFrom_bad id rest

theorem phStep_idle_frame {id : String} {e : Ev} (h : e.isFrameFor id) : phStep id .idle e = .bad := by
  cases e <;> simp [Ev.isFrameFor] at h
  rename_i t w id' info
  cases t <;> simp_all [phStep]

theorem phStep_bad_frame {id : String} {e : Ev} (h : e.isFrameFor id) : phStep id .bad e = .bad := by
  cases e <;> simp [Ev.isFrameFor] at h
  rename_i t w id' info
  cases t <;> simp_all [phStep]

/-- core of `nothing_after_complete` / `at_most_one_complete` -/
theorem monitor_after_complete {id : String} {a b c : List Ev} {w info : String} {e2 : Ev}
    (hok : phase id (a ++ .frame .complete w id info :: b ++ e2 :: c) ≠ .bad)
    (he2 : e2.isFrameFor id) : ∃ x, x ∈ b ∧ x = .accept id := by
  apply Classical.byContradiction
  intro hno
  have hb : ∀ e ∈ b, e ≠ .accept id := fun e he heq => hno ⟨e, he, heq⟩
  apply hok
  have hsplit : a ++ .frame .complete w id info :: b ++ e2 :: c
      = a ++ ([.frame .complete w id info] ++ (b ++ ([e2] ++ c))) := by simp
  unfold phase
  rw [hsplit, phaseFrom_append, phaseFrom_append, phaseFrom_append, phaseFrom_append]
  generalize phaseFrom id .idle a = p0
  have h1 : phaseFrom id p0 [.frame .complete w id info] = .idle ∨ phaseFrom id p0 [.frame .complete w id info] = .bad := by
    cases p0 <;> simp [phaseFrom, phStep]
  rcases h1 with h1 | h1 <;> rw [h1]
  · rcases phaseFrom_idle_no_accept hb with h2 | h2 <;> rw [h2]
    · simp only [phaseFrom, List.foldl_cons, List.foldl_nil, phStep_idle_frame he2]
      exact phaseFrom_bad id c
    · simp only [phaseFrom, List.foldl_cons, List.foldl_nil, phStep_bad_frame he2]
      exact phaseFrom_bad id c
  · rw [phaseFrom_bad]
    simp only [phaseFrom, List.foldl_cons, List.foldl_nil, phStep_bad_frame he2]
    exact phaseFrom_bad id c

/-- core of `no_next_after_error` -/
theorem monitor_after_error {id : String} {a b c : List Ev} {w info w2 info2 : String}
    (hok : phase id (a ++ .frame .error w id info :: b ++ .frame .data w2 id info2 :: c) ≠ .bad) :
    ∃ x, x ∈ b ∧ x = .accept id := by
  apply Classical.byContradiction
  intro hno
  have hb : ∀ e ∈ b, e ≠ .accept id := fun e he heq => hno ⟨e, he, heq⟩
  apply hok
  have hsplit : a ++ .frame .error w id info :: b ++ .frame .data w2 id info2 :: c
      = a ++ ([.frame .error w id info] ++ (b ++ ([.frame .data w2 id info2] ++ c))) := by simp
  unfold phase
  rw [hsplit, phaseFrom_append, phaseFrom_append, phaseFrom_append, phaseFrom_append]
  generalize phaseFrom id .idle a = p0
  have h1 : phaseFrom id p0 [.frame .error w id info] = .errd ∨ phaseFrom id p0 [.frame .error w id info] = .bad := by
    cases p0 <;> simp [phaseFrom, phStep]
  have hd : ∀ p, p = Ph.errd ∨ p = .idle ∨ p = .bad → phaseFrom id p [.frame .data w2 id info2] = .bad := by
    intro p hp; rcases hp with rfl | rfl | rfl <;> simp [phaseFrom, phStep]
  rcases h1 with h1 | h1 <;> rw [h1]
  · rw [hd _ (phaseFrom_errd_no_accept hb)]; exact phaseFrom_bad id c
  · rw [phaseFrom_bad, hd _ (Or.inr (Or.inr rfl))]; exact phaseFrom_bad id c

/-! ## running the model (for non-vacuity examples) -/

def run (cfg : Cfg) : List Action → State → Option State
  | [], s => some s
  | a :: rest, s => (fire cfg a s).bind (run cfg rest)

theorem reachable_run {cfg : Cfg} {acts : List Action} {s s' : State} (hs : Reachable cfg s)
    (h : run cfg acts s = some s') : Reachable cfg s' := by
  induction acts generalizing s with
  | nil => simp [run] at h; subst h; exact hs
  | cons a rest ih =>
    simp only [run] at h
    cases hf : fire cfg a s with
    | none => simp [hf] at h
    | some s1 =>
      simp [hf] at h
      exact ih (Sched.Reachable.step hs ⟨a, hf⟩) h

theorem reachable_initial (cfg : Cfg) : Reachable cfg State.initial := Sched.Reachable.init rfl


end GqlgenVerif.Ws
