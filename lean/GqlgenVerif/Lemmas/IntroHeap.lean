import GqlgenVerif.Model.IntroHeap
/-! Helper lemma for the introspection heap model (C07): the copying `OfType` only ever appends to the heap. -/
namespace GqlgenVerif.IntroHeap

theorem ofType_copy_prefix (h : Heap) (a : Nat) : ∃ t, (ofType .copy h a).2 = h ++ t := by
  simp only [ofType]
  split
  · exact ⟨[], by simp⟩
  · split
    · exact ⟨_, rfl⟩
    · exact ⟨[], by simp⟩

theorem walk_copy_prefix (calls : List Nat) : ∀ h : Heap, ∃ t, walk .copy h calls = h ++ t := by
  induction calls with
  | nil => intro h; exact ⟨[], by simp [walk]⟩
  | cons a calls ih =>
    intro h
    obtain ⟨t1, h1⟩ := ofType_copy_prefix h a
    obtain ⟨t2, h2⟩ := ih (ofType .copy h a).2
    refine ⟨t1 ++ t2, ?_⟩
    simp only [walk, List.foldl_cons] at h2 ⊢
    rw [h2, h1, List.append_assoc]

end GqlgenVerif.IntroHeap
