import GqlgenVerif.Lemmas.Coerce
/-! Lemmas towards `coerce_eq_spec` (Props/C02): what the client wrote for a dynamic value (`ivOf`), canonical
    values (`canon`), completeness of the numeric arms and decimal parsers, scalar-level agreement of the Impl
    with the Spec, shapes that fit a type. -/
set_option linter.unusedSimpArgs false
open GqlgenVerif GqlgenVerif.Coerce
namespace GqlgenVerif.Coerce
open Spec

/-! ## what the client wrote, for a dynamic value -/
mutual
def ivOf : Raw → IV
  | .nil => .null
  | .bool b => .bool b
  | .int n => .int n (toString n)
  | .i64 n => .int n (toString n)
  | .num t => (match jsonIntToken t with | some n => .int n t | none => .float t)
  | .f64 t => .floatLit t
  | .str s => .str s
  | .list xs => .list (ivOfList xs)
  | .typed _ xs => .list (ivOfList xs)
  | .obj fs => .obj (ivOfFields fs)
def ivOfList : List Raw → List IV
  | [] => []
  | x :: r => ivOf x :: ivOfList r
def ivOfFields : List (String × Raw) → List (String × IV)
  | [] => []
  | (k, v) :: r => (k, ivOf v) :: ivOfFields r
end

theorem ivOfList_eq (xs : List Raw) : ivOfList xs = xs.map ivOf := by
  induction xs with
  | nil => rfl
  | cons a r ih => simp [ivOfList, ih]

theorem lookup_ivOfFields (fs : List (String × Raw)) (k : String) :
    lookup (ivOfFields fs) k = (lookup fs k).map ivOf := by
  induction fs with
  | nil => rfl
  | cons a r ih =>
    obtain ⟨a1, a2⟩ := a
    simp only [ivOfFields, lookup]
    split <;> simp_all

/-- a `-` followed by digits of value 0 ("-0", "-00"): the one JSON integer token whose sign strconv.ParseUint
    refuses although its value is in range -/
def negZero (t : String) : Bool :=
  match t.toList with
  | '-' :: r => parseDigits r == some 0
  | _ => false

/-! values as the JSON decoder (UseNumber) and gqlparser's literal evaluation produce them: 64-bit Go integers,
    number tokens in float syntax other than "-0", no typed slices -/
mutual
def canon : Raw → Bool
  | .nil | .bool _ | .str _ | .f64 _ => true
  | .int n | .i64 n => inInt64 n
  | .num t => floatSyntax t && !negZero t
  | .list xs => canonList xs
  | .typed _ _ => false
  | .obj fs => canonFields fs
def canonList : List Raw → Bool
  | [] => true
  | x :: r => canon x && canonList r
def canonFields : List (String × Raw) → Bool
  | [] => true
  | (_, v) :: r => canon v && canonFields r
end

theorem canonList_mem {xs : List Raw} (h : canonList xs = true) {x : Raw} (hx : x ∈ xs) : canon x = true := by
  induction xs with
  | nil => cases hx
  | cons a r ih =>
    simp only [canonList, Bool.and_eq_true] at h
    cases hx with
    | head => exact h.1
    | tail _ hx' => exact ih h.2 hx'

theorem canonFields_lookup {fs : List (String × Raw)} (h : canonFields fs = true) {k : String} {v : Raw}
    (hk : lookup fs k = some v) : canon v = true := by
  induction fs with
  | nil => simp [lookup] at hk
  | cons a r ih =>
    obtain ⟨a1, a2⟩ := a
    simp only [canonFields, Bool.and_eq_true] at h
    simp only [lookup] at hk
    split at hk
    · cases hk; exact h.1
    · exact ih h.2 hk

/-! ## completeness of the numeric arms and of the decimal parsers -/

theorem conv_uint64_id {n : Int} (h0 : 0 ≤ n) (h1 : n ≤ Go.maxUint64) : Go.conv_uint64 n = n := by
  simp only [Go.conv_uint64, Go.maxUint64] at *; omega
theorem conv_int64_id {n : Int} (h0 : Go.minInt64 ≤ n) (h1 : n ≤ Go.maxInt64) : Go.conv_int64 n = n := by
  simp only [Go.conv_int64, Go.minInt64, Go.maxInt64] at *; omega
theorem conv_int32_id {n : Int} (h0 : Go.minInt32 ≤ n) (h1 : n ≤ Go.maxInt32) : Go.conv_int32 n = n := by
  simp only [Go.conv_int32, Go.minInt32, Go.maxInt32] at *; omega
theorem conv_uint32_id {n : Int} (h0 : 0 ≤ n) (h1 : n ≤ Go.maxUint32) : Go.conv_uint32 n = n := by
  simp only [Go.conv_uint32, Go.maxUint32] at *; omega

theorem inRange_bounds {k : ScalarK} {n lo hi : Int} (hr : intRange k = some (lo, hi)) (h : inRange k n = true) :
    lo ≤ n ∧ n ≤ hi := by
  simp [inRange, hr] at h; exact h

open Gen.IntCasts in
theorem numericArm_int (n : Int) (hr : inRange .int n = true) (h64 : inInt64 n = true) :
    Gen.IntCasts.run ("UnmarshalInt_int64") n = some (.ok n) ∧ Gen.IntCasts.run ("UnmarshalInt_int") n = some (.ok n) := by
  simp only [inInt64, decide_eq_true_eq] at h64
  have e64 : Go.conv_int64 n = n := conv_int64_id h64.1 h64.2
  have hb := inRange_bounds (k := .int) (by rfl) hr
  simp only [Go.minInt64, Go.maxInt64, Go.minInt32, Go.maxInt32, Go.maxUint64, Go.maxUint32] at hb
  refine ⟨?_, ?_⟩
  · simp only [Gen.IntCasts.run, UnmarshalInt_int64, safeCastInt32, safeCastUint32, Go.conv_int, Go.conv_uint, e64]
    simp
    all_goals (try rfl)
  · simp only [Gen.IntCasts.run, UnmarshalInt_int, safeCastInt32, safeCastUint32, Go.conv_int, Go.conv_uint, e64]
    simp
    all_goals (try rfl)
open Gen.IntCasts in
theorem numericArm_int64 (n : Int) (hr : inRange .int64 n = true) (h64 : inInt64 n = true) :
    Gen.IntCasts.run ("UnmarshalInt64_int64") n = some (.ok n) ∧ Gen.IntCasts.run ("UnmarshalInt64_int") n = some (.ok n) := by
  simp only [inInt64, decide_eq_true_eq] at h64
  have e64 : Go.conv_int64 n = n := conv_int64_id h64.1 h64.2
  have hb := inRange_bounds (k := .int64) (by rfl) hr
  simp only [Go.minInt64, Go.maxInt64, Go.minInt32, Go.maxInt32, Go.maxUint64, Go.maxUint32] at hb
  refine ⟨?_, ?_⟩
  · simp only [Gen.IntCasts.run, UnmarshalInt64_int64, safeCastInt32, safeCastUint32, Go.conv_int, Go.conv_uint, e64]
    simp
    all_goals (try rfl)
  · simp only [Gen.IntCasts.run, UnmarshalInt64_int, safeCastInt32, safeCastUint32, Go.conv_int, Go.conv_uint, e64]
    simp
    all_goals (try rfl)
open Gen.IntCasts in
theorem numericArm_intID (n : Int) (hr : inRange .intID n = true) (h64 : inInt64 n = true) :
    Gen.IntCasts.run ("UnmarshalIntID_int64") n = some (.ok n) ∧ Gen.IntCasts.run ("UnmarshalIntID_int") n = some (.ok n) := by
  simp only [inInt64, decide_eq_true_eq] at h64
  have e64 : Go.conv_int64 n = n := conv_int64_id h64.1 h64.2
  have hb := inRange_bounds (k := .intID) (by rfl) hr
  simp only [Go.minInt64, Go.maxInt64, Go.minInt32, Go.maxInt32, Go.maxUint64, Go.maxUint32] at hb
  refine ⟨?_, ?_⟩
  · simp only [Gen.IntCasts.run, UnmarshalIntID_int64, safeCastInt32, safeCastUint32, Go.conv_int, Go.conv_uint, e64]
    simp
    all_goals (try rfl)
  · simp only [Gen.IntCasts.run, UnmarshalIntID_int, safeCastInt32, safeCastUint32, Go.conv_int, Go.conv_uint, e64]
    simp
    all_goals (try rfl)
open Gen.IntCasts in
theorem numericArm_int32 (n : Int) (hr : inRange .int32 n = true) (h64 : inInt64 n = true) :
    Gen.IntCasts.run ("UnmarshalInt32_int64") n = some (.ok n) ∧ Gen.IntCasts.run ("UnmarshalInt32_int") n = some (.ok n) := by
  simp only [inInt64, decide_eq_true_eq] at h64
  have e64 : Go.conv_int64 n = n := conv_int64_id h64.1 h64.2
  have hb := inRange_bounds (k := .int32) (by rfl) hr
  simp only [Go.minInt64, Go.maxInt64, Go.minInt32, Go.maxInt32, Go.maxUint64, Go.maxUint32] at hb
  refine ⟨?_, ?_⟩
  · simp only [Gen.IntCasts.run, UnmarshalInt32_int64, safeCastInt32, safeCastUint32, Go.conv_int, Go.conv_uint, e64]
    simp
    have e := conv_int32_id (n := n) (by simp only [Go.minInt32]; omega) (by simp only [Go.maxInt32]; omega)
    have hn : ¬ (Go.maxInt32 < n ∨ n < Go.minInt32) := by simp only [Go.maxInt32, Go.minInt32]; omega
    rw [if_neg hn, e]
  · simp only [Gen.IntCasts.run, UnmarshalInt32_int, safeCastInt32, safeCastUint32, Go.conv_int, Go.conv_uint, e64]
    simp
    have e := conv_int32_id (n := n) (by simp only [Go.minInt32]; omega) (by simp only [Go.maxInt32]; omega)
    have hn : ¬ (Go.maxInt32 < n ∨ n < Go.minInt32) := by simp only [Go.maxInt32, Go.minInt32]; omega
    rw [if_neg hn, e]
open Gen.IntCasts in
theorem numericArm_uint (n : Int) (hr : inRange .uint n = true) (h64 : inInt64 n = true) :
    Gen.IntCasts.run ("UnmarshalUint_int64") n = some (.ok n) ∧ Gen.IntCasts.run ("UnmarshalUint_int") n = some (.ok n) := by
  simp only [inInt64, decide_eq_true_eq] at h64
  have e64 : Go.conv_int64 n = n := conv_int64_id h64.1 h64.2
  have hb := inRange_bounds (k := .uint) (by rfl) hr
  simp only [Go.minInt64, Go.maxInt64, Go.minInt32, Go.maxInt32, Go.maxUint64, Go.maxUint32] at hb
  refine ⟨?_, ?_⟩
  · simp only [Gen.IntCasts.run, UnmarshalUint_int64, safeCastInt32, safeCastUint32, Go.conv_int, Go.conv_uint, e64]
    simp
    have e := conv_uint64_id (n := n) (by omega) (by simp only [Go.maxUint64]; omega)
    rw [if_neg (by omega), e]
  · simp only [Gen.IntCasts.run, UnmarshalUint_int, safeCastInt32, safeCastUint32, Go.conv_int, Go.conv_uint, e64]
    simp
    have e := conv_uint64_id (n := n) (by omega) (by simp only [Go.maxUint64]; omega)
    rw [if_neg (by omega), e]
open Gen.IntCasts in
theorem numericArm_uint64 (n : Int) (hr : inRange .uint64 n = true) (h64 : inInt64 n = true) :
    Gen.IntCasts.run ("UnmarshalUint64_int64") n = some (.ok n) ∧ Gen.IntCasts.run ("UnmarshalUint64_int") n = some (.ok n) := by
  simp only [inInt64, decide_eq_true_eq] at h64
  have e64 : Go.conv_int64 n = n := conv_int64_id h64.1 h64.2
  have hb := inRange_bounds (k := .uint64) (by rfl) hr
  simp only [Go.minInt64, Go.maxInt64, Go.minInt32, Go.maxInt32, Go.maxUint64, Go.maxUint32] at hb
  refine ⟨?_, ?_⟩
  · simp only [Gen.IntCasts.run, UnmarshalUint64_int64, safeCastInt32, safeCastUint32, Go.conv_int, Go.conv_uint, e64]
    simp
    have e := conv_uint64_id (n := n) (by omega) (by simp only [Go.maxUint64]; omega)
    rw [if_neg (by omega), e]
  · simp only [Gen.IntCasts.run, UnmarshalUint64_int, safeCastInt32, safeCastUint32, Go.conv_int, Go.conv_uint, e64]
    simp
    have e := conv_uint64_id (n := n) (by omega) (by simp only [Go.maxUint64]; omega)
    rw [if_neg (by omega), e]
open Gen.IntCasts in
theorem numericArm_uintID (n : Int) (hr : inRange .uintID n = true) (h64 : inInt64 n = true) :
    Gen.IntCasts.run ("UnmarshalUintID_int64") n = some (.ok n) ∧ Gen.IntCasts.run ("UnmarshalUintID_int") n = some (.ok n) := by
  simp only [inInt64, decide_eq_true_eq] at h64
  have e64 : Go.conv_int64 n = n := conv_int64_id h64.1 h64.2
  have hb := inRange_bounds (k := .uintID) (by rfl) hr
  simp only [Go.minInt64, Go.maxInt64, Go.minInt32, Go.maxInt32, Go.maxUint64, Go.maxUint32] at hb
  refine ⟨?_, ?_⟩
  · simp only [Gen.IntCasts.run, UnmarshalUintID_int64, safeCastInt32, safeCastUint32, Go.conv_int, Go.conv_uint, e64]
    simp
    have e := conv_uint64_id (n := n) (by omega) (by simp only [Go.maxUint64]; omega)
    rw [if_neg (by omega), e]
  · simp only [Gen.IntCasts.run, UnmarshalUintID_int, safeCastInt32, safeCastUint32, Go.conv_int, Go.conv_uint, e64]
    simp
    have e := conv_uint64_id (n := n) (by omega) (by simp only [Go.maxUint64]; omega)
    rw [if_neg (by omega), e]
open Gen.IntCasts in
theorem numericArm_uint32 (n : Int) (hr : inRange .uint32 n = true) (h64 : inInt64 n = true) :
    Gen.IntCasts.run ("UnmarshalUint32_int64") n = some (.ok n) ∧ Gen.IntCasts.run ("UnmarshalUint32_int") n = some (.ok n) := by
  simp only [inInt64, decide_eq_true_eq] at h64
  have e64 : Go.conv_int64 n = n := conv_int64_id h64.1 h64.2
  have hb := inRange_bounds (k := .uint32) (by rfl) hr
  simp only [Go.minInt64, Go.maxInt64, Go.minInt32, Go.maxInt32, Go.maxUint64, Go.maxUint32] at hb
  refine ⟨?_, ?_⟩
  · simp only [Gen.IntCasts.run, UnmarshalUint32_int64, safeCastInt32, safeCastUint32, Go.conv_int, Go.conv_uint, e64]
    simp
    have e := conv_uint64_id (n := n) (by omega) (by simp only [Go.maxUint64]; omega)
    have e2 := conv_uint32_id (n := n) (by omega) (by simp only [Go.maxUint32]; omega)
    have hn : ¬ (Go.maxUint32 < n) := by simp only [Go.maxUint32]; omega
    rw [if_neg (by omega), e, if_neg hn, e2]
  · simp only [Gen.IntCasts.run, UnmarshalUint32_int, safeCastInt32, safeCastUint32, Go.conv_int, Go.conv_uint, e64]
    simp
    have e := conv_uint64_id (n := n) (by omega) (by simp only [Go.maxUint64]; omega)
    have e2 := conv_uint32_id (n := n) (by omega) (by simp only [Go.maxUint32]; omega)
    have hn : ¬ (Go.maxUint32 < n) := by simp only [Go.maxUint32]; omega
    rw [if_neg (by omega), e, if_neg hn, e2]

theorem parseInt64_of_decimalText {s : String} {n : Int} (h : decimalText true s = some n)
    (hr : inInt64 n = true) : parseInt64 s = .ok n := by
  simp only [inInt64, Go.minInt64, Go.maxInt64] at hr
  have hr := of_decide_eq_true hr
  unfold decimalText at h
  unfold parseInt64
  split at h
  · rename_i r he
    simp only [if_true] at h
    cases hd : parseDigits r with
    | none => simp [hd] at h
    | some m =>
      simp [hd] at h; subst h
      simp only [he, hd]
      rw [if_pos (by omega)]
  · rename_i r he
    simp only [if_true] at h
    cases hd : parseDigits r with
    | none => simp [hd] at h
    | some m =>
      simp [hd] at h; subst h
      simp only [he, hd]
      rw [if_pos (by simp only [Go.maxInt64]; omega)]
  · rename_i hm hp
    cases hd : parseDigits s.toList with
    | none => simp [hd] at h
    | some m =>
      simp [hd] at h; subst h
      split
      · rename_i r he; exact absurd he (hm r)
      · rename_i r he; exact absurd he (hp r)
      · simp only [hd]
        rw [if_pos (by simp only [Go.maxInt64]; omega)]

theorem parseInt64_of_jsonIntToken {t : String} {n : Int} (h : jsonIntToken t = some n)
    (hr : inInt64 n = true) : parseInt64 t = .ok n := by
  apply parseInt64_of_decimalText _ hr
  unfold jsonIntToken at h
  unfold decimalText
  split at h
  · rename_i r he; simp only [he, if_true]; exact h
  · rename_i hm
    split
    · rename_i r he; exact absurd he (hm r)
    · rename_i r he; rw [he, parseDigits_plus] at h; cases h
    · exact h

theorem parseUint64_of_digits {s : String} {m : Nat} (hd : parseDigits s.toList = some m)
    (h1 : (m : Int) ≤ Go.maxUint64) : parseUint64 s = .ok (m : Int) := by
  unfold parseUint64
  simp only [hd]
  rw [if_pos h1]

theorem parseUint64_of_decimalText {s : String} {n : Int} (h : decimalText false s = some n)
    (h1 : n ≤ Go.maxUint64) : parseUint64 s = .ok n := by
  unfold decimalText at h
  split at h
  · simp at h
  · simp at h
  · cases hd : parseDigits s.toList with
    | none => simp [hd] at h
    | some m =>
      simp [hd] at h; subst h
      exact parseUint64_of_digits hd h1

theorem parseUint64_of_jsonIntToken {t : String} {n : Int} (h : jsonIntToken t = some n) (h0 : 0 ≤ n)
    (h1 : n ≤ Go.maxUint64) (hz : negZero t = false) : parseUint64 t = .ok n := by
  unfold jsonIntToken at h
  unfold negZero at hz
  split at h
  · rename_i r he
    simp only [he] at hz
    cases hd : parseDigits r with
    | none => simp [hd] at h
    | some m =>
      simp [hd] at h hz
      subst h
      omega
  · cases hd : parseDigits t.toList with
    | none => simp [hd] at h
    | some m =>
      simp [hd] at h; subst h
      exact parseUint64_of_digits hd h1

/-- a coerced scalar as the Go value of the bound type -/
def scalarGo : CV → GoV
  | .int n => .int n
  | .float x => .float x
  | .str x => .str x
  | .fmt6 x => .fmt6 x
  | .bool b => .bool b
  | _ => .nil

theorem inInt64_of_bounds {n : Int} (h0 : Go.minInt64 ≤ n) (h1 : n ≤ Go.maxInt64) : inInt64 n = true := by
  simp [inInt64, h0, h1]

theorem inInt64_of_inRange_signed {k : ScalarK} {n : Int} (hk : signedKind k = true) (hk' : intRange k ≠ none)
    (hr : inRange k n = true) : inInt64 n = true := by
  cases k <;> simp [signedKind] at hk <;> simp [intRange] at hk' <;>
    (have hb := inRange_bounds (by rfl) hr
     simp only [Go.minInt32, Go.maxInt32, Go.minInt64, Go.maxInt64] at hb
     exact inInt64_of_bounds (by simp only [Go.minInt64]; omega) (by simp only [Go.maxInt64]; omega))

theorem safeCastInt32_complete {n : Int} (hr : inRange .int32 n = true) : Gen.IntCasts.safeCastInt32 n = .ok n := by
  have hb := inRange_bounds (k := .int32) (by rfl) hr
  have e := conv_int32_id hb.1 hb.2
  have hn : ¬ (n > Go.maxInt32 ∨ n < Go.minInt32) := by
    simp only [Go.maxInt32, Go.minInt32] at hb ⊢; omega
  simp only [Gen.IntCasts.safeCastInt32]
  rw [if_neg hn, e]

theorem safeCastUint32_complete {n : Int} (hr : inRange .uint32 n = true) : Gen.IntCasts.safeCastUint32 n = .ok n := by
  have hb := inRange_bounds (k := .uint32) (by rfl) hr
  have e := conv_uint32_id hb.1 hb.2
  have hn : ¬ (n > Go.maxUint32) := by simp only [Go.maxUint32] at hb ⊢; omega
  simp only [Gen.IntCasts.safeCastUint32]
  rw [if_neg hn, e]

theorem uint_bounds {k : ScalarK} {n : Int} (hk : signedKind k = false) (hr : inRange k n = true) :
    0 ≤ n ∧ n ≤ Go.maxUint64 := by
  cases k <;> simp [signedKind] at hk <;>
    (have hb := inRange_bounds (by rfl) hr
     simp only [Go.maxUint32, Go.maxUint64] at hb ⊢
     omega)

theorem scalar_eq_spec_int (tn : String) (v : Raw) (hc : canon v = true) (hv : v.isNil = false) (path : Path) (cv : CV)
    (h : coerceScalar {} tn .int (ivOf v) = some cv) : scalar .int v path = .ok (scalarGo cv) := by
  cases v
  case typed k xs => simp [canon] at hc
  all_goals
    simp [scalar, armsOf, arm, armBody, Gen.ScalarArms.fn_UnmarshalInt, Raw.goType, armSem, numericArm,
      scalarFn, Raw.isNil, textOf, ivOf, coerceScalar, canon, signedKind] at h hv hc ⊢
  case int n =>
    obtain ⟨hr, rfl⟩ := h
    simp [(numericArm_int n hr hc).2, liftCast, scalarGo]
  case i64 n =>
    obtain ⟨hr, rfl⟩ := h
    simp [(numericArm_int n hr hc).1, liftCast, scalarGo]
  case num t =>
    cases hj : jsonIntToken t with
    | none => simp [hj] at h
    | some n =>
      simp [hj] at h
      obtain ⟨hr, rfl⟩ := h
      have h64 := inInt64_of_inRange_signed (k := .int) (by rfl) (by simp [intRange]) hr
      have hp := parseInt64_of_jsonIntToken hj h64
      simp [hp, scalarGo]
  case str t =>
    obtain ⟨_, h⟩ := h
    cases hd : decimalText true t with
    | none => simp [hd] at h
    | some n =>
      simp [hd] at h
      obtain ⟨hr, rfl⟩ := h
      have h64 := inInt64_of_inRange_signed (k := .int) (by rfl) (by simp [intRange]) hr
      have hp := parseInt64_of_decimalText hd h64
      simp [hp, scalarGo]

theorem scalar_eq_spec_int64 (tn : String) (v : Raw) (hc : canon v = true) (hv : v.isNil = false) (path : Path) (cv : CV)
    (h : coerceScalar {} tn .int64 (ivOf v) = some cv) : scalar .int64 v path = .ok (scalarGo cv) := by
  cases v
  case typed k xs => simp [canon] at hc
  all_goals
    simp [scalar, armsOf, arm, armBody, Gen.ScalarArms.fn_UnmarshalInt64, Raw.goType, armSem, numericArm,
      scalarFn, Raw.isNil, textOf, ivOf, coerceScalar, canon, signedKind] at h hv hc ⊢
  case int n =>
    obtain ⟨hr, rfl⟩ := h
    simp [(numericArm_int64 n hr hc).2, liftCast, scalarGo]
  case i64 n =>
    obtain ⟨hr, rfl⟩ := h
    simp [(numericArm_int64 n hr hc).1, liftCast, scalarGo]
  case num t =>
    cases hj : jsonIntToken t with
    | none => simp [hj] at h
    | some n =>
      simp [hj] at h
      obtain ⟨hr, rfl⟩ := h
      have h64 := inInt64_of_inRange_signed (k := .int64) (by rfl) (by simp [intRange]) hr
      have hp := parseInt64_of_jsonIntToken hj h64
      simp [hp, scalarGo]
  case str t =>
    obtain ⟨_, h⟩ := h
    cases hd : decimalText true t with
    | none => simp [hd] at h
    | some n =>
      simp [hd] at h
      obtain ⟨hr, rfl⟩ := h
      have h64 := inInt64_of_inRange_signed (k := .int64) (by rfl) (by simp [intRange]) hr
      have hp := parseInt64_of_decimalText hd h64
      simp [hp, scalarGo]

theorem scalar_eq_spec_intID (tn : String) (v : Raw) (hc : canon v = true) (hv : v.isNil = false) (path : Path) (cv : CV)
    (h : coerceScalar {} tn .intID (ivOf v) = some cv) : scalar .intID v path = .ok (scalarGo cv) := by
  cases v
  case typed k xs => simp [canon] at hc
  all_goals
    simp [scalar, armsOf, arm, armBody, Gen.ScalarArms.fn_UnmarshalIntID, Raw.goType, armSem, numericArm,
      scalarFn, Raw.isNil, textOf, ivOf, coerceScalar, canon, signedKind] at h hv hc ⊢
  case int n =>
    obtain ⟨hr, rfl⟩ := h
    simp [(numericArm_intID n hr hc).2, liftCast, scalarGo]
  case i64 n =>
    obtain ⟨hr, rfl⟩ := h
    simp [(numericArm_intID n hr hc).1, liftCast, scalarGo]
  case num t =>
    cases hj : jsonIntToken t with
    | none => simp [hj] at h
    | some n =>
      simp [hj] at h
      obtain ⟨hr, rfl⟩ := h
      have h64 := inInt64_of_inRange_signed (k := .intID) (by rfl) (by simp [intRange]) hr
      have hp := parseInt64_of_jsonIntToken hj h64
      simp [hp, scalarGo]
  case str t =>
    obtain ⟨_, h⟩ := h
    cases hd : decimalText true t with
    | none => simp [hd] at h
    | some n =>
      simp [hd] at h
      obtain ⟨hr, rfl⟩ := h
      have h64 := inInt64_of_inRange_signed (k := .intID) (by rfl) (by simp [intRange]) hr
      have hp := parseInt64_of_decimalText hd h64
      simp [hp, scalarGo]

theorem scalar_eq_spec_int32 (tn : String) (v : Raw) (hc : canon v = true) (hv : v.isNil = false) (path : Path) (cv : CV)
    (h : coerceScalar {} tn .int32 (ivOf v) = some cv) : scalar .int32 v path = .ok (scalarGo cv) := by
  cases v
  case typed k xs => simp [canon] at hc
  all_goals
    simp [scalar, armsOf, arm, armBody, Gen.ScalarArms.fn_UnmarshalInt32, Raw.goType, armSem, numericArm,
      scalarFn, Raw.isNil, textOf, ivOf, coerceScalar, canon, signedKind] at h hv hc ⊢
  case int n =>
    obtain ⟨hr, rfl⟩ := h
    simp [(numericArm_int32 n hr hc).2, liftCast, scalarGo]
  case i64 n =>
    obtain ⟨hr, rfl⟩ := h
    simp [(numericArm_int32 n hr hc).1, liftCast, scalarGo]
  case num t =>
    cases hj : jsonIntToken t with
    | none => simp [hj] at h
    | some n =>
      simp [hj] at h
      obtain ⟨hr, rfl⟩ := h
      have h64 := inInt64_of_inRange_signed (k := .int32) (by rfl) (by simp [intRange]) hr
      have hp := parseInt64_of_jsonIntToken hj h64
      simp [hp, liftCast, safeCastInt32_complete hr, scalarGo]
  case str t =>
    obtain ⟨_, h⟩ := h
    cases hd : decimalText true t with
    | none => simp [hd] at h
    | some n =>
      simp [hd] at h
      obtain ⟨hr, rfl⟩ := h
      have h64 := inInt64_of_inRange_signed (k := .int32) (by rfl) (by simp [intRange]) hr
      have hp := parseInt64_of_decimalText hd h64
      simp [hp, liftCast, safeCastInt32_complete hr, scalarGo]

theorem scalar_eq_spec_uint (tn : String) (v : Raw) (hc : canon v = true) (hv : v.isNil = false) (path : Path) (cv : CV)
    (h : coerceScalar {} tn .uint (ivOf v) = some cv) : scalar .uint v path = .ok (scalarGo cv) := by
  cases v
  case typed k xs => simp [canon] at hc
  all_goals
    simp [scalar, armsOf, arm, armBody, Gen.ScalarArms.fn_UnmarshalUint, Raw.goType, armSem, numericArm,
      scalarFn, Raw.isNil, textOf, ivOf, coerceScalar, canon, signedKind] at h hv hc ⊢
  case int n =>
    obtain ⟨hr, rfl⟩ := h
    simp [(numericArm_uint n hr hc).2, liftCast, scalarGo]
  case i64 n =>
    obtain ⟨hr, rfl⟩ := h
    simp [(numericArm_uint n hr hc).1, liftCast, scalarGo]
  case num t =>
    cases hj : jsonIntToken t with
    | none => simp [hj] at h
    | some n =>
      simp [hj] at h
      obtain ⟨hr, rfl⟩ := h
      have hb := uint_bounds (k := .uint) (by rfl) hr
      have hp := parseUint64_of_jsonIntToken hj hb.1 hb.2 hc.2
      simp [hp, conv_uint_id (show Go.inUint64 n from hb), scalarGo]
  case str t =>
    obtain ⟨_, h⟩ := h
    cases hd : decimalText false t with
    | none => simp [hd] at h
    | some n =>
      simp [hd] at h
      obtain ⟨hr, rfl⟩ := h
      have hb := uint_bounds (k := .uint) (by rfl) hr
      have hp := parseUint64_of_decimalText hd hb.2
      simp [hp, conv_uint_id (show Go.inUint64 n from hb), scalarGo]

theorem scalar_eq_spec_uintID (tn : String) (v : Raw) (hc : canon v = true) (hv : v.isNil = false) (path : Path) (cv : CV)
    (h : coerceScalar {} tn .uintID (ivOf v) = some cv) : scalar .uintID v path = .ok (scalarGo cv) := by
  cases v
  case typed k xs => simp [canon] at hc
  all_goals
    simp [scalar, armsOf, arm, armBody, Gen.ScalarArms.fn_UnmarshalUintID, Raw.goType, armSem, numericArm,
      scalarFn, Raw.isNil, textOf, ivOf, coerceScalar, canon, signedKind] at h hv hc ⊢
  case int n =>
    obtain ⟨hr, rfl⟩ := h
    simp [(numericArm_uintID n hr hc).2, liftCast, scalarGo]
  case i64 n =>
    obtain ⟨hr, rfl⟩ := h
    simp [(numericArm_uintID n hr hc).1, liftCast, scalarGo]
  case num t =>
    cases hj : jsonIntToken t with
    | none => simp [hj] at h
    | some n =>
      simp [hj] at h
      obtain ⟨hr, rfl⟩ := h
      have hb := uint_bounds (k := .uintID) (by rfl) hr
      have hp := parseUint64_of_jsonIntToken hj hb.1 hb.2 hc.2
      simp [hp, conv_uint_id (show Go.inUint64 n from hb), scalarGo]
  case str t =>
    obtain ⟨_, h⟩ := h
    cases hd : decimalText false t with
    | none => simp [hd] at h
    | some n =>
      simp [hd] at h
      obtain ⟨hr, rfl⟩ := h
      have hb := uint_bounds (k := .uintID) (by rfl) hr
      have hp := parseUint64_of_decimalText hd hb.2
      simp [hp, conv_uint_id (show Go.inUint64 n from hb), scalarGo]

theorem scalar_eq_spec_uint64 (tn : String) (v : Raw) (hc : canon v = true) (hv : v.isNil = false) (path : Path) (cv : CV)
    (h : coerceScalar {} tn .uint64 (ivOf v) = some cv) : scalar .uint64 v path = .ok (scalarGo cv) := by
  cases v
  case typed k xs => simp [canon] at hc
  all_goals
    simp [scalar, armsOf, arm, armBody, Gen.ScalarArms.fn_UnmarshalUint64, Raw.goType, armSem, numericArm,
      scalarFn, Raw.isNil, textOf, ivOf, coerceScalar, canon, signedKind] at h hv hc ⊢
  case int n =>
    obtain ⟨hr, rfl⟩ := h
    simp [(numericArm_uint64 n hr hc).2, liftCast, scalarGo]
  case i64 n =>
    obtain ⟨hr, rfl⟩ := h
    simp [(numericArm_uint64 n hr hc).1, liftCast, scalarGo]
  case num t =>
    cases hj : jsonIntToken t with
    | none => simp [hj] at h
    | some n =>
      simp [hj] at h
      obtain ⟨hr, rfl⟩ := h
      have hb := uint_bounds (k := .uint64) (by rfl) hr
      have hp := parseUint64_of_jsonIntToken hj hb.1 hb.2 hc.2
      simp [hp, scalarGo]
  case str t =>
    obtain ⟨_, h⟩ := h
    cases hd : decimalText false t with
    | none => simp [hd] at h
    | some n =>
      simp [hd] at h
      obtain ⟨hr, rfl⟩ := h
      have hb := uint_bounds (k := .uint64) (by rfl) hr
      have hp := parseUint64_of_decimalText hd hb.2
      simp [hp, scalarGo]

theorem scalar_eq_spec_uint32 (tn : String) (v : Raw) (hc : canon v = true) (hv : v.isNil = false) (path : Path) (cv : CV)
    (h : coerceScalar {} tn .uint32 (ivOf v) = some cv) : scalar .uint32 v path = .ok (scalarGo cv) := by
  cases v
  case typed k xs => simp [canon] at hc
  all_goals
    simp [scalar, armsOf, arm, armBody, Gen.ScalarArms.fn_UnmarshalUint32, Raw.goType, armSem, numericArm,
      scalarFn, Raw.isNil, textOf, ivOf, coerceScalar, canon, signedKind] at h hv hc ⊢
  case int n =>
    obtain ⟨hr, rfl⟩ := h
    simp [(numericArm_uint32 n hr hc).2, liftCast, scalarGo]
  case i64 n =>
    obtain ⟨hr, rfl⟩ := h
    simp [(numericArm_uint32 n hr hc).1, liftCast, scalarGo]
  case num t =>
    cases hj : jsonIntToken t with
    | none => simp [hj] at h
    | some n =>
      simp [hj] at h
      obtain ⟨hr, rfl⟩ := h
      have hb := uint_bounds (k := .uint32) (by rfl) hr
      have hp := parseUint64_of_jsonIntToken hj hb.1 hb.2 hc.2
      simp [hp, liftCast, safeCastUint32_complete hr, scalarGo]
  case str t =>
    obtain ⟨_, h⟩ := h
    cases hd : decimalText false t with
    | none => simp [hd] at h
    | some n =>
      simp [hd] at h
      obtain ⟨hr, rfl⟩ := h
      have hb := uint_bounds (k := .uint32) (by rfl) hr
      have hp := parseUint64_of_decimalText hd hb.2
      simp [hp, liftCast, safeCastUint32_complete hr, scalarGo]

theorem scalar_eq_spec_id (tn : String) (v : Raw) (hc : canon v = true) (hv : v.isNil = false) (path : Path) (cv : CV)
    (h : coerceScalar {} tn .id (ivOf v) = some cv) : scalar .id v path = .ok (scalarGo cv) := by
  cases v
  case typed k xs => simp [canon] at hc
  all_goals
    simp [scalar, armsOf, arm, armBody, Gen.ScalarArms.fn_UnmarshalID, Raw.goType, armSem, numericArm,
      scalarFn, Raw.isNil, textOf, numOf, ivOf, coerceScalar, canon, intDecStr] at h hv hc ⊢
  all_goals first
    | (subst h; simp [scalarGo]; done)
    | (rename_i t; cases hj : jsonIntToken t <;> simp [hj] at h <;> subst h <;> simp [scalarGo, hc.1]; done)
    | skip

theorem scalar_eq_spec_string (tn : String) (v : Raw) (hc : canon v = true) (hv : v.isNil = false) (path : Path) (cv : CV)
    (h : coerceScalar {} tn .string (ivOf v) = some cv) : scalar .string v path = .ok (scalarGo cv) := by
  cases v
  case typed k xs => simp [canon] at hc
  all_goals
    simp [scalar, armsOf, arm, armBody, Gen.ScalarArms.fn_UnmarshalString, Raw.goType, armSem, numericArm,
      scalarFn, Raw.isNil, textOf, numOf, ivOf, coerceScalar, canon, intDecStr] at h hv hc ⊢
  all_goals first
    | (subst h; simp [scalarGo]; done)
    | (rename_i t; cases hj : jsonIntToken t <;> simp [hj] at h <;> subst h <;> simp [scalarGo, hc.1]; done)
    | skip

theorem scalar_eq_spec_float (tn : String) (v : Raw) (hc : canon v = true) (hv : v.isNil = false) (path : Path) (cv : CV)
    (h : coerceScalar {} tn .float (ivOf v) = some cv) : scalar .float v path = .ok (scalarGo cv) := by
  cases v
  case typed k xs => simp [canon] at hc
  all_goals
    simp [scalar, armsOf, arm, armBody, Gen.ScalarArms.fn_UnmarshalFloat, Raw.goType, armSem, numericArm,
      scalarFn, Raw.isNil, textOf, numOf, ivOf, coerceScalar, canon, intDecStr] at h hv hc ⊢
  all_goals first
    | (subst h; simp [scalarGo]; done)
    | (rename_i t; cases hj : jsonIntToken t <;> simp [hj] at h <;> subst h <;> simp [scalarGo, hc.1]; done)
    | skip

theorem scalar_eq_spec_bool (tn : String) (v : Raw) (hc : canon v = true) (hv : v.isNil = false) (path : Path) (cv : CV)
    (h : coerceScalar {} tn .bool (ivOf v) = some cv) : scalar .bool v path = .ok (scalarGo cv) := by
  cases v
  case typed k xs => simp [canon] at hc
  all_goals
    simp [scalar, armsOf, arm, armBody, Gen.ScalarArms.fn_UnmarshalBoolean, Raw.goType, armSem, numericArm,
      scalarFn, Raw.isNil, textOf, numOf, ivOf, coerceScalar, canon, intDecStr] at h hv hc ⊢
  all_goals first
    | (subst h; simp [scalarGo]; done)
    | (rename_i t; cases hj : jsonIntToken t <;> simp [hj] at h <;> subst h <;> simp [scalarGo, hc.1]; done)
    | skip

/-- **Scalars: the generated code's unmarshaler returns exactly the specification's coerced value**, for every
    scalar binding, whenever the specification accepts the input. -/
theorem scalar_eq_spec (tn : String) (k : ScalarK) (hk : k ≠ .any) (v : Raw) (hc : canon v = true)
    (hv : v.isNil = false) (path : Path) (cv : CV) (h : coerceScalar {} tn k (ivOf v) = some cv) :
    scalar k v path = .ok (scalarGo cv) := by
  cases k
  · exact scalar_eq_spec_int tn v hc hv path cv h
  · exact scalar_eq_spec_int32 tn v hc hv path cv h
  · exact scalar_eq_spec_int64 tn v hc hv path cv h
  · exact scalar_eq_spec_uint tn v hc hv path cv h
  · exact scalar_eq_spec_uint32 tn v hc hv path cv h
  · exact scalar_eq_spec_uint64 tn v hc hv path cv h
  · exact scalar_eq_spec_id tn v hc hv path cv h
  · exact scalar_eq_spec_intID tn v hc hv path cv h
  · exact scalar_eq_spec_uintID tn v hc hv path cv h
  · exact scalar_eq_spec_string tn v hc hv path cv h
  · exact scalar_eq_spec_float tn v hc hv path cv h
  · exact scalar_eq_spec_bool tn v hc hv path cv h
  · exact absurd rfl hk

/-! ## structure: shapes that fit a type -/

/-- `sh` is a Go shape the generated code can use for GraphQL type `t` (what `shapeRef` / `shapeField` produce
    for well-formed types; `Any` and lists of map-backed inputs are outside the Spec's embedding) -/
def fits (s : Schema) : Sh → Ty → Bool
  | .ptr i, t => fits s i t
  | .slice el, .list et _ => fits s el et && (et.nn || el.nilable)
  | .scalar k, .named n _ => k != .any && (match s.get n with | some (.scalar k') => k == k' | _ => false)
  | .enum n', .named n _ => n' == n && (match s.get n with | some (.enum _) => true | _ => false)
  | .struct n', .named n _ => n' == n && (match s.get n with | some (.input false _) => true | _ => false)
  | .mapIn n', .named n _ => n' == n && (match s.get n with | some (.input true _) => true | _ => false)
  | _, _ => false

theorem coerceTy_named (s : Schema) (sobj : List FieldDef → IV → Path → Except SErr CV) (n : String) (nn : Bool)
    (iv : IV) (path : Path) :
    coerceTy {} s sobj (.named n nn) iv path =
      if isNullIV iv then (if nn then .error (.at path) else .ok .null) else
      match s.get n with
      | none => .error (.at path)
      | some (.scalar k) => (match coerceScalar {} n k iv with | some c => .ok c | none => .error (.at path))
      | some (.enum vals) =>
        (match iv with
         | .str x => if vals.contains x then .ok (.str x) else .error (.at path)
         | _ => .error (.at path))
      | some (.input _ fields) => sobj fields iv path := by
  conv => lhs; unfold coerceTy
  simp [Ty.nn]
  try rfl

theorem coerceTy_list (s : Schema) (sobj : List FieldDef → IV → Path → Except SErr CV) (et : Ty) (nn : Bool)
    (iv : IV) (path : Path) :
    coerceTy {} s sobj (.list et nn) iv path =
      if isNullIV iv then (if nn then .error (.at path) else .ok .null) else
      (match iv with
       | .list xs =>
         (match mapIdxE (fun i x => coerceTy {} s sobj et x (path ++ [toString i])) 0 xs with
          | .ok cs => .ok (.list cs)
          | .error e => .error e)
       | _ =>
         (match coerceTy {} s sobj et iv (path ++ ["0"]) with
          | .ok c => .ok (.list [c])
          | .error e => .error e)) := by
  conv => lhs; unfold coerceTy
  simp [Ty.nn]
  try rfl

/-! ## the generated unmarshal function agrees with the Spec, up to input objects -/

theorem ivOf_isNull (v : Raw) : isNullIV (ivOf v) = v.isNil := by
  cases v <;> simp [ivOf, isNullIV, Raw.isNil]
  case num t => cases jsonIntToken t <;> simp [isNullIV]

theorem ivOf_str {v : Raw} {x : String} (h : ivOf v = .str x) : v = .str x := by
  cases v <;> simp [ivOf] at h
  case num t => cases hj : jsonIntToken t <;> simp [hj] at h
  case str s => simp [h]

theorem ivOf_list {v : Raw} {xs : List IV} (hc : canon v = true) (h : ivOf v = .list xs) :
    ∃ ys, v = .list ys ∧ xs = ys.map ivOf := by
  cases v <;> simp [ivOf] at h
  case num t => cases hj : jsonIntToken t <;> simp [hj] at h
  case list ys => exact ⟨ys, rfl, by rw [← h, ivOfList_eq]⟩
  case typed k ys => simp [canon] at hc

theorem ivOf_not_list_single {v : Raw} (hc : canon v = true) (hv : v.isNil = false)
    (h : ∀ xs, ivOf v ≠ .list xs) : Single v = true := by
  cases v <;> simp [Single, Raw.isNil, canon] at hv hc ⊢
  case list ys => exact absurd rfl (h _)

/-- pointwise transfer along `mapIdxE` -/
theorem mapIdxE_rel {α β γ δ ε ε' : Type} (φ : α → γ) (ψ : δ → β) (f : Nat → α → Except ε β)
    (g : Nat → γ → Except ε' δ) (xs : List α)
    (h : ∀ i x c, x ∈ xs → g i (φ x) = .ok c → f i x = .ok (ψ c)) :
    ∀ (i : Nat) (cs : List δ), mapIdxE g i (xs.map φ) = .ok cs → mapIdxE f i xs = .ok (cs.map ψ) := by
  induction xs with
  | nil => intro i cs hg; simp [mapIdxE] at hg ⊢; subst hg; rfl
  | cons a r ih =>
    intro i cs hg
    simp only [List.map, mapIdxE] at hg ⊢
    split at hg
    · cases hg
    · rename_i c hc
      split at hg
      · cases hg
      · rename_i cs' hcs
        cases hg
        rw [h i a c (by simp) hc]
        rw [ih (fun i x c hx => h i x c (by simp [hx])) (i + 1) cs' hcs]
        rfl

theorem coerceList_list (xs : List Raw) : coerceList (.list xs) = xs := by
  simp [coerceList, arm, armBody, Gen.ScalarArms.fn_CoerceList, Raw.goType]

theorem embedSh_null (eobj : String → Bool → CV → GoV) (sh : Sh) (t : Ty) :
    embedSh eobj sh t .null = (match sh with | .slice _ => .nilSlice | .mapIn _ => .nilMap | _ => .nil) := by
  cases sh <;> (unfold embedSh; rfl)

theorem embedSh_ptr (eobj : String → Bool → CV → GoV) (i : Sh) (t : Ty) (cv : CV) (h : cv ≠ .null) :
    embedSh eobj (.ptr i) t cv = .ptr (embedSh eobj i t cv) := by
  cases cv <;> first | (exact absurd rfl h) | (conv => lhs; unfold embedSh)

theorem embedSh_slice (eobj : String → Bool → CV → GoV) (el : Sh) (et : Ty) (nn : Bool) (cs : List CV) :
    embedSh eobj (.slice el) (.list et nn) (.list cs) = .slice (cs.map (embedSh eobj el et)) := by
  conv => lhs; unfold embedSh

theorem embedSh_scalar (eobj : String → Bool → CV → GoV) (k : ScalarK) (hk : k ≠ .any) (t : Ty) (cv : CV)
    (h : cv ≠ .null) : embedSh eobj (.scalar k) t cv = scalarGo cv := by
  cases k <;> first | (exact absurd rfl hk) | (cases cv <;> first | (exact absurd rfl h) | (unfold embedSh; rfl))

theorem embedSh_enum (eobj : String → Bool → CV → GoV) (n : String) (t : Ty) (x : String) :
    embedSh eobj (.enum n) t (.str x) = .str x := by
  unfold embedSh; rfl

theorem embedSh_struct (eobj : String → Bool → CV → GoV) (n : String) (t : Ty) (cv : CV) (h : cv ≠ .null) :
    embedSh eobj (.struct n) t cv = eobj n false cv := by
  cases cv <;> first | (exact absurd rfl h) | (unfold embedSh; rfl)

theorem embedSh_mapIn (eobj : String → Bool → CV → GoV) (n : String) (t : Ty) (cv : CV) (h : cv ≠ .null) :
    embedSh eobj (.mapIn n) t cv = eobj n true cv := by
  cases cv <;> first | (exact absurd rfl h) | (unfold embedSh; rfl)

theorem coerceScalar_nonnull {tn : String} {k : ScalarK} {iv : IV} {cv : CV}
    (h : coerceScalar {} tn k iv = some cv) : cv ≠ .null := by
  intro hc; subst hc
  cases k <;> cases iv <;> simp [coerceScalar] at h <;> (try split at h) <;> simp_all

theorem coerceTy_nil {s : Schema} {sobj : List FieldDef → IV → Path → Except SErr CV} {t : Ty} {v : Raw}
    {path : Path} {cv : CV} (hv : v.isNil = true) (h : coerceTy {} s sobj t (ivOf v) path = .ok cv) :
    t.nn = false ∧ cv = .null := by
  have hi : isNullIV (ivOf v) = true := by rw [ivOf_isNull]; exact hv
  cases t with
  | named n nn =>
    rw [coerceTy_named] at h
    simp only [hi, if_true] at h
    cases nn <;> simp [Ty.nn] at h ⊢
    exact h.symm
  | list et nn =>
    rw [coerceTy_list] at h
    simp only [hi, if_true] at h
    cases nn <;> simp [Ty.nn] at h ⊢
    exact h.symm

theorem coerceTy_nonnull {s : Schema} {sobj : List FieldDef → IV → Path → Except SErr CV}
    (hsobj : ∀ fields iv path cv, sobj fields iv path = .ok cv → cv ≠ .null)
    {t : Ty} {iv : IV} {path : Path} {cv : CV} (hv : isNullIV iv = false)
    (h : coerceTy {} s sobj t iv path = .ok cv) : cv ≠ .null := by
  cases t with
  | named n nn =>
    rw [coerceTy_named] at h
    simp only [hv] at h
    simp at h
    split at h
    · cases h
    · split at h
      · cases h; rename_i hc; exact coerceScalar_nonnull hc
      · cases h
    · split at h
      · split at h
        · cases h; simp
        · cases h
      · cases h
    · exact hsobj _ _ _ _ h
  | list et nn =>
    rw [coerceTy_list] at h
    simp only [hv] at h
    simp at h
    split at h
    · split at h
      · cases h; simp
      · cases h
    · split at h
      · cases h; simp
      · cases h

theorem unmSh_eq_spec (s : Schema)
    (uobj : String → Bool → Raw → Path → Res GoV)
    (sobj : List FieldDef → IV → Path → Except SErr CV)
    (eobj : String → Bool → CV → GoV)
    (hsobj : ∀ fields iv path cv, sobj fields iv path = .ok cv → cv ≠ .null)
    (hobj : ∀ n isMap fields v path cv, s.get n = some (.input isMap fields) → canon v = true →
        v.isNil = false → sobj fields (ivOf v) path = .ok cv → uobj n isMap v path = .ok (eobj n isMap cv)) :
    ∀ (sh : Sh) (t : Ty) (v : Raw) (path : Path) (cv : CV),
      fits s sh t = true → canon v = true → (v.isNil = true → t.nn = true ∨ sh.nilable = true) →
      coerceTy {} s sobj t (ivOf v) path = .ok cv →
      unmSh s uobj sh t v path = .ok (embedSh eobj sh t cv) := by
  intro sh
  induction sh with
  | bad w => intro t v path cv hf; cases t <;> simp [fits] at hf
  | ptr i ih =>
    intro t v path cv hf hc hn h
    rw [unmSh_ptr]
    cases hv : v.isNil
    · have hcv := coerceTy_nonnull hsobj (by rw [ivOf_isNull]; exact hv) h
      have := ih t v path cv (by simpa [fits] using hf) hc (by simp [hv]) h
      simp [this, embedSh_ptr _ _ _ _ hcv]
    · obtain ⟨ht, rfl⟩ := coerceTy_nil hv h
      simp [ht, embedSh_null]
  | slice el ih =>
    intro t v path cv hf hc hn h
    cases t with
    | named n nn => simp [fits] at hf
    | list et nn =>
      simp only [fits, Bool.and_eq_true] at hf
      rw [unmSh_slice]
      cases hv : v.isNil
      · rw [coerceTy_list] at h
        have hi : isNullIV (ivOf v) = false := by rw [ivOf_isNull]; exact hv
        simp only [hi] at h
        simp at h ⊢
        by_cases hl : ∃ xs, ivOf v = .list xs
        · obtain ⟨xs, hxs⟩ := hl
          obtain ⟨ys, rfl, rfl⟩ := ivOf_list hc hxs
          rw [hxs] at h
          simp only at h
          split at h
          · rename_i cs hcs
            cases h
            have hcl : canonList ys = true := by simpa [canon] using hc
            have := mapIdxE_rel ivOf (embedSh eobj el et)
              (fun i x => unmSh s uobj el et x (path ++ [toString i]))
              (fun i y => coerceTy {} s sobj et y (path ++ [toString i])) ys
              (fun i x c hx hg => ih et x _ c hf.1 (canonList_mem hcl hx)
                (fun _ => by
                  have := hf.2
                  simp only [Bool.or_eq_true] at this
                  exact this) hg) 0 cs hcs
            simp only [unmSlice, coerceList_list, Bool.false_and, Bool.false_eq_true, if_false]
            rw [this, embedSh_slice]
          · cases h
        · have hsingle : Single v = true := ivOf_not_list_single hc hv (fun xs hx => hl ⟨xs, hx⟩)
          have h0 : toString 0 = "0" := by decide
          split at h
          · rename_i xs hx; exact absurd ⟨xs, hx⟩ hl
          · split at h
            · rename_i c hcc
              cases h
              have := ih et v (path ++ ["0"]) c hf.1 hc (by simp [hv]) hcc
              simp only [unmSlice, coerceList_single v hsingle, mapIdxE, h0, this, embedSh_slice, Bool.false_and,
                Bool.false_eq_true, if_false, List.map]
            · cases h
      · obtain ⟨ht, rfl⟩ := coerceTy_nil hv h
        simp [ht, embedSh_null]
  | scalar k =>
    intro t v path cv hf hc hn h
    cases t with
    | list et nn => simp [fits] at hf
    | named n nn =>
      simp only [fits, Bool.and_eq_true, bne_iff_ne, ne_eq] at hf
      obtain ⟨hk, hg⟩ := hf
      rw [unmSh_scalar _ _ _ hk]
      cases hv : v.isNil
      · rw [coerceTy_named] at h
        have hi : isNullIV (ivOf v) = false := by rw [ivOf_isNull]; exact hv
        simp only [hi] at h
        split at hg
        · rename_i k' hsg
          simp at hg; subst hg
          simp [hsg] at h
          split at h
          · rename_i c hcs
            cases h
            simp [scalar_eq_spec n k hk v hc hv path _ hcs, embedSh_scalar _ _ hk _ _ (coerceScalar_nonnull hcs)]
          · cases h
        · cases hg
      · obtain ⟨ht, rfl⟩ := coerceTy_nil hv h
        have := hn hv
        simp [Ty.nn] at ht
        subst ht
        cases k <;> simp [Sh.nilable, Ty.nn] at this
        exact absurd rfl hk
  | enum n' =>
    intro t v path cv hf hc hn h
    cases t with
    | list et nn => simp [fits] at hf
    | named n nn =>
      simp only [fits, Bool.and_eq_true, beq_iff_eq] at hf
      obtain ⟨rfl, hg⟩ := hf
      rw [unmSh_enum]
      cases hv : v.isNil
      · rw [coerceTy_named] at h
        have hi : isNullIV (ivOf v) = false := by rw [ivOf_isNull]; exact hv
        simp only [hi] at h
        split at hg
        · rename_i vals hsg
          simp [hsg] at h
          split at h
          · rename_i x hx
            have hvx := ivOf_str hx
            subst hvx
            split at h
            · rename_i hmem
              cases h
              simp [unmEnum, hsg, hmem, embedSh_enum]
            · cases h
          · cases h
        · cases hg
      · obtain ⟨ht, rfl⟩ := coerceTy_nil hv h
        have := hn hv
        simp [Ty.nn] at ht
        subst ht
        simp [Sh.nilable, Ty.nn] at this
  | struct n' =>
    intro t v path cv hf hc hn h
    cases t with
    | list et nn => simp [fits] at hf
    | named n nn =>
      simp only [fits, Bool.and_eq_true, beq_iff_eq] at hf
      obtain ⟨rfl, hg⟩ := hf
      rw [unmSh_struct]
      cases hv : v.isNil
      · have hcv := coerceTy_nonnull hsobj (by rw [ivOf_isNull]; exact hv) h
        rw [coerceTy_named] at h
        have hi : isNullIV (ivOf v) = false := by rw [ivOf_isNull]; exact hv
        simp only [hi] at h
        split at hg
        · rename_i fields hsg
          simp [hsg] at h
          simp [hobj _ _ _ _ _ _ hsg hc hv h, embedSh_struct _ _ _ _ hcv]
        · cases hg
      · obtain ⟨ht, rfl⟩ := coerceTy_nil hv h
        have := hn hv
        simp [Ty.nn] at ht
        subst ht
        simp [Sh.nilable, Ty.nn] at this
  | mapIn n' =>
    intro t v path cv hf hc hn h
    cases t with
    | list et nn => simp [fits] at hf
    | named n nn =>
      simp only [fits, Bool.and_eq_true, beq_iff_eq] at hf
      obtain ⟨rfl, hg⟩ := hf
      rw [unmSh_mapIn]
      cases hv : v.isNil
      · have hcv := coerceTy_nonnull hsobj (by rw [ivOf_isNull]; exact hv) h
        rw [coerceTy_named] at h
        have hi : isNullIV (ivOf v) = false := by rw [ivOf_isNull]; exact hv
        simp only [hi] at h
        split at hg
        · rename_i fields hsg
          simp [hsg] at h
          simp [hobj _ _ _ _ _ _ hsg hc hv h, embedSh_mapIn _ _ _ _ hcv]
        · cases hg
      · obtain ⟨ht, rfl⟩ := coerceTy_nil hv h
        simp [ht, embedSh_null]

end GqlgenVerif.Coerce
