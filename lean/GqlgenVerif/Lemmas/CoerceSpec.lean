import GqlgenVerif.Lemmas.Coerce
/-! Lemmas towards `coerce_eq_spec` (Props/C02): what the client wrote for a dynamic value (`ivOf`), canonical
    values (`canon`), completeness of the numeric arms and decimal parsers, scalar-level agreement of the Impl
    with the Spec, shapes that fit a type. -/
set_option linter.unusedSimpArgs false
open GqlgenVerif GqlgenVerif.Coerce
namespace GqlgenVerif.Coerce
open Spec

/-! ## what the client wrote, for a dynamic value -/
mutual
def ivOf : Raw → IV
  | .nil => .null
  | .bool b => .bool b
  | .int n => .int n (toString n)
  | .i64 n => .int n (toString n)
  | .num t => (match jsonIntToken t with | some n => .int n t | none => .float t)
  | .f64 t => .floatLit t
  | .str s => .str s
  | .list xs => .list (ivOfList xs)
  | .typed _ xs => .list (ivOfList xs)
  | .obj fs => .obj (ivOfFields fs)
def ivOfList : List Raw → List IV
  | [] => []
  | x :: r => ivOf x :: ivOfList r
def ivOfFields : List (String × Raw) → List (String × IV)
  | [] => []
  | (k, v) :: r => (k, ivOf v) :: ivOfFields r
end

theorem ivOfList_eq (xs : List Raw) : ivOfList xs = xs.map ivOf := by
  induction xs with
  | nil => rfl
  | cons a r ih => simp [ivOfList, ih]

theorem lookup_ivOfFields (fs : List (String × Raw)) (k : String) :
    lookup (ivOfFields fs) k = (lookup fs k).map ivOf := by
  induction fs with
  | nil => rfl
  | cons a r ih =>
    obtain ⟨a1, a2⟩ := a
    simp only [ivOfFields, lookup]
    split <;> simp_all

/-- a `-` followed by digits of value 0 ("-0", "-00"): the one JSON integer token whose sign strconv.ParseUint
    refuses although its value is in range -/
def negZero (t : String) : Bool :=
  match t.toList with
  | '-' :: r => parseDigits r == some 0
  | _ => false

/-! values as the JSON decoder (UseNumber) and gqlparser's literal evaluation produce them: 64-bit Go integers,
    number tokens in float syntax other than "-0", no typed slices -/
mutual
def canon : Raw → Bool
  | .nil | .bool _ | .str _ | .f64 _ => true
  | .int n | .i64 n => inInt64 n
  | .num t => floatSyntax t && !negZero t
  | .list xs => canonList xs
  | .typed _ _ => false
  | .obj fs => canonFields fs
def canonList : List Raw → Bool
  | [] => true
  | x :: r => canon x && canonList r
def canonFields : List (String × Raw) → Bool
  | [] => true
  | (_, v) :: r => canon v && canonFields r
end

theorem canonList_mem {xs : List Raw} (h : canonList xs = true) {x : Raw} (hx : x ∈ xs) : canon x = true := by
  induction xs with
  | nil => cases hx
  | cons a r ih =>
    simp only [canonList, Bool.and_eq_true] at h
    cases hx with
    | head => exact h.1
    | tail _ hx' => exact ih h.2 hx'

theorem canonFields_lookup {fs : List (String × Raw)} (h : canonFields fs = true) {k : String} {v : Raw}
    (hk : lookup fs k = some v) : canon v = true := by
  induction fs with
  | nil => simp [lookup] at hk
  | cons a r ih =>
    obtain ⟨a1, a2⟩ := a
    simp only [canonFields, Bool.and_eq_true] at h
    simp only [lookup] at hk
    split at hk
    · cases hk; exact h.1
    · exact ih h.2 hk

/-! ## completeness of the numeric arms and of the decimal parsers -/

theorem conv_uint64_id {n : Int} (h0 : 0 ≤ n) (h1 : n ≤ Go.maxUint64) : Go.conv_uint64 n = n := by
  simp only [Go.conv_uint64, Go.maxUint64] at *; omega
theorem conv_int64_id {n : Int} (h0 : Go.minInt64 ≤ n) (h1 : n ≤ Go.maxInt64) : Go.conv_int64 n = n := by
  simp only [Go.conv_int64, Go.minInt64, Go.maxInt64] at *; omega
theorem conv_int32_id {n : Int} (h0 : Go.minInt32 ≤ n) (h1 : n ≤ Go.maxInt32) : Go.conv_int32 n = n := by
  simp only [Go.conv_int32, Go.minInt32, Go.maxInt32] at *; omega
theorem conv_uint32_id {n : Int} (h0 : 0 ≤ n) (h1 : n ≤ Go.maxUint32) : Go.conv_uint32 n = n := by
  simp only [Go.conv_uint32, Go.maxUint32] at *; omega

theorem inRange_bounds {k : ScalarK} {n lo hi : Int} (hr : intRange k = some (lo, hi)) (h : inRange k n = true) :
    lo ≤ n ∧ n ≤ hi := by
  simp [inRange, hr] at h; exact h

open Gen.IntCasts in
theorem numericArm_int (n : Int) (hr : inRange .int n = true) (h64 : inInt64 n = true) :
    Gen.IntCasts.run ("UnmarshalInt_int64") n = some (.ok n) ∧ Gen.IntCasts.run ("UnmarshalInt_int") n = some (.ok n) := by
  simp only [inInt64, decide_eq_true_eq] at h64
  have e64 : Go.conv_int64 n = n := conv_int64_id h64.1 h64.2
  have hb := inRange_bounds (k := .int) (by rfl) hr
  simp only [Go.minInt64, Go.maxInt64, Go.minInt32, Go.maxInt32, Go.maxUint64, Go.maxUint32] at hb
  refine ⟨?_, ?_⟩
  · simp only [Gen.IntCasts.run, UnmarshalInt_int64, safeCastInt32, safeCastUint32, Go.conv_int, Go.conv_uint, e64]
    simp
    all_goals (try rfl)
  · simp only [Gen.IntCasts.run, UnmarshalInt_int, safeCastInt32, safeCastUint32, Go.conv_int, Go.conv_uint, e64]
    simp
    all_goals (try rfl)
open Gen.IntCasts in
theorem numericArm_int64 (n : Int) (hr : inRange .int64 n = true) (h64 : inInt64 n = true) :
    Gen.IntCasts.run ("UnmarshalInt64_int64") n = some (.ok n) ∧ Gen.IntCasts.run ("UnmarshalInt64_int") n = some (.ok n) := by
  simp only [inInt64, decide_eq_true_eq] at h64
  have e64 : Go.conv_int64 n = n := conv_int64_id h64.1 h64.2
  have hb := inRange_bounds (k := .int64) (by rfl) hr
  simp only [Go.minInt64, Go.maxInt64, Go.minInt32, Go.maxInt32, Go.maxUint64, Go.maxUint32] at hb
  refine ⟨?_, ?_⟩
  · simp only [Gen.IntCasts.run, UnmarshalInt64_int64, safeCastInt32, safeCastUint32, Go.conv_int, Go.conv_uint, e64]
    simp
    all_goals (try rfl)
  · simp only [Gen.IntCasts.run, UnmarshalInt64_int, safeCastInt32, safeCastUint32, Go.conv_int, Go.conv_uint, e64]
    simp
    all_goals (try rfl)
open Gen.IntCasts in
theorem numericArm_intID (n : Int) (hr : inRange .intID n = true) (h64 : inInt64 n = true) :
    Gen.IntCasts.run ("UnmarshalIntID_int64") n = some (.ok n) ∧ Gen.IntCasts.run ("UnmarshalIntID_int") n = some (.ok n) := by
  simp only [inInt64, decide_eq_true_eq] at h64
  have e64 : Go.conv_int64 n = n := conv_int64_id h64.1 h64.2
  have hb := inRange_bounds (k := .intID) (by rfl) hr
  simp only [Go.minInt64, Go.maxInt64, Go.minInt32, Go.maxInt32, Go.maxUint64, Go.maxUint32] at hb
  refine ⟨?_, ?_⟩
  · simp only [Gen.IntCasts.run, UnmarshalIntID_int64, safeCastInt32, safeCastUint32, Go.conv_int, Go.conv_uint, e64]
    simp
    all_goals (try rfl)
  · simp only [Gen.IntCasts.run, UnmarshalIntID_int, safeCastInt32, safeCastUint32, Go.conv_int, Go.conv_uint, e64]
    simp
    all_goals (try rfl)
open Gen.IntCasts in
theorem numericArm_int32 (n : Int) (hr : inRange .int32 n = true) (h64 : inInt64 n = true) :
    Gen.IntCasts.run ("UnmarshalInt32_int64") n = some (.ok n) ∧ Gen.IntCasts.run ("UnmarshalInt32_int") n = some (.ok n) := by
  simp only [inInt64, decide_eq_true_eq] at h64
  have e64 : Go.conv_int64 n = n := conv_int64_id h64.1 h64.2
  have hb := inRange_bounds (k := .int32) (by rfl) hr
  simp only [Go.minInt64, Go.maxInt64, Go.minInt32, Go.maxInt32, Go.maxUint64, Go.maxUint32] at hb
  refine ⟨?_, ?_⟩
  · simp only [Gen.IntCasts.run, UnmarshalInt32_int64, safeCastInt32, safeCastUint32, Go.conv_int, Go.conv_uint, e64]
    simp
    have e := conv_int32_id (n := n) (by simp only [Go.minInt32]; omega) (by simp only [Go.maxInt32]; omega)
    have hn : ¬ (Go.maxInt32 < n ∨ n < Go.minInt32) := by simp only [Go.maxInt32, Go.minInt32]; omega
    rw [if_neg hn, e]
  · simp only [Gen.IntCasts.run, UnmarshalInt32_int, safeCastInt32, safeCastUint32, Go.conv_int, Go.conv_uint, e64]
    simp
    have e := conv_int32_id (n := n) (by simp only [Go.minInt32]; omega) (by simp only [Go.maxInt32]; omega)
    have hn : ¬ (Go.maxInt32 < n ∨ n < Go.minInt32) := by simp only [Go.maxInt32, Go.minInt32]; omega
    rw [if_neg hn, e]
open Gen.IntCasts in
theorem numericArm_uint (n : Int) (hr : inRange .uint n = true) (h64 : inInt64 n = true) :
    Gen.IntCasts.run ("UnmarshalUint_int64") n = some (.ok n) ∧ Gen.IntCasts.run ("UnmarshalUint_int") n = some (.ok n) := by
  simp only [inInt64, decide_eq_true_eq] at h64
  have e64 : Go.conv_int64 n = n := conv_int64_id h64.1 h64.2
  have hb := inRange_bounds (k := .uint) (by rfl) hr
  simp only [Go.minInt64, Go.maxInt64, Go.minInt32, Go.maxInt32, Go.maxUint64, Go.maxUint32] at hb
  refine ⟨?_, ?_⟩
  · simp only [Gen.IntCasts.run, UnmarshalUint_int64, safeCastInt32, safeCastUint32, Go.conv_int, Go.conv_uint, e64]
    simp
    have e := conv_uint64_id (n := n) (by omega) (by simp only [Go.maxUint64]; omega)
    rw [if_neg (by omega), e]
  · simp only [Gen.IntCasts.run, UnmarshalUint_int, safeCastInt32, safeCastUint32, Go.conv_int, Go.conv_uint, e64]
    simp
    have e := conv_uint64_id (n := n) (by omega) (by simp only [Go.maxUint64]; omega)
    rw [if_neg (by omega), e]
open Gen.IntCasts in
theorem numericArm_uint64 (n : Int) (hr : inRange .uint64 n = true) (h64 : inInt64 n = true) :
    Gen.IntCasts.run ("UnmarshalUint64_int64") n = some (.ok n) ∧ Gen.IntCasts.run ("UnmarshalUint64_int") n = some (.ok n) := by
  simp only [inInt64, decide_eq_true_eq] at h64
  have e64 : Go.conv_int64 n = n := conv_int64_id h64.1 h64.2
  have hb := inRange_bounds (k := .uint64) (by rfl) hr
  simp only [Go.minInt64, Go.maxInt64, Go.minInt32, Go.maxInt32, Go.maxUint64, Go.maxUint32] at hb
  refine ⟨?_, ?_⟩
  · simp only [Gen.IntCasts.run, UnmarshalUint64_int64, safeCastInt32, safeCastUint32, Go.conv_int, Go.conv_uint, e64]
    simp
    have e := conv_uint64_id (n := n) (by omega) (by simp only [Go.maxUint64]; omega)
    rw [if_neg (by omega), e]
  · simp only [Gen.IntCasts.run, UnmarshalUint64_int, safeCastInt32, safeCastUint32, Go.conv_int, Go.conv_uint, e64]
    simp
    have e := conv_uint64_id (n := n) (by omega) (by simp only [Go.maxUint64]; omega)
    rw [if_neg (by omega), e]
open Gen.IntCasts in
theorem numericArm_uintID (n : Int) (hr : inRange .uintID n = true) (h64 : inInt64 n = true) :
    Gen.IntCasts.run ("UnmarshalUintID_int64") n = some (.ok n) ∧ Gen.IntCasts.run ("UnmarshalUintID_int") n = some (.ok n) := by
  simp only [inInt64, decide_eq_true_eq] at h64
  have e64 : Go.conv_int64 n = n := conv_int64_id h64.1 h64.2
  have hb := inRange_bounds (k := .uintID) (by rfl) hr
  simp only [Go.minInt64, Go.maxInt64, Go.minInt32, Go.maxInt32, Go.maxUint64, Go.maxUint32] at hb
  refine ⟨?_, ?_⟩
  · simp only [Gen.IntCasts.run, UnmarshalUintID_int64, safeCastInt32, safeCastUint32, Go.conv_int, Go.conv_uint, e64]
    simp
    have e := conv_uint64_id (n := n) (by omega) (by simp only [Go.maxUint64]; omega)
    rw [if_neg (by omega), e]
  · simp only [Gen.IntCasts.run, UnmarshalUintID_int, safeCastInt32, safeCastUint32, Go.conv_int, Go.conv_uint, e64]
    simp
    have e := conv_uint64_id (n := n) (by omega) (by simp only [Go.maxUint64]; omega)
    rw [if_neg (by omega), e]
open Gen.IntCasts in
theorem numericArm_uint32 (n : Int) (hr : inRange .uint32 n = true) (h64 : inInt64 n = true) :
    Gen.IntCasts.run ("UnmarshalUint32_int64") n = some (.ok n) ∧ Gen.IntCasts.run ("UnmarshalUint32_int") n = some (.ok n) := by
  simp only [inInt64, decide_eq_true_eq] at h64
  have e64 : Go.conv_int64 n = n := conv_int64_id h64.1 h64.2
  have hb := inRange_bounds (k := .uint32) (by rfl) hr
  simp only [Go.minInt64, Go.maxInt64, Go.minInt32, Go.maxInt32, Go.maxUint64, Go.maxUint32] at hb
  refine ⟨?_, ?_⟩
  · simp only [Gen.IntCasts.run, UnmarshalUint32_int64, safeCastInt32, safeCastUint32, Go.conv_int, Go.conv_uint, e64]
    simp
    have e := conv_uint64_id (n := n) (by omega) (by simp only [Go.maxUint64]; omega)
    have e2 := conv_uint32_id (n := n) (by omega) (by simp only [Go.maxUint32]; omega)
    have hn : ¬ (Go.maxUint32 < n) := by simp only [Go.maxUint32]; omega
    rw [if_neg (by omega), e, if_neg hn, e2]
  · simp only [Gen.IntCasts.run, UnmarshalUint32_int, safeCastInt32, safeCastUint32, Go.conv_int, Go.conv_uint, e64]
    simp
    have e := conv_uint64_id (n := n) (by omega) (by simp only [Go.maxUint64]; omega)
    have e2 := conv_uint32_id (n := n) (by omega) (by simp only [Go.maxUint32]; omega)
    have hn : ¬ (Go.maxUint32 < n) := by simp only [Go.maxUint32]; omega
    rw [if_neg (by omega), e, if_neg hn, e2]

theorem parseInt64_of_decimalText {s : String} {n : Int} (h : decimalText true s = some n)
    (hr : inInt64 n = true) : parseInt64 s = .ok n := by
  simp only [inInt64, Go.minInt64, Go.maxInt64] at hr
  have hr := of_decide_eq_true hr
  unfold decimalText at h
  unfold parseInt64
  split at h
  · rename_i r he
    simp only [if_true] at h
    cases hd : parseDigits r with
    | none => simp [hd] at h
    | some m =>
      simp [hd] at h; subst h
      simp only [he, hd]
      rw [if_pos (by omega)]
  · rename_i r he
    simp only [if_true] at h
    cases hd : parseDigits r with
    | none => simp [hd] at h
    | some m =>
      simp [hd] at h; subst h
      simp only [he, hd]
      rw [if_pos (by simp only [Go.maxInt64]; omega)]
  · rename_i hm hp
    cases hd : parseDigits s.toList with
    | none => simp [hd] at h
    | some m =>
      simp [hd] at h; subst h
      split
      · rename_i r he; exact absurd he (hm r)
      · rename_i r he; exact absurd he (hp r)
      · simp only [hd]
        rw [if_pos (by simp only [Go.maxInt64]; omega)]

theorem parseInt64_of_jsonIntToken {t : String} {n : Int} (h : jsonIntToken t = some n)
    (hr : inInt64 n = true) : parseInt64 t = .ok n := by
  apply parseInt64_of_decimalText _ hr
  unfold jsonIntToken at h
  unfold decimalText
  split at h
  · rename_i r he; simp only [he, if_true]; exact h
  · rename_i hm
    split
    · rename_i r he; exact absurd he (hm r)
    · rename_i r he; rw [he, parseDigits_plus] at h; cases h
    · exact h

theorem parseUint64_of_digits {s : String} {m : Nat} (hd : parseDigits s.toList = some m)
    (h1 : (m : Int) ≤ Go.maxUint64) : parseUint64 s = .ok (m : Int) := by
  unfold parseUint64
  simp only [hd]
  rw [if_pos h1]

theorem parseUint64_of_decimalText {s : String} {n : Int} (h : decimalText false s = some n)
    (h1 : n ≤ Go.maxUint64) : parseUint64 s = .ok n := by
  unfold decimalText at h
  split at h
  · simp at h
  · simp at h
  · cases hd : parseDigits s.toList with
    | none => simp [hd] at h
    | some m =>
      simp [hd] at h; subst h
      exact parseUint64_of_digits hd h1

theorem parseUint64_of_jsonIntToken {t : String} {n : Int} (h : jsonIntToken t = some n) (h0 : 0 ≤ n)
    (h1 : n ≤ Go.maxUint64) (hz : negZero t = false) : parseUint64 t = .ok n := by
  unfold jsonIntToken at h
  unfold negZero at hz
  split at h
  · rename_i r he
    simp only [he] at hz
    cases hd : parseDigits r with
    | none => simp [hd] at h
    | some m =>
      simp [hd] at h hz
      subst h
      omega
  · cases hd : parseDigits t.toList with
    | none => simp [hd] at h
    | some m =>
      simp [hd] at h; subst h
      exact parseUint64_of_digits hd h1

/-- a coerced scalar as the Go value of the bound type -/
def scalarGo : CV → GoV
  | .int n => .int n
  | .float x => .float x
  | .str x => .str x
  | .fmt6 x => .fmt6 x
  | .bool b => .bool b
  | _ => .nil

theorem inInt64_of_bounds {n : Int} (h0 : Go.minInt64 ≤ n) (h1 : n ≤ Go.maxInt64) : inInt64 n = true := by
  simp [inInt64, h0, h1]

theorem inInt64_of_inRange_signed {k : ScalarK} {n : Int} (hk : signedKind k = true) (hk' : intRange k ≠ none)
    (hr : inRange k n = true) : inInt64 n = true := by
  cases k <;> simp [signedKind] at hk <;> simp [intRange] at hk' <;>
    (have hb := inRange_bounds (by rfl) hr
     simp only [Go.minInt32, Go.maxInt32, Go.minInt64, Go.maxInt64] at hb
     exact inInt64_of_bounds (by simp only [Go.minInt64]; omega) (by simp only [Go.maxInt64]; omega))

theorem safeCastInt32_complete {n : Int} (hr : inRange .int32 n = true) : Gen.IntCasts.safeCastInt32 n = .ok n := by
  have hb := inRange_bounds (k := .int32) (by rfl) hr
  have e := conv_int32_id hb.1 hb.2
  have hn : ¬ (n > Go.maxInt32 ∨ n < Go.minInt32) := by
    simp only [Go.maxInt32, Go.minInt32] at hb ⊢; omega
  simp only [Gen.IntCasts.safeCastInt32]
  rw [if_neg hn, e]

theorem safeCastUint32_complete {n : Int} (hr : inRange .uint32 n = true) : Gen.IntCasts.safeCastUint32 n = .ok n := by
  have hb := inRange_bounds (k := .uint32) (by rfl) hr
  have e := conv_uint32_id hb.1 hb.2
  have hn : ¬ (n > Go.maxUint32) := by simp only [Go.maxUint32] at hb ⊢; omega
  simp only [Gen.IntCasts.safeCastUint32]
  rw [if_neg hn, e]

theorem uint_bounds {k : ScalarK} {n : Int} (hk : signedKind k = false) (hr : inRange k n = true) :
    0 ≤ n ∧ n ≤ Go.maxUint64 := by
  cases k <;> simp [signedKind] at hk <;>
    (have hb := inRange_bounds (by rfl) hr
     simp only [Go.maxUint32, Go.maxUint64] at hb ⊢
     omega)

theorem scalar_eq_spec_int (tn : String) (v : Raw) (hc : canon v = true) (hv : v.isNil = false) (path : Path) (cv : CV)
    (h : coerceScalar {} tn .int (ivOf v) = some cv) : scalar .int v path = .ok (scalarGo cv) := by
  cases v
  case typed k xs => simp [canon] at hc
  all_goals
    simp [scalar, armsOf, arm, armBody, Gen.ScalarArms.fn_UnmarshalInt, Raw.goType, armSem, numericArm,
      scalarFn, Raw.isNil, textOf, ivOf, coerceScalar, canon, signedKind] at h hv hc ⊢
  case int n =>
    obtain ⟨hr, rfl⟩ := h
    simp [(numericArm_int n hr hc).2, liftCast, scalarGo]
  case i64 n =>
    obtain ⟨hr, rfl⟩ := h
    simp [(numericArm_int n hr hc).1, liftCast, scalarGo]
  case num t =>
    cases hj : jsonIntToken t with
    | none => simp [hj] at h
    | some n =>
      simp [hj] at h
      obtain ⟨hr, rfl⟩ := h
      have h64 := inInt64_of_inRange_signed (k := .int) (by rfl) (by simp [intRange]) hr
      have hp := parseInt64_of_jsonIntToken hj h64
      simp [hp, scalarGo]
  case str t =>
    obtain ⟨_, h⟩ := h
    cases hd : decimalText true t with
    | none => simp [hd] at h
    | some n =>
      simp [hd] at h
      obtain ⟨hr, rfl⟩ := h
      have h64 := inInt64_of_inRange_signed (k := .int) (by rfl) (by simp [intRange]) hr
      have hp := parseInt64_of_decimalText hd h64
      simp [hp, scalarGo]

theorem scalar_eq_spec_int64 (tn : String) (v : Raw) (hc : canon v = true) (hv : v.isNil = false) (path : Path) (cv : CV)
    (h : coerceScalar {} tn .int64 (ivOf v) = some cv) : scalar .int64 v path = .ok (scalarGo cv) := by
  cases v
  case typed k xs => simp [canon] at hc
  all_goals
    simp [scalar, armsOf, arm, armBody, Gen.ScalarArms.fn_UnmarshalInt64, Raw.goType, armSem, numericArm,
      scalarFn, Raw.isNil, textOf, ivOf, coerceScalar, canon, signedKind] at h hv hc ⊢
  case int n =>
    obtain ⟨hr, rfl⟩ := h
    simp [(numericArm_int64 n hr hc).2, liftCast, scalarGo]
  case i64 n =>
    obtain ⟨hr, rfl⟩ := h
    simp [(numericArm_int64 n hr hc).1, liftCast, scalarGo]
  case num t =>
    cases hj : jsonIntToken t with
    | none => simp [hj] at h
    | some n =>
      simp [hj] at h
      obtain ⟨hr, rfl⟩ := h
      have h64 := inInt64_of_inRange_signed (k := .int64) (by rfl) (by simp [intRange]) hr
      have hp := parseInt64_of_jsonIntToken hj h64
      simp [hp, scalarGo]
  case str t =>
    obtain ⟨_, h⟩ := h
    cases hd : decimalText true t with
    | none => simp [hd] at h
    | some n =>
      simp [hd] at h
      obtain ⟨hr, rfl⟩ := h
      have h64 := inInt64_of_inRange_signed (k := .int64) (by rfl) (by simp [intRange]) hr
      have hp := parseInt64_of_decimalText hd h64
      simp [hp, scalarGo]

theorem scalar_eq_spec_intID (tn : String) (v : Raw) (hc : canon v = true) (hv : v.isNil = false) (path : Path) (cv : CV)
    (h : coerceScalar {} tn .intID (ivOf v) = some cv) : scalar .intID v path = .ok (scalarGo cv) := by
  cases v
  case typed k xs => simp [canon] at hc
  all_goals
    simp [scalar, armsOf, arm, armBody, Gen.ScalarArms.fn_UnmarshalIntID, Raw.goType, armSem, numericArm,
      scalarFn, Raw.isNil, textOf, ivOf, coerceScalar, canon, signedKind] at h hv hc ⊢
  case int n =>
    obtain ⟨hr, rfl⟩ := h
    simp [(numericArm_intID n hr hc).2, liftCast, scalarGo]
  case i64 n =>
    obtain ⟨hr, rfl⟩ := h
    simp [(numericArm_intID n hr hc).1, liftCast, scalarGo]
  case num t =>
    cases hj : jsonIntToken t with
    | none => simp [hj] at h
    | some n =>
      simp [hj] at h
      obtain ⟨hr, rfl⟩ := h
      have h64 := inInt64_of_inRange_signed (k := .intID) (by rfl) (by simp [intRange]) hr
      have hp := parseInt64_of_jsonIntToken hj h64
      simp [hp, scalarGo]
  case str t =>
    obtain ⟨_, h⟩ := h
    cases hd : decimalText true t with
    | none => simp [hd] at h
    | some n =>
      simp [hd] at h
      obtain ⟨hr, rfl⟩ := h
      have h64 := inInt64_of_inRange_signed (k := .intID) (by rfl) (by simp [intRange]) hr
      have hp := parseInt64_of_decimalText hd h64
      simp [hp, scalarGo]

theorem scalar_eq_spec_int32 (tn : String) (v : Raw) (hc : canon v = true) (hv : v.isNil = false) (path : Path) (cv : CV)
    (h : coerceScalar {} tn .int32 (ivOf v) = some cv) : scalar .int32 v path = .ok (scalarGo cv) := by
  cases v
  case typed k xs => simp [canon] at hc
  all_goals
    simp [scalar, armsOf, arm, armBody, Gen.ScalarArms.fn_UnmarshalInt32, Raw.goType, armSem, numericArm,
      scalarFn, Raw.isNil, textOf, ivOf, coerceScalar, canon, signedKind] at h hv hc ⊢
  case int n =>
    obtain ⟨hr, rfl⟩ := h
    simp [(numericArm_int32 n hr hc).2, liftCast, scalarGo]
  case i64 n =>
    obtain ⟨hr, rfl⟩ := h
    simp [(numericArm_int32 n hr hc).1, liftCast, scalarGo]
  case num t =>
    cases hj : jsonIntToken t with
    | none => simp [hj] at h
    | some n =>
      simp [hj] at h
      obtain ⟨hr, rfl⟩ := h
      have h64 := inInt64_of_inRange_signed (k := .int32) (by rfl) (by simp [intRange]) hr
      have hp := parseInt64_of_jsonIntToken hj h64
      simp [hp, liftCast, safeCastInt32_complete hr, scalarGo]
  case str t =>
    obtain ⟨_, h⟩ := h
    cases hd : decimalText true t with
    | none => simp [hd] at h
    | some n =>
      simp [hd] at h
      obtain ⟨hr, rfl⟩ := h
      have h64 := inInt64_of_inRange_signed (k := .int32) (by rfl) (by simp [intRange]) hr
      have hp := parseInt64_of_decimalText hd h64
      simp [hp, liftCast, safeCastInt32_complete hr, scalarGo]

theorem scalar_eq_spec_uint (tn : String) (v : Raw) (hc : canon v = true) (hv : v.isNil = false) (path : Path) (cv : CV)
    (h : coerceScalar {} tn .uint (ivOf v) = some cv) : scalar .uint v path = .ok (scalarGo cv) := by
  cases v
  case typed k xs => simp [canon] at hc
  all_goals
    simp [scalar, armsOf, arm, armBody, Gen.ScalarArms.fn_UnmarshalUint, Raw.goType, armSem, numericArm,
      scalarFn, Raw.isNil, textOf, ivOf, coerceScalar, canon, signedKind] at h hv hc ⊢
  case int n =>
    obtain ⟨hr, rfl⟩ := h
    simp [(numericArm_uint n hr hc).2, liftCast, scalarGo]
  case i64 n =>
    obtain ⟨hr, rfl⟩ := h
    simp [(numericArm_uint n hr hc).1, liftCast, scalarGo]
  case num t =>
    cases hj : jsonIntToken t with
    | none => simp [hj] at h
    | some n =>
      simp [hj] at h
      obtain ⟨hr, rfl⟩ := h
      have hb := uint_bounds (k := .uint) (by rfl) hr
      have hp := parseUint64_of_jsonIntToken hj hb.1 hb.2 hc.2
      simp [hp, conv_uint_id (show Go.inUint64 n from hb), scalarGo]
  case str t =>
    obtain ⟨_, h⟩ := h
    cases hd : decimalText false t with
    | none => simp [hd] at h
    | some n =>
      simp [hd] at h
      obtain ⟨hr, rfl⟩ := h
      have hb := uint_bounds (k := .uint) (by rfl) hr
      have hp := parseUint64_of_decimalText hd hb.2
      simp [hp, conv_uint_id (show Go.inUint64 n from hb), scalarGo]

theorem scalar_eq_spec_uintID (tn : String) (v : Raw) (hc : canon v = true) (hv : v.isNil = false) (path : Path) (cv : CV)
    (h : coerceScalar {} tn .uintID (ivOf v) = some cv) : scalar .uintID v path = .ok (scalarGo cv) := by
  cases v
  case typed k xs => simp [canon] at hc
  all_goals
    simp [scalar, armsOf, arm, armBody, Gen.ScalarArms.fn_UnmarshalUintID, Raw.goType, armSem, numericArm,
      scalarFn, Raw.isNil, textOf, ivOf, coerceScalar, canon, signedKind] at h hv hc ⊢
  case int n =>
    obtain ⟨hr, rfl⟩ := h
    simp [(numericArm_uintID n hr hc).2, liftCast, scalarGo]
  case i64 n =>
    obtain ⟨hr, rfl⟩ := h
    simp [(numericArm_uintID n hr hc).1, liftCast, scalarGo]
  case num t =>
    cases hj : jsonIntToken t with
    | none => simp [hj] at h
    | some n =>
      simp [hj] at h
      obtain ⟨hr, rfl⟩ := h
      have hb := uint_bounds (k := .uintID) (by rfl) hr
      have hp := parseUint64_of_jsonIntToken hj hb.1 hb.2 hc.2
      simp [hp, conv_uint_id (show Go.inUint64 n from hb), scalarGo]
  case str t =>
    obtain ⟨_, h⟩ := h
    cases hd : decimalText false t with
    | none => simp [hd] at h
    | some n =>
      simp [hd] at h
      obtain ⟨hr, rfl⟩ := h
      have hb := uint_bounds (k := .uintID) (by rfl) hr
      have hp := parseUint64_of_decimalText hd hb.2
      simp [hp, conv_uint_id (show Go.inUint64 n from hb), scalarGo]

theorem scalar_eq_spec_uint64 (tn : String) (v : Raw) (hc : canon v = true) (hv : v.isNil = false) (path : Path) (cv : CV)
    (h : coerceScalar {} tn .uint64 (ivOf v) = some cv) : scalar .uint64 v path = .ok (scalarGo cv) := by
  cases v
  case typed k xs => simp [canon] at hc
  all_goals
    simp [scalar, armsOf, arm, armBody, Gen.ScalarArms.fn_UnmarshalUint64, Raw.goType, armSem, numericArm,
      scalarFn, Raw.isNil, textOf, ivOf, coerceScalar, canon, signedKind] at h hv hc ⊢
  case int n =>
    obtain ⟨hr, rfl⟩ := h
    simp [(numericArm_uint64 n hr hc).2, liftCast, scalarGo]
  case i64 n =>
    obtain ⟨hr, rfl⟩ := h
    simp [(numericArm_uint64 n hr hc).1, liftCast, scalarGo]
  case num t =>
    cases hj : jsonIntToken t with
    | none => simp [hj] at h
    | some n =>
      simp [hj] at h
      obtain ⟨hr, rfl⟩ := h
      have hb := uint_bounds (k := .uint64) (by rfl) hr
      have hp := parseUint64_of_jsonIntToken hj hb.1 hb.2 hc.2
      simp [hp, scalarGo]
  case str t =>
    obtain ⟨_, h⟩ := h
    cases hd : decimalText false t with
    | none => simp [hd] at h
    | some n =>
      simp [hd] at h
      obtain ⟨hr, rfl⟩ := h
      have hb := uint_bounds (k := .uint64) (by rfl) hr
      have hp := parseUint64_of_decimalText hd hb.2
      simp [hp, scalarGo]

theorem scalar_eq_spec_uint32 (tn : String) (v : Raw) (hc : canon v = true) (hv : v.isNil = false) (path : Path) (cv : CV)
    (h : coerceScalar {} tn .uint32 (ivOf v) = some cv) : scalar .uint32 v path = .ok (scalarGo cv) := by
  cases v
  case typed k xs => simp [canon] at hc
  all_goals
    simp [scalar, armsOf, arm, armBody, Gen.ScalarArms.fn_UnmarshalUint32, Raw.goType, armSem, numericArm,
      scalarFn, Raw.isNil, textOf, ivOf, coerceScalar, canon, signedKind] at h hv hc ⊢
  case int n =>
    obtain ⟨hr, rfl⟩ := h
    simp [(numericArm_uint32 n hr hc).2, liftCast, scalarGo]
  case i64 n =>
    obtain ⟨hr, rfl⟩ := h
    simp [(numericArm_uint32 n hr hc).1, liftCast, scalarGo]
  case num t =>
    cases hj : jsonIntToken t with
    | none => simp [hj] at h
    | some n =>
      simp [hj] at h
      obtain ⟨hr, rfl⟩ := h
      have hb := uint_bounds (k := .uint32) (by rfl) hr
      have hp := parseUint64_of_jsonIntToken hj hb.1 hb.2 hc.2
      simp [hp, liftCast, safeCastUint32_complete hr, scalarGo]
  case str t =>
    obtain ⟨_, h⟩ := h
    cases hd : decimalText false t with
    | none => simp [hd] at h
    | some n =>
      simp [hd] at h
      obtain ⟨hr, rfl⟩ := h
      have hb := uint_bounds (k := .uint32) (by rfl) hr
      have hp := parseUint64_of_decimalText hd hb.2
      simp [hp, liftCast, safeCastUint32_complete hr, scalarGo]

theorem scalar_eq_spec_id (tn : String) (v : Raw) (hc : canon v = true) (hv : v.isNil = false) (path : Path) (cv : CV)
    (h : coerceScalar {} tn .id (ivOf v) = some cv) : scalar .id v path = .ok (scalarGo cv) := by
  cases v
  case typed k xs => simp [canon] at hc
  all_goals
    simp [scalar, armsOf, arm, armBody, Gen.ScalarArms.fn_UnmarshalID, Raw.goType, armSem, numericArm,
      scalarFn, Raw.isNil, textOf, numOf, ivOf, coerceScalar, canon, intDecStr] at h hv hc ⊢
  all_goals first
    | (subst h; simp [scalarGo]; done)
    | (rename_i t; cases hj : jsonIntToken t <;> simp [hj] at h <;> subst h <;> simp [scalarGo, hc.1]; done)
    | skip

theorem scalar_eq_spec_string (tn : String) (v : Raw) (hc : canon v = true) (hv : v.isNil = false) (path : Path) (cv : CV)
    (h : coerceScalar {} tn .string (ivOf v) = some cv) : scalar .string v path = .ok (scalarGo cv) := by
  cases v
  case typed k xs => simp [canon] at hc
  all_goals
    simp [scalar, armsOf, arm, armBody, Gen.ScalarArms.fn_UnmarshalString, Raw.goType, armSem, numericArm,
      scalarFn, Raw.isNil, textOf, numOf, ivOf, coerceScalar, canon, intDecStr] at h hv hc ⊢
  all_goals first
    | (subst h; simp [scalarGo]; done)
    | (rename_i t; cases hj : jsonIntToken t <;> simp [hj] at h <;> subst h <;> simp [scalarGo, hc.1]; done)
    | skip

theorem scalar_eq_spec_float (tn : String) (v : Raw) (hc : canon v = true) (hv : v.isNil = false) (path : Path) (cv : CV)
    (h : coerceScalar {} tn .float (ivOf v) = some cv) : scalar .float v path = .ok (scalarGo cv) := by
  cases v
  case typed k xs => simp [canon] at hc
  all_goals
    simp [scalar, armsOf, arm, armBody, Gen.ScalarArms.fn_UnmarshalFloat, Raw.goType, armSem, numericArm,
      scalarFn, Raw.isNil, textOf, numOf, ivOf, coerceScalar, canon, intDecStr] at h hv hc ⊢
  all_goals first
    | (subst h; simp [scalarGo]; done)
    | (rename_i t; cases hj : jsonIntToken t <;> simp [hj] at h <;> subst h <;> simp [scalarGo, hc.1]; done)
    | skip

theorem scalar_eq_spec_bool (tn : String) (v : Raw) (hc : canon v = true) (hv : v.isNil = false) (path : Path) (cv : CV)
    (h : coerceScalar {} tn .bool (ivOf v) = some cv) : scalar .bool v path = .ok (scalarGo cv) := by
  cases v
  case typed k xs => simp [canon] at hc
  all_goals
    simp [scalar, armsOf, arm, armBody, Gen.ScalarArms.fn_UnmarshalBoolean, Raw.goType, armSem, numericArm,
      scalarFn, Raw.isNil, textOf, numOf, ivOf, coerceScalar, canon, intDecStr] at h hv hc ⊢
  all_goals first
    | (subst h; simp [scalarGo]; done)
    | (rename_i t; cases hj : jsonIntToken t <;> simp [hj] at h <;> subst h <;> simp [scalarGo, hc.1]; done)
    | skip

/-- **Scalars: the generated code's unmarshaler returns exactly the specification's coerced value**, for every
    scalar binding, whenever the specification accepts the input. -/
theorem scalar_eq_spec (tn : String) (k : ScalarK) (hk : k ≠ .any) (v : Raw) (hc : canon v = true)
    (hv : v.isNil = false) (path : Path) (cv : CV) (h : coerceScalar {} tn k (ivOf v) = some cv) :
    scalar k v path = .ok (scalarGo cv) := by
  cases k
  · exact scalar_eq_spec_int tn v hc hv path cv h
  · exact scalar_eq_spec_int32 tn v hc hv path cv h
  · exact scalar_eq_spec_int64 tn v hc hv path cv h
  · exact scalar_eq_spec_uint tn v hc hv path cv h
  · exact scalar_eq_spec_uint32 tn v hc hv path cv h
  · exact scalar_eq_spec_uint64 tn v hc hv path cv h
  · exact scalar_eq_spec_id tn v hc hv path cv h
  · exact scalar_eq_spec_intID tn v hc hv path cv h
  · exact scalar_eq_spec_uintID tn v hc hv path cv h
  · exact scalar_eq_spec_string tn v hc hv path cv h
  · exact scalar_eq_spec_float tn v hc hv path cv h
  · exact scalar_eq_spec_bool tn v hc hv path cv h
  · exact absurd rfl hk

/-! ## structure: shapes that fit a type -/

/-- `sh` is a Go shape the generated code can use for GraphQL type `t` (what `shapeRef` / `shapeField` produce
    for well-formed types; `Any` and lists of map-backed inputs are outside the Spec's embedding) -/
def fits (s : Schema) : Sh → Ty → Bool
  | .ptr i, t => fits s i t
  | .slice el, .list et _ => fits s el et && (et.nn || el.nilable)
  | .scalar k, .named n _ => k != .any && (match s.get n with | some (.scalar k') => k == k' | _ => false)
  | .enum n', .named n _ => n' == n && (match s.get n with | some (.enum _) => true | _ => false)
  | .struct n', .named n _ => n' == n && (match s.get n with | some (.input false _) => true | _ => false)
  | .mapIn n', .named n _ => n' == n && (match s.get n with | some (.input true _) => true | _ => false)
  | _, _ => false

theorem coerceTy_named (s : Schema) (sobj : List FieldDef → IV → Path → Except SErr CV) (n : String) (nn : Bool)
    (iv : IV) (path : Path) :
    coerceTy {} s sobj (.named n nn) iv path =
      if isNullIV iv then (if nn then .error (.at path) else .ok .null) else
      match s.get n with
      | none => .error (.at path)
      | some (.scalar k) => (match coerceScalar {} n k iv with | some c => .ok c | none => .error (.at path))
      | some (.enum vals) =>
        (match iv with
         | .str x => if vals.contains x then .ok (.str x) else .error (.at path)
         | _ => .error (.at path))
      | some (.input _ fields) => sobj fields iv path := by
  conv => lhs; unfold coerceTy
  simp [Ty.nn]
  try rfl

theorem coerceTy_list (s : Schema) (sobj : List FieldDef → IV → Path → Except SErr CV) (et : Ty) (nn : Bool)
    (iv : IV) (path : Path) :
    coerceTy {} s sobj (.list et nn) iv path =
      if isNullIV iv then (if nn then .error (.at path) else .ok .null) else
      (match iv with
       | .list xs =>
         (match mapIdxE (fun i x => coerceTy {} s sobj et x (path ++ [toString i])) 0 xs with
          | .ok cs => .ok (.list cs)
          | .error e => .error e)
       | _ =>
         (match coerceTy {} s sobj et iv (path ++ ["0"]) with
          | .ok c => .ok (.list [c])
          | .error e => .error e)) := by
  conv => lhs; unfold coerceTy
  simp [Ty.nn]
  try rfl

/-! ## the generated unmarshal function agrees with the Spec, up to input objects -/

theorem ivOf_isNull (v : Raw) : isNullIV (ivOf v) = v.isNil := by
  cases v <;> simp [ivOf, isNullIV, Raw.isNil]
  case num t => cases jsonIntToken t <;> simp [isNullIV]

theorem ivOf_str {v : Raw} {x : String} (h : ivOf v = .str x) : v = .str x := by
  cases v <;> simp [ivOf] at h
  case num t => cases hj : jsonIntToken t <;> simp [hj] at h
  case str s => simp [h]

theorem ivOf_list {v : Raw} {xs : List IV} (hc : canon v = true) (h : ivOf v = .list xs) :
    ∃ ys, v = .list ys ∧ xs = ys.map ivOf := by
  cases v <;> simp [ivOf] at h
  case num t => cases hj : jsonIntToken t <;> simp [hj] at h
  case list ys => exact ⟨ys, rfl, by rw [← h, ivOfList_eq]⟩
  case typed k ys => simp [canon] at hc

theorem ivOf_not_list_single {v : Raw} (hc : canon v = true) (hv : v.isNil = false)
    (h : ∀ xs, ivOf v ≠ .list xs) : Single v = true := by
  cases v <;> simp [Single, Raw.isNil, canon] at hv hc ⊢
  case list ys => exact absurd rfl (h _)

/-- pointwise transfer along `mapIdxE` -/
theorem mapIdxE_rel {α β γ δ ε ε' : Type} (φ : α → γ) (ψ : δ → β) (f : Nat → α → Except ε β)
    (g : Nat → γ → Except ε' δ) (xs : List α)
    (h : ∀ i x c, x ∈ xs → g i (φ x) = .ok c → f i x = .ok (ψ c)) :
    ∀ (i : Nat) (cs : List δ), mapIdxE g i (xs.map φ) = .ok cs → mapIdxE f i xs = .ok (cs.map ψ) := by
  induction xs with
  | nil => intro i cs hg; simp [mapIdxE] at hg ⊢; subst hg; rfl
  | cons a r ih =>
    intro i cs hg
    simp only [List.map, mapIdxE] at hg ⊢
    split at hg
    · cases hg
    · rename_i c hc
      split at hg
      · cases hg
      · rename_i cs' hcs
        cases hg
        rw [h i a c (by simp) hc]
        rw [ih (fun i x c hx => h i x c (by simp [hx])) (i + 1) cs' hcs]
        rfl

theorem coerceList_list (xs : List Raw) : coerceList (.list xs) = xs := by
  simp [coerceList, arm, armBody, Gen.ScalarArms.fn_CoerceList, Raw.goType]

theorem embedSh_null (eobj : String → Bool → CV → GoV) (sh : Sh) (t : Ty) :
    embedSh eobj sh t .null = (match sh with | .slice _ => .nilSlice | .mapIn _ => .nilMap | _ => .nil) := by
  cases sh <;> (unfold embedSh; rfl)

theorem embedSh_ptr (eobj : String → Bool → CV → GoV) (i : Sh) (t : Ty) (cv : CV) (h : cv ≠ .null) :
    embedSh eobj (.ptr i) t cv = .ptr (embedSh eobj i t cv) := by
  cases cv <;> first | (exact absurd rfl h) | (conv => lhs; unfold embedSh)

theorem embedSh_slice (eobj : String → Bool → CV → GoV) (el : Sh) (et : Ty) (nn : Bool) (cs : List CV) :
    embedSh eobj (.slice el) (.list et nn) (.list cs) = .slice (cs.map (embedSh eobj el et)) := by
  conv => lhs; unfold embedSh

theorem embedSh_scalar (eobj : String → Bool → CV → GoV) (k : ScalarK) (hk : k ≠ .any) (t : Ty) (cv : CV)
    (h : cv ≠ .null) : embedSh eobj (.scalar k) t cv = scalarGo cv := by
  cases k <;> first | (exact absurd rfl hk) | (cases cv <;> first | (exact absurd rfl h) | (unfold embedSh; rfl))

theorem embedSh_enum (eobj : String → Bool → CV → GoV) (n : String) (t : Ty) (x : String) :
    embedSh eobj (.enum n) t (.str x) = .str x := by
  unfold embedSh; rfl

theorem embedSh_struct (eobj : String → Bool → CV → GoV) (n : String) (t : Ty) (cv : CV) (h : cv ≠ .null) :
    embedSh eobj (.struct n) t cv = eobj n false cv := by
  cases cv <;> first | (exact absurd rfl h) | (unfold embedSh; rfl)

theorem embedSh_mapIn (eobj : String → Bool → CV → GoV) (n : String) (t : Ty) (cv : CV) (h : cv ≠ .null) :
    embedSh eobj (.mapIn n) t cv = eobj n true cv := by
  cases cv <;> first | (exact absurd rfl h) | (unfold embedSh; rfl)

theorem coerceScalar_nonnull {tn : String} {k : ScalarK} {iv : IV} {cv : CV}
    (h : coerceScalar {} tn k iv = some cv) : cv ≠ .null := by
  intro hc; subst hc
  cases k <;> cases iv <;> simp [coerceScalar] at h <;> (try split at h) <;> simp_all

theorem coerceTy_nil {s : Schema} {sobj : List FieldDef → IV → Path → Except SErr CV} {t : Ty} {v : Raw}
    {path : Path} {cv : CV} (hv : v.isNil = true) (h : coerceTy {} s sobj t (ivOf v) path = .ok cv) :
    t.nn = false ∧ cv = .null := by
  have hi : isNullIV (ivOf v) = true := by rw [ivOf_isNull]; exact hv
  cases t with
  | named n nn =>
    rw [coerceTy_named] at h
    simp only [hi, if_true] at h
    cases nn <;> simp [Ty.nn] at h ⊢
    exact h.symm
  | list et nn =>
    rw [coerceTy_list] at h
    simp only [hi, if_true] at h
    cases nn <;> simp [Ty.nn] at h ⊢
    exact h.symm

theorem coerceTy_nonnull {s : Schema} {sobj : List FieldDef → IV → Path → Except SErr CV}
    (hsobj : ∀ fields iv path cv, sobj fields iv path = .ok cv → cv ≠ .null)
    {t : Ty} {iv : IV} {path : Path} {cv : CV} (hv : isNullIV iv = false)
    (h : coerceTy {} s sobj t iv path = .ok cv) : cv ≠ .null := by
  cases t with
  | named n nn =>
    rw [coerceTy_named] at h
    simp only [hv] at h
    simp at h
    split at h
    · cases h
    · split at h
      · cases h; rename_i hc; exact coerceScalar_nonnull hc
      · cases h
    · split at h
      · split at h
        · cases h; simp
        · cases h
      · cases h
    · exact hsobj _ _ _ _ h
  | list et nn =>
    rw [coerceTy_list] at h
    simp only [hv] at h
    simp at h
    split at h
    · split at h
      · cases h; simp
      · cases h
    · split at h
      · cases h; simp
      · cases h

theorem unmSh_eq_spec (s : Schema)
    (uobj : String → Bool → Raw → Path → Res GoV)
    (sobj : List FieldDef → IV → Path → Except SErr CV)
    (eobj : String → Bool → CV → GoV)
    (hsobj : ∀ fields iv path cv, sobj fields iv path = .ok cv → cv ≠ .null)
    (hobj : ∀ n isMap fields v path cv, s.get n = some (.input isMap fields) → canon v = true →
        v.isNil = false → sobj fields (ivOf v) path = .ok cv → uobj n isMap v path = .ok (eobj n isMap cv)) :
    ∀ (sh : Sh) (t : Ty) (v : Raw) (path : Path) (cv : CV),
      fits s sh t = true → canon v = true → (v.isNil = true → t.nn = true ∨ sh.nilable = true) →
      coerceTy {} s sobj t (ivOf v) path = .ok cv →
      unmSh s uobj sh t v path = .ok (embedSh eobj sh t cv) := by
  intro sh
  induction sh with
  | bad w => intro t v path cv hf; cases t <;> simp [fits] at hf
  | ptr i ih =>
    intro t v path cv hf hc hn h
    rw [unmSh_ptr]
    cases hv : v.isNil
    · have hcv := coerceTy_nonnull hsobj (by rw [ivOf_isNull]; exact hv) h
      have := ih t v path cv (by simpa [fits] using hf) hc (by simp [hv]) h
      simp [this, embedSh_ptr _ _ _ _ hcv]
    · obtain ⟨ht, rfl⟩ := coerceTy_nil hv h
      simp [ht, embedSh_null]
  | slice el ih =>
    intro t v path cv hf hc hn h
    cases t with
    | named n nn => simp [fits] at hf
    | list et nn =>
      simp only [fits, Bool.and_eq_true] at hf
      rw [unmSh_slice]
      cases hv : v.isNil
      · rw [coerceTy_list] at h
        have hi : isNullIV (ivOf v) = false := by rw [ivOf_isNull]; exact hv
        simp only [hi] at h
        simp at h ⊢
        by_cases hl : ∃ xs, ivOf v = .list xs
        · obtain ⟨xs, hxs⟩ := hl
          obtain ⟨ys, rfl, rfl⟩ := ivOf_list hc hxs
          rw [hxs] at h
          simp only at h
          split at h
          · rename_i cs hcs
            cases h
            have hcl : canonList ys = true := by simpa [canon] using hc
            have := mapIdxE_rel ivOf (embedSh eobj el et)
              (fun i x => unmSh s uobj el et x (path ++ [toString i]))
              (fun i y => coerceTy {} s sobj et y (path ++ [toString i])) ys
              (fun i x c hx hg => ih et x _ c hf.1 (canonList_mem hcl hx)
                (fun _ => by
                  have := hf.2
                  simp only [Bool.or_eq_true] at this
                  exact this) hg) 0 cs hcs
            simp only [unmSlice, coerceList_list, Bool.false_and, Bool.false_eq_true, if_false]
            rw [this, embedSh_slice]
          · cases h
        · have hsingle : Single v = true := ivOf_not_list_single hc hv (fun xs hx => hl ⟨xs, hx⟩)
          have h0 : toString 0 = "0" := by decide
          split at h
          · rename_i xs hx; exact absurd ⟨xs, hx⟩ hl
          · split at h
            · rename_i c hcc
              cases h
              have := ih et v (path ++ ["0"]) c hf.1 hc (by simp [hv]) hcc
              simp only [unmSlice, coerceList_single v hsingle, mapIdxE, h0, this, embedSh_slice, Bool.false_and,
                Bool.false_eq_true, if_false, List.map]
            · cases h
      · obtain ⟨ht, rfl⟩ := coerceTy_nil hv h
        simp [ht, embedSh_null]
  | scalar k =>
    intro t v path cv hf hc hn h
    cases t with
    | list et nn => simp [fits] at hf
    | named n nn =>
      simp only [fits, Bool.and_eq_true, bne_iff_ne, ne_eq] at hf
      obtain ⟨hk, hg⟩ := hf
      rw [unmSh_scalar _ _ _ hk]
      cases hv : v.isNil
      · rw [coerceTy_named] at h
        have hi : isNullIV (ivOf v) = false := by rw [ivOf_isNull]; exact hv
        simp only [hi] at h
        split at hg
        · rename_i k' hsg
          simp at hg; subst hg
          simp [hsg] at h
          split at h
          · rename_i c hcs
            cases h
            simp [scalar_eq_spec n k hk v hc hv path _ hcs, embedSh_scalar _ _ hk _ _ (coerceScalar_nonnull hcs)]
          · cases h
        · cases hg
      · obtain ⟨ht, rfl⟩ := coerceTy_nil hv h
        have := hn hv
        simp [Ty.nn] at ht
        subst ht
        cases k <;> simp [Sh.nilable, Ty.nn] at this
        exact absurd rfl hk
  | enum n' =>
    intro t v path cv hf hc hn h
    cases t with
    | list et nn => simp [fits] at hf
    | named n nn =>
      simp only [fits, Bool.and_eq_true, beq_iff_eq] at hf
      obtain ⟨rfl, hg⟩ := hf
      rw [unmSh_enum]
      cases hv : v.isNil
      · rw [coerceTy_named] at h
        have hi : isNullIV (ivOf v) = false := by rw [ivOf_isNull]; exact hv
        simp only [hi] at h
        split at hg
        · rename_i vals hsg
          simp [hsg] at h
          split at h
          · rename_i x hx
            have hvx := ivOf_str hx
            subst hvx
            split at h
            · rename_i hmem
              cases h
              simp [unmEnum, hsg, hmem, embedSh_enum]
            · cases h
          · cases h
        · cases hg
      · obtain ⟨ht, rfl⟩ := coerceTy_nil hv h
        have := hn hv
        simp [Ty.nn] at ht
        subst ht
        simp [Sh.nilable, Ty.nn] at this
  | struct n' =>
    intro t v path cv hf hc hn h
    cases t with
    | list et nn => simp [fits] at hf
    | named n nn =>
      simp only [fits, Bool.and_eq_true, beq_iff_eq] at hf
      obtain ⟨rfl, hg⟩ := hf
      rw [unmSh_struct]
      cases hv : v.isNil
      · have hcv := coerceTy_nonnull hsobj (by rw [ivOf_isNull]; exact hv) h
        rw [coerceTy_named] at h
        have hi : isNullIV (ivOf v) = false := by rw [ivOf_isNull]; exact hv
        simp only [hi] at h
        split at hg
        · rename_i fields hsg
          simp [hsg] at h
          simp [hobj _ _ _ _ _ _ hsg hc hv h, embedSh_struct _ _ _ _ hcv]
        · cases hg
      · obtain ⟨ht, rfl⟩ := coerceTy_nil hv h
        have := hn hv
        simp [Ty.nn] at ht
        subst ht
        simp [Sh.nilable, Ty.nn] at this
  | mapIn n' =>
    intro t v path cv hf hc hn h
    cases t with
    | list et nn => simp [fits] at hf
    | named n nn =>
      simp only [fits, Bool.and_eq_true, beq_iff_eq] at hf
      obtain ⟨rfl, hg⟩ := hf
      rw [unmSh_mapIn]
      cases hv : v.isNil
      · have hcv := coerceTy_nonnull hsobj (by rw [ivOf_isNull]; exact hv) h
        rw [coerceTy_named] at h
        have hi : isNullIV (ivOf v) = false := by rw [ivOf_isNull]; exact hv
        simp only [hi] at h
        split at hg
        · rename_i fields hsg
          simp [hsg] at h
          simp [hobj _ _ _ _ _ _ hsg hc hv h, embedSh_mapIn _ _ _ _ hcv]
        · cases hg
      · obtain ⟨ht, rfl⟩ := coerceTy_nil hv h
        simp [ht, embedSh_null]

/-! ## input objects: default injection, field lookup, the fuel induction -/

theorem lookup_append {α : Type} (m : List (String × α)) (k' : String) (v : α) (k : String) :
    lookup (m ++ [(k', v)]) k = (match lookup m k with | some x => some x | none => if k' = k then some v else none) := by
  induction m with
  | nil => simp [lookup]
  | cons a r ih =>
    obtain ⟨a1, a2⟩ := a
    simp only [List.cons_append, lookup]
    split
    · rfl
    · exact ih

def injStep (m : List (String × Raw)) (f : FieldDef) : List (String × Raw) :=
  match f.dflt with
  | some d => if (lookup m f.name).isSome then m else m ++ [(f.name, dumpDefault d)]
  | none => m

theorem injectDefaults_eq (fields : List FieldDef) (m : List (String × Raw)) :
    injectDefaults fields m = fields.foldl injStep m := by
  unfold injectDefaults; rfl

theorem lookup_injStep_ne (m : List (String × Raw)) (f : FieldDef) (k : String) (h : f.name ≠ k) :
    lookup (injStep m f) k = lookup m k := by
  unfold injStep
  split
  · split
    · rfl
    · rw [lookup_append]; cases lookup m k <;> simp [h]
  · rfl

theorem lookup_injStep_self (m : List (String × Raw)) (f : FieldDef) :
    lookup (injStep m f) f.name =
      (match lookup m f.name with | some x => some x | none => f.dflt.map dumpDefault) := by
  unfold injStep
  cases hd : f.dflt with
  | none => simp; cases lookup m f.name <;> rfl
  | some d =>
    simp only
    cases hl : lookup m f.name with
    | some x => simp [hl]
    | none => simp [lookup_append, hl]

theorem lookup_foldl_not_mem (fields : List FieldDef) (m : List (String × Raw)) (k : String)
    (h : ∀ fd ∈ fields, fd.name ≠ k) : lookup (fields.foldl injStep m) k = lookup m k := by
  induction fields generalizing m with
  | nil => rfl
  | cons a r ih =>
    simp only [List.foldl]
    rw [ih _ (fun fd hfd => h fd (by simp [hfd])), lookup_injStep_ne _ _ _ (h a (by simp))]

/-- `asMap` after default injection, looked up at a field of the type: the provided value, else the dumped default -/
theorem lookup_injectDefaults (fields : List FieldDef) (hnd : (fields.map (·.name)).Nodup) (m : List (String × Raw))
    (fd : FieldDef) (hfd : fd ∈ fields) :
    lookup (injectDefaults fields m) fd.name =
      (match lookup m fd.name with | some x => some x | none => fd.dflt.map dumpDefault) := by
  rw [injectDefaults_eq]
  induction fields generalizing m with
  | nil => cases hfd
  | cons a r ih =>
    simp only [List.map, List.nodup_cons] at hnd
    simp only [List.foldl]
    cases hfd with
    | head =>
      rw [lookup_foldl_not_mem r _ _ (fun fd' hfd' hne => hnd.1 (by rw [← hne]; exact List.mem_map_of_mem hfd'))]
      exact lookup_injStep_self m fd
    | tail _ hmem =>
      have hne : a.name ≠ fd.name := fun he => hnd.1 (by rw [he]; exact List.mem_map_of_mem hmem)
      rw [ih hnd.2 _ hmem, lookup_injStep_ne _ _ _ hne]

/-- two lists related position by position -/
inductive All2 {α β : Type} (R : α → β → Prop) : List α → List β → Prop
  | nil : All2 R [] []
  | cons {a : α} {b : β} {as : List α} {bs : List β} : R a b → All2 R as bs → All2 R (a :: as) (b :: bs)

theorem mapE_ok_forall2 {ε α β : Type} {f : α → Except ε β} {xs : List α} {ys : List β}
    (h : mapE f xs = .ok ys) : All2 (fun x y => f x = .ok y) xs ys := by
  induction xs generalizing ys with
  | nil => simp [mapE] at h; subst h; exact .nil
  | cons a r ih =>
    simp only [mapE] at h
    split at h
    · cases h
    · rename_i b hb
      split at h
      · cases h
      · rename_i bs hbs
        cases h
        exact .cons hb (ih hbs)

theorem mapE_ok_of_forall {ε α β : Type} {f : α → Except ε β} {g : α → β} {xs : List α}
    (h : ∀ x ∈ xs, f x = .ok (g x)) : mapE f xs = .ok (xs.map g) := by
  induction xs with
  | nil => rfl
  | cons a r ih =>
    simp only [mapE, List.map]
    rw [h a (by simp), ih (fun x hx => h x (by simp [hx]))]

theorem lookup_app {α : Type} (a b : List (String × α)) (k : String) :
    lookup (a ++ b) k = (match lookup a k with | some x => some x | none => lookup b k) := by
  induction a with
  | nil => simp [lookup]
  | cons x r ih =>
    obtain ⟨x1, x2⟩ := x
    simp only [List.cons_append, lookup]
    split
    · rfl
    · exact ih

/-- the entries the Spec produces for the fields of an input type: omitted, or keyed by the field's name -/
def KeyedBy (fd : FieldDef) (y : Option (String × CV)) : Prop := y = none ∨ ∃ c, y = some (fd.name, c)

theorem lookup_filterMap_none {F : List FieldDef} {kvs : List (Option (String × CV))}
    (h : All2 KeyedBy F kvs) (k : String) (hk : ∀ fd ∈ F, fd.name ≠ k) :
    lookup (kvs.filterMap id) k = none := by
  induction h with
  | nil => rfl
  | @cons fd y F' kvs' hy _ ih =>
    rcases hy with rfl | ⟨c, rfl⟩
    · simpa using ih (fun fd' hfd' => hk fd' (by simp [hfd']))
    · simp only [List.filterMap_cons, id, lookup]
      rw [if_neg (hk fd (by simp))]
      exact ih (fun fd' hfd' => hk fd' (by simp [hfd']))

theorem lookup_filterMap_keyed {F : List FieldDef} {kvs : List (Option (String × CV))}
    (h : All2 KeyedBy F kvs) (hnd : (F.map (·.name)).Nodup) :
    ∀ (pre : List (String × CV)), (∀ fd ∈ F, lookup pre fd.name = none) →
      All2 (fun fd y => lookup (pre ++ kvs.filterMap id) fd.name = y.map (·.2)) F kvs := by
  induction h with
  | nil => intro pre _; exact .nil
  | @cons fd y F' kvs' hy hrest ih =>
    intro pre hpre
    simp only [List.map, List.nodup_cons] at hnd
    have hne : ∀ fd' ∈ F', fd'.name ≠ fd.name :=
      fun fd' hfd' he => hnd.1 (by rw [← he]; exact List.mem_map_of_mem hfd')
    refine .cons ?_ ?_
    · rw [lookup_app, hpre fd (by simp)]
      rcases hy with rfl | ⟨c, rfl⟩
      · simpa using lookup_filterMap_none hrest fd.name hne
      · simp [lookup]
    · rcases hy with rfl | ⟨c, rfl⟩
      · simpa using ih hnd.2 pre (fun fd' hfd' => hpre fd' (by simp [hfd']))
      · have := ih hnd.2 (pre ++ [(fd.name, c)]) (fun fd' hfd' => by
          rw [lookup_app, hpre fd' (by simp [hfd'])]
          simp [lookup, (hne fd' hfd').symm])
        simpa [List.append_assoc] using this

theorem All2.and {α β : Type} {R S : α → β → Prop} {xs : List α} {ys : List β}
    (h1 : All2 R xs ys) (h2 : All2 S xs ys) : All2 (fun x y => R x y ∧ S x y) xs ys := by
  induction h1 with
  | nil => exact .nil
  | cons hr _ ih => cases h2 with | cons hs h2' => exact .cons ⟨hr, hs⟩ (ih h2')

theorem All2.imp {α β : Type} {R S : α → β → Prop} {xs : List α} {ys : List β}
    (h : All2 R xs ys) (hi : ∀ x y, R x y → S x y) : All2 S xs ys := by
  induction h with
  | nil => exact .nil
  | cons hr _ ih => exact .cons (hi _ _ hr) ih

theorem All2.mem {α β : Type} {R : α → β → Prop} {xs : List α} {ys : List β}
    (h : All2 R xs ys) {x : α} (hx : x ∈ xs) : ∃ y, R x y := by
  induction h with
  | nil => cases hx
  | cons hr _ ih =>
    cases hx with
    | head => exact ⟨_, hr⟩
    | tail _ hx' => exact ih hx'

theorem ivOf_ne_absent (v : Raw) : ivOf v ≠ .absentVar := by
  cases v <;> simp [ivOf]
  case num t => cases jsonIntToken t <;> simp

theorem ivOf_obj {v : Raw} {fs : List (String × IV)} (h : ivOf v = .obj fs) :
    ∃ m, v = .obj m ∧ fs = ivOfFields m := by
  cases v <;> simp [ivOf] at h
  case num t => cases hj : jsonIntToken t <;> simp [hj] at h
  case obj m => exact ⟨m, rfl, h.symm⟩

/-- what is asked of a schema: distinct field names, field types whose Go shapes fit them, literal defaults
    (no variables, integers within int64, nesting below `litDepth`) -/
structure SchemaWF (s : Schema) (c : Cfg) : Prop where
  nodup : ∀ n isMap fields, s.get n = some (.input isMap fields) → (fields.map (·.name)).Nodup
  fitsField : ∀ n isMap fields fd, s.get n = some (.input isMap fields) → fd ∈ fields →
    fits s (shapeField s c fd.ty) fd.ty = true ∧ fits s (shapeRef s c fd.ty) fd.ty = true
  dflt : ∀ n isMap fields fd d, s.get n = some (.input isMap fields) → fd ∈ fields → fd.dflt = some d →
    ivOf (dumpDefault d) = ivOfLit [] litDepth d ∧ canon (dumpDefault d) = true

/-- the agreement of Impl and Spec at one fuel level (the induction hypothesis of `coerce_eq_spec`) -/
def Agree (s : Schema) (c : Cfg) (f : Nat) : Prop :=
  ∀ (t : Ty) (sh : Sh) (v : Raw) (path : Path) (cv : CV),
    fits s sh t = true → canon v = true → (v.isNil = true → t.nn = true ∨ sh.nilable = true) →
    coerce {} s f t (ivOf v) path = .ok cv →
    unm s c f t sh v path = .ok (embed s c f t sh cv)

/-- one field: what the Spec says about it determines what the generated code does with it -/
theorem field_agree {s : Schema} {c : Cfg} {f : Nat} (ag : Agree s c f)
    {fields : List FieldDef} {m : List (String × Raw)} {path : Path} {fd : FieldDef} {sh : Sh}
    (hcm : canonFields m = true)
    (hdf : ∀ d, fd.dflt = some d → ivOf (dumpDefault d) = ivOfLit [] litDepth d ∧ canon (dumpDefault d) = true)
    (hfit : fits s sh fd.ty = true) (hnil : fd.ty.nn = false → sh.nilable = true)
    (hlook : lookup (injectDefaults fields m) fd.name =
      (match lookup m fd.name with | some x => some x | none => fd.dflt.map dumpDefault))
    {y : Option (String × CV)}
    (hy : objField {} (coerce {} s f) (ivOfFields m) path fd = .ok y) :
    (lookup (injectDefaults fields m) fd.name = none ∧ y = none) ∨
    (∃ fv cv', lookup (injectDefaults fields m) fd.name = some fv ∧ y = some (fd.name, cv') ∧
      unm s c f fd.ty sh fv (path ++ [fd.name]) = .ok (embed s c f fd.ty sh cv')) := by
  unfold objField at hy
  simp only [lookup_ivOfFields] at hy
  have hnilcond : ∀ fv : Raw, fv.isNil = true → fd.ty.nn = true ∨ sh.nilable = true := by
    intro fv _
    cases hnn : fd.ty.nn
    · exact Or.inr (hnil hnn)
    · exact Or.inl rfl
  cases hl : lookup m fd.name with
  | some x =>
    have hcx : canon x = true := canonFields_lookup hcm hl
    simp only [hl, Option.map_some] at hy hlook
    have hprov : providedOf {} (some (ivOf x)) = some (ivOf x) := by
      have hna := ivOf_ne_absent x
      cases hx : ivOf x <;> first | (exact absurd hx hna) | rfl
    rw [hprov] at hy
    simp only [useValOf] at hy
    split at hy
    · rename_i cv' hcv'
      cases hy
      exact Or.inr ⟨x, cv', hlook, rfl, ag _ _ _ _ _ hfit hcx (hnilcond x) hcv'⟩
    · cases hy
  | none =>
    simp only [hl, Option.map_none] at hy hlook
    have hprov : providedOf {} (none : Option IV) = none := rfl
    rw [hprov] at hy
    cases hd : fd.dflt with
    | none =>
      simp only [useValOf, hd, Option.map_none] at hy hlook
      split at hy
      · cases hy
      · cases hy; exact Or.inl ⟨hlook, rfl⟩
    | some d =>
      obtain ⟨he, hcd⟩ := hdf d hd
      simp only [useValOf, hd, Option.map_some] at hy hlook
      rw [← he] at hy
      split at hy
      · rename_i cv' hcv'
        cases hy
        exact Or.inr ⟨_, cv', hlook, rfl, ag _ _ _ _ _ hfit hcd (hnilcond _) hcv'⟩
      · cases hy

theorem objField_keyed {dv : Devs} {rec : Ty → IV → Path → Except SErr CV} {fs : List (String × IV)}
    {path : Path} {fd : FieldDef} {y : Option (String × CV)} (h : objField dv rec fs path fd = .ok y) :
    KeyedBy fd y := by
  unfold objField at h
  dsimp only at h
  split at h
  · split at h
    · cases h
    · cases h; exact Or.inl rfl
  · split at h
    · cases h; exact Or.inr ⟨_, rfl⟩
    · cases h

/-- what `coerceObj` succeeding means -/
theorem coerceObj_ok {dv : Devs} {rec : Ty → IV → Path → Except SErr CV} {fields : List FieldDef} {iv : IV}
    {path : Path} {cv : CV} (h : coerceObj dv rec fields iv path = .ok cv) :
    ∃ fs kvs, iv = .obj fs ∧ mapE (objField dv rec fs path) fields = .ok kvs ∧ cv = .obj (kvs.filterMap id) := by
  unfold coerceObj at h
  split at h
  · rename_i fs
    split at h
    · cases h
    · split at h
      · rename_i kvs hk
        cases h
        exact ⟨fs, kvs, rfl, hk, rfl⟩
      · cases h
  · cases h

theorem coerceObj_nonnull {dv : Devs} {rec : Ty → IV → Path → Except SErr CV} {fields : List FieldDef} {iv : IV}
    {path : Path} {cv : CV} (h : coerceObj dv rec fields iv path = .ok cv) : cv ≠ .null := by
  obtain ⟨_, _, _, _, rfl⟩ := coerceObj_ok h
  simp

/-- **Input objects: `unmarshalInput*` agrees with the Spec**, given agreement on the field values. -/
theorem obj_eq_spec {s : Schema} {c : Cfg} (wf : SchemaWF s c) {f : Nat} (ag : Agree s c f)
    {n : String} {isMap : Bool} {fields : List FieldDef} (hs : s.get n = some (.input isMap fields))
    {v : Raw} (hc : canon v = true) {path : Path} {cv : CV}
    (h : coerceObj {} (coerce {} s f) fields (ivOf v) path = .ok cv) :
    (if isMap then unmMap s c (unm s c f) n v path
     else unmStruct s c (zero s c f) (unm s c f) n v path) =
      .ok (embedObj s c (zero s c f) (embed s c f) n isMap cv) := by
  obtain ⟨fs, kvs, hiv, hk, rfl⟩ := coerceObj_ok h
  obtain ⟨m, rfl, rfl⟩ := ivOf_obj hiv
  have hcm : canonFields m = true := by simpa [canon] using hc
  have hnd := wf.nodup n isMap fields hs
  have A := mapE_ok_forall2 hk
  have K := lookup_filterMap_keyed (A.imp (fun _ _ hxy => objField_keyed hxy)) hnd [] (fun _ _ => rfl)
  have AK := A.and K
  simp only [List.nil_append] at AK
  -- per field
  have key : ∀ fd ∈ fields, ∀ sh, fits s sh fd.ty = true → (fd.ty.nn = false → sh.nilable = true) →
      (lookup (injectDefaults fields m) fd.name = none ∧ lookup (kvs.filterMap id) fd.name = none) ∨
      (∃ fv cv', lookup (injectDefaults fields m) fd.name = some fv ∧
        lookup (kvs.filterMap id) fd.name = some cv' ∧
        unm s c f fd.ty sh fv (path ++ [fd.name]) = .ok (embed s c f fd.ty sh cv')) := by
    intro fd hfd sh hfit hnil
    obtain ⟨y, hy, hlk⟩ := AK.mem hfd
    rcases field_agree ag hcm (fun d hd => wf.dflt n isMap fields fd d hs hfd hd) hfit hnil
        (lookup_injectDefaults fields hnd m fd hfd) hy with ⟨h1, rfl⟩ | ⟨fv, cv', h1, rfl, h3⟩
    · exact Or.inl ⟨h1, by simpa using hlk⟩
    · exact Or.inr ⟨fv, cv', h1, by simpa using hlk, h3⟩
  cases isMap
  · -- struct-backed
    simp only [Bool.false_eq_true, if_false, unmStruct, embedObj, hs]
    have hm : mapE (structField s c (zero s c f) (unm s c f) (injectDefaults fields m) path) fields =
        .ok (fields.map fun fd =>
          match lookup (kvs.filterMap id) fd.name with
          | none => (fd.goName, if fieldOmittable c fd.ty then GoV.unset else zero s c f (shapeField s c fd.ty))
          | some v => (fd.goName, if fieldOmittable c fd.ty then GoV.set (embed s c f fd.ty (shapeField s c fd.ty) v)
                        else embed s c f fd.ty (shapeField s c fd.ty) v)) := by
      apply mapE_ok_of_forall
      intro fd hfd
      rcases key fd hfd (shapeField s c fd.ty) (wf.fitsField n false fields fd hs hfd).1
          (shapeField_nilable s c fd.ty) with ⟨h1, h2⟩ | ⟨fv, cv', h1, h2, h3⟩
      · simp [structField, h1, h2]
      · simp [structField, h1, h2, h3]
    rw [hm]
    simp only []
    try rfl
  · -- map-backed
    simp only [if_true, unmMap, embedObj, hs]
    have hm : mapE (mapField s c (unm s c f) (injectDefaults fields m) path) fields =
        .ok (fields.map fun fd =>
          (lookup (kvs.filterMap id) fd.name).map fun v => (fd.name, embed s c f fd.ty (shapeRef s c fd.ty) v)) := by
      apply mapE_ok_of_forall
      intro fd hfd
      rcases key fd hfd (shapeRef s c fd.ty) (wf.fitsField n true fields fd hs hfd).2
          (shapeRef_nilable s c fd.ty) with ⟨h1, h2⟩ | ⟨fv, cv', h1, h2, h3⟩
      · simp [mapField, h1, h2]
      · simp [mapField, h1, h2, h3]
    rw [hm]
    simp [List.filterMap_map]
    try rfl

/-- Impl and Spec agree at every fuel level -/
theorem agree_all {s : Schema} {c : Cfg} (wf : SchemaWF s c) : ∀ f, Agree s c f := by
  intro f
  induction f with
  | zero => intro t sh v path cv _ _ _ h; simp [coerce] at h
  | succ f ih =>
    intro t sh v path cv hf hc hn h
    rw [unm_succ]
    exact unmSh_eq_spec s _ (coerceObj {} (coerce {} s f)) (embedObj s c (zero s c f) (embed s c f))
      (fun _ _ _ _ h' => coerceObj_nonnull h')
      (fun n isMap fields v path cv hs hc' _ h' => obj_eq_spec wf ih hs hc' h')
      sh t v path cv hf hc hn h

/-! ## the shapes the model derives fit their types -/

/-- a type the Spec's embedding covers: its base type is defined, is not `Any`, and a map-backed input is not
    inside a list (F02c) -/
def tyOK (s : Schema) : Ty → Bool
  | .named n _ => (match s.get n with
      | some (.scalar k) => k != .any
      | some _ => true
      | none => false)
  | .list e _ => tyOK s e && (isMapBase s e).isNone

theorem baseShape_fits (s : Schema) (n : String) (nn : Bool) (h : tyOK s (.named n nn) = true) :
    fits s (baseShape s n) (.named n nn) = true := by
  simp only [tyOK] at h
  unfold baseShape
  cases hg : s.get n with
  | none => simp [hg] at h
  | some td =>
    cases td with
    | scalar k => simp [hg] at h; simp [fits, hg, h]
    | enum vals => simp [fits, hg]
    | input isMap fields => cases isMap <;> simp [fits, hg]

theorem shapeArg_nilable (s : Schema) (c : Cfg) (t : Ty) (ht : t.nn = false) : (shapeArg s c t).nilable = true := by
  cases t with
  | named n nn =>
    simp [Ty.nn] at ht; subst ht
    simp only [shapeArg]
    cases h : (baseShape s n).nilable
    · simp [h, Sh.nilable]
    · simp [h]
  | list e nn => simp [shapeArg, Sh.nilable]

theorem shapeArg_fits (s : Schema) (c : Cfg) : ∀ t, tyOK s t = true → fits s (shapeArg s c t) t = true := by
  intro t
  induction t with
  | named n nn =>
    intro h
    simp only [shapeArg]
    split
    · simpa [fits] using baseShape_fits s n nn h
    · exact baseShape_fits s n nn h
  | list e nn ih =>
    intro h
    simp only [tyOK, Bool.and_eq_true] at h
    have hfe := ih h.1
    simp only [shapeArg]
    have hnil : (e.nn || (shapeArg s c e).nilable) = true := by
      cases hnn : e.nn
      · simp [shapeArg_nilable s c e hnn]
      · simp
    split
    · simp [fits, hfe, Sh.nilable]
    · simp [fits, hfe, hnil]

theorem shapeRef_fits (s : Schema) (c : Cfg) (t : Ty) (h : tyOK s t = true) : fits s (shapeRef s c t) t = true := by
  unfold shapeRef
  cases hm : isMapBase s t with
  | none => exact shapeArg_fits s c t h
  | some n =>
    cases t with
    | list e nn =>
      simp only [tyOK, Bool.and_eq_true] at h
      simp only [isMapBase] at hm
      simp [hm] at h
    | named n' nn =>
      simp only [isMapBase] at hm
      split at hm
      · rename_i fields hg
        cases hm
        simp [fits, hg]
      · cases hm

theorem shapeField_fits (s : Schema) (c : Cfg) (t : Ty) (h : tyOK s t = true) : fits s (shapeField s c t) t = true := by
  unfold shapeField
  dsimp only
  split
  · simpa [fits] using shapeRef_fits s c t h
  · exact shapeRef_fits s c t h

end GqlgenVerif.Coerce
