import GqlgenVerif.Lemmas.Assoc
import GqlgenVerif.Model.Collect
/-! Field collection: gqlgen's nested, incrementally grouped `collectFields` (Impl) equals the flat
    §6.3.2 grouping by response key (Spec) whenever gqlgen's slot test agrees with "same response key" on the
    occurrences at hand. -/
namespace GqlgenVerif
open Assoc

/-- (name, alias, objDef) of a collected field / occurrence -/
abbrev FKey := String × String × String
def κa : FKey → String := fun k => k.2.1

/-- gqlgen's slot test as a relation on keys (entry first, probe second) -/
def matchKey (s : Schema) (a b : FKey) : Bool :=
  a.1 == b.1 && a.2.1 == b.2.1 && relatedDefs s a.2.2 b.2.2

def cviewCF (cf : CF) : E FKey Sel := ((cf.name, cf.alias, cf.objDef), cf.sels)
def cview (l : List CF) : List (E FKey Sel) := l.map cviewCF
def oview (l : List Spec.Occ) : List (E FKey Sel) := l.map fun o => ((o.name, o.alias, o.objDef), o.sels)

/-- on these keys gqlgen's test coincides with "same response key" -/
def AgreeOn (s : Schema) (ks : List FKey) : Prop :=
  ∀ a ∈ ks, ∀ b ∈ ks, matchKey s a b = (κa a == κa b)

def keysOf (l : List (E FKey Sel)) : List FKey := l.map (·.1)

theorem findIdx?_congr_mem {β : Type} (l : List β) (p q : β → Bool) (h : ∀ x ∈ l, p x = q x) :
    l.findIdx? p = l.findIdx? q := by
  induction l with
  | nil => rfl
  | cons a t ih =>
    simp only [List.findIdx?_cons, h a (by simp)]
    rw [ih (fun x hx => h x (by simp [hx]))]

theorem findSlot_eq_slot (s : Schema) (acc : List CF) (k : FKey)
    (h : ∀ e ∈ cview acc, matchKey s e.1 k = (κa e.1 == κa k)) :
    findSlot s acc k.1 k.2.1 k.2.2 = slot κa (cview acc) k := by
  unfold findSlot slot cview
  rw [List.findIdx?_map]
  apply findIdx?_congr_mem
  intro cf hcf
  have := h (cviewCF cf) (List.mem_map_of_mem hcf)
  simpa [matchKey, cviewCF, κa] using this

theorem map_modify_comm {β γ : Type} (l : List β) (i : Nat) (f : β → β) (g : β → γ) (f' : γ → γ)
    (h : ∀ x, g (f x) = f' (g x)) : (l.modify i f).map g = (l.map g).modify i f' := by
  induction l generalizing i with
  | nil => simp
  | cons a t ih =>
    cases i with
    | zero => simp [h]
    | succ j => simp only [List.modify_succ_cons, List.map_cons]; rw [ih]

/-- the field branch of `collectFields` on views -/
theorem cview_field_step (s : Schema) (acc : List CF) (alias name objDef : String) (ss : List Sel)
    (fd : List String)
    (h : ∀ e ∈ cview acc, matchKey s e.1 (name, alias, objDef) = (κa e.1 == κa (name, alias, objDef))) :
    cview (match findSlot s acc name alias objDef with
      | some i => acc.modify i fun f => { f with sels := f.sels ++ ss }
      | none => acc ++ [{ alias, name, objDef, sels := ss, fdirs := fd }]) =
    add κa (cview acc) (name, alias, objDef) ss := by
  have hs := findSlot_eq_slot s acc (name, alias, objDef) h
  simp only at hs
  unfold add
  rw [← hs]
  cases findSlot s acc name alias objDef with
  | none => simp [cview, cviewCF]
  | some i =>
    simp only [cview]
    exact map_modify_comm acc i _ cviewCF _ (fun x => by simp [cviewCF])


theorem keysOf_modify (l : List (E FKey Sel)) (i : Nat) (p : List Sel) :
    keysOf (l.modify i (fun e => (e.1, e.2 ++ p))) = keysOf l := by
  induction l generalizing i with
  | nil => simp [keysOf]
  | cons h t ih =>
    cases i with
    | zero => simp [keysOf]
    | succ j => simp only [List.modify_succ_cons, keysOf, List.map_cons] at *; rw [ih]

theorem mem_keysOf_add (l : List (E FKey Sel)) (k : FKey) (p : List Sel) (x : FKey)
    (h : x ∈ keysOf (add κa l k p)) : x ∈ keysOf l ∨ x = k := by
  unfold add at h
  cases hs : slot κa l k with
  | some i => rw [hs] at h; simp only [] at h; rw [keysOf_modify] at h; exact Or.inl h
  | none =>
    rw [hs] at h; simp only [keysOf, List.map_append, List.map_cons, List.map_nil, List.mem_append,
      List.mem_singleton] at h
    exact h

theorem mem_keysOf_addAll (es l : List (E FKey Sel)) (x : FKey)
    (h : x ∈ keysOf (addAll κa l es)) : x ∈ keysOf l ∨ x ∈ keysOf es := by
  induction es generalizing l with
  | nil => exact Or.inl h
  | cons e t ih =>
    simp only [addAll, List.foldl_cons] at h
    rcases ih (add κa l e.1 e.2) h with h1 | h1
    · rcases mem_keysOf_add l e.1 e.2 x h1 with h2 | h2
      · exact Or.inl h2
      · exact Or.inr (by simp [keysOf, h2])
    · exact Or.inr (by simp only [keysOf, List.map_cons, List.mem_cons]; exact Or.inr h1)

theorem cview_mergeChild (s : Schema) (acc : List CF) (child : CF) (d : Bool) (lb : String)
    (h : ∀ e ∈ cview acc, matchKey s e.1 (cviewCF child).1 = (κa e.1 == κa (cviewCF child).1)) :
    cview (Impl.mergeChild false s acc child d lb) = add κa (cview acc) (cviewCF child).1 child.sels := by
  have hs := findSlot_eq_slot s acc (cviewCF child).1 h
  simp only [cviewCF] at hs
  unfold Impl.mergeChild add
  simp only [cviewCF]
  rw [← hs]
  cases findSlot s acc child.name child.alias child.objDef with
  | none => simp [cview, cviewCF]
  | some i =>
    simp only [cview]
    exact map_modify_comm acc i _ cviewCF _ (fun x => by simp [cviewCF])

theorem cview_mergeChildren (s : Schema) (children acc : List CF) (d : Bool) (lb : String)
    (h : AgreeOn s (keysOf (cview acc) ++ keysOf (cview children))) :
    cview (Impl.mergeChildren false s acc children d lb) = addAll κa (cview acc) (cview children) := by
  induction children generalizing acc with
  | nil => rfl
  | cons c t ih =>
    simp only [Impl.mergeChildren, List.foldl_cons]
    have hstep : cview (Impl.mergeChild false s acc c d lb) = add κa (cview acc) (cviewCF c).1 c.sels := by
      apply cview_mergeChild
      intro e he
      exact h e.1 (List.mem_append_left _ (List.mem_map_of_mem (f := (·.1)) he)) (cviewCF c).1
        (List.mem_append_right _ (by simp [keysOf, cview]))
    have := ih (Impl.mergeChild false s acc c d lb) (by
      intro a ha b hb
      have conv : ∀ x, x ∈ keysOf (cview (Impl.mergeChild false s acc c d lb)) ++ keysOf (cview t) →
          x ∈ keysOf (cview acc) ++ keysOf (cview (c :: t)) := by
        intro x hx
        rw [List.mem_append] at hx ⊢
        rcases hx with hx | hx
        · rw [hstep] at hx
          rcases mem_keysOf_add _ _ _ x hx with h1 | h1
          · exact Or.inl h1
          · exact Or.inr (by simp [keysOf, cview, h1])
        · exact Or.inr (by simp only [keysOf, cview, List.map_cons, List.mem_cons] at hx ⊢; exact Or.inr hx)
      exact h a (conv a ha) b (conv b hb))
    simp only [Impl.mergeChildren] at this
    rw [this, hstep]
    simp [addAll, cview, cviewCF]


def appliesOf (sat : List String) : String → Bool := fun tc => sat.isEmpty || sat.contains tc

theorem AgreeOn.mono {s : Schema} {ks ks' : List FKey} (h : AgreeOn s ks) (hsub : ∀ x ∈ ks', x ∈ ks) :
    AgreeOn s ks' := fun a ha b hb => h a (hsub a ha) b (hsub b hb)

theorem uniq_nil : Uniq κa ([] : List (E FKey Sel)) := by simp [Uniq, keys]

theorem collect_view (s : Schema) (frags : List Frag) (vars : Vars) (sat : List String) :
    ∀ (fuel : Nat) (sels : List Sel) (acc : List CF) (vis : List String) (dfr : Option String)
      (occs : List Spec.Occ) (vis' : List String),
      Spec.occurrences frags vars (appliesOf sat) fuel sels dfr vis = some (occs, vis') →
      AgreeOn s (keysOf (cview acc) ++ keysOf (oview occs)) →
      ∃ cfs, Impl.collect false s frags vars sat fuel sels acc vis = some (cfs, vis') ∧
        cview cfs = addAll κa (cview acc) (oview occs) := by
  intro fuel
  induction fuel with
  | zero => intro sels acc vis dfr occs vis' h; simp [Spec.occurrences] at h
  | succ fuel ih =>
    intro sels acc vis dfr occs vis' h hag
    cases sels with
    | nil =>
      simp only [Spec.occurrences, Option.some.injEq, Prod.mk.injEq] at h
      obtain ⟨rfl, rfl⟩ := h
      exact ⟨acc, by simp [Impl.collect], by simp [oview, addAll]⟩
    | cons sel rest =>
      -- the shared part of both fragment kinds: collect the body into a fresh list, merge, go on
      have body : ∀ (ss : List Sel) (dfr' : Option String) (vis0 : List String) (inner : List Spec.Occ)
          (v1 : List String) (os : List Spec.Occ) (v2 : List String) (df : Bool) (lb : String),
          Spec.occurrences frags vars (appliesOf sat) fuel ss dfr' vis0 = some (inner, v1) →
          Spec.occurrences frags vars (appliesOf sat) fuel rest dfr v1 = some (os, v2) →
          AgreeOn s (keysOf (cview acc) ++ keysOf (oview (inner ++ os))) →
          ∃ cfs, (match Impl.collect false s frags vars sat fuel ss [] vis0 with
              | none => none
              | some (children, vis'') =>
                Impl.collect false s frags vars sat fuel rest (Impl.mergeChildren false s acc children df lb) vis'') =
              some (cfs, v2) ∧
            cview cfs = addAll κa (cview acc) (oview (inner ++ os)) := by
        intro ss dfr' vis0 inner v1 os v2 df lb h1 h2 hag'
        obtain ⟨children, c1, c2⟩ := ih ss [] vis0 dfr' inner v1 h1 (by
          apply hag'.mono
          intro x hx
          simp only [cview, List.map_nil, keysOf, List.nil_append] at hx
          exact List.mem_append_right _ (by simp only [keysOf, oview, List.map_append, List.mem_append]; exact Or.inl hx))
        have c2' : cview children = addAll κa [] (oview inner) := by simpa [cview] using c2
        have hsubC : ∀ x ∈ keysOf (cview children), x ∈ keysOf (oview inner) := by
          intro x hx
          rw [c2'] at hx
          rcases mem_keysOf_addAll _ _ x hx with h3 | h3
          · simp [keysOf] at h3
          · exact h3
        have hmerge : cview (Impl.mergeChildren false s acc children df lb) = addAll κa (cview acc) (oview inner) := by
          rw [cview_mergeChildren s children acc df lb (by
            apply hag'.mono
            intro x hx
            rw [List.mem_append] at hx ⊢
            rcases hx with hx | hx
            · exact Or.inl hx
            · exact Or.inr (by simp only [keysOf, oview, List.map_append, List.mem_append]; exact Or.inl (hsubC x hx)))]
          rw [c2', addAll_assoc κa (oview inner) [] (cview acc) uniq_nil]
          rfl
        obtain ⟨cfs, d1, d2⟩ := ih rest (Impl.mergeChildren false s acc children df lb) v1 dfr os v2 h2 (by
          apply hag'.mono
          intro x hx
          rw [List.mem_append] at hx ⊢
          rcases hx with hx | hx
          · rw [hmerge] at hx
            rcases mem_keysOf_addAll _ _ x hx with h3 | h3
            · exact Or.inl h3
            · exact Or.inr (by simp only [keysOf, oview, List.map_append, List.mem_append]; exact Or.inl h3)
          · exact Or.inr (by simp only [keysOf, oview, List.map_append, List.mem_append]; exact Or.inr hx))
        refine ⟨cfs, by rw [c1]; exact d1, ?_⟩
        rw [d2, hmerge]
        simp [addAll, oview, List.foldl_append]
      cases sel with
      | field alias name objDef dirs ss =>
        simp only [Spec.occurrences] at h
        simp only [Impl.collect]
        by_cases hinc : (!shouldInclude vars dirs) = true
        · simp only [hinc, ↓reduceIte] at h ⊢
          exact ih rest acc vis dfr occs vis' h hag
        · simp only [hinc, Bool.false_eq_true, ↓reduceIte] at h ⊢
          cases hr : Spec.occurrences frags vars (appliesOf sat) fuel rest dfr vis with
          | none => rw [hr] at h; simp at h
          | some r =>
            obtain ⟨os, v2⟩ := r
            rw [hr] at h
            simp only [Option.some.injEq, Prod.mk.injEq] at h
            obtain ⟨rfl, rfl⟩ := h
            have hstep := cview_field_step s acc alias name objDef ss (userDirs dirs) (by
              intro e he
              exact hag e.1 (List.mem_append_left _ (List.mem_map_of_mem (f := (·.1)) he)) _
                (List.mem_append_right _ (by simp [keysOf, oview])))
            obtain ⟨cfs, h1, h2⟩ := ih rest _ vis dfr os _ hr (by
              apply hag.mono
              intro x hx
              rw [List.mem_append] at hx ⊢
              rcases hx with hx | hx
              · rw [hstep] at hx
                rcases mem_keysOf_add _ _ _ x hx with h3 | h3
                · exact Or.inl h3
                · exact Or.inr (by simp [keysOf, oview, h3])
              · exact Or.inr (by simp only [keysOf, oview, List.map_cons, List.mem_cons] at hx ⊢; exact Or.inr hx))
            refine ⟨cfs, h1, ?_⟩
            rw [h2, hstep]
            simp [addAll, oview]
      | inline tc dirs ss =>
        simp only [Spec.occurrences] at h
        simp only [Impl.collect]
        by_cases hinc : (!shouldInclude vars dirs) = true
        · -- not included: both skip (gqlgen tests the type condition first, then inclusion)
          simp only [hinc, ↓reduceIte] at h
          by_cases htc : (!sat.isEmpty && tc != "" && !sat.contains tc) = true
          · simp only [htc, ↓reduceIte]; exact ih rest acc vis dfr occs vis' h hag
          · simp only [htc, Bool.false_eq_true, ↓reduceIte, hinc]; exact ih rest acc vis dfr occs vis' h hag
        · simp only [hinc, Bool.false_eq_true, ↓reduceIte] at h
          by_cases htc : (!sat.isEmpty && tc != "" && !sat.contains tc) = true
          · have htc' : (tc != "" && !appliesOf sat tc) = true := by
              cases h1 : sat.isEmpty <;> cases h2 : (tc != "") <;> cases h3 : sat.contains tc <;>
                simp_all [appliesOf]
            simp only [htc', ↓reduceIte] at h
            simp only [htc, ↓reduceIte]
            exact ih rest acc vis dfr occs vis' h hag
          · have htc' : (tc != "" && !appliesOf sat tc) = false := by
              cases h1 : sat.isEmpty <;> cases h2 : (tc != "") <;> cases h3 : sat.contains tc <;>
                simp_all [appliesOf]
            simp only [htc', Bool.false_eq_true, ↓reduceIte] at h
            simp only [htc, Bool.false_eq_true, ↓reduceIte, hinc]
            cases hi : Spec.occurrences frags vars (appliesOf sat) fuel ss
                (if dfr.isSome then dfr else if (deferrable vars dirs).1 then some (deferrable vars dirs).2 else none) vis with
            | none => rw [hi] at h; simp at h
            | some r1 =>
              obtain ⟨inner, v1⟩ := r1
              rw [hi] at h
              simp only [] at h
              cases ho : Spec.occurrences frags vars (appliesOf sat) fuel rest dfr v1 with
              | none => rw [ho] at h; simp at h
              | some r2 =>
                obtain ⟨os, v2⟩ := r2
                rw [ho] at h
                simp only [Option.some.injEq, Prod.mk.injEq] at h
                obtain ⟨rfl, rfl⟩ := h
                exact body ss _ vis inner v1 os v2 (deferrable vars dirs).1 (deferrable vars dirs).2 hi ho hag
      | spread fname dirs =>
        simp only [Spec.occurrences] at h
        simp only [Impl.collect]
        by_cases hinc : (!shouldInclude vars dirs) = true
        · simp only [hinc, ↓reduceIte] at h ⊢
          exact ih rest acc vis dfr occs vis' h hag
        · simp only [hinc, Bool.false_eq_true, ↓reduceIte] at h ⊢
          by_cases hv : vis.contains fname = true
          · simp only [hv, ↓reduceIte] at h ⊢
            exact ih rest acc vis dfr occs vis' h hag
          · simp only [hv, Bool.false_eq_true, ↓reduceIte] at h ⊢
            cases hf : frags.find? (·.name == fname) with
            | none => rw [hf] at h; simp at h
            | some fr =>
              rw [hf] at h
              simp only [] at h ⊢
              by_cases hap : (!sat.isEmpty && !sat.contains fr.typeCond) = true
              · have hap' : (!appliesOf sat fr.typeCond) = true := by
                  cases h1 : sat.isEmpty <;> cases h3 : sat.contains fr.typeCond <;> simp_all [appliesOf]
                simp only [hap', ↓reduceIte] at h
                simp only [hap, ↓reduceIte]
                exact ih rest acc (fname :: vis) dfr occs vis' h hag
              · have hap' : (!appliesOf sat fr.typeCond) = false := by
                  cases h1 : sat.isEmpty <;> cases h3 : sat.contains fr.typeCond <;> simp_all [appliesOf]
                simp only [hap', Bool.false_eq_true, ↓reduceIte] at h
                simp only [hap, Bool.false_eq_true, ↓reduceIte]
                cases hi : Spec.occurrences frags vars (appliesOf sat) fuel fr.sels
                    (if dfr.isSome then dfr else if (deferrable vars dirs).1 then some (deferrable vars dirs).2 else none)
                    (fname :: vis) with
                | none => rw [hi] at h; simp at h
                | some r1 =>
                  obtain ⟨inner, v1⟩ := r1
                  rw [hi] at h
                  simp only [] at h
                  cases ho : Spec.occurrences frags vars (appliesOf sat) fuel rest dfr v1 with
                  | none => rw [ho] at h; simp at h
                  | some r2 =>
                    obtain ⟨os, v2⟩ := r2
                    rw [ho] at h
                    simp only [Option.some.injEq, Prod.mk.injEq] at h
                    obtain ⟨rfl, rfl⟩ := h
                    exact body fr.sels _ (fname :: vis) inner v1 os v2 (deferrable vars dirs).1
                      (deferrable vars dirs).2 hi ho hag

end GqlgenVerif

namespace GqlgenVerif
open Assoc

theorem cview_group (occs : List Spec.Occ) (acc : List CF) :
    cview (Spec.group occs acc) = addAll κa (cview acc) (oview occs) := by
  induction occs generalizing acc with
  | nil => rfl
  | cons o os ih =>
    simp only [Spec.group]
    have hslot : acc.findIdx? (·.alias == o.alias) = slot κa (cview acc) (o.name, o.alias, o.objDef) := by
      unfold slot cview
      rw [List.findIdx?_map]
      rfl
    cases hf : acc.findIdx? (·.alias == o.alias) with
    | some i =>
      simp only []
      rw [ih]
      simp only [oview, List.map_cons, addAll, List.foldl_cons]
      congr 1
      unfold add
      rw [← hslot, hf]
      simp only [cview]
      exact map_modify_comm acc i _ cviewCF _ (fun x => by simp [cviewCF])
    | none =>
      simp only []
      rw [ih]
      simp only [oview, List.map_cons, addAll, List.foldl_cons]
      congr 1
      unfold add
      rw [← hslot, hf]
      simp [cview, cviewCF]

section SecondPass
open Spec
/-- visited sets only grow -/
theorem occ_vis_grows (frags : List Frag) (vars : Vars) (applies : String → Bool) :
    ∀ (fuel : Nat) (l : List Sel) (dfr : Option String) (vis : List String) (os : List Occ) (v' : List String),
      occurrences frags vars applies fuel l dfr vis = some (os, v') → ∀ x, x ∈ vis → x ∈ v' := by
  intro fuel
  induction fuel with
  | zero => intro l dfr vis os v' h; simp [occurrences] at h
  | succ fuel ih =>
    intro l dfr vis os v' h
    cases l with
    | nil => simp only [occurrences, Option.some.injEq, Prod.mk.injEq] at h; obtain ⟨_, rfl⟩ := h; exact fun x hx => hx
    | cons sel rest =>
      cases sel with
      | field alias name objDef dirs ss =>
        simp only [occurrences] at h
        split at h
        · exact ih rest dfr vis os v' h
        · cases hr : occurrences frags vars applies fuel rest dfr vis with
          | none => rw [hr] at h; simp at h
          | some r =>
            obtain ⟨os1, v1⟩ := r
            rw [hr] at h; simp only [Option.some.injEq, Prod.mk.injEq] at h
            obtain ⟨_, rfl⟩ := h
            exact ih rest dfr vis os1 v1 hr
      | inline tc dirs ss =>
        simp only [occurrences] at h
        split at h
        · exact ih rest dfr vis os v' h
        · split at h
          · exact ih rest dfr vis os v' h
          · cases hi : occurrences frags vars applies fuel ss
                (if dfr.isSome then dfr else if (deferrable vars dirs).1 then some (deferrable vars dirs).2 else none) vis with
            | none => rw [hi] at h; simp at h
            | some r1 =>
              obtain ⟨inner, v1⟩ := r1
              rw [hi] at h; simp only [] at h
              cases ho : occurrences frags vars applies fuel rest dfr v1 with
              | none => rw [ho] at h; simp at h
              | some r2 =>
                obtain ⟨os2, v2⟩ := r2
                rw [ho] at h; simp only [Option.some.injEq, Prod.mk.injEq] at h
                obtain ⟨_, rfl⟩ := h
                intro x hx
                exact ih rest dfr v1 os2 v2 ho x (ih ss _ vis inner v1 hi x hx)
      | spread fname dirs =>
        simp only [occurrences] at h
        split at h
        · exact ih rest dfr vis os v' h
        · split at h
          · exact ih rest dfr vis os v' h
          · cases hf : frags.find? (·.name == fname) with
            | none => rw [hf] at h; simp at h
            | some fr =>
              rw [hf] at h; simp only [] at h
              split at h
              · intro x hx
                exact ih rest dfr (fname :: vis) os v' h x (List.mem_cons_of_mem _ hx)
              · cases hi : occurrences frags vars applies fuel fr.sels
                    (if dfr.isSome then dfr else if (deferrable vars dirs).1 then some (deferrable vars dirs).2 else none)
                    (fname :: vis) with
                | none => rw [hi] at h; simp at h
                | some r1 =>
                  obtain ⟨inner, v1⟩ := r1
                  rw [hi] at h; simp only [] at h
                  cases ho : occurrences frags vars applies fuel rest dfr v1 with
                  | none => rw [ho] at h; simp at h
                  | some r2 =>
                    obtain ⟨os2, v2⟩ := r2
                    rw [ho] at h; simp only [Option.some.injEq, Prod.mk.injEq] at h
                    obtain ⟨_, rfl⟩ := h
                    intro x hx
                    exact ih rest dfr v1 os2 v2 ho x (ih fr.sels _ (fname :: vis) inner v1 hi x (List.mem_cons_of_mem _ hx))

theorem contains_of_mem (l : List String) (x : String) (h : x ∈ l) : l.contains x = true := by
  simp [List.contains_iff_mem, h]

/-- **A second pass is absorbed.** If a selection list has been collected from `vis` (ending in `v'`), then
collecting it again from any visited set that includes `v'` enters no fragment body: the visited set is
unchanged and every occurrence it yields is (key and sub-selection) one the first pass yielded, in order. -/
theorem occ_second_pass (frags : List Frag) (vars : Vars) (applies : String → Bool) :
    ∀ (fuel : Nat) (l : List Sel) (dfr : Option String) (vis : List String) (os : List Occ) (v' : List String),
      occurrences frags vars applies fuel l dfr vis = some (os, v') →
      ∀ (vis₂ : List String) (dfr₂ : Option String), (∀ x, x ∈ v' → x ∈ vis₂) →
        ∃ os₂, occurrences frags vars applies fuel l dfr₂ vis₂ = some (os₂, vis₂) ∧
          (oview os₂).Sublist (oview os) := by
  intro fuel
  induction fuel with
  | zero => intro l dfr vis os v' h; simp [occurrences] at h
  | succ fuel ih =>
    intro l dfr vis os v' h vis₂ dfr₂ hsub
    cases l with
    | nil =>
      simp only [occurrences, Option.some.injEq, Prod.mk.injEq] at h; obtain ⟨rfl, rfl⟩ := h
      exact ⟨[], by simp [occurrences], by simp [oview]⟩
    | cons sel rest =>
      cases sel with
      | field alias name objDef dirs ss =>
        simp only [occurrences] at h ⊢
        by_cases hinc : (!shouldInclude vars dirs) = true
        · simp only [hinc, ↓reduceIte] at h ⊢
          exact ih rest dfr vis os v' h vis₂ dfr₂ hsub
        · simp only [hinc, Bool.false_eq_true, ↓reduceIte] at h ⊢
          cases hr : occurrences frags vars applies fuel rest dfr vis with
          | none => rw [hr] at h; simp at h
          | some r =>
            obtain ⟨os1, v1⟩ := r
            rw [hr] at h; simp only [Option.some.injEq, Prod.mk.injEq] at h
            obtain ⟨rfl, rfl⟩ := h
            obtain ⟨os₂, h2, hs2⟩ := ih rest dfr vis os1 v1 hr vis₂ dfr₂ hsub
            rw [h2]
            exact ⟨_, rfl, by simp only [oview, List.map_cons]; exact List.Sublist.cons₂ _ hs2⟩
      | inline tc dirs ss =>
        simp only [occurrences] at h ⊢
        by_cases hinc : (!shouldInclude vars dirs) = true
        · simp only [hinc, ↓reduceIte] at h ⊢
          exact ih rest dfr vis os v' h vis₂ dfr₂ hsub
        · simp only [hinc, Bool.false_eq_true, ↓reduceIte] at h ⊢
          by_cases htc : (tc != "" && !applies tc) = true
          · simp only [htc, ↓reduceIte] at h ⊢
            exact ih rest dfr vis os v' h vis₂ dfr₂ hsub
          · simp only [htc, Bool.false_eq_true, ↓reduceIte] at h ⊢
            cases hi : occurrences frags vars applies fuel ss
                (if dfr.isSome then dfr else if (deferrable vars dirs).1 then some (deferrable vars dirs).2 else none) vis with
            | none => rw [hi] at h; simp at h
            | some r1 =>
              obtain ⟨inner, v1⟩ := r1
              rw [hi] at h; simp only [] at h
              cases ho : occurrences frags vars applies fuel rest dfr v1 with
              | none => rw [ho] at h; simp at h
              | some r2 =>
                obtain ⟨osr, v2⟩ := r2
                rw [ho] at h; simp only [Option.some.injEq, Prod.mk.injEq] at h
                obtain ⟨rfl, rfl⟩ := h
                have hv1 : ∀ x, x ∈ v1 → x ∈ vis₂ := fun x hx =>
                  hsub x (occ_vis_grows frags vars applies fuel rest dfr v1 osr v2 ho x hx)
                obtain ⟨in₂, hi2, hsi⟩ := ih ss _ vis inner v1 hi vis₂
                  (if dfr₂.isSome then dfr₂ else if (deferrable vars dirs).1 then some (deferrable vars dirs).2 else none) hv1
                obtain ⟨os₂, ho2, hso⟩ := ih rest dfr v1 osr v2 ho vis₂ dfr₂ hsub
                rw [hi2]; simp only []
                rw [ho2]
                exact ⟨_, rfl, by simp only [oview, List.map_append]; exact List.Sublist.append hsi hso⟩
      | spread fname dirs =>
        simp only [occurrences] at h ⊢
        by_cases hinc : (!shouldInclude vars dirs) = true
        · simp only [hinc, ↓reduceIte] at h ⊢
          exact ih rest dfr vis os v' h vis₂ dfr₂ hsub
        · simp only [hinc, Bool.false_eq_true, ↓reduceIte] at h ⊢
          by_cases hv : vis.contains fname = true
          · simp only [hv, ↓reduceIte] at h
            have hv2 : vis₂.contains fname = true := by
              apply contains_of_mem
              apply hsub
              exact occ_vis_grows frags vars applies fuel rest dfr vis os v' h fname (by simpa using hv)
            simp only [hv2, ↓reduceIte]
            exact ih rest dfr vis os v' h vis₂ dfr₂ hsub
          · simp only [hv, Bool.false_eq_true, ↓reduceIte] at h
            cases hf : frags.find? (·.name == fname) with
            | none => rw [hf] at h; simp at h
            | some fr =>
              rw [hf] at h; simp only [] at h
              -- whatever the first pass did with the fragment, it marked it visited
              have key : ∃ osr vr, occurrences frags vars applies fuel rest dfr vr = some (osr, v') ∧
                  (fname ∈ v') ∧ (oview osr).Sublist (oview os) := by
                by_cases hap : (!applies fr.typeCond) = true
                · simp only [hap, ↓reduceIte] at h
                  exact ⟨os, fname :: vis, h,
                    occ_vis_grows frags vars applies fuel rest dfr (fname :: vis) os v' h fname (by simp),
                    List.Sublist.refl _⟩
                · simp only [hap, Bool.false_eq_true, ↓reduceIte] at h
                  cases hi : occurrences frags vars applies fuel fr.sels
                      (if dfr.isSome then dfr else if (deferrable vars dirs).1 then some (deferrable vars dirs).2 else none)
                      (fname :: vis) with
                  | none => rw [hi] at h; simp at h
                  | some r1 =>
                    obtain ⟨inner, v1⟩ := r1
                    rw [hi] at h; simp only [] at h
                    cases ho : occurrences frags vars applies fuel rest dfr v1 with
                    | none => rw [ho] at h; simp at h
                    | some r2 =>
                      obtain ⟨osr, v2⟩ := r2
                      rw [ho] at h; simp only [Option.some.injEq, Prod.mk.injEq] at h
                      obtain ⟨rfl, rfl⟩ := h
                      refine ⟨osr, v1, ho, ?_, ?_⟩
                      · exact occ_vis_grows frags vars applies fuel rest dfr v1 osr v2 ho fname
                          (occ_vis_grows frags vars applies fuel fr.sels _ (fname :: vis) inner v1 hi fname (by simp))
                      · simp only [oview, List.map_append]
                        exact List.sublist_append_right _ _
              obtain ⟨osr, vr, hrest, hmem, hsl⟩ := key
              have hv2 : vis₂.contains fname = true := contains_of_mem _ _ (hsub fname hmem)
              simp only [hv2, ↓reduceIte]
              obtain ⟨os₂, ho2, hso⟩ := ih rest dfr vr osr v' hrest vis₂ dfr₂ hsub
              exact ⟨os₂, ho2, hso.trans hsl⟩

end SecondPass

end GqlgenVerif
