import GqlgenVerif.Model.WsClose
import GqlgenVerif.Lemmas.JsonString
/-! Helper lemmas for C10 (close frames): UTF-8 validity under concatenation and under the
rune-boundary cut `backoff`. -/
namespace GqlgenVerif.WsClose
open GqlgenVerif
set_option linter.unusedVariables false

theorem validUtf8_nil : validUtf8 [] = true := validUtf8_none (by simp [chunk])

theorem chunk_eq_none {s : Bytes} (h : chunk s = none) : s = [] := by
  unfold chunk at h
  split at h
  · rfl
  · exfalso
    split at h
    · cases h
    · split at h <;> (try split at h) <;> cases h

theorem chunk_ascii_shape {s r : Bytes} {b : Nat} (h : chunk s = some (.ascii b, r)) :
    s = b :: r ∧ b < 0x80 := by
  unfold chunk at h
  split at h
  · cases h
  · split at h
    · next hb => cases h; exact ⟨rfl, hb⟩
    · split at h <;> (try split at h) <;> cases h

theorem lead_facts {b k lo hi : Nat} (h : lead b = some (k, lo, hi)) :
    0xC2 ≤ b ∧ 0x80 ≤ lo ∧ hi ≤ 0xBF := by
  unfold lead at h
  repeat' split at h
  all_goals first
    | (cases h; omega)
    | cases h

/-- a well-formed multi-byte sequence: a lead byte (never a continuation byte) followed by
continuation bytes only -/
theorem chunk_multi_shape {s bs r : Bytes} (h : chunk s = some (.multi bs, r)) :
    ∃ b0 tl, bs = b0 :: tl ∧ 0xC2 ≤ b0 ∧ ∀ x ∈ tl, isCont x = true := by
  unfold chunk at h
  split at h
  · cases h
  · next b0 r0 =>
    split at h
    · cases h
    · next hb0 =>
      split at h
      · next lo hi b1 r' hl =>
        have hf := lead_facts hl
        split at h
        · next hc =>
          cases h
          refine ⟨b0, [b1], rfl, hf.1, ?_⟩
          intro x hx
          simp only [Bool.and_eq_true, decide_eq_true_eq, List.mem_singleton] at hc hx
          subst hx; simp [isCont]; omega
        · cases h
      · next lo hi b1 b2 r' hl =>
        have hf := lead_facts hl
        split at h
        · next hc =>
          cases h
          refine ⟨b0, [b1, b2], rfl, hf.1, ?_⟩
          intro x hx
          simp only [Bool.and_eq_true, decide_eq_true_eq, List.mem_cons, List.mem_nil_iff, or_false] at hc hx
          rcases hx with rfl | rfl
          · simp [isCont]; omega
          · exact hc.2
        · cases h
      · next lo hi b1 b2 b3 r' hl =>
        have hf := lead_facts hl
        split at h
        · next hc =>
          cases h
          refine ⟨b0, [b1, b2, b3], rfl, hf.1, ?_⟩
          intro x hx
          simp only [Bool.and_eq_true, decide_eq_true_eq, List.mem_cons, List.mem_nil_iff, or_false] at hc hx
          rcases hx with rfl | rfl | rfl
          · simp [isCont]; omega
          · exact hc.1.2
          · exact hc.2
        · cases h
      · cases h

theorem validUtf8_append_ascii (l t : Bytes) (h : ∀ b ∈ l, b < 0x80) :
    validUtf8 (l ++ t) = validUtf8 t := by
  induction l with
  | nil => rfl
  | cons b l ih =>
    rw [List.cons_append, validUtf8_cons_ascii b (h b (by simp)), ih (fun x hx => h x (by simp [hx]))]

/-- valid UTF-8 followed by anything is valid exactly when the rest is -/
theorem validUtf8_append_aux : ∀ (n : Nat) (a : Bytes), a.length = n → validUtf8 a = true →
    ∀ b, validUtf8 (a ++ b) = validUtf8 b := by
  intro n
  induction n using Nat.strongRecOn with
  | _ n ih =>
    intro a hn ha b
    match hc : chunk a with
    | none => rw [chunk_eq_none hc]; rfl
    | some (.ascii x, r) =>
      obtain ⟨rfl, hx⟩ := chunk_ascii_shape hc
      rw [validUtf8_ascii hc] at ha
      rw [List.cons_append, validUtf8_cons_ascii x hx]
      exact ih r.length (by simp at hn; omega) r rfl ha b
    | some (.multi bs, r) =>
      have hsrc := chunk_src hc
      simp only [Chunk.src] at hsrc
      rw [validUtf8_multi hc] at ha
      have hlen := chunk_length hc
      rw [hsrc, List.append_assoc, validUtf8_multi (chunk_multi_append hc (r ++ b)).1]
      exact ih r.length (by omega) r rfl ha b
    | some (.bad x, r) => rw [validUtf8_bad hc] at ha; cases ha

theorem validUtf8_append (a b : Bytes) (ha : validUtf8 a = true) :
    validUtf8 (a ++ b) = validUtf8 b := validUtf8_append_aux a.length a rfl ha b

/-! ### `backoff` -/

theorem backoff_le (r : Bytes) : ∀ n, backoff r n ≤ n
  | 0 => by simp [backoff]
  | n + 1 => by
    rw [backoff]; split
    · exact Nat.le_succ_of_le (backoff_le r n)
    · exact Nat.le_refl _

/-- positions 1..n all hold continuation bytes: the loop runs down to 0 -/
theorem backoff_zero (r : Bytes) : ∀ n, (∀ i, 1 ≤ i → i ≤ n → isCont (r.getD i 0) = true) → backoff r n = 0
  | 0, _ => by simp [backoff]
  | n + 1, h => by
    rw [backoff, if_pos (h (n + 1) (by omega) (Nat.le_refl _))]
    exact backoff_zero r n (fun i h1 h2 => h i h1 (by omega))

/-- behind a prefix `p`, as long as the byte that follows `p` is not a continuation byte, the loop
does what it does on the rest alone -/
theorem backoff_append (p r : Bytes) (h : isCont (r.getD 0 0) = false) :
    ∀ m, backoff (p ++ r) (p.length + m) = p.length + backoff r m := by
  have hget : ∀ k, (p ++ r).getD (p.length + k) 0 = r.getD k 0 := by
    intro k
    simp [List.getD_eq_getElem?_getD, List.getElem?_append_right]
  intro m
  induction m with
  | zero =>
    cases hp : p.length with
    | zero => simp [backoff]
    | succ w =>
      have := hget 0
      rw [hp] at this
      simp only [Nat.add_zero] at this
      have e1 : backoff (p ++ r) (w + 1) =
          if isCont ((p ++ r).getD (w + 1) 0) then backoff (p ++ r) w else w + 1 := rfl
      rw [Nat.add_zero, e1, this, h]
      simp [backoff]
  | succ m ih =>
    have hg := hget (m + 1)
    rw [← Nat.add_assoc] at hg
    have e1 : backoff (p ++ r) (p.length + m + 1) =
        if isCont ((p ++ r).getD (p.length + m + 1) 0) then backoff (p ++ r) (p.length + m)
        else p.length + m + 1 := rfl
    have e2 : backoff r (m + 1) = if isCont (r.getD (m + 1) 0) then backoff r m else m + 1 := rfl
    rw [← Nat.add_assoc, e1, e2, hg, ih]
    by_cases hc : isCont (r.getD (m + 1) 0) = true
    · rw [if_pos hc, if_pos hc]
    · rw [if_neg hc, if_neg hc]; omega

theorem valid_first_not_cont {r : Bytes} (h : validUtf8 r = true) : isCont (r.getD 0 0) = false := by
  match hc : chunk r with
  | none => rw [chunk_eq_none hc]; simp [isCont]
  | some (.ascii x, r') =>
    obtain ⟨rfl, hx⟩ := chunk_ascii_shape hc
    simp [isCont]; omega
  | some (.multi bs, r') =>
    obtain ⟨b0, tl, rfl, hb0, _⟩ := chunk_multi_shape hc
    have hsrc := chunk_src hc
    simp only [Chunk.src] at hsrc
    subst hsrc
    simp [isCont]; omega
  | some (.bad x, r') => rw [validUtf8_bad hc] at h; cases h

/-- cutting valid UTF-8 where `backoff` says leaves valid UTF-8, wherever the search starts -/
theorem validUtf8_take_backoff_aux : ∀ (k : Nat) (r : Bytes), r.length = k → validUtf8 r = true →
    ∀ n, validUtf8 (r.take (backoff r n)) = true := by
  intro k
  induction k using Nat.strongRecOn with
  | _ k ih =>
    intro r hk hv n
    -- common part: r = p ++ r', p one whole chunk whose non-first bytes are continuation bytes
    have key : ∀ (p r' : Bytes), r = p ++ r' → p ≠ [] → validUtf8 r' = true →
        (∀ i, 1 ≤ i → i < p.length → isCont (p.getD i 0) = true) →
        (∀ t, validUtf8 (p ++ t) = validUtf8 t) → validUtf8 (r.take (backoff r n)) = true := by
      intro p r' hr hp hv' hcont hval
      subst hr
      by_cases hn : n < p.length
      · have : backoff (p ++ r') n = 0 := by
          apply backoff_zero
          intro i h1 h2
          have hi : i < p.length := by omega
          have : (p ++ r').getD i 0 = p.getD i 0 := by
            simp [List.getD_eq_getElem?_getD, List.getElem?_append_left hi]
          rw [this]; exact hcont i h1 hi
        rw [this]; simpa using validUtf8_nil
      · obtain ⟨m, rfl⟩ : ∃ m, n = p.length + m := ⟨n - p.length, by omega⟩
        rw [backoff_append p r' (valid_first_not_cont hv') m, List.take_length_add_append, hval]
        have hpl : 0 < p.length := List.length_pos_iff.mpr hp
        exact ih r'.length (by simp at hk; omega) r' rfl hv' m
    match hc : chunk r with
    | none => rw [chunk_eq_none hc]; simpa using validUtf8_nil
    | some (.ascii x, r') =>
      obtain ⟨rfl, hx⟩ := chunk_ascii_shape hc
      rw [validUtf8_ascii hc] at hv
      exact key [x] r' rfl (by simp) hv (by intro i h1 h2; simp at h2; omega)
        (fun t => validUtf8_cons_ascii x hx t)
    | some (.multi bs, r') =>
      obtain ⟨b0, tl, rfl, hb0, htl⟩ := chunk_multi_shape hc
      have hsrc := chunk_src hc
      simp only [Chunk.src] at hsrc
      rw [validUtf8_multi hc] at hv
      refine key (b0 :: tl) r' hsrc (by simp) hv ?_ (fun t => validUtf8_multi (chunk_multi_append hc t).1)
      intro i h1 h2
      obtain ⟨j, rfl⟩ : ∃ j, i = j + 1 := ⟨i - 1, by omega⟩
      simp only [List.length_cons] at h2
      have hj : j < tl.length := by omega
      have : (b0 :: tl).getD (j + 1) 0 = tl[j] := by
        simp [List.getD_eq_getElem?_getD, List.getElem?_eq_getElem hj]
      rw [this]; exact htl _ (List.getElem_mem hj)
    | some (.bad x, r') => rw [validUtf8_bad hc] at hv; cases hv

theorem validUtf8_take_backoff (r : Bytes) (h : validUtf8 r = true) (n : Nat) :
    validUtf8 (r.take (backoff r n)) = true := validUtf8_take_backoff_aux r.length r rfl h n

/-! ### from the static checks to the statements about every client string -/

theorem frame_close {code : Nat} {r : Bytes} (h : r.length + codeBytes ≤ controlMax) :
    frame code r = .close code r := by
  unfold frame; rw [if_pos (by omega)]

theorem frame_dropped {code : Nat} {r : Bytes} (h : controlMax < r.length + codeBytes) :
    frame code r = .dropped := by
  unfold frame; rw [if_neg (by omega)]

theorem allAscii_lt {l : Bytes} (h : allAscii l = true) : ∀ b ∈ l, b < 0x80 := by
  intro b hb
  have := List.all_eq_true.mp h b hb
  simpa using this

theorem allAscii_valid {l : Bytes} (h : allAscii l = true) : validUtf8 l = true := by
  have := validUtf8_append_ascii l [] (allAscii_lt h)
  rw [List.append_nil] at this
  rw [this]; exact validUtf8_nil

theorem wire_eq {site : CloseSite} {s r : Bytes} (h : site.reason.text s = some r) :
    wire site s = frame site.code r := by
  unfold wire; rw [h]

theorem text_echo (pre suf : Bytes) (src : Src) (t : Trunc) (s : Bytes) :
    (Reason.echo pre suf src t).text s = applyTrunc t (pre ++ s ++ suf) := rfl

theorem text_lit (t s : Bytes) : (Reason.lit t).text s = some t := rfl

/-- what a cut that passes `capOk` produces: never a panic, at most `g` bytes, a prefix -/
theorem applyTrunc_capOk {t : Trunc} (h : t.capOk = true) (full : Bytes) :
    ∃ r, applyTrunc t full = some r ∧ r.length + codeBytes ≤ controlMax := by
  cases t with
  | none => simp [Trunc.capOk] at h
  | bytes g c =>
    simp only [Trunc.capOk, Bool.and_eq_true, decide_eq_true_eq] at h
    simp only [applyTrunc]
    by_cases hl : full.length > g
    · rw [if_pos hl, if_pos (by omega)]
      exact ⟨_, rfl, by rw [List.length_take]; omega⟩
    · rw [if_neg hl]; exact ⟨_, rfl, by omega⟩
  | runes g c =>
    simp only [Trunc.capOk, Bool.and_eq_true, decide_eq_true_eq] at h
    simp only [applyTrunc]
    by_cases hl : full.length > g
    · rw [if_pos hl]
      by_cases hc : c = 0
      · rw [if_pos hc]; exact ⟨_, rfl, by simp [controlMax, codeBytes]⟩
      · rw [if_neg hc, if_pos (by omega)]
        refine ⟨_, rfl, ?_⟩
        have := backoff_le full c
        rw [List.length_take]; omega
    · rw [if_neg hl]; exact ⟨_, rfl, by omega⟩

theorem fits_of_fitsOk (site : CloseSite) (hok : site.fitsOk = true) (hsrc : site.reason.src = .client)
    (s : Bytes) : ∃ r, wire site s = .close site.code r ∧ r.length + codeBytes ≤ controlMax := by
  obtain ⟨fn, code, reason⟩ := site
  cases reason with
  | lit t =>
    simp only [CloseSite.fitsOk, decide_eq_true_eq] at hok
    exact ⟨t, by rw [wire_eq (text_lit t s), frame_close hok], hok⟩
  | echo pre suf src t =>
    cases src with
    | config => simp [Reason.src] at hsrc
    | client =>
      simp only [CloseSite.fitsOk] at hok
      obtain ⟨r, hr, hlen⟩ := applyTrunc_capOk hok (pre ++ s ++ suf)
      exact ⟨r, by rw [wire_eq ((text_echo pre suf .client t s).trans hr), frame_close hlen], hlen⟩

theorem spec_of_wellFormedOk (site : CloseSite) (hok : site.wellFormedOk = true)
    (hsrc : site.reason.src = .client) (s : Bytes) (hs : validUtf8 s = true) :
    specOk site s (wire site s) = true := by
  obtain ⟨fn, code, reason⟩ := site
  cases reason with
  | lit t =>
    simp only [CloseSite.wellFormedOk, Bool.and_eq_true, decide_eq_true_eq] at hok
    rw [wire_eq (text_lit t s), frame_close hok.2]
    simp [specOk, Reason.full, allAscii_valid hok.1, hok.2]
  | echo pre suf src t =>
    cases src with
    | config => simp [Reason.src] at hsrc
    | client =>
      cases t with
      | none => simp [CloseSite.wellFormedOk] at hok
      | bytes g c => simp [CloseSite.wellFormedOk] at hok
      | runes g c =>
        simp only [CloseSite.wellFormedOk, Bool.and_eq_true, decide_eq_true_eq] at hok
        obtain ⟨⟨⟨hpre, hsuf⟩, rfl⟩, hg⟩ := hok
        have hg' : c = 123 := by simp [controlMax, codeBytes] at hg; omega
        subst hg'
        have hfull : validUtf8 (pre ++ s ++ suf) = true := by
          rw [List.append_assoc, validUtf8_append_ascii pre _ (allAscii_lt hpre), validUtf8_append s suf hs]
          exact allAscii_valid hsuf
        by_cases hl : (pre ++ s ++ suf).length > 123
        · have htext : applyTrunc (.runes 123 123) (pre ++ s ++ suf)
              = some ((pre ++ s ++ suf).take (backoff (pre ++ s ++ suf) 123)) := by
            simp only [applyTrunc]; rw [if_pos hl, if_neg (by omega), if_pos hl]
          have hlen : ((pre ++ s ++ suf).take (backoff (pre ++ s ++ suf) 123)).length + codeBytes ≤ controlMax := by
            have := backoff_le (pre ++ s ++ suf) 123
            rw [List.length_take]; simp only [controlMax, codeBytes]; omega
          have hnf : ¬ ((pre ++ s ++ suf).length + codeBytes ≤ controlMax) := by
            simp only [controlMax, codeBytes]; omega
          rw [wire_eq ((text_echo pre suf .client _ s).trans htext), frame_close hlen]
          simp only [Reason.full, specOk,
            validUtf8_take_backoff _ hfull, beq_self_eq_true, Bool.true_and, Bool.and_eq_true,
            Bool.or_eq_true, Bool.not_eq_true', decide_eq_false_iff_not]
          exact ⟨List.isPrefixOf_iff_prefix.mpr (List.take_prefix _ _), Or.inl (decide_eq_false hnf)⟩
        · have htext : applyTrunc (.runes 123 123) (pre ++ s ++ suf) = some (pre ++ s ++ suf) := by
            simp only [applyTrunc]; rw [if_neg hl]
          have hlen : (pre ++ s ++ suf).length + codeBytes ≤ controlMax := by
            simp only [controlMax, codeBytes]; omega
          rw [wire_eq ((text_echo pre suf .client _ s).trans htext), frame_close hlen]
          simp only [Reason.full, specOk, hfull,
            beq_self_eq_true, Bool.true_and, Bool.and_eq_true, Bool.or_eq_true]
          exact ⟨List.isPrefixOf_iff_prefix.mpr (List.prefix_refl _), Or.inr trivial⟩

theorem cap_tight (fn : String) (code : Nat) (pre suf : Bytes) (k : Nat) :
    (∀ s, wire ⟨fn, code, .echo pre suf .client (.bytes k k)⟩ s ≠ .dropped) ↔ k + codeBytes ≤ controlMax := by
  constructor
  · intro h
    by_cases hk : k + codeBytes ≤ controlMax
    · exact hk
    · exfalso
      apply h (List.replicate 200 0x61)
      have hfl : (pre ++ List.replicate 200 0x61 ++ suf).length ≥ 200 := by
        simp only [List.length_append, List.length_replicate]; omega
      simp only [controlMax, codeBytes] at hk
      by_cases hl : (pre ++ List.replicate 200 0x61 ++ suf).length > k
      · have ht : applyTrunc (.bytes k k) (pre ++ List.replicate 200 0x61 ++ suf)
            = some ((pre ++ List.replicate 200 0x61 ++ suf).take k) := by
          simp only [applyTrunc]; rw [if_pos hl, if_pos (by omega)]
        rw [wire_eq ((text_echo pre suf .client _ _).trans ht)]
        exact frame_dropped (by rw [List.length_take]; simp only [controlMax, codeBytes]; omega)
      · have ht : applyTrunc (.bytes k k) (pre ++ List.replicate 200 0x61 ++ suf)
            = some (pre ++ List.replicate 200 0x61 ++ suf) := by
          simp only [applyTrunc]; rw [if_neg hl]
        rw [wire_eq ((text_echo pre suf .client _ _).trans ht)]
        exact frame_dropped (by simp only [controlMax, codeBytes]; omega)
  · intro hk s
    have hok : (CloseSite.mk fn code (.echo pre suf .client (.bytes k k))).fitsOk = true := by
      simp [CloseSite.fitsOk, Trunc.capOk, hk]
    obtain ⟨r, hr, _⟩ := fits_of_fitsOk _ hok rfl s
    rw [hr]; intro h; cases h

theorem config_fits_iff (site : CloseSite) (hok : site.configOk = true) (hsrc : site.reason.src = .config)
    (s : Bytes) : (∃ r, wire site s = .close site.code r) ↔ (site.reason.full s).length + codeBytes ≤ controlMax := by
  obtain ⟨fn, code, reason⟩ := site
  cases reason with
  | lit t => simp [Reason.src] at hsrc
  | echo pre suf src t =>
    cases src with
    | client => simp [Reason.src] at hsrc
    | config =>
      cases t with
      | none =>
        by_cases hfit : (pre ++ s ++ suf).length + codeBytes ≤ controlMax
        · have hw : wire ⟨fn, code, .echo pre suf .config .none⟩ s = .close code (pre ++ s ++ suf) := by
            rw [wire_eq (text_echo pre suf .config .none s), frame_close hfit]
          exact ⟨fun _ => hfit, fun _ => ⟨_, hw⟩⟩
        · have hw : wire ⟨fn, code, .echo pre suf .config .none⟩ s = .dropped := by
            rw [wire_eq (text_echo pre suf .config .none s), frame_dropped (Nat.lt_of_not_le hfit)]
          exact ⟨fun ⟨r, hr⟩ => (by rw [hw] at hr; cases hr), fun h => absurd h hfit⟩
      | bytes g c => simp [CloseSite.configOk] at hok
      | runes g c => simp [CloseSite.configOk] at hok

end GqlgenVerif.WsClose
