import GqlgenVerif.Model.ComplexitySwitch
/-! Helper lemmas for `Props/C14Gen.lean`: Go-map reads/writes, the grouping invariant of the regenerated
`UniqueFields`, and lookups in lists with unique names. -/
namespace GqlgenVerif.Lemmas.ComplexitySwitch
open GqlgenVerif.FieldMap GqlgenVerif.Gen.UniqueFields GqlgenVerif.ComplexitySwitch

theorem mem_set {m : GoMap} {k : String} {v : List GField} {k' : String} {v' : List GField} :
    (k', v') ∈ GoMap.set m k v ↔ (k' = k ∧ v' = v) ∨ ((k', v') ∈ m ∧ k' ≠ k) := by
  simp [GoMap.set, List.mem_filter]

/-- `m[k]`: the value of a pair with that key, or nil when there is none -/
theorem get_cases (m : GoMap) (k : String) :
    (k, m.get k) ∈ m ∨ (m.get k = [] ∧ ∀ v, (k, v) ∉ m) := by
  unfold GoMap.get
  cases h : m.find? (fun p => decide (p.1 = k)) with
  | some p =>
    left
    have hm := List.mem_of_find?_eq_some h
    have hp := List.find?_some h
    simp at hp
    subst hp
    exact hm
  | none =>
    right
    refine ⟨rfl, ?_⟩
    intro v hv
    have := List.find?_eq_none.mp h (k, v) hv
    simp at this

/-- the invariant of the loop of `UniqueFields` after the fields `pre`: every group is exactly the fields
    (so far) with that Go name, in order, and non-empty; every field seen has a group -/
def Inv (m : GoMap) (pre : List GField) : Prop :=
  (∀ k v, (k, v) ∈ m → v = pre.filter (fun f => decide (f.goName = k)) ∧ v ≠ []) ∧
  (∀ f ∈ pre, ∃ v, (f.goName, v) ∈ m)

theorem inv_nil : Inv [] [] := by
  constructor
  · intro k v h; cases h
  · intro f h; cases h

theorem inv_step {m : GoMap} {pre : List GField} (h : Inv m pre) (f : GField) :
    Inv (step m f) (pre ++ [f]) := by
  obtain ⟨hg, hc⟩ := h
  have hget : m.get f.goName = pre.filter (fun g => decide (g.goName = f.goName)) := by
    rcases get_cases m f.goName with h1 | ⟨h1, h2⟩
    · exact (hg _ _ h1).1
    · rw [h1]
      symm
      rw [List.filter_eq_nil_iff]
      intro g hgm hk
      simp at hk
      obtain ⟨v, hv⟩ := hc g hgm
      rw [hk] at hv
      exact h2 v hv
  unfold step
  constructor
  · intro k v hm
    rcases mem_set.mp hm with ⟨hk, hv⟩ | ⟨hm', hk⟩
    · subst hk hv
      rw [hget]
      constructor
      · simp [List.filter_append]
      · simp
    · obtain ⟨h1, h2⟩ := hg k v hm'
      refine ⟨?_, h2⟩
      rw [h1, List.filter_append]
      have : ([f].filter fun g => decide (g.goName = k)) = [] := by
        simp [List.filter_cons]
        intro hh; exact hk hh.symm
      rw [this, List.append_nil]
  · intro g hgm
    rcases List.mem_append.mp hgm with hpre | hlast
    · by_cases hk : g.goName = f.goName
      · exact ⟨_, mem_set.mpr (Or.inl ⟨hk, rfl⟩)⟩
      · obtain ⟨v, hv⟩ := hc g hpre
        exact ⟨v, mem_set.mpr (Or.inr ⟨hv, hk⟩)⟩
    · simp at hlast
      subst hlast
      exact ⟨_, mem_set.mpr (Or.inl ⟨rfl, rfl⟩)⟩

theorem inv_foldl (fs : List GField) : ∀ (m : GoMap) (pre : List GField), Inv m pre → Inv (fs.foldl step m) (pre ++ fs) := by
  induction fs with
  | nil => intro m pre h; simpa using h
  | cons f fs ih =>
    intro m pre h
    have := ih (step m f) (pre ++ [f]) (inv_step h f)
    simpa [List.foldl_cons, List.append_assoc] using this

theorem inv_uniqueFields (fs : List GField) : Inv (uniqueFields fs) fs := by
  have := inv_foldl fs [] [] inv_nil
  simpa [uniqueFields] using this

/-- in a list with unique names, looking a member up by its name finds it -/
theorem find_unique {α : Type} (nm : α → String) :
    ∀ (l : List α), l.Pairwise (fun a b => nm a ≠ nm b) → ∀ x ∈ l, l.find? (fun y => decide (nm y = nm x)) = some x := by
  intro l
  induction l with
  | nil => intro _ x hx; cases hx
  | cons a l ih =>
    intro hp x hx
    rw [List.pairwise_cons] at hp
    rcases List.mem_cons.mp hx with rfl | hx'
    · simp
    · have hne : nm a ≠ nm x := hp.1 x hx'
      simp [hne]
      exact ih hp.2 x hx'

end GqlgenVerif.Lemmas.ComplexitySwitch
