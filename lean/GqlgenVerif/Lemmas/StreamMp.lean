import GqlgenVerif.Model.Stream
import GqlgenVerif.Model.JsonFrame
import GqlgenVerif.Lemmas.JsonString
/-!
Lemmas for C12, multipart/mixed: CRLF line splitting, the lines one `flush` writes, the strict
MIME parser over a chain of flush groups.
-/
namespace GqlgenVerif.Stream

/-! ### CRLF lines -/

/-- lines, each followed by CRLF -/
def joinCRLFs (ls : List Bytes) : Bytes := (ls.map (· ++ crlf)).flatten

theorem splitCRLF_cons_ne (x y : Nat) (r : Bytes) (h : x ≠ CR) :
    splitCRLF (x :: y :: r) = pushByte x (splitCRLF (y :: r)) := by
  simp [splitCRLF, h]

theorem splitCRLF_line (l rest : Bytes) (h : CR ∉ l) :
    splitCRLF (l ++ CR :: LF :: rest) = (l :: (splitCRLF rest).1, (splitCRLF rest).2) := by
  induction l with
  | nil => simp [splitCRLF]
  | cons x l ih =>
    have hx : x ≠ CR := fun e => h (by simp [e])
    have hl : CR ∉ l := fun e => h (by simp [e])
    have ih' := ih hl
    cases l with
    | nil =>
      simp only [List.nil_append, List.cons_append] at ih' ⊢
      rw [splitCRLF_cons_ne _ _ _ hx, ih']
      simp [pushByte]
    | cons y l' =>
      simp only [List.cons_append] at ih' ⊢
      rw [splitCRLF_cons_ne _ _ _ hx, ih']
      simp [pushByte]

theorem splitCRLF_joined (ls : List Bytes) (rest : Bytes) (h : ∀ l ∈ ls, CR ∉ l) :
    splitCRLF (joinCRLFs ls ++ rest) = (ls ++ (splitCRLF rest).1, (splitCRLF rest).2) := by
  induction ls with
  | nil => simp [joinCRLFs]
  | cons l ls ih =>
    have h1 : CR ∉ l := h l (by simp)
    have h2 : ∀ l ∈ ls, CR ∉ l := fun x hx => h x (by simp [hx])
    have := ih h2
    simp only [joinCRLFs, crlf] at this ⊢
    simp [List.append_assoc, splitCRLF_line _ _ h1, this]

theorem joinCRLFs_append (a b : List Bytes) : joinCRLFs (a ++ b) = joinCRLFs a ++ joinCRLFs b := by
  simp [joinCRLFs]

theorem mpLines_append (B : Bytes) (st : MState) (a b : List Bytes) :
    mpLines B st (a ++ b) =
      ((mpLines B st a).1 ++ (mpLines B (mpLines B st a).2 b).1, (mpLines B (mpLines B st a).2 b).2) := by
  induction a generalizing st with
  | nil => simp [mpLines]
  | cons l ls ih => simp [mpLines, ih, List.append_assoc]

theorem pushByte_prefix (x : Nat) (r1 r2 : List Bytes × Bytes) (h : r1.1 <+: r2.1) :
    (pushByte x r1).1 <+: (pushByte x r2).1 := by
  rcases h with ⟨more, hm⟩
  cases h1 : r1.1 with
  | nil => simp [pushByte, h1]
  | cons l ls =>
    have h2 : r2.1 = l :: (ls ++ more) := by rw [← hm, h1]; simp
    simp [pushByte, h1, h2]

/-- the complete lines of what a client has read stay the first lines of the whole stream -/
theorem splitCRLF_prefix (b : Bytes) : ∀ a : Bytes, (splitCRLF a).1 <+: (splitCRLF (a ++ b)).1
  | [] => by simp [splitCRLF]
  | [x] => by simp [splitCRLF]
  | x :: y :: r => by
    by_cases h : x = CR ∧ y = LF
    · have ih := splitCRLF_prefix b r
      simp only [List.cons_append, splitCRLF, h, and_self, if_true]
      exact List.cons_prefix_cons.2 ⟨rfl, ih⟩
    · have ih := splitCRLF_prefix b (y :: r)
      simp only [List.cons_append, splitCRLF, h, if_false]
      exact pushByte_prefix x _ _ ih

theorem parseMP_prefix (B a b : Bytes) : ∃ rest, (parseMP B (a ++ b)).1 = (parseMP B a).1 ++ rest := by
  rcases splitCRLF_prefix b a with ⟨more, hm⟩
  refine ⟨(mpLines B (mpLines B .start (splitCRLF a).1).2 more).1, ?_⟩
  simp only [parseMP]
  rw [← hm, mpLines_append]

/-! ### what one flush writes, as lines -/

def delimLine (B : Bytes) (final : Bool) : Bytes := if final then dashes ++ B ++ dashes else dashes ++ B

def Group.lines (B : Bytes) (g : Group) : List Bytes :=
  (match g.initial with
   | some r => [delimLine B false, ctLine, [], r.body] ++ (if g.batch.isEmpty then [] else [delimLine B false])
   | none => []) ++
  (if g.batch.isEmpty then [] else [ctLine, [], incJson canonMp g.batch g.hasNext]) ++
  [delimLine B (!g.hasNext)]

/-- a flush that got past the early return has something to write -/
def Group.NonEmpty (g : Group) : Prop := g.initial.isSome = true ∨ g.batch.isEmpty = false

theorem group_bytes_lines (B : Bytes) (g : Group) (hg : g.NonEmpty) :
    g.bytes canonMp B = joinCRLFs (g.lines B) := by
  rcases g with ⟨ini, batch, h⟩
  cases ini <;> cases hb : batch.isEmpty <;> cases h <;>
    simp [Group.NonEmpty, hb] at hg <;>
    simp [Group.bytes, Group.lines, hb, canonMp, delim, delimLine, joinCRLFs, crlf, List.append_assoc]

/-! ### the strict parser over one group -/

def Group.items (g : Group) : List MItem :=
  (match g.initial with
   | some r => [partItem r.body]
   | none => []) ++
  (if g.batch.isEmpty then [] else [partItem (incJson canonMp g.batch g.hasNext)]) ++
  (if g.hasNext then [] else [MItem.close])

def Group.endState (g : Group) : MState := if g.hasNext then .headers [] else .closed

/-- the first group carries the initial payload and meets the parser at the start; later groups
    carry only increments and meet it expecting part headers -/
def Group.ShapeOK (first : Bool) (g : Group) : Prop :=
  if first then g.initial.isSome = true else (g.initial = none ∧ g.batch.isEmpty = false)

def startState (first : Bool) : MState := if first then .start else .headers []

def Group.BodiesOK (g : Group) : Prop :=
  (∀ r, g.initial = some r → BodyOK r.body) ∧ ∀ r ∈ g.batch, BodyOK r.body

theorem ne_dashes (b X : Bytes) (h : b.head? = some 0x7B) : b ≠ dashes ++ X := by
  cases b with
  | nil => simp at h
  | cons x r =>
    simp at h
    subst h
    simp [dashes]

theorem incJson_head (f : MpFmt) (batch : List Resp) (h : Bool) : (incJson f batch h).head? = some 0x7B := by
  simp [incJson]

theorem group_parse (B : Bytes) (first : Bool) (g : Group) (hs : g.ShapeOK first) (hb : g.BodiesOK) :
    mpLines B (startState first) (g.lines B) = (g.items, g.endState) := by
  rcases g with ⟨ini, batch, h⟩
  have hinc1 : ∀ X, incJson canonMp batch h ≠ dashes ++ X := fun X => ne_dashes _ X (incJson_head _ _ _)
  have hct : ctLine.isEmpty = false := by simp [ctLine]
  have hd : dashes ≠ [] := by simp [dashes]
  cases first with
  | true =>
    cases ini with
    | none => simp [Group.ShapeOK] at hs
    | some r =>
      have hr : ∀ X, r.body ≠ dashes ++ X := fun X => ne_dashes _ X (hb.1 r rfl).2.2
      cases hbe : batch.isEmpty <;> cases h <;>
        simp [Group.lines, Group.items, Group.endState, startState, hbe, mpLines, mpLine, delimLine, hct, hr, hd,
          hinc1, joinCRLF, partItem, List.append_assoc]
  | false =>
    simp only [Group.ShapeOK] at hs
    simp at hs
    rcases hs with ⟨hi, hbe⟩
    subst hi
    cases h <;>
      simp [Group.lines, Group.items, Group.endState, startState, hbe, mpLines, mpLine, delimLine, hct, hd,
        hinc1, joinCRLF, partItem, List.append_assoc]

/-! ### all lines are free of CR -/

theorem mem_joinComma (x : Nat) : ∀ ls : List Bytes, x ∈ joinComma ls → x = 0x2C ∨ ∃ l ∈ ls, x ∈ l
  | [] => by simp [joinComma]
  | [a] => by intro h; simp [joinComma] at h; exact Or.inr ⟨a, by simp, h⟩
  | a :: b :: r => by
    intro h
    simp only [joinComma, List.mem_append, List.mem_cons] at h
    rcases h with h | h | h
    · exact Or.inr ⟨a, by simp, h⟩
    · exact Or.inl h
    · rcases mem_joinComma x (b :: r) h with h | ⟨l, hl, hx⟩
      · exact Or.inl h
      · exact Or.inr ⟨l, by simp at hl ⊢; exact Or.inr hl, hx⟩

theorem incJson_noCR (batch : List Resp) (h : Bool) (hb : ∀ r ∈ batch, CR ∉ r.body) :
    CR ∉ incJson canonMp batch h := by
  intro hm
  have hj : CR ∉ joinComma (batch.map Resp.body) := by
    intro hx
    rcases mem_joinComma CR _ hx with hx | ⟨l, hl, hx⟩
    · simp [CR] at hx
    · rcases List.mem_map.1 hl with ⟨r, hr, rfl⟩
      exact hb r hr hx
  have hj' : (13 : Nat) ∉ joinComma (batch.map Resp.body) := hj
  cases h <;> simp [incJson, quoteKey, canonMp, boolText, CR, hj'] at hm

theorem group_lines_noCR (B : Bytes) (g : Group) (hB : CR ∉ B) (hb : g.BodiesOK) : ∀ l ∈ g.lines B, CR ∉ l := by
  rcases g with ⟨ini, batch, h⟩
  have hB' : (13 : Nat) ∉ B := hB
  have hinc : (13 : Nat) ∉ incJson canonMp batch h := incJson_noCR batch h (fun r hr => (hb.2 r hr).2.1)
  intro l hl
  cases ini with
  | none =>
    cases hbe : batch.isEmpty <;> cases h <;>
      simp [Group.lines, hbe, delimLine] at hl <;>
      (try rcases hl with rfl | rfl | rfl | rfl) <;> (try subst hl) <;>
      simp [dashes, ctLine, CR, hB', hinc]
  | some r =>
    have hr : (13 : Nat) ∉ r.body := (hb.1 r rfl).2.1
    cases hbe : batch.isEmpty <;> cases h <;>
      simp [Group.lines, hbe, delimLine] at hl <;>
      (try rcases hl with rfl | rfl | rfl | rfl | rfl | rfl | rfl | rfl | rfl) <;> (try subst hl) <;>
      simp [dashes, ctLine, CR, hB', hinc, hr]

/-! ### a chain of groups: what a whole response is -/

/-- every group but the last says hasNext, the last does not; the first carries the initial
    payload, the others only increments -/
def Chain : Bool → List Group → Prop
  | _, [] => False
  | first, [g] => g.hasNext = false ∧ g.ShapeOK first
  | first, g :: g' :: gs => g.hasNext = true ∧ g.ShapeOK first ∧ Chain false (g' :: gs)

theorem shapeOK_nonEmpty (first : Bool) (g : Group) (h : g.ShapeOK first) : g.NonEmpty := by
  cases first <;> simp [Group.ShapeOK] at h
  · exact Or.inr (by simpa using h.2)
  · exact Or.inl h

theorem chain_lines (B : Bytes) : ∀ (gs : List Group) (first : Bool), Chain first gs →
    (∀ g ∈ gs, g.BodiesOK) →
    mpLines B (startState first) (gs.flatMap (Group.lines B)) = (gs.flatMap Group.items, .closed)
  | [], _, h, _ => by simp [Chain] at h
  | [g], first, h, hb => by
    have := group_parse B first g h.2 (hb g (by simp))
    simp [this, Group.endState, h.1]
  | g :: g' :: gs, first, h, hb => by
    have h1 := group_parse B first g h.2.1 (hb g (by simp))
    have h2 := chain_lines B (g' :: gs) false h.2.2 (fun x hx => hb x (by simp at hx ⊢; exact Or.inr hx))
    rw [List.flatMap_cons, mpLines_append, h1]
    simp only [Group.endState, h.1, if_true]
    have h2' : mpLines B (MState.headers []) (List.flatMap (Group.lines B) (g' :: gs)) =
        (List.flatMap Group.items (g' :: gs), MState.closed) := by simpa [startState] using h2
    rw [h2']
    simp

theorem chain_nonEmpty : ∀ (gs : List Group) (first : Bool), Chain first gs → ∀ g ∈ gs, g.NonEmpty
  | [], _, h, _, _ => by simp [Chain] at h
  | [g], first, h, x, hx => by
    simp at hx; subst hx; exact shapeOK_nonEmpty first _ h.2
  | g :: g' :: gs, first, h, x, hx => by
    simp only [List.mem_cons] at hx
    rcases hx with rfl | hx
    · exact shapeOK_nonEmpty first _ h.2.1
    · exact chain_nonEmpty (g' :: gs) false h.2.2 x (by simpa using hx)

theorem groupsBytes_lines (B : Bytes) (gs : List Group) (h : ∀ g ∈ gs, g.NonEmpty) :
    groupsBytes canonMp B gs = joinCRLFs (gs.flatMap (Group.lines B)) := by
  induction gs with
  | nil => simp [groupsBytes, joinCRLFs]
  | cons g gs ih =>
    have h1 := group_bytes_lines B g (h g (by simp))
    have h2 := ih (fun x hx => h x (by simp [hx]))
    simp only [groupsBytes, List.map_cons, List.flatten_cons, List.flatMap_cons, joinCRLFs_append] at h2 ⊢
    rw [h1, h2]

/-- **framing**: the bytes of a chain of flush groups parse (strictly) to exactly the parts of the
    groups, the closing delimiter ends the stream, nothing is left over -/
theorem parse_groups (B : Bytes) (gs : List Group) (hB : CR ∉ B) (hc : Chain true gs)
    (hb : ∀ g ∈ gs, g.BodiesOK) :
    parseMP B (groupsBytes canonMp B gs) = (gs.flatMap Group.items, false) := by
  have hl : ∀ l ∈ gs.flatMap (Group.lines B), CR ∉ l := by
    intro l hl
    rcases List.mem_flatMap.1 hl with ⟨g, hg, hlg⟩
    exact group_lines_noCR B g hB (hb g hg) l hlg
  have hs := splitCRLF_joined (gs.flatMap (Group.lines B)) [] hl
  simp only [List.append_nil] at hs
  have hp := chain_lines B gs true hc hb
  simp only [startState, if_true] at hp
  simp [parseMP, groupsBytes_lines B gs (chain_nonEmpty gs true hc), hs, splitCRLF, hp]

/-! ### the aggregator machine -/

def pend (a : Agg) : List Resp := a.initial.toList ++ a.defers
def Group.payloads (g : Group) : List Resp := g.initial.toList ++ g.batch
def lastHasNext (l : List Resp) : Bool :=
  match l.getLast? with
  | some r => r.hasNext
  | none => false

theorem flush_empty (a : Agg) (h : pend a = []) : a.flush = a := by
  rcases a with ⟨ini, ds, out⟩
  cases ini <;> simp [pend] at h
  subst h
  simp [Agg.flush]

theorem flush_nonempty (a : Agg) (h : pend a ≠ []) :
    a.flush = { initial := none, defers := [], out := a.out ++ [⟨a.initial, a.defers, lastHasNext (pend a)⟩] } := by
  rcases a with ⟨ini, ds, out⟩
  cases ini with
  | none =>
    have hd : ds ≠ [] := by simpa [pend] using h
    simp [Agg.flush, pend, lastHasNext, hd, List.getLast?_eq_some_getLast hd]
  | some r =>
    cases ds with
    | nil => simp [Agg.flush, pend, lastHasNext]
    | cons d ds' =>
      have hne : d :: ds' ≠ [] := by simp
      simp [Agg.flush, pend, lastHasNext, List.getLast?_eq_some_getLast hne]

structure WF (s : MpSt) : Prop where
  fresh : s.first = true → s.agg.initial = none ∧ s.agg.defers = [] ∧ s.agg.out = []
  started : s.first = false → (s.agg.out = [] ↔ s.agg.initial.isSome = true)

/-- the payloads not yet written: waiting in the aggregator, then those the operation has yet to produce -/
def Rem (s : MpSt) : List Resp := pend s.agg ++ s.todo

def ShapeOrEmpty (R : List Resp) : Prop := R = [] ∨ HasNextShape R

theorem wf_pend_first (s : MpSt) (hw : WF s) (hp : pend s.agg ≠ []) : s.first = false := by
  cases hf : s.first with
  | false => rfl
  | true =>
    rcases hw.fresh hf with ⟨h1, h2, _⟩
    simp [pend, h1, h2] at hp

theorem add_wf (s : MpSt) (p : Resp) (ps : List Resp) (ht : s.todo = p :: ps) (hw : WF s) :
    WF { s with first := false, todo := ps, agg := s.agg.add p s.first } ∧
    Rem { s with first := false, todo := ps, agg := s.agg.add p s.first } = Rem s ∧
    (s.agg.add p s.first).out = s.agg.out := by
  cases hf : s.first with
  | true =>
    rcases hw.fresh hf with ⟨h1, h2, h3⟩
    refine ⟨⟨by simp, fun _ => by simp [Agg.add, h3]⟩, ?_, by simp [Agg.add]⟩
    simp [Rem, pend, Agg.add, h1, h2, ht]
  | false =>
    have := hw.started hf
    refine ⟨⟨by simp, fun _ => by simpa [Agg.add] using this⟩, ?_, by simp [Agg.add]⟩
    simp [Rem, pend, Agg.add, ht, List.append_assoc]

theorem shape_split (a b : List Resp) (hb : b ≠ []) (h : HasNextShape (a ++ b)) :
    (∀ r ∈ a, r.hasNext = true) ∧ HasNextShape b := by
  rcases h with ⟨init, last, he, hi, hl⟩
  have hb' := (List.dropLast_concat_getLast hb).symm
  rw [hb', ← List.append_assoc] at he
  have h1 := List.append_inj' he (by simp)
  rcases h1 with ⟨h1, h2⟩
  simp at h2
  refine ⟨fun r hr => hi r (by rw [← h1]; simp [hr]), b.dropLast, b.getLast hb, hb', ?_, by rw [h2]; exact hl⟩
  intro r hr
  exact hi r (by rw [← h1]; simp [hr])

theorem lastHasNext_shape (a : List Resp) (h : HasNextShape a) : lastHasNext a = false := by
  rcases h with ⟨init, last, rfl, _, hl⟩
  simp [lastHasNext, hl]

theorem lastHasNext_all (a : List Resp) (ha : a ≠ []) (h : ∀ r ∈ a, r.hasNext = true) : lastHasNext a = true := by
  have := List.dropLast_concat_getLast ha
  have hm : a.getLast ha ∈ a := List.getLast_mem ha
  rw [← this]
  simp [lastHasNext, h _ hm]

theorem mp_done_step (s : MpSt) (hd : s.done = true) (ht : s.todo = []) (hp : pend s.agg = []) (x : Step) :
    s.step x = s := by
  cases x with
  | main => simp [MpSt.step, hd, ht]
  | tick => simp only [MpSt.step, flush_empty _ hp]

theorem mp_done_run (sched : List Step) (s : MpSt) (hd : s.done = true) (ht : s.todo = []) (hp : pend s.agg = []) :
    mpRun s sched = s := by
  induction sched with
  | nil => rfl
  | cons x r ih => simp [mpRun, List.foldl_cons, mp_done_step s hd ht hp x] at ih ⊢; exact ih

/-- the group a flush of a non-empty aggregator appends -/
def flushGroup (a : Agg) : Group := ⟨a.initial, a.defers, lastHasNext (pend a)⟩

theorem flushGroup_shape (s : MpSt) (hw : WF s) (hp : pend s.agg ≠ []) :
    (flushGroup s.agg).ShapeOK s.agg.out.isEmpty := by
  have hf := wf_pend_first s hw hp
  have hs := hw.started hf
  cases ho : s.agg.out with
  | nil =>
    have := hs.1 ho
    simp [Group.ShapeOK, flushGroup, this]
  | cons g gs =>
    have hi : s.agg.initial = none := by
      cases hi : s.agg.initial with
      | none => rfl
      | some r =>
        have := hs.2 (by simp [hi])
        simp [ho] at this
    have hd : s.agg.defers ≠ [] := by simpa [pend, hi] using hp
    simp [Group.ShapeOK, flushGroup, hi, hd]

theorem flush_wf (s : MpSt) (hw : WF s) (hp : pend s.agg ≠ []) (d : Bool) :
    WF { s with done := d, agg := s.agg.flush } := by
  have hf := wf_pend_first s hw hp
  rw [flush_nonempty _ hp]
  exact ⟨fun h => by simp [hf] at h, fun _ => by simp⟩

/-- the last flush (pending payloads are all that is left): one closing group -/
theorem last_flush (s : MpSt) (hw : WF s) (hp : pend s.agg ≠ []) (ht : s.todo = []) (hs : ShapeOrEmpty (Rem s)) :
    [flushGroup s.agg].flatMap Group.payloads = Rem s ∧ Chain s.agg.out.isEmpty [flushGroup s.agg] := by
  have hR : Rem s = pend s.agg := by simp [Rem, ht]
  have hsh : HasNextShape (pend s.agg) := by
    rcases hs with h | h
    · rw [hR] at h; exact absurd h hp
    · rw [hR] at h; exact h
  refine ⟨by simp [hR, Group.payloads, flushGroup, pend], ?_, flushGroup_shape s hw hp⟩
  simp [flushGroup, lastHasNext_shape _ hsh]

theorem mp_finish_shape : ∀ (todo : List Resp) (s : MpSt), s.todo = todo → s.done = false → WF s →
    ShapeOrEmpty (Rem s) →
    ∃ gs, (mpFinish s).agg.out = s.agg.out ++ gs ∧ gs.flatMap Group.payloads = Rem s ∧
      (Rem s ≠ [] → Chain s.agg.out.isEmpty gs) ∧ (Rem s = [] → gs = []) := by
  intro todo
  induction todo with
  | nil =>
    intro s ht hd hw hs
    have e : mpFinish s = { s with done := true, agg := s.agg.flush } := by
      simp [mpFinish, mpRun, ht, MpSt.step, hd]
    rw [e]
    by_cases hp : pend s.agg = []
    · refine ⟨[], by simp [flush_empty _ hp], by simp [Rem, hp, ht], fun h => ?_, fun _ => rfl⟩
      simp [Rem, hp, ht] at h
    · have hl := last_flush s hw hp ht hs
      refine ⟨[flushGroup s.agg], by simp [flush_nonempty _ hp, flushGroup], hl.1, fun _ => hl.2, fun h => ?_⟩
      simp [Rem, ht] at h; exact absurd h hp
  | cons p ps ih =>
    intro s ht hd hw hs
    rcases add_wf s p ps ht hw with ⟨hw1, hr1, ho1⟩
    have hst : s.step .main = { s with first := false, todo := ps, agg := s.agg.add p s.first } := by
      simp [MpSt.step, ht]
    have e : mpFinish s = mpFinish { s with first := false, todo := ps, agg := s.agg.add p s.first } := by
      simp only [mpFinish, mpRun, ht, List.length_cons, List.replicate_succ, List.foldl_cons, hst]
    have := ih { s with first := false, todo := ps, agg := s.agg.add p s.first } rfl hd hw1 (by rw [hr1]; exact hs)
    rw [hr1] at this
    simp only [ho1] at this
    rw [e]
    exact this

/-- whatever the schedule of `Add`s and flush ticks: the groups written from here on deliver exactly
    the remaining payloads, in order, as a chain -/
theorem mp_run_shape : ∀ (sched : List Step) (s : MpSt), s.done = false → WF s → ShapeOrEmpty (Rem s) →
    ∃ gs, (mpFinish (mpRun s sched)).agg.out = s.agg.out ++ gs ∧ gs.flatMap Group.payloads = Rem s ∧
      (Rem s ≠ [] → Chain s.agg.out.isEmpty gs) ∧ (Rem s = [] → gs = []) := by
  intro sched
  induction sched with
  | nil => intro s hd hw hs; exact mp_finish_shape s.todo s rfl hd hw hs
  | cons x r ih =>
    intro s hd hw hs
    cases x with
    | main =>
      cases ht : s.todo with
      | nil =>
        have hst : s.step .main = { s with done := true, agg := s.agg.flush } := by simp [MpSt.step, ht, hd]
        have hpe : pend s.agg.flush = [] := by
          by_cases hp : pend s.agg = []
          · rw [flush_empty _ hp]; exact hp
          · rw [flush_nonempty _ hp]; simp [pend]
        have e : mpFinish (mpRun s (.main :: r)) = { s with done := true, agg := s.agg.flush } := by
          simp only [mpRun, List.foldl_cons, hst]
          have h1 := mp_done_run r { s with done := true, agg := s.agg.flush } rfl ht hpe
          simp only [mpRun] at h1
          rw [h1]
          exact mp_done_run _ { s with done := true, agg := s.agg.flush } rfl ht hpe
        rw [e]
        by_cases hp : pend s.agg = []
        · refine ⟨[], by simp [flush_empty _ hp], by simp [Rem, hp, ht], fun h => ?_, fun _ => rfl⟩
          simp [Rem, hp, ht] at h
        · have hl := last_flush s hw hp ht hs
          refine ⟨[flushGroup s.agg], by simp [flush_nonempty _ hp, flushGroup], hl.1, fun _ => hl.2, fun h => ?_⟩
          simp [Rem, ht] at h; exact absurd h hp
      | cons p ps =>
        rcases add_wf s p ps ht hw with ⟨hw1, hr1, ho1⟩
        have hst : s.step .main = { s with first := false, todo := ps, agg := s.agg.add p s.first } := by
          simp [MpSt.step, ht]
        have := ih { s with first := false, todo := ps, agg := s.agg.add p s.first } hd hw1 (by rw [hr1]; exact hs)
        rw [hr1] at this
        simp only [ho1] at this
        simpa [mpRun, List.foldl_cons, hst] using this
    | tick =>
      have hst : s.step .tick = { s with agg := s.agg.flush } := by simp [MpSt.step]
      by_cases hp : pend s.agg = []
      · have : s.step .tick = s := by rw [hst, flush_empty _ hp]
        simpa [mpRun, List.foldl_cons, this] using ih s hd hw hs
      · have hw1 : WF { s with agg := s.agg.flush } := flush_wf s hw hp s.done
        have hfl := flush_nonempty _ hp
        have hrem1 : Rem { s with agg := s.agg.flush } = s.todo := by simp [Rem, hfl, pend]
        cases ht : s.todo with
        | nil =>
          have hl := last_flush s hw hp ht hs
          rcases ih { s with agg := s.agg.flush } hd hw1 (by rw [hrem1, ht]; exact Or.inl rfl) with ⟨gs1, h1, _, _, h4⟩
          have hg : gs1 = [] := h4 (by rw [hrem1, ht])
          subst hg
          refine ⟨[flushGroup s.agg], ?_, hl.1, fun _ => hl.2, fun h => ?_⟩
          · simp only [mpRun, List.foldl_cons, hst] at h1 ⊢
            rw [h1, hfl]; simp [flushGroup]
          · simp [Rem, ht] at h; exact absurd h hp
        | cons p ps =>
          have hsh : HasNextShape (pend s.agg ++ s.todo) := by
            rcases hs with h | h
            · simp [Rem, ht] at h
            · exact h
          have hne : s.todo ≠ [] := by simp [ht]
          rcases shape_split _ _ hne hsh with ⟨hall, hshb⟩
          rcases ih { s with agg := s.agg.flush } hd hw1 (by rw [hrem1]; exact Or.inr hshb) with ⟨gs1, h1, h2, h3, _⟩
          have hc1 := h3 (by rw [hrem1]; exact hne)
          have hout : ({ s with agg := s.agg.flush } : MpSt).agg.out.isEmpty = false := by simp [hfl]
          rw [hout] at hc1
          refine ⟨flushGroup s.agg :: gs1, ?_, ?_, fun _ => ?_, fun h => ?_⟩
          · simp only [mpRun, List.foldl_cons, hst] at h1 ⊢
            rw [h1, hfl]; simp [flushGroup]
          · rw [List.flatMap_cons, h2, hrem1]; simp [Group.payloads, flushGroup, Rem, pend]
          · cases gs1 with
            | nil => simp [Chain] at hc1
            | cons g' gs' =>
              exact ⟨by simp [flushGroup, lastHasNext_all _ hp hall], flushGroup_shape s hw hp, hc1⟩
          · simp [Rem, ht] at h

/-! ### the incremental wrapper is valid JSON when its elements are (grammar of `Model/JsonFrame.lean`) -/

def PlainKey (k : Bytes) : Prop := ∀ b ∈ k, 0x20 ≤ b ∧ b < 0x80 ∧ b ≠ 0x22 ∧ b ≠ 0x5C

theorem tok_plain (b : Nat) (h : 0x20 ≤ b ∧ b < 0x80 ∧ b ≠ 0x22 ∧ b ≠ 0x5C) (t : Bytes) :
    tok (b :: t) = .out [b] t := by
  have e : escAscii b = [b] := by
    unfold escAscii
    rcases h with ⟨h1, h2, h3, h4⟩
    simp [h3, h4]
    repeat' split
    all_goals first | omega | rfl
  have := tok_ascii b h.2.1 t
  rw [e] at this
  simpa using this

theorem decodeBody_plain (k rest : Bytes) (h : PlainKey k) :
    decodeBody (k ++ 0x22 :: rest) = some (k, rest) := by
  induction k with
  | nil => simp [decodeBody_close (tok_quote rest)]
  | cons b k ih =>
    have hb := h b (by simp)
    have hk : PlainKey k := fun x hx => h x (by simp [hx])
    rw [List.cons_append, decodeBody_out (tok_plain b hb _), ih hk]
    simp [pre]

theorem decodeString_quoteKey (k : Bytes) (h : PlainKey k) : decodeString (quoteKey k) = some k := by
  simp [quoteKey, decodeString, decodeBody_plain k [] h]

theorem joinComma_parses : ∀ (bs : List Bytes), bs ≠ [] → (∀ b ∈ bs, ∃ v, Parses b v) →
    ∃ vs, ParsesElems (joinComma bs) vs
  | [], h, _ => absurd rfl h
  | [a], _, hv => by
    rcases hv a (by simp) with ⟨v, hp⟩
    exact ⟨[v], by simpa [joinComma] using ParsesElems.one hp⟩
  | a :: b :: r, _, hv => by
    rcases hv a (by simp) with ⟨v, hp⟩
    rcases joinComma_parses (b :: r) (by simp) (fun x hx => hv x (by simp at hx ⊢; exact Or.inr hx)) with ⟨vs, hps⟩
    exact ⟨v :: vs, by simpa [joinComma] using ParsesElems.cons hp hps⟩

theorem incJson_valid (batch : List Resp) (h : Bool) (hne : batch ≠ [])
    (hv : ∀ r ∈ batch, ∃ v, Parses r.body v) : ∃ v, Parses (incJson canonMp batch h) v := by
  have hk1 : decodeString (quoteKey canonMp.incKey) = some canonMp.incKey :=
    decodeString_quoteKey _ (by intro b hb; simp [canonMp] at hb; rcases hb with rfl | rfl | rfl | rfl | rfl | rfl | rfl | rfl | rfl | rfl | rfl <;> decide)
  have hk2 : decodeString (quoteKey canonMp.hasNextKey) = some canonMp.hasNextKey :=
    decodeString_quoteKey _ (by intro b hb; simp [canonMp] at hb; rcases hb with rfl | rfl | rfl | rfl | rfl | rfl | rfl <;> decide)
  rcases joinComma_parses (batch.map Resp.body) (by simpa using hne)
    (by intro b hb; rcases List.mem_map.1 hb with ⟨r, hr, rfl⟩; exact hv r hr) with ⟨vs, hvs⟩
  have harr : Parses (0x5B :: (joinComma (batch.map Resp.body) ++ [0x5D])) (.arr vs) := Parses.arr hvs
  have hb : ∃ bv, Parses (boolText h) bv := by
    cases h
    · exact ⟨.fls, by simpa [boolText] using Parses.fls⟩
    · exact ⟨.tru, by simpa [boolText] using Parses.tru⟩
  rcases hb with ⟨bv, hbv⟩
  exact ⟨_, Parses.obj (ParsesMembers.cons hk1 harr (ParsesMembers.one hk2 hbv))⟩

/-! ### a chain of groups delivers `initial :: batches` -/

theorem chain_false_items : ∀ (gs : List Group), Chain false gs →
    gs.flatMap Group.items = incParts canonMp (gs.map Group.batch) ++ [MItem.close] ∧
    gs.flatMap Group.payloads = (gs.map Group.batch).flatten ∧
    ∀ b ∈ gs.map Group.batch, b ≠ []
  | [], h => by simp [Chain] at h
  | [g], h => by
    rcases g with ⟨ini, batch, hn⟩
    simp [Chain, Group.ShapeOK] at h
    rcases h with ⟨rfl, rfl, hb⟩
    simp [Group.items, Group.payloads, incParts, hb]
  | g :: g' :: gs, h => by
    rcases g with ⟨ini, batch, hn⟩
    have ih := chain_false_items (g' :: gs) h.2.2
    have h1 := h.1
    have h2 := h.2.1
    simp [Group.ShapeOK] at h1 h2
    rcases h2 with ⟨rfl, hb⟩
    subst h1
    rcases ih with ⟨i1, i2, i3⟩
    refine ⟨?_, ?_, ?_⟩
    · rw [List.flatMap_cons, i1]
      simp [Group.items, incParts, hb]
    · rw [List.flatMap_cons, i2]
      simp [Group.payloads]
    · intro b hb'
      simp only [List.map_cons, List.mem_cons] at hb'
      rcases hb' with rfl | hb'
      · exact hb
      · exact i3 b (by simpa using hb')

theorem chain_true_items (gs : List Group) (h : Chain true gs) :
    ∃ p0 batches, gs.flatMap Group.payloads = p0 :: batches.flatten ∧ (∀ b ∈ batches, b ≠ []) ∧
      gs.flatMap Group.items = mpExpected canonMp p0 batches := by
  match gs, h with
  | [g], h =>
    rcases g with ⟨ini, batch, hn⟩
    simp [Chain, Group.ShapeOK] at h
    rcases h with ⟨rfl, hi⟩
    cases ini with
    | none => simp at hi
    | some p0 =>
      cases hb : batch.isEmpty with
      | true =>
        have : batch = [] := by simpa using hb
        subst this
        exact ⟨p0, [], by simp [Group.payloads], by simp, by simp [Group.items, mpExpected, incParts, partItem]⟩
      | false =>
        have hne : batch ≠ [] := by simpa using hb
        exact ⟨p0, [batch], by simp [Group.payloads], by simp [hne],
          by simp [Group.items, mpExpected, incParts, hb]⟩
  | g :: g' :: gs', h =>
    rcases g with ⟨ini, batch, hn⟩
    rcases chain_false_items (g' :: gs') h.2.2 with ⟨i1, i2, i3⟩
    have h1 := h.1
    have h2 := h.2.1
    simp [Group.ShapeOK] at h1 h2
    subst h1
    cases ini with
    | none => simp at h2
    | some p0 =>
      cases hb : batch.isEmpty with
      | true =>
        have : batch = [] := by simpa using hb
        subst this
        refine ⟨p0, (g' :: gs').map Group.batch, ?_, i3, ?_⟩
        · rw [List.flatMap_cons, i2]; simp [Group.payloads]
        · rw [List.flatMap_cons, i1]; simp [Group.items, mpExpected]
      | false =>
        have hne : batch ≠ [] := by simpa using hb
        refine ⟨p0, batch :: (g' :: gs').map Group.batch, ?_, ?_, ?_⟩
        · rw [List.flatMap_cons, i2]; simp [Group.payloads]
        · intro b hb'
          simp only [List.mem_cons] at hb'
          rcases hb' with rfl | hb'
          · exact hne
          · exact i3 b hb'
        · rw [List.flatMap_cons, i1]; simp [Group.items, mpExpected, incParts, hb]

/-! ### the executable Spec accepts `initial :: batches` -/

theorem flatten_isEmpty (bs : List (List Resp)) (h : ∀ b ∈ bs, b ≠ []) : bs.flatten.isEmpty = bs.isEmpty := by
  cases bs with
  | nil => rfl
  | cons b r =>
    have hb : b ≠ [] := h b (by simp)
    cases b with
    | nil => exact absurd rfl hb
    | cons x xs => simp

theorem mpSpecParts_batches (f : MpFmt) : ∀ (batches : List (List Resp)), (∀ b ∈ batches, b ≠ []) →
    mpSpecParts f batches.flatten (incParts f batches ++ [MItem.close]) = true
  | [], _ => by simp [incParts, mpSpecParts]
  | b :: bs, h => by
    have hb : b ≠ [] := h b (by simp)
    have hbs : ∀ x ∈ bs, x ≠ [] := fun x hx => h x (by simp [hx])
    have ih := mpSpecParts_batches f bs hbs
    have hlen : b.length - 1 < (b ++ bs.flatten).length := by
      have : 0 < b.length := List.length_pos_iff.2 hb
      simp; omega
    have hk : b.length - 1 + 1 = b.length := by
      have : 0 < b.length := List.length_pos_iff.2 hb
      omega
    simp only [incParts, partItem, List.cons_append, List.flatten_cons]
    cases hrest : incParts f bs ++ [MItem.close] with
    | nil => simp at hrest
    | cons i is =>
      rw [mpSpecParts]
      · simp only [beq_self_eq_true, Bool.true_and, List.any_eq_true]
        refine ⟨b.length - 1, List.mem_range.2 hlen, ?_⟩
        rw [hk]
        simp [flatten_isEmpty bs hbs, ← hrest, ih]

end GqlgenVerif.Stream
