import GqlgenVerif.Lemmas.Exec
/-! Locality: the completion of a position depends only on what user code does at or below that
    position's response path. -/
namespace GqlgenVerif
open Spec

/-- two oracles agree on every path at or below `q` (for a plain struct field at `r` that is the value
    stored in its enclosing object, `plain r.dropLast`) -/
def AgreeUnder (q : Path) (o o' : Oracle) : Prop :=
  ∀ r, q <+: r → o.res r = o'.res r ∧ (∀ d, o.dir r d = o'.dir r d) ∧
    ∀ n, o.plain r.dropLast n = o'.plain r.dropLast n

theorem AgreeUnder.snoc {q : Path} {o o' : Oracle} (h : AgreeUnder q o o') (a : Seg) :
    AgreeUnder (q ++ [a]) o o' :=
  fun r hr => h r (List.IsPrefix.trans (List.prefix_append q [a]) hr)

theorem runDirs_local (o o' : Oracle) (p : Path) (h : ∀ d, o.dir p d = o'.dir p d) (ds : List String)
    (st : St) : Impl.runDirs o p ds st = Impl.runDirs o' p ds st := by
  induction ds generalizing st with
  | nil => rfl
  | cons d inner ih =>
    simp only [Impl.runDirs, h d]
    cases o'.dir p d <;> simp [ih]

mutual
theorem value_local (o o' : Oracle) : ∀ (sh : Shape) (v : V) (p : Path), AgreeUnder p o o' →
    Spec.completeValue o sh v p = Spec.completeValue o' sh v p
  | .leaf nn, v, p, _ => by cases v <;> simp [Spec.completeValue]
  | .obj nn ifc cases, v, p, h => by
    cases v with
    | obj ty => simp only [Spec.completeValue, cases_local o o' ty cases p h]
    | null => simp [Spec.completeValue]
    | leaf t => simp [Spec.completeValue]
    | list vs => simp [Spec.completeValue]
  | .list nn ec elem, v, p, h => by
    cases v with
    | list vs => simp only [Spec.completeValue, elems_local o o' elem ec vs p 0 h]
    | null => simp [Spec.completeValue]
    | leaf t => simp [Spec.completeValue]
    | obj ty => simp [Spec.completeValue]

theorem cases_local (o o' : Oracle) (ty : String) : ∀ (cases : List (String × List (FInfo × Shape)))
    (p : Path), AgreeUnder p o o' → Spec.completeCases o ty cases p = Spec.completeCases o' ty cases p
  | [], _, _ => by simp [Spec.completeCases]
  | (c, fields) :: rest, p, h => by
    simp only [Spec.completeCases, fields_local o o' ty fields p h, cases_local o o' ty rest p h]

theorem fields_local (o o' : Oracle) (ty : String) : ∀ (fields : List (FInfo × Shape)) (p : Path),
    AgreeUnder p o o' → Spec.completeFields o ty fields p = Spec.completeFields o' ty fields p
  | [], _, _ => by simp [Spec.completeFields]
  | (fi, sh) :: rest, p, h => by
    simp only [Spec.completeFields, field_local o o' fi sh (p ++ [Seg.key fi.alias]) (h.snoc _),
      fields_local o o' ty rest p h]

theorem field_local (o o' : Oracle) (fi : FInfo) : ∀ (sh : Shape) (p : Path), AgreeUnder p o o' →
    Spec.completeField o fi sh p = Spec.completeField o' fi sh p
  | sh, p, h => by
    have hp := h p (List.prefix_refl p)
    have ho : o.outcome fi p = o'.outcome fi p := by
      unfold Oracle.outcome
      split
      · exact hp.2.2 fi.name
      · exact hp.1
    simp only [Spec.completeField, runDirs_local o o' p hp.2.1, ho, value_local o o' sh _ p h]

theorem elems_local (o o' : Oracle) : ∀ (elem : Shape) (ec : Bool) (vs : List V) (p : Path) (i : Nat),
    AgreeUnder p o o' → Spec.completeElems o elem ec vs p i = Spec.completeElems o' elem ec vs p i
  | _, _, [], _, _, _ => by simp [Spec.completeElems]
  | elem, ec, v :: rest, p, i, h => by
    have h1 : Spec.completeValue o elem v (if ec then p ++ [Seg.idx i] else p) =
        Spec.completeValue o' elem v (if ec then p ++ [Seg.idx i] else p) := by
      cases ec with
      | true => exact value_local o o' elem v _ (h.snoc _)
      | false => exact value_local o o' elem v _ h
    simp only [Spec.completeElems, h1, elems_local o o' elem ec rest p (i + 1) h]
end

/-- replace what the resolver at path `f` does -/
def Oracle.withRes (o : Oracle) (f : Path) (x : ROut) : Oracle :=
  { o with res := fun r => if r = f then x else o.res r }

/-- replace what directive `d` at path `f` does -/
def Oracle.withDir (o : Oracle) (f : Path) (d : String) (x : DOut) : Oracle :=
  { o with dir := fun r d' => if r = f ∧ d' = d then x else o.dir r d' }

theorem agree_withRes (o : Oracle) (f q : Path) (x : ROut) (h : ¬ q <+: f) :
    AgreeUnder q (o.withRes f x) o := by
  intro r hr
  have : r ≠ f := fun e => h (e ▸ hr)
  simp [Oracle.withRes, this]

theorem agree_withDir (o : Oracle) (f q : Path) (d : String) (x : DOut) (h : ¬ q <+: f) :
    AgreeUnder q (o.withDir f d x) o := by
  intro r hr
  have : r ≠ f := fun e => h (e ▸ hr)
  simp [Oracle.withDir, this]

end GqlgenVerif
