import GqlgenVerif.Model.TypeRef
/-! Lemmas about `Model/TypeRef.lean` (the is-list decision of a `config.TypeReference`); the headline statements are
restated in `Props/C17.lean`. Everything that depends on HOW `IsSlice` decides goes through the three facts about the
regenerated `Gen.TypeRefRules.isSliceRule` at the top, so an edit of `(*TypeReference).IsSlice` re-checks them. -/
namespace GqlgenVerif.TypeRef
open GqlgenVerif.Gen.TypeRefRules


theorem isSliceRule_needs_gql_list : ∀ b, isSliceRule false b = false := by decide
theorem isSliceRule_needs_go_slice : ∀ b, isSliceRule b false = false := by decide
theorem isSliceRule_list_of_slice : isSliceRule true true = true := by decide

theorem named_never_slice (tag : String) (nn : Bool) (go : GoT) : isSlice (.named tag nn) go = false := by
  simp [isSlice, GType.elem?, isSliceRule_needs_gql_list]

theorem isSlice_nonslice (g : GType) (go : GoT) (h : go.isSliceT = false) : isSlice g go = false := by
  simp [isSlice, h, isSliceRule_needs_go_slice]

theorem isSlice_list_slice (e : GType) (nn : Bool) (x : GoT) : isSlice (.list e nn) (.slice x) = true := by
  simp [isSlice, GType.elem?, GoT.isSliceT, isSliceRule_list_of_slice]

theorem processType_never_nil_gql (go : GoT) : ∀ g : GType, (processType go g).2 = false := by
  induction go with
  | ptr e ih =>
    intro g
    unfold processType
    split
    · exact ih g
    · rfl
  | slice e ih =>
    intro g
    unfold processType
    split
    · rename_i h
      cases g with
      | named t nn => simp [named_never_slice] at h
      | list ge nn => simp [GType.elem?]; exact ih ge
    · rfl
  | named u _ => intro g; simp [processType]; intro _; exact isSlice_nonslice _ _ rfl
  | _ => intro g; simp [processType]; intro _; exact isSlice_nonslice _ _ rfl

theorem unmarshal_named (go : GoT) (tag : String) (nn : Bool) (v : Val) :
    unmarshal go (.named tag nn) v = guardNull go (.named tag nn) v (some (.whole (canon v))) := by
  cases go with
  | ptr e =>
    cases e with
    | slice x =>
      simp only [unmarshal, named_never_slice]
      cases hv : v.isNull <;> simp [guardNull, hv, GoT.isNilable, GoT.isPtrToPtr]
    | iface => simp [unmarshal, named_never_slice]
    | _ => simp [unmarshal, named_never_slice]
  | slice x => simp [unmarshal, named_never_slice]
  | _ => simp [unmarshal, named_never_slice]

theorem marshal_named (go : GoT) (tag : String) (nn : Bool) (x : GoV) :
    marshal go (.named tag nn) x = leafOut (.named tag nn) x := by
  cases go with
  | ptr e =>
    cases e with
    | slice y => simp [marshal, named_never_slice]
    | _ => simp [marshal, named_never_slice]
  | _ => simp [marshal, named_never_slice]

/-- a named GraphQL type is ONE leaf written by its bound marshaller, whatever Go type it is bound to -/
theorem named_is_one_leaf (go : GoT) (tag : String) (nn : Bool) (v : Val)
    (hnil : nn = false → go.isNilable = true ∧ go.isPtrToPtr = false)
    (hfit : fits (.named tag nn) v = true) :
    echo go (.named tag nn) v = spec (.named tag nn) v := by
  unfold echo
  rw [unmarshal_named]
  cases v with
  | null =>
    have hnn : nn = false := by simpa [fits, GType.nonNull] using hfit
    obtain ⟨h1, h2⟩ := hnil hnn
    simp [guardNull, Val.isNull, GType.nonNull, hnn, h1, h2, marshal_named, leafOut, spec]
  | atom s => simp [guardNull, Val.isNull, marshal_named, leafOut, spec, GType.tag]
  | list vs => simp [guardNull, Val.isNull, marshal_named, leafOut, spec, GType.tag]

/-- the Go types a reference of GraphQL type `g` whose named type is bound to `target` gets from the binder:
`CopyModifiersFromAst g target`, or a pointer to it where it is a struct element of a list -/
def Bound (om : Bool) (g : GType) (target go : GoT) : Prop :=
  go = copyModifiers om g target ∨
    (go = .ptr (copyModifiers om g target) ∧ (copyModifiers om g target).underStruct = true)

theorem underStruct_not_nilable (t : GoT) (h : t.underStruct = true) : t.isNilable = false := by
  induction t with
  | named u ih => simp [GoT.underStruct] at h; simp [GoT.isNilable, ih h]
  | struct => rfl
  | _ => simp [GoT.underStruct] at h

theorem not_nilable_not_ptr (t : GoT) (h : t.isNilable = false) : (GoT.ptr t).isPtrToPtr = false := by
  cases t <;> simp_all [GoT.isNilable, GoT.isPtrToPtr]

theorem intfNamed_nilable (t : GoT) (h : t.isIntfNamed = true) : t.isNilable = true ∧ t.isPtrToPtr = false := by
  cases t with
  | named u => cases u <;> simp_all [GoT.isIntfNamed, GoT.isNilable, GoT.isPtrToPtr]
  | _ => simp [GoT.isIntfNamed] at h

theorem spec_not_fail (g : GType) (v : Val) (w : String) : spec g v ≠ .fail w := by
  cases g <;> cases v <;> simp [spec]

theorem echo_some {go : GoT} {g : GType} {v : Val} (h : echo go g v = spec g v) :
    ∃ y, unmarshal go g v = some y ∧ marshal go g y = spec g v := by
  unfold echo at h
  cases hu : unmarshal go g v with
  | none => rw [hu] at h; exact absurd h.symm (spec_not_fail g v _)
  | some y => rw [hu] at h; exact ⟨y, rfl, h⟩

theorem mapM_echo (c : GoT) (e : GType) (vs : List Val) (h : ∀ x ∈ vs, echo c e x = spec e x) :
    ∃ ys, vs.mapM (unmarshal c e) = some ys ∧ ys.map (marshal c e) = vs.map (spec e) := by
  induction vs with
  | nil => exact ⟨[], rfl, rfl⟩
  | cons x xs ih =>
    obtain ⟨y, hy, hm⟩ := echo_some (h x (by simp))
    obtain ⟨ys, hys, hms⟩ := ih (fun z hz => h z (by simp [hz]))
    exact ⟨y :: ys, by simp [List.mapM_cons, hy, hys], by simp [hm, hms]⟩

theorem echo_eq_spec_bound (om : Bool) (target : GoT) (hpp : target.isPtrToPtr = false) :
    ∀ (g : GType) (go : GoT) (v : Val), Bound om g target go → fits g v = true → echo go g v = spec g v := by
  intro g
  induction g with
  | named tag nn =>
    intro go v hb hfit
    apply named_is_one_leaf _ _ _ _ _ hfit
    intro hnn
    subst hnn
    rcases hb with h | ⟨h, hs⟩
    · subst h
      simp only [copyModifiers]
      by_cases hi : target.isIntfNamed = true
      · simpa [hi] using intfNamed_nilable _ hi
      · by_cases hn : target.isNilable = true
        · simp [hn, hpp]
        · have hn' : target.isNilable = false := by simpa using hn
          have hi' : target.isIntfNamed = false := by simpa using hi
          simp [hi', hn', GoT.isNilable, not_nilable_not_ptr _ hn']
    · exfalso
      simp only [copyModifiers] at hs
      by_cases hi : target.isIntfNamed = true
      · have := intfNamed_nilable _ hi
        simp [hi] at hs
        have := underStruct_not_nilable _ hs
        simp_all
      · by_cases hn : target.isNilable = true
        · simp [hn] at hs
          have := underStruct_not_nilable _ hs
          simp_all
        · have hn' : target.isNilable = false := by simpa using hn
          have hi' : target.isIntfNamed = false := by simpa using hi
          simp [hi', hn', GoT.underStruct] at hs
  | list e nn ih =>
    intro go v hb hfit
    have hgo : ∃ c, go = .slice c ∧ Bound om e target c := by
      rcases hb with h | ⟨_, hs⟩
      · refine ⟨_, h, ?_⟩
        by_cases hc : ((copyModifiers om e target).underStruct && !om) = true
        · simp only [hc, if_true]
          right
          exact ⟨rfl, by simp at hc; exact hc.1⟩
        · simp only [hc]
          left; rfl
      · simp [copyModifiers, GoT.underStruct] at hs
    obtain ⟨c, rfl, hc⟩ := hgo
    cases v with
    | null =>
      have hnn : nn = false := by simpa [fits, GType.nonNull] using hfit
      simp [echo, unmarshal, guardNull, Val.isNull, GType.nonNull, hnn, GoT.isNilable, GoT.isPtrToPtr, marshal,
        isSlice_list_slice, GType.elem?, spec]
    | atom s =>
      have hx : echo c e (.atom s) = spec e (.atom s) := ih c _ hc (by simpa [fits] using hfit)
      obtain ⟨y, hy, hm⟩ := echo_some hx
      simp [echo, unmarshal, guardNull, Val.isNull, marshal, isSlice_list_slice, GType.elem?, spec, coerceList, hy, hm]
    | list vs =>
      have hall : ∀ x ∈ vs, echo c e x = spec e x := by
        intro x hx
        apply ih c x hc
        have := hfit
        simp [fits] at this
        exact this x hx
      obtain ⟨ys, hys, hms⟩ := mapM_echo c e vs hall
      simp [echo, unmarshal, guardNull, Val.isNull, marshal, isSlice_list_slice, GType.elem?, spec, coerceList, hys, hms]

/-- **argument / input-field position**: for every GraphQL type, every bound Go type (slices, maps, pointers, …)
and every input without a null at a non-null position, what the generated unmarshal + marshal functions produce
is the Spec: element-wise exactly at the GraphQL list levels, one call of the bound function per named leaf. -/
theorem echo_eq_spec (om : Bool) (g : GType) (target : GoT) (v : Val)
    (hpp : target.isPtrToPtr = false) (hfit : fits g v = true) :
    echo (copyModifiers om g target) g v = spec g v :=
  echo_eq_spec_bound om target hpp g _ v (Or.inl rfl) hfit

theorem output_eq_spec_bound (om : Bool) (target : GoT) :
    ∀ (g : GType) (go : GoT) (v : Val), Bound om g target go → fits g v = true →
      marshal go g (goValOf g v) = spec g v := by
  intro g
  induction g with
  | named tag nn =>
    intro go v _ _
    rw [marshal_named]
    cases v <;> simp [goValOf, leafOut, spec, GType.tag]
  | list e nn ih =>
    intro go v hb hfit
    have hgo : ∃ c, go = .slice c ∧ Bound om e target c := by
      rcases hb with h | ⟨_, hs⟩
      · refine ⟨_, h, ?_⟩
        by_cases hc : ((copyModifiers om e target).underStruct && !om) = true
        · simp only [hc, if_true]
          right
          exact ⟨rfl, by simp at hc; exact hc.1⟩
        · simp only [hc]
          left; rfl
      · simp [copyModifiers, GoT.underStruct] at hs
    obtain ⟨c, rfl, hc⟩ := hgo
    cases v with
    | null =>
      have hnn : nn = false := by simpa [fits, GType.nonNull] using hfit
      simp [goValOf, marshal, isSlice_list_slice, GType.elem?, GType.nonNull, hnn, spec]
    | atom s =>
      have hx := ih c (.atom s) hc (by simpa [fits] using hfit)
      simp [goValOf, marshal, isSlice_list_slice, GType.elem?, spec, hx]
    | list vs =>
      have hall : ∀ x ∈ vs, marshal c e (goValOf e x) = spec e x := by
        intro x hx
        apply ih c x hc
        have := hfit
        simp [fits] at this
        exact this x hx
      simp [goValOf, marshal, isSlice_list_slice, GType.elem?, spec]
      intro x hx
      exact hall x hx

/-- **output position**: a resolver result with the list structure of the GraphQL type is marshalled to the Spec -/
theorem output_eq_spec (om : Bool) (g : GType) (target : GoT) (v : Val) (hfit : fits g v = true) :
    marshal (copyModifiers om g target) g (goValOf g v) = spec g v :=
  output_eq_spec_bound om target g _ v (Or.inl rfl) hfit

end GqlgenVerif.TypeRef
