import GqlgenVerif.Model.Upload
/-!
# Helper lemmas for C10 (`Model/Upload.lean`)

Association lists, the single-step functions of the `AddUpload` walk (`stepIdx`, `stepKey`), the
inversion of a successful walk, and the frame lemma (`walk_ok_frame`): a successful walk changes
exactly the addressed position.
-/
namespace GqlgenVerif.Upload


theorem assocGet_assocSet_self {α : Type} (l : List (Key × α)) (k : Key) (x : α) :
    assocGet (assocSet l k x) k = some x := by
  induction l with
  | nil => simp [assocSet, assocGet]
  | cons e r ih =>
    obtain ⟨k', v⟩ := e
    by_cases h : k' = k <;> simp [assocSet, assocGet, h, ih]

theorem assocGet_assocSet_ne {α : Type} (l : List (Key × α)) (k q : Key) (x : α) (h : k ≠ q) :
    assocGet (assocSet l k x) q = assocGet l q := by
  induction l with
  | nil => simp [assocSet, assocGet, h]
  | cons e r ih =>
    obtain ⟨k', v⟩ := e
    by_cases h1 : k' = k
    · subst h1; simp [assocSet, assocGet, h]
    · by_cases h2 : k' = q
      · subst h2; simp [assocSet, assocGet, h1]
      · simp [assocSet, assocGet, h1, h2, ih]

theorem stepIdx_ok {g : Guards} {v : UV} {i : Int} {xs : List UV} {n : Nat} :
    stepIdx g v i = .ok (xs, n) → v = .arr xs ∧ 0 ≤ i ∧ n = i.toNat ∧ n < xs.length := by
  unfold stepIdx
  cases v <;> try (intro h; cases h)
  case arr ys =>
    simp only
    split
    · intro h; cases h
    · split
      · intro h; cases h
      · intro h; cases h; refine ⟨rfl, by omega, rfl, by omega⟩

theorem stepIdx_error_notOk {g : Guards} {v : UV} {i : Int} {o : Outcome} :
    stepIdx g v i = .error o → o.isOk = false := by
  unfold stepIdx
  cases v <;> simp only
  case arr xs =>
    split
    · intro h; cases h; split <;> rfl
    · split
      · intro h; cases h; split <;> rfl
      · intro h; cases h
  all_goals (intro h; cases h; split <;> rfl)

theorem stepKey_ok {g : Guards} {v : UV} {r : Option (List (Key × UV))} :
    stepKey g v = .ok r → (∃ kvs, v = .obj kvs ∧ r = some kvs) ∨ (v = .nilmap ∧ r = none) := by
  unfold stepKey
  cases v <;> simp <;> (intro h; exact h.symm)

theorem stepKey_error_notOk {g : Guards} {v : UV} {o : Outcome} :
    stepKey g v = .error o → o.isOk = false := by
  unfold stepKey
  cases v <;> simp only <;> try (intro h; cases h)
  all_goals (try (split <;> rfl))

theorem child_set_idx (xs : List UV) (c : UV) (i : Int) (hi : 0 ≤ i) (s : Seg) (hs : s ≠ .idx i) :
    child (.arr (xs.set i.toNat c)) s = child (.arr xs) s := by
  cases s with
  | idx j =>
    simp only [child]
    split
    · rfl
    · have : i.toNat ≠ j.toNat := by
        intro h; apply hs; congr 1; omega
      exact List.getElem?_set_ne this
  | key k => rfl

theorem child_set_key (kvs : List (Key × UV)) (c : UV) (k : Key) (s : Seg) (hs : s ≠ .key k) :
    child (.obj (assocSet kvs k c)) s = child (.obj kvs) s := by
  cases s with
  | idx j => rfl
  | key k' =>
    simp only [child]
    apply assocGet_assocSet_ne
    intro h; apply hs; rw [h]

theorem lookup_cons_of_child_eq {v v' : UV} {s : Seg} (h : child v' s = child v s) (q : List Seg) :
    lookup v' (s :: q) = lookup v (s :: q) := by
  simp only [lookup, h]



theorem walk_idx_unfold (g : Guards) (v : UV) (i : Int) (rest : List Seg) (up : UV) (hnn : v ≠ .null) :
    walk g v (.idx i :: rest) up = (match stepIdx g v i with
      | .error o => o
      | .ok (xs, n) =>
        match rest with
        | [] => Outcome.ok (.arr (xs.set n up))
        | _ :: _ =>
          match walk g (xs.getD n .null) rest up with
          | .ok c => Outcome.ok (.arr (xs.set n c))
          | o => o) := by
  cases v <;> first | exact absurd rfl hnn | (simp only [walk]; rfl)

theorem walk_key_unfold (g : Guards) (v : UV) (k : Key) (rest : List Seg) (up : UV) (hnn : v ≠ .null) :
    walk g v (.key k :: rest) up = (match stepKey g v with
      | .error o => o
      | .ok none =>
        match rest with
        | [] => if g.nilMap then .err .badPath else .panic .nilMapWrite
        | _ :: _ => .err .nilPtr
      | .ok (some kvs) =>
        match rest with
        | [] => .ok (.obj (assocSet kvs k up))
        | _ :: _ =>
          match walk g ((assocGet kvs k).getD .null) rest up with
          | .ok c => .ok (.obj (assocSet kvs k c))
          | o => o) := by
  cases v <;> first | exact absurd rfl hnn | (simp only [walk]; rfl)

theorem walk_null_cons (g : Guards) (s : Seg) (rest : List Seg) (up : UV) :
    walk g .null (s :: rest) up = .err .nilPtr := by
  cases s <;> simp [walk]

theorem walk_idx_ok {g : Guards} {v : UV} {i : Int} {rest : List Seg} {up v' : UV} :
    walk g v (.idx i :: rest) up = .ok v' →
    ∃ xs, v = .arr xs ∧ 0 ≤ i ∧ i.toNat < xs.length ∧
      ((rest = [] ∧ v' = .arr (xs.set i.toNat up)) ∨
       (rest ≠ [] ∧ ∃ c, walk g (xs.getD i.toNat .null) rest up = .ok c ∧ v' = .arr (xs.set i.toNat c))) := by
  intro hw
  have hnn : v ≠ .null := by
    intro h; subst h; rw [walk_null_cons] at hw; cases hw
  rw [walk_idx_unfold g v i rest up hnn] at hw
  split at hw
  · rename_i o ho; have := stepIdx_error_notOk ho; rw [hw] at this; cases this
  · rename_i xs n ho
    obtain ⟨hv, hi, hn, hlt⟩ := stepIdx_ok ho
    subst hn
    refine ⟨xs, hv, hi, hlt, ?_⟩
    split at hw
    · left; cases hw; exact ⟨rfl, rfl⟩
    · right
      refine ⟨by simp, ?_⟩
      generalize walk g (xs.getD i.toNat .null) (_ :: _) up = o at hw
      cases o <;> simp only at hw <;> try (cases hw)
      exact ⟨_, rfl, rfl⟩

theorem walk_key_ok {g : Guards} {v : UV} {k : Key} {rest : List Seg} {up v' : UV} :
    walk g v (.key k :: rest) up = .ok v' →
    ∃ kvs, v = .obj kvs ∧
      ((rest = [] ∧ v' = .obj (assocSet kvs k up)) ∨
       (rest ≠ [] ∧ ∃ c, walk g ((assocGet kvs k).getD .null) rest up = .ok c ∧ v' = .obj (assocSet kvs k c))) := by
  intro hw
  have hnn : v ≠ .null := by
    intro h; subst h; rw [walk_null_cons] at hw; cases hw
  rw [walk_key_unfold g v k rest up hnn] at hw
  split at hw
  · rename_i o ho; have := stepKey_error_notOk ho; rw [hw] at this; cases this
  · split at hw
    · split at hw <;> cases hw
    · cases hw
  · rename_i kvs ho
    rcases stepKey_ok ho with ⟨kvs', hv, hr⟩ | ⟨_, hr⟩
    · cases hr
      refine ⟨kvs, hv, ?_⟩
      split at hw
      · left; cases hw; exact ⟨rfl, rfl⟩
      · right
        refine ⟨by simp, ?_⟩
        generalize walk g ((assocGet kvs k).getD .null) (_ :: _) up = o at hw
        cases o <;> simp only at hw <;> try (cases hw)
        exact ⟨_, rfl, rfl⟩
    · cases hr

theorem lookup_arr_self (xs : List UV) (c : UV) (i : Int) (hi : 0 ≤ i) (hlt : i.toNat < xs.length) (q : List Seg) :
    lookup (.arr (xs.set i.toNat c)) (.idx i :: q) = lookup c q := by
  simp [lookup, child, if_neg (by omega : ¬ i < 0), List.getElem?_set_self hlt]

theorem lookup_arr_old (xs : List UV) (i : Int) (hi : 0 ≤ i) (hlt : i.toNat < xs.length) (q : List Seg) :
    lookup (.arr xs) (.idx i :: q) = lookup (xs.getD i.toNat .null) q := by
  simp [lookup, child, if_neg (by omega : ¬ i < 0), List.getD_eq_getElem?_getD, List.getElem?_eq_getElem hlt]

theorem lookup_obj_self (kvs : List (Key × UV)) (c : UV) (k : Key) (q : List Seg) :
    lookup (.obj (assocSet kvs k c)) (.key k :: q) = lookup c q := by
  simp [lookup, child, assocGet_assocSet_self]

theorem walk_ok_frame (g : Guards) : ∀ (p : List Seg) (v up v' : UV), p ≠ [] → walk g v p up = .ok v' →
    lookup v' p = some up ∧ ∀ q, ¬ p <+: q → ¬ q <+: p → lookup v' q = lookup v q := by
  intro p
  induction p with
  | nil => intro _ _ _ h; exact absurd rfl h
  | cons s rest ih =>
    intro v up v' _ hw
    cases s with
    | idx i =>
      obtain ⟨xs, hv, hi, hlt, hcase⟩ := walk_idx_ok hw
      subst hv
      have frame : ∀ (c : UV) (q : List Seg), ¬ (Seg.idx i :: rest) <+: q → ¬ q <+: (Seg.idx i :: rest) →
          (∀ q', q = Seg.idx i :: q' → lookup c q' = lookup (xs.getD i.toNat .null) q') →
          lookup (.arr (xs.set i.toNat c)) q = lookup (.arr xs) q := by
        intro c q h1 h2 h3
        cases q with
        | nil => exact absurd List.nil_prefix h2
        | cons s' q' =>
          by_cases hs : s' = Seg.idx i
          · subst hs
            rw [lookup_arr_self xs c i hi hlt, lookup_arr_old xs i hi hlt, h3 q' rfl]
          · exact lookup_cons_of_child_eq (child_set_idx xs c i hi s' hs) q'
      rcases hcase with ⟨hr, hv'⟩ | ⟨hr, c, hc, hv'⟩
      · subst hr; subst hv'
        refine ⟨?_, fun q h1 h2 => frame up q h1 h2 ?_⟩
        · rw [lookup_arr_self xs up i hi hlt]; rfl
        · intro q' hq; subst hq; exact absurd (List.cons_prefix_cons.mpr ⟨rfl, List.nil_prefix⟩) h1
      · subst hv'
        obtain ⟨ih1, ih2⟩ := ih _ _ _ hr hc
        refine ⟨?_, fun q h1 h2 => frame c q h1 h2 ?_⟩
        · rw [lookup_arr_self xs c i hi hlt]; exact ih1
        · intro q' hq; subst hq
          apply ih2
          · intro h; exact h1 (List.cons_prefix_cons.mpr ⟨rfl, h⟩)
          · intro h; exact h2 (List.cons_prefix_cons.mpr ⟨rfl, h⟩)
    | key k =>
      obtain ⟨kvs, hv, hcase⟩ := walk_key_ok hw
      subst hv
      have frame : ∀ (c : UV) (q : List Seg), ¬ (Seg.key k :: rest) <+: q → ¬ q <+: (Seg.key k :: rest) →
          (∀ q', q = Seg.key k :: q' → lookup c q' = lookup (.obj kvs) (Seg.key k :: q')) →
          lookup (.obj (assocSet kvs k c)) q = lookup (.obj kvs) q := by
        intro c q h1 h2 h3
        cases q with
        | nil => exact absurd List.nil_prefix h2
        | cons s' q' =>
          by_cases hs : s' = Seg.key k
          · subst hs
            rw [lookup_obj_self, h3 q' rfl]
          · exact lookup_cons_of_child_eq (child_set_key kvs c k s' hs) q'
      rcases hcase with ⟨hr, hv'⟩ | ⟨hr, c, hc, hv'⟩
      · subst hr; subst hv'
        refine ⟨?_, fun q h1 h2 => frame up q h1 h2 ?_⟩
        · rw [lookup_obj_self]; rfl
        · intro q' hq; subst hq; exact absurd (List.cons_prefix_cons.mpr ⟨rfl, List.nil_prefix⟩) h1
      · subst hv'
        obtain ⟨ih1, ih2⟩ := ih _ _ _ hr hc
        refine ⟨?_, fun q h1 h2 => frame c q h1 h2 ?_⟩
        · rw [lookup_obj_self]; exact ih1
        · intro q' hq; subst hq
          -- the child existed: otherwise the recursive walk started from nil and failed
          cases hg : assocGet kvs k with
          | none =>
            rw [hg] at hc
            cases rest with
            | nil => exact absurd rfl hr
            | cons r rs => rw [show (none : Option UV).getD .null = .null from rfl, walk_null_cons] at hc; cases hc
          | some c0 =>
            rw [hg] at hc
            have : lookup (.obj kvs) (Seg.key k :: q') = lookup c0 q' := by simp [lookup, child, hg]
            rw [this]
            rw [hg] at ih2
            apply ih2
            · intro h; exact h1 (List.cons_prefix_cons.mpr ⟨rfl, h⟩)
            · intro h; exact h2 (List.cons_prefix_cons.mpr ⟨rfl, h⟩)


theorem stepIdx_noPanic (g : Guards) (h1 : g.assertArr = true) (h2 : g.lower = true) (h3 : g.upper = true)
    (v : UV) (i : Int) (o : Outcome) : stepIdx g v i = .error o → o.isPanic = false := by
  unfold stepIdx
  cases v <;> simp only [h1, h2, h3, if_true]
  case arr xs =>
    split
    · intro h; cases h; rfl
    · split
      · intro h; cases h; rfl
      · intro h; cases h
  all_goals (intro h; cases h; rfl)

theorem stepKey_noPanic (g : Guards) (h4 : g.assertMap = true)
    (v : UV) (o : Outcome) : stepKey g v = .error o → o.isPanic = false := by
  unfold stepKey
  cases v <;> simp only [h4, if_true]
  all_goals (intro h; cases h; try rfl)

theorem isPanic_bind (o : Outcome) (f : UV → UV) (h : o.isPanic = false) :
    (match o with | .ok c => Outcome.ok (f c) | o => o).isPanic = false := by
  cases o <;> simp_all [Outcome.isPanic]

theorem walk_total (g : Guards) (h1 : g.assertArr = true) (h2 : g.lower = true) (h3 : g.upper = true)
    (h4 : g.assertMap = true) (h5 : g.nilMap = true) (segs : List Seg) :
    ∀ (v up : UV), (walk g v segs up).isPanic = false := by
  induction segs with
  | nil => intro v up; cases v <;> simp [walk, Outcome.isPanic]
  | cons s rest ih =>
    intro v up
    cases s with
    | idx i =>
      cases v <;> simp only [walk] <;> try rfl
      all_goals
        split
        · rename_i o ho; exact stepIdx_noPanic g h1 h2 h3 _ _ _ ho
        · split
          · rfl
          · exact isPanic_bind _ _ (ih _ _)
    | key k =>
      cases v <;> simp only [walk] <;> try rfl
      all_goals
        split
        · rename_i o ho; exact stepKey_noPanic g h4 _ _ ho
        · split
          · simp [h5, Outcome.isPanic]
          · rfl
        · split
          · rfl
          · exact isPanic_bind _ _ (ih _ _)


theorem splitDot_ne_nil (s : List Char) : splitDot s ≠ [] := by
  induction s with
  | nil => simp [splitDot]
  | cons c cs ih =>
    simp only [splitDot]
    split
    · simp
    · split <;> simp

theorem parsePath_ne_nil {path : List Char} {segs : List Seg} (h : parsePath path = some segs) : segs ≠ [] := by
  unfold parsePath at h
  split at h
  · cases h
  · cases h
    intro hn
    exact splitDot_ne_nil _ (List.map_eq_nil_iff.mp hn)

theorem addUpload_ok {g : Guards} {v : UV} {path : List Char} {up v' : UV} (h : addUpload g v path up = .ok v') :
    ∃ segs, parsePath path = some segs ∧ segs ≠ [] ∧ walk g v segs up = .ok v' := by
  unfold addUpload at h
  split at h
  · cases h
  · rename_i segs hs
    exact ⟨segs, hs, parsePath_ne_nil hs, h⟩

theorem applyPaths_frame (g : Guards) (segs : List Seg) : ∀ (rest : List (List Char × Nat)) (v1 v : UV),
    applyPaths g v1 rest = some v →
    (∀ b ∈ rest, ∀ sb, parsePath b.1 = some sb → Indep segs sb) →
    lookup v segs = lookup v1 segs := by
  intro rest
  induction rest with
  | nil => intro v1 v h _; simp only [applyPaths] at h; cases h; rfl
  | cons b rest ih =>
    intro v1 v h hind
    obtain ⟨p, id⟩ := b
    simp only [applyPaths] at h
    split at h
    · rename_i v2 hw
      obtain ⟨sb, hsb, hne, hwalk⟩ := addUpload_ok hw
      have hi := hind (p, id) List.mem_cons_self sb hsb
      have := (walk_ok_frame g sb v1 _ v2 hne hwalk).2 segs hi.2 hi.1
      rw [ih v2 v h (fun b hb => hind b (List.mem_cons_of_mem _ hb)), this]
    · cases h

theorem applyPaths_lookup (g : Guards) : ∀ (as : List (List Char × Nat)) (v0 v : UV),
    applyPaths g v0 as = some v →
    as.Pairwise (fun a b => ∀ sa sb, parsePath a.1 = some sa → parsePath b.1 = some sb → Indep sa sb) →
    ∀ a ∈ as, ∃ segs, parsePath a.1 = some segs ∧ lookup v segs = some (.upload a.2) := by
  intro as
  induction as with
  | nil => intro _ _ _ _ a ha; cases ha
  | cons b rest ih =>
    intro v0 v h hpw a ha
    obtain ⟨p, id⟩ := b
    simp only [applyPaths] at h
    split at h
    · rename_i v1 hw
      rw [List.pairwise_cons] at hpw
      rcases List.mem_cons.mp ha with rfl | ha
      · obtain ⟨segs, hs, hne, hwalk⟩ := addUpload_ok hw
        refine ⟨segs, hs, ?_⟩
        rw [applyPaths_frame g segs rest v1 v h (fun b hb sb hsb => hpw.1 b hb segs sb hs hsb)]
        exact (walk_ok_frame g segs v0 _ v1 hne hwalk).1
      · exact ih v1 v h hpw.2 a ha
    · cases h


theorem addUpload_total (g : Guards) (h1 : g.assertArr = true) (h2 : g.lower = true) (h3 : g.upper = true)
    (h4 : g.assertMap = true) (h5 : g.nilMap = true) (v : UV) (path : List Char) (up : UV) :
    (addUpload g v path up).isPanic = false := by
  unfold addUpload
  split
  · rfl
  · exact walk_total g h1 h2 h3 h4 h5 _ _ _

theorem toExit_isPanic (o : Outcome) : o.toExit.isPanic = o.isPanic := by
  cases o <;> rfl


end GqlgenVerif.Upload
